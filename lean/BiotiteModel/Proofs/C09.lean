import BiotiteModel.Model.C09
import BiotiteModel.Proofs.C08
/-! Helper lemmas for C09 (core Lean only; re-uses `walk_append`, `Rec.val_*` from Proofs/C08). -/
namespace BiotiteModel.C09
open BiotiteModel BiotiteModel.C08

/-! ## completion by the unaligned ends is an end-to-end alignment -/

theorem walk_gapBs (k : Nat) : ∀ i j, walk (i, j) (gapBs i k) = some (i + k, j) := by
  induction k with
  | zero => intro i j; simp [gapBs, walk]
  | succ k ih =>
    intro i j
    simp only [gapBs, walk, stepPos, if_true]
    rw [ih (i + 1) j]
    congr 2; omega

theorem walk_gapAs (k : Nat) : ∀ i j, walk (i, j) (gapAs j k) = some (i, j + k) := by
  induction k with
  | zero => intro i j; simp [gapAs, walk]
  | succ k ih =>
    intro i j
    simp only [gapAs, walk, stepPos, if_true]
    rw [ih i (j + 1)]
    congr 2; omega

theorem complete_valid (a b : Seq) (aln : Aln) (i1 j1 : Nat)
    (hw : walk (firstA aln, firstB aln) aln = some (i1, j1)) (hi : i1 ≤ a.length) (hj : j1 ≤ b.length) :
    ValidGlobal a b (complete a b aln) := by
  unfold ValidGlobal complete
  simp only [hw]
  rw [walk_append, walk_append, walk_append, walk_append]
  have h1 := walk_gapBs (firstA aln) 0 0
  have h2 := walk_gapAs (firstB aln) (0 + firstA aln) 0
  have h3 := walk_gapBs (a.length - i1) i1 j1
  have h4 := walk_gapAs (b.length - j1) (i1 + (a.length - i1)) j1
  simp only [Nat.zero_add] at h1 h2
  rw [h1]; simp only [Option.bind]
  rw [h2]; simp only [Option.bind]
  rw [hw]; simp only [Option.bind]
  rw [h3]; simp only [Option.bind]
  rw [h4]
  congr 2 <;> omega

theorem validB_local_walk (a b : Seq) (aln : Aln) (h : validB .local a b aln = true) :
    ∃ i1 j1, walk (firstA aln, firstB aln) aln = some (i1, j1) ∧ i1 ≤ a.length ∧ j1 ≤ b.length := by
  simp only [validB] at h
  split at h
  · rename_i i1 j1 hw
    simp only [Bool.and_eq_true, decide_eq_true_eq] at h
    exact ⟨i1, j1, hw, h.1, h.2⟩
  · simp at h

/-! ## band and seed clauses of the checker -/

theorem bandOk_sound (d1 d2 : Int) (aln : Aln) (h : bandOk (some (d1, d2)) aln = true) (i j : Nat)
    (hm : Col.both i j ∈ aln) : min d1 d2 ≤ (j : Int) - (i : Int) ∧ (j : Int) - (i : Int) ≤ max d1 d2 := by
  simp only [bandOk, List.all_eq_true] at h
  have := h _ hm
  simpa [inBandCol] using this

theorem seedOk_sound (si sj : Nat) (dir : XDir) (aln : Aln) (h : seedOk (some (si, sj)) dir aln = true) :
    Col.both si sj ∈ aln ∧ (dir = .upstream → aln.getLast? = some (.both si sj)) ∧
      (dir = .downstream → aln.head? = some (.both si sj)) := by
  simp only [seedOk, Bool.and_eq_true, List.contains_iff_mem] at h
  refine ⟨h.1, ?_, ?_⟩
  · intro hd; subst hd; simpa using h.2
  · intro hd; subst hd; simpa using h.2

/-! ## ungapped X-drop extension -/

/-- best prefix sum: `max 0 (s₀ + max 0 (s₁ + …))` = the maximum of the sums of all prefixes (incl. the empty one) -/
def bestPrefix : List Int → Int
  | [] => 0
  | s :: r => max 0 (s + bestPrefix r)

/-- the slack: the sum of the magnitudes of the negative steps (no drop below the running maximum can exceed it) -/
def negSum : List Int → Int
  | [] => 0
  | s :: r => max 0 (-s) + negSum r

theorem bestPrefix_nonneg (l : List Int) : 0 ≤ bestPrefix l := by
  cases l <;> simp [bestPrefix]; omega

theorem negSum_nonneg (l : List Int) : 0 ≤ negSum l := by
  induction l with
  | nil => simp [negSum]
  | cons s r ih => simp only [negSum]; omega

theorem bestPrefix_ge_take (l : List Int) : ∀ k, (l.take k).sum ≤ bestPrefix l := by
  induction l with
  | nil => intro k; simp [bestPrefix]
  | cons s r ih =>
    intro k
    cases k with
    | zero => simp [bestPrefix]; omega
    | succ k => have := ih k; simp only [List.take_succ_cons, List.sum_cons, bestPrefix]; omega

theorem bestPrefix_attained (l : List Int) : ∃ k, k ≤ l.length ∧ (l.take k).sum = bestPrefix l := by
  induction l with
  | nil => exact ⟨0, by simp, by simp [bestPrefix]⟩
  | cons s r ih =>
    obtain ⟨k, hk, hs⟩ := ih
    by_cases h : 0 ≤ s + bestPrefix r
    · exact ⟨k + 1, by simp; omega, by simp only [List.take_succ_cons, List.sum_cons, bestPrefix, hs]; omega⟩
    · exact ⟨0, by simp, by simp only [List.take_zero, List.sum_nil, bestPrefix]; omega⟩

/-- the fold of `xdropStep` from a non-stopped state: with enough slack it never stops and tracks the best prefix -/
theorem xdrop_fold (thr : Int) (l : List Int) : ∀ (st : XState), st.stopped = false → st.total ≤ st.best →
    st.best - st.total + negSum l ≤ thr →
    (l.foldl (xdropStep thr) st).best = max st.best (st.total + bestPrefix l) := by
  induction l with
  | nil => intro st _ h2 _; simp [bestPrefix]; omega
  | cons s r ih =>
    intro st h1 h2 h3
    simp only [List.foldl_cons]
    have hn := negSum_nonneg r
    have hb := bestPrefix_nonneg r
    simp only [negSum] at h3
    by_cases hc : st.total + s ≥ st.best
    · have hst : xdropStep thr st s = ⟨st.total + s, st.total + s, st.idx + 1, st.idx + 1, false⟩ := by
        simp [xdropStep, h1, hc]
      rw [hst, ih _ rfl (by simp) (by simp; omega)]
      simp only [bestPrefix]; omega
    · have hd : ¬ (st.best - (st.total + s) > thr) := by omega
      have hst : xdropStep thr st s = ⟨st.total + s, st.best, st.len, st.idx + 1, false⟩ := by
        simp [xdropStep, h1, hc, hd]
      rw [hst, ih _ rfl (by simp; omega) (by simp; omega)]
      simp only [bestPrefix]; omega

/-! ## score_only code path = full code path -/

theorem traceLin_snd (d l t : Int) : (traceLin d l t).2 = max d (max l t) := by
  unfold traceLin
  repeat' split
  all_goals simp only
  all_goals omega

theorem traceAffM_eq (x y z : Int) : traceAffM x y z = max x (max y z) := by
  unfold traceAffM
  repeat' split
  all_goals omega

theorem traceAffG_eq (x y : Int) : traceAffG x y = max x y := by
  unfold traceAffG
  repeat' split
  all_goals omega

theorem regCellsLin_so (M : Mat) (g thr : Int) (x y : Seq) (k : Nat) (d1 d2 : List (Nat × Int)) (is : List Nat) :
    ∀ acc, regCellsLin true M g thr x y k d1 d2 is acc = regCellsLin false M g thr x y k d1 d2 is acc := by
  induction is with
  | nil => intro acc; rfl
  | cons i rest ih =>
    intro acc
    obtain ⟨cur, mn, mx, best⟩ := acc
    simp only [regCellsLin, traceLin_snd, ih, if_true, Bool.false_eq_true, if_false]

theorem regStepLin_so (M : Mat) (g thr : Int) (x y : Seq) (mts : Option Int) (gf : Nat) (st : RegState) (k : Nat) :
    regStepLin true M g thr x y mts gf st k = regStepLin false M g thr x y mts gf st k := by
  simp only [regStepLin, regCellsLin_so]

theorem regionLin_so (M : Mat) (g thr : Int) (x y : Seq) (mts : Option Int) (a b c : Nat) :
    regionLin true M g thr x y mts a b c = regionLin false M g thr x y mts a b c := by
  have : regStepLin true M g thr x y mts c = regStepLin false M g thr x y mts c := by
    funext st k; exact regStepLin_so ..
  simp only [regionLin, this]

theorem regCellsAff_so (M : Mat) (go ge thr : Int) (x y : Seq) (k : Nat) (d1 d2 : List (Nat × ACell)) (is : List Nat) :
    ∀ acc, regCellsAff true M go ge thr x y k d1 d2 is acc = regCellsAff false M go ge thr x y k d1 d2 is acc := by
  induction is with
  | nil => intro acc; rfl
  | cons i rest ih =>
    intro acc
    obtain ⟨cur, mn, mx, best, mMax⟩ := acc
    simp only [regCellsAff, traceAffM_eq, traceAffG_eq, ih, if_true, Bool.false_eq_true, if_false]

theorem regStepAff_so (M : Mat) (go ge thr : Int) (x y : Seq) (mts : Option Int) (gf : Nat) (st : RegStateA) (k : Nat) :
    regStepAff true M go ge thr x y mts gf st k = regStepAff false M go ge thr x y mts gf st k := by
  simp only [regStepAff, regCellsAff_so]

theorem regionAff_so (M : Mat) (go ge thr : Int) (x y : Seq) (mts : Option Int) (a b c : Nat) :
    regionAff true M go ge thr x y mts a b c = regionAff false M go ge thr x y mts a b c := by
  have : regStepAff true M go ge thr x y mts c = regStepAff false M go ge thr x y mts c := by
    funext st k; exact regStepAff_so ..
  simp only [regionAff, this]

theorem regionAlign_so (M : Mat) (gap : Gap) (thr : Int) (x y : Seq) (mts : Option Int) (a b c : Nat) :
    regionAlign true M gap thr x y mts a b c = regionAlign false M gap thr x y mts a b c := by
  cases gap with
  | lin g => exact regionLin_so ..
  | aff go ge => exact regionAff_so ..

/-! ## the incrementally built table is C08's table -/

theorem rowsGo_eq {α : Type} (R : Rec α) (m : Nat) : ∀ (k i : Nat),
    rowsGo R i k (R.row m i) = (List.range' i (k + 1)).map (R.row m) := by
  intro k
  induction k with
  | zero => intro i; simp [rowsGo]
  | succ k ih =>
    intro i
    have h : R.nextRow i (R.row m i) = R.row m (i + 1) := rfl
    rw [rowsGo, h, ih (i + 1)]
    simp [List.range'_succ]

theorem tableFast_eq {α : Type} (R : Rec α) (m n : Nat) : tableFast R m n = R.table m n := by
  unfold tableFast Rec.table
  rw [rowsGo_eq, List.range_eq_range']

theorem optTFast_eq (mode : Mode) (gap : Gap) (M : Mat) (a b : Seq) : optTFast mode gap M a b = optT mode gap M a b := by
  cases mode <;> cases gap <;> simp [optTFast, optT, optLinT, optAffT, fillLin, fillAff, tableFast_eq]

end BiotiteModel.C09

import BiotiteModel.Proofs.C18Ctab
/-! # C18 — helper lemmas for the V3000 write → read round trip -/
namespace BiotiteModel.C18

theorem noQ_joinSp (ts : List Line) (h : ∀ t ∈ ts, NoQ t) : NoQ (joinSp ts) := by
  induction ts with
  | nil => exact NoQ.nil
  | cons t ts ih =>
    cases ts with
    | nil => exact h t (by simp)
    | cons u ts =>
      rw [joinSp_cons2]
      exact NoQ.append (h t (by simp)) (NoQ.cons (by decide) (ih (fun x hx => h x (by simp [hx]))))

theorem chgPrefix : "CHG=".toList = ['C', 'H', 'G', '='] := by decide

theorem atomToks_noQ (i : Nat) (a : Atom) (he : ElemOk a.elem) : ∀ t ∈ atomToks i a, NoQ t := by
  intro t ht
  simp only [atomToks, List.mem_append, List.mem_cons, List.mem_nil_iff, or_false] at ht
  rcases ht with (rfl | rfl | rfl | rfl | rfl | rfl) | ht
  · exact natRepr_noQ _
  · exact noQ_of_alnum he.2.2.2
  · exact fmt4_noQ _
  · exact fmt4_noQ _
  · exact fmt4_noQ _
  · exact NoQ.cons (by decide) NoQ.nil
  · split at ht
    · simp at ht
    · simp only [List.mem_cons, List.mem_nil_iff, or_false] at ht
      subst ht
      rw [chgPrefix]
      exact NoQ.cons (by decide) (NoQ.cons (by decide) (NoQ.cons (by decide) (NoQ.cons (by decide) (intRepr_noQ _))))

theorem not_mem_of_isDig (ch : Char) (hch : isDig ch = false) (s : Line) (h : ∀ c ∈ s, isDig c = true) : ch ∉ s := by
  intro hm
  have := h ch hm
  rw [hch] at this
  cases this

theorem eq_not_mem_intRepr (i : Int) : '=' ∉ intRepr i := by
  unfold intRepr
  split
  · intro h
    rcases List.mem_cons.mp h with h | h
    · exact absurd h (by decide)
    · exact not_mem_of_isDig '=' (by decide) _ (natRepr_isDig _) h
  · exact not_mem_of_isDig '=' (by decide) _ (natRepr_isDig _)

theorem propsCharge_chg (c : Int) :
    propsCharge ["CHG=".toList ++ intRepr c] none = .ok (some (intRepr c)) := by
  rw [chgPrefix]
  obtain ⟨h1, h2⟩ := takeWhile_append_stop (· != '=') ['C', 'H', 'G'] (intRepr c) '=' (by decide) (by decide)
  have e : ['C', 'H', 'G', '='] ++ intRepr c = ['C', 'H', 'G'] ++ '=' :: intRepr c := rfl
  have hc : (intRepr c).contains '=' = false := by
    cases e : (intRepr c).contains '=' with
    | false => rfl
    | true => exact absurd (by simpa using e) (eq_not_mem_intRepr c)
  unfold propsCharge
  rw [e]
  simp only [h1, h2, hc, Bool.false_eq_true, if_false]
  have : (['C', 'H', 'G'] == "CHG".toList) = true := by decide
  simp only [this, if_true]
  rfl

theorem cap_ne_R (e : Line) (he : ElemOk e) : (capitalize e == "R#".toList) = false := by
  cases h : (capitalize e == "R#".toList) with
  | false => rfl
  | true =>
    have : capitalize e = "R#".toList := by simpa using h
    have h2 := he.2.2.2
    rw [this] at h2
    exact absurd h2 (by decide)

theorem readAtomV3000_write (i : Nat) (a : Atom) (he : ElemOk a.elem) :
    readAtomV3000 (joinSp (atomToks i a)) = .ok (((i + 1 : Nat) : Int), a.rt) := by
  have hq := contains_false_of_noQ (noQ_joinSp _ (atomToks_noQ i a he))
  have hs := splitWs_joinSp _ (atomToks_ok i a he)
  have hel : storeElem (upper (capitalize a.elem)) = a.elem := by
    rw [he.2.2.1]; exact List.take_of_length_le he.2.1
  unfold readAtomV3000
  simp only [hq.1, hq.2, Bool.or_self, Bool.false_eq_true, if_false, hs]
  by_cases hc : a.charge = 0
  · simp only [atomToks, hc, if_true, List.append_nil, pyIntE, pyInt_natRepr_tight, bind, Except.bind,
      cap_ne_R _ he, Bool.false_eq_true, if_false, List.take, List.drop, List.mapM_cons, List.mapM_nil, pyFloatE,
      pyFloat_fmt4_tight, pure, Except.pure, propsCharge, hel]
    simp [Atom.rt, hc]
  · simp only [atomToks, hc, if_false, List.cons_append, List.nil_append, pyIntE, pyInt_natRepr_tight, bind, Except.bind,
      cap_ne_R _ he, Bool.false_eq_true, List.take, List.drop, List.mapM_cons, List.mapM_nil, pyFloatE,
      pyFloat_fmt4_tight, pure, Except.pure, propsCharge_chg, pyInt_intRepr_tight, hel]
    simp [Atom.rt]

/-! ## bond lines -/

def bondToks (dc k : Nat) (b : Nat × Nat × Nat) : List Line :=
  [natRepr (k + 1), natRepr ((codeOfBond b.2.2).getD dc), natRepr (b.1 + 1), natRepr (b.2.1 + 1)]

theorem bondLineV3000_eq (dc k : Nat) (b : Nat × Nat × Nat) : bondLineV3000 dc k b = joinSp (bondToks dc k b) := by
  simp [bondLineV3000, bondToks, joinSp, List.append_assoc]

theorem bondToks_ok (dc k : Nat) (b : Nat × Nat × Nat) : ∀ t ∈ bondToks dc k b, NoSp t ∧ t ≠ [] := by
  intro t ht
  simp only [bondToks, List.mem_cons, List.mem_nil_iff, or_false] at ht
  rcases ht with rfl | rfl | rfl | rfl <;> exact ⟨natRepr_noSp _, natRepr_ne_nil _⟩

theorem bond_v30_strip (dc k : Nat) (b : Nat × Nat × Nat) :
    strip ((v30 (bondLineV3000 dc k b)).drop 6) = joinSp (bondToks dc k b) := by
  obtain ⟨hl, hr⟩ := joinSp_tight (bondToks dc k b) (by simp [bondToks]) (bondToks_ok dc k b)
  have hd : (v30 (bondLineV3000 dc k b)).drop 6 = ' ' :: bondLineV3000 dc k b := by unfold v30; rfl
  rw [hd, bondLineV3000_eq]
  have := strip_pad 1 0 (joinSp (bondToks dc k b)) hl hr
  simpa using this

theorem readBondV3000_write (idx : List (Int × Nat)) (dc k : Nat) (b : Nat × Nat × Nat)
    (hi : lookupLast ((b.1 + 1 : Nat) : Int) idx = some b.1) (hj : lookupLast ((b.2.1 + 1 : Nat) : Int) idx = some b.2.1) :
    readBondV3000 idx (joinSp (bondToks dc k b))
      = .ok (((b.1 + 1 : Nat) : Int), ((b.2.1 + 1 : Nat) : Int), (bondOfCode (((codeOfBond b.2.2).getD dc : Nat) : Int)).getD 0) := by
  unfold readBondV3000
  rw [splitWs_joinSp _ (bondToks_ok dc k b)]
  simp only [bondToks, pyIntE, pyInt_natRepr_tight, bind, Except.bind, hi, hj, pure, Except.pure]
  simp

/-! ## the atom index map -/

theorem lookupLast_idx {α : Type} (l : List α) (s : Nat) (k : Int) :
    lookupLast k (mapIdxFrom (fun i (_ : α) => (((i + 1 : Nat) : Int), i)) s l)
      = if (s : Int) + 1 ≤ k ∧ k ≤ (s : Int) + l.length then some (k - 1).toNat else none := by
  induction l generalizing s with
  | nil =>
    simp only [mapIdxFrom, lookupLast, List.length_nil]
    split
    · omega
    · rfl
  | cons x l ih =>
    simp only [mapIdxFrom, lookupLast, ih (s + 1), List.length_cons]
    by_cases h1 : ((s + 1 : Nat) : Int) + 1 ≤ k ∧ k ≤ ((s + 1 : Nat) : Int) + (l.length : Int)
    · have h2 : (s : Int) + 1 ≤ k ∧ k ≤ (s : Int) + ((l.length + 1 : Nat) : Int) := by omega
      simp only [h1, h2, and_self, if_true]
    · simp only [h1, if_false]
      by_cases h3 : ((s + 1 : Nat) : Int) = k
      · have h2 : (s : Int) + 1 ≤ k ∧ k ≤ (s : Int) + ((l.length + 1 : Nat) : Int) := by omega
        simp only [h3, if_true, h2, and_self]
        congr 1; omega
      · have h2 : ¬ ((s : Int) + 1 ≤ k ∧ k ≤ (s : Int) + ((l.length + 1 : Nat) : Int)) := by omega
        simp only [h3, if_false, h2]

/-! ## blocks -/

theorem startsWith_false_of_head (p l : Line) (c d : Char) (p' l' : Line) (hp : p = c :: p') (hl : l = d :: l')
    (hcd : c ≠ d) : startsWith p l = false := by
  subst hp; subst hl
  simp only [startsWith, List.length_cons, List.take_succ_cons]
  cases h : (d :: List.take p'.length l' == c :: p') with
  | false => rfl
  | true =>
    have : d :: List.take p'.length l' = c :: p' := by simpa using h
    simp only [List.cons.injEq] at this
    exact absurd this.1.symm hcd

/-- a line that starts with a digit is neither `BEGIN x` nor `END x` -/
theorem digitLine_not_marker (name l : Line) (c : Char) (l' : Line) (hl : l = c :: l') (hc : isDig c = true) :
    startsWith ("BEGIN ".toList ++ name) l = false ∧ startsWith ("END ".toList ++ name) l = false := by
  constructor
  · exact startsWith_false_of_head _ l 'B' c ("EGIN ".toList ++ name) l' rfl hl
      (by intro e; subst e; exact absurd hc (by decide))
  · exact startsWith_false_of_head _ l 'E' c ("ND ".toList ++ name) l' rfl hl
      (by intro e; subst e; exact absurd hc (by decide))

theorem getBlock_collect (name : Line) (xs : List Line)
    (hx : ∀ l ∈ xs, startsWith ("BEGIN ".toList ++ name) l = false ∧ startsWith ("END ".toList ++ name) l = false)
    (acc rest : List Line) :
    getBlock name true acc (xs ++ rest) = getBlock name true (xs.reverse ++ acc) rest := by
  induction xs generalizing acc with
  | nil => rfl
  | cons x xs ih =>
    obtain ⟨h1, h2⟩ := hx x (by simp)
    simp only [List.cons_append, getBlock, h1, h2, Bool.false_eq_true, if_false, if_true]
    rw [ih (fun y hy => hx y (by simp [hy]))]
    simp

theorem getBlock_skip (name : Line) (xs : List Line)
    (hx : ∀ l ∈ xs, startsWith ("BEGIN ".toList ++ name) l = false ∧ startsWith ("END ".toList ++ name) l = false)
    (rest : List Line) :
    getBlock name false [] (xs ++ rest) = getBlock name false [] rest := by
  induction xs with
  | nil => rfl
  | cons x xs ih =>
    obtain ⟨h1, h2⟩ := hx x (by simp)
    simp only [List.cons_append, getBlock, h1, h2, Bool.false_eq_true, if_false]
    exact ih (fun y hy => hx y (by simp [hy]))

theorem joinSp_head_digit (n : Nat) (ts : List Line) : ∃ c l', joinSp (natRepr n :: ts) = c :: l' ∧ isDig c = true := by
  obtain ⟨c, cs, h, hd⟩ := natRepr_head n
  cases ts with
  | nil => exact ⟨c, cs, by simp [joinSp, h], hd⟩
  | cons u ts => exact ⟨c, cs ++ ' ' :: joinSp (u :: ts), by rw [joinSp_cons2, h]; rfl, hd⟩

/-! ## `mapIdxFrom` -/

theorem map_mapIdxFrom {α β γ : Type} (f : Nat → α → β) (g : β → γ) (s : Nat) (l : List α) :
    (mapIdxFrom f s l).map g = mapIdxFrom (fun i a => g (f i a)) s l := by
  induction l generalizing s with
  | nil => rfl
  | cons x l ih => simp [mapIdxFrom, ih]

theorem mapIdxFrom_comp {α β γ : Type} (f : Nat → α → β) (F : Nat → β → γ) (s : Nat) (l : List α) :
    mapIdxFrom F s (mapIdxFrom f s l) = mapIdxFrom (fun i a => F i (f i a)) s l := by
  induction l generalizing s with
  | nil => rfl
  | cons x l ih => simp [mapIdxFrom, ih]

theorem mapIdxFrom_const {α β : Type} (g : α → β) (s : Nat) (l : List α) :
    mapIdxFrom (fun _ a => g a) s l = l.map g := by
  induction l generalizing s with
  | nil => rfl
  | cons x l ih => simp [mapIdxFrom, ih]

theorem mapIdxFrom_length {α β : Type} (f : Nat → α → β) (s : Nat) (l : List α) :
    (mapIdxFrom f s l).length = l.length := by
  induction l generalizing s with
  | nil => rfl
  | cons x l ih => simp [mapIdxFrom, ih]

theorem mapIdxFrom_congr {α β : Type} (f g : Nat → α → β) (s : Nat) (l : List α)
    (h : ∀ i, ∀ a ∈ l, f i a = g i a) : mapIdxFrom f s l = mapIdxFrom g s l := by
  induction l generalizing s with
  | nil => rfl
  | cons x l ih =>
    simp only [mapIdxFrom, h s x (by simp), ih (s + 1) (fun i a ha => h i a (by simp [ha]))]

theorem mem_mapIdxFrom {α β : Type} (f : Nat → α → β) (s : Nat) (l : List α) (y : β)
    (h : y ∈ mapIdxFrom f s l) : ∃ i a, a ∈ l ∧ y = f i a := by
  induction l generalizing s with
  | nil => simp [mapIdxFrom] at h
  | cons x l ih =>
    simp only [mapIdxFrom, List.mem_cons] at h
    rcases h with rfl | h
    · exact ⟨s, x, by simp, rfl⟩
    · obtain ⟨i, a, ha, hy⟩ := ih (s + 1) h
      exact ⟨i, a, by simp [ha], hy⟩

theorem mapM_mapIdxFrom_ok {α γ β : Type} (f : Nat → α → γ) (g : γ → Except Err β) (r : Nat → α → β)
    (s : Nat) (l : List α) (h : ∀ i, ∀ a ∈ l, g (f i a) = .ok (r i a)) :
    (mapIdxFrom f s l).mapM g = .ok (mapIdxFrom r s l) := by
  induction l generalizing s with
  | nil => rfl
  | cons x l ih =>
    simp [mapIdxFrom, List.mapM_cons, h s x (by simp), ih (s + 1) (fun i a ha => h i a (by simp [ha])),
      bind, Except.bind, pure, Except.pure]

/-! ## the whole V3000 table -/

theorem strip_sp_cons (s : Line) : strip (' ' :: s) = strip s := by
  simp [strip, stripL, isSp_space]

/-- the `M  V30` lines after `line[6:].strip()` -/
def normBody (m : Mol) (dc : Nat) : List Line :=
  ["BEGIN CTAB".toList,
    strip ("COUNTS ".toList ++ natRepr m.atoms.length ++ ' ' :: natRepr m.bonds.length ++ " 0 0 0".toList)]
  ++ ("BEGIN ATOM".toList :: (mapIdxFrom (fun i a => joinSp (atomToks i a)) 0 m.atoms
  ++ ("END ATOM".toList :: "BEGIN BOND".toList :: (mapIdxFrom (fun k b => joinSp (bondToks dc k b)) 0 m.bonds
  ++ ["END BOND".toList, "END CTAB".toList]))))

theorem v30_eq (l : Line) : v30 l = 'M' :: ' ' :: ' ' :: 'V' :: '3' :: '0' :: ' ' :: l := by
  have : "M  V30 ".toList = ['M', ' ', ' ', 'V', '3', '0', ' '] := by decide
  unfold v30; rw [this]; rfl

theorem v30_startsWith (l : Line) : startsWith "M  V30".toList (v30 l) = true := by
  have h6 : "M  V30".toList = ['M', ' ', ' ', 'V', '3', '0'] := by decide
  rw [v30_eq, h6]
  simp [startsWith]

theorem v30_norm (l : Line) : strip ((v30 l).drop 6) = strip l := by
  have : (v30 l).drop 6 = ' ' :: l := by rw [v30_eq]; rfl
  rw [this, strip_sp_cons]

theorem v30s_write (m : Mol) (dc : Nat) (hw : WFMol m) :
    ((([compatLine] ++ (["BEGIN CTAB".toList,
       "COUNTS ".toList ++ natRepr m.atoms.length ++ ' ' :: natRepr m.bonds.length ++ " 0 0 0".toList,
       "BEGIN ATOM".toList]
      ++ mapIdxFrom atomLineV3000 0 m.atoms
      ++ ["END ATOM".toList, "BEGIN BOND".toList]
      ++ mapIdxFrom (bondLineV3000 dc) 0 m.bonds
      ++ ["END BOND".toList, "END CTAB".toList]).map v30 ++ [mEnd]).filter (startsWith "M  V30".toList)).map
        fun l => strip (l.drop 6)) = normBody m dc := by
  rw [List.filter_append, List.filter_append]
  have h1 : [compatLine].filter (startsWith "M  V30".toList) = [] := by decide
  have h2 : [mEnd].filter (startsWith "M  V30".toList) = [] := by decide
  rw [h1, h2, List.nil_append, List.append_nil]
  rw [List.filter_eq_self.mpr (by
    intro l hl
    obtain ⟨x, _, rfl⟩ := List.mem_map.mp hl
    exact v30_startsWith x)]
  rw [List.map_map]
  have hf : ((fun l => strip (List.drop 6 l)) ∘ v30) = fun l => strip l := by
    funext l; exact v30_norm l
  rw [hf]
  simp only [List.map_append, List.map_cons, List.map_nil, map_mapIdxFrom]
  have ha : mapIdxFrom (fun i a => strip (atomLineV3000 i a)) 0 m.atoms
      = mapIdxFrom (fun i a => joinSp (atomToks i a)) 0 m.atoms := by
    apply mapIdxFrom_congr
    intro i a ha
    have := atom_v30_strip i a (hw.1 a ha).2.2.2
    rwa [v30_norm] at this
  have hb : mapIdxFrom (fun k b => strip (bondLineV3000 dc k b)) 0 m.bonds
      = mapIdxFrom (fun k b => joinSp (bondToks dc k b)) 0 m.bonds := by
    apply mapIdxFrom_congr
    intro k b _
    have := bond_v30_strip dc k b
    rwa [v30_norm] at this
  rw [ha, hb]
  have c1 : strip "BEGIN CTAB".toList = "BEGIN CTAB".toList := by decide
  have c2 : strip "BEGIN ATOM".toList = "BEGIN ATOM".toList := by decide
  have c3 : strip "END ATOM".toList = "END ATOM".toList := by decide
  have c4 : strip "BEGIN BOND".toList = "BEGIN BOND".toList := by decide
  have c5 : strip "END BOND".toList = "END BOND".toList := by decide
  have c6 : strip "END CTAB".toList = "END CTAB".toList := by decide
  rw [c1, c2, c3, c4, c5, c6]
  simp [normBody, List.append_assoc]

theorem counts_norm_head (m : Mol) : ∃ t', strip ("COUNTS ".toList ++ natRepr m.atoms.length ++ ' ' :: natRepr m.bonds.length
    ++ " 0 0 0".toList) = 'C' :: t' := by
  have : "COUNTS ".toList = 'C' :: "OUNTS ".toList := by decide
  rw [this]
  exact strip_head 'C' _ (by decide)

theorem letterLine_not_marker (name : Line) (c : Char) (l' : Line) (hB : 'B' ≠ c) (hE : 'E' ≠ c) :
    startsWith ("BEGIN ".toList ++ name) (c :: l') = false ∧ startsWith ("END ".toList ++ name) (c :: l') = false :=
  ⟨startsWith_false_of_head _ _ 'B' c ("EGIN ".toList ++ name) l' rfl rfl hB,
   startsWith_false_of_head _ _ 'E' c ("ND ".toList ++ name) l' rfl rfl hE⟩

theorem atomLs_not_marker (name : Line) (m : Mol) :
    ∀ l ∈ mapIdxFrom (fun i a => joinSp (atomToks i a)) 0 m.atoms,
      startsWith ("BEGIN ".toList ++ name) l = false ∧ startsWith ("END ".toList ++ name) l = false := by
  intro l hl
  obtain ⟨i, a, _, rfl⟩ := mem_mapIdxFrom _ _ _ _ hl
  obtain ⟨c, l', h, hd⟩ := joinSp_head_digit (i + 1)
    ([capitalize a.elem, fmt4 a.x, fmt4 a.y, fmt4 a.z, ['0']] ++ (if a.charge = 0 then [] else ["CHG=".toList ++ intRepr a.charge]))
  exact digitLine_not_marker name _ c l' h hd

theorem bondLs_not_marker (name : Line) (m : Mol) (dc : Nat) :
    ∀ l ∈ mapIdxFrom (fun k b => joinSp (bondToks dc k b)) 0 m.bonds,
      startsWith ("BEGIN ".toList ++ name) l = false ∧ startsWith ("END ".toList ++ name) l = false := by
  intro l hl
  obtain ⟨k, b, _, rfl⟩ := mem_mapIdxFrom _ _ _ _ hl
  obtain ⟨c, l', h, hd⟩ := joinSp_head_digit (k + 1)
    [natRepr ((codeOfBond b.2.2).getD dc), natRepr (b.1 + 1), natRepr (b.2.1 + 1)]
  exact digitLine_not_marker name _ c l' h hd

theorem getBlock_atom (m : Mol) (dc : Nat) :
    getBlock "ATOM".toList false [] (normBody m dc) = .ok (mapIdxFrom (fun i a => joinSp (atomToks i a)) 0 m.atoms) := by
  obtain ⟨t', ht'⟩ := counts_norm_head m
  unfold normBody
  rw [ht']
  rw [getBlock_skip "ATOM".toList ["BEGIN CTAB".toList, 'C' :: t'] (by
    intro l hl
    simp only [List.mem_cons, List.mem_nil_iff, or_false] at hl
    rcases hl with rfl | rfl
    · constructor <;> decide
    · exact letterLine_not_marker _ 'C' t' (by decide) (by decide))]
  have hb : startsWith ("BEGIN ".toList ++ "ATOM".toList) "BEGIN ATOM".toList = true := by decide
  have he1 : startsWith ("BEGIN ".toList ++ "ATOM".toList) "END ATOM".toList = false := by decide
  have he2 : startsWith ("END ".toList ++ "ATOM".toList) "END ATOM".toList = true := by decide
  simp only [getBlock, hb, if_true]
  rw [getBlock_collect "ATOM".toList _ (atomLs_not_marker _ m)]
  simp only [getBlock, he1, he2, Bool.false_eq_true, if_false, if_true]
  simp

theorem getBlock_bond (m : Mol) (dc : Nat) :
    getBlock "BOND".toList false [] (normBody m dc) = .ok (mapIdxFrom (fun k b => joinSp (bondToks dc k b)) 0 m.bonds) := by
  obtain ⟨t', ht'⟩ := counts_norm_head m
  have e : normBody m dc = (["BEGIN CTAB".toList, 'C' :: t', "BEGIN ATOM".toList]
      ++ mapIdxFrom (fun i a => joinSp (atomToks i a)) 0 m.atoms ++ ["END ATOM".toList])
      ++ ("BEGIN BOND".toList :: (mapIdxFrom (fun k b => joinSp (bondToks dc k b)) 0 m.bonds
        ++ ["END BOND".toList, "END CTAB".toList])) := by
    unfold normBody
    rw [ht']
    simp [List.append_assoc]
  rw [e]
  rw [getBlock_skip "BOND".toList _ (by
    intro l hl
    simp only [List.mem_append, List.mem_cons, List.mem_nil_iff, or_false] at hl
    rcases hl with ((rfl | rfl | rfl) | hl) | rfl
    · constructor <;> decide
    · exact letterLine_not_marker _ 'C' t' (by decide) (by decide)
    · constructor <;> decide
    · exact atomLs_not_marker _ m l hl
    · constructor <;> decide)]
  have hb : startsWith ("BEGIN ".toList ++ "BOND".toList) "BEGIN BOND".toList = true := by decide
  have he1 : startsWith ("BEGIN ".toList ++ "BOND".toList) "END BOND".toList = false := by decide
  have he2 : startsWith ("END ".toList ++ "BOND".toList) "END BOND".toList = true := by decide
  simp only [getBlock, hb, if_true]
  rw [getBlock_collect "BOND".toList _ (bondLs_not_marker _ m dc)]
  simp only [getBlock, he1, he2, Bool.false_eq_true, if_false, if_true]
  simp

theorem readV3000_write (m : Mol) (dc : Nat) (hw : WFMol m) (hne : m.atoms ≠ []) :
    readV3000 ([compatLine] ++ (["BEGIN CTAB".toList,
       "COUNTS ".toList ++ natRepr m.atoms.length ++ ' ' :: natRepr m.bonds.length ++ " 0 0 0".toList,
       "BEGIN ATOM".toList]
      ++ mapIdxFrom atomLineV3000 0 m.atoms
      ++ ["END ATOM".toList, "BEGIN BOND".toList]
      ++ mapIdxFrom (bondLineV3000 dc) 0 m.bonds
      ++ ["END BOND".toList, "END CTAB".toList]).map v30 ++ [mEnd]) = .ok (m.rt dc) := by
  unfold readV3000
  rw [v30s_write m dc hw]
  have hatoms : (mapIdxFrom (fun i a => joinSp (atomToks i a)) 0 m.atoms).mapM readAtomV3000
      = .ok (mapIdxFrom (fun i (a : Atom) => ((((i + 1 : Nat) : Int)), a.rt)) 0 m.atoms) := by
    apply mapM_mapIdxFrom_ok
    intro i a ha
    exact readAtomV3000_write i a (hw.1 a ha).2.2.2
  have hempty : (mapIdxFrom (fun i a => joinSp (atomToks i a)) 0 m.atoms).isEmpty = false := by
    cases hm : m.atoms with
    | nil => exact absurd hm hne
    | cons _ _ => rfl
  have hidx : mapIdxFrom (fun i (p : Int × AtomR) => (p.1, i)) 0
      (mapIdxFrom (fun i (a : Atom) => ((((i + 1 : Nat) : Int)), a.rt)) 0 m.atoms)
      = mapIdxFrom (fun i (_ : Atom) => (((i + 1 : Nat) : Int), i)) 0 m.atoms := mapIdxFrom_comp _ _ _ _
  have hbonds : (mapIdxFrom (fun k b => joinSp (bondToks dc k b)) 0 m.bonds).mapM
      (readBondV3000 (mapIdxFrom (fun i (_ : Atom) => (((i + 1 : Nat) : Int), i)) 0 m.atoms))
      = .ok (m.bonds.map fun b => (((b.1 + 1 : Nat) : Int), ((b.2.1 + 1 : Nat) : Int),
          (bondOfCode (((codeOfBond b.2.2).getD dc : Nat) : Int)).getD 0)) := by
    rw [← mapIdxFrom_const (fun b : Nat × Nat × Nat => (((b.1 + 1 : Nat) : Int), ((b.2.1 + 1 : Nat) : Int),
          (bondOfCode (((codeOfBond b.2.2).getD dc : Nat) : Int)).getD 0)) 0 m.bonds]
    apply mapM_mapIdxFrom_ok
    intro k b hb
    have hb' := hw.2.1 b hb
    apply readBondV3000_write
    · rw [lookupLast_idx]
      have : ((0 : Nat) : Int) + 1 ≤ ((b.1 + 1 : Nat) : Int) ∧ ((b.1 + 1 : Nat) : Int) ≤ ((0 : Nat) : Int) + (m.atoms.length : Int) := by omega
      rw [if_pos this]
      congr 1; omega
    · rw [lookupLast_idx]
      have : ((0 : Nat) : Int) + 1 ≤ ((b.2.1 + 1 : Nat) : Int) ∧ ((b.2.1 + 1 : Nat) : Int) ≤ ((0 : Nat) : Int) + (m.atoms.length : Int) := by omega
      rw [if_pos this]
      congr 1; omega
  have hmk := mkBondList_write m hw (fun b => (bondOfCode (((codeOfBond b.2.2).getD dc : Nat) : Int)).getD 0)
  have hfin : (mapIdxFrom (fun i (a : Atom) => ((((i + 1 : Nat) : Int)), a.rt)) 0 m.atoms).map (·.2) = m.atoms.map Atom.rt := by
    rw [map_mapIdxFrom, mapIdxFrom_const]
  simp only [getBlock_atom, getBlock_bond, bind, Except.bind, hempty, Bool.false_eq_true, if_false, hatoms, hidx, hbonds,
    mapIdxFrom_length, hmk, pure, Except.pure, hfin]
  rfl

theorem isV2000Compatible_iff (a b : Nat) : isV2000Compatible a b = true ↔ a < 1000 ∧ b < 1000 := by
  unfold isV2000Compatible v2000MaxCount
  rw [Bool.and_eq_true, decide_eq_true_iff, decide_eq_true_iff]


theorem ctab_roundtrip_v2000 (m : Mol) (d : Nat) (ls : List Line) (hw : WFMol m)
    (hn : m.atoms.length < 1000) (hm : m.bonds.length < 1000) (h : writeV2000 m d = .ok ls) :
    ∃ dc, codeOfBond d = some dc ∧ readCtab ls = .ok (m.rt dc) := by
  unfold writeV2000 at h
  split at h
  · cases h
  · split at h
    · cases h
    · rename_i dc hdc
      cases h
      refine ⟨dc, hdc, ?_⟩
      have hv := (counts_read m.atoms.length m.bonds.length hn hm).2.2
      have e : [countsLineV2000 m.atoms.length m.bonds.length] ++ m.atoms.map atomLineV2000
            ++ m.bonds.map (bondLineV2000 dc) ++ chargeLines m ++ [mEnd]
          = countsLineV2000 m.atoms.length m.bonds.length ::
            (m.atoms.map atomLineV2000 ++ (m.bonds.map (bondLineV2000 dc) ++ (chargeLines m ++ [mEnd]))) := by
        simp [List.append_assoc]
      rw [e]
      unfold readCtab
      simp only [hv]
      have : ("V2000".toList == "V2000".toList) = true := by decide
      simp only [this, if_true]
      exact readV2000_write m dc (codeOfBond_lt hdc) hw hn hm

theorem ctab_roundtrip_v3000 (m : Mol) (d : Nat) (ls : List Line) (hw : WFMol m)
    (hne : m.atoms ≠ []) (h : writeV3000 m d = .ok ls) :
    ∃ dc, codeOfBond d = some dc ∧ readCtab ls = .ok (m.rt dc) := by
  unfold writeV3000 at h
  split at h
  · cases h
  · split at h
    · cases h
    · rename_i dc hdc
      cases h
      refine ⟨dc, hdc, ?_⟩
      have hv : getVersion compatLine = "V3000".toList := by decide
      unfold readCtab
      simp only [List.singleton_append, List.cons_append, hv]
      have h1 : ("V3000".toList == "V2000".toList) = false := by decide
      have h2 : ("V3000".toList == "V3000".toList) = true := by decide
      simp only [h1, h2, Bool.false_eq_true, if_false, if_true]
      have := readV3000_write m dc hw hne
      simpa only [List.singleton_append, List.cons_append] using this

theorem ctab_roundtrip (m : Mol) (d : Nat) (v : Version) (ls : List Line) (hw : WFMol m)
    (hne : m.atoms ≠ []) (h : writeCtab m d v = .ok ls) :
    ∃ dc, codeOfBond d = some dc ∧ readCtab ls = .ok (m.rt dc) := by
  cases v with
  | auto =>
    by_cases hc : isV2000Compatible m.atoms.length m.bonds.length = true
    · simp only [writeCtab, hc, if_true] at h
      have hb := (isV2000Compatible_iff _ _).mp hc
      exact ctab_roundtrip_v2000 m d ls hw hb.1 hb.2 h
    · simp only [writeCtab, hc] at h
      exact ctab_roundtrip_v3000 m d ls hw hne h
  | v2000 =>
    by_cases hc : isV2000Compatible m.atoms.length m.bonds.length = true
    · simp only [writeCtab, hc] at h
      have hb := (isV2000Compatible_iff _ _).mp hc
      exact ctab_roundtrip_v2000 m d ls hw hb.1 hb.2 (by simpa using h)
    · simp [writeCtab, hc] at h
  | v3000 => exact ctab_roundtrip_v3000 m d ls hw hne h
  | unknown => simp [writeCtab] at h

end BiotiteModel.C18

import BiotiteModel.Proofs.C18File
import Mathlib.Tactic.Linarith
import Mathlib.Tactic.FieldSimp
import Mathlib.Tactic.Ring
import Mathlib.Tactic.Positivity
import Mathlib.Tactic.NormNum
import Mathlib.Data.Rat.Floor
/-! # C18 — what "coordinates to 0.0001" means after the float32 store (over ℚ) -/
namespace BiotiteModel.C18

/-- the rational a coordinate of the writer model denotes -/
def Q.val (q : Q) : ℚ := (if q.neg then -1 else 1) * ((q.num : ℚ) / (q.den : ℚ))

/-- the rational a decimal in a file denotes -/
def DecV.val (d : DecV) : ℚ := (if d.neg then -1 else 1) * ((d.mant : ℚ) / (10 : ℚ) ^ d.frac)

/-- The float32 grid: `m · 2^e` with a 24-bit significand and `e ≥ -149` (normal and subnormal
numbers; the upper exponent bound plays no role below 10⁵). -/
def IsF32 (x : ℚ) : Prop := ∃ (m e : ℤ), |m| < 2 ^ 24 ∧ -149 ≤ e ∧ x = (m : ℚ) * (2 : ℚ) ^ e

/-- `y` is a float32 nearest to `d` (any tie-breaking rule). -/
def NearestF32 (d y : ℚ) : Prop := IsF32 y ∧ ∀ z, IsF32 z → |y - d| ≤ |z - d|

/-- round-half-even is within half a unit: in ℕ, `2·|rne n d · d − n| ≤ d`. -/
theorem rne_close (n d : Nat) (hd : 0 < d) :
    2 * (rne n d * d) ≤ 2 * n + d ∧ 2 * n ≤ 2 * (rne n d * d) + d := by
  have hn : n = n / d * d + n % d := by
    have := Nat.div_add_mod n d
    rw [Nat.mul_comm] at this; omega
  have hr : n % d < d := Nat.mod_lt n hd
  have hs : (n / d + 1) * d = n / d * d + d := by rw [Nat.add_mul, Nat.one_mul]
  unfold rne
  simp only
  split
  · omega
  · split
    · rw [hs]; omega
    · split
      · omega
      · rw [hs]; omega

/-- the decimal written for a coordinate is within ½·10⁻⁴ of it -/
theorem dec_close (q : Q) (hden : 0 < q.den) : |q.dec.val - q.val| ≤ 1 / 20000 := by
  obtain ⟨h1, h2⟩ := rne_close (q.num * 10000) q.den hden
  have hd : (0 : ℚ) < q.den := by exact_mod_cast hden
  have c1 : (2 : ℚ) * (q.k4 * q.den) ≤ 2 * (q.num * 10000) + q.den := by
    have : 2 * (q.k4 * q.den) ≤ 2 * (q.num * 10000) + q.den := h1
    exact_mod_cast this
  have c2 : (2 : ℚ) * (q.num * 10000) ≤ 2 * (q.k4 * q.den) + q.den := by
    have : 2 * (q.num * 10000) ≤ 2 * (q.k4 * q.den) + q.den := h2
    exact_mod_cast this
  have e : (q.k4 : ℚ) / 10000 - (q.num : ℚ) / q.den = ((q.k4 : ℚ) * q.den - q.num * 10000) / (10000 * q.den) := by
    field_simp
  have key : |(q.k4 : ℚ) / 10000 - (q.num : ℚ) / q.den| ≤ 1 / 20000 := by
    rw [e, abs_le]
    constructor
    · rw [le_div_iff₀ (by positivity)]; linarith
    · rw [div_le_iff₀ (by positivity)]; linarith
  cases hn : q.neg with
  | false =>
    have hv : q.dec.val - q.val = (q.k4 : ℚ) / 10000 - (q.num : ℚ) / q.den := by
      simp only [Q.dec, DecV.val, Q.val, hn]; norm_num
    rw [hv]; exact key
  | true =>
    have hv : q.dec.val - q.val = -((q.k4 : ℚ) / 10000 - (q.num : ℚ) / q.den) := by
      simp only [Q.dec, DecV.val, Q.val, hn]; norm_num; ring
    rw [hv, abs_neg]; exact key

/-- **Re-rounding.**  Let `x` be the float32 coordinate that was written, `d` the decimal in the
file, `d'` any intermediate value within `ε` of `d` (the float64 that `float()` produces;
`ε = 0` for a direct conversion) and `y` a float32 nearest to `d'`.  Then `|y − x| ≤ 10⁻⁴ + 2ε`. -/
theorem reround (q : Q) (hden : 0 < q.den) (hx : IsF32 q.val) (d' y ε : ℚ)
    (hd' : |d' - q.dec.val| ≤ ε) (hy : NearestF32 d' y) : |y - q.val| ≤ 1 / 10000 + 2 * ε := by
  have h1 := dec_close q hden
  have h2 : |y - d'| ≤ |q.val - d'| := hy.2 _ hx
  have h3 : |q.val - d'| ≤ |q.val - q.dec.val| + |q.dec.val - d'| := abs_sub_le _ _ _
  have h4 : |y - q.val| ≤ |y - d'| + |d' - q.val| := abs_sub_le _ _ _
  have h5 : |d' - q.val| ≤ |d' - q.dec.val| + |q.dec.val - q.val| := abs_sub_le _ _ _
  rw [abs_sub_comm q.val q.dec.val] at h3
  rw [abs_sub_comm q.dec.val d'] at h3
  linarith

end BiotiteModel.C18

import BiotiteModel.Model.C01
/-! Helper lemmas for C01 (index resolution, sorted lists, bond relabelling, well-formedness). -/
namespace BiotiteModel.C01

/-! ## strictly increasing lists are determined by their members -/

theorem sorted_ext : ∀ (l₁ l₂ : List Nat), l₁.Pairwise (· < ·) → l₂.Pairwise (· < ·) →
    (∀ x, x ∈ l₁ ↔ x ∈ l₂) → l₁ = l₂
  | [], [], _, _, _ => rfl
  | [], b :: _, _, _, h => by have := (h b).2 (by simp); simp at this
  | a :: _, [], _, _, h => by have := (h a).1 (by simp); simp at this
  | a :: t₁, b :: t₂, h₁, h₂, h => by
    rw [List.pairwise_cons] at h₁ h₂
    have hab : a = b := by
      have ha := (h a).1 (by simp)
      have hb := (h b).2 (by simp)
      simp only [List.mem_cons] at ha hb
      rcases ha with ha | ha
      · exact ha
      · rcases hb with hb | hb
        · exact hb.symm
        · have := h₂.1 a ha; have := h₁.1 b hb; omega
    subst hab
    congr 1
    refine sorted_ext t₁ t₂ h₁.2 h₂.2 fun x => ⟨fun hx => ?_, fun hx => ?_⟩
    · have := (h x).1 (by simp [hx]); simp only [List.mem_cons] at this
      rcases this with rfl | this
      · have := h₁.1 x hx; omega
      · exact this
    · have := (h x).2 (by simp [hx]); simp only [List.mem_cons] at this
      rcases this with rfl | this
      · have := h₂.1 x hx; omega
      · exact this

theorem filter_range_sorted (n : Nat) (p : Nat → Bool) : ((List.range n).filter p).Pairwise (· < ·) :=
  List.Pairwise.filter _ List.pairwise_lt_range

/-- a strictly increasing list below `n` with the given members is the filtered range -/
theorem eq_filter_range (n : Nat) (p : Nat → Bool) (l : List Nat) (hs : l.Pairwise (· < ·))
    (hm : ∀ x, x ∈ l ↔ x < n ∧ p x = true) : l = (List.range n).filter p :=
  sorted_ext _ _ hs (filter_range_sorted n p) (by intro x; rw [hm]; simp)

/-! ## integers and index arrays -/

theorem normInt_ok {n : Nat} {i : Int} {k : Nat} (h : normInt n i = .ok k) :
    k < n ∧ ((0 ≤ i ∧ (k : Int) = i) ∨ (i < 0 ∧ (k : Int) = i + n)) := by
  unfold normInt at h
  split at h
  · cases h; omega
  · split at h
    · cases h; omega
    · cases h

theorem normInt_err {n : Nat} {i : Int} {e : Err} (h : normInt n i = .error e) :
    e = .indexError ∧ (i < -(n : Int) ∨ (n : Int) ≤ i) := by
  unfold normInt at h
  split at h
  · cases h
  · split at h
    · cases h
    · cases h; exact ⟨rfl, by omega⟩

theorem normAll_ok {n : Nat} : ∀ {is : List Int} {l : List Nat}, normAll n is = .ok l →
    l.length = is.length ∧ ∀ p ∈ is.zip l, normInt n p.1 = .ok p.2
  | [], l, h => by cases h; simp
  | i :: is, l, h => by
    unfold normAll at h
    split at h
    · rename_i k ks hk hks
      cases h
      have ih := normAll_ok hks
      refine ⟨by simp [ih.1], ?_⟩
      intro p hp
      simp only [List.zip_cons_cons, List.mem_cons] at hp
      rcases hp with rfl | hp
      · exact hk
      · exact ih.2 p hp
    · cases h

/-! ## masks -/

theorem maskSel_mem : ∀ (bs : List Bool) (k i : Nat), i ∈ maskSel bs k ↔ k ≤ i ∧ bs[i - k]? = some true
  | [], k, i => by simp [maskSel]
  | b :: bs, k, i => by
    unfold maskSel
    by_cases hik : i = k
    · subst hik
      cases b
      · simp [maskSel_mem bs (i + 1)]; intro h; omega
      · simp [maskSel_mem bs (i + 1)]
    · have ih := maskSel_mem bs (k + 1) i
      by_cases hlt : k ≤ i
      · have h1 : i - k = (i - (k + 1)) + 1 := by omega
        cases b <;> simp [ih, h1, hik] <;> omega
      · cases b <;> simp [ih, hik] <;> omega

theorem maskSel_sorted : ∀ (bs : List Bool) (k : Nat), (maskSel bs k).Pairwise (· < ·)
  | [], _ => by simp [maskSel]
  | b :: bs, k => by
    unfold maskSel
    cases b
    · simpa using maskSel_sorted bs (k + 1)
    · simp only [if_true, List.pairwise_cons]
      exact ⟨fun x hx => by have := (maskSel_mem bs (k + 1) x).1 hx; omega, maskSel_sorted bs (k + 1)⟩

/-! ## slices -/

theorem mem_rangeUp {lo hi s : Nat} (hs : 0 < s) (x : Nat) :
    x ∈ rangeUp lo (sliceCount lo hi s) s ↔ lo ≤ x ∧ x < hi ∧ (x - lo) % s = 0 := by
  unfold rangeUp sliceCount
  simp only [List.mem_map, List.mem_range]
  constructor
  · rintro ⟨j, hj, rfl⟩
    split at hj
    · have hj' : j ≤ (hi - lo - 1) / s := by omega
      rw [Nat.le_div_iff_mul_le hs] at hj'
      refine ⟨by omega, by omega, ?_⟩
      have : lo + j * s - lo = j * s := by omega
      rw [this]; exact Nat.mul_mod_left j s
    · omega
  · rintro ⟨h1, h2, h3⟩
    refine ⟨(x - lo) / s, ?_, ?_⟩
    · rw [if_pos (by omega)]
      have : (x - lo) / s ≤ (hi - lo - 1) / s := Nat.div_le_div_right (by omega)
      omega
    · have := Nat.div_add_mod (x - lo) s
      rw [h3] at this
      rw [Nat.mul_comm] at this
      omega

theorem rangeUp_sorted (lo cnt s : Nat) (hs : 0 < s) : (rangeUp lo cnt s).Pairwise (· < ·) := by
  unfold rangeUp
  rw [List.pairwise_map]
  refine List.Pairwise.imp ?_ List.pairwise_lt_range
  intro a b hab
  have : a * s < b * s := Nat.mul_lt_mul_of_pos_right hab hs
  omega

theorem mem_rangeDown {lo1 hi1 s : Nat} (hs : 0 < s) (x : Nat) :
    x ∈ rangeDown lo1 (sliceCount hi1 lo1 s) s ↔ hi1 ≤ x ∧ x < lo1 ∧ (lo1 - 1 - x) % s = 0 := by
  unfold rangeDown sliceCount
  simp only [List.mem_map, List.mem_range]
  constructor
  · rintro ⟨j, hj, rfl⟩
    split at hj
    · have hj' : j ≤ (lo1 - hi1 - 1) / s := by omega
      rw [Nat.le_div_iff_mul_le hs] at hj'
      refine ⟨by omega, by omega, ?_⟩
      have : lo1 - 1 - (lo1 - 1 - j * s) = j * s := by omega
      rw [this]; exact Nat.mul_mod_left j s
    · omega
  · rintro ⟨h1, h2, h3⟩
    refine ⟨(lo1 - 1 - x) / s, ?_, ?_⟩
    · rw [if_pos (by omega)]
      have : (lo1 - 1 - x) / s ≤ (lo1 - hi1 - 1) / s := Nat.div_le_div_right (by omega)
      omega
    · have := Nat.div_add_mod (lo1 - 1 - x) s
      rw [h3] at this
      rw [Nat.mul_comm] at this
      omega

theorem rangeDown_sorted {lo1 hi1 s : Nat} (hs : 0 < s) :
    (rangeDown lo1 (sliceCount hi1 lo1 s) s).Pairwise (· > ·) := by
  unfold rangeDown sliceCount
  rw [List.pairwise_map]
  refine List.Pairwise.imp_of_mem ?_ List.pairwise_lt_range
  intro a b ha hb hab
  simp only [List.mem_range] at ha hb
  split at hb
  · have hb' : b ≤ (lo1 - hi1 - 1) / s := by omega
    rw [Nat.le_div_iff_mul_le hs] at hb'
    have : a * s < b * s := Nat.mul_lt_mul_of_pos_right hab hs
    show lo1 - 1 - a * s > lo1 - 1 - b * s
    omega
  · omega

theorem clampUp_le (n : Nat) (x : Int) : clampUp n x ≤ n := by
  unfold clampUp; split <;> split <;> omega

theorem clampDown_le (n : Nat) (x : Int) : clampDown n x ≤ n := by
  unfold clampDown; split <;> split <;> omega

theorem stopUp_le (n : Nat) (b : Option Int) : stopUp n b ≤ n := by
  cases b <;> simp [stopUp, clampUp_le]

theorem startDown_le (n : Nat) (a : Option Int) : startDown n a ≤ n := by
  cases a <;> simp [startDown, clampDown_le]

end BiotiteModel.C01

import BiotiteModel.Proofs.C15Box
import Mathlib.Data.List.ProdSigma
import Mathlib.Data.List.Range
/-! C15 helper lemmas, part 3: `remove_pbc_from_coord`, `repeat_box_coord`, index variants. -/
namespace BiotiteModel.C15

/-! ### `mapM` in `Except` -/

theorem mapM_ok_forall2 {α β ε : Type} (f : α → Except ε β) :
    ∀ (xs : List α) (ys : List β), xs.mapM f = .ok ys → List.Forall₂ (fun x y => f x = .ok y) xs ys := by
  intro xs
  induction xs with
  | nil => intro ys h; simp [pure, Except.pure] at h; subst h; exact .nil
  | cons a l ih =>
    intro ys h
    rw [List.mapM_cons] at h
    cases ha : f a with
    | error e => simp [ha, bind, Except.bind] at h
    | ok b' =>
      cases hl : l.mapM f with
      | error e => simp [ha, hl, bind, Except.bind] at h
      | ok bs =>
        simp [ha, hl, bind, Except.bind, pure, Except.pure] at h
        subst h
        exact .cons ha (ih bs hl)

theorem mapM_ok_of_forall {α β ε : Type} (f : α → Except ε β) :
    ∀ (xs : List α), (∀ x ∈ xs, ∃ y, f x = .ok y) → ∃ ys, xs.mapM f = .ok ys := by
  intro xs
  induction xs with
  | nil => intro _; exact ⟨[], rfl⟩
  | cons a l ih =>
    intro h
    obtain ⟨y, hy⟩ := h a (List.mem_cons_self ..)
    obtain ⟨ys, hys⟩ := ih (fun x hx => h x (List.mem_cons_of_mem _ hx))
    exact ⟨y :: ys, by rw [List.mapM_cons]; simp [hy, hys, bind, Except.bind, pure, Except.pure]⟩

/-! ### `remove_pbc_from_coord` -/

theorem add_sub_self (acc r : Vec) : (acc.add r).sub acc = r := by
  apply V3.ext' <;> simp [V3.add, V3.sub]

theorem lattice_step (b : Box) (acc x y r : Vec) (h1 : InLattice b (acc.sub x)) (h2 : InLattice b (r.sub (y.sub x))) :
    InLattice b ((acc.add r).sub y) := by
  have := h1.add h2
  have e : (acc.sub x).add (r.sub (y.sub x)) = (acc.add r).sub y := by
    apply V3.ext' <;> simp only [V3.add, V3.sub] <;> ring
  rwa [e] at this

theorem cumsum_spec {c : Consts} (hc : Std c) (b : Box) (hdet : b.det ≠ 0) :
    ∀ (rest : List Vec) (x : Vec) (ds : List Vec) (acc : Vec),
      List.Forall₂ (fun d r => displacement1 c d b = .ok r) (pairDiffs (x :: rest)) ds →
      InLattice b (acc.sub x) →
      List.Forall₂ (fun p q => InLattice b (q.sub p)) rest (cumsumFrom acc ds) ∧
        pairDiffs (acc :: cumsumFrom acc ds) = ds := by
  intro rest
  induction rest with
  | nil =>
    intro x ds acc h _
    simp only [pairDiffs] at h
    cases h
    exact ⟨.nil, rfl⟩
  | cons y rest ih =>
    intro x ds acc h hl
    simp only [pairDiffs] at h
    cases h with
    | cons hr htail =>
      rename_i r ds'
      obtain ⟨r', hr', hlat⟩ := displacement1_lattice hc (y.sub x) b hdet
      have : r' = r := by rw [hr'] at hr; cases hr; rfl
      subst this
      have hl' := lattice_step b acc x y r' hl hlat
      obtain ⟨h1, h2⟩ := ih y ds' (acc.add r') htail hl'
      refine ⟨?_, ?_⟩
      · simp only [cumsumFrom]; exact .cons hl' h1
      · simp only [cumsumFrom, pairDiffs, add_sub_self]
        rw [h2]

theorem pairDiffs_all_ok {c : Consts} (hc : Std c) (b : Box) (hdet : b.det ≠ 0) (xs : List Vec) :
    ∃ ds, (pairDiffs xs).mapM (fun d => displacement1 c d b) = .ok ds :=
  mapM_ok_of_forall _ _ (fun d _ => by
    obtain ⟨r, hr, -⟩ := displacement1_lattice hc d b hdet
    exact ⟨r, hr⟩)

theorem removePbc_spec {c : Consts} (hc : Std c) (xs : List Vec) (b : Box) (hdet : b.det ≠ 0) :
    ∃ ys, removePbcFromCoord c xs b = .ok ys ∧
      List.Forall₂ (fun p q => InLattice b (q.sub p)) xs ys ∧
      List.Forall₂ (fun d r => displacement1 c d b = .ok r) (pairDiffs xs) (pairDiffs ys) ∧
      (∀ x0, xs.head? = some x0 → ∃ y0, ys.head? = some y0 ∧ moveInside1 c x0 b = some y0) := by
  cases xs with
  | nil =>
    refine ⟨[], ?_, .nil, .nil, by simp⟩
    have : inv3 b ≠ none := by simp [inv3, hdet]
    simp [removePbcFromCoord, Option.isNone_iff_eq_none, this]
  | cons x0 rest =>
    obtain ⟨ds, hds⟩ := pairDiffs_all_ok hc b hdet (x0 :: rest)
    obtain ⟨base, g, hbase, -, -, -, -, hlat, -⟩ := moveInside1_spec hc x0 b hdet
    have hf := mapM_ok_forall2 _ _ _ hds
    obtain ⟨h1, h2⟩ := cumsum_spec hc b hdet rest x0 ds base hf hlat
    refine ⟨base :: cumsumFrom base ds, ?_, .cons hlat h1, ?_, ?_⟩
    · simp [removePbcFromCoord, hds, hbase, bind, Except.bind]
    · rw [h2]; exact hf
    · intro x hx
      simp at hx; subst hx
      exact ⟨base, by simp, hbase⟩

/-! ### array neighbours end at their minimum image -/

/-- `e` is the shortest of its own periodic images. -/
def SelfMin (b : Box) (e : Vec) : Prop :=
  ∀ i j k : Int, e.normSq ≤ (e.add (vecMul (ofInts i j k) b)).normSq

theorem selfMin_of_min {b : Box} {d r : Vec} (hl : InLattice b (r.sub d))
    (hmin : ∀ i j k : Int, r.normSq ≤ (d.add (vecMul (ofInts i j k) b)).normSq) : SelfMin b r := by
  obtain ⟨n1, n2, n3, hn⟩ := hl
  intro i j k
  have e : r.add (vecMul (ofInts i j k) b) = d.add (vecMul (ofInts (n1 + i) (n2 + j) (n3 + k)) b) := by
    have hr : r = d.add (vecMul (ofInts n1 n2 n3) b) := by
      rw [← hn]; apply V3.ext' <;> simp [V3.add, V3.sub]
    rw [hr]
    apply V3.ext' <;> simp only [V3.add, vecMul, ofInts] <;> push_cast <;> ring
  rw [e]; exact hmin _ _ _

theorem forall₂_right {α β : Type} {R : α → β → Prop} {P : β → Prop} :
    ∀ {l1 : List α} {l2 : List β}, List.Forall₂ R l1 l2 → (∀ a ∈ l1, ∀ b, R a b → P b) → ∀ b ∈ l2, P b := by
  intro l1 l2 h
  induction h with
  | nil => intro _ b hb; simp at hb
  | cons hab _ ih =>
    intro hP b hb
    rcases List.mem_cons.mp hb with rfl | hb
    · exact hP _ (List.mem_cons_self ..) _ hab
    · exact ih (fun a ha b' hr => hP a (List.mem_cons_of_mem _ ha) b' hr) b hb

/-- translation of every coordinate (the centroid shift of `remove_pbc`) keeps the neighbour differences -/
theorem pairDiffs_translate (t : Vec) : ∀ ys : List Vec, pairDiffs (ys.map (fun p => p.add t)) = pairDiffs ys
  | [] => rfl
  | [_] => rfl
  | a :: b :: rest => by
    have ih := pairDiffs_translate t (b :: rest)
    simp only [List.map_cons, pairDiffs] at ih ⊢
    rw [ih]
    congr 1
    apply V3.ext' <;> simp [V3.add, V3.sub]

theorem removePbc_consecutive {c : Consts} (hc : Std c) (xs : List Vec) (b : Box) (hdet : b.det ≠ 0)
    (h : OrthoBox b ∨ (isOrthogonal c b = false ∧
      ∀ d ∈ pairDiffs xs, ∃ i j k : Int, Short b (d.add (vecMul (ofInts i j k) b)))) :
    ∃ ys, removePbcFromCoord c xs b = .ok ys ∧ ys.length = xs.length ∧
      (∀ e ∈ pairDiffs ys, SelfMin b e) ∧
      ∀ t : Vec, ∀ e ∈ pairDiffs (ys.map (fun p => p.add t)), SelfMin b e := by
  obtain ⟨ys, hys, hlat, hdisp, -⟩ := removePbc_spec hc xs b hdet
  have key : ∀ e ∈ pairDiffs ys, SelfMin b e := by
    refine forall₂_right (P := SelfMin b) hdisp ?_
    intro d hd r hr
    rcases h with horth | ⟨hno, hshort⟩
    · obtain ⟨r', hr', hl, hmin⟩ := displacement1_ortho hc d b hdet horth
      rw [hr'] at hr; cases hr
      exact selfMin_of_min hl hmin
    · obtain ⟨r', hr', hmin⟩ := displacement1_tric_min hc d b hdet hno (hshort d hd)
      obtain ⟨r'', hr'', hl⟩ := displacement1_lattice hc d b hdet
      rw [hr'] at hr; cases hr
      rw [hr'] at hr''; cases hr''
      exact selfMin_of_min hl hmin
  refine ⟨ys, hys, hlat.length_eq.symm, key, ?_⟩
  intro t e he
  rw [pairDiffs_translate] at he
  exact key e he

/-! ### the molecule loop of `remove_pbc` -/

theorem foldl_set_length (l : List (Nat × Vec)) :
    ∀ acc : List Vec, (l.foldl (fun acc p => acc.set p.1 p.2) acc).length = acc.length := by
  induction l with
  | nil => intro acc; rfl
  | cons p l ih => intro acc; simp only [List.foldl_cons]; rw [ih]; simp

theorem foldl_set_other (l : List (Nat × Vec)) (i : Nat) :
    ∀ acc : List Vec, (∀ p ∈ l, p.1 ≠ i) → (l.foldl (fun acc p => acc.set p.1 p.2) acc)[i]? = acc[i]? := by
  induction l with
  | nil => intro acc _; rfl
  | cons p l ih =>
    intro acc h
    simp only [List.foldl_cons]
    rw [ih _ (fun q hq => h q (List.mem_cons_of_mem _ hq))]
    exact List.getElem?_set_ne (h p (List.mem_cons_self ..))

theorem foldl_set_key (l : List (Nat × Vec)) :
    ∀ acc : List Vec, (l.map Prod.fst).Nodup → (∀ p ∈ l, p.1 < acc.length) →
      ∀ p ∈ l, (l.foldl (fun acc p => acc.set p.1 p.2) acc)[p.1]? = some p.2 := by
  induction l with
  | nil => intro acc _ _ p hp; simp at hp
  | cons q l ih =>
    intro acc hnd hlt p hp
    simp only [List.map_cons, List.nodup_cons] at hnd
    simp only [List.foldl_cons]
    rcases List.mem_cons.mp hp with rfl | hp
    · rw [foldl_set_other l p.1 _ (fun r hr heq => hnd.1 (heq ▸ List.mem_map_of_mem hr))]
      simp [hlt p (List.mem_cons_self ..)]
    · exact ih _ hnd.2 (fun r hr => by simpa using hlt r (List.mem_cons_of_mem _ hr)) p hp

theorem zip_fst_nodup {β : Type} : ∀ (l1 : List Nat) (l2 : List β), l1.Nodup → ((List.zip l1 l2).map Prod.fst).Nodup
  | [], _, _ => by simp
  | _ :: _, [], _ => by simp
  | a :: l1, b :: l2, h => by
    simp only [List.nodup_cons] at h
    simp only [List.zip_cons_cons, List.map_cons, List.nodup_cons]
    refine ⟨?_, zip_fst_nodup l1 l2 h.2⟩
    intro hm
    obtain ⟨⟨x, y⟩, hxy, rfl⟩ := List.mem_map.mp hm
    exact h.1 (List.of_mem_zip hxy).1

/-- One molecule of `remove_pbc`, wherever its atoms sit in the array: its own coordinate sequence is reassembled
by `remove_pbc_from_coord` and translated as a whole; no other coordinate changes. -/
theorem removePbcStep_spec {c : Consts} (hc : Std c) (b : Box) (hdet : b.det ≠ 0) (cur : List Vec) (mol : List Nat)
    (hnd : mol.Nodup) (hlt : ∀ i ∈ mol, i < cur.length) :
    ∃ cur' san t, removePbcStep c b cur mol = .ok cur' ∧
      removePbcFromCoord c (mol.filterMap (fun i => cur[i]?)) b = .ok san ∧
      cur'.length = cur.length ∧
      (∀ i, i ∉ mol → cur'[i]? = cur[i]?) ∧
      (∀ (j i : Nat) (w : Vec), mol[j]? = some i → (san.map (fun p => p.add t))[j]? = some w → cur'[i]? = some w) := by
  obtain ⟨san, hsan, -⟩ := removePbc_spec hc (mol.filterMap (fun i => cur[i]?)) b hdet
  cases hcen : centroid san with
  | none =>
    refine ⟨cur, san, zeroV, ?_, hsan, rfl, fun _ _ => rfl, ?_⟩
    · simp [removePbcStep, hsan, hcen, bind, Except.bind, pure, Except.pure]
    · intro j i w _ hw
      have : san = [] := by
        unfold centroid at hcen
        split at hcen
        · rename_i h; simpa using h
        · cases hcen
      simp [this] at hw
  | some ctr =>
    obtain ⟨ctrIn, g, hin, -⟩ := moveInside1_spec hc ctr b hdet
    refine ⟨(List.zip mol (san.map (fun p => p.add (ctrIn.sub ctr)))).foldl (fun acc p => acc.set p.1 p.2) cur,
      san, ctrIn.sub ctr, ?_, hsan, foldl_set_length _ _, ?_, ?_⟩
    · simp [removePbcStep, hsan, hcen, hin, bind, Except.bind, pure, Except.pure]
    · intro i hi
      apply foldl_set_other
      intro p hp heq
      exact hi (heq ▸ (List.of_mem_zip hp).1)
    · intro j i w hj hw
      have hz : (List.zip mol (san.map (fun p => p.add (ctrIn.sub ctr))))[j]? = some (i, w) := by
        rw [List.getElem?_zip_eq_some]; exact ⟨hj, hw⟩
      have hmem := List.mem_of_getElem? hz
      exact foldl_set_key _ cur (zip_fst_nodup _ _ hnd)
        (fun p hp => hlt p.1 (List.of_mem_zip hp).1) (i, w) hmem

/-! ### `repeat_box_coord` -/

theorem mem_intRange (lo hi x : Int) : x ∈ intRange lo hi ↔ lo ≤ x ∧ x < hi := by
  simp only [intRange, List.mem_map, List.mem_range]
  constructor
  · rintro ⟨n, hn, rfl⟩; omega
  · intro h; exact ⟨(x - lo).toNat, by omega, by omega⟩

theorem nodup_intRange (lo hi : Int) : (intRange lo hi).Nodup := by
  unfold intRange
  exact List.Nodup.map (fun a b h => by simpa using h) List.nodup_range

theorem length_intRange (lo hi : Int) : (intRange lo hi).length = (hi - lo).toNat := by
  simp [intRange]

theorem cubeAll_eq_product (c : Consts) (a : Int) :
    cubeAll c a = (intRange (-a + c.repLo) (a + c.repHi)) ×ˢ
      ((intRange (-a + c.repLo) (a + c.repHi)) ×ˢ (intRange (-a + c.repLo) (a + c.repHi))) := by
  simp [cubeAll, SProd.sprod, List.product, List.map_flatMap, List.map_map, Function.comp_def]

theorem mem_cubeAll {c : Consts} (hc : Std c) (a i j k : Int) :
    (i, j, k) ∈ cubeAll c a ↔ (-a ≤ i ∧ i ≤ a) ∧ (-a ≤ j ∧ j ≤ a) ∧ (-a ≤ k ∧ k ≤ a) := by
  rw [cubeAll_eq_product]
  simp only [List.mem_product, mem_intRange, hc.repLo, hc.repHi]
  omega

theorem nodup_cubeAll (c : Consts) (a : Int) : (cubeAll c a).Nodup := by
  rw [cubeAll_eq_product]
  exact (nodup_intRange _ _).product ((nodup_intRange _ _).product (nodup_intRange _ _))

theorem length_cubeAll {c : Consts} (hc : Std c) (a : Int) :
    (cubeAll c a).length = (2 * a + 1).toNat ^ 3 := by
  rw [cubeAll_eq_product]
  simp only [List.length_product, length_intRange, hc.repLo, hc.repHi]
  have : (a + 1 - (-a + 0)).toNat = (2 * a + 1).toNat := by congr 1; ring
  rw [this]; ring

theorem cubeShifts_perm {c : Consts} (hc : Std c) (a : Int) (ha : 0 ≤ a) :
    (cubeShifts c a).Perm (cubeAll c a) := by
  have hmem : ((0 : Int), (0 : Int), (0 : Int)) ∈ cubeAll c a := (mem_cubeAll hc a 0 0 0).mpr (by omega)
  have hnd := nodup_cubeAll c a
  unfold cubeShifts
  have : (cubeAll c a).filter (fun s => decide (s ≠ ((0 : Int), (0 : Int), (0 : Int)))) =
      (cubeAll c a).erase (0, 0, 0) := by
    rw [hnd.erase_eq_filter]
    congr 1
    funext s
    by_cases h : s = (0, 0, 0) <;> simp [bne, h]
  rw [this]
  exact (List.perm_cons_erase hmem).symm

theorem add_zero_shift (x : Vec) (b : Box) : x.add (vecMul (ofInts 0 0 0) b) = x := by
  apply V3.ext' <;> simp [V3.add, vecMul, ofInts]

end BiotiteModel.C15

import BiotiteModel.Model.C10
namespace BiotiteModel.C10

def filt (h : Nat → Nat) (b : Nat) (items : List Entry) : List Entry :=
  items.filter (fun e => h e.kmer == b)

def specSlots (nb : Nat) (cnt : Nat → Nat) (ents : Nat → List Entry) : Slots :=
  (List.range nb).map fun b => if cnt b = 0 then none else some ⟨cnt b, ents b⟩

theorem set_map_range {α : Type} (nb b : Nat) (f : Nat → α) (v : α) :
    ((List.range nb).map f).set b v = (List.range nb).map (fun i => if i = b then v else f i) := by
  apply List.ext_getElem?
  intro i
  by_cases hi : i < nb
  · by_cases hb : b = i
    · subst hb; simp [hi]
    · have : ¬ i = b := fun h => hb h.symm
      simp [hi, hb, this]
  · simp [hi]

theorem filt_cons (h : Nat → Nat) (b : Nat) (e : Entry) (es : List Entry) :
    filt h b (e :: es) = if h e.kmer = b then e :: filt h b es else filt h b es := by
  simp [filt, List.filter_cons]

theorem filt_append (h : Nat → Nat) (b : Nat) (xs ys : List Entry) :
    filt h b (xs ++ ys) = filt h b xs ++ filt h b ys := by
  simp [filt]

theorem countPass_spec (h : Nat → Nat) (nb : Nat) (es : List Entry) :
    ∀ c0 : Nat → Nat, (∀ e ∈ es, h e.kmer < nb) →
      countPass h ((List.range nb).map c0) es
        = .ok ((List.range nb).map fun b => c0 b + (filt h b es).length) := by
  induction es with
  | nil => intro c0 _; simp [countPass, filt]
  | cons e es ih =>
    intro c0 hb
    have hk : h e.kmer < nb := hb e (by simp)
    have hget : ((List.range nb).map c0)[h e.kmer]? = some (c0 (h e.kmer)) := by simp [hk]
    simp only [countPass, hget]
    rw [set_map_range, ih _ (fun x hx => hb x (by simp [hx]))]
    congr 1
    apply List.map_congr_left
    intro b _
    rw [filt_cons]
    by_cases hbb : b = h e.kmer
    · subst hbb; simp; omega
    · have : ¬ h e.kmer = b := fun x => hbb x.symm
      simp [hbb, this]

theorem fill_spec (h : Nat → Nat) (nb : Nat) (rest : List Entry) :
    ∀ done : List Entry, (∀ e ∈ rest, h e.kmer < nb) →
      fill h (specSlots nb (fun b => (filt h b (done ++ rest)).length) (fun b => filt h b done)) rest
        = .ok (specSlots nb (fun b => (filt h b (done ++ rest)).length) (fun b => filt h b (done ++ rest))) := by
  induction rest with
  | nil => intro done _; simp [fill]
  | cons e es ih =>
    intro done hb
    have hk : h e.kmer < nb := hb e (by simp)
    have hcnt : (filt h (h e.kmer) (done ++ e :: es)).length
        = (filt h (h e.kmer) done).length + 1 + (filt h (h e.kmer) es).length := by
      rw [filt_append, filt_cons]; simp; omega
    have hget : (specSlots nb (fun b => (filt h b (done ++ e :: es)).length) (fun b => filt h b done))[h e.kmer]?
        = some (some ⟨(filt h (h e.kmer) (done ++ e :: es)).length, filt h (h e.kmer) done⟩) := by
      simp only [specSlots, List.getElem?_map, List.getElem?_range hk, Option.map_some]
      rw [if_neg (by omega)]
    have hlt : (filt h (h e.kmer) done).length < (filt h (h e.kmer) (done ++ e :: es)).length := by omega
    simp only [fill, addEntry, hget, hlt, if_true]
    have hsplit : done ++ e :: es = (done ++ [e]) ++ es := by simp
    have key : (specSlots nb (fun b => (filt h b (done ++ e :: es)).length) (fun b => filt h b done)).set (h e.kmer)
          (some ⟨(filt h (h e.kmer) (done ++ e :: es)).length, filt h (h e.kmer) done ++ [e]⟩)
        = specSlots nb (fun b => (filt h b ((done ++ [e]) ++ es)).length) (fun b => filt h b (done ++ [e])) := by
      unfold specSlots
      rw [set_map_range]
      apply List.map_congr_left
      intro b _
      rw [← hsplit]
      simp only []
      by_cases hbb : b = h e.kmer
      · subst hbb
        rw [if_pos rfl, if_neg (by omega), filt_append (xs := done), filt_cons]
        simp [filt]
      · have hne : ¬ h e.kmer = b := fun x => hbb x.symm
        rw [if_neg hbb, filt_append (xs := done) (ys := [e]), filt_cons]
        simp [hne, filt]
    rw [key, ih (done ++ [e]) (fun x hx => hb x (by simp [hx])), ← hsplit]

theorem initArrays_spec (nb : Nat) (c : Nat → Nat) :
    initArrays ((List.range nb).map c) = specSlots nb c (fun _ => []) := by
  simp [initArrays, specSlots]

theorem canon_eq_spec (h : Nat → Nat) (nb : Nat) (items : List Entry) :
    canon h nb items = specSlots nb (fun b => (filt h b items).length) (fun b => filt h b items) := by
  simp [canon, specSlots, filt]

theorem replicate_zero_eq (nb : Nat) : List.replicate nb 0 = (List.range nb).map (fun _ => 0) := by
  apply List.ext_getElem?
  intro i
  by_cases hi : i < nb <;> simp [hi]

/-- Two-pass construction = specification, never undefined behaviour. -/
theorem build_eq_canon (h : Nat → Nat) (nb : Nat) (items : List Entry)
    (hb : ∀ e ∈ items, h e.kmer < nb) : build h nb items = .ok (canon h nb items) := by
  unfold build
  rw [replicate_zero_eq, countPass_spec h nb items _ hb]
  simp only [Nat.zero_add]
  rw [initArrays_spec, canon_eq_spec]
  have := fill_spec h nb items [] hb
  simpa [filt] using this



/-- the table the specification prescribes for a list of inserted items -/
def canonTable (a : KAlph) (bucketed : Bool) (nb : Nat) (items : List Entry) : Table :=
  ⟨a, bucketed, nb, canon (hashOf bucketed nb) nb items⟩

theorem slotEntries_canon (h : Nat → Nat) (nb : Nat) (items : List Entry) (b : Nat) (hb : b < nb) :
    slotEntries (canon h nb items) b = filt h b items := by
  simp only [slotEntries, canon, List.getElem?_map, List.getElem?_range hb, Option.map_some]
  by_cases h0 : (List.filter (fun e => h e.kmer == b) items).length = 0
  · simp only [h0, if_true]
    have : List.filter (fun e => h e.kmer == b) items = [] := List.eq_nil_of_length_eq_zero h0
    simp [filt, this]
  · simp [h0, filt]

theorem slotEntries_canon_ge (h : Nat → Nat) (nb : Nat) (items : List Entry) (b : Nat) (hb : ¬ b < nb) :
    slotEntries (canon h nb items) b = [] := by
  simp [slotEntries, canon, hb]

theorem lookup_canon (a : KAlph) (bucketed : Bool) (nb : Nat) (items : List Entry) (q : Nat)
    (hbk : bucketed = true → 0 < nb) (hd : bucketed = false → q < nb) :
    lookup (canonTable a bucketed nb items) q = items.filter (fun e => e.kmer == q) := by
  cases bucketed with
  | false =>
    simp only [lookup, canonTable, Bool.false_eq_true, if_false]
    rw [slotEntries_canon _ _ _ _ (hd rfl)]
    simp [filt, hashOf]
  | true =>
    have hpos := hbk rfl
    simp only [lookup, canonTable, if_true]
    rw [slotEntries_canon _ _ _ _ (Nat.mod_lt _ hpos)]
    simp only [filt, hashOf, if_true, List.filter_filter]
    apply List.filter_congr
    intro e _
    by_cases he : e.kmer = q
    · simp [he]
    · simp [he]

theorem mem_zipIdx {α : Type} (xs : List α) (i : Nat) (x : α) :
    (i, x) ∈ zipIdx xs ↔ xs[i]? = some x := by
  unfold zipIdx
  rw [List.mem_iff_getElem?]
  constructor
  · rintro ⟨n, hn⟩
    rw [List.getElem?_zip_eq_some] at hn
    obtain ⟨h1, h2⟩ := hn
    have : (List.range xs.length)[n]? = some i := h1
    rw [List.getElem?_eq_some_iff] at this
    obtain ⟨hlt, heq⟩ := this
    simp at heq
    subst heq
    exact h2
  · intro h
    refine ⟨i, ?_⟩
    rw [List.getElem?_zip_eq_some]
    have hlt : i < xs.length := by
      rw [List.getElem?_eq_some_iff] at h
      exact h.1
    exact ⟨by simp [hlt], h⟩

theorem mem_zipIdx_zip {α β : Type} (xs : List α) (ys : List β) (i : Nat) (x : α) (y : β) :
    ((i, x), y) ∈ (zipIdx xs).zip ys ↔ xs[i]? = some x ∧ ys[i]? = some y := by
  rw [List.mem_iff_getElem?]
  constructor
  · rintro ⟨n, hn⟩
    rw [List.getElem?_zip_eq_some] at hn
    obtain ⟨h1, h2⟩ := hn
    unfold zipIdx at h1
    rw [List.getElem?_zip_eq_some] at h1
    obtain ⟨h3, h4⟩ := h1
    rw [List.getElem?_eq_some_iff] at h3
    obtain ⟨_, heq⟩ := h3
    simp at heq
    subst heq
    exact ⟨h4, h2⟩
  · rintro ⟨hx, hy⟩
    refine ⟨i, ?_⟩
    rw [List.getElem?_zip_eq_some]
    refine ⟨?_, hy⟩
    have := (mem_zipIdx xs i x).2 hx
    unfold zipIdx at *
    rw [List.getElem?_zip_eq_some]
    have hlt : i < xs.length := by
      rw [List.getElem?_eq_some_iff] at hx
      exact hx.1
    exact ⟨by simp [hlt], hx⟩




theorem matchKmers_canon (a : KAlph) (bucketed : Bool) (nb : Nat) (items : List Entry)
    (qk : List Nat) (qm : List Bool)
    (hbk : bucketed = true → 0 < nb) (hd : bucketed = false → ∀ q ∈ qk, q < nb) (i r j : Nat) :
    (i, r, j) ∈ matchKmers (canonTable a bucketed nb items) qk qm ↔
      ∃ q, qk[i]? = some q ∧ qm[i]? = some true ∧ (⟨q, r, j⟩ : Entry) ∈ items := by
  unfold matchKmers
  simp only [List.mem_flatMap]
  constructor
  · rintro ⟨⟨⟨i', q⟩, m⟩, hmem, hin⟩
    rw [mem_zipIdx_zip] at hmem
    obtain ⟨hq, hm⟩ := hmem
    cases m with
    | false => simp at hin
    | true =>
      have hqlt : bucketed = false → q < nb := fun hb => hd hb q (List.mem_of_getElem? hq)
      simp only [if_true, lookup_canon a bucketed nb items q hbk hqlt, List.mem_map, List.mem_filter] at hin
      obtain ⟨e, ⟨he, hk⟩, heq⟩ := hin
      simp only [Prod.mk.injEq] at heq
      obtain ⟨rfl, rfl, rfl⟩ := heq
      refine ⟨q, hq, hm, ?_⟩
      have : e.kmer = q := by simpa using hk
      subst this
      exact he
  · rintro ⟨q, hq, hm, he⟩
    refine ⟨((i, q), true), (mem_zipIdx_zip _ _ _ _ _).2 ⟨hq, hm⟩, ?_⟩
    have hqlt : bucketed = false → q < nb := fun hb => hd hb q (List.mem_of_getElem? hq)
    simp only [if_true, lookup_canon a bucketed nb items q hbk hqlt, List.mem_map, List.mem_filter]
    exact ⟨⟨q, r, j⟩, ⟨he, by simp⟩, rfl⟩

theorem hashOf_lt (bucketed : Bool) (nb q : Nat) (hbk : bucketed = true → 0 < nb)
    (hd : bucketed = false → q < nb) : hashOf bucketed nb q < nb := by
  cases bucketed with
  | false => simpa [hashOf] using hd rfl
  | true => simpa [hashOf] using Nat.mod_lt _ (hbk rfl)

theorem mkTable_eq (a : KAlph) (nBuckets : Option Nat) (items : List Entry)
    (hsize : 0 < a.size) (hnb : ∀ n, nBuckets = some n → 0 < n) (hq : ∀ e ∈ items, e.kmer < a.size) :
    mkTable a nBuckets items = .ok (canonTable a nBuckets.isSome (slotCount a nBuckets) items) := by
  unfold mkTable
  have hb : ∀ e ∈ items, hashOf nBuckets.isSome (slotCount a nBuckets) e.kmer < slotCount a nBuckets := by
    intro e he
    apply hashOf_lt
    · intro hs
      cases nBuckets with
      | none => simp at hs
      | some n =>
        have := hnb n rfl
        simp only [slotCount]; split <;> omega
    · intro hs
      cases nBuckets with
      | none => simpa [slotCount] using hq e he
      | some n => simp at hs
  simp only [build_eq_canon _ _ _ hb, canonTable]




/-! ### merge -/

def olen : Option Bucket → Nat
  | some bk => bk.ents.length
  | none => 0

theorem countTable_map (l : List Nat) (c : Nat → Nat) (s : Nat → Option Bucket) :
    countTable (l.map c) (l.map s) = l.map (fun b => c b + olen (s b)) := by
  induction l with
  | nil => simp [countTable]
  | cons x xs ih =>
    cases hs : s x <;> simp [countTable, ih, hs, olen]

theorem countTable_canon (h : Nat → Nat) (nb : Nat) (c : Nat → Nat) (items : List Entry) :
    countTable ((List.range nb).map c) (canon h nb items)
      = (List.range nb).map (fun b => c b + (filt h b items).length) := by
  unfold canon
  rw [countTable_map]
  apply List.map_congr_left
  intro b _
  have hf : List.filter (fun e => h e.kmer == b) items = filt h b items := rfl
  simp only [hf]
  by_cases h0 : (filt h b items).length = 0
  · simp [h0, olen]
  · simp [h0, olen]

theorem foldl_countTable (h : Nat → Nat) (nb : Nat) (iss : List (List Entry)) :
    ∀ c : Nat → Nat, (iss.map (canon h nb)).foldl countTable ((List.range nb).map c)
      = (List.range nb).map (fun b => c b + (filt h b iss.flatten).length) := by
  induction iss with
  | nil => intro c; simp [filt]
  | cons is iss ih =>
    intro c
    simp only [List.map_cons, List.foldl_cons, countTable_canon, ih, List.flatten_cons, filt_append,
      List.length_append]
    apply List.map_congr_left
    intro b _
    omega

theorem appendEntries_map (l : List Nat) (t s k : Nat → Option Bucket)
    (hk : ∀ x ∈ l, appendSlot (t x) (s x) = .ok (k x)) :
    appendEntries (l.map t) (l.map s) = .ok (l.map k) := by
  induction l with
  | nil => simp [appendEntries]
  | cons x xs ih =>
    simp only [List.map_cons, appendEntries, hk x (by simp), ih (fun y hy => hk y (by simp [hy]))]

theorem appendAll_spec (h : Nat → Nat) (nb : Nat) (iss : List (List Entry)) :
    ∀ done : List Entry,
      appendAll (specSlots nb (fun b => (filt h b (done ++ iss.flatten)).length) (fun b => filt h b done))
          (iss.map (canon h nb))
        = .ok (specSlots nb (fun b => (filt h b (done ++ iss.flatten)).length)
            (fun b => filt h b (done ++ iss.flatten))) := by
  induction iss with
  | nil => intro done; simp [appendAll]
  | cons is iss ih =>
    intro done
    simp only [List.map_cons, appendAll, List.flatten_cons]
    have step : appendEntries
        (specSlots nb (fun b => (filt h b (done ++ (is ++ iss.flatten))).length) (fun b => filt h b done))
        (canon h nb is)
        = .ok (specSlots nb (fun b => (filt h b ((done ++ is) ++ iss.flatten)).length)
            (fun b => filt h b (done ++ is))) := by
      unfold specSlots canon
      apply appendEntries_map
      intro b _
      simp only [List.append_assoc, filt_append, List.length_append]
      have hf : List.filter (fun e => h e.kmer == b) is = filt h b is := rfl
      rw [hf]
      by_cases h0 : (filt h b is).length = 0
      · have hnil : filt h b is = [] := List.eq_nil_of_length_eq_zero h0
        simp [hnil, appendSlot]
      · have hpos : ¬ ((filt h b done).length + ((filt h b is).length + (filt h b iss.flatten).length) = 0) := by omega
        simp only [h0, hpos, if_false, appendSlot]
        rw [if_pos (by omega)]
    rw [step]
    simp only []
    have := ih (done ++ is)
    simpa [List.append_assoc] using this

theorem mergeSlots_canon (h : Nat → Nat) (nb : Nat) (iss : List (List Entry)) :
    mergeSlots nb (iss.map (canon h nb)) = .ok (canon h nb iss.flatten) := by
  unfold mergeSlots
  rw [replicate_zero_eq, foldl_countTable]
  simp only [Nat.zero_add]
  rw [initArrays_spec, canon_eq_spec]
  have := appendAll_spec h nb iss []
  simpa [filt] using this



theorem flatMap_congr' {α β : Type} (l : List α) (f g : α → List β) (h : ∀ x ∈ l, f x = g x) :
    l.flatMap f = l.flatMap g := by
  induction l with
  | nil => rfl
  | cons x xs ih =>
    simp only [List.flatMap_cons, h x (by simp), ih (fun y hy => h y (by simp [hy]))]


end BiotiteModel.C10

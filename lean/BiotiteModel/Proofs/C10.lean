import BiotiteModel.Model.C10
/-! Helper lemmas for C10. -/
namespace BiotiteModel.C10
end BiotiteModel.C10

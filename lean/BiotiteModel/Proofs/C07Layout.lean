import BiotiteModel.Proofs.C07Fmt
/-! Layout of one ATOM/HETATM record: purely structural list reasoning. -/
namespace BiotiteModel.C07

theorem ljust_length (w : Nat) (s : List Char) (h : s.length ≤ w) : (ljust w s).length = w := by
  simp [ljust]; omega

theorem rjust_length (w : Nat) (s : List Char) (h : s.length ≤ w) : (rjust w s).length = w := by
  simp [rjust]; omega

theorem slice_skip (p rest : List Char) (k a b : Nat) (hp : p.length = k) (ha : k ≤ a) :
    slice a b (p ++ rest) = slice (a - k) (b - k) rest := by
  unfold slice
  rw [List.drop_append, List.drop_eq_nil_of_le (by omega), List.nil_append, hp]
  congr 1
  omega

theorem slice_head (x post : List Char) (n : Nat) (hx : x.length = n) : slice 0 n (x ++ post) = x := by
  unfold slice
  simp only [List.drop_zero, Nat.sub_zero]
  exact List.take_left' hx

theorem slice_last (x : List Char) (n : Nat) (hx : x.length = n) : slice 0 n x = x := by
  have := slice_head x [] n hx
  simpa using this

theorem slice_append_mid (pre x post : List Char) (a b : Nat) (ha : pre.length = a) (hb : a + x.length = b) :
    slice a b (pre ++ x ++ post) = x := by
  rw [List.append_assoc, slice_skip pre _ a a b ha (Nat.le_refl _)]
  have : b - a = x.length := by omega
  rw [Nat.sub_self, this]
  exact slice_head _ _ _ rfl

/-! ### `rstrip` followed by padding -/

theorem takeWhile_all {p : Char → Bool} : ∀ l : List Char, ∀ c ∈ l.takeWhile p, p c = true ∧ c ∈ l
  | [], c, h => by simp at h
  | x :: xs, c, h => by
    by_cases hx : p x = true
    · rw [List.takeWhile_cons_of_pos hx] at h
      rcases List.mem_cons.1 h with rfl | h
      · exact ⟨hx, List.mem_cons_self⟩
      · exact ⟨(takeWhile_all xs c h).1, List.mem_cons_of_mem _ (takeWhile_all xs c h).2⟩
    · rw [List.takeWhile_cons_of_neg hx] at h
      simp at h

theorem rstrip_append_blanks (l : List Char) (h : ∀ c ∈ l, isWS c = true → c = ' ') :
    ∃ k, l = rstrip l ++ List.replicate k ' ' := by
  refine ⟨(l.reverse.takeWhile isWS).length, ?_⟩
  have hsplit := @List.takeWhile_append_dropWhile _ isWS l.reverse
  have htw : l.reverse.takeWhile isWS = List.replicate (l.reverse.takeWhile isWS).length ' ' := by
    rw [List.eq_replicate_iff]
    refine ⟨rfl, fun b hb => ?_⟩
    have := takeWhile_all l.reverse b hb
    exact h b (List.mem_reverse.1 this.2) this.1
  have : l = (l.reverse.takeWhile isWS ++ l.reverse.dropWhile isWS).reverse := by
    rw [hsplit, List.reverse_reverse]
  rw [List.reverse_append] at this
  unfold rstrip
  rw [htw] at this
  simpa using this

theorem ljust_rstrip (l : List Char) (h : ∀ c ∈ l, isWS c = true → c = ' ') : ljust l.length (rstrip l) = l := by
  obtain ⟨k, hk⟩ := rstrip_append_blanks l h
  have hlen : l.length = (rstrip l).length + k := by
    have := congrArg List.length hk
    simpa using this
  unfold ljust
  have : l.length - (rstrip l).length = k := by omega
  rw [this]
  exact hk.symm

theorem strip_ljust (w : Nat) (s : List Char) (h : ∀ c ∈ s, isWS c = false) : strip (ljust w s) = s := by
  have := strip_pad 0 (w - s.length) s h
  simpa [ljust] using this

theorem strip_rjust (w : Nat) (s : List Char) (h : ∀ c ∈ s, isWS c = false) : strip (rjust w s) = s := by
  have := strip_pad (w - s.length) 0 s h
  simpa [rjust] using this

/-! ### the record -/

theorem alignedName_length (a : Atom) (h : a.name.length ≤ 4) : (alignedName a).length ≤ 4 := by
  unfold alignedName
  split
  · rename_i hc
    simp only [Bool.and_eq_true, decide_eq_true_eq] at hc
    simp; omega
  · exact h

theorem recordName_length (a : Atom) : (recordName a).length ≤ 6 := by
  unfold recordName; split <;> decide

theorem firstHalf_eq (a : Atom) (idTxt resTxt : List Char) :
    firstHalf a idTxt resTxt =
      ljust 6 (recordName a) ++ (rjust 5 idTxt ++ ([' '] ++ (ljust 4 (alignedName a) ++ ([' '] ++
      (rjust 3 a.resName ++ ([' '] ++ (ljust 1 a.chain ++ (rjust 4 resTxt ++ rjust 1 a.insCode)))))))) := by
  simp [firstHalf, recordName, List.append_assoc]

theorem secondHalf_eq (fl : Flags) (a : Atom) :
    secondHalf fl a =
      occText fl a ++ (bfText fl a ++ (List.replicate 10 ' ' ++ (rjust 2 a.element ++ chargeField fl a))) := by
  simp [secondHalf, occText, bfText, chargeField, List.append_assoc]

/-- The record, given the texts of its fields: total length 80 and every field in its fixed columns. -/
theorem atomLine_layout (a : Atom) (fl : Flags) (c : Coord) (idTxt resTxt : List Char)
    (hid : idTxt.length ≤ 5) (hres : resTxt.length ≤ 4)
    (hname : a.name.length ≤ 4) (hrn : a.resName.length ≤ 3) (hch : a.chain.length ≤ 1)
    (hins : a.insCode.length ≤ 1) (hel : a.element.length ≤ 2)
    (hx : (fmtFixed 3 c.1).length ≤ 8) (hy : (fmtFixed 3 c.2.1).length ≤ 8) (hz : (fmtFixed 3 c.2.2).length ≤ 8)
    (hocc : (occText fl a).length = 6) (hbf : (bfText fl a).length = 6) (hq : (chargeField fl a).length = 2)
    (hws1 : ∀ ch ∈ firstHalf a idTxt resTxt, isWS ch = true → ch = ' ')
    (hws2 : ∀ ch ∈ secondHalf fl a, isWS ch = true → ch = ' ') :
    let l := atomLine (firstHalf a idTxt resTxt) (secondHalf fl a) c
    l.length = 80 ∧
    slice 0 6 l = ljust 6 (recordName a) ∧ slice 6 11 l = rjust 5 idTxt ∧ slice 11 12 l = [' '] ∧
    slice 12 16 l = ljust 4 (alignedName a) ∧ slice 16 17 l = [' '] ∧ slice 17 20 l = rjust 3 a.resName ∧
    slice 20 21 l = [' '] ∧ slice 21 22 l = ljust 1 a.chain ∧ slice 22 26 l = rjust 4 resTxt ∧
    slice 26 27 l = rjust 1 a.insCode ∧ slice 27 30 l = [' ', ' ', ' '] ∧
    slice 30 38 l = rjust 8 (fmtFixed 3 c.1) ∧ slice 38 46 l = rjust 8 (fmtFixed 3 c.2.1) ∧
    slice 46 54 l = rjust 8 (fmtFixed 3 c.2.2) ∧ slice 54 60 l = occText fl a ∧ slice 60 66 l = bfText fl a ∧
    slice 66 76 l = List.replicate 10 ' ' ∧ slice 76 78 l = rjust 2 a.element ∧ slice 78 80 l = chargeField fl a := by
  -- block lengths
  have l0 := ljust_length 6 _ (recordName_length a)
  have l1 := rjust_length 5 _ hid
  have l2 := ljust_length 4 _ (alignedName_length a hname)
  have l3 := rjust_length 3 _ hrn
  have l4 := ljust_length 1 _ hch
  have l5 := rjust_length 4 _ hres
  have l6 := rjust_length 1 _ hins
  have l7 := rjust_length 8 _ hx
  have l8 := rjust_length 8 _ hy
  have l9 := rjust_length 8 _ hz
  have l10 := rjust_length 2 _ hel
  have lsp : ([' '] : List Char).length = 1 := rfl
  have lsp3 : ("   ".toList : List Char).length = 3 := rfl
  have lsp10 : (List.replicate 10 ' ').length = 10 := by simp
  have hfh : (firstHalf a idTxt resTxt).length = 27 := by
    rw [firstHalf_eq]; simp only [List.length_append, l0, l1, l2, l3, l4, l5, l6, lsp]
  have hsh : (secondHalf fl a).length = 26 := by
    rw [secondHalf_eq]; simp only [List.length_append, hocc, hbf, lsp10, l10, hq]
  have e1 : ljust 27 (rstrip (firstHalf a idTxt resTxt)) = firstHalf a idTxt resTxt := by
    have := ljust_rstrip _ hws1; rwa [hfh] at this
  have e2 : ljust 26 (rstrip (secondHalf fl a)) = secondHalf fl a := by
    have := ljust_rstrip _ hws2; rwa [hsh] at this
  intro l
  have hl : l = ljust 6 (recordName a) ++ (rjust 5 idTxt ++ ([' '] ++ (ljust 4 (alignedName a) ++ ([' '] ++
      (rjust 3 a.resName ++ ([' '] ++ (ljust 1 a.chain ++ (rjust 4 resTxt ++ (rjust 1 a.insCode ++
      ("   ".toList ++ (rjust 8 (fmtFixed 3 c.1) ++ (rjust 8 (fmtFixed 3 c.2.1) ++ (rjust 8 (fmtFixed 3 c.2.2) ++
      (occText fl a ++ (bfText fl a ++ (List.replicate 10 ' ' ++ (rjust 2 a.element ++
        chargeField fl a))))))))))))))))) := by
    show atomLine _ _ c = _
    unfold atomLine
    rw [e1, e2, firstHalf_eq, secondHalf_eq]
    simp only [List.append_assoc]
  refine ⟨?_, ?_⟩
  · rw [hl]
    simp only [List.length_append, l0, l1, l2, l3, l4, l5, l6, l7, l8, l9, l10, lsp, lsp3, lsp10, hocc, hbf, hq]
  · rw [hl]
    refine ⟨?_, ?_, ?_, ?_, ?_, ?_, ?_, ?_, ?_, ?_, ?_, ?_, ?_, ?_, ?_, ?_, ?_, ?_, ?_⟩ <;>
    ( repeat (first
        | rw [slice_skip _ _ _ _ _ l0 (by decide)] | rw [slice_skip _ _ _ _ _ l1 (by decide)]
        | rw [slice_skip _ _ _ _ _ lsp (by decide)] | rw [slice_skip _ _ _ _ _ l2 (by decide)]
        | rw [slice_skip _ _ _ _ _ l3 (by decide)] | rw [slice_skip _ _ _ _ _ l4 (by decide)]
        | rw [slice_skip _ _ _ _ _ l5 (by decide)] | rw [slice_skip _ _ _ _ _ l6 (by decide)]
        | rw [slice_skip _ _ _ _ _ lsp3 (by decide)] | rw [slice_skip _ _ _ _ _ l7 (by decide)]
        | rw [slice_skip _ _ _ _ _ l8 (by decide)] | rw [slice_skip _ _ _ _ _ l9 (by decide)]
        | rw [slice_skip _ _ _ _ _ hocc (by decide)] | rw [slice_skip _ _ _ _ _ hbf (by decide)]
        | rw [slice_skip _ _ _ _ _ lsp10 (by decide)] | rw [slice_skip _ _ _ _ _ l10 (by decide)])
      first
        | exact slice_head _ _ _ l0 | exact slice_head _ _ _ l1 | exact slice_head _ _ _ lsp
        | exact slice_head _ _ _ l2 | exact slice_head _ _ _ l3 | exact slice_head _ _ _ l4
        | exact slice_head _ _ _ l5 | exact slice_head _ _ _ l6 | exact slice_head _ _ _ lsp3
        | exact slice_head _ _ _ l7 | exact slice_head _ _ _ l8 | exact slice_head _ _ _ l9
        | exact slice_head _ _ _ hocc | exact slice_head _ _ _ hbf | exact slice_head _ _ _ lsp10
        | exact slice_head _ _ _ l10 | exact slice_last _ _ hq )

/-! ### white space in the two halves -/

theorem ws_append {l1 l2 : List Char} (h1 : ∀ ch ∈ l1, isWS ch = true → ch = ' ')
    (h2 : ∀ ch ∈ l2, isWS ch = true → ch = ' ') : ∀ ch ∈ l1 ++ l2, isWS ch = true → ch = ' ' := by
  intro ch hm
  rcases List.mem_append.1 hm with h | h
  · exact h1 ch h
  · exact h2 ch h

theorem ws_replicate (k : Nat) : ∀ ch ∈ List.replicate k ' ', isWS ch = true → ch = ' ' :=
  fun _ hm _ => List.eq_of_mem_replicate hm

theorem ws_of_clean {s : List Char} (h : ∀ c ∈ s, isWS c = false) : ∀ ch ∈ s, isWS ch = true → ch = ' ' := by
  intro ch hm hw; rw [h ch hm] at hw; cases hw

theorem ws_ljust (w : Nat) {s : List Char} (h : ∀ ch ∈ s, isWS ch = true → ch = ' ') :
    ∀ ch ∈ ljust w s, isWS ch = true → ch = ' ' := ws_append h (ws_replicate _)

theorem ws_rjust (w : Nat) {s : List Char} (h : ∀ ch ∈ s, isWS ch = true → ch = ' ') :
    ∀ ch ∈ rjust w s, isWS ch = true → ch = ' ' := ws_append (ws_replicate _) h

theorem recordName_no_ws (a : Atom) : ∀ c ∈ recordName a, isWS c = false := by
  unfold recordName; split <;> decide

theorem alignedName_ws (a : Atom) (h : ∀ c ∈ a.name, isWS c = false) :
    ∀ ch ∈ alignedName a, isWS ch = true → ch = ' ' := by
  unfold alignedName
  split
  · intro ch hm hw
    rcases List.mem_cons.1 hm with rfl | hm
    · rfl
    · rw [h ch hm] at hw; cases hw
  · exact ws_of_clean h

theorem firstHalf_ws (a : Atom) (idTxt resTxt : List Char) (hc : Clean a)
    (hid : ∀ ch ∈ idTxt, isWS ch = false) (hres : ∀ ch ∈ resTxt, isWS ch = false) :
    ∀ ch ∈ firstHalf a idTxt resTxt, isWS ch = true → ch = ' ' := by
  obtain ⟨h1, h2, h3, h4, _⟩ := hc
  rw [firstHalf_eq]
  exact ws_append (ws_ljust _ (ws_of_clean (recordName_no_ws a))) <|
    ws_append (ws_rjust _ (ws_of_clean hid)) <| ws_append (ws_replicate 1) <|
    ws_append (ws_ljust _ (alignedName_ws a h1)) <| ws_append (ws_replicate 1) <|
    ws_append (ws_rjust _ (ws_of_clean h2)) <| ws_append (ws_replicate 1) <|
    ws_append (ws_ljust _ (ws_of_clean h3)) <| ws_append (ws_rjust _ (ws_of_clean hres)) (ws_rjust _ (ws_of_clean h4))

theorem secondHalf_ws (fl : Flags) (a : Atom) (hc : Clean a)
    (hocc : ∀ ch ∈ occText fl a, isWS ch = true → ch = ' ') (hbf : ∀ ch ∈ bfText fl a, isWS ch = true → ch = ' ')
    (hq : ∀ ch ∈ chargeField fl a, isWS ch = true → ch = ' ') :
    ∀ ch ∈ secondHalf fl a, isWS ch = true → ch = ' ' := by
  rw [secondHalf_eq]
  exact ws_append hocc <| ws_append hbf <| ws_append (ws_replicate 10) <|
    ws_append (ws_rjust _ (ws_of_clean hc.2.2.2.2)) hq

theorem strip_alignedName (a : Atom) (w : Nat) (h : ∀ c ∈ a.name, isWS c = false) :
    strip (ljust w (alignedName a)) = a.name := by
  unfold alignedName
  split
  · have := strip_pad 1 (w - (' ' :: a.name).length) a.name h
    simpa [ljust] using this
  · exact strip_ljust w _ h

theorem recordName_hetatm (a : Atom) : (ljust 6 (recordName a) == "HETATM".toList) = a.hetero := by
  unfold recordName; cases a.hetero <;> decide

end BiotiteModel.C07

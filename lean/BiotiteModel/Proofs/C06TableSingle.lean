import BiotiteModel.Proofs.C06TableLooped
/-!
# C06 — a whole single-row category
-/
namespace BiotiteModel.C06

theorem keyTok_bare (name key : Str) (hn : NameOk name) (hk : NameOk key) : BareTok (keyTok name key) := by
  refine ⟨by simp [keyTok], keyTok_nows name key hn hk, ?_, ?_⟩
  · intro hm
    simp only [keyTok, List.mem_cons, List.mem_append] at hm
    rcases hm with (e | hm) | e | hm
    · simp [q1] at e
    · exact (hn _ hm).2.2.1 rfl
    · simp [q1] at e
    · exact (hk _ hm).2.2.1 rfl
  · intro hm
    simp only [keyTok, List.mem_cons, List.mem_append] at hm
    rcases hm with (e | hm) | e | hm
    · simp [q2] at e
    · exact (hn _ hm).2.2.2 rfl
    · simp [q2] at e
    · exact (hk _ hm).2.2.2 rfl

/-- the line `_name.key   value` as a padded row of two tokens -/
def singleLine (name key v : Str) (n : Nat) : Str := padded [(keyTok name key, n), (escape v, 0)]

theorem singleLine_facts (name key v : Str) (n : Nat) (hn : NameOk name) (hk : NameOk key)
    (hv : SingleLine v ∧ ¬ BothQuotes v) :
    let L := singleLine name key v n
    strip L = L ∧ NoBreak L ∧ isEmptyLine L = false ∧ L.head? = some '_' ∧
    parseCategoryName L = some name ∧ isLoopStart L = false ∧
    splitOneLine L = .ok [keyTok name key, v] := by
  intro L
  have hs := escape_tok v hv.1 hv.2
  have hrel : RowRel [keyTok name key, v] [(keyTok name key, n), (escape v, 0)] :=
    RowRel.cons (Tok.bare _ (keyTok_bare name key hn hk)) (RowRel.cons hs.1 RowRel.nil)
  have hedges := rowRel_edges _ _ hrel
  have hstrip : strip L = L := strip_padded _ (by simp) hedges
  have hLeq : L = ('_' :: name) ++ '.' :: (key ++ List.replicate (n + 1) ' ' ++ escape v) := by
    simp [L, singleLine, padded, keyTok]
  have hhead : L.head? = some '_' := by rw [hLeq]; rfl
  have hnl : NoBreak L :=
    noBreak_padded _ (rowRel_no_nl _ _ hrel (by
      intro x hx
      simp only [List.mem_cons, List.mem_nil_iff, or_false] at hx
      rcases hx with rfl | rfl
      · exact noBreak_of_nows _ (keyTok_nows name key hn hk)
      · exact hv.1))
  have hsplit : splitOneLine L = .ok [keyTok name key, v] :=
    splitOneLine_padded _ _ hrel (by simp) (by rw [show padded _ = L from rfl, hhead]; simp)
  have hne : L ≠ [] := by rw [hLeq]; simp
  have hempty : isEmptyLine L = false := by
    unfold isEmptyLine
    rw [hstrip, hhead]
    simp [hne]
  have hnd : '.' ∉ '_' :: name := by
    intro hm
    rcases List.mem_cons.mp hm with e | e
    · simp at e
    · exact (hn _ e).2.1 rfl
  have hcat : parseCategoryName L = some name := by
    have hd : has '.' L = true := by rw [hLeq]; simp [has_iff]
    have ht := takeWhile_ne_app '.' ('_' :: name) (key ++ List.replicate (n + 1) ' ' ++ escape v) hnd
    rw [← hLeq] at ht
    have hh : (L.head? == some '_') = true := by rw [hhead]; simp
    simp only [parseCategoryName, hh, hd, if_true, ht, List.tail_cons]
  have hloop : isLoopStart L = false := by rw [hLeq]; simp [isLoopStart, sLoop, List.isPrefixOf]
  exact ⟨hstrip, hnl, hempty, hhead, hcat, hloop, hsplit⟩

/-- `_deserialize_single` on the written lines -/
theorem deserializeSingle_ok (name : Str) (hn : NameOk name) (items : List (Str × Str × Nat))
    (h : ∀ it ∈ items, NameOk it.1 ∧ SingleLine it.2.1 ∧ ¬ BothQuotes it.2.1) (acc : List (Str × List Str)) :
    deserializeSingle acc (items.map (fun it => singleLine name it.1 it.2.1 it.2.2)) =
      .ok (items.foldl (fun d it => dictSet it.1 [it.2.1] d) acc) := by
  induction items generalizing acc with
  | nil => simp [deserializeSingle]
  | cons it rest ih =>
    obtain ⟨key, v, n⟩ := it
    have hit := h (key, v, n) (by simp)
    have hf := singleLine_facts name key v n hn hit.1 hit.2
    have hsplit := hf.2.2.2.2.2.2
    have hkey := secondDotField_keyTok name key hn hit.1
    cases rest with
    | nil =>
      simp only [List.map_cons, List.map_nil]
      rw [deserializeSingle]
      simp [hsplit, hkey, bind, Except.bind]
    | cons it2 rest2 =>
      have ih' := ih (fun x hx => h x (by simp [hx])) (dictSet key [v] acc)
      simp only [List.map_cons] at ih' ⊢
      rw [deserializeSingle]
      simp only [hsplit, hkey, bind, Except.bind]
      rw [ih']
      simp

theorem zipWith_map_left_self {α β γ : Type} (f : β → α → γ) (g : α → β) (l : List α) :
    List.zipWith f (l.map g) l = l.map (fun a => f (g a) a) := by
  induction l with
  | nil => rfl
  | cons a l ih => simp [ih]

/-- **Single-row category, composed.** -/
theorem table_single (name : Str) (kvs : List (Str × Str))
    (hname : NameOk name) (hkeys : ∀ kv ∈ kvs, NameOk kv.1) (hnodup : (kvs.map (·.1)).Nodup)
    (hne : kvs ≠ []) (hvals : ∀ kv ∈ kvs, SingleLine kv.2 ∧ ¬ BothQuotes kv.2) :
    ∃ W, categorySerialize name (kvs.map (fun kv => (kv.1, [kv.2]))) = .ok (unlines W) ∧ CatLines name W ∧
      categoryDeserialize (unlines W) = .ok (name, kvs.map (fun kv => (kv.1, [kv.2]))) := by
  let keyLines := kvs.map (fun kv => keyTok name kv.1)
  let reqLen := maxLen keyLines + 3
  let items : List (Str × Str × Nat) :=
    kvs.map (fun kv => (kv.1, kv.2, reqLen - (keyTok name kv.1).length - 1))
  let W := items.map (fun it => singleLine name it.1 it.2.1 it.2.2)
  have hitems : ∀ it ∈ items, NameOk it.1 ∧ SingleLine it.2.1 ∧ ¬ BothQuotes it.2.1 := by
    intro it hit
    simp only [items, List.mem_map] at hit
    obtain ⟨kv, hkv, rfl⟩ := hit
    exact ⟨hkeys kv hkv, hvals kv hkv⟩
  have hfacts := fun it (hit : it ∈ items) =>
    singleLine_facts name it.1 it.2.1 it.2.2 hname (hitems it hit).1 (hitems it hit).2
  -- the writer
  have hser : serializeSingle name kvs = W := by
    simp only [serializeSingle]
    have hk : kvs.map (fun kv => '_' :: name ++ '.' :: kv.1) = keyLines := rfl
    rw [hk, zipWith_map_left_self]
    simp only [W, items, List.map_map]
    apply List.map_congr_left
    intro kv hkv
    have hlen : (keyTok name kv.1).length ≤ maxLen keyLines :=
      length_le_maxLen keyLines _ (List.mem_map_of_mem hkv)
    have hf := singleLine_facts name kv.1 kv.2 (reqLen - (keyTok name kv.1).length - 1) hname
      (hkeys kv hkv) (hvals kv hkv)
    have hl : ljust (maxLen keyLines + 3) (keyTok name kv.1) ++ escape kv.2 =
        singleLine name kv.1 kv.2 (reqLen - (keyTok name kv.1).length - 1) := by
      simp only [singleLine, padded, ljust, reqLen]
      congr 2
      congr 1
      omega
    simp only [Function.comp_def]
    rw [hl]
    exact hf.1
  have hcs : categorySerialize name (kvs.map (fun kv => (kv.1, [kv.2]))) = .ok (unlines W) := by
    obtain ⟨kv0, rest, rfl⟩ := List.exists_cons_of_ne_nil hne
    have hany : (((kv0 :: rest).map (fun kv => (kv.1, [kv.2]))).any fun kv => kv.2.length != 1) = false := by
      apply Bool.eq_false_iff.mpr
      intro h
      simp only [List.any_eq_true, List.mem_map, bne_iff_ne, ne_eq] at h
      obtain ⟨c, ⟨kv, _, rfl⟩, hc⟩ := h
      exact hc rfl
    have hmm : ((kv0 :: rest).map (fun kv => (kv.1, [kv.2]))).map (fun kv => (kv.1, kv.2.headD [])) = kv0 :: rest := by
      simp [List.map_map, Function.comp_def]
    rw [← hser]
    have hlab := labels_ok name (((kv0 :: rest).map (fun kv => (kv.1, [kv.2]))).map (·.1)) hname (by
      intro k hk
      simp only [List.mem_map] at hk
      obtain ⟨_, ⟨kv, hkv, rfl⟩, rfl⟩ := hk
      exact hkeys kv hkv)
    simp only [List.map_cons] at hany hmm hlab ⊢
    simp only [categorySerialize, List.map_cons, List.length_singleton, hlab, hany, Bool.false_eq_true, if_false]
    simp only [show ((1 : Nat) == 0) = false from rfl, show ((1 : Nat) == 1) = true from rfl,
      Bool.false_eq_true, if_false, if_true]
    rw [hmm]
  refine ⟨W, hcs, ?_⟩
  -- the reader
  have hWstrip : W.map strip = W := by
    conv => rhs; rw [← List.map_id W]
    apply List.map_congr_left
    intro w hw
    simp only [W, List.mem_map] at hw
    obtain ⟨it, hit, rfl⟩ := hw
    exact (hfacts it hit).1
  have hWnl : ∀ w ∈ W, NoBreak w := by
    intro w hw
    simp only [W, List.mem_map] at hw
    obtain ⟨it, hit, rfl⟩ := hw
    exact (hfacts it hit).2.1
  have hWne : ∀ w ∈ W, isEmptyLine w = false := by
    intro w hw
    simp only [W, List.mem_map] at hw
    obtain ⟨it, hit, rfl⟩ := hw
    exact (hfacts it hit).2.2.1
  have hcl : CatLines name W := by
    have hall : ∀ w ∈ W, isLoopStart w = false ∧ parseCategoryName w = some name ∧ parseDataBlockName w = none := by
      intro w hw
      simp only [W, List.mem_map] at hw
      obtain ⟨it, hit, rfl⟩ := hw
      have hf := hfacts it hit
      refine ⟨hf.2.2.2.2.2.1, hf.2.2.2.2.1, ?_⟩
      have hh := hf.2.2.2.1
      cases hL : singleLine name it.1 it.2.1 it.2.2 with
      | nil => rw [hL] at hh; simp at hh
      | cons c cs =>
        rw [hL] at hh
        simp only [List.head?_cons, Option.some.injEq] at hh
        subst hh
        simp [parseDataBlockName, sData, List.isPrefixOf]
    obtain ⟨kv0, rest, hkvs⟩ := List.exists_cons_of_ne_nil hne
    have hWne' : W ≠ [] := by simp [W, items, hkvs]
    obtain ⟨l0, restW, hW0⟩ := List.exists_cons_of_ne_nil hWne'
    refine ⟨hWnl, hWne, fun w hw => (hall w hw).2.2, ⟨l0, restW, hW0, Or.inr ?_⟩, ?_⟩
    · have := hall l0 (by rw [hW0]; simp)
      exact ⟨this.1, this.2.1⟩
    · intro w hw
      have := hall w (List.mem_of_mem_tail hw)
      exact ⟨this.1, Or.inr this.2.1⟩
  refine ⟨hcl, ?_⟩
  have hlines := read_lines W hWnl hWne
  rw [hWstrip] at hlines
  unfold categoryDeserialize
  simp only [bind, Except.bind]
  rw [hlines]
  obtain ⟨kv0, rest, hkvs⟩ := List.exists_cons_of_ne_nil hne
  have hWc : W = singleLine name kv0.1 kv0.2 (reqLen - (keyTok name kv0.1).length - 1) ::
      (rest.map (fun kv => (kv.1, kv.2, reqLen - (keyTok name kv.1).length - 1))).map
        (fun it => singleLine name it.1 it.2.1 it.2.2) := by
    simp [W, items, hkvs]
  have hit0 : (kv0.1, kv0.2, reqLen - (keyTok name kv0.1).length - 1) ∈ items := by
    simp [items, hkvs]
  have hf0 := hfacts _ hit0
  simp only at hf0
  rw [hWc]
  simp only [hf0.2.2.2.2.2.1, Bool.false_eq_true, if_false, hf0.2.2.2.2.1]
  rw [← hWc]
  have hsingle : toSingle none W = W := by
    apply toSingle_id
    intro l hl
    simp only [W, List.mem_map] at hl
    obtain ⟨it, hit, rfl⟩ := hl
    rw [(hfacts it hit).2.2.2.1]; simp
  rw [hsingle]
  have hds := deserializeSingle_ok name hname items hitems []
  simp only [show items.map (fun it => singleLine name it.1 it.2.1 it.2.2) = W from rfl] at hds
  rw [hds]
  simp only
  congr 2
  have : items.foldl (fun d it => dictSet it.1 [it.2.1] d) [] =
      (kvs.map (fun kv => (kv.1, [kv.2]))).foldl (fun d kv => dictSet kv.1 kv.2 d) [] := by
    simp only [items, List.foldl_map]
  rw [this]
  exact foldl_dictSet_nodup _ (by simpa [List.map_map, Function.comp_def] using hnodup)

end BiotiteModel.C06

import BiotiteModel.Proofs.C02Getitem
/-!
# C02 — the reference: a map from sorted atom-index pairs to one bond type, and its operations

`Spec.step` is written from the property statement (first type wins at construction, the new type on update, the
argument on merge, disjoint union with offset, relabelling by the selection); it never looks at a bond array.
`Valid st op` is the acceptance domain of the statement (indices in `[-n, n)`, types in `0..9`, duplicate-free selections
(only integer index arrays can contain duplicates, `resolveIdx_sound`), masks of the right length, non-negative offsets).
-/
namespace BiotiteModel.C02
open BiotiteModel

structure Spec where
  n : Nat
  m : Nat → Nat → Option Nat

def abs (s : BL) : Spec := ⟨s.n, lookup s.bonds⟩

structure SpecState where
  cur : Spec
  aux : Spec

def absState (st : State) : SpecState := ⟨abs st.cur, abs st.aux⟩

namespace Spec

/-- type of the unordered pair -/
def symm (S : Spec) (a b : Nat) : Option Nat := S.m (min a b) (max a b)

/-- construction from normalised, per-row sorted rows: the first row of a pair wins -/
def ofRows (n : Nat) (rows : List Bond) : Spec := ⟨n, fun x y => (rows.find? (isPair x y)).map (·.2.2)⟩

def put (S : Spec) (a b t : Nat) : Spec :=
  ⟨S.n, fun x y => if x = (sortPair a b).1 ∧ y = (sortPair a b).2 then some t else S.m x y⟩

def del (S : Spec) (a b : Nat) : Spec :=
  ⟨S.n, fun x y => if x = (sortPair a b).1 ∧ y = (sortPair a b).2 then none else S.m x y⟩

def delAtom (S : Spec) (k : Nat) : Spec := ⟨S.n, fun x y => if x = k ∨ y = k then none else S.m x y⟩

def delAll (S O : Spec) : Spec := ⟨S.n, fun x y => if (O.m x y).isSome then none else S.m x y⟩

/-- the argument wins -/
def merge (S O : Spec) : Spec := ⟨max S.n O.n, fun x y => (O.m x y).or (S.m x y)⟩

def shifted (S : Spec) (k : Nat) : Nat → Nat → Option Nat :=
  fun x y => if k ≤ x ∧ k ≤ y then S.m (x - k) (y - k) else none

def concat (S O : Spec) : Spec := ⟨S.n + O.n, fun x y => (S.m x y).or (O.shifted S.n x y)⟩

def concat3 (S O : Spec) : Spec :=
  ⟨S.n + O.n + S.n, fun x y => (S.m x y).or ((O.shifted S.n x y).or (S.shifted (S.n + O.n) x y))⟩

def offset (S : Spec) (k : Nat) : Spec := ⟨S.n + k, S.shifted k⟩

def mapType (S : Spec) (f : Nat → Nat) : Spec := ⟨S.n, fun x y => (S.m x y).map f⟩

/-- relabelling by a selection: new atom `p` is old atom `sel[p]` -/
def select (S : Spec) (sel : List Nat) : Spec :=
  ⟨sel.length, fun p q =>
    if p ≤ q then
      match sel[p]?, sel[q]? with
      | some a, some b => S.symm a b
      | _, _ => none
    else none⟩

end Spec

/-- the atoms an index object selects, in order (numpy semantics; independent of any bond list) -/
def resolveIdx (n : Nat) : Idx → Option (List Nat)
  | .mask m => if m.length = n then some (truePositions m) else none
  | .smask m => if m.length = n ∧ m.length < 2 then some (truePositions m) else none
  | .blist m => if m.isEmpty then some [] else if m.length = n then some (truePositions m) else none
  | .arr is => normArr n is
  | .slice a b c =>
    match sliceIndices n a b c with
    | .ok sel => some sel
    | .error _ => none

def normI (n : Nat) (i : Int) : Nat := (i % (n : Int)).toNat

def InR (n : Nat) (i : Int) : Prop := -(n : Int) ≤ i ∧ i < n

/-- acceptance domain of the statement -/
def Valid (st : State) : Op → Prop
  | .new _ n typed input => (normRows n input).isSome ∧ (typed = true → ∀ r ∈ input, r.2.2 < 10)
  | .add i j t => st.cur.n < 2147483648 ∧ InR st.cur.n i ∧ InR st.cur.n j ∧ 0 ≤ t ∧ t < 10
  | .remove i j => st.cur.n < 2147483648 ∧ InR st.cur.n i ∧ InR st.cur.n j
  | .removeTo i => st.cur.n < 2147483648 ∧ InR st.cur.n i
  | .offset k => 0 ≤ k ∧ k ≤ 2147483647
  | .getitem ix => ∃ sel, resolveIdx st.cur.n ix = some sel ∧ sel.Nodup
  | _ => True

def SpecState.step (S : SpecState) : Op → SpecState
  | .new toAux n typed input =>
    let T := Spec.ofRows n (((normRows n input).getD []).map (sortRow typed))
    if toAux then ⟨S.cur, T⟩ else ⟨T, S.aux⟩
  | .swap => ⟨S.aux, S.cur⟩
  | .dup => ⟨S.cur, S.cur⟩
  | .add i j t => ⟨S.cur.put (normI S.cur.n i) (normI S.cur.n j) t.toNat, S.aux⟩
  | .remove i j => ⟨S.cur.del (normI S.cur.n i) (normI S.cur.n j), S.aux⟩
  | .removeTo i => ⟨S.cur.delAtom (normI S.cur.n i), S.aux⟩
  | .removeBonds => ⟨S.cur.delAll S.aux, S.aux⟩
  | .merge => ⟨S.cur.merge S.aux, S.aux⟩
  | .concat => ⟨S.cur.concat S.aux, S.aux⟩
  | .concat3 => ⟨S.cur.concat3 S.aux, S.aux⟩
  | .offset k => ⟨S.cur.offset k.toNat, S.aux⟩
  | .rmArom => ⟨S.cur.mapType (applyPairs aromPairs), S.aux⟩
  | .rmOrder => ⟨S.cur.mapType (fun _ => 0), S.aux⟩
  | .getitem ix => ⟨S.cur.select ((resolveIdx S.cur.n ix).getD []), S.aux⟩

/-- every operation of the history is inside the acceptance domain of the state it is applied to -/
def ValidRun : State → List Op → Prop
  | _, [] => True
  | st, op :: ops => Valid st op ∧ ValidRun (step st op) ops

theorem Spec.ext' {S T : Spec} (hn : S.n = T.n) (hm : ∀ x y, S.m x y = T.m x y) : S = T := by
  cases S; cases T
  simp only at hn hm
  subst hn
  congr
  funext x y; exact hm x y

theorem abs_eq {s : BL} {T : Spec} (hn : s.n = T.n) (hm : ∀ x y, lookup s.bonds x y = T.m x y) : abs s = T :=
  Spec.ext' hn hm

/-! ## helper facts -/

theorem merge_total {s o : BL} (hs : WF s) (ho : WF o) : ∃ s', merge s o = .ok s' := by
  unfold merge
  simp only
  split
  · exact ⟨_, rfl⟩
  · have h1 : (o.bonds ++ s.bonds).any (fun c => decide (c.1 ≥ max s.n o.n) || decide (c.2.1 ≥ max s.n o.n)) = false := by
      rw [← Bool.not_eq_true]
      simp only [List.any_eq_true, Bool.or_eq_true, decide_eq_true_eq, not_exists, not_and, not_or]
      intro c hc
      rcases List.mem_append.mp hc with hc | hc
      · have := ho.1.sorted c hc; have := ho.1.bound c hc; omega
      · have := hs.1.sorted c hc; have := hs.1.bound c hc; omega
    have h2 : (o.bonds ++ s.bonds).any (fun c => decide (c.2.2 ≥ 10)) = false := by
      rw [← Bool.not_eq_true]
      simp only [List.any_eq_true, decide_eq_true_eq, not_exists, not_and]
      intro c hc
      rcases List.mem_append.mp hc with hc | hc
      · have := ho.1.types c hc; omega
      · have := hs.1.types c hc; omega
    simp only [h1, Bool.false_eq_true, if_false, ctorCore, h2, Bool.and_false]
    exact ⟨_, rfl⟩

theorem normRows_types {n : Nat} {input : List (Int × Int × Nat)} {rows : List Bond}
    (h : normRows n input = some rows) : rows.map (·.2.2) = input.map (·.2.2) := by
  induction input generalizing rows with
  | nil => simp [normRows] at h; subst h; rfl
  | cons x xs ih =>
    obtain ⟨i, j, t⟩ := x
    simp only [normRows] at h
    split at h
    · rename_i a b r ha hb hr
      injection h with h; subst h
      simp [ih hr]
    · cases h

theorem normArr_lt {n : Nat} {xs : List Int} {sel : List Nat} (h : normArr n xs = some sel) : ∀ a ∈ sel, a < n := by
  induction xs generalizing sel with
  | nil => simp [normArr] at h; subst h; simp
  | cons x xs ih =>
    simp only [normArr] at h
    split at h
    · rename_i a r ha hr
      injection h with h; subst h
      intro b hb
      rcases List.mem_cons.mp hb with rfl | hb
      · exact normOne_lt ha
      · exact ih hr b hb
    · cases h

theorem any_isPair_eq (l : List Bond) (a b : Nat) : l.any (isPair a b) = (lookup l a b).isSome := by
  rw [Bool.eq_iff_iff, any_isPair_iff, lookup_isSome_iff]

theorem lookup_of_gt {bs : List Bond} (hs : ∀ c ∈ bs, c.1 ≤ c.2.1) {x y : Nat} (h : y < x) : lookup bs x y = none := by
  cases hl : lookup bs x y with
  | none => rfl
  | some t =>
    have : (lookup bs x y).isSome := by simp [hl]
    rw [lookup_isSome_iff] at this
    obtain ⟨c, hc, he⟩ := List.mem_map.mp this
    injection he with e1 e2
    have := hs c hc; omega

theorem lookup_eq_find (bs : List Bond) (x y : Nat) : lookup bs x y = (bs.find? (isPair x y)).map (·.2.2) := by
  unfold lookup; cases bs.find? (isPair x y) <;> rfl

theorem step_of_apply {st st' : State} {op : Op} (h : apply st op = .ok st') : step st op = st' := by
  simp [step, h]

/-! ## views -/

theorem incident_length_le_deg (bs : List Bond) (k : Nat) : (incident bs k).length ≤ deg bs k := by
  induction bs with
  | nil => simp [incident]
  | cons c cs ih =>
    simp only [incident, List.filterMap_cons, deg_cons] at ih ⊢
    by_cases h1 : c.1 = k <;> by_cases h2 : c.2.1 = k <;> simp [h1, h2] <;> omega



theorem rowOf_cons (c : Bond) (cs : List Bond) (k : Nat) :
    rowOf (c :: cs) k =
      (if c.1 = k ∧ c.2.1 = k then [some (k, c.2.2), none]
       else if c.1 = k then [some (c.2.1, c.2.2)]
       else if c.2.1 = k then [some (c.1, c.2.2)] else []) ++ rowOf cs k := by
  simp [rowOf, List.flatMap_cons]

/-- a row of `get_all_bonds` occupies exactly `deg k` slots (a self bond two) … -/
theorem rowOf_length (bs : List Bond) (k : Nat) : (rowOf bs k).length = deg bs k := by
  induction bs with
  | nil => simp [rowOf]
  | cons c cs ih =>
    rw [rowOf_cons, List.length_append, ih, deg_cons]
    by_cases h1 : c.1 = k <;> by_cases h2 : c.2.1 = k <;> simp [h1, h2]

/-- … and without the `-1` holes it is the `get_bonds` result of that atom -/
theorem rowOf_filterMap (bs : List Bond) (k : Nat) : (rowOf bs k).filterMap id = incident bs k := by
  induction bs with
  | nil => simp [rowOf, incident]
  | cons c cs ih =>
    rw [rowOf_cons, List.filterMap_append, ih]
    simp only [incident, List.filterMap_cons]
    by_cases h1 : c.1 = k <;> by_cases h2 : c.2.1 = k <;> simp [h1, h2]

theorem getAllBonds_ok {s : BL} (hw : WF s) : getAllBonds s = .ok ((List.range s.n).map (rowOf s.bonds)) := by
  unfold getAllBonds
  have h1 : (List.range s.n).any (fun k => decide ((rowOf s.bonds k).length > s.cachedMax)) = false := by
    rw [← Bool.not_eq_true]
    simp only [List.any_eq_true, decide_eq_true_eq, not_exists, not_and]
    intro k _
    rw [rowOf_length]
    have := hw.2 k; omega
  simp [canon_inRange hw.1, h1]

end BiotiteModel.C02

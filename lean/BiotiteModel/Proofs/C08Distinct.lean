import BiotiteModel.Proofs.C08Trace
/-! Pairwise distinctness of the traces `followLin` yields. -/
namespace BiotiteModel.C08

def EndsWith (t x : Aln) : Prop := ∃ pre, x = pre ++ t

theorem endsWith_cons_inj {c1 c2 : Col} {t x : Aln} (h1 : EndsWith (c1 :: t) x) (h2 : EndsWith (c2 :: t) x) :
    c1 = c2 := by
  obtain ⟨p1, e1⟩ := h1
  obtain ⟨p2, e2⟩ := h2
  have := List.append_inj' (e1.symm.trans e2) (by simp)
  simpa using this.2

theorem Dir.col_inj (p : Nat × Nat) (d d' : Dir) (h : d.col p = d'.col p) : d = d' := by
  obtain ⟨i, j⟩ := p
  cases d <;> cases d' <;> simp [Dir.col] at h ⊢

theorem nodup3 (p q r : Prop) [Decidable p] [Decidable q] [Decidable r] :
    ((if p then [Dir.diag] else []) ++ (if q then [Dir.left] else []) ++ (if r then [Dir.top] else [])).Nodup := by
  by_cases hp : p <;> by_cases hq : q <;> by_cases hr : r <;> simp [hp, hq, hr]

theorem ite_nodup (c : Prop) [Decidable c] (l : List Dir) (h : l.Nodup) : (if c then [] else l).Nodup := by
  split <;> simp [h]

theorem traceDirs_nodup (mode : Mode) (M : Mat) (g : Int) (a b : Seq) (V : Nat → Nat → Int) (p : Nat × Nat) :
    (traceDirs mode M g a b V p).Nodup := by
  obtain ⟨i, j⟩ := p
  cases i with
  | zero =>
    cases j with
    | zero => simp [traceDirs]
    | succ j => simp only [traceDirs]; split <;> simp
  | succ i =>
    cases j with
    | zero => simp only [traceDirs]; split <;> simp
    | succ j =>
      simp only [traceDirs]
      exact ite_nodup _ _ (nodup3 _ _ _)

theorem endsWith_cons {c : Col} {t x : Aln} (h : EndsWith (c :: t) x) : EndsWith t x := by
  obtain ⟨pre, e⟩ := h
  exact ⟨pre ++ [c], by simp [e]⟩

theorem followLin_endsWith (dirs : Nat × Nat → List Dir) (mx : Nat) :
    ∀ (fuel : Nat) (p : Nat × Nat) (suffix : Aln) (c : Nat),
      ∀ x ∈ (followLin dirs mx fuel p suffix c).1, EndsWith suffix x := by
  intro fuel
  induction fuel with
  | zero => intro p suffix c x hx; simp [followLin] at hx
  | succ fuel ih =>
    intro p suffix c x hx
    simp only [followLin] at hx
    split at hx
    · simp at hx; subst hx; exact ⟨[], rfl⟩
    · rename_i d0 ds hds
      simp only [List.mem_append] at hx
      rcases hx with hx | hx
      · exact runBranches_all mx _ (EndsWith suffix) ds
          (fun d _ c' y hy => endsWith_cons (ih _ _ _ y hy)) c x hx
      · exact endsWith_cons (ih _ _ _ x hx)

theorem runBranches_nodup (mx : Nat) (run : Dir → Nat → List Aln × Nat) (p : Nat × Nat) (suffix : Aln)
    (ds : List Dir) (hnd : ds.Nodup)
    (hrun : ∀ d c, (run d c).1.Nodup)
    (hends : ∀ d c, ∀ x ∈ (run d c).1, EndsWith (d.col p :: suffix) x) :
    ∀ c, (runBranches mx run ds c).1.Nodup := by
  induction ds with
  | nil => intro c; simp [runBranches]
  | cons d ds ih =>
    intro c
    have hnd' := (List.nodup_cons.mp hnd)
    simp only [runBranches]
    split
    · rw [List.nodup_append]
      refine ⟨hrun _ _, ih hnd'.2 _, ?_⟩
      intro x hx y hy hxy
      subst hxy
      have h1 := hends d _ x hx
      obtain ⟨d', hd', h2⟩ := runBranches_all mx run (fun z => ∃ d' ∈ ds, EndsWith (d'.col p :: suffix) z) ds
        (fun d' hd' c' z hz => ⟨d', hd', hends d' c' z hz⟩) _ x hy
      have := Dir.col_inj p d d' (endsWith_cons_inj h1 h2)
      subst this
      exact hnd'.1 hd'
    · exact ih hnd'.2 c

theorem followLin_nodup (dirs : Nat × Nat → List Dir) (hnd : ∀ p, (dirs p).Nodup) (mx : Nat) :
    ∀ (fuel : Nat) (p : Nat × Nat) (suffix : Aln) (c : Nat), (followLin dirs mx fuel p suffix c).1.Nodup := by
  intro fuel
  induction fuel with
  | zero => intro p suffix c; simp [followLin]
  | succ fuel ih =>
    intro p suffix c
    simp only [followLin]
    split
    · simp
    · rename_i d0 ds hds
      have hn := hnd p
      rw [hds] at hn
      have hn' := List.nodup_cons.mp hn
      rw [List.nodup_append]
      refine ⟨runBranches_nodup mx _ p suffix ds hn'.2 (fun d c' => ih _ _ _)
        (fun d c' x hx => followLin_endsWith dirs mx fuel _ _ _ x hx) c, ih _ _ _, ?_⟩
      intro x hx y hy hxy
      subst hxy
      obtain ⟨d', hd', h2⟩ := runBranches_all mx _ (fun z => ∃ d' ∈ ds, EndsWith (d'.col p :: suffix) z) ds
        (fun d' hd' c' z hz => ⟨d', hd', followLin_endsWith dirs mx fuel _ _ _ z hz⟩) _ x hx
      have h1 := followLin_endsWith dirs mx fuel _ _ _ x hy
      have := Dir.col_inj p d0 d' (endsWith_cons_inj h1 h2)
      subst this
      exact hn'.1 hd'

end BiotiteModel.C08

import BiotiteModel.Proofs.C07Models
/-! CONECT reader side: the bond set survives write → read through the atom-id map. -/
namespace BiotiteModel.C07

theorem mapMR_ok {α β : Type} (f : α → R β) (g : α → β) :
    ∀ l : List α, (∀ x ∈ l, f x = some (.ok (g x))) → mapMR f l = some (.ok (l.map g)) := by
  intro l
  induction l with
  | nil => intro _; rfl
  | cons a as ih =>
    intro h
    have ha := h a List.mem_cons_self
    have hr := ih (fun x hx => h x (List.mem_cons_of_mem _ hx))
    simp [mapMR, ha, hr]

def normPair (b : Nat × Nat) : Nat × Nat := if b.1 ≤ b.2 then b else (b.2, b.1)

theorem mem_insertSorted (p q : Nat × Nat) : ∀ l, q ∈ insertSorted p l ↔ q = p ∨ q ∈ l := by
  intro l
  induction l with
  | nil => simp [insertSorted]
  | cons x xs ih =>
    unfold insertSorted
    split
    · rename_i h; subst h; simp
    · split
      · simp
      · simp only [List.mem_cons, ih]
        constructor
        · rintro (h | h | h)
          · exact Or.inr (Or.inl h)
          · exact Or.inl h
          · exact Or.inr (Or.inr h)
        · rintro (h | h | h)
          · exact Or.inr (Or.inl h)
          · exact Or.inl h
          · exact Or.inr (Or.inr h)

theorem mem_foldl_insert (bs : List (Nat × Nat)) : ∀ (acc : List (Nat × Nat)) (q : Nat × Nat),
    q ∈ bs.foldl (fun acc b => insertSorted (if b.1 ≤ b.2 then b else (b.2, b.1)) acc) acc ↔
      q ∈ acc ∨ ∃ b ∈ bs, q = normPair b := by
  induction bs with
  | nil => intro acc q; simp
  | cons b r ih =>
    intro acc q
    simp only [List.foldl_cons, ih, mem_insertSorted, List.mem_cons, normPair]
    constructor
    · rintro ((h | h) | ⟨x, hx, h⟩)
      · exact Or.inr ⟨b, Or.inl rfl, h⟩
      · exact Or.inl h
      · exact Or.inr ⟨x, Or.inr hx, h⟩
    · rintro (h | ⟨x, hx | hx, h⟩)
      · exact Or.inl (Or.inr h)
      · subst hx; exact Or.inl (Or.inl h)
      · exact Or.inr ⟨x, hx, h⟩

theorem mem_normBonds (bs : List (Nat × Nat)) (q : Nat × Nat) : q ∈ normBonds bs ↔ ∃ b ∈ bs, q = normPair b := by
  unfold normBonds
  rw [mem_foldl_insert]
  simp

theorem normPair_swap (a b : Nat) : normPair (a, b) = normPair (b, a) := by
  unfold normPair
  simp only
  by_cases h1 : a ≤ b <;> by_cases h2 : b ≤ a <;> simp [h1, h2]
  · have : a = b := by omega
    subst this; exact ⟨rfl, rfl⟩
  · omega

/-! ### the atom-id map -/

theorem mem_enum {α : Type} (l : List α) (p : Nat × α) (h : p ∈ enum l) : ∃ hk : p.1 < l.length, l[p.1] = p.2 := by
  obtain ⟨k, hk, rfl⟩ := List.mem_iff_getElem.1 h
  rw [enum_getElem]
  exact ⟨by simpa [enum] using hk, rfl⟩

theorem enum_mem {α : Type} (l : List α) (k : Nat) (hk : k < l.length) : (k, l[k]) ∈ enum l := by
  have : k < (enum l).length := by simpa [enum] using hk
  have := List.getElem_mem this
  rwa [enum_getElem] at this

theorem findIdx_of_pairwise (ids : List Int) (hp : ids.Pairwise (· < ·)) (k : Nat) (hk : k < ids.length) :
    findIdx ids ids[k] = some k := by
  unfold findIdx
  have hmem : (k, ids[k]) ∈ (enum ids).filter (fun p => decide (p.2 = ids[k])) := by
    simp [List.mem_filter, enum_mem ids k hk]
  have hne : (enum ids).filter (fun p => decide (p.2 = ids[k])) ≠ [] := List.ne_nil_of_mem hmem
  obtain ⟨q, hq⟩ : ∃ q, ((enum ids).filter (fun p => decide (p.2 = ids[k]))).getLast? = some q := by
    cases hl : ((enum ids).filter (fun p => decide (p.2 = ids[k]))).getLast? with
    | none => rw [List.getLast?_eq_none_iff] at hl; exact absurd hl hne
    | some q => exact ⟨q, rfl⟩
  have hqm := List.mem_of_getLast? hq
  rw [List.mem_filter] at hqm
  obtain ⟨hq1, hq2⟩ := mem_enum ids q hqm.1
  have hv : ids[q.1] = ids[k] := by have := hqm.2; simp at this; rw [hq2]; exact this
  have : q.1 = k := by
    rcases Nat.lt_trichotomy q.1 k with h | h | h
    · have := List.pairwise_iff_getElem.1 hp q.1 k hq1 hk h; omega
    · exact h
    · have := List.pairwise_iff_getElem.1 hp k q.1 hk hq1 h; omega
  simp only [hq, Option.map_some, this]

theorem pairwise_incr_check (ids : List Int) (hp : ids.Pairwise (· < ·)) :
    (ids.zip (ids.drop 1)).all (fun p => decide (p.1 < p.2)) = true := by
  rw [List.all_eq_true]
  intro p hpm
  obtain ⟨k, hk, rfl⟩ := List.mem_iff_getElem.1 hpm
  simp only [List.getElem_zip, List.getElem_drop, decide_eq_true_eq]
  simp only [List.length_zip, List.length_drop] at hk
  exact List.pairwise_iff_getElem.1 hp k (1 + k) (by omega) (by omega) (by omega)

theorem pairwise_le_last (ids : List Int) (hp : ids.Pairwise (· < ·)) :
    ids.any (fun i => decide (ids.getLast?.getD 0 < i)) = false := by
  rw [Bool.eq_false_iff]
  intro h
  rw [List.any_eq_true] at h
  obtain ⟨v, hv, hlt⟩ := h
  simp only [decide_eq_true_eq] at hlt
  obtain ⟨k, hk, rfl⟩ := List.mem_iff_getElem.1 hv
  have hne : ids ≠ [] := by intro h0; subst h0; simp at hk
  have hlast : ids.getLast?.getD 0 = ids[ids.length - 1]'(by omega) := by
    rw [List.getLast?_eq_getElem?]
    simp [List.getElem?_eq_getElem (show ids.length - 1 < ids.length by omega)]
  rw [hlast] at hlt
  rcases Nat.lt_or_ge k (ids.length - 1) with h | h
  · have := List.pairwise_iff_getElem.1 hp k (ids.length - 1) hk (by omega) h; omega
  · have : k = ids.length - 1 := by omega
    subst this; omega

/-! ### one CONECT record -/

theorem conect_slices (A B1 B2 B3 B4 rest : Line) (hA : A.length = 5) (h1 : B1.length = 5) (h2 : B2.length = 5)
    (h3 : B3.length = 5) (h4 : B4.length = 5) :
    slice 6 11 ("CONECT".toList ++ (A ++ (B1 ++ (B2 ++ (B3 ++ (B4 ++ rest)))))) = A ∧
    slice 11 16 ("CONECT".toList ++ (A ++ (B1 ++ (B2 ++ (B3 ++ (B4 ++ rest)))))) = B1 ∧
    slice 16 21 ("CONECT".toList ++ (A ++ (B1 ++ (B2 ++ (B3 ++ (B4 ++ rest)))))) = B2 ∧
    slice 21 26 ("CONECT".toList ++ (A ++ (B1 ++ (B2 ++ (B3 ++ (B4 ++ rest)))))) = B3 ∧
    slice 26 31 ("CONECT".toList ++ (A ++ (B1 ++ (B2 ++ (B3 ++ (B4 ++ rest)))))) = B4 := by
  have h0 : ("CONECT".toList : Line).length = 6 := rfl
  refine ⟨?_, ?_, ?_, ?_, ?_⟩ <;>
  ( repeat (first
      | rw [slice_skip _ _ _ _ _ h0 (by decide)] | rw [slice_skip _ _ _ _ _ hA (by decide)]
      | rw [slice_skip _ _ _ _ _ h1 (by decide)] | rw [slice_skip _ _ _ _ _ h2 (by decide)]
      | rw [slice_skip _ _ _ _ _ h3 (by decide)])
    first
      | exact slice_head _ _ _ hA | exact slice_head _ _ _ h1 | exact slice_head _ _ _ h2
      | exact slice_head _ _ _ h3 | exact slice_head _ _ _ h4 )

def blank5 : Line := List.replicate 5 ' '

theorem decode_blank5 : decodeH36 blank5 = .error .valueError := by decide

theorem conectPairs_blocks (ids : List Int) (A B1 B2 B3 B4 rest : Line) (hA : A.length = 5) (h1 : B1.length = 5)
    (h2 : B2.length = 5) (h3 : B3.length = 5) (h4 : B4.length = 5) (cid : Int) (c : Nat)
    (hd : decodeH36 A = .ok cid) (hf : findIdx ids cid = some c) :
    conectPairs ids ("CONECT".toList ++ (A ++ (B1 ++ (B2 ++ (B3 ++ (B4 ++ rest)))))) =
      (let decoded := ([B1, B2, B3, B4].map decodeH36).takeWhile (fun r => match r with | .ok _ => true | .error _ => false)
       let ps := decoded.filterMap (fun r => match r with | .ok v => some v | .error _ => none)
       some (.ok ((ps.filterMap (findIdx ids)).map fun j => (c, j)))) := by
  obtain ⟨s0, s1, s2, s3, s4⟩ := conect_slices A B1 B2 B3 B4 rest hA h1 h2 h3 h4
  unfold conectPairs
  simp only [s0, s1, s2, s3, s4, hd, hf]
  rfl

theorem pad64 : List.replicate 64 ' ' = blank5 ++ (blank5 ++ (blank5 ++ List.replicate 49 ' ')) := by decide
theorem pad59 : List.replicate 59 ' ' = blank5 ++ (blank5 ++ List.replicate 49 ' ') := by decide
theorem pad54 : List.replicate 54 ' ' = blank5 ++ List.replicate 49 ' ' := by decide
theorem blank5_length : blank5.length = 5 := rfl

/-- a written CONECT record (1–4 partners) is read back as exactly its (center, partner) pairs -/
theorem conectPairs_chunk (ids : List Int) (txt : Nat → Line) (c : Nat) (ch : List Nat)
    (hsz : 1 ≤ ch.length ∧ ch.length ≤ 4)
    (hlen : ∀ p, p = c ∨ p ∈ ch → (txt p).length = 5)
    (hdec : ∀ p, p = c ∨ p ∈ ch → ∃ v, decodeH36 (txt p) = .ok v ∧ findIdx ids v = some p) :
    conectPairs ids (ljust 80 ("CONECT".toList ++ txt c ++ (ch.map txt).flatten)) =
      some (.ok (ch.map fun j => (c, j))) := by
  obtain ⟨cid, hcd, hcf⟩ := hdec c (Or.inl rfl)
  have lc := hlen c (Or.inl rfl)
  have h0 : ("CONECT".toList : Line).length = 6 := rfl
  match ch, hsz, hlen, hdec with
  | [], hsz, _, _ => simp at hsz
  | [p1], _, hlen, hdec =>
    obtain ⟨v1, d1, f1⟩ := hdec p1 (by simp)
    have l1 := hlen p1 (by simp)
    have : ljust 80 ("CONECT".toList ++ txt c ++ ([p1].map txt).flatten) =
        "CONECT".toList ++ (txt c ++ (txt p1 ++ (blank5 ++ (blank5 ++ (blank5 ++ List.replicate 49 ' '))))) := by
      simp only [ljust, List.map_cons, List.map_nil, List.flatten_cons, List.flatten_nil, List.append_nil,
        List.length_append, h0, lc, l1, List.append_assoc]
      rw [← pad64]
    rw [this, conectPairs_blocks ids _ _ _ _ _ _ lc l1 blank5_length blank5_length blank5_length cid c hcd hcf]
    simp [d1, decode_blank5, f1]
  | [p1, p2], _, hlen, hdec =>
    obtain ⟨v1, d1, f1⟩ := hdec p1 (by simp)
    obtain ⟨v2, d2, f2⟩ := hdec p2 (by simp)
    have l1 := hlen p1 (by simp)
    have l2 := hlen p2 (by simp)
    have : ljust 80 ("CONECT".toList ++ txt c ++ ([p1, p2].map txt).flatten) =
        "CONECT".toList ++ (txt c ++ (txt p1 ++ (txt p2 ++ (blank5 ++ (blank5 ++ List.replicate 49 ' '))))) := by
      simp only [ljust, List.map_cons, List.map_nil, List.flatten_cons, List.flatten_nil, List.append_nil,
        List.length_append, h0, lc, l1, l2, List.append_assoc]
      rw [← pad59]
    rw [this, conectPairs_blocks ids _ _ _ _ _ _ lc l1 l2 blank5_length blank5_length cid c hcd hcf]
    simp [d1, d2, decode_blank5, f1, f2]
  | [p1, p2, p3], _, hlen, hdec =>
    obtain ⟨v1, d1, f1⟩ := hdec p1 (by simp)
    obtain ⟨v2, d2, f2⟩ := hdec p2 (by simp)
    obtain ⟨v3, d3, f3⟩ := hdec p3 (by simp)
    have l1 := hlen p1 (by simp)
    have l2 := hlen p2 (by simp)
    have l3 := hlen p3 (by simp)
    have : ljust 80 ("CONECT".toList ++ txt c ++ ([p1, p2, p3].map txt).flatten) =
        "CONECT".toList ++ (txt c ++ (txt p1 ++ (txt p2 ++ (txt p3 ++ (blank5 ++ List.replicate 49 ' '))))) := by
      simp only [ljust, List.map_cons, List.map_nil, List.flatten_cons, List.flatten_nil, List.append_nil,
        List.length_append, h0, lc, l1, l2, l3, List.append_assoc]
      rw [← pad54]
    rw [this, conectPairs_blocks ids _ _ _ _ _ _ lc l1 l2 l3 blank5_length cid c hcd hcf]
    simp [d1, d2, d3, decode_blank5, f1, f2, f3]
  | [p1, p2, p3, p4], _, hlen, hdec =>
    obtain ⟨v1, d1, f1⟩ := hdec p1 (by simp)
    obtain ⟨v2, d2, f2⟩ := hdec p2 (by simp)
    obtain ⟨v3, d3, f3⟩ := hdec p3 (by simp)
    obtain ⟨v4, d4, f4⟩ := hdec p4 (by simp)
    have l1 := hlen p1 (by simp)
    have l2 := hlen p2 (by simp)
    have l3 := hlen p3 (by simp)
    have l4 := hlen p4 (by simp)
    have : ljust 80 ("CONECT".toList ++ txt c ++ ([p1, p2, p3, p4].map txt).flatten) =
        "CONECT".toList ++ (txt c ++ (txt p1 ++ (txt p2 ++ (txt p3 ++ (txt p4 ++ List.replicate 49 ' '))))) := by
      simp only [ljust, List.map_cons, List.map_nil, List.flatten_cons, List.flatten_nil, List.append_nil,
        List.length_append, h0, lc, l1, l2, l3, l4, List.append_assoc]
    rw [this, conectPairs_blocks ids _ _ _ _ _ _ lc l1 l2 l3 l4 cid c hcd hcf]
    simp [d1, d2, d3, d4, f1, f2, f3, f4]
  | _ :: _ :: _ :: _ :: _ :: _, hsz, _, _ => simp at hsz

/-! ### the whole CONECT section -/

theorem startsWith_conect (t : Line) : startsWith "CONECT".toList (ljust 80 ("CONECT".toList ++ t)) = true := by
  simp [startsWith, ljust, litCONECT, List.isPrefixOf]

theorem mem_chunk4 (l : List Nat) (p : Nat) : (∃ ch ∈ chunk4 l, p ∈ ch) ↔ p ∈ l := by
  have := chunk4_flatten l
  constructor
  · rintro ⟨ch, hch, hp⟩
    rw [← this]; exact List.mem_flatten.2 ⟨ch, hch, hp⟩
  · intro hp
    rw [← this] at hp
    exact List.mem_flatten.1 hp

/-- **CONECT round trip**: for strictly increasing positive atom ids inside the un-wrapped (plain or
hybrid-36) range, reading the CONECT records written for `bonds` gives exactly the set of those bonds
(as sorted index pairs), whatever other records the file contains. -/
theorem conect_roundtrip (h36 : Bool) (idv : List Int) (idt : List Line) (bonds : List (Nat × Nat)) (other : List Line)
    (hlen : idt.length = idv.length) (hne : idv ≠ [])
    (hinc : idv.Pairwise (· < ·)) (hpos : ∀ v ∈ idv, 0 < v)
    (htxt : ∀ k, (hk : k < idv.length) → idText h36 5 pdbMaxAtoms idv[k] = .ok (idt[k]'(by omega)))
    (hrange : ∀ v ∈ idv, if h36 then v ≤ (maxNumber 5 : Nat) else v ≤ pdbMaxAtoms)
    (hb : ∀ b ∈ bonds, b.1 < idv.length ∧ b.2 < idv.length)
    (hother : ∀ l ∈ other, startsWith "CONECT".toList l = false) :
    ∃ bs, readBonds idv (other ++ (conectLines idt bonds).map (ljust 80)) = some (.ok bs) ∧
      ∀ q, q ∈ bs ↔ ∃ b ∈ bonds, q = normPair b := by
  let txt : Nat → Line := fun p => rjust 5 (idt.getD p [])
  let mk : Nat × List Nat → Line := fun x => ljust 80 ("CONECT".toList ++ txt x.1 ++ (x.2.map txt).flatten)
  let pl : List (Nat × List Nat) := (List.range idt.length).flatMap fun c => (chunk4 (partners bonds c)).map fun ch => (c, ch)
  have hC : (conectLines idt bonds).map (ljust 80) = pl.map mk := by
    simp only [conectLines, pl, mk, txt, List.map_flatMap, List.map_map]
    rfl
  -- facts about one id text
  have hid : ∀ p, p < idv.length → (txt p).length = 5 ∧ ∃ v, decodeH36 (txt p) = .ok v ∧ findIdx idv v = some p := by
    intro p hp
    have hp' : p < idt.length := by omega
    have hg : idt.getD p [] = idt[p] := by simp [List.getD_eq_getElem?_getD, List.getElem?_eq_getElem hp']
    have ht := htxt p hp
    have hv := hpos _ (List.getElem_mem hp)
    have hl := idText_length h36 5 pdbMaxAtoms idv[p] idt[p] (by decide) (by decide) (fun _ => by simp; omega) ht
    have hr : if h36 then 0 ≤ idv[p] ∧ idv[p] ≤ (maxNumber 5 : Nat) else idv[p] ≤ pdbMaxAtoms := by
      have := hrange _ (List.getElem_mem hp)
      cases h36
      · simpa using this
      · simp only [if_true] at this ⊢; exact ⟨by omega, this⟩
    have hd := idText_decode h36 5 pdbMaxAtoms idv[p] idt[p] (5 - idt[p].length) 0 (by decide) hr ht
    refine ⟨by simp only [txt, hg]; exact rjust_length 5 _ hl.1, idv[p], ?_, findIdx_of_pairwise idv hinc p hp⟩
    simp only [txt, hg, rjust]
    simpa using hd
  have hpl : ∀ x ∈ pl, conectPairs idv (mk x) = some (.ok (x.2.map fun j => (x.1, j))) := by
    intro x hx
    simp only [pl, List.mem_flatMap, List.mem_range, List.mem_map] at hx
    obtain ⟨c, hc, ch, hch, rfl⟩ := hx
    have hin : ∀ p, p = c ∨ p ∈ ch → p < idv.length := by
      intro p hp
      rcases hp with rfl | hp
      · omega
      · have hm : p ∈ partners bonds c := (mem_chunk4 _ p).1 ⟨ch, hch, hp⟩
        rcases (mem_partners bonds c p).1 hm with h | h
        · exact (hb _ h).2
        · exact (hb _ h).1
    exact conectPairs_chunk idv txt c ch (chunk4_sizes _ ch hch) (fun p hp => (hid p (hin p hp)).1)
      (fun p hp => (hid p (hin p hp)).2)
  have hposb : idv.all (fun i => decide (0 < i)) = true := by
    rw [List.all_eq_true]; intro v hv; simpa using hpos v hv
  have hfilter : (other ++ (conectLines idt bonds).map (ljust 80)).filter (startsWith "CONECT".toList) = pl.map mk := by
    rw [List.filter_append, List.filter_eq_nil_iff.2 (fun l hl => by rw [hother l hl]; simp), List.nil_append, hC,
      List.filter_eq_self]
    intro l hl
    obtain ⟨x, _, rfl⟩ := List.mem_map.1 hl
    simp only [mk, List.append_assoc]
    exact startsWith_conect _
  refine ⟨normBonds ((pl.map fun x => x.2.map fun j => (x.1, j)).flatten), ?_, ?_⟩
  · unfold readBonds
    have hemp : idv.isEmpty = false := by cases idv with | nil => exact absurd rfl hne | cons _ _ => rfl
    simp only [pairwise_le_last idv hinc, Bool.false_eq_true, if_false, hemp, hfilter]
    have hm : mapMR (conectPairs idv) (pl.map mk) = some (.ok (pl.map fun x => x.2.map fun j => (x.1, j))) := by
      have := mapMR_ok (fun x => conectPairs idv (mk x)) (fun x => x.2.map fun j => (x.1, j)) pl hpl
      -- mapMR over a mapped list
      have hcomp : ∀ l : List (Nat × List Nat), mapMR (conectPairs idv) (l.map mk) = mapMR (fun x => conectPairs idv (mk x)) l := by
        intro l; induction l with
        | nil => rfl
        | cons a as ih => simp [mapMR, ih]
      rw [hcomp]; exact this
    rw [hm]
  · intro q
    rw [mem_normBonds]
    constructor
    · rintro ⟨b, hbm, rfl⟩
      obtain ⟨l, hl, hbl⟩ := List.mem_flatten.1 hbm
      obtain ⟨x, hx, rfl⟩ := List.mem_map.1 hl
      obtain ⟨j, hj, rfl⟩ := List.mem_map.1 hbl
      simp only [pl, List.mem_flatMap, List.mem_range, List.mem_map] at hx
      obtain ⟨c, hc, ch, hch, rfl⟩ := hx
      have hm : j ∈ partners bonds c := (mem_chunk4 _ j).1 ⟨ch, hch, hj⟩
      rcases (mem_partners bonds c j).1 hm with h | h
      · exact ⟨(c, j), h, rfl⟩
      · exact ⟨(j, c), h, normPair_swap c j⟩
    · rintro ⟨b, hbm, rfl⟩
      have hb1 := (hb b hbm).1
      have hm : b.2 ∈ partners bonds b.1 := (mem_partners bonds b.1 b.2).2 (Or.inl hbm)
      obtain ⟨ch, hch, hj⟩ := (mem_chunk4 _ b.2).2 hm
      refine ⟨(b.1, b.2), ?_, rfl⟩
      apply List.mem_flatten.2
      refine ⟨ch.map fun j => (b.1, j), ?_, List.mem_map.2 ⟨b.2, hj, rfl⟩⟩
      apply List.mem_map.2
      refine ⟨(b.1, ch), ?_, rfl⟩
      simp only [pl, List.mem_flatMap, List.mem_range, List.mem_map]
      exact ⟨b.1, by omega, ch, hch, rfl⟩

end BiotiteModel.C07

import BiotiteModel.Model.C12Grp
/-! `get_annotation (set_annotation fs) = fs`: grouping by ID inverts the per-location expansion. -/
namespace BiotiteModel.C12

variable {τ : Type} [DecidableEq τ]

/-- what `set_annotation` requires / what makes IDs meaningful: every feature has a location, a
feature with several locations has an `ID`, and two consecutive features do not share an `ID`. -/
def GFeatOk (idKey : τ) (f : GFeat τ) : Prop :=
  f.locs ≠ [] ∧ (1 < f.locs.length → gffIdOf idKey f.qual ≠ none)

def GIdsOk (idKey : τ) : List (GFeat τ) → Prop
  | [] => True
  | [_] => True
  | f :: f' :: rest =>
    (gffIdOf idKey f.qual = none ∨ gffIdOf idKey f.qual ≠ gffIdOf idKey f'.qual) ∧ GIdsOk idKey (f' :: rest)

/-- further locations of the feature being collected are appended to it -/
theorem gffGroupGo_more (idKey : τ) (c : GFeat τ) (ls : List GLoc) (rest : List (GEnt τ))
    (hid : ls ≠ [] → gffIdOf idKey c.qual ≠ none) :
    gffGroupGo idKey (some c) (gffIdOf idKey c.qual) (ls.map (fun l => ⟨c.key, l, c.qual⟩) ++ rest) =
      gffGroupGo idKey (some { c with locs := c.locs ++ ls }) (gffIdOf idKey c.qual) rest := by
  induction ls generalizing c with
  | nil => simp
  | cons l ls ih =>
    have hne := hid (by simp)
    simp only [List.map_cons, List.cons_append, gffGroupGo]
    have hcond : ¬ (gffIdOf idKey c.qual ≠ gffIdOf idKey c.qual ∨ gffIdOf idKey c.qual = none) := by
      intro h; rcases h with h | h
      · exact h rfl
      · exact hne h
    simp only [hcond, if_false, Option.map_some]
    have := ih { c with locs := c.locs ++ [l] } (fun _ => hne)
    simp only at this
    rw [this]
    simp [List.append_assoc]

/-- one feature: whatever was being collected is emitted, then the feature is collected -/
theorem gffGroupGo_feature (idKey : τ) (f : GFeat τ) (hf : GFeatOk idKey f) (cur : Option (GFeat τ))
    (curId : Option τ) (hc : gffIdOf idKey f.qual ≠ curId ∨ gffIdOf idKey f.qual = none)
    (rest : List (GEnt τ)) :
    gffGroupGo idKey cur curId (gffExpand f ++ rest) =
      cur.toList ++ gffGroupGo idKey (some f) (gffIdOf idKey f.qual) rest := by
  obtain ⟨key, locs, qual⟩ := f
  cases locs with
  | nil => exact absurd rfl hf.1
  | cons l ls =>
    simp only [gffExpand, List.map_cons, List.cons_append, gffGroupGo]
    simp only at hc
    simp only [hc, if_true]
    congr 1
    have := gffGroupGo_more idKey ⟨key, [l], qual⟩ ls rest (by
      intro hne
      apply hf.2
      cases ls with
      | nil => exact absurd rfl hne
      | cons _ _ => simp)
    simpa using this

theorem gffGroupGo_features (idKey : τ) (fs : List (GFeat τ)) (hok : ∀ f ∈ fs, GFeatOk idKey f)
    (hids : GIdsOk idKey fs) (cur : Option (GFeat τ)) (curId : Option τ)
    (hc : ∀ f, fs.head? = some f → gffIdOf idKey f.qual ≠ curId ∨ gffIdOf idKey f.qual = none) :
    gffGroupGo idKey cur curId (fs.flatMap gffExpand) = cur.toList ++ fs := by
  induction fs generalizing cur curId with
  | nil => simp [gffGroupGo]
  | cons f fs ih =>
    rw [List.flatMap_cons, gffGroupGo_feature idKey f (hok f (by simp)) cur curId (hc f rfl)]
    rw [ih (fun x hx => hok x (by simp [hx]))]
    · simp
    · cases fs with
      | nil => trivial
      | cons f' rest => exact hids.2
    · intro f' hf'
      cases fs with
      | nil => simp at hf'
      | cons g rest =>
        simp only [List.head?_cons, Option.some.injEq] at hf'
        rw [← hf']
        rcases hids.1 with h | h
        · by_cases hn : gffIdOf idKey g.qual = none
          · exact Or.inr hn
          · left; rw [h]; exact hn
        · exact Or.inl (fun e => h e.symm)

/-- **ID grouping inverts the expansion.** -/
theorem gff_grouping (idKey : τ) (fs : List (GFeat τ)) (hok : ∀ f ∈ fs, GFeatOk idKey f)
    (hids : GIdsOk idKey fs) : gffGroup idKey (fs.flatMap gffExpand) = fs := by
  unfold gffGroup
  rw [gffGroupGo_features idKey fs hok hids none none (by
    intro f _
    by_cases hn : gffIdOf idKey f.qual = none
    · exact Or.inr hn
    · exact Or.inl hn)]
  rfl

theorem gIdsOk_of_nodup (idKey : τ) (fs : List (GFeat τ))
    (h : (fs.filterMap (fun f => gffIdOf idKey f.qual)).Nodup) : GIdsOk idKey fs := by
  induction fs with
  | nil => trivial
  | cons f fs ih =>
    cases fs with
    | nil => trivial
    | cons f' rest =>
      have htail : ((f' :: rest).filterMap (fun f => gffIdOf idKey f.qual)).Nodup := by
        cases hf : gffIdOf idKey f.qual with
        | none => simpa [List.filterMap_cons, hf] using h
        | some x =>
          rw [List.filterMap_cons, hf] at h
          exact (List.nodup_cons.mp h).2
      refine ⟨?_, ih htail⟩
      cases hf : gffIdOf idKey f.qual with
      | none => exact Or.inl rfl
      | some x =>
        right
        intro e
        rw [List.filterMap_cons, hf] at h
        have hx := (List.nodup_cons.mp h).1
        apply hx
        rw [List.filterMap_cons, ← e]
        simp

/-- what `set_annotation` accepts is grouped back by `get_annotation` into the same features -/
theorem gff_grouping_accepted (idKey : τ) (fs : List (GFeat τ)) (es : List (GEnt τ))
    (hacc : gffSetAnnotE idKey fs = .ok es) (hl : ∀ f ∈ fs, f.locs ≠ []) : gffGroup idKey es = fs := by
  unfold gffSetAnnotE at hacc
  split at hacc
  · cases hacc
  · rename_i hnd
    split at hacc
    · cases hacc
    · rename_i hany
      injection hacc with hacc
      subst hacc
      have hnd' := Decidable.of_not_not hnd
      apply gff_grouping idKey fs _ (gIdsOk_of_nodup idKey fs hnd')
      intro f hf
      refine ⟨hl f hf, ?_⟩
      intro hlen hnone
      apply hany
      rw [List.any_eq_true]
      exact ⟨f, hf, by simp [hlen, hnone]⟩

end BiotiteModel.C12

import BiotiteModel.Proofs.C10Kmers
/-! Less-used entry points: `select(sequence, alphabet_check)`, `kmer in table`, `split` / `encode`. -/
namespace BiotiteModel.C10

theorem minimizerSelectSeq_ok (a : KAlph) (w : Nat) (p : Perm) (qa : QAlph) (chk : Bool) (seq : List Nat)
    (l : List (Nat × Nat)) (h : minimizerSelectSeq a w p qa chk seq = .ok l) :
    selectGuard a qa chk = true ∧ ∃ ks, createKmers a seq = .ok ks ∧ minimizerSelect w p ks = .ok l := by
  unfold minimizerSelectSeq at h
  split at h
  · cases h
  · split at h
    · cases h
    · rename_i hg
      split at h
      · cases h
      · rename_i ks hks
        exact ⟨by simpa using hg, ks, hks, h⟩

theorem mincodeSelectSeq_ok (a : KAlph) (c : Nat) (p : Perm) (qa : QAlph) (chk : Bool) (seq : List Nat)
    (l : List (Nat × Nat)) (h : mincodeSelectSeq a c p qa chk seq = .ok l) :
    selectGuard a qa chk = true ∧ ∃ ks, createKmers a seq = .ok ks ∧ mincodeSelect a c p ks = .ok l := by
  unfold mincodeSelectSeq at h
  split at h
  · cases h
  · split at h
    · cases h
    · rename_i hg
      split at h
      · cases h
      · rename_i ks hks
        exact ⟨by simpa using hg, ks, hks, h⟩

theorem syncmerSelectSeq_ok (n k s : Nat) (p : Perm) (offsets : List Int) (cached : Bool) (qa : QAlph)
    (chk : Bool) (seq : List Nat) (l : List (Nat × Nat))
    (h : syncmerSelectSeq n k s p offsets cached qa chk seq = .ok l) :
    selectGuard ⟨n, k, none⟩ qa chk = true := by
  unfold syncmerSelectSeq at h
  cases hs : syncSetup n k s offsets with
  | error e => simp [hs] at h
  | ok x =>
    simp only [hs] at h
    by_cases hg : selectGuard ⟨n, k, none⟩ qa chk = true
    · exact hg
    · exfalso
      have hg' : (!selectGuard ⟨n, k, none⟩ qa chk) = true := by simpa using hg
      cases cached with
      | false => simp [hg'] at h
      | true => cases hm : cachedSyncmerMask n k s p offsets <;> simp [hm, hg'] at h

/-- `kmer in table` on a canonical direct table: some stored entry has that k-mer -/
theorem tableHas_canon (a : KAlph) (nb : Nat) (items : List Entry) (q : Nat) (hq : q < nb) :
    tableHas (canonTable a false nb items) q = .ok (items.any fun e => e.kmer == q) := by
  simp only [tableHas, canonTable, Bool.false_eq_true, if_false, canon, List.getElem?_map,
    List.getElem?_range hq, Option.map_some]
  congr 1
  rw [Bool.eq_iff_iff]
  by_cases h0 : (List.filter (fun e => hashOf false nb e.kmer == q) items).length = 0
  · have hnil := List.eq_nil_of_length_eq_zero h0
    simp only [h0, if_true, Option.isSome_none, Bool.false_eq_true, false_iff, List.any_eq_true, not_exists,
      not_and]
    intro e he hk
    have : e ∈ List.filter (fun e => hashOf false nb e.kmer == q) items := by
      simp only [List.mem_filter, hashOf, Bool.false_eq_true, if_false]
      exact ⟨he, hk⟩
    rw [hnil] at this
    simp at this
  · simp only [h0, if_false, Option.isSome_some, true_iff, List.any_eq_true]
    cases hf : List.filter (fun e => hashOf false nb e.kmer == q) items with
    | nil => simp [hf] at h0
    | cons e r =>
      have : e ∈ List.filter (fun e => hashOf false nb e.kmer == q) items := by rw [hf]; simp
      simp only [List.mem_filter, hashOf, Bool.false_eq_true, if_false] at this
      exact ⟨e, this.1, this.2⟩

/-- `split` then `fuse`/`encode` is the identity on valid k-mer codes; the symbols are valid -/
theorem fuse_split (n : Nat) (hn : 0 < n) : ∀ (k q : Nat), q < n ^ k →
    fuseCodes n (splitCode n k q) = q ∧ (splitCode n k q).length = k ∧ ∀ d ∈ splitCode n k q, d < n := by
  intro k
  induction k with
  | zero =>
    intro q hq
    simp only [Nat.pow_zero] at hq
    have : q = 0 := by omega
    subst this
    simp [splitCode, fuseCodes]
  | succ k ih =>
    intro q hq
    have hdiv : q / n < n ^ k := by
      rw [Nat.div_lt_iff_lt_mul hn]
      rw [Nat.pow_succ] at hq
      exact hq
    obtain ⟨h1, h2, h3⟩ := ih (q / n) hdiv
    refine ⟨?_, by simp [splitCode, h2], ?_⟩
    · simp only [splitCode]
      rw [fuse_snoc, h1]
      have := Nat.div_add_mod q n
      rw [Nat.mul_comm] at this
      exact this
    · intro d hd
      simp only [splitCode, List.mem_append, List.mem_singleton] at hd
      rcases hd with hd | rfl
      · exact h3 d hd
      · exact Nat.mod_lt _ hn

theorem encode_split (a : KAlph) (hn : 0 < a.n) (q : Nat) (hq : q < a.size) :
    ∃ ds, splitChecked a q = .ok ds ∧ encodeChecked a ds = .ok q := by
  obtain ⟨h1, h2, h3⟩ := fuse_split a.n hn a.k q hq
  refine ⟨splitCode a.n a.k q, ?_, ?_⟩
  · have : ¬ q ≥ a.size := by omega
    simp [splitChecked, this]
  · unfold encodeChecked
    have hany : (splitCode a.n a.k q).any (fun x => decide (x ≥ a.n)) = false := by
      simp only [List.any_eq_false, decide_eq_true_eq]
      intro x hx; have := h3 x hx; omega
    simp [hany, h2, h1]

end BiotiteModel.C10

import BiotiteModel.Proofs.C04Bonds
/-! `chem_comp_bond`: written rows, their de-duplication, the parsed dictionary, the bonds it produces. -/
namespace BiotiteModel.C04

def rowKey (r : CompBondRow) : String × String × String := (r.comp, r.atom1, r.atom2)

/-- Bond type `_parse_intra_residue_bonds` assigns to a row. -/
def rowType (r : CompBondRow) : Nat :=
  (compOrderToType (upperAscii (cellShown r.order)) (cellShown r.arom)).getD btAny

/-! ### `np.unique(..., return_index=True)` -/

theorem uniqueRows_sub : ∀ (rows : List CompBondRow) (seen : List (String × String × String)) (x : CompBondRow),
    x ∈ uniqueRowsAux seen rows → x ∈ rows ∧ rowKey x ∉ seen := by
  intro rows
  induction rows with
  | nil => intro seen x h; simp [uniqueRowsAux] at h
  | cons r rs ih =>
    intro seen x h
    simp only [uniqueRowsAux] at h
    by_cases hc : seen.contains (r.comp, r.atom1, r.atom2) = true
    · simp only [hc, if_true] at h
      obtain ⟨h1, h2⟩ := ih seen x h
      exact ⟨by simp [h1], h2⟩
    · simp only [hc, Bool.false_eq_true, if_false, List.mem_cons] at h
      rcases h with rfl | h
      · exact ⟨by simp, by simpa [rowKey] using hc⟩
      · obtain ⟨h1, h2⟩ := ih _ x h
        refine ⟨by simp [h1], ?_⟩
        intro hm; exact h2 (by simp [hm])

theorem uniqueRows_nodup : ∀ (rows : List CompBondRow) (seen : List (String × String × String)),
    ((uniqueRowsAux seen rows).map rowKey).Nodup := by
  intro rows
  induction rows with
  | nil => intro seen; simp [uniqueRowsAux]
  | cons r rs ih =>
    intro seen
    simp only [uniqueRowsAux]
    by_cases hc : seen.contains (r.comp, r.atom1, r.atom2) = true
    · simp only [hc, if_true]; exact ih seen
    · simp only [hc, Bool.false_eq_true, if_false, List.map_cons, List.nodup_cons]
      refine ⟨?_, ih _⟩
      intro hm
      obtain ⟨y, hy, e⟩ := List.mem_map.mp hm
      have := (uniqueRows_sub rs _ y hy).2
      apply this
      rw [e]; simp [rowKey]

theorem uniqueRows_covers : ∀ (rows : List CompBondRow) (seen : List (String × String × String)) (x : CompBondRow),
    x ∈ rows → rowKey x ∉ seen → ∃ y ∈ uniqueRowsAux seen rows, rowKey y = rowKey x := by
  intro rows
  induction rows with
  | nil => intro seen x h; simp at h
  | cons r rs ih =>
    intro seen x hx hs
    simp only [uniqueRowsAux]
    by_cases hc : seen.contains (r.comp, r.atom1, r.atom2) = true
    · simp only [hc, if_true]
      simp only [List.mem_cons] at hx
      rcases hx with rfl | hx
      · exact absurd (by simpa [rowKey] using hc) hs
      · exact ih seen x hx hs
    · simp only [hc, Bool.false_eq_true, if_false]
      by_cases hk : rowKey x = rowKey r
      · exact ⟨r, by simp, hk.symm⟩
      · simp only [List.mem_cons] at hx
        rcases hx with rfl | hx
        · exact absurd rfl hk
        · obtain ⟨y, hy, e⟩ := ih ((r.comp, r.atom1, r.atom2) :: seen) x hx (by
            intro hm
            simp only [List.mem_cons] at hm
            rcases hm with hm | hm
            · exact hk hm
            · exact hs hm)
          exact ⟨y, by simp [hy], e⟩

/-! ### `_parse_intra_residue_bonds` -/

def parseStep (d : BondDict) (r : CompBondRow) : BondDict :=
  dictSet d r.comp (dictSet ((d.lookup r.comp).getD []) (r.atom1, r.atom2) (rowType r))

theorem parseIntra_eq (rows : List CompBondRow) : parseIntra rows = rows.foldl parseStep [] := rfl

/-- The inner dictionary of a component. -/
def dictOf (d : BondDict) (R : String) : List ((String × String) × Nat) := (d.lookup R).getD []

theorem dictOf_step (d : BondDict) (r : CompBondRow) (R : String) (K : String × String) (t : Nat) :
    (K, t) ∈ dictOf (parseStep d r) R ↔
      ((R, K.1, K.2) ≠ rowKey r ∧ (K, t) ∈ dictOf d R) ∨ ((R, K.1, K.2) = rowKey r ∧ t = rowType r) := by
  unfold dictOf parseStep
  rw [lookup_dictSet]
  by_cases hR : R == r.comp
  · have : R = r.comp := by simpa using hR
    subst this
    simp only [beq_self_eq_true, if_true, Option.getD_some, mem_dictSet]
    obtain ⟨k1, k2⟩ := K
    simp only [rowKey, ne_eq, Prod.mk.injEq, true_and]
  · have hR' : ¬ R = r.comp := by simpa using hR
    simp [hR, rowKey, hR']

theorem dictOf_fold : ∀ (rows : List CompBondRow) (d : BondDict) (R : String) (K : String × String) (t : Nat),
    (rows.map rowKey).Nodup →
    ((K, t) ∈ dictOf (rows.foldl parseStep d) R ↔
      (∃ r ∈ rows, rowKey r = (R, K.1, K.2) ∧ rowType r = t) ∨
      ((∀ r ∈ rows, rowKey r ≠ (R, K.1, K.2)) ∧ (K, t) ∈ dictOf d R)) := by
  intro rows
  induction rows with
  | nil => intro d R K t _; simp
  | cons r rs ih =>
    intro d R K t hnd
    simp only [List.map_cons, List.nodup_cons] at hnd
    obtain ⟨hr, hnd'⟩ := hnd
    simp only [List.foldl_cons]
    rw [ih (parseStep d r) R K t hnd', dictOf_step]
    constructor
    · rintro (⟨x, hx, hk, ht⟩ | ⟨hno, (⟨hne, hm⟩ | ⟨he, ht⟩)⟩)
      · left; exact ⟨x, by simp [hx], hk, ht⟩
      · right
        refine ⟨?_, hm⟩
        intro x hx
        simp only [List.mem_cons] at hx
        rcases hx with rfl | hx
        · exact fun e => hne e.symm
        · exact hno x hx
      · left; exact ⟨r, by simp, he.symm, ht.symm⟩
    · rintro (⟨x, hx, hk, ht⟩ | ⟨hno, hm⟩)
      · simp only [List.mem_cons] at hx
        rcases hx with rfl | hx
        · right
          refine ⟨?_, Or.inr ⟨hk.symm, ht.symm⟩⟩
          intro y hy e
          apply hr
          rw [hk, ← e]
          exact List.mem_map.mpr ⟨y, hy, rfl⟩
        · left; exact ⟨x, hx, hk, ht⟩
      · right
        refine ⟨fun x hx => hno x (by simp [hx]), Or.inl ⟨?_, hm⟩⟩
        exact fun e => hno r (by simp) e.symm

/-- Entries of the parsed dictionary = rows (for rows with pairwise different keys). -/
theorem mem_parseIntra (rows : List CompBondRow) (hnd : (rows.map rowKey).Nodup) (R : String)
    (K : String × String) (t : Nat) :
    (K, t) ∈ dictOf (parseIntra rows) R ↔ ∃ r ∈ rows, rowKey r = (R, K.1, K.2) ∧ rowType r = t := by
  rw [parseIntra_eq, dictOf_fold rows [] R K t hnd]
  simp [dictOf]

/-! ### rows written for a bond -/

def IntraOk (t : Nat) : Prop := t = 0 ∨ t = 1 ∨ t = 2 ∨ t = 3 ∨ t = 4 ∨ t = 5 ∨ t = 6 ∨ t = 7 ∨ t = 9
instance (t : Nat) : Decidable (IntraOk t) := by unfold IntraOk; infer_instance

/-- The `value_order` / `pdbx_aromatic_flag` cells written for bond type `t`. -/
def typeCells (t : Nat) : Option (Cell × Cell) :=
  if t == btAny then some (⟨"", .missing⟩, ⟨"", .missing⟩)
  else (compTypeToOrder t).map fun p => (⟨p.1, .present⟩, ⟨p.2, .present⟩)

def cellsType (c : Cell × Cell) : Nat :=
  (compOrderToType (upperAscii (cellShown c.1)) (cellShown c.2)).getD btAny

theorem typeCells_rt : ∀ t ∈ [0, 1, 2, 3, 4, 5, 6, 7, 9], (typeCells t).map cellsType = some t := by
  decide +kernel

def mkCcbRow (atoms : List Atom) (b : Bond) : CompBondRow :=
  let c := (typeCells b.t).getD (⟨"", .missing⟩, ⟨"", .missing⟩)
  ⟨(atomAt atoms b.i).resName, (atomAt atoms b.i).atomName, (atomAt atoms b.j).atomName, c.1, c.2⟩

theorem compBondRow_ok (atoms : List Atom) (b : Bond) (h : IntraOk b.t) :
    compBondRow atoms b = .ok (mkCcbRow atoms b) ∧ rowType (mkCcbRow atoms b) = b.t := by
  have hm : b.t ∈ [0, 1, 2, 3, 4, 5, 6, 7, 9] := by
    rcases h with e | e | e | e | e | e | e | e | e <;> simp [e]
  have hrt := typeCells_rt b.t hm
  constructor
  · rcases h with e | e | e | e | e | e | e | e | e <;>
      simp [compBondRow, mkCcbRow, typeCells, e, btAny, compTypeToOrder]
  · cases hc : typeCells b.t with
    | none => simp [hc] at hrt
    | some c =>
      simp only [hc, Option.map_some, Option.some.injEq] at hrt
      simp only [rowType, mkCcbRow, hc, Option.getD_some]
      exact hrt

theorem mapM_ok {α β : Type} (f : α → Except Err β) (g : α → β) : ∀ (l : List α),
    (∀ x ∈ l, f x = .ok (g x)) → l.mapM f = .ok (l.map g) := by
  intro l
  induction l with
  | nil => intro _; rfl
  | cons x xs ih =>
    intro h
    rw [List.mapM_cons, h x (by simp), ih (fun y hy => h y (by simp [hy]))]
    rfl

/-! ### bonds produced from a dictionary -/

theorem mem_connectIntra (atoms : List Atom) (dictFor : String → List ((String × String) × Nat)) (b : Bond) :
    b ∈ connectIntra atoms dictFor ↔
      ∃ res ∈ residues atoms, ∃ p0, res.head? = some p0 ∧ ∃ n1 n2 t, ((n1, n2), t) ∈ dictFor p0.2.resName ∧
        ∃ p1 ∈ res, p1.2.atomName = n1 ∧ ∃ p2 ∈ res, p2.2.atomName = n2 ∧ b = ⟨p1.1, p2.1, t⟩ := by
  unfold connectIntra
  simp only [List.mem_flatMap]
  constructor
  · rintro ⟨res, hres, hb⟩
    refine ⟨res, hres, ?_⟩
    cases res with
    | nil => simp at hb
    | cons p0 rest =>
      obtain ⟨i0, a0⟩ := p0
      simp only [List.mem_flatMap, List.mem_map, List.mem_filter, beq_iff_eq] at hb
      obtain ⟨⟨⟨n1, n2⟩, t⟩, hd, p1, ⟨hp1, hn1⟩, p2, ⟨hp2, hn2⟩, e⟩ := hb
      exact ⟨(i0, a0), rfl, n1, n2, t, hd, p1, hp1, hn1, p2, hp2, hn2, e.symm⟩
  · rintro ⟨res, hres, p0, hp0, n1, n2, t, hd, p1, hp1, hn1, p2, hp2, hn2, e⟩
    refine ⟨res, hres, ?_⟩
    cases res with
    | nil => simp at hp0
    | cons q rest =>
      obtain ⟨i0, a0⟩ := q
      simp only [List.head?_cons, Option.some.injEq] at hp0
      subst hp0
      simp only [List.mem_flatMap, List.mem_map, List.mem_filter, beq_iff_eq]
      exact ⟨((n1, n2), t), hd, p1, ⟨hp1, hn1⟩, p2, ⟨hp2, hn2⟩, e.symm⟩

end BiotiteModel.C04

namespace BiotiteModel.C04

/-! ### the `chem_comp_bond` round-trip -/

/-- **Component consistency**: whenever a residue contains atoms named like the two atoms of an
intra-residue bond of a residue with the same `res_name`, it has the same bond (same type)
between them — "equal res_name ⇒ equal intra-residue bond set". -/
def Consistent (atoms : List Atom) (bonds : List Bond) : Prop :=
  ∀ b ∈ bonds, isIntra atoms b = true → ∀ res ∈ residues atoms, ∀ p1 ∈ res, ∀ p2 ∈ res,
    p1.2.resName = (atomAt atoms b.i).resName ∧ p1.2.atomName = (atomAt atoms b.i).atomName ∧
    p2.2.atomName = (atomAt atoms b.j).atomName →
    (⟨min p1.1 p2.1, max p1.1 p2.1, b.t⟩ : Bond) ∈ bonds

instance (atoms : List Atom) (bonds : List Bond) : Decidable (Consistent atoms bonds) := by
  unfold Consistent; infer_instance

theorem same_group_pos (atoms : List Atom) (g : List (Nat × Atom)) (hg : g ∈ residues atoms)
    (p1 p2 : Nat × Atom) (h1 : p1 ∈ g) (h2 : p2 ∈ g) : (resPos atoms)[p1.1]? = (resPos atoms)[p2.1]? := by
  obtain ⟨r, hr⟩ := List.getElem?_of_mem hg
  rw [(located_spec atoms r p1.1 p1.2 ⟨g, hr, h1⟩).2, (located_spec atoms r p2.1 p2.2 ⟨g, hr, h2⟩).2]

theorem group_of_same_pos (atoms : List Atom) (i j : Nat) (hi : i < atoms.length) (hj : j < atoms.length)
    (h : (resPos atoms)[i]? = (resPos atoms)[j]?) :
    ∃ g ∈ residues atoms, (i, atomAt atoms i) ∈ g ∧ (j, atomAt atoms j) ∈ g := by
  have ai : atoms[i]? = some atoms[i] := List.getElem?_eq_getElem hi
  have aj : atoms[j]? = some atoms[j] := List.getElem?_eq_getElem hj
  obtain ⟨ri, gi, hgi, hxi⟩ := located_of_lt atoms i _ ai
  obtain ⟨rj, gj, hgj, hxj⟩ := located_of_lt atoms j _ aj
  have pi := (located_spec atoms ri i _ ⟨gi, hgi, hxi⟩).2
  have pj := (located_spec atoms rj j _ ⟨gj, hgj, hxj⟩).2
  rw [pi, pj] at h
  have : ri = rj := by simpa using h
  subst this
  rw [hgi] at hgj
  have : gi = gj := by simpa using hgj
  subst this
  refine ⟨gi, List.mem_of_getElem? hgi, ?_, ?_⟩
  · rw [atomAt_eq atoms i _ ai]; exact hxi
  · rw [atomAt_eq atoms j _ aj]; exact hxj

theorem isIntra_iff (atoms : List Atom) (b : Bond) :
    isIntra atoms b = true ↔ (resPos atoms)[b.i]? = (resPos atoms)[b.j]? ∧ b.t ≠ 8 := by
  simp [isIntra, inStructConn, btCoordination]

theorem chem_comp_bond_roundtrip (atoms : List Atom) (bonds : List Bond)
    (hwf : ∀ b ∈ bonds, b.i < b.j ∧ b.j < atoms.length) (hu : UniquePairs bonds)
    (hty : ∀ b ∈ bonds, isIntra atoms b = true → IntraOk b.t)
    (hnames : ∀ a ∈ atoms, a.resName ≠ "" ∧ a.atomName ≠ "")
    (hcons : Consistent atoms bonds)
    (hne : ∃ b ∈ bonds, isIntra atoms b = true) :
    ∃ rows, setIntra atoms bonds = .ok (some rows) ∧
      ∀ b, b ∈ normBonds (connectIntra atoms (dictOf (parseIntra rows))) ↔
        (b ∈ bonds ∧ isIntra atoms b = true) := by
  -- the written rows
  let intra := bonds.filter (isIntra atoms)
  have hintra : ∀ b, b ∈ intra ↔ b ∈ bonds ∧ isIntra atoms b = true := by
    intro b; simp [intra, List.mem_filter]
  let rows0 := intra.map (mkCcbRow atoms)
  let rows := uniqueRowsAux [] rows0
  have hmap : intra.mapM (compBondRow atoms) = .ok rows0 :=
    mapM_ok _ _ intra (fun b hb => (compBondRow_ok atoms b (hty b ((hintra b).mp hb).1 ((hintra b).mp hb).2)).1)
  have hset : setIntra atoms bonds = .ok (some rows) := by
    have h1 : atoms.any (fun a => a.resName == "") = false := by
      rw [List.any_eq_false]; intro a ha; simpa using (hnames a ha).1
    have h2 : atoms.any (fun a => a.atomName == "") = false := by
      rw [List.any_eq_false]; intro a ha; simpa using (hnames a ha).2
    have h3 : (bonds.filter (fun b => !inStructConn (resPos atoms) b)).isEmpty = false := by
      obtain ⟨b, hb, hbi⟩ := hne
      have : b ∈ bonds.filter (fun b => !inStructConn (resPos atoms) b) := by
        simp only [List.mem_filter]; exact ⟨hb, hbi⟩
      cases hl : bonds.filter (fun b => !inStructConn (resPos atoms) b) with
      | nil => rw [hl] at this; simp at this
      | cons _ _ => rfl
    have hmap' : (bonds.filter (fun b => !inStructConn (resPos atoms) b)).mapM (compBondRow atoms) = .ok rows0 := hmap
    simp only [setIntra, h1, h2, Bool.or_self, Bool.false_eq_true, if_false, h3, hmap', bind, Except.bind, pure,
      Except.pure]
    rfl
  refine ⟨rows, hset, ?_⟩
  have hnd : (rows.map rowKey).Nodup := uniqueRows_nodup rows0 []
  -- every intra bond lies in one residue
  have hgroup : ∀ b ∈ intra, ∃ g ∈ residues atoms, (b.i, atomAt atoms b.i) ∈ g ∧ (b.j, atomAt atoms b.j) ∈ g := by
    intro b hb
    obtain ⟨hbb, hbi⟩ := (hintra b).mp hb
    obtain ⟨hlt, hjn⟩ := hwf b hbb
    exact group_of_same_pos atoms b.i b.j (by omega) hjn ((isIntra_iff atoms b).mp hbi).1
  -- bonds with the same (res_name, atom names) have the same type
  have htype : ∀ b ∈ intra, ∀ b' ∈ intra, rowKey (mkCcbRow atoms b) = rowKey (mkCcbRow atoms b') → b.t = b'.t := by
    intro b hb b' hb' hk
    simp only [rowKey, mkCcbRow, Prod.mk.injEq] at hk
    obtain ⟨k1, k2, k3⟩ := hk
    obtain ⟨g, hg, h1, h2⟩ := hgroup b' hb'
    have hin := hcons b ((hintra b).mp hb).1 ((hintra b).mp hb).2 g hg _ h1 _ h2 ⟨k1.symm, k2.symm, k3.symm⟩
    have hlt := (hwf b' ((hintra b').mp hb').1).1
    have e1 : min b'.i b'.j = b'.i := by omega
    have e2 : max b'.i b'.j = b'.j := by omega
    simp only [e1, e2] at hin
    have := hu _ hin _ ((hintra b').mp hb').1 rfl rfl
    rw [← this]
  -- entries of the parsed dictionary
  have hent : ∀ R n1 n2 t, ((n1, n2), t) ∈ dictOf (parseIntra rows) R ↔
      ∃ b ∈ intra, (atomAt atoms b.i).resName = R ∧ (atomAt atoms b.i).atomName = n1 ∧
        (atomAt atoms b.j).atomName = n2 ∧ b.t = t := by
    intro R n1 n2 t
    rw [mem_parseIntra rows hnd]
    constructor
    · rintro ⟨r, hr, hk, ht⟩
      have hr0 := (uniqueRows_sub rows0 [] r hr).1
      obtain ⟨b, hb, rfl⟩ := List.mem_map.mp hr0
      have hrt := (compBondRow_ok atoms b (hty b ((hintra b).mp hb).1 ((hintra b).mp hb).2)).2
      simp only [rowKey, mkCcbRow, Prod.mk.injEq] at hk
      exact ⟨b, hb, hk.1, hk.2.1, hk.2.2, by rw [← hrt]; exact ht⟩
    · rintro ⟨b, hb, rfl, rfl, rfl, rfl⟩
      obtain ⟨y, hy, hky⟩ := uniqueRows_covers rows0 [] (mkCcbRow atoms b) (List.mem_map.mpr ⟨b, hb, rfl⟩) (by simp)
      have hy0 := (uniqueRows_sub rows0 [] y hy).1
      obtain ⟨b', hb', rfl⟩ := List.mem_map.mp hy0
      refine ⟨_, hy, ?_, ?_⟩
      · rw [hky]; simp [rowKey, mkCcbRow]
      · rw [(compBondRow_ok atoms b' (hty b' ((hintra b').mp hb').1 ((hintra b').mp hb').2)).2]
        exact (htype b hb b' hb' hky.symm).symm
  -- every produced bond is an intra-residue bond of the structure
  have hsound : ∀ x ∈ connectIntra atoms (dictOf (parseIntra rows)), normB x ∈ bonds ∧ isIntra atoms (normB x) = true := by
    intro x hx
    obtain ⟨res, hres, p0, hp0, n1, n2, t, hd, p1, hp1, hn1, p2, hp2, hn2, rfl⟩ :=
      (mem_connectIntra atoms _ x).mp hx
    obtain ⟨b, hb, hR, h1, h2, rfl⟩ := (hent _ n1 n2 t).mp hd
    have hp0m : p0 ∈ res := List.mem_of_mem_head? hp0
    have hkey := (residues_groups atoms res hres).2 p1 hp1 p0 hp0m
    have hRn : p1.2.resName = (atomAt atoms b.i).resName := by
      have : p1.2.resName = p0.2.resName := by
        have := congrArg (fun k => k.2.2.2) hkey
        simpa [resKey] using this
      rw [this, hR]
    have hin := hcons b ((hintra b).mp hb).1 ((hintra b).mp hb).2 res hres p1 hp1 p2 hp2
      ⟨hRn, hn1.trans h1.symm, hn2.trans h2.symm⟩
    refine ⟨hin, ?_⟩
    rw [isIntra_iff]
    have hpos := same_group_pos atoms res hres p1 p2 hp1 hp2
    refine ⟨?_, ((isIntra_iff atoms b).mp ((hintra b).mp hb).2).2⟩
    simp only [normB]
    rcases Nat.le_total p1.1 p2.1 with hle | hle
    · rw [Nat.min_eq_left hle, Nat.max_eq_right hle]; exact hpos
    · rw [Nat.min_eq_right hle, Nat.max_eq_left hle]; exact hpos.symm
  intro y
  rw [mem_normBonds_of_sub bonds _ hu (fun x hx => (hsound x hx).1)]
  constructor
  · rintro ⟨x, hx, rfl⟩; exact hsound x hx
  · rintro ⟨hy, hyi⟩
    have hyin : y ∈ intra := (hintra y).mpr ⟨hy, hyi⟩
    obtain ⟨g, hg, h1, h2⟩ := hgroup y hyin
    refine ⟨⟨y.i, y.j, y.t⟩, ?_, normB_of_lt _ (hwf y hy).1⟩
    rw [mem_connectIntra]
    obtain ⟨hgne, hgu⟩ := residues_groups atoms g hg
    cases hgl : g with
    | nil => exact absurd hgl hgne
    | cons p0 rest =>
      have hp0m : p0 ∈ g := by rw [hgl]; simp
      have hkey := hgu (y.i, atomAt atoms y.i) h1 p0 hp0m
      have hRn : (atomAt atoms y.i).resName = p0.2.resName := by
        have := congrArg (fun k => k.2.2.2) hkey
        simpa [resKey] using this
      refine ⟨g, hg, p0, by rw [hgl]; rfl, (atomAt atoms y.i).atomName, (atomAt atoms y.j).atomName, y.t, ?_,
        (y.i, atomAt atoms y.i), h1, rfl, (y.j, atomAt atoms y.j), h2, rfl, rfl⟩
      rw [hent]
      exact ⟨y, hyin, hRn, rfl, rfl, rfl⟩

end BiotiteModel.C04

import BiotiteModel.Proofs.C04Res
/-! Bond lemmas for C04: `BondList` normalisation, Python-dict insertion, `chem_comp_bond` rows. -/
namespace BiotiteModel.C04

/-! ### the three classes of bonds of `set_structure` -/

/-- written to `chem_comp_bond` -/
def isIntra (atoms : List Atom) (b : Bond) : Bool := !inStructConn (resPos atoms) b
/-- omitted as a canonical backbone link -/
def isDroppedLink (atoms : List Atom) (b : Bond) : Bool :=
  inStructConn (resPos atoms) b && isCanonicalLink atoms (resPos atoms) b
/-- written to `struct_conn` -/
def isConnRow (atoms : List Atom) (b : Bond) : Bool :=
  inStructConn (resPos atoms) b && !isCanonicalLink atoms (resPos atoms) b

/-! ### residues: groups are non-empty and uniform in (chain, res_id, ins_code, res_name) -/

def resKey (a : Atom) : String × Int × String × String := (a.chain, a.resId, a.ins, a.resName)

theorem newResidue_false_iff (a b : Atom) : newResidue a b = false ↔ resKey a = resKey b := by
  simp [newResidue, resKey]
  constructor
  · rintro ⟨⟨⟨h1, h2⟩, h3⟩, h4⟩; exact ⟨h1, h2, h3, h4⟩
  · rintro ⟨h1, h2, h3, h4⟩; exact ⟨⟨⟨h1, h2⟩, h3⟩, h4⟩

def Uniform (g : List (Nat × Atom)) : Prop := ∀ x ∈ g, ∀ y ∈ g, resKey x.2 = resKey y.2

theorem residuesAux_groups : ∀ (rest cur : List (Nat × Atom)), Uniform cur →
    ∀ g ∈ residuesAux cur rest, g ≠ [] ∧ Uniform g := by
  intro rest
  induction rest with
  | nil =>
    intro cur hu g hg
    cases cur with
    | nil => simp [residuesAux] at hg
    | cons p cur =>
      simp only [residuesAux, List.isEmpty_cons, Bool.false_eq_true, if_false, List.mem_singleton] at hg
      subst hg
      refine ⟨by simp, ?_⟩
      intro x hx y hy
      exact hu x (by simpa [or_comm] using hx) y (by simpa [or_comm] using hy)
  | cons x rest ih =>
    intro cur hu g hg
    cases cur with
    | nil =>
      simp only [residuesAux] at hg
      exact ih [x] (by intro a ha b hb; simp at ha hb; subst ha; subst hb; rfl) g hg
    | cons p cur =>
      simp only [residuesAux] at hg
      by_cases h : newResidue p.2 x.2 = true
      · simp only [h, if_true, List.mem_cons] at hg
        rcases hg with rfl | hg
        · refine ⟨by simp, ?_⟩
          intro a ha b hb
          exact hu a (by simpa [or_comm] using ha) b (by simpa [or_comm] using hb)
        · exact ih [x] (by intro a ha b hb; simp at ha hb; subst ha; subst hb; rfl) g hg
      · have h' : newResidue p.2 x.2 = false := by simpa using h
        simp only [h', Bool.false_eq_true, if_false] at hg
        have hpx : resKey p.2 = resKey x.2 := (newResidue_false_iff _ _).mp h'
        refine ih (x :: p :: cur) ?_ g hg
        intro a ha b hb
        have ka : resKey a.2 = resKey p.2 := by
          simp only [List.mem_cons] at ha
          rcases ha with rfl | ha
          · exact hpx.symm
          · exact hu a (by simpa using ha) p (by simp)
        have kb : resKey b.2 = resKey p.2 := by
          simp only [List.mem_cons] at hb
          rcases hb with rfl | hb
          · exact hpx.symm
          · exact hu b (by simpa using hb) p (by simp)
        rw [ka, kb]

theorem residues_groups (atoms : List Atom) : ∀ g ∈ residues atoms, g ≠ [] ∧ Uniform g :=
  residuesAux_groups _ [] (by intro x hx; simp at hx)

theorem atomAt_eq (atoms : List Atom) (i : Nat) (a : Atom) (h : atoms[i]? = some a) : atomAt atoms i = a := by
  simp [atomAt, List.getD, h]

/-! ### `BondList(...)` normalisation -/

def normB (b : Bond) : Bond := ⟨min b.i b.j, max b.i b.j, b.t⟩

theorem normBondsAux_sub : ∀ (L : List Bond) (seen : List (Nat × Nat)) (b : Bond),
    b ∈ normBondsAux seen L → ∃ x ∈ L, normB x = b := by
  intro L
  induction L with
  | nil => intro seen b h; simp [normBondsAux] at h
  | cons x xs ih =>
    intro seen b h
    simp only [normBondsAux] at h
    split at h
    · obtain ⟨y, hy, e⟩ := ih _ b h
      exact ⟨y, by simp [hy], e⟩
    · simp only [List.mem_cons] at h
      rcases h with rfl | h
      · exact ⟨x, by simp, rfl⟩
      · obtain ⟨y, hy, e⟩ := ih _ b h
        exact ⟨y, by simp [hy], e⟩

theorem normBondsAux_covers : ∀ (L : List Bond) (seen : List (Nat × Nat)) (x : Bond),
    x ∈ L → ((normB x).i, (normB x).j) ∉ seen →
    ∃ t, (⟨(normB x).i, (normB x).j, t⟩ : Bond) ∈ normBondsAux seen L := by
  intro L
  induction L with
  | nil => intro seen x h; simp at h
  | cons y ys ih =>
    intro seen x hx hs
    simp only [normBondsAux]
    by_cases hc : seen.contains (min y.i y.j, max y.i y.j) = true
    · simp only [hc, if_true]
      simp only [List.mem_cons] at hx
      rcases hx with rfl | hx
      · exact absurd (by simpa [normB] using hc) hs
      · exact ih seen x hx hs
    · simp only [hc, Bool.false_eq_true, if_false]
      simp only [List.mem_cons] at hx
      by_cases hp : ((normB x).i, (normB x).j) = (min y.i y.j, max y.i y.j)
      · refine ⟨y.t, ?_⟩
        have h1 : (normB x).i = min y.i y.j := congrArg Prod.fst hp
        have h2 : (normB x).j = max y.i y.j := congrArg Prod.snd hp
        rw [h1, h2]; simp
      · rcases hx with rfl | hx
        · exact absurd rfl hp
        · obtain ⟨t, ht⟩ := ih ((min y.i y.j, max y.i y.j) :: seen) x hx (by
            intro hm
            simp only [List.mem_cons] at hm
            rcases hm with hm | hm
            · exact hp hm
            · exact hs hm)
          exact ⟨t, by simp [ht]⟩

/-- No two bonds of the list join the same pair of atoms. -/
def UniquePairs (bonds : List Bond) : Prop :=
  ∀ b ∈ bonds, ∀ b' ∈ bonds, b.i = b'.i → b.j = b'.j → b = b'

/-- If every (normalised) bond of `L` is a bond of a list with unique pairs, removing redundant
bonds does not depend on the order: `BondList(L)` contains exactly the normalised bonds of `L`. -/
theorem mem_normBonds_of_sub (bonds L : List Bond) (hu : UniquePairs bonds)
    (hsub : ∀ x ∈ L, normB x ∈ bonds) (b : Bond) :
    b ∈ normBonds L ↔ ∃ x ∈ L, normB x = b := by
  constructor
  · exact normBondsAux_sub L [] b
  · rintro ⟨x, hx, rfl⟩
    obtain ⟨t, ht⟩ := normBondsAux_covers L [] x hx (by simp)
    obtain ⟨y, hy, e⟩ := normBondsAux_sub L [] _ ht
    have h1 := hsub x hx
    have h2 := hsub y hy
    rw [e] at h2
    have := hu _ h1 _ h2 rfl rfl
    unfold normBonds
    rw [this]; exact ht

theorem normB_idem (b : Bond) : normB (normB b) = normB b := by
  simp [normB]
  constructor <;> omega

theorem normB_of_lt (b : Bond) (h : b.i < b.j) : normB b = b := by
  cases b with
  | mk i j t =>
    simp only [normB, Bond.mk.injEq, and_true]
    simp only at h
    constructor <;> omega

/-! ### Python dict insertion -/

theorem lookup_snoc' {κ ν : Type} [BEq κ] [LawfulBEq κ] (d : List (κ × ν)) (r q : κ) (v : ν) :
    (d ++ [(r, v)]).lookup q = (d.lookup q).or (if q == r then some v else none) := by
  induction d with
  | nil => by_cases h : q == r <;> simp [List.lookup, h]
  | cons x d ih =>
    obtain ⟨a, b⟩ := x
    by_cases h : q == a <;> simp [List.lookup, h, ih]

theorem lookup_map_update {κ ν : Type} [BEq κ] [LawfulBEq κ] (k : κ) (v : ν) : ∀ (d : List (κ × ν)) (q : κ),
    (d.map (fun (p : κ × ν) => if p.1 == k then (p.1, v) else (p.1, p.2))).lookup q =
      if q == k then (d.lookup k).map (fun _ => v) else d.lookup q := by
  intro d
  induction d with
  | nil => intro q; by_cases h : q == k <;> simp [h]
  | cons x d ih =>
    intro q
    obtain ⟨a, b⟩ := x
    by_cases hak : a == k
    · have hak' : a = k := by simpa using hak
      subst hak'
      by_cases hq : q == a
      · have : q = a := by simpa using hq
        subst this
        simp [List.lookup]
      · have hq' : (q == a) = false := by simpa using hq
        simp [List.lookup, hq', ih q]
    · have hak' : (a == k) = false := by simpa using hak
      by_cases hq : q == a
      · have : q = a := by simpa using hq
        subst this
        simp [List.lookup, hak']
      · have hq' : (q == a) = false := by simpa using hq
        have hka : (k == a) = false := by
          rw [Bool.eq_false_iff]; intro h; have : k = a := by simpa using h
          subst this; simp at hak'
        simp [List.lookup, hak', hq', hka, ih q]

theorem dictSet_eq_map {κ ν : Type} [BEq κ] (d : List (κ × ν)) (k : κ) (v : ν) (h : (d.lookup k).isSome = true) :
    dictSet d k v = d.map (fun (p : κ × ν) => if p.1 == k then (p.1, v) else (p.1, p.2)) := by
  simp [dictSet, h]

theorem lookup_dictSet {κ ν : Type} [BEq κ] [LawfulBEq κ] (d : List (κ × ν)) (k q : κ) (v : ν) :
    (dictSet d k v).lookup q = if q == k then some v else d.lookup q := by
  by_cases h : (d.lookup k).isSome = true
  · rw [dictSet_eq_map d k v h, lookup_map_update]
    obtain ⟨x, hx⟩ := Option.isSome_iff_exists.mp h
    simp [hx]
  · have hn : d.lookup k = none := by
      cases h' : d.lookup k with
      | none => rfl
      | some x => simp [h'] at h
    have : dictSet d k v = d ++ [(k, v)] := by simp [dictSet, hn]
    rw [this, lookup_snoc']
    by_cases hq : q == k
    · have : q = k := by simpa using hq
      subst this
      simp [hn]
    · simp [hq]

theorem mem_of_lookup {κ ν : Type} [BEq κ] [LawfulBEq κ] : ∀ (d : List (κ × ν)) (k : κ) (v : ν),
    d.lookup k = some v → (k, v) ∈ d := by
  intro d
  induction d with
  | nil => intro k v h; simp at h
  | cons x d ih =>
    intro k v h
    obtain ⟨a, b⟩ := x
    by_cases hk : k == a
    · have : k = a := by simpa using hk
      subst this
      simp [List.lookup] at h
      simp [h]
    · have hk' : (k == a) = false := by simpa using hk
      simp [List.lookup, hk'] at h
      simp [ih k v h]

theorem lookup_none_not_mem {κ ν : Type} [BEq κ] [LawfulBEq κ] : ∀ (d : List (κ × ν)) (k : κ),
    d.lookup k = none → ∀ v, (k, v) ∉ d := by
  intro d
  induction d with
  | nil => intro k _ v; simp
  | cons x d ih =>
    intro k h v
    obtain ⟨a, b⟩ := x
    by_cases hk : k == a
    · have : k = a := by simpa using hk
      subst this
      simp [List.lookup] at h
    · have hk' : (k == a) = false := by simpa using hk
      have h2 : d.lookup k = none := by
        rw [List.lookup, hk'] at h; exact h
      have hne : ¬ k = a := by simpa using hk
      simp [hne, ih k h2 v]

theorem mem_dictSet {κ ν : Type} [BEq κ] [LawfulBEq κ] (d : List (κ × ν)) (k q : κ) (v w : ν) :
    (q, w) ∈ dictSet d k v ↔ (q ≠ k ∧ (q, w) ∈ d) ∨ (q = k ∧ w = v) := by
  by_cases h : (d.lookup k).isSome = true
  · rw [dictSet_eq_map d k v h]
    obtain ⟨x, hx⟩ := Option.isSome_iff_exists.mp h
    have hmem := mem_of_lookup d k x hx
    simp only [List.mem_map, Prod.exists]
    constructor
    · rintro ⟨a, b, hab, e⟩
      by_cases hak : a == k
      · have : a = k := by simpa using hak
        subst this
        simp at e
        right; exact ⟨e.1.symm, e.2.symm⟩
      · have hak' : (a == k) = false := by simpa using hak
        simp [hak'] at e
        left
        obtain ⟨rfl, rfl⟩ := e
        exact ⟨by simpa using hak, hab⟩
    · rintro (⟨hne, hm⟩ | ⟨rfl, rfl⟩)
      · refine ⟨q, w, hm, ?_⟩
        have : (q == k) = false := by simpa using hne
        simp [this]
      · exact ⟨q, x, hmem, by simp⟩
  · have hn : d.lookup k = none := by
      cases h' : d.lookup k with
      | none => rfl
      | some x => simp [h'] at h
    have : dictSet d k v = d ++ [(k, v)] := by simp [dictSet, hn]
    rw [this]
    simp only [List.mem_append, List.mem_singleton, Prod.mk.injEq]
    constructor
    · rintro (hm | ⟨rfl, rfl⟩)
      · left
        refine ⟨?_, hm⟩
        rintro rfl
        exact lookup_none_not_mem d q hn w hm
      · right; exact ⟨rfl, rfl⟩
    · rintro (⟨_, hm⟩ | ⟨rfl, rfl⟩)
      · left; exact hm
      · right; exact ⟨rfl, rfl⟩

end BiotiteModel.C04

import BiotiteModel.Model.C19Tree
/-! Helper lemmas for the tree part of C19: `copy`, `lowest_common_ancestor`. -/
namespace BiotiteModel.C19
variable {δ : Type}

mutual
theorem T.copy_wf : ∀ t : T δ, t.WF = true → t.copy = .ok t
  | .leaf _, _ => rfl
  | .node .nil, h => by simp [T.WF] at h
  | .node (.cons d t r), h => by
    have h' : (F.cons d t r).WF = true := by simpa [T.WF] using h
    have := F.copy_wf (.cons d t r) h'
    simp [T.copy, this, bind, Except.bind, pure, Except.pure]
theorem F.copy_wf : ∀ f : F δ, f.WF = true → f.copy = .ok f
  | .nil, _ => rfl
  | .cons d t r, h => by
    have h' : t.WF = true ∧ r.WF = true := by simpa [F.WF] using h
    simp [F.copy, T.copy_wf t h'.1, F.copy_wf r h'.2, bind, Except.bind, pure, Except.pure]
end

/-- Longest common prefix of two paths = the deepest node that is an ancestor of both. -/
def commonPrefix : List Nat → List Nat → List Nat
  | x :: p, y :: q => if x = y then x :: commonPrefix p q else []
  | _, _ => []

def prefixes (p : List Nat) : List (List Nat) := (List.range (p.length + 1)).map (fun k => p.take k)

theorem pathToRoot_reverse (p : List Nat) : (pathToRoot p).reverse = prefixes p := by
  simp [pathToRoot, prefixes]

theorem prefixes_nil : prefixes [] = [[]] := by simp [prefixes, List.range_succ]

theorem prefixes_cons (x : Nat) (p : List Nat) :
    prefixes (x :: p) = [] :: (prefixes p).map (x :: ·) := by
  unfold prefixes
  rw [List.length_cons, List.range_succ_eq_map]
  simp [List.map_map, Function.comp_def]

theorem lcaLoop_prefixes : ∀ (p q pre : List Nat) (cur : Option (List Nat)),
    lcaLoop ((prefixes p).map (pre ++ ·)) ((prefixes q).map (pre ++ ·)) cur
      = some (pre ++ commonPrefix p q) := by
  intro p
  induction p with
  | nil =>
    intro q pre cur
    cases q with
    | nil => simp [prefixes_nil, lcaLoop, commonPrefix]
    | cons y q => simp [prefixes_nil, prefixes_cons, lcaLoop, commonPrefix]
  | cons x p ih =>
    intro q pre cur
    cases q with
    | nil => simp [prefixes_nil, prefixes_cons, lcaLoop, commonPrefix]
    | cons y q =>
      simp only [prefixes_cons, List.map_cons, List.append_nil, lcaLoop, if_true, List.map_map]
      by_cases hxy : x = y
      · subst hxy
        have := ih q (pre ++ [x]) (some pre)
        simp only [commonPrefix, if_true]
        have e : ∀ l : List (List Nat), List.map ((fun x_1 => pre ++ x_1) ∘ fun x_1 => x :: x_1) l
            = List.map (fun r => (pre ++ [x]) ++ r) l := by
          intro l; apply List.map_congr_left; intro a _; simp
        rw [e, e, this]; simp
      · simp only [commonPrefix, hxy, if_false, List.append_nil]
        -- the next pair of prefixes already differs
        rw [prefixes_cons' p, prefixes_cons' q]
        simp [lcaLoop, hxy]
where
  prefixes_cons' (p : List Nat) : prefixes p = [] :: (prefixes p).tail := by
    cases p with
    | nil => simp [prefixes_nil]
    | cons a p => simp [prefixes_cons]

/-- `lowest_common_ancestor` of two nodes of one tree is the node at the longest common prefix. -/
theorem lca_eq (p q : List Nat) : lca p q = some (commonPrefix p q) := by
  unfold lca
  rw [pathToRoot_reverse, pathToRoot_reverse]
  have := lcaLoop_prefixes p q [] none
  simpa using this

theorem commonPrefix_prefix_left : ∀ p q : List Nat, commonPrefix p q <+: p
  | [], _ => by simp [commonPrefix]
  | _ :: _, [] => by simp [commonPrefix]
  | x :: p, y :: q => by
    unfold commonPrefix
    split
    · exact (List.cons_prefix_cons).mpr ⟨rfl, commonPrefix_prefix_left p q⟩
    · simp

theorem commonPrefix_prefix_right : ∀ p q : List Nat, commonPrefix p q <+: q
  | [], _ => by simp [commonPrefix]
  | _ :: _, [] => by simp [commonPrefix]
  | x :: p, y :: q => by
    unfold commonPrefix
    split
    · rename_i h; subst h
      exact (List.cons_prefix_cons).mpr ⟨rfl, commonPrefix_prefix_right p q⟩
    · simp

theorem prefix_commonPrefix : ∀ r p q : List Nat, r <+: p → r <+: q → r <+: commonPrefix p q
  | [], _, _, _, _ => by simp
  | z :: r, [], _, h, _ => by simp at h
  | z :: r, _ :: _, [], _, h => by simp at h
  | z :: r, x :: p, y :: q, h1, h2 => by
    have a := (List.cons_prefix_cons).mp h1
    have b := (List.cons_prefix_cons).mp h2
    have hxy : x = y := a.1.symm.trans b.1
    subst hxy
    simp only [commonPrefix, if_true]
    exact (List.cons_prefix_cons).mpr ⟨a.1, prefix_commonPrefix r p q a.2 b.2⟩

end BiotiteModel.C19

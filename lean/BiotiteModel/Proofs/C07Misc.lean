import BiotiteModel.Proofs.C07Layout
/-! CONECT chunking, id read-back. -/
namespace BiotiteModel.C07

theorem chunk4_flatten (l : List Nat) : (chunk4 l).flatten = l := by
  fun_induction chunk4 l <;> simp_all

theorem chunk4_sizes : ∀ (l : List Nat), ∀ ch ∈ chunk4 l, 1 ≤ ch.length ∧ ch.length ≤ 4
  | a :: b :: c :: d :: rest => by
    intro ch hm
    simp only [chunk4, List.mem_cons] at hm
    rcases hm with rfl | hm
    · simp
    · exact chunk4_sizes rest ch hm
  | [] => by simp [chunk4]
  | [_] => by simp [chunk4]
  | [_, _] => by simp [chunk4]
  | [_, _, _] => by simp [chunk4]

theorem mem_partners (bonds : List (Nat × Nat)) (c p : Nat) :
    p ∈ partners bonds c ↔ ((c, p) ∈ bonds ∨ (p, c) ∈ bonds) := by
  unfold partners
  simp only [List.mem_filterMap]
  constructor
  · rintro ⟨⟨b1, b2⟩, hm, h⟩
    simp only at h
    split at h
    · rename_i h1; simp at h; subst h1; subst h; exact Or.inl hm
    · split at h
      · rename_i h2; simp at h; subst h2; subst h; exact Or.inr hm
      · cases h
  · rintro (h | h)
    · exact ⟨(c, p), h, by simp⟩
    · refine ⟨(p, c), h, ?_⟩
      by_cases hpc : p = c
      · subst hpc; simp
      · simp [hpc]

/-- within the un-wrapped range the written id is read back, whatever blank padding surrounds it -/
theorem idText_decode (h36 : Bool) (w maxv : Nat) (i : Int) (t : List Char) (a b : Nat) (hw : 1 ≤ w)
    (hr : if h36 then 0 ≤ i ∧ i ≤ (maxNumber w : Nat) else i ≤ maxv) (h : idText h36 w maxv i = .ok t) :
    decodeH36 (List.replicate a ' ' ++ t ++ List.replicate b ' ') = .ok i := by
  unfold idText at h
  cases h36
  · simp only [Bool.false_eq_true, if_false, Except.ok.injEq] at h hr
    subst h
    have hwrap : wrapId maxv i = i := by
      unfold wrapId
      split
      · rename_i hpos
        rw [Int.emod_eq_of_lt (by omega) (by omega)]; omega
      · rfl
    rw [hwrap]
    unfold decodeH36
    rw [pyInt_pad_intDec]
  · simp only [if_true] at h hr
    obtain ⟨n, rfl⟩ := Int.eq_ofNat_of_zero_le hr.1
    have hn : n ≤ maxNumber w := by exact_mod_cast hr.2
    obtain ⟨s, hs, hd⟩ := decode_pad_encode w n a b hw hn
    rw [hs] at h
    cases h
    exact hd

theorem occText_facts (fl : Flags) (i : Nat) (a : Atom) (h : CompatStrong fl i a) :
    (occText fl a).length = 6 ∧ ∀ ch ∈ occText fl a, isWS ch = true → ch = ' ' := by
  unfold occText
  split
  · rename_i hf
    have hfit := (fmtFixed_fits_iff 2 3 (by decide) (by decide) a.occ).2 (h.occ hf)
    exact ⟨rjust_length 6 _ hfit, ws_rjust _ (ws_of_clean (fmtFixed_no_ws 2 a.occ))⟩
  · exact ⟨rfl, by decide⟩

theorem bfText_facts (fl : Flags) (i : Nat) (a : Atom) (h : CompatStrong fl i a) :
    (bfText fl a).length = 6 ∧ ∀ ch ∈ bfText fl a, isWS ch = true → ch = ' ' := by
  unfold bfText
  split
  · rename_i hf
    have hfit := (fmtFixed_fits_iff 2 3 (by decide) (by decide) a.bf).2 (h.bf hf)
    exact ⟨rjust_length 6 _ hfit, ws_rjust _ (ws_of_clean (fmtFixed_no_ws 2 a.bf))⟩
  · exact ⟨rfl, by decide⟩

theorem chargeField_facts (fl : Flags) (i : Nat) (a : Atom) (h : CompatStrong fl i a) :
    (chargeField fl a).length = 2 ∧ ∀ ch ∈ chargeField fl a, isWS ch = true → ch = ' ' := by
  unfold chargeField
  split
  · rename_i hf
    have hq := h.charge hf
    have hd : (natDec a.charge.natAbs).length ≤ 1 := (natDec_length_le_iff _ 1 (by decide)).2 (by omega)
    have hlen : (chargeText a.charge).length ≤ 2 := by
      unfold chargeText; split
      · simp; omega
      · split
        · simp; omega
        · simp
    have hws : ∀ c ∈ chargeText a.charge, isWS c = false := by
      intro c hc
      unfold chargeText at hc
      split at hc
      · rcases List.mem_append.1 hc with hc | hc
        · exact natDec_no_ws _ c hc
        · simp at hc; subst hc; decide
      · split at hc
        · rcases List.mem_append.1 hc with hc | hc
          · exact natDec_no_ws _ c hc
          · simp at hc; subst hc; decide
        · simp at hc
    exact ⟨rjust_length 2 _ hlen, ws_rjust _ (ws_of_clean hws)⟩
  · exact ⟨rfl, by decide⟩

end BiotiteModel.C07

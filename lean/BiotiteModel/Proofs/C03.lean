import BiotiteModel.Model.C03
import BiotiteModel.Model.C03Kmer
import BiotiteModel.Model.C03Codon
/-! Helper lemmas for C03 (alphabets, letter table, k-mers, codons). -/
namespace BiotiteModel.C03

/-! ### `mapE` -/

theorem mapE_cons_ok {α β : Type} (f : α → Except Err β) (x : α) (xs : List α) (y : β) (ys : List β)
    (h1 : f x = .ok y) (h2 : mapE f xs = .ok ys) : mapE f (x :: xs) = .ok (y :: ys) := by
  simp [mapE, h1, h2]

theorem mapE_cons_inv {α β : Type} (f : α → Except Err β) (x : α) (xs : List α) (r : List β)
    (h : mapE f (x :: xs) = .ok r) : ∃ y ys, f x = .ok y ∧ mapE f xs = .ok ys ∧ r = y :: ys := by
  simp only [mapE] at h
  cases hx : f x with
  | error e => simp [hx] at h
  | ok y =>
    cases hxs : mapE f xs with
    | error e => simp [hx, hxs] at h
    | ok ys =>
      simp [hx, hxs] at h
      exact ⟨y, ys, rfl, rfl, h.symm⟩

/-- `mapE` succeeds iff every element succeeds; the result is the element-wise image. -/
theorem mapE_ok_of_forall {α β : Type} (f : α → Except Err β) (g : α → β) (xs : List α)
    (h : ∀ x ∈ xs, f x = .ok (g x)) : mapE f xs = .ok (xs.map g) := by
  induction xs with
  | nil => rfl
  | cons x xs ih =>
    exact mapE_cons_ok f x xs _ _ (h x (by simp)) (ih fun y hy => h y (by simp [hy]))

/-- If every element either succeeds or fails with `e`, `mapE` fails with `e` exactly when some
element fails. -/
theorem mapE_error_iff {α β : Type} (f : α → Except Err β) (e : Err) (xs : List α)
    (h : ∀ x ∈ xs, (∃ y, f x = .ok y) ∨ f x = .error e) :
    mapE f xs = .error e ↔ ∃ x ∈ xs, f x = .error e := by
  induction xs with
  | nil => simp [mapE]
  | cons x xs ih =>
    have ih' := ih fun y hy => h y (by simp [hy])
    rcases h x (by simp) with ⟨y, hy⟩ | hx
    · cases hxs : mapE f xs with
      | error e' =>
        simp only [mapE, hy, hxs]
        constructor
        · intro he
          have : e' = e := by simpa using he
          subst this
          obtain ⟨z, hz, hfz⟩ := ih'.mp hxs
          exact ⟨z, by simp [hz], hfz⟩
        · rintro ⟨z, hz, hfz⟩
          rcases List.mem_cons.mp hz with rfl | hz
          · simp [hy] at hfz
          · have := ih'.mpr ⟨z, hz, hfz⟩
            rw [hxs] at this
            exact this
      | ok ys =>
        simp only [mapE, hy, hxs]
        constructor
        · intro he; simp at he
        · rintro ⟨z, hz, hfz⟩
          rcases List.mem_cons.mp hz with rfl | hz
          · simp [hy] at hfz
          · have := ih'.mpr ⟨z, hz, hfz⟩
            rw [hxs] at this
            simp at this
    · simp only [mapE, hx]
      exact ⟨fun _ => ⟨x, by simp, hx⟩, fun _ => trivial⟩

/-! ### generic alphabets -/
section Generic
set_option linter.unusedSectionVars false
variable {α : Type} [DecidableEq α]

theorem indexOf?_none {alph : List α} {s : α} : indexOf? alph s = none ↔ s ∉ alph := by
  induction alph with
  | nil => simp [indexOf?]
  | cons a as ih =>
    simp only [indexOf?]
    by_cases h : a = s
    · simp [h]
    · simp only [h, if_false, Option.map_eq_none_iff, ih, List.mem_cons, not_or]
      exact ⟨fun h' => ⟨fun e => h e.symm, h'⟩, fun h' => h'.2⟩

theorem indexOf?_some {alph : List α} {s : α} {i : Nat} (h : indexOf? alph s = some i) :
    alph[i]? = some s := by
  induction alph generalizing i with
  | nil => simp [indexOf?] at h
  | cons a as ih =>
    simp only [indexOf?] at h
    by_cases ha : a = s
    · simp [ha] at h; subst h; simp [ha]
    · simp [ha] at h
      obtain ⟨j, hj, rfl⟩ := h
      simpa using ih hj

theorem indexOf?_of_mem {alph : List α} {s : α} (h : s ∈ alph) : ∃ i, indexOf? alph s = some i := by
  cases hi : indexOf? alph s with
  | none => exact absurd h (indexOf?_none.mp hi)
  | some i => exact ⟨i, rfl⟩

/-- In an alphabet without duplicates the position of a symbol is its only index. -/
theorem indexOf?_of_getElem {alph : List α} (hnd : alph.Nodup) {s : α} {i : Nat}
    (h : alph[i]? = some s) : indexOf? alph s = some i := by
  induction alph generalizing i with
  | nil => simp at h
  | cons a as ih =>
    have hnd' := List.nodup_cons.mp hnd
    cases i with
    | zero => simp at h; simp [indexOf?, h]
    | succ j =>
      simp at h
      have hmem : s ∈ as := List.mem_of_getElem? h
      have hne : a ≠ s := fun heq => hnd'.1 (heq ▸ hmem)
      simp [indexOf?, hne, ih hnd'.2 h]

theorem getElem?_lt {l : List α} {i : Nat} {s : α} (h : l[i]? = some s) : i < l.length := by
  rcases Nat.lt_or_ge i l.length with h' | h'
  · exact h'
  · simp [List.getElem?_eq_none h'] at h

theorem decode1_ofNat {alph : List α} {i : Nat} {s : α} (h : alph[i]? = some s) :
    decode1 alph (i : Int) = .ok s := by
  have hlt := getElem?_lt h
  have : ¬ ((i : Int) < 0 ∨ (alph.length : Int) ≤ i) := by omega
  rw [decode1, if_neg this]
  simp [h]

theorem decode1_ok {alph : List α} {c : Int} {s : α} (h : decode1 alph c = .ok s) :
    0 ≤ c ∧ c < alph.length ∧ alph[c.toNat]? = some s := by
  unfold decode1 at h
  split at h
  · simp at h
  · rename_i hc
    cases hg : alph[c.toNat]? with
    | none => simp [hg] at h
    | some t =>
      simp [hg] at h
      subst h
      exact ⟨by omega, by omega, rfl⟩

theorem decode1_valid {alph : List α} {c : Int} (h0 : 0 ≤ c) (h1 : c < alph.length) :
    ∃ s, decode1 alph c = .ok s ∧ alph[c.toNat]? = some s := by
  have hlt : c.toNat < alph.length := by omega
  refine ⟨alph[c.toNat], ?_, by simp [hlt]⟩
  have : ¬ (c < 0 ∨ (alph.length : Int) ≤ c) := by omega
  rw [decode1, if_neg this]
  simp [hlt]

theorem decode1_invalid {alph : List α} {c : Int} (h : c < 0 ∨ (alph.length : Int) ≤ c) :
    decode1 alph c = .error .alphabetError := by
  simp [decode1, h]

theorem encode1_ok_iff {alph : List α} {s : α} {i : Nat} :
    encode1 alph s = .ok i ↔ indexOf? alph s = some i := by
  unfold encode1
  cases indexOf? alph s <;> simp

theorem encode1_error_iff {alph : List α} {s : α} :
    encode1 alph s = .error .alphabetError ↔ s ∉ alph := by
  unfold encode1
  cases h : indexOf? alph s with
  | none => simp [indexOf?_none.mp h]
  | some i =>
    simp
    exact List.mem_of_getElem? (indexOf?_some h)

theorem encode1_total (alph : List α) (s : α) :
    (∃ i, encode1 alph s = .ok i) ∨ encode1 alph s = .error .alphabetError := by
  unfold encode1
  cases indexOf? alph s <;> simp

theorem decode1_total (alph : List α) (c : Int) :
    (∃ s, decode1 alph c = .ok s) ∨ decode1 alph c = .error .alphabetError := by
  by_cases h : c < 0 ∨ (alph.length : Int) ≤ c
  · exact .inr (decode1_invalid h)
  · obtain ⟨s, hs, _⟩ := decode1_valid (alph := alph) (c := c) (by omega) (by omega)
    exact .inl ⟨s, hs⟩

end Generic

/-! ### more `mapE` -/

theorem mapE_congr {α β : Type} (f g : α → Except Err β) (xs : List α) (h : ∀ x ∈ xs, f x = g x) :
    mapE f xs = mapE g xs := by
  induction xs with
  | nil => rfl
  | cons x xs ih =>
    simp only [mapE, h x (by simp), ih fun y hy => h y (by simp [hy])]

theorem mapE_map {α β γ : Type} (f : β → Except Err γ) (g : α → β) (xs : List α) :
    mapE f (xs.map g) = mapE (fun x => f (g x)) xs := by
  induction xs with
  | nil => rfl
  | cons x xs ih => simp only [List.map_cons, mapE, ih]

theorem mapE_append {α β : Type} (f : α → Except Err β) (xs ys : List α) (a b : List β)
    (h1 : mapE f xs = .ok a) (h2 : mapE f ys = .ok b) : mapE f (xs ++ ys) = .ok (a ++ b) := by
  induction xs generalizing a with
  | nil => simp [mapE] at h1; subst h1; simpa using h2
  | cons x xs ih =>
    obtain ⟨y, ys', hy, hys, rfl⟩ := mapE_cons_inv f x xs a h1
    exact mapE_cons_ok f x (xs ++ ys) y (ys' ++ b) hy (ih ys' hys)

theorem mapE_reverse {α β : Type} (f : α → Except Err β) (xs : List α) (a : List β)
    (h : mapE f xs = .ok a) : mapE f xs.reverse = .ok a.reverse := by
  induction xs generalizing a with
  | nil => simp [mapE] at h; subst h; rfl
  | cons x xs ih =>
    obtain ⟨y, ys, hy, hys, rfl⟩ := mapE_cons_inv f x xs a h
    simp only [List.reverse_cons]
    exact mapE_append f _ _ _ _ (ih ys hys) (mapE_cons_ok f x [] y [] hy rfl)

/-! ### the 256-entry table of `encode_chars` -/

theorem symTable_spec (alph : List Nat) (hnd : alph.Nodup) (i : Nat) (t : Nat → Nat) (s : Nat) :
    symTable alph i t s = match indexOf? alph s with
      | some j => (i + j) % 256
      | none => t s := by
  induction alph generalizing i t with
  | nil => simp [symTable, indexOf?]
  | cons a as ih =>
    have hnd' := List.nodup_cons.mp hnd
    simp only [symTable]
    rw [ih hnd'.2]
    by_cases hs : a = s
    · subst hs
      have : indexOf? as a = none := indexOf?_none.mpr hnd'.1
      simp [indexOf?, this]
    · have hs' : ¬ s = a := fun e => hs e.symm
      cases hi : indexOf? as s with
      | none => simp [indexOf?, hs, hi, hs']
      | some j =>
        have : i + 1 + j = i + (j + 1) := by omega
        simp [indexOf?, hs, hi, this]

theorem indexOf?_lt {α : Type} [DecidableEq α] {alph : List α} {s : α} {i : Nat}
    (h : indexOf? alph s = some i) : i < alph.length := getElem?_lt (indexOf?_some h)

/-- One symbol through the table = `Alphabet.encode`, for alphabets of fewer than 256 distinct bytes. -/
theorem encodeChars_elem (alph : List Nat) (hnd : alph.Nodup) (hlen : alph.length < 256) (s : Nat) :
    (let illegal := alph.length % 256
     let tbl := symTable alph 0 (fun _ => illegal)
     if tbl s = illegal then Except.error Err.alphabetError else Except.ok (tbl s)) = encode1 alph s := by
  simp only [symTable_spec alph hnd, encode1]
  cases hi : indexOf? alph s with
  | none => simp
  | some j =>
    have hj := indexOf?_lt hi
    have h1 : (0 + j) % 256 = j := by omega
    have h2 : alph.length % 256 = alph.length := by omega
    simp only [h1, h2]
    have : j ≠ alph.length := by omega
    simp [this]

/-! ### k-mers -/

/-- `dot` on natural codes. -/
def dotN : List Nat → List Nat → Nat
  | r :: rs, c :: cs => r * c + dotN rs cs
  | _, _ => 0

theorem dot_ofNat (rs cs : List Nat) : dot rs (cs.map Int.ofNat) = (dotN rs cs : Int) := by
  induction rs generalizing cs with
  | nil => cases cs <;> simp [dot, dotN]
  | cons r rs ih =>
    cases cs with
    | nil => simp [dot, dotN]
    | cons c cs => simp [dot, dotN, ih]

theorem radixMult_length (n k : Nat) : (radixMult n k).length = k := by
  induction k with
  | zero => rfl
  | succ k ih => simp [radixMult, ih]

theorem dotN_lt (n k : Nat) (ds : List Nat) (hl : ds.length = k) (hd : ∀ d ∈ ds, d < n) :
    dotN (radixMult n k) ds < n ^ k := by
  induction k generalizing ds with
  | zero => cases ds <;> simp_all [radixMult, dotN]
  | succ k ih =>
    cases ds with
    | nil => simp at hl
    | cons d ds =>
      have hr := ih ds (by simpa using hl) fun x hx => hd x (by simp [hx])
      have hdn : d < n := hd d (by simp)
      simp only [radixMult, dotN]
      have : n ^ k * d + n ^ k ≤ n ^ k * n := by
        have := Nat.mul_le_mul_left (n ^ k) (Nat.succ_le_of_lt hdn)
        rw [Nat.mul_succ] at this; exact this
      have hp : n ^ (k + 1) = n ^ k * n := by rw [Nat.pow_succ]
      omega

theorem splitLoop_dotN (n k : Nat) (ds : List Nat) (hl : ds.length = k) (hd : ∀ d ∈ ds, d < n) :
    splitLoop (radixMult n k) (dotN (radixMult n k) ds) = ds := by
  induction k generalizing ds with
  | zero => cases ds <;> simp_all [radixMult, splitLoop]
  | succ k ih =>
    cases ds with
    | nil => simp at hl
    | cons d ds =>
      have hlen : ds.length = k := by simpa using hl
      have hds : ∀ x ∈ ds, x < n := fun x hx => hd x (by simp [hx])
      have hr := dotN_lt n k ds hlen hds
      have hn : 0 < n := Nat.lt_of_le_of_lt (Nat.zero_le _) (hd d (by simp))
      have hpos : 0 < n ^ k := Nat.pow_pos hn
      simp only [radixMult, dotN, splitLoop]
      have hdiv : (n ^ k * d + dotN (radixMult n k) ds) / n ^ k = d := by
        rw [Nat.mul_add_div hpos, Nat.div_eq_of_lt hr]; rfl
      rw [hdiv]
      have hsub : n ^ k * d + dotN (radixMult n k) ds - d * n ^ k = dotN (radixMult n k) ds := by
        rw [Nat.mul_comm]; omega
      rw [hsub, ih ds hlen hds]

theorem splitLoop_spec (n k c : Nat) (hn : 0 < n) (hc : c < n ^ k) :
    (splitLoop (radixMult n k) c).length = k ∧ (∀ d ∈ splitLoop (radixMult n k) c, d < n) ∧
      dotN (radixMult n k) (splitLoop (radixMult n k) c) = c := by
  induction k generalizing c with
  | zero =>
    have : c = 0 := by simpa using hc
    subst this
    simp [radixMult, splitLoop, dotN]
  | succ k ih =>
    have hpos : 0 < n ^ k := Nat.pow_pos hn
    have hdlt : c / n ^ k < n := by
      apply Nat.div_lt_of_lt_mul
      rw [Nat.pow_succ, Nat.mul_comm] at hc
      rw [Nat.mul_comm]; exact hc
    have hrem : c - c / n ^ k * n ^ k = c % n ^ k := by
      have := Nat.div_add_mod c (n ^ k)
      rw [Nat.mul_comm] at this
      exact Nat.sub_eq_of_eq_add (by rw [Nat.add_comm]; exact this.symm)
    have hr : c % n ^ k < n ^ k := Nat.mod_lt _ hpos
    obtain ⟨h1, h2, h3⟩ := ih (c % n ^ k) hr
    simp only [radixMult, splitLoop, hrem]
    refine ⟨by simp [h1], ?_, ?_⟩
    · intro d hdm
      rcases List.mem_cons.mp hdm with rfl | hdm
      · exact hdlt
      · exact h2 d hdm
    · simp only [dotN, h3]
      exact Nat.div_add_mod c (n ^ k)

end BiotiteModel.C03

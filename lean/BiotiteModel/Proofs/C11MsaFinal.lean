import BiotiteModel.Proofs.C11Cols
/-! The final, re-ordered trace of `align_multiple` is a valid trace (rectangular, strictly increasing rows,
no all-gap column).  Core Lean only. -/
namespace BiotiteModel.C11
open BiotiteModel

theorem idxOf_getElem_nodup : ∀ (l : List Nat), l.Nodup → ∀ (p : Nat) (hp : p < l.length), l.idxOf l[p] = p := by
  intro l
  induction l with
  | nil => intro _ p hp; exact absurd hp (Nat.not_lt_zero _)
  | cons a l ih =>
    intro hn p hp
    rw [List.nodup_cons] at hn
    cases p with
    | zero => simp
    | succ p =>
      have hp' : p < l.length := by simpa using hp
      have hne : a ≠ l[p] := fun h => hn.1 (h ▸ List.getElem_mem hp')
      rw [List.getElem_cons_succ, List.idxOf_cons]
      have : (a == l[p]) = false := by simpa using hne
      rw [this]
      simp [ih hn.2 p hp']

theorem numberCodes_length (g : Nat) : ∀ (r : Row) (a : Nat), (numberCodes g a r).length = r.length := by
  intro r
  induction r with
  | nil => intro a; rfl
  | cons c r ih => intro a; unfold numberCodes; split <;> simp [ih]

theorem numberCodes_get (g : Nat) : ∀ (r : Row) (a i : Nat) (c : Nat), r[i]? = some c →
    (c = g → (numberCodes g a r)[i]? = some none) ∧ (c ≠ g → ∃ v, (numberCodes g a r)[i]? = some (some v)) := by
  intro r
  induction r with
  | nil => intro a i c h; simp at h
  | cons x r ih =>
    intro a i c h
    unfold numberCodes
    cases i with
    | zero =>
      simp at h; subst h
      by_cases hx : x = g
      · simp [hx]
      · simp [hx]
    | succ i =>
      simp at h
      by_cases hx : x = g
      · simpa [hx] using ih a i c h
      · simpa [hx] using ih (a + 1) i c h

theorem filterMap_get_of_all {α : Type} (i : Nat) : ∀ (L : List (List α)) (k : Nat), (∀ r ∈ L, i < r.length) →
    (L.filterMap (·[i]?))[k]? = (L[k]?).bind (·[i]?) := by
  intro L
  induction L with
  | nil => intro k _; simp
  | cons r L ih =>
    intro k h
    have hr : i < r.length := h r (List.mem_cons_self ..)
    rw [List.filterMap_cons, List.getElem?_eq_getElem hr]
    cases k with
    | zero => simp [List.getElem?_eq_getElem hr]
    | succ k => simpa using ih k fun x hx => h x (List.mem_cons_of_mem _ hx)

theorem row_filterMap_id {α : Type} (row : List (Option α)) :
    (List.range row.length).filterMap (fun i => (row[i]?).join) = row.filterMap id := by
  conv => rhs; rw [← range_filterMap_get row, List.filterMap_filterMap]
  apply filterMap_congr'
  intro i _
  cases row[i]? <;> rfl

/-- the columns of `transpose w rows` for rows of one width, and their per-sequence view -/
theorem transpose_valid (n w : Nat) (rows : List (List (Option Nat))) (hn : rows.length = n)
    (hw : ∀ r ∈ rows, r.length = w)
    (hinc : ∀ r ∈ rows, (r.filterMap id).Pairwise (· < ·))
    (hgap : ∀ i, i < w → ∃ r ∈ rows, ∃ v, r[i]? = some (some v)) :
    Valid n (transpose w rows) ∧ ∀ k (hk : k < rows.length), covered (transpose w rows) k = rows[k].filterMap id := by
  have hT : transpose w rows = (List.range w).map fun i => rows.filterMap (·[i]?) := by
    apply List.ext_getElem?
    intro i
    by_cases hi : i < w
    · rw [transpose_get w rows i hi]; simp [hi]
    · rw [List.getElem?_eq_none (by rw [transpose_length]; omega), List.getElem?_eq_none (by simpa using Nat.le_of_not_lt hi)]
  have hcol : ∀ i : Nat, i < w → ∀ k : Nat, (rows.filterMap (fun r => r[i]?))[k]? = (rows[k]?).bind (fun r => r[i]?) := by
    intro i hi k
    exact filterMap_get_of_all i rows k fun r hr => by rw [hw r hr]; exact hi
  have hcov : ∀ k (hk : k < rows.length), covered (transpose w rows) k = rows[k].filterMap id := by
    intro k hk
    rw [hT]
    unfold covered
    rw [List.filterMap_map, ← row_filterMap_id, hw _ (List.getElem_mem hk)]
    apply filterMap_congr'
    intro i hi
    simp only [Function.comp_def, hcol i (by simpa using hi) k, List.getElem?_eq_getElem hk, Option.bind_some]
  refine ⟨⟨?_, ?_, ?_⟩, hcov⟩
  · intro c hc
    rw [hT] at hc
    simp only [List.mem_map, List.mem_range] at hc
    obtain ⟨i, hi, rfl⟩ := hc
    -- length: every row contributes exactly one entry
    have hlen : ∀ (L : List (List (Option Nat))), (∀ r ∈ L, i < r.length) → (L.filterMap (·[i]?)).length = L.length := by
      intro L
      induction L with
      | nil => intro _; rfl
      | cons r L ih =>
        intro h
        rw [List.filterMap_cons, List.getElem?_eq_getElem (h r (List.mem_cons_self ..))]
        simp [ih fun x hx => h x (List.mem_cons_of_mem _ hx)]
    rw [hlen rows fun r hr => by rw [hw r hr]; exact hi, hn]
  · intro k hk
    rw [hcov k (by omega)]
    exact hinc _ (List.getElem_mem _)
  · intro c hc
    rw [hT] at hc
    simp only [List.mem_map, List.mem_range] at hc
    obtain ⟨i, hi, rfl⟩ := hc
    obtain ⟨r, hr, v, hv⟩ := hgap i hi
    exact ⟨some v, by rw [List.mem_filterMap]; exact ⟨r, hr, hv⟩, by simp⟩

/-- `align_multiple`: the returned (re-ordered) trace is a valid trace of `n` rows, row `k` visits exactly the
positions of input `k`, and `order` is a permutation -/
theorem msa_final {al : List Nat → List Nat → PTrace} {g : Nat} {seqs : List Row} (tree : GTree)
    (hin : ∀ s ∈ seqs, ∀ c ∈ s, c ≠ g) (hv : AllValid al g seqs tree)
    (hperm : tree.leaves.Perm (List.range seqs.length)) :
    ∃ res, alignMultiple al g seqs tree = .ok (some res) ∧ res.order = tree.leaves ∧
      res.order.Perm (List.range seqs.length) ∧ res.seqs = seqs ∧ Valid seqs.length res.trace ∧
      ∀ k (hk : k < seqs.length), covered res.trace k = List.range seqs[k].length := by
  have hmem : ∀ k, k ∈ tree.leaves ↔ k < seqs.length := by intro k; rw [hperm.mem_iff]; simp
  have hlen : tree.leaves.length = seqs.length := by simpa using hperm.length_eq
  have hnodup : tree.leaves.Nodup := hperm.nodup_iff.2 List.nodup_range
  obtain ⟨rows, w, hp, inv⟩ := progressive_inv hin tree hv (fun i hi => (hmem i).1 hi)
  have hrl : rows.length = seqs.length := by rw [← inv.spell.length_eq, hlen]
  have hisPerm : isPerm tree.leaves = true := by
    simp only [isPerm, List.all_eq_true, List.mem_range, hlen]
    intro k hk
    simpa using (hmem k).2 hk
  obtain ⟨picked, hpick⟩ : ∃ picked, pick rows (argsortPerm tree.leaves) = .ok picked := by
    apply mapE_ok_of_forall
    intro p hp
    simp only [argsortPerm, List.mem_map, List.mem_range, hlen] at hp
    obtain ⟨k, hk, rfl⟩ := hp
    have : tree.leaves.idxOf k < rows.length := by
      rw [hrl, ← hlen]; exact List.idxOf_lt_length_of_mem ((hmem k).2 hk)
    exact ⟨rows[tree.leaves.idxOf k], by simp [List.getElem?_eq_getElem this]⟩
  have h1 := (pick_forall₂ _ _ _ hpick)
  simp only [argsortPerm, hlen] at h1
  have h2 := All₂.map_left _ h1
  have h3 : All₂ (fun k x => seqs[k]? = some (strip g x)) (List.range seqs.length) picked := by
    refine h2.imp_mem ?_
    intro k x hk hx
    have hk' : k ∈ tree.leaves := (hmem k).2 (by simpa using hk)
    obtain ⟨r, hr, hs⟩ := inv.spell.get _ k (getElem?_idxOf' _ k hk')
    rw [hx] at hr; cases hr; exact hs
  have hseqs : picked.map (strip g) = seqs := spell_range seqs (strip g) picked h3
  have hpl : picked.length = seqs.length := by rw [← h2.length_eq]; simp
  -- picked and rows have the same elements
  have hsub : ∀ x ∈ picked, x ∈ rows := by
    intro x hx
    obtain ⟨k, _, hkx⟩ := h2.mem_right x hx
    exact List.mem_of_getElem? hkx
  have hsup : ∀ r ∈ rows, r ∈ picked := by
    intro r hr
    obtain ⟨p, hp', rfl⟩ := List.getElem_of_mem hr
    have hpo : p < tree.leaves.length := by omega
    have hk : tree.leaves[p] < seqs.length := (hmem _).1 (List.getElem_mem hpo)
    obtain ⟨x, hx, hxr⟩ := h2.get tree.leaves[p] tree.leaves[p] (by simp [hk])
    rw [idxOf_getElem_nodup _ hnodup p hpo, List.getElem?_eq_getElem hp'] at hxr
    cases hxr
    exact List.mem_of_getElem? hx
  have hwidth : width rows = w := inv.width_eq
  refine ⟨{ seqs := picked.map (strip g), rows := picked.map (numberCodes g 0),
            trace := transpose (width rows) (picked.map (numberCodes g 0)), order := tree.leaves },
    by simp [alignMultiple, hp, hisPerm, hpick], rfl, hperm, hseqs, ?_⟩
  simp only [hwidth]
  have hcovrow : ∀ x, (numberCodes g 0 x).filterMap id = List.range (strip g x).length := by
    intro x; rw [numberCodes_covered, List.range_eq_range']
  obtain ⟨hvalid, hcov⟩ := transpose_valid seqs.length w (picked.map (numberCodes g 0)) (by simp [hpl])
    (by
      intro r hr
      simp only [List.mem_map] at hr
      obtain ⟨x, hx, rfl⟩ := hr
      rw [numberCodes_length, inv.uniform x (hsub x hx)])
    (by
      intro r hr
      simp only [List.mem_map] at hr
      obtain ⟨x, _, rfl⟩ := hr
      rw [hcovrow]
      exact List.pairwise_lt_range)
    (by
      intro i hi
      obtain ⟨r, hr, c, hc, hcg⟩ := inv.noAllGap i hi
      obtain ⟨v, hv'⟩ := (numberCodes_get g r 0 i c hc).2 hcg
      exact ⟨numberCodes g 0 r, List.mem_map.mpr ⟨r, hsup r hr, rfl⟩, v, hv'⟩)
  refine ⟨hvalid, ?_⟩
  intro k hk
  have hk2 : k < (picked.map (numberCodes g 0)).length := by simp [hpl, hk]
  rw [hcov k hk2]
  have hkp : k < picked.length := by omega
  simp only [List.getElem_map]
  rw [hcovrow]
  have : (picked.map (strip g))[k]? = seqs[k]? := by rw [hseqs]
  simp only [List.getElem?_map, List.getElem?_eq_getElem hkp, List.getElem?_eq_getElem hk, Option.map_some,
    Option.some.injEq] at this
  rw [this]

/-! ### the validity checker of the driver is the hypothesis of the theorems -/

theorem globalValidB_iff (tr : PTrace) (w1 w2 : Nat) : globalValidB tr w1 w2 = true ↔ GlobalValid tr w1 w2 := by
  unfold globalValidB GlobalValid
  simp only [Bool.and_eq_true, beq_iff_eq, List.all_eq_true, Bool.or_eq_true]
  constructor
  · rintro ⟨⟨h1, h2⟩, h3⟩
    refine ⟨h1, h2, fun c hc hcc => ?_⟩
    have := h3 c hc
    subst hcc
    simp at this
  · rintro ⟨h1, h2, h3⟩
    refine ⟨⟨h1, h2⟩, fun c hc => ?_⟩
    obtain ⟨a, b⟩ := c
    cases a <;> cases b <;> simp
    exact h3 _ hc rfl

theorem allValidB_iff (al : List Nat → List Nat → PTrace) (g : Nat) (seqs : List Row) :
    ∀ tree : GTree, allValidB al g seqs tree = true ↔ AllValid al g seqs tree := by
  intro tree
  induction tree with
  | leaf i => simp [allValidB, AllValid]
  | node l r ihl ihr =>
    simp only [allValidB, AllValid, Bool.and_eq_true, ihl, ihr]
    constructor
    · rintro ⟨⟨h1, h2⟩, h3⟩
      refine ⟨h1, h2, ?_⟩
      intro o1 r1 o2 r2 p1 p2
      rw [p1, p2] at h3
      exact (globalValidB_iff _ _ _).1 h3
    · rintro ⟨h1, h2, h3⟩
      refine ⟨⟨h1, h2⟩, ?_⟩
      cases p1 : progressive al g seqs l with
      | error e => rfl
      | ok x =>
        cases p2 : progressive al g seqs r with
        | error e => rfl
        | ok y =>
          obtain ⟨o1, r1⟩ := x
          obtain ⟨o2, r2⟩ := y
          exact (globalValidB_iff _ _ _).2 (h3 o1 r1 o2 r2 p1 p2)

/-! ### the guide tree: order = leaf list, whatever the aligner returns -/

theorem mapE_length {α β : Type} {f : α → Except Err β} {l : List α} {r : List β} (h : mapE f l = .ok r) :
    r.length = l.length := (mapE_ok_forall₂ f l r h).length_eq.symm

theorem progressive_order (al : List Nat → List Nat → PTrace) (g : Nat) (seqs : List Row) :
    ∀ (tree : GTree) (o : List Nat) (rows : List Row), progressive al g seqs tree = .ok (o, rows) →
      o = tree.leaves ∧ rows.length = o.length := by
  intro tree
  induction tree with
  | leaf i =>
    intro o rows h
    simp only [progressive] at h
    split at h
    · simp at h; obtain ⟨rfl, rfl⟩ := h; exact ⟨rfl, rfl⟩
    · cases h
  | node l r ihl ihr =>
    intro o rows h
    simp only [progressive] at h
    split at h
    · cases h
    · next o1 r1 p1 =>
      split at h
      · cases h
      · next o2 r2 p2 =>
        split at h
        · cases h
        · next rows' hm =>
          simp at h
          obtain ⟨rfl, rfl⟩ := h
          obtain ⟨e1, l1⟩ := ihl o1 r1 p1
          obtain ⟨e2, l2⟩ := ihr o2 r2 p2
          refine ⟨by simp [GTree.leaves, e1, e2], ?_⟩
          unfold mergeGroups at hm
          split at hm
          · cases hm
          · next a ha =>
            split at hm
            · cases hm
            · next b hb =>
              simp at hm; subst hm
              simp [mapE_length ha, mapE_length hb, l1, l2]

theorem foldl_node_leaves (rest : List GTree) : ∀ acc : GTree,
    (rest.foldl GTree.node acc).leaves = acc.leaves ++ rest.flatMap GTree.leaves := by
  induction rest with
  | nil => intro acc; simp
  | cons c rest ih => intro acc; simp [ih, GTree.leaves, List.append_assoc]

mutual
/-- `as_binary` keeps the leaves, in order -/
theorem asBinary_leaves : ∀ (m : MTree) (b : GTree), asBinary m = some b → b.leaves = m.leaves
  | .leaf i, b, h => by simp [asBinary] at h; subst h; simp [GTree.leaves, MTree.leaves]
  | .node cs, b, h => by
    simp only [asBinary] at h
    cases hl : asBinaryList cs with
    | none => simp [hl] at h
    | some bs =>
      have := asBinaryList_leaves cs bs hl
      rw [hl] at h
      simp only [MTree.leaves]
      rw [← this]
      match bs, h with
      | [c], h => simp at h; subst h; simp
      | c1 :: c2 :: rest, h =>
        simp at h; subst h
        simp [foldl_node_leaves, GTree.leaves, List.append_assoc]
theorem asBinaryList_leaves : ∀ (cs : List MTree) (bs : List GTree), asBinaryList cs = some bs →
    bs.flatMap GTree.leaves = MTree.leavesList cs
  | [], bs, h => by simp [asBinaryList] at h; subst h; simp [MTree.leavesList]
  | c :: cs, bs, h => by
    simp only [asBinaryList] at h
    cases h1 : asBinary c with
    | none => simp [h1] at h
    | some b =>
      cases h2 : asBinaryList cs with
      | none => simp [h1, h2] at h
      | some bs' =>
        simp [h1, h2] at h; subst h
        simp [MTree.leavesList, asBinary_leaves c b h1, asBinaryList_leaves cs bs' h2]
end

/-! ### the distance formula: when it has no value -/

theorem distOutcome_spec (d : DistIn) :
    (distOutcome d = .belowRandom ↔ d.num < 0) ∧
    (distOutcome d = .zeroDivision ↔ 0 ≤ d.num ∧ d.den = 0) ∧
    (distOutcome d = .infinite ↔ d.num = 0 ∧ d.den ≠ 0) ∧
    (distOutcome d = .notANumber ↔ 0 < d.num ∧ d.den < 0) ∧
    (distOutcome d = .negative ↔ 0 < d.den ∧ d.den < d.num) ∧
    (distOutcome d = .finite ↔ 0 < d.num ∧ d.num ≤ d.den) := by
  unfold distOutcome
  refine ⟨?_, ?_, ?_, ?_, ?_, ?_⟩ <;> (repeat' split) <;> simp <;> omega

/-- the formula has a value exactly when `S_max ≠ S_rand` and `S − S_rand`, `S_max − S_rand` have the same strict sign; for an
optimal score (`S ≤ S_max`) that is: `S > S_rand`.  The code returns a distance in exactly these cases when `S ≥ S_rand`. -/
theorem distDefined_iff (d : DistIn) (hle : d.num ≤ d.den) :
    (DistDefined d ↔ (0 < d.num ∨ d.den < 0)) ∧ (0 ≤ d.num → (DistDefined d ↔ distOutcome d = .finite)) := by
  constructor
  · unfold DistDefined; constructor
    · rintro ⟨_, h | h⟩ <;> omega
    · intro h; constructor <;> omega
  · intro h0
    rw [(distOutcome_spec d).2.2.2.2.2]
    unfold DistDefined
    constructor
    · rintro ⟨_, h | h⟩ <;> omega
    · intro h; exact ⟨by omega, Or.inl ⟨h.1, by omega⟩⟩

/-- without the hypothesis `S ≤ S_max` (matrices whose mismatches outscore matches): the distance would be negative or not a
number, and the call is refused in exactly these cases -/
theorem dist_rejects_beyond_max (d : DistIn) (h : d.den < d.num) (h0 : 0 < d.num) :
    distOutcome d ≠ .finite ∧ (0 < d.den → distOutcome d = .negative) ∧ (d.den < 0 → distOutcome d = .notANumber) := by
  have hs := distOutcome_spec d
  refine ⟨?_, ?_, ?_⟩
  · intro hf; have := hs.2.2.2.2.2.1 hf; omega
  · intro hd; exact hs.2.2.2.2.1.2 ⟨hd, h⟩
  · intro hd; exact hs.2.2.2.1.2 ⟨by omega, hd⟩

end BiotiteModel.C11

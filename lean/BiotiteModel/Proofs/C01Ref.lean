import BiotiteModel.Proofs.C01WF
import BiotiteModel.Model.C01Spec
/-! Refinement lemmas for C01: every container operation commutes with the abstraction `abs`. -/
namespace BiotiteModel.C01

/-! ## dict primitives commute with mapping the values -/

theorem mapVals_insert {α β} (f : α → β) (k : String) (v : α) : ∀ (d : List (String × α)),
    mapVals f (insert k v d) = insert k (f v) (mapVals f d)
  | [] => rfl
  | (k', v') :: r => by
    by_cases h : k' = k
    · simp [insert, mapVals, h]
    · have ih := mapVals_insert f k v r
      simp only [mapVals] at ih ⊢
      simp [insert, h, ih]

theorem lookup_mapVals {α β} (f : α → β) (k : String) : ∀ (d : List (String × α)),
    lookup k (mapVals f d) = (lookup k d).map f
  | [] => rfl
  | (k', v') :: r => by
    simp only [mapVals, List.map_cons, lookup]
    split
    · rfl
    · exact lookup_mapVals f k r

theorem hasKey_mapVals {α β} (f : α → β) (k : String) (d : List (String × α)) :
    hasKey k (mapVals f d) = hasKey k d := by
  simp [hasKey, mapVals, List.any_map, Function.comp_def]

theorem mapVals_mapVals {α β γ} (f : α → β) (g : β → γ) (d : List (String × α)) :
    mapVals g (mapVals f d) = mapVals (fun x => g (f x)) d := by
  simp [mapVals, List.map_map, Function.comp_def]

theorem mapVals_keys {α β} (f : α → β) (d : List (String × α)) : (mapVals f d).map (·.1) = d.map (·.1) := by
  simp [mapVals, List.map_map, Function.comp_def]

theorem mapVals_congr {α β} (f g : α → β) (d : List (String × α)) (h : ∀ p ∈ d, f p.2 = g p.2) :
    mapVals f d = mapVals g d := by
  simp only [mapVals]
  exact List.map_congr_left (fun p hp => by rw [h p hp])

/-! ## lists indexed by `range` -/

theorem getD_map_range {α} (f : Nat → α) (n i : Nat) (d : α) (h : i < n) : ((List.range n).map f).getD i d = f i := by
  rw [List.getD_eq_getElem?_getD, List.getElem?_eq_getElem (by simpa using h)]
  simp

theorem map_range_eq_map {α} (sel : List Nat) (f g : Nat → α) (h : ∀ k (hk : k < sel.length), f k = g sel[k]) :
    (List.range sel.length).map f = sel.map g := by
  apply List.ext_getElem
  · simp
  · intro k h1 h2
    simp only [List.getElem_map, List.getElem_range]
    exact h k (by simpa using h2)

theorem map_range_id {α} (l : List α) (d : α) : (List.range l.length).map (fun i => l.getD i d) = l := by
  apply List.ext_getElem
  · simp
  · intro k h1 h2
    simp only [List.getElem_map, List.getElem_range]
    rw [List.getD_eq_getElem?_getD, List.getElem?_eq_getElem h2]; rfl

theorem getD_map_getD (coord : List (List Tok)) (i m : Nat) :
    (coord.map (·.getD i 0)).getD m 0 = (coord.getD m []).getD i 0 := by
  simp only [List.getD_eq_getElem?_getD, List.getElem?_map]
  cases coord[m]? <;> simp

/-! ## the abstraction -/

@[simp] theorem abs_length (a : Arr) : (abs a).atoms.length = a.n := by simp [abs]
@[simp] theorem abs_depth (a : Arr) : (abs a).depth = a.coord.length := rfl
@[simp] theorem abs_stack (a : Arr) : (abs a).stack = a.stack := rfl
@[simp] theorem abs_boxes (a : Arr) : (abs a).boxes = a.box := rfl
@[simp] theorem abs_bonds (a : Arr) : (abs a).bonds = a.bonds.map (·.bs) := rfl

theorem abs_at (a : Arr) (i : Nat) (h : i < a.n) : (abs a).at i = row a i := by
  simp only [SArr.at, abs]
  exact getD_map_range _ _ _ _ h

theorem pick_getD (c : List Tok) (sel : List Nat) (k : Nat) (hk : k < sel.length) :
    (pick c sel).getD k 0 = c.getD sel[k] 0 := by
  simp only [pick, List.getD_eq_getElem?_getD, List.getElem?_map, List.getElem?_eq_getElem hk]
  rfl

/-- rows of the picked columns are the picked rows -/
theorem row_pick (a : Arr) (sel : List Nat) (n' : Nat) (bx bd) (k : Nat) (hk : k < sel.length) :
    row { stack := a.stack, n := n', annot := a.annot.map (fun p => (p.1, pick p.2 sel)),
          coord := a.coord.map (fun c => pick c sel), box := bx, bonds := bd } k = row a sel[k] := by
  simp only [row, mapVals, List.map_map, Function.comp_def, pick_getD _ _ _ hk]

/-! ## indexing -/

theorem abs_pick (a : Arr) (sel : List Nat) (bd : Option Bonds) (hsel : ∀ k ∈ sel, k < a.n) :
    abs { a with n := sel.length, annot := a.annot.map (fun p => (p.1, pick p.2 sel)),
                 coord := a.coord.map (fun c => pick c sel), bonds := bd } =
    { abs a with atoms := sel.map (abs a).at, bonds := bd.map (·.bs) } := by
  simp only [abs]
  congr 1
  · simp [mapVals, List.map_map, Function.comp_def]
  · exact map_range_eq_map sel _ _ (fun k hk => by
      rw [row_pick a sel _ _ _ k hk]
      exact (abs_at a _ (hsel _ (List.getElem_mem _))).symm)
  · simp

theorem Ssubarray_ref (a : Arr) (ix : Index) : Ssubarray (abs a) ix = (subarray a ix).map abs := by
  unfold Ssubarray subarray
  by_cases he : ix = .ellipsis
  · simp [he, Except.map]
  · simp only [he, if_false, abs_length]
    cases hr : resolve a.n ix with
    | error e => simp [Except.map]
    | ok sel =>
      simp only [abs_bonds]
      cases hb : a.bonds with
      | none =>
        simp only [Option.map_none, Except.map]
        rw [abs_pick a sel _ (resolve_lt hr)]
        simp [hb]
      | some b =>
        simp only [Option.map_some]
        cases hbe : bondsErr b.bs ix sel with
        | some e => simp [Except.map]
        | none =>
          simp only [Except.map]
          rw [abs_pick a sel _ (resolve_lt hr)]
          simp [hb, Bonds.select]

theorem SgetAtom_ref (a : Arr) (m k : Nat) (hk : k < a.n) : SgetAtom (abs a) m k = getAtom a m k := by
  simp only [SgetAtom, abs_at a k hk, row, getAtom, getD_map_getD]
  rfl

theorem SselModels_ref (a : Arr) (ms : List Nat) : SselModels (abs a) ms = abs (selModels a ms) := by
  simp only [SselModels, abs, selModels, List.map_map, List.length_map]
  congr 1
  apply List.map_congr_left
  intro i _
  simp only [Function.comp_def, row, List.map_map, getD_map_getD]

theorem SgetArray_ref (a : Arr) (i : Int) : SgetArray (abs a) i = (getArray a i).map abs := by
  unfold SgetArray getArray
  simp only [abs_depth]
  cases normInt a.coord.length i with
  | error e => rfl
  | ok m => simp only [Except.map, SselModels_ref]; rfl

theorem SarrayGet_ref (a : Arr) (ix : Index) : SarrayGet (abs a) ix = (arrayGet a ix).map absVal := by
  unfold SarrayGet arrayGet
  cases ix with
  | int i =>
    simp only [abs_length]
    cases hn : normInt a.n i with
    | error e => rfl
    | ok k => simp only [Except.map, SgetAtom_ref a 0 k (normInt_ok hn).1]; rfl
  | _ =>
    simp only [Ssubarray_ref]
    cases subarray a _ <;> rfl

theorem Sgetitem_ref (a : Arr) (ix : Index) : Sgetitem (abs a) ix = (getitem a ix).map absVal := by
  unfold Sgetitem getitem
  simp only [abs_stack, abs_depth]
  by_cases hs : a.stack = true
  case neg =>
    have hs' : a.stack = false := by simpa using hs
    simp only [hs', Bool.not_false, if_true]; exact SarrayGet_ref a ix
  case pos =>
    simp only [hs, Bool.not_true, Bool.false_eq_true, if_false]
    cases ix with
    | int i => simp only [SgetArray_ref]; cases getArray a i <;> rfl
    | _ =>
      simp only
      cases resolve a.coord.length _ with
      | error e => rfl
      | ok ms => simp only [Except.map, SselModels_ref]; rfl

theorem SsubarrayKeep_ref (a : Arr) (ix : Index) : SsubarrayKeep (abs a) ix = (subarrayKeep a ix).map abs := by
  unfold SsubarrayKeep subarrayKeep
  cases ix with
  | int i =>
    simp only [abs_length]
    cases normInt a.n i with
    | error e => rfl
    | ok k => simp only [Except.bind, Ssubarray_ref]
  | _ => simp only [Ssubarray_ref]

theorem Sgetitem2Rest_ref (a : Arr) (i0 i1 : Index) :
    Sgetitem2Rest (abs a) i0 i1 = (getitem2Rest a i0 i1).map absVal := by
  unfold Sgetitem2Rest getitem2Rest
  rw [SsubarrayKeep_ref]
  cases subarrayKeep a i1 with
  | error e => rfl
  | ok s =>
    simp only [Except.map, abs_depth]
    split
    · rfl
    · cases resolve s.coord.length i0 with
      | error e => rfl
      | ok ms => simp only [SselModels_ref]; rfl

theorem Sgetitem2_ref (a : Arr) (i0 i1 : Index) : Sgetitem2 (abs a) i0 i1 = (getitem2 a i0 i1).map absVal := by
  unfold Sgetitem2 getitem2
  simp only [abs_stack]
  by_cases hs : a.stack = true
  case neg =>
    have hs' : a.stack = false := by simpa using hs
    simp only [hs', Bool.not_false, if_true]
    split
    · exact SarrayGet_ref a i1
    · rfl
  case pos =>
    simp only [hs, Bool.not_true, Bool.false_eq_true, if_false]
    cases i0 with
    | int i =>
      simp only [SgetArray_ref]
      cases getArray a i with
      | error e => rfl
      | ok x => simp only [Except.map, Except.bind]; exact SarrayGet_ref x i1
    | _ => exact Sgetitem2Rest_ref a _ i1

theorem map_eraseIdx' {α β} (f : α → β) : ∀ (l : List α) (m : Nat), (l.eraseIdx m).map f = (l.map f).eraseIdx m
  | [], _ => rfl
  | _ :: xs, 0 => rfl
  | x :: xs, m + 1 => by simp [List.eraseIdx, map_eraseIdx' f xs m]

theorem keep_getElem (k n j : Nat) (h : j < (List.range k ++ List.range' (k + 1) (n - 1 - k)).length) :
    (List.range k ++ List.range' (k + 1) (n - 1 - k))[j] = if j < k then j else j + 1 := by
  by_cases hj : j < k
  · rw [List.getElem_append_left (by simpa using hj)]; simp [hj]
  · rw [List.getElem_append_right (by simpa using hj)]
    simp [hj]; omega

theorem eraseIdx_eq_map_keep {α} (l : List α) (d : α) (k : Nat) (hk : k < l.length) :
    l.eraseIdx k = (List.range k ++ List.range' (k + 1) (l.length - 1 - k)).map (fun i => l.getD i d) := by
  apply List.ext_getElem
  · simp [List.length_eraseIdx, hk]; omega
  · intro j h1 h2
    rw [List.getElem_eraseIdx]
    simp only [List.getElem_map, keep_getElem]
    have hlen : j < l.length - 1 := by simpa [List.length_eraseIdx, hk] using h1
    by_cases hj : j < k
    · simp only [hj, dite_true, if_true]
      rw [List.getD_eq_getElem?_getD, List.getElem?_eq_getElem (by omega)]; rfl
    · simp only [hj, dite_false, if_false]
      rw [List.getD_eq_getElem?_getD, List.getElem?_eq_getElem (by omega)]; rfl

/-! ## deletion -/

theorem keep_lt (k n : Nat) (hk : k < n) : ∀ i ∈ List.range k ++ List.range' (k + 1) (n - 1 - k), i < n := by
  intro i hi
  simp only [List.mem_append, List.mem_range, List.mem_range'_1] at hi
  omega

theorem Sdelitem_ref (a : Arr) (ix : Index) (hw : WF a) : Sdelitem (abs a) ix = (delitem a ix).map abs := by
  unfold Sdelitem delitem
  cases ix with
  | int i =>
    simp only [abs_stack, abs_depth, abs_length]
    by_cases hs : a.stack = true
    · simp only [hs, if_true]
      cases hn : normInt a.coord.length i with
      | error e => rfl
      | ok m =>
        simp only [Except.map]
        congr 1
        simp only [abs]
        congr 1
        · rw [List.map_map]; apply List.map_congr_left; intro j _; simp [row, map_eraseIdx']
        · simp [List.length_eraseIdx, (normInt_ok hn).1]
    · have hs' : a.stack = false := by simpa using hs
      simp only [hs', Bool.false_eq_true, if_false]
      cases hn : normInt a.n i with
      | error e => rfl
      | ok k =>
        have hk := (normInt_ok hn).1
        have hcols : a.annot.map (fun p => (p.1, p.2.eraseIdx k)) =
            a.annot.map (fun p => (p.1, pick p.2 (List.range k ++ List.range' (k + 1) (a.n - 1 - k)))) := by
          apply List.map_congr_left
          intro p hp
          rw [eraseIdx_eq_map_keep p.2 0 k (by rw [hw.cols p hp]; exact hk), hw.cols p hp]; rfl
        have hcoord : a.coord.map (fun c => c.eraseIdx k) =
            a.coord.map (fun c => pick c (List.range k ++ List.range' (k + 1) (a.n - 1 - k))) := by
          apply List.map_congr_left
          intro c hc
          rw [eraseIdx_eq_map_keep c 0 k (by rw [hw.blocks c hc]; exact hk), hw.blocks c hc]; rfl
        have hlen : (List.range k ++ List.range' (k + 1) (a.n - 1 - k)).length = a.n - 1 := by simp; omega
        have h1 := abs_pick a _ (a.bonds.map (·.select (List.range k ++ List.range' (k + 1) (a.n - 1 - k))))
          (keep_lt k a.n hk)
        simp only [hlen, hs'] at h1
        simp only [Except.map, hcols, hcoord, h1]
        have := eraseIdx_eq_map_keep (abs a).atoms dflt k (by simpa using hk)
        simp only [abs_length] at this
        simp only [this, SArr.at, abs_bonds, Option.map_map, Function.comp_def, Bonds.select, abs_stack, hs']
        rfl
  | _ => rfl


/-! ## position-wise construction of the abstraction -/

/-- to show that `abs a'` is a spec container whose atoms are given position by position -/
theorem abs_eq_of_rows (a' : Arr) (st : Bool) (names) (G : Nat → SAtom) (n dp : Nat) (bx bd)
    (hst : a'.stack = st) (hn : a'.n = n) (hnames : mapVals (fun _ => ()) a'.annot = names)
    (hrows : ∀ i, i < n → row a' i = G i) (hdp : a'.coord.length = dp) (hbx : a'.box = bx)
    (hbd : a'.bonds.map (·.bs) = bd) :
    abs a' = ⟨st, names, (List.range n).map G, dp, bx, bd⟩ := by
  subst hst hn hnames hdp hbx hbd
  simp only [abs]
  congr 1
  apply List.map_congr_left
  intro i hi
  exact hrows i (by simpa using hi)

theorem names_all (a : Arr) (q : String → Bool) : (abs a).names.all (fun p => q p.1) = a.annot.all (fun p => q p.1) := by
  simp [abs, mapVals, List.all_map, Function.comp_def]

theorem names_map (a : Arr) (f : α → β) (h : ∀ p ∈ a.annot, True) :
    mapVals (fun _ => ()) (a.annot.map (fun p => (p.1, p.2))) = (abs a).names := by
  simp [abs, mapVals]

/-! ## element assignment -/

theorem setAt_getD (xs : List Tok) (sel : List Nat) (v : Tok) (i : Nat) (h : i < xs.length) :
    (setAt xs sel v).getD i 0 = if sel.contains i then v else xs.getD i 0 := by
  simp only [setAt]
  rw [getD_map_range _ _ _ _ h]

theorem SsetElement_ref (a : Arr) (ix : Index) (v : AtomV) (hw : WF a) :
    SsetElement (abs a) ix v = (setElement a ix v).map abs := by
  unfold SsetElement setElement
  simp only [abs_length, names_all a (fun k => hasKey k v.annot)]
  split
  · rfl
  · split
    · rfl
    · cases hr : resolve a.n ix with
      | error e => rfl
      | ok sel =>
        simp only [Except.map]
        congr 1
        symm
        refine abs_eq_of_rows _ _ _ _ _ _ _ _ ?h1 ?h2 ?hnm ?hr ?h5 ?h6 ?h7 <;> try rfl
        case hnm => simp [abs, mapVals, List.map_map, Function.comp_def]
        case h5 => simp
        case hr =>
          intro i hi
          rw [abs_at a i hi]
          have hc : ∀ p ∈ a.annot, (setAt p.2 sel ((lookup p.1 v.annot).getD 0)).getD i 0 =
              if sel.contains i then (lookup p.1 v.annot).getD 0 else p.2.getD i 0 :=
            fun p hp => setAt_getD _ _ _ _ (by rw [hw.cols p hp]; exact hi)
          have hb : ∀ c ∈ a.coord, (setAt c sel v.coord).getD i 0 = if sel.contains i then v.coord else c.getD i 0 :=
            fun c hc => setAt_getD _ _ _ _ (by rw [hw.blocks c hc]; exact hi)
          simp only [row, mapVals, List.map_map, Function.comp_def]
          rw [List.map_congr_left (fun p hp => by rw [hc p hp]), List.map_congr_left (fun c hc' => hb c hc')]
          by_cases hs : i ∈ sel <;> simp [hs]

/-! ## annotation edits, setters, templates -/

theorem SaddAnnotation_ref (a : Arr) (k : String) : SaddAnnotation (abs a) k = abs (addAnnotation a k) := by
  unfold SaddAnnotation addAnnotation
  have hk : hasKey k (abs a).names = hasKey k a.annot := by simp [abs, hasKey_mapVals]
  rw [hk]
  split
  · rfl
  · simp only [abs, mapVals, List.map_append, List.map_map, List.map_cons, List.map_nil]
    congr 1
    apply List.map_congr_left
    intro i hmem
    have hi : i < a.n := by simpa using hmem
    simp [row, mapVals, zeros, Function.comp_def, List.getElem?_replicate, hi]

theorem SsetAnnotation_ref (a : Arr) (k : String) (c : List Tok) :
    SsetAnnotation (abs a) k c = (setAnnotation a k c).map abs := by
  unfold SsetAnnotation setAnnotation
  simp only [abs_length]
  split
  · rfl
  · simp only [Except.map]
    congr 1
    symm
    refine abs_eq_of_rows _ _ _ _ _ _ _ _ ?h1 ?h2 ?hnm ?hr ?h5 ?h6 ?h7 <;> try rfl
    case hnm => simp only [mapVals_insert]; rfl
    case hr =>
      intro i hi
      rw [abs_at a i hi]
      simp only [row, mapVals_insert]

theorem mapVals_filterKey {α β} (f : α → β) (q : String → Bool) (d : List (String × α)) :
    mapVals f (d.filter (fun p => q p.1)) = (mapVals f d).filter (fun p => q p.1) := by
  simp [mapVals, List.filter_map, Function.comp_def]

theorem SdelAnnotation_ref (a : Arr) (k : String) : SdelAnnotation (abs a) k = (delAnnotation a k).map abs := by
  unfold SdelAnnotation delAnnotation
  split
  · rfl
  · simp only [Except.map]
    congr 1
    simp only [abs, List.map_map]
    congr 1
    · exact (mapVals_filterKey _ (fun x => x != k) _).symm
    · apply List.map_congr_left
      intro i _
      simp only [Function.comp_def, row]
      congr 1
      exact (mapVals_filterKey _ (fun x => x != k) _).symm

theorem all_len_abs (a : Arr) (coord : List (List Tok)) :
    coord.all (fun c => c.length == (abs a).atoms.length) = coord.all (fun c => c.length == a.n) := by simp

theorem SsetCoord_ref (a : Arr) (coord : List (List Tok)) : SsetCoord (abs a) coord = (setCoord a coord).map abs := by
  unfold SsetCoord setCoord
  simp only [abs_length, abs_stack, abs_boxes, abs_depth]
  split
  · rfl
  · split
    · rfl
    · split
      · rfl
      · simp only [Except.map]
        congr 1
        symm
        refine abs_eq_of_rows _ _ _ _ _ _ _ _ ?h1 ?h2 ?hnm ?hr ?h5 ?h6 ?h7 <;> try rfl
        case hr =>
          intro i hi
          rw [abs_at a i hi]
          simp [row]

theorem SsetBox_ref (a : Arr) (box : Option (List Tok)) : SsetBox (abs a) box = (setBox a box).map abs := by
  unfold SsetBox setBox
  simp only [abs_depth]
  by_cases h : boxDepthBad box a.coord.length = true
  · simp only [h, if_true]; rfl
  · simp only [h, if_false]; rfl

theorem SsetBonds_ref (a : Arr) (bs : Option (List Bond)) : SsetBonds (abs a) bs = (setBonds a bs).map abs := by
  unfold SsetBonds setBonds
  cases bs with
  | none => rfl
  | some l =>
    simp only [abs_length]
    by_cases h : bondsValid a.n l = true
    · simp only [h, if_true]; rfl
    · simp only [h, if_false]; rfl

theorem SfromTemplate_ref (a : Arr) (coord : List (List Tok)) (box : Option (List Tok)) :
    SfromTemplate (abs a) coord box = (fromTemplate a coord box).map abs := by
  unfold SfromTemplate fromTemplate
  simp only [abs_length]
  split
  · rfl
  · split
    · rfl
    · simp only [Except.map]
      congr 1
      symm
      refine abs_eq_of_rows _ _ _ _ _ _ _ _ ?h1 ?h2 ?hnm ?hr ?h5 ?h6 ?h7 <;> try rfl
      case hr =>
        intro i hi
        rw [abs_at a i hi]
        simp [row]


/-! ## constructors: `new`, `array`, `repeat` -/

theorem mapVals_foldl_insert {α β} (f : α → β) : ∀ (cols : List (String × α)) (base : List (String × α)),
    mapVals f (cols.foldl (fun d p => insert p.1 p.2 d) base) =
      cols.foldl (fun d p => insert p.1 (f p.2) d) (mapVals f base)
  | [], _ => rfl
  | c :: cs, base => by
    simp only [List.foldl_cons]
    rw [mapVals_foldl_insert f cs, mapVals_insert]

theorem mandCols_hdr (n : Nat) : mapVals (fun _ => ()) (mandCols n) = mandHdr := by
  simp [mandCols, mandHdr, mapVals, List.map_map, Function.comp_def]

theorem mandCols_row (n i : Nat) : mapVals (fun (c : List Tok) => c.getD i 0) (mandCols n) = mandRow := by
  simp only [mandCols, mandRow, mapVals, List.map_map, Function.comp_def, zeros]
  apply List.map_congr_left
  intro k _
  simp only [List.getD_eq_getElem?_getD, List.getElem?_replicate]
  split <;> rfl

theorem SmkNew_ref (stack : Bool) (n : Nat) (cols coord box bonds) :
    SmkNew stack n cols coord box bonds = (mkNew stack n cols coord box bonds).map abs := by
  unfold SmkNew mkNew
  split
  · rfl
  · split
    · rfl
    · split
      · rfl
      · split
        · rfl
        · simp only [Except.map]
          congr 1
          symm
          refine abs_eq_of_rows _ _ _ _ _ _ _ _ ?h1 ?h2 ?hnm ?hr ?h5 ?h6 ?h7 <;> try rfl
          case hnm => simp only [mapVals_foldl_insert, mandCols_hdr]
          case hr =>
            intro i _
            simp only [row, mapVals_foldl_insert, mandCols_row]
          case h7 => cases bonds <;> rfl

theorem map_range_eq_map' {α β} (l : List α) (f : Nat → β) (g : α → β) (h : ∀ k (hk : k < l.length), f k = g l[k]) :
    (List.range l.length).map f = l.map g := by
  apply List.ext_getElem
  · simp
  · intro k h1 h2
    simp only [List.getElem_map, List.getElem_range]
    exact h k (by simpa using h2)

theorem getD_map_lt {α} (l : List α) (h : α → Tok) (k : Nat) (hk : k < l.length) :
    (l.map h).getD k 0 = h l[k] := by
  simp [List.getD_eq_getElem?_getD, List.getElem?_map, List.getElem?_eq_getElem hk]

theorem SarrayOf_ref (xs : List AtomV) : SarrayOf xs = (arrayOf xs).map abs := by
  unfold SarrayOf arrayOf
  cases xs with
  | nil => rfl
  | cons f t =>
    simp only
    generalize f :: t = xs
    split
    · rfl
    · simp only [Except.map]
      congr 1
      symm
      simp only [abs]
      congr 1
      · rw [mapVals_foldl_insert, mandCols_hdr, List.foldl_map, List.foldl_map]
      · refine map_range_eq_map' xs _ _ (fun k hk => ?_)
        simp only [row, restrictRow]
        rw [mapVals_foldl_insert, mandCols_row, List.foldl_map, List.foldl_map]
        simp only [getD_map_lt _ _ _ hk, List.map_cons, List.map_nil]


/-! ## repetition -/

theorem tile_succ (k : Nat) (c : List Tok) : tile (k + 1) c = c ++ tile k c := by
  simp [tile, joinCols, List.replicate_succ]

theorem tile_getD (c : List Tok) : ∀ (k t : Nat), t < k * c.length → (tile k c).getD t 0 = c.getD (t % c.length) 0
  | 0, t, h => by simp at h
  | k + 1, t, h => by
    rw [tile_succ]
    simp only [List.getD_eq_getElem?_getD]
    by_cases ht : t < c.length
    · rw [List.getElem?_append_left ht, Nat.mod_eq_of_lt ht]
    · have hge : c.length ≤ t := Nat.le_of_not_lt ht
      rw [List.getElem?_append_right hge]
      have h' : t - c.length < k * c.length := by rw [Nat.add_mul] at h; omega
      have ih := tile_getD c k (t - c.length) h'
      simp only [List.getD_eq_getElem?_getD] at ih
      rw [ih]
      have : (t - c.length) % c.length = t % c.length := by
        conv => rhs; rw [← Nat.sub_add_cancel hge]
        rw [Nat.add_mod_right]
      rw [this]

theorem chunks_getD (size : Nat) : ∀ (cnt : Nat) (xs : List Tok) (m t : Nat), m < cnt → t < size →
    ((chunks size cnt xs).getD m []).getD t 0 = xs.getD (m * size + t) 0
  | 0, _, _, _, h, _ => by omega
  | c + 1, xs, 0, t, _, ht => by
    simp only [chunks, List.getD_eq_getElem?_getD, List.getElem?_cons_zero, Option.getD_some, Nat.zero_mul, Nat.zero_add]
    rw [List.getElem?_take_of_lt ht]
  | c + 1, xs, m + 1, t, hm, ht => by
    have ih := chunks_getD size c (xs.drop size) m t (by omega) ht
    simp only [chunks, List.getD_eq_getElem?_getD, List.getElem?_cons_succ] at ih ⊢
    rw [ih, List.getElem?_drop]
    congr 2
    rw [Nat.add_mul]; omega

theorem bondsJoin_concat : ∀ (l : List Bonds),
    bondsJoin (l.map (fun b => (b.count, b.bs))) = ((Bonds.concat l).count, (Bonds.concat l).bs)
  | [] => rfl
  | b :: r => by simp [bondsJoin, Bonds.concat, bondsJoin_concat r]

theorem SrepeatArr_ref (a : Arr) (k : Nat) (toks : List Tok) (hw : WF a) :
    SrepeatArr (abs a) k toks = (repeatArr a k toks).map abs := by
  unfold SrepeatArr repeatArr
  simp only [abs_length, abs_depth, abs_bonds]
  by_cases hlen : toks.length ≠ k * a.coord.length * a.n
  · simp only [if_pos hlen]; rfl
  · simp only [if_neg hlen]
    have hcnt : ∀ b, a.bonds = some b →
        (Bonds.concat (List.replicate (max k 1) b)).count = a.n * max k 1 := by
      intro b hb
      rw [concat_count]
      have hc := (hw.bonds b hb).1
      generalize max k 1 = j
      induction j with
      | zero => simp
      | succ j ih => simp only [List.replicate_succ, List.map_cons, List.foldr_cons, ih, hc]; rw [Nat.mul_succ]; omega
    have hguard : (Option.isSome (a.bonds.map (·.bs)) && a.n * max k 1 != a.n * k) =
        bondsCountBad (a.bonds.map (fun b => Bonds.concat (List.replicate (max k 1) b))) (a.n * k) := by
      cases hb : a.bonds with
      | none => rfl
      | some b => simp [bondsCountBad, hcnt b hb]
    rw [hguard]
    split
    · rfl
    · simp only [Except.map]
      congr 1
      symm
      refine abs_eq_of_rows _ _ _ _ _ _ _ _ ?h1 ?h2 ?hnm ?hr ?h5 ?h6 ?h7 <;> try rfl
      case hnm => simp [abs, mapVals, List.map_map, Function.comp_def]
      case h5 => simp [repCoord]
      case h7 =>
        cases hb : a.bonds with
        | none => rfl
        | some b =>
          simp only [Option.map_some]
          have := bondsJoin_concat (List.replicate (max k 1) b)
          simp only [List.map_replicate] at this
          rw [(hw.bonds b hb).1] at this
          rw [this]
      case hr =>
        intro t ht
        have hn : 0 < a.n := by
          rcases Nat.eq_zero_or_pos a.n with h0 | h0
          · rw [h0] at ht; simp at ht
          · exact h0
        have hmod : t % a.n < a.n := Nat.mod_lt _ hn
        rw [abs_at a _ hmod]
        simp only [row, mapVals, List.map_map, Function.comp_def]
        congr 1
        · apply List.map_congr_left
          intro p hp
          have hl := hw.cols p hp
          have := tile_getD p.2 k t (by rw [hl, Nat.mul_comm]; exact ht)
          rw [hl] at this
          rw [this]
        · simp only [repCoord, List.map_map, Function.comp_def]
          apply List.map_congr_left
          intro m _
          exact getD_map_range _ _ _ _ ht

/-! ## equality of annotations / bonds, model assignment, stacking -/

theorem hasKey_iff_lookup {α} (k : String) : ∀ (d : List (String × α)), hasKey k d = true ↔ ∃ v, lookup k d = some v
  | [] => by simp [hasKey, lookup]
  | (k', v') :: r => by
    have ih := hasKey_iff_lookup k r
    simp only [hasKey, List.any_cons, Bool.or_eq_true, beq_iff_eq] at ih ⊢
    unfold lookup
    by_cases h : k' = k
    · simp [h]
    · simp only [h, false_or, if_false]; exact ih

theorem SequalAnnot_ref (a x : Arr) (hwa : WF a) (hwx : WF x) (hn : x.n = a.n) :
    SequalAnnot (abs a) (abs x) = equalAnnot a.annot x.annot := by
  unfold SequalAnnot equalAnnot sortedKeys
  have hk1 : (abs a).names.map (·.1) = a.annot.map (·.1) := by simp [abs, mapVals_keys]
  have hk2 : (abs x).names.map (·.1) = x.annot.map (·.1) := by simp [abs, mapVals_keys]
  rw [hk1, hk2, Bool.and_assoc]
  congr 1
  rw [Bool.eq_iff_iff]
  simp only [Bool.and_eq_true, List.all_eq_true, List.mem_range, abs_length, beq_iff_eq]
  constructor
  · rintro ⟨hkeys, hrows⟩ p hp
    have hk : hasKey p.1 x.annot = true := by
      have := hkeys (p.1, ()) (by simp only [abs, mapVals, List.mem_map]; exact ⟨p, hp, rfl⟩)
      simpa [abs, hasKey_mapVals] using this
    obtain ⟨c, hc⟩ := (hasKey_iff_lookup p.1 x.annot).1 hk
    rw [hc]
    congr 1
    have hlc : c.length = a.n := by rw [← hn]; exact hwx.cols _ (lookup_mem hc)
    have hlp : p.2.length = a.n := hwa.cols p hp
    apply List.ext_getElem (by rw [hlc, hlp])
    intro i h1 h2
    have hi : i < a.n := by rw [← hlc]; exact h1
    have := hrows i hi (p.1, p.2.getD i 0) (by
      rw [abs_at a i hi]; simp only [row, mapVals, List.mem_map]; exact ⟨p, hp, rfl⟩)
    rw [abs_at x i (by rw [hn]; exact hi)] at this
    simp only [row, lookup_mapVals, hc, Option.map_some, Option.some.injEq] at this
    simpa [List.getD_eq_getElem?_getD, List.getElem?_eq_getElem h1, List.getElem?_eq_getElem h2] using this
  · intro h
    refine ⟨?_, ?_⟩
    · intro q hq
      simp only [abs, mapVals, List.mem_map] at hq
      obtain ⟨p, hp, rfl⟩ := hq
      have : hasKey p.1 x.annot = true := (hasKey_iff_lookup _ _).2 ⟨_, h p hp⟩
      simpa [abs, hasKey_mapVals] using this
    · intro i hi q hq
      rw [abs_at a i hi] at hq
      rw [abs_at x i (by rw [hn]; exact hi)]
      simp only [row, mapVals, List.mem_map] at hq
      obtain ⟨p, hp, rfl⟩ := hq
      simp only [row, lookup_mapVals, h p hp, Option.map_some]

theorem SequalBonds_ref (a x : Arr) (hwa : WF a) (hwx : WF x) :
    SequalBonds (abs a) (abs x) = equalBonds a.bonds x.bonds := by
  unfold SequalBonds equalBonds
  simp only [abs_bonds, abs_length]
  cases ha : a.bonds with
  | none => cases hx : x.bonds <;> rfl
  | some b =>
    cases hx : x.bonds with
    | none => rfl
    | some c =>
      simp only [Option.map_some, (hwa.bonds b ha).1, (hwx.bonds c hx).1]

theorem map_set {α β} (f : α → β) (l : List α) (m : Nat) (v : α) : (l.set m v).map f = (l.map f).set m (f v) := by
  induction l generalizing m with
  | nil => rfl
  | cons x xs ih => cases m <;> simp [List.set, ih]

theorem SsetModel_ref (a : Arr) (ix : Index) (v : Val) (hw : WF a) (hv : WFVal v) :
    SsetModel (abs a) ix (absVal v) = (setModel a ix v).map abs := by
  unfold SsetModel setModel
  cases v with
  | none => rfl
  | atom t => rfl
  | arr x =>
    have hx : WF x := hv
    simp only [absVal, abs_stack, abs_length, abs_depth, abs_boxes]
    by_cases h1 : x.stack = true
    · simp only [h1, if_true]; rfl
    · simp only [h1, Bool.false_eq_true, if_false]
      by_cases h2 : (x.n != a.n) = true
      · simp only [h2, if_true]; rfl
      · simp only [h2, Bool.false_eq_true, if_false]
        have hn : x.n = a.n := by simpa using h2
        rw [SequalAnnot_ref a x hw hx hn, SequalBonds_ref a x hw hx]
        by_cases h3 : (!equalAnnot a.annot x.annot) = true
        · simp only [h3, if_true]; rfl
        · simp only [h3, Bool.false_eq_true, if_false]
          by_cases h4 : (!equalBonds a.bonds x.bonds) = true
          · simp only [h4, if_true]; rfl
          · simp only [h4, Bool.false_eq_true, if_false]
            cases ix with
            | int i =>
              simp only
              by_cases h5 : (a.box.isSome && !x.box.isSome) = true
              · simp only [h5, if_true]; rfl
              · simp only [h5, Bool.false_eq_true, if_false]
                cases hm : normInt a.coord.length i with
                | error e => rfl
                | ok m =>
                  simp only [Except.map]
                  congr 1
                  symm
                  refine abs_eq_of_rows _ _ _ _ _ _ _ _ ?h1 ?h2 ?hnm ?hr ?h5 ?h6 ?h7 <;> try rfl
                  case h5 => simp [replaceAt]
                  case hr =>
                    intro j hj
                    rw [abs_at a j hj, abs_at x j (by rw [hn]; exact hj)]
                    simp only [row, replaceAt, map_set, getD_map_getD]
            | _ => rfl

theorem Ssetitem_ref (a : Arr) (ix : Index) (v : Val) (hw : WF a) (hv : WFVal v) :
    Ssetitem (abs a) ix (absVal v) = (setitem a ix v).map abs := by
  unfold Ssetitem setitem
  simp only [abs_stack]
  by_cases hs : a.stack = true
  · simp only [hs, if_true]; exact SsetModel_ref a ix v hw hv
  · simp only [hs, Bool.false_eq_true, if_false]
    cases v with
    | atom t => exact SsetElement_ref a ix t hw
    | _ => rfl

theorem all_congr_mem {α} (l : List α) (p q : α → Bool) (h : ∀ a ∈ l, p a = q a) : l.all p = l.all q := by
  rw [Bool.eq_iff_iff]
  simp only [List.all_eq_true]
  constructor
  · intro hp a ha; rw [← h a ha]; exact hp a ha
  · intro hq a ha; rw [h a ha]; exact hq a ha

theorem SstackArrays_ref (xs : List Arr) (hw : ∀ a ∈ xs, WF a) :
    SstackArrays (xs.map abs) = (stackArrays xs).map abs := by
  unfold SstackArrays stackArrays
  rw [List.head?_map]
  cases hh : xs.head? with
  | none => rfl
  | some f =>
    have hf : f ∈ xs := head?_mem hh
    simp only [Option.map_some, List.any_map, List.all_map, Function.comp_def, abs_stack, abs_length, abs_boxes]
    by_cases h1 : (xs.any fun x => x.stack) = true
    · simp only [h1, if_true]; rfl
    · simp only [h1, Bool.false_eq_true, if_false]
      by_cases h2 : (!(xs.all fun a => a.n == f.n)) = true
      · simp only [h2, if_true]; rfl
      · simp only [h2, Bool.false_eq_true, if_false]
        have hall : ∀ a ∈ xs, a.n = f.n := by
          intro a ha
          have : (xs.all fun a => a.n == f.n) = true := by simpa using h2
          simpa using List.all_eq_true.1 this a ha
        have hE : (xs.all fun x => SequalAnnot (abs x) (abs f)) = xs.all fun a => equalAnnot a.annot f.annot :=
          all_congr_mem _ _ _ (fun a ha => SequalAnnot_ref a f (hw a ha) (hw f hf) (hall a ha).symm)
        rw [hE]
        by_cases h3 : (!(xs.all fun a => equalAnnot a.annot f.annot)) = true
        · simp only [h3, if_true]; rfl
        · simp only [h3, Bool.false_eq_true, if_false, Except.map]
          congr 1
          symm
          refine abs_eq_of_rows _ _ _ _ _ _ _ _ ?h1 ?h2 ?hnm ?hr ?h5 ?h6 ?h7 <;> try rfl
          case h5 => simp
          case h6 => simp only [List.map_map, Function.comp_def, abs_boxes]
          case hr =>
            intro i hi
            rw [abs_at f i hi]
            simp only [row, List.map_map, Function.comp_def]
            congr 1
            apply List.map_congr_left
            intro a ha
            rw [abs_at a i (by rw [hall a ha]; exact hi)]
            simp only [row, getD_map_getD]

end BiotiteModel.C01

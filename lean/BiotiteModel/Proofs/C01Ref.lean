import BiotiteModel.Proofs.C01WF
import BiotiteModel.Model.C01Spec
/-! Refinement lemmas for C01: every container operation commutes with the abstraction `abs`. -/
namespace BiotiteModel.C01

/-! ## dict primitives commute with mapping the values -/

theorem mapVals_insert {α β} (f : α → β) (k : String) (v : α) : ∀ (d : List (String × α)),
    mapVals f (insert k v d) = insert k (f v) (mapVals f d)
  | [] => rfl
  | (k', v') :: r => by
    by_cases h : k' = k
    · simp [insert, mapVals, h]
    · have ih := mapVals_insert f k v r
      simp only [mapVals] at ih ⊢
      simp [insert, h, ih]

theorem lookup_mapVals {α β} (f : α → β) (k : String) : ∀ (d : List (String × α)),
    lookup k (mapVals f d) = (lookup k d).map f
  | [] => rfl
  | (k', v') :: r => by
    simp only [mapVals, List.map_cons, lookup]
    split
    · rfl
    · exact lookup_mapVals f k r

theorem hasKey_mapVals {α β} (f : α → β) (k : String) (d : List (String × α)) :
    hasKey k (mapVals f d) = hasKey k d := by
  simp [hasKey, mapVals, List.any_map, Function.comp_def]

theorem mapVals_mapVals {α β γ} (f : α → β) (g : β → γ) (d : List (String × α)) :
    mapVals g (mapVals f d) = mapVals (fun x => g (f x)) d := by
  simp [mapVals, List.map_map, Function.comp_def]

theorem mapVals_keys {α β} (f : α → β) (d : List (String × α)) : (mapVals f d).map (·.1) = d.map (·.1) := by
  simp [mapVals, List.map_map, Function.comp_def]

theorem mapVals_congr {α β} (f g : α → β) (d : List (String × α)) (h : ∀ p ∈ d, f p.2 = g p.2) :
    mapVals f d = mapVals g d := by
  simp only [mapVals]
  exact List.map_congr_left (fun p hp => by rw [h p hp])

/-! ## lists indexed by `range` -/

theorem getD_map_range {α} (f : Nat → α) (n i : Nat) (d : α) (h : i < n) : ((List.range n).map f).getD i d = f i := by
  rw [List.getD_eq_getElem?_getD, List.getElem?_eq_getElem (by simpa using h)]
  simp

theorem map_range_eq_map {α} (sel : List Nat) (f g : Nat → α) (h : ∀ k (hk : k < sel.length), f k = g sel[k]) :
    (List.range sel.length).map f = sel.map g := by
  apply List.ext_getElem
  · simp
  · intro k h1 h2
    simp only [List.getElem_map, List.getElem_range]
    exact h k (by simpa using h2)

theorem map_range_id {α} (l : List α) (d : α) : (List.range l.length).map (fun i => l.getD i d) = l := by
  apply List.ext_getElem
  · simp
  · intro k h1 h2
    simp only [List.getElem_map, List.getElem_range]
    rw [List.getD_eq_getElem?_getD, List.getElem?_eq_getElem h2]; rfl

theorem getD_map_getD (coord : List (List Tok)) (i m : Nat) :
    (coord.map (·.getD i 0)).getD m 0 = (coord.getD m []).getD i 0 := by
  simp only [List.getD_eq_getElem?_getD, List.getElem?_map]
  cases coord[m]? <;> simp

/-! ## the abstraction -/

@[simp] theorem abs_length (a : Arr) : (abs a).atoms.length = a.n := by simp [abs]
@[simp] theorem abs_depth (a : Arr) : (abs a).depth = a.coord.length := rfl
@[simp] theorem abs_stack (a : Arr) : (abs a).stack = a.stack := rfl
@[simp] theorem abs_boxes (a : Arr) : (abs a).boxes = a.box := rfl
@[simp] theorem abs_bonds (a : Arr) : (abs a).bonds = a.bonds.map (·.bs) := rfl

theorem abs_at (a : Arr) (i : Nat) (h : i < a.n) : (abs a).at i = row a i := by
  simp only [SArr.at, abs]
  exact getD_map_range _ _ _ _ h

theorem pick_getD (c : List Tok) (sel : List Nat) (k : Nat) (hk : k < sel.length) :
    (pick c sel).getD k 0 = c.getD sel[k] 0 := by
  simp only [pick, List.getD_eq_getElem?_getD, List.getElem?_map, List.getElem?_eq_getElem hk]
  rfl

/-- rows of the picked columns are the picked rows -/
theorem row_pick (a : Arr) (sel : List Nat) (n' : Nat) (bx bd) (k : Nat) (hk : k < sel.length) :
    row { stack := a.stack, n := n', annot := a.annot.map (fun p => (p.1, pick p.2 sel)),
          coord := a.coord.map (fun c => pick c sel), box := bx, bonds := bd } k = row a sel[k] := by
  simp only [row, mapVals, List.map_map, Function.comp_def, pick_getD _ _ _ hk]

/-! ## indexing -/

theorem abs_pick (a : Arr) (sel : List Nat) (bd : Option Bonds) (hsel : ∀ k ∈ sel, k < a.n) :
    abs { a with n := sel.length, annot := a.annot.map (fun p => (p.1, pick p.2 sel)),
                 coord := a.coord.map (fun c => pick c sel), bonds := bd } =
    { abs a with atoms := sel.map (abs a).at, bonds := bd.map (·.bs) } := by
  simp only [abs]
  congr 1
  · simp [mapVals, List.map_map, Function.comp_def]
  · exact map_range_eq_map sel _ _ (fun k hk => by
      rw [row_pick a sel _ _ _ k hk]
      exact (abs_at a _ (hsel _ (List.getElem_mem _))).symm)
  · simp

theorem Ssubarray_ref (a : Arr) (ix : Index) : Ssubarray (abs a) ix = (subarray a ix).map abs := by
  unfold Ssubarray subarray
  by_cases he : ix = .ellipsis
  · simp [he, Except.map]
  · simp only [he, if_false, abs_length]
    cases hr : resolve a.n ix with
    | error e => simp [Except.map]
    | ok sel =>
      simp only [abs_bonds]
      cases hb : a.bonds with
      | none =>
        simp only [Option.map_none, Except.map]
        rw [abs_pick a sel _ (resolve_lt hr)]
        simp [hb]
      | some b =>
        simp only [Option.map_some]
        cases hbe : bondsErr b.bs ix sel with
        | some e => simp [Except.map]
        | none =>
          simp only [Except.map]
          rw [abs_pick a sel _ (resolve_lt hr)]
          simp [hb, Bonds.select]

theorem SgetAtom_ref (a : Arr) (m k : Nat) (hk : k < a.n) : SgetAtom (abs a) m k = getAtom a m k := by
  simp only [SgetAtom, abs_at a k hk, row, getAtom, getD_map_getD]
  rfl

theorem SselModels_ref (a : Arr) (ms : List Nat) : SselModels (abs a) ms = abs (selModels a ms) := by
  simp only [SselModels, abs, selModels, List.map_map, List.length_map]
  congr 1
  apply List.map_congr_left
  intro i _
  simp only [Function.comp_def, row, List.map_map, getD_map_getD]

theorem SgetArray_ref (a : Arr) (i : Int) : SgetArray (abs a) i = (getArray a i).map abs := by
  unfold SgetArray getArray
  simp only [abs_depth]
  cases normInt a.coord.length i with
  | error e => rfl
  | ok m => simp only [Except.map, SselModels_ref]; rfl

theorem SarrayGet_ref (a : Arr) (ix : Index) : SarrayGet (abs a) ix = (arrayGet a ix).map absVal := by
  unfold SarrayGet arrayGet
  cases ix with
  | int i =>
    simp only [abs_length]
    cases hn : normInt a.n i with
    | error e => rfl
    | ok k => simp only [Except.map, SgetAtom_ref a 0 k (normInt_ok hn).1]; rfl
  | _ =>
    simp only [Ssubarray_ref]
    cases subarray a _ <;> rfl

theorem Sgetitem_ref (a : Arr) (ix : Index) : Sgetitem (abs a) ix = (getitem a ix).map absVal := by
  unfold Sgetitem getitem
  simp only [abs_stack, abs_depth]
  by_cases hs : a.stack = true
  case neg =>
    have hs' : a.stack = false := by simpa using hs
    simp only [hs', Bool.not_false, if_true]; exact SarrayGet_ref a ix
  case pos =>
    simp only [hs, Bool.not_true, Bool.false_eq_true, if_false]
    cases ix with
    | int i => simp only [SgetArray_ref]; cases getArray a i <;> rfl
    | _ =>
      simp only
      cases resolve a.coord.length _ with
      | error e => rfl
      | ok ms => simp only [Except.map, SselModels_ref]; rfl

theorem SsubarrayKeep_ref (a : Arr) (ix : Index) : SsubarrayKeep (abs a) ix = (subarrayKeep a ix).map abs := by
  unfold SsubarrayKeep subarrayKeep
  cases ix with
  | int i =>
    simp only [abs_length]
    cases normInt a.n i with
    | error e => rfl
    | ok k => simp only [Except.bind, Ssubarray_ref]
  | _ => simp only [Ssubarray_ref]

theorem Sgetitem2_ref (a : Arr) (i0 i1 : Index) : Sgetitem2 (abs a) i0 i1 = (getitem2 a i0 i1).map absVal := by
  unfold Sgetitem2 getitem2
  simp only [abs_stack]
  by_cases hs : a.stack = true
  case neg =>
    have hs' : a.stack = false := by simpa using hs
    simp only [hs', Bool.not_false, if_true]
    split
    · exact SarrayGet_ref a i1
    · rfl
  case pos =>
    simp only [hs, Bool.not_true, Bool.false_eq_true, if_false]
    have key : ∀ (i0 : Index), (∀ i, i0 ≠ .int i) →
        (match SsubarrayKeep (abs a) i1 with
          | .error e => .error e
          | .ok t => if i0 = .ellipsis then .ok (.arr t)
                     else (resolve t.depth i0).map (fun ms => SVal.arr (SselModels t ms))) =
        (match subarrayKeep a i1 with
          | .error e => .error e
          | .ok s => if i0 = .ellipsis then .ok (.arr s)
                     else (resolve s.coord.length i0).map (fun ms => Val.arr (selModels s ms))).map absVal := by
      intro i0 _
      rw [SsubarrayKeep_ref]
      cases subarrayKeep a i1 with
      | error e => rfl
      | ok s =>
        simp only [Except.map, abs_depth]
        split
        · rfl
        · cases resolve s.coord.length i0 with
          | error e => rfl
          | ok ms => simp only [SselModels_ref]; rfl
    cases i0 with
    | int i =>
      simp only [SgetArray_ref]
      cases getArray a i with
      | error e => rfl
      | ok x => simp only [Except.map, Except.bind]; exact SarrayGet_ref x i1
    | slice s1 s2 s3 => exact key _ (fun i h => by cases h)
    | mask bs kd => exact key _ (fun i h => by cases h)
    | arr is nd => exact key _ (fun i h => by cases h)
    | ellipsis => exact key _ (fun i h => by cases h)

end BiotiteModel.C01

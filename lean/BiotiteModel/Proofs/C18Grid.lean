import BiotiteModel.Proofs.C18V3
/-! # C18 — the writer's digit guard implies `CoordOk` for float32-grid coordinates -/
namespace BiotiteModel.C18

theorem natRepr_length_ge (k n : Nat) (h : 10 ^ k ≤ n) : k + 1 ≤ (natRepr n).length := by
  induction k generalizing n with
  | zero =>
    have := natRepr_ne_nil n
    cases hn : natRepr n with
    | nil => exact absurd hn this
    | cons _ _ => simp
  | succ k ih =>
    have h10 : ¬ n < 10 := by
      have : 10 ^ (k + 1) ≥ 10 := by
        have : 0 < 10 ^ k := Nat.pow_pos (by omega)
        rw [Nat.pow_succ]; omega
      omega
    rw [natRepr_eq, if_neg h10]
    have : 10 ^ k ≤ n / 10 := by
      rw [Nat.le_div_iff_mul_le (by omega)]
      rw [Nat.pow_succ] at h; exact h
    have := ih (n / 10) this
    simp; omega

/-- What every float32 satisfies: a value of magnitude ≥ 8192 = 2¹³ is a multiple of 2⁻¹⁰, i.e. its
reduced denominator is one of 1, 2, …, 1024. -/
def F32Grid (q : Q) : Prop :=
  0 < q.den ∧ (8192 * q.den ≤ q.num → q.den ∈ [1, 2, 4, 8, 16, 32, 64, 128, 256, 512, 1024])

instance (q : Q) : Decidable (F32Grid q) := by unfold F32Grid; infer_instance

theorem rne_le (n d : Nat) : rne n d ≤ n / d + 1 := by
  unfold rne
  simp only
  split
  · omega
  · split
    · omega
    · split <;> omega

theorem small_bound (q : Q) (h : ¬ 8192 * q.den ≤ q.num) (hpos : 0 < q.den) : rne (q.num * 10000) q.den < 100000000 := by
  have : q.num * 10000 / q.den < 8192 * 10000 := by
    apply Nat.div_lt_of_lt_mul
    have : q.num < 8192 * q.den := by omega
    calc q.num * 10000 < 8192 * q.den * 10000 := Nat.mul_lt_mul_of_pos_right this (by omega)
      _ = q.den * (8192 * 10000) := by rw [Nat.mul_comm 8192 q.den, Nat.mul_assoc]
  have := rne_le (q.num * 10000) q.den
  omega

theorem coordOk_of_guard (q : Q) (hg : F32Grid q) (hd : (intRepr q.trunc).length ≤ maxCoordDigits) : CoordOk q := by
  obtain ⟨hpos, hgrid⟩ := hg
  have e9 : (10 : Nat) ^ 9 = 1000000000 := by decide
  have e8 : (10 : Nat) ^ 8 = 100000000 := by decide
  have e5 : (10 : Nat) ^ 5 = 100000 := by decide
  have e4 : (10 : Nat) ^ 4 = 10000 := by decide
  unfold CoordOk Q.k4
  rw [e8, e9]
  have hlt : q.num < q.den * (q.num / q.den + 1) := Nat.lt_mul_div_succ q.num hpos
  have hr := rne_le (q.num * 10000) q.den
  cases hn : q.neg with
  | false =>
    simp only [Bool.false_eq_true, if_false]
    have hN : q.num / q.den < 100000 := by
      by_cases hc : q.num / q.den < 100000
      · exact hc
      · exfalso
        have := natRepr_length_ge 5 (q.num / q.den) (by rw [e5]; omega)
        simp only [Q.trunc, hn, Bool.false_eq_true, if_false, intRepr, maxCoordDigits] at hd
        have h0 : ¬ (((q.num / q.den : Nat) : Int) < 0) := by omega
        simp only [h0, if_false, Int.natAbs_natCast] at hd
        omega
    by_cases hbig : 8192 * q.den ≤ q.num
    · have hm := hgrid hbig
      simp only [List.mem_cons, List.mem_nil_iff, or_false] at hm
      rcases hm with h | h | h | h | h | h | h | h | h | h | h <;>
        (rw [h] at hlt hN hr ⊢; omega)
    · have := small_bound q hbig hpos
      omega
  | true =>
    simp only [if_true]
    have hN : q.num / q.den < 10000 := by
      by_cases hc : q.num / q.den < 10000
      · exact hc
      · exfalso
        have := natRepr_length_ge 4 (q.num / q.den) (by rw [e4]; omega)
        simp only [Q.trunc, hn, if_true, intRepr, maxCoordDigits] at hd
        have h0 : (-((q.num / q.den : Nat) : Int) < 0) := by omega
        simp only [h0, if_true, Int.natAbs_neg, Int.natAbs_natCast, List.length_cons] at hd
        omega
    by_cases hbig : 8192 * q.den ≤ q.num
    · have hm := hgrid hbig
      simp only [List.mem_cons, List.mem_nil_iff, or_false] at hm
      rcases hm with h | h | h | h | h | h | h | h | h | h | h <;>
        (rw [h] at hlt hN hr ⊢; omega)
    · exact small_bound q hbig hpos

end BiotiteModel.C18

import BiotiteModel.Model.C09
import BiotiteModel.Proofs.C08
import BiotiteModel.Proofs.C09Band
import BiotiteModel.Proofs.C08AffStep
/-! `optAff .semi ≤ optAffAbutFree ≤ optSemi M (max go ge)` (cell by cell). -/
namespace BiotiteModel.C09
open BiotiteModel BiotiteModel.C08

/-- `x ≤ y` for table entries (`none` = −∞) -/
def ople (x y : Option Int) : Prop := ∀ v, x = some v → ∃ w, y = some w ∧ v ≤ w

theorem ople_refl (x : Option Int) : ople x x := fun v h => ⟨v, h, Int.le_refl _⟩
theorem ople_none (y : Option Int) : ople none y := by intro v h; cases h

theorem ople_oadd {x y : Option Int} (h : ople x y) (s : Int) : ople (oadd x s) (oadd y s) := by
  intro v hv
  cases x with
  | none => cases hv
  | some a =>
    obtain ⟨w, hw, hle⟩ := h a rfl
    subst hw
    simp only [oadd, Option.some.injEq] at hv ⊢
    exact ⟨w + s, rfl, by omega⟩

theorem ople_omax {x x' y y' : Option Int} (h1 : ople x x') (h2 : ople y y') : ople (omax x y) (omax x' y') := by
  intro v hv
  cases x with
  | none =>
    cases y with
    | none => cases hv
    | some b =>
      obtain ⟨w, hw, hle⟩ := h2 b rfl
      simp only [omax, Option.some.injEq] at hv
      subst hv
      obtain ⟨u, hu, hle'⟩ := omax_some_right x' hw
      exact ⟨u, hu, by omega⟩
  | some a =>
    obtain ⟨w, hw, hle⟩ := h1 a rfl
    cases y with
    | none =>
      simp only [omax, Option.some.injEq] at hv
      subst hv
      obtain ⟨u, hu, hle'⟩ := omax_some_left y' hw
      exact ⟨u, hu, by omega⟩
    | some b =>
      obtain ⟨w2, hw2, hle2⟩ := h2 b rfl
      simp only [omax, Option.some.injEq] at hv
      subst hv; subst hw; subst hw2
      exact ⟨max w w2, rfl, by omega⟩

theorem ople_omax_left (x y : Option Int) : ople x (omax x y) := fun v h => omax_some_left y h

/-- per-state order on cells -/
def cle (c c' : AffCell) : Prop := ople c.m c'.m ∧ ople c.g1 c'.g1 ∧ ople c.g2 c'.g2

variable (M : Mat) (go ge : Int) (a b : Seq)

theorem cellAffSemi (i j : Nat) (d l t : AffCell) :
    (affRec .semi M go ge a b).cell i j d l t =
      ⟨omax (oadd d.m (sub M a b i j)) (omax (oadd d.g1 (sub M a b i j)) (oadd d.g2 (sub M a b i j))),
       omax (oadd l.m (if (i + 1 == a.length) = true then 0 else go)) (oadd l.g1 (if (i + 1 == a.length) = true then 0 else ge)),
       omax (oadd t.m (if (j + 1 == b.length) = true then 0 else go)) (oadd t.g2 (if (j + 1 == b.length) = true then 0 else ge))⟩ := by
  simp [affRec]

/-- C08's semi-global affine table is below the abutting-allowed table, state by state -/
theorem affSemi_le_abut : ∀ i j, cle ((affRec .semi M go ge a b).val i j) ((abutRec M go ge a b).val i j) := by
  intro i
  induction i with
  | zero => intro j; rw [Rec.val_zero, Rec.val_zero]; exact ⟨ople_refl _, ople_refl _, ople_refl _⟩
  | succ i ih =>
    intro j
    induction j with
    | zero => rw [Rec.val_succ_zero, Rec.val_succ_zero]; exact ⟨ople_refl _, ople_refl _, ople_refl _⟩
    | succ j ihj =>
      rw [Rec.val_succ_succ, Rec.val_succ_succ, cellAffSemi]
      obtain ⟨d1, d2, d3⟩ := ih j
      obtain ⟨l1, l2, _⟩ := ihj
      obtain ⟨t1, _, t3⟩ := ih (j + 1)
      refine ⟨?_, ?_, ?_⟩
      · exact ople_omax (ople_oadd d1 _) (ople_omax (ople_oadd d2 _) (ople_oadd d3 _))
      · simp only [abutRec]
        intro v hv
        obtain ⟨w, hw, hle⟩ := ople_omax (ople_oadd l1 _) (ople_oadd l2 _) v hv
        obtain ⟨u, hu, hle'⟩ := omax_some_left _ hw
        exact ⟨u, hu, by omega⟩
      · simp only [abutRec]
        intro v hv
        obtain ⟨w, hw, hle⟩ := ople_omax (ople_oadd t1 _) (ople_oadd t3 _) v hv
        obtain ⟨u, hu, hle'⟩ := omax_some_left _ hw
        exact ⟨u, hu, by omega⟩

theorem best_ople {c c' : AffCell} (h : cle c c') : ople c.best c'.best :=
  ople_omax h.1 (ople_omax h.2.1 h.2.2)

/-- every cell of C08's semi-global affine table has a finite best value -/
theorem affSemi_best_some : ∀ i j, ∃ v, ((affRec .semi M go ge a b).val i j).best = some v := by
  have hb : ∀ i j, ∃ v, ((affRec .semi M go ge a b).border i j).best = some v := by
    intro i j
    simp only [affRec]
    split
    · exact ⟨0, rfl⟩
    · split <;> exact ⟨0, rfl⟩
  intro i
  induction i with
  | zero => intro j; rw [Rec.val_zero]; exact hb 0 j
  | succ i ih =>
    intro j
    cases j with
    | zero => rw [Rec.val_succ_zero]; exact hb (i + 1) 0
    | succ j =>
      rw [Rec.val_succ_succ, cellAffSemi]
      obtain ⟨v, hv⟩ := ih j
      have h3 : ∀ (x y z : Option Int) (s : Int), (∃ v, omax x (omax y z) = some v) →
          ∃ w, omax (oadd x s) (omax (oadd y s) (oadd z s)) = some w := by
        intro x y z s ⟨v, hv⟩
        cases x <;> cases y <;> cases z <;> simp only [omax, oadd] at hv ⊢ <;> first | exact ⟨_, rfl⟩ | (cases hv)
      obtain ⟨w, hw⟩ := h3 _ _ _ (sub M a b i j) ⟨v, hv⟩
      obtain ⟨u, hu, _⟩ := omax_some_left (omax
        (omax (oadd ((affRec .semi M go ge a b).val (i + 1) j).m (if (i + 1 == a.length) = true then 0 else go))
          (oadd ((affRec .semi M go ge a b).val (i + 1) j).g1 (if (i + 1 == a.length) = true then 0 else ge)))
        (omax (oadd ((affRec .semi M go ge a b).val i (j + 1)).m (if (j + 1 == b.length) = true then 0 else go))
          (oadd ((affRec .semi M go ge a b).val i (j + 1)).g2 (if (j + 1 == b.length) = true then 0 else ge)))) hw
      exact ⟨u, hu⟩

theorem optAff_semi_le_abut : optAff .semi M go ge a b ≤ optAffAbutFree M go ge a b := by
  obtain ⟨v, hv⟩ := affSemi_best_some M go ge a b a.length b.length
  obtain ⟨w, hw, hle⟩ := best_ople (affSemi_le_abut M go ge a b a.length b.length) v hv
  simp only [optAff, optAffAbutFree, hv, hw, Option.getD_some]
  exact hle

/-! ## upper bound by the linear semi-global table with the milder penalty -/

def cole (c : AffCell) (y : Int) : Prop := ole c.m y ∧ ole c.g1 y ∧ ole c.g2 y

theorem ole_oadd_le {x : Option Int} {X s s' : Int} (h : ole x X) (hs : s ≤ s') : ole (oadd x s) (X + s') := by
  cases x with
  | none => exact ole_none _
  | some v => have := h v rfl; simp only [oadd]; exact ole_some (by omega)

theorem ole_omax {x y : Option Int} {Z : Int} (h1 : ole x Z) (h2 : ole y Z) : ole (omax x y) Z := by
  cases x <;> cases y <;> simp only [omax] <;> first | exact ole_none _ | exact h1 | exact h2 | skip
  rename_i u w
  have := h1 u rfl; have := h2 w rfl
  exact ole_some (by omega)

theorem abut_le_lin : ∀ i j, cole ((abutRec M go ge a b).val i j) ((linRec .semi M (max go ge) a b).val i j) := by
  have hb : ∀ i j, cole ((abutRec M go ge a b).border i j) 0 := by
    intro i j
    simp only [abutRec, affRec]
    split
    · exact ⟨ole_some (Int.le_refl _), ole_none _, ole_none _⟩
    · split
      · exact ⟨ole_none _, ole_some (Int.le_refl _), ole_none _⟩
      · exact ⟨ole_none _, ole_none _, ole_some (Int.le_refl _)⟩
  intro i
  induction i with
  | zero => intro j; rw [Rec.val_zero, Rec.val_zero, borderS]; exact hb 0 j
  | succ i ih =>
    intro j
    induction j with
    | zero => rw [Rec.val_succ_zero, Rec.val_succ_zero, borderS]; exact hb (i + 1) 0
    | succ j ihj =>
      rw [Rec.val_succ_succ, Rec.val_succ_succ, cellS]
      obtain ⟨d1, d2, d3⟩ := ih j
      obtain ⟨l1, l2, l3⟩ := ihj
      obtain ⟨t1, t2, t3⟩ := ih (j + 1)
      simp only [abutRec, max3]
      refine ⟨?_, ?_, ?_⟩
      · apply ole_omax (ole_trans (ole_oadd_le d1 (Int.le_refl _)) (by omega))
        apply ole_omax (ole_trans (ole_oadd_le d2 (Int.le_refl _)) (by omega))
        exact ole_trans (ole_oadd_le d3 (Int.le_refl _)) (by omega)
      · by_cases hf : i + 1 = a.length
        · have hf' : (i + 1 == a.length) = true := by simpa using hf
          simp only [hf', if_true, if_pos hf]
          have k1 := ole_oadd_le l1 (Int.le_refl 0)
          have k2 := ole_oadd_le l2 (Int.le_refl 0)
          have k3 := ole_oadd_le l3 (Int.le_refl 0)
          exact ole_omax (ole_omax (ole_trans k1 (by omega)) (ole_trans k2 (by omega))) (ole_trans k3 (by omega))
        · have hf' : (i + 1 == a.length) = false := by simpa using hf
          simp only [hf', Bool.false_eq_true, if_false, if_neg hf]
          apply ole_omax
          · apply ole_omax
            · exact ole_trans (ole_oadd_le l1 (by omega : go ≤ max go ge)) (by omega)
            · exact ole_trans (ole_oadd_le l2 (by omega : ge ≤ max go ge)) (by omega)
          · split
            · exact ole_trans (ole_oadd_le l3 (by omega : go ≤ max go ge)) (by omega)
            · exact ole_none _
      · by_cases hf : j + 1 = b.length
        · have hf' : (j + 1 == b.length) = true := by simpa using hf
          simp only [hf', if_true, if_pos hf]
          have k1 := ole_oadd_le t1 (Int.le_refl 0)
          have k2 := ole_oadd_le t3 (Int.le_refl 0)
          have k3 := ole_oadd_le t2 (Int.le_refl 0)
          exact ole_omax (ole_omax (ole_trans k1 (by omega)) (ole_trans k2 (by omega))) (ole_trans k3 (by omega))
        · have hf' : (j + 1 == b.length) = false := by simpa using hf
          simp only [hf', Bool.false_eq_true, if_false, if_neg hf]
          apply ole_omax
          · apply ole_omax
            · exact ole_trans (ole_oadd_le t1 (by omega : go ≤ max go ge)) (by omega)
            · exact ole_trans (ole_oadd_le t3 (by omega : ge ≤ max go ge)) (by omega)
          · split
            · exact ole_trans (ole_oadd_le t2 (by omega : go ≤ max go ge)) (by omega)
            · exact ole_none _

theorem optAffAbutFree_le_lin : optAffAbutFree M go ge a b ≤ optSemi M (max go ge) a b := by
  obtain ⟨h1, h2, h3⟩ := abut_le_lin M go ge a b a.length b.length
  have hb : ole ((abutRec M go ge a b).val a.length b.length).best (optSemi M (max go ge) a b) :=
    ole_omax h1 (ole_omax h2 h3)
  unfold optAffAbutFree
  cases hc : ((abutRec M go ge a b).val a.length b.length).best with
  | none => simpa using semi_nonneg M (max go ge) a b
  | some v => simpa using hb v hc

theorem optAffAbutFreeT_eq : optAffAbutFreeT M go ge a b = optAffAbutFree M go ge a b := by
  simp [optAffAbutFreeT, optAffAbutFree, Rec.row_getLast]

end BiotiteModel.C09

import BiotiteModel.Proofs.C04Intra
/-! Backbone links: `_filter_canonical_links` (writer) versus `_connect_inter_residue` (reader). -/
namespace BiotiteModel.C04

/-- Connector atom names for two consecutive residues (by residue name), from the dictionary. -/
def linkNames (ccd : Ccd) (ra rb : String) : Option (String × String) :=
  match ccd.link (upperAscii ra), ccd.link (upperAscii rb) with
  | .peptide, .peptide => some ("C", "N")
  | .nucleic, .nucleic => some ("O3'", "P")
  | _, _ => none

/-- The bond `_connect_inter_residue` creates between two consecutive residues, if any. -/
def linkOf (ccd : Ccd) (cur next : List (Nat × Atom)) : Option Bond :=
  match cur.head?, next.head? with
  | some p, some q =>
    if p.2.chain != q.2.chain then none
    else if q.2.resId - p.2.resId > 1 then none
    else match linkNames ccd p.2.resName q.2.resName with
      | none => none
      | some (n1, n2) =>
        match firstNamed cur n1, firstNamed next n2 with
        | some i, some j => some ⟨i, j, btSingle⟩
        | _, _ => none
  | _, _ => none

theorem connectInter_cons2 (ccd : Ccd) (cur next : List (Nat × Atom)) (rest : List (List (Nat × Atom))) :
    connectInter ccd (cur :: next :: rest) = (linkOf ccd cur next).toList ++ connectInter ccd (next :: rest) := by
  cases cur with
  | nil => simp [connectInter, linkOf]
  | cons p c =>
    cases next with
    | nil => simp [connectInter, linkOf]
    | cons q d =>
      obtain ⟨i0, a⟩ := p
      obtain ⟨j0, b⟩ := q
      simp only [connectInter, linkOf, linkNames, List.head?_cons]
      by_cases h1 : (a.chain != b.chain) = true
      · simp [h1]
      · simp only [h1, Bool.false_eq_true, if_false]
        by_cases h2 : b.resId - a.resId > 1
        · simp [h2]
        · simp only [h2, if_false]
          cases ccd.link (upperAscii a.resName) <;> cases ccd.link (upperAscii b.resName) <;> simp <;>
            (split <;> simp_all)

theorem mem_connectInter (ccd : Ccd) : ∀ (gs : List (List (Nat × Atom))) (b : Bond),
    b ∈ connectInter ccd gs ↔
      ∃ (r : Nat) (cur next : List (Nat × Atom)), gs[r]? = some cur ∧ gs[r + 1]? = some next ∧ linkOf ccd cur next = some b := by
  intro gs
  induction gs with
  | nil => intro b; simp [connectInter]
  | cons g gs ih =>
    intro b
    cases gs with
    | nil => simp [connectInter]
    | cons g' rest =>
      rw [connectInter_cons2, List.mem_append, ih b]
      constructor
      · rintro (h | ⟨r, cur, next, h1, h2, h3⟩)
        · exact ⟨0, g, g', rfl, rfl, by simpa [Option.mem_toList] using h⟩
        · exact ⟨r + 1, cur, next, by simpa using h1, by simpa using h2, h3⟩
      · rintro ⟨r, cur, next, h1, h2, h3⟩
        cases r with
        | zero =>
          left
          simp only [List.getElem?_cons_zero, Option.some.injEq] at h1
          simp only [Nat.zero_add, List.getElem?_cons_succ, List.getElem?_cons_zero, Option.some.injEq] at h2
          subst h1; subst h2
          simp [h3]
        | succ r =>
          right
          exact ⟨r, cur, next, by simpa using h1, by simpa using h2, h3⟩

theorem firstNamed_mem (g : List (Nat × Atom)) (n : String) (i : Nat) (h : firstNamed g n = some i) :
    ∃ a, (i, a) ∈ g ∧ a.atomName = n := by
  unfold firstNamed at h
  cases hf : g.find? (fun p => p.2.atomName == n) with
  | none => simp [hf] at h
  | some p =>
    simp only [hf, Option.map_some, Option.some.injEq] at h
    subst h
    refine ⟨p.2, List.mem_of_find?_eq_some hf, ?_⟩
    have := List.find?_some hf
    simpa using this

/-- atom names are unique within every residue -/
def NamesUnique (atoms : List Atom) : Prop :=
  ∀ g ∈ residues atoms, ∀ p ∈ g, ∀ q ∈ g, p.2.atomName = q.2.atomName → p = q

theorem firstNamed_of_mem (g : List (Nat × Atom)) (hu : ∀ p ∈ g, ∀ q ∈ g, p.2.atomName = q.2.atomName → p = q)
    (i : Nat) (a : Atom) (h : (i, a) ∈ g) : firstNamed g a.atomName = some i := by
  unfold firstNamed
  cases hf : g.find? (fun p => p.2.atomName == a.atomName) with
  | none =>
    have := List.find?_eq_none.mp hf (i, a) h
    simp at this
  | some p =>
    have hp : p ∈ g := List.mem_of_find?_eq_some hf
    have hn : p.2.atomName = a.atomName := by simpa using List.find?_some hf
    have := hu p hp (i, a) h hn
    simp [this]

theorem linkOf_iff (ccd : Ccd) (cur next : List (Nat × Atom)) (b : Bond) :
    linkOf ccd cur next = some b ↔
      ∃ p q n1 n2, cur.head? = some p ∧ next.head? = some q ∧ p.2.chain = q.2.chain ∧
        q.2.resId - p.2.resId ≤ 1 ∧ linkNames ccd p.2.resName q.2.resName = some (n1, n2) ∧
        firstNamed cur n1 = some b.i ∧ firstNamed next n2 = some b.j ∧ b.t = btSingle := by
  unfold linkOf
  cases hc : cur.head? with
  | none => simp
  | some p =>
    cases hn : next.head? with
    | none => simp
    | some q =>
      simp only [Option.some.injEq, exists_and_left, exists_eq_left']
      by_cases h1 : p.2.chain = q.2.chain
      · by_cases h2 : q.2.resId - p.2.resId > 1
        · simp [h1, h2]; intro _ ; omega
        · have h2' : q.2.resId - p.2.resId ≤ 1 := by omega
          cases hl : linkNames ccd p.2.resName q.2.resName with
          | none => simp [h1, h2]
          | some nn =>
            obtain ⟨n1, n2⟩ := nn
            cases hf1 : firstNamed cur n1 with
            | none => simp [h1, h2, hf1]
            | some i =>
              cases hf2 : firstNamed next n2 with
              | none => simp [h1, h2, hf1, hf2]
              | some j =>
                simp only [h1, bne_self_eq_false, Bool.false_eq_true, if_false, h2, Option.some.injEq, true_and, h2',
                  hf1, hf2]
                constructor
                · rintro rfl; exact ⟨n1, n2, rfl, hf1, hf2, rfl⟩
                · rintro ⟨m1, m2, hm, e1, e2, e3⟩
                  obtain ⟨rfl, rfl⟩ := Prod.mk.inj hm
                  rw [hf1] at e1; rw [hf2] at e2
                  cases b with
                  | mk bi bj bt =>
                    simp only [Option.some.injEq] at e1 e2
                    simp only at e3
                    subst e1; subst e2; subst e3; rfl
      · simp [h1]

theorem linkNames_cases (ccd : Ccd) (ra rb n1 n2 : String) (h : linkNames ccd ra rb = some (n1, n2)) :
    (n1 = "C" ∧ n2 = "N") ∨ (n1 = "O3'" ∧ n2 = "P") := by
  revert h
  unfold linkNames
  cases ccd.link (upperAscii ra) <;> cases ccd.link (upperAscii rb) <;> intro h <;> simp at h
  · left; exact ⟨h.1.symm, h.2.symm⟩
  · right; exact ⟨h.1.symm, h.2.symm⟩

theorem head_key (atoms : List Atom) (g : List (Nat × Atom)) (hg : g ∈ residues atoms) (p x : Nat × Atom)
    (hp : g.head? = some p) (hx : x ∈ g) :
    x.2.chain = p.2.chain ∧ x.2.resId = p.2.resId ∧ x.2.resName = p.2.resName := by
  have := (residues_groups atoms g hg).2 x hx p (List.mem_of_mem_head? hp)
  simp only [resKey, Prod.mk.injEq] at this
  exact ⟨this.1, this.2.1, this.2.2.2⟩

theorem getD_of_getElem? (l : List Nat) (i r : Nat) (h : l[i]? = some r) : l.getD i 0 = r := by
  simp [List.getD, h]

/-- What a bond created by `_connect_inter_residue` looks like. -/
theorem link_generated_spec (ccd : Ccd) (atoms : List Atom) (b : Bond)
    (hb : b ∈ connectInter ccd (residues atoms)) :
    ∃ (r : Nat) (a1 a2 : Atom), Located atoms r b.i a1 ∧ Located atoms (r + 1) b.j a2 ∧
      linkNames ccd a1.resName a2.resName = some (a1.atomName, a2.atomName) ∧
      a1.chain = a2.chain ∧ a2.resId - a1.resId ≤ 1 ∧ b.t = btSingle := by
  obtain ⟨r, cur, next, h1, h2, h3⟩ := (mem_connectInter ccd _ b).mp hb
  obtain ⟨p, q, n1, n2, hp, hq, hch, hgap, hln, hf1, hf2, ht⟩ := (linkOf_iff ccd cur next b).mp h3
  obtain ⟨a1, ha1, hn1⟩ := firstNamed_mem cur n1 b.i hf1
  obtain ⟨a2, ha2, hn2⟩ := firstNamed_mem next n2 b.j hf2
  have k1 := head_key atoms cur (List.mem_of_getElem? h1) p (b.i, a1) hp ha1
  have k2 := head_key atoms next (List.mem_of_getElem? h2) q (b.j, a2) hq ha2
  simp only at k1 k2
  refine ⟨r, a1, a2, ⟨cur, h1, ha1⟩, ⟨next, h2, ha2⟩, ?_, ?_, ?_, ht⟩
  · rw [k1.2.2, k2.2.2, hn1, hn2]; exact hln
  · rw [k1.1, k2.1]; exact hch
  · rw [k1.2.1, k2.2.1]; exact hgap

/-- **Reader ⇒ writer.**  A bond the reader creates from the dictionary is a single bond between
two consecutive residues; the (repaired) writer omits exactly such a bond from `struct_conn` iff the
two atoms are C–N of two canonical amino acids or O3'–P of two canonical nucleotides (`canonKind`). -/
theorem generated_link_class (ccd : Ccd) (atoms : List Atom) (b : Bond)
    (hb : b ∈ connectInter ccd (residues atoms)) :
    b.i < atoms.length ∧ b.j < atoms.length ∧ b.t = btSingle ∧ inStructConn (resPos atoms) b = true ∧
    isDroppedLink atoms b = canonKind (atomAt atoms b.i) (atomAt atoms b.j) := by
  obtain ⟨r, a1, a2, l1, l2, hln, hch, hgap, ht⟩ := link_generated_spec ccd atoms b hb
  obtain ⟨e1, p1⟩ := located_spec atoms r b.i a1 l1
  obtain ⟨e2, p2⟩ := located_spec atoms (r + 1) b.j a2 l2
  have hin : inStructConn (resPos atoms) b = true := by simp [inStructConn, p1, p2]
  refine ⟨lt_of_getElem?_some e1, lt_of_getElem?_some e2, ht, hin, ?_⟩
  have hpos : ((resPos atoms).getD b.j 0 : Int) - ((resPos atoms).getD b.i 0 : Int) = 1 := by
    rw [getD_of_getElem? _ _ _ p1, getD_of_getElem? _ _ _ p2]; omega
  simp only [isDroppedLink, hin, Bool.true_and, isCanonicalLink, atomAt_eq atoms b.i a1 e1, atomAt_eq atoms b.j a2 e2,
    hpos, ht, hch]
  simp [hgap]

/-- **Writer ⇒ reader.**  A bond the (repaired) writer omits as a canonical backbone link is
re-created by the reader exactly when the dictionary classifies the two residues so that the
connector atoms are the two bonded atoms (C→N for two peptide-linking residues, O3'→P for two
nucleotides).  Atom names must be unique within a residue. -/
theorem dropped_link_restored (ccd : Ccd) (atoms : List Atom) (hu : NamesUnique atoms) (b : Bond)
    (hi : b.i < atoms.length) (hj : b.j < atoms.length) (hd : isDroppedLink atoms b = true) :
    b ∈ connectInter ccd (residues atoms) ↔
      linkNames ccd (atomAt atoms b.i).resName (atomAt atoms b.j).resName =
        some ((atomAt atoms b.i).atomName, (atomAt atoms b.j).atomName) := by
  have ai : atoms[b.i]? = some atoms[b.i] := List.getElem?_eq_getElem hi
  have aj : atoms[b.j]? = some atoms[b.j] := List.getElem?_eq_getElem hj
  rw [atomAt_eq atoms b.i _ ai, atomAt_eq atoms b.j _ aj]
  constructor
  · intro hb
    obtain ⟨r, a1, a2, l1, l2, hln, _, _, _⟩ := link_generated_spec ccd atoms b hb
    have e1 := (located_spec atoms r b.i a1 l1).1
    have e2 := (located_spec atoms (r + 1) b.j a2 l2).1
    rw [ai] at e1; rw [aj] at e2
    simp only [Option.some.injEq] at e1 e2
    rw [e1, e2]; exact hln
  · intro hln
    -- unpack what the writer tested
    simp only [isDroppedLink, isCanonicalLink, Bool.and_eq_true, beq_iff_eq, decide_eq_true_eq,
      atomAt_eq atoms b.i _ ai, atomAt_eq atoms b.j _ aj] at hd
    obtain ⟨_, ⟨⟨⟨_, hpos⟩, ht⟩, hch⟩, hgap⟩ := hd
    obtain ⟨ri, gi, hgi, hxi⟩ := located_of_lt atoms b.i _ ai
    obtain ⟨rj, gj, hgj, hxj⟩ := located_of_lt atoms b.j _ aj
    have pi := (located_spec atoms ri b.i _ ⟨gi, hgi, hxi⟩).2
    have pj := (located_spec atoms rj b.j _ ⟨gj, hgj, hxj⟩).2
    rw [getD_of_getElem? _ _ _ pi, getD_of_getElem? _ _ _ pj] at hpos
    have hr : rj = ri + 1 := by omega
    subst hr
    rw [mem_connectInter]
    refine ⟨ri, gi, gj, hgi, hgj, ?_⟩
    rw [linkOf_iff]
    have hgim := List.mem_of_getElem? hgi
    have hgjm := List.mem_of_getElem? hgj
    obtain ⟨hne1, _⟩ := residues_groups atoms gi hgim
    obtain ⟨hne2, _⟩ := residues_groups atoms gj hgjm
    cases hgl1 : gi with
    | nil => exact absurd hgl1 hne1
    | cons p _ =>
      cases hgl2 : gj with
      | nil => exact absurd hgl2 hne2
      | cons q _ =>
        have hp : gi.head? = some p := by rw [hgl1]; rfl
        have hq : gj.head? = some q := by rw [hgl2]; rfl
        have k1 := head_key atoms gi hgim p _ hp hxi
        have k2 := head_key atoms gj hgjm q _ hq hxj
        simp only at k1 k2
        refine ⟨p, q, atoms[b.i].atomName, atoms[b.j].atomName, by rw [← hgl1]; exact hp, by rw [← hgl2]; exact hq,
          ?_, ?_, ?_, ?_, ?_, ht⟩
        · rw [← k1.1, ← k2.1]; exact hch
        · rw [← k1.2.1, ← k2.2.1]; exact hgap
        · rw [← k1.2.2, ← k2.2.2]; exact hln
        · rw [← hgl1]; exact firstNamed_of_mem gi (hu gi hgim) b.i _ hxi
        · rw [← hgl2]; exact firstNamed_of_mem gj (hu gj hgjm) b.j _ hxj

end BiotiteModel.C04


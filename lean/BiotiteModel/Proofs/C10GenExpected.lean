/-!
# C10 — what the hand-written model assumes about the source text (pinned)

`Gen/C10.lean` is regenerated from `/repo/src/biotite/sequence/align/*.pyx` on every run (logical code lines of the
functions the model covers: loop domains, guards and their operators, index expressions, formulas, the order of the
steps; default values; exception classes and the guard of every `raise`).  This file is the hand-owned copy of the
state the model `Model/C10.lean` was written against; the theorems `C10_gen_*` in `Props/C10.lean` prove
`Gen = Expected`, so any edit of one of these lines breaks a named obligation for every input at once.
When the code legitimately changes, re-read the function, update the model, then update the pinned lines here.
-/
namespace BiotiteModel.C10.Expected

/-- `kmeralphabet.pyx` `KmerAlphabet.__init__` -/
def kalInitSpacing : List String := ["base_alph_len = len(self._base_alph)", "self._radix_multiplier = np.array([base_alph_len**n for n in reversed(range(0, self._k))], dtype=np.int64)", "self._spacing = None", "self._spacing = _to_array_form(spacing)", "self._spacing = np.array(spacing, dtype=np.int64)", "self._spacing.sort()", "if (self._spacing < 0).any():", "if len(np.unique(self._spacing)) != len(self._spacing):", "if spacing is not None and len(self._spacing) != self._k:"]
/-- `kmeralphabet.pyx` `KmerAlphabet.fuse` -/
def kalFuse : List String := ["codes = np.atleast_2d(codes)", "kmer_code = np.sum(self._radix_multiplier * codes, axis=-1)", "return kmer_code.reshape(orig_shape[:-1])"]
/-- `kmeralphabet.pyx` `KmerAlphabet._split` -/
def kalSplit : List String := ["cdef int64 code, val, symbol_code", "val = radix_multiplier[n]", "symbol_code = code // val", "split_codes[i,n] = symbol_code", "code -= symbol_code * val"]
/-- `kmeralphabet.pyx` `KmerAlphabet.kmer_array_length` -/
def kalArrayLength : List String := ["if self._spacing is None:", "return length - self._k + 1", "max_offset = self._spacing[len(spacing)-1] + 1", "return length - max_offset + 1"]
/-- `kmeralphabet.pyx` `KmerAlphabet.create_kmers` -/
def kalCreate : List String := ["if self._spacing is None:", "return self._create_continuous_kmers(seq_code)", "else:", "return self._create_spaced_kmers(seq_code)"]
/-- `kmeralphabet.pyx` `KmerAlphabet._create_continuous_kmers` -/
def kalContinuous : List String := ["cdef uint64 alphabet_length = len(self._base_alph)", "cdef int64 end_radix_multiplier = alphabet_length**(k-1)", "cdef int64[:] kmers = np.empty(self.kmer_array_length(len(seq_code)), dtype=np.int64)", "kmer = 0", "for i in range(k):", "code = seq_code[i]", "kmer += radix_multiplier[i] * code", "kmers[0] = kmer", "prev_kmer = kmer", "for i in range(1, kmers.shape[0]):", "code = seq_code[i + k - 1]", "kmer = (((prev_kmer - seq_code[i - 1] * end_radix_multiplier) * alphabet_length) + code)", "kmers[i] = kmer", "prev_kmer = kmer"]
/-- `kmeralphabet.pyx` `KmerAlphabet._create_spaced_kmers` -/
def kalSpaced : List String := ["cdef int64 max_offset = spacing[len(spacing)-1] + 1", "cdef int64[:] kmers = np.empty(self.kmer_array_length(len(seq_code)), dtype=np.int64)", "for i in range(kmers.shape[0]):", "kmer = 0", "for j in range(k):", "offset = spacing[j]", "code = seq_code[i + offset]", "kmer += radix_multiplier[j] * code", "kmers[i] = kmer"]
/-- `kmeralphabet.pyx` `KmerAlphabet.__eq__` -/
def kalEq : List String := ["if item is self:", "return True", "if not isinstance(item, KmerAlphabet):", "return False", "if self._base_alph != item._base_alph:", "return False", "if self._k != item._k:", "return False", "if self._spacing is None:", "if item._spacing is not None:", "return False", "elif np.any(self._spacing != item._spacing):", "return False", "return True"]
/-- `kmeralphabet.pyx` `KmerAlphabet.__len__` -/
def kalLen : List String := ["return int(len(self._base_alph) ** self._k)"]
/-- `kmeralphabet.pyx` `KmerAlphabet.encode` -/
def kalEncodeDecode : List String := ["return self.fuse(self._base_alph.encode_multiple(symbol))"]
/-- `kmeralphabet.pyx` `KmerAlphabet.decode` -/
def kalDecode : List String := ["return self._base_alph.decode_multiple(self.split(code))"]
/-- `kmeralphabet.pyx` `_to_array_form` -/
def kalToArrayForm : List String := ["return np.array([ i for i in range(len(model_string)) if model_string[i] == \"1\" ], dtype=np.int64)"]
/-- `kmertable.pyx` `KmerTable.__cinit__` -/
def ktCinit : List String := ["self._k = kmer_alphabet.k", "self._ptr_array = np.zeros(len(self._kmer_alph), dtype=np.uint64)"]
/-- `kmertable.pyx` `BucketKmerTable.__cinit__` -/
def bktCinit : List String := ["self._k = kmer_alphabet.k", "self._n_buckets = len(self._kmer_alph)", "self._n_buckets = n_buckets", "self._ptr_array = np.zeros(self._n_buckets, dtype=np.uint64)"]
/-- `kmertable.pyx` `KmerTable.from_sequences` -/
def ktFromSequences : List String := ["ref_ids = _compute_ref_ids(ref_ids, sequences)", "ignore_masks = _compute_masks(ignore_masks, sequences)", "alphabet = _compute_alphabet(alphabet, (sequence.alphabet for sequence in sequences))", "table = KmerTable(KmerAlphabet(alphabet, k, spacing))", "kmers_list = [ table._kmer_alph.create_kmers(sequence.code) for sequence in sequences ]", "masks = [ _prepare_mask(table._kmer_alph, ignore_mask, len(sequence)) for sequence, ignore_mask in zip(sequences, ignore_masks) ]", "for kmers, mask in zip(kmers_list, masks):", "table._count_masked_kmers(kmers, mask)", "_init_c_arrays(table._ptr_array, EntrySize.NO_BUCKETS)", "for kmers, ref_id, mask in zip(kmers_list, ref_ids, masks):", "table._add_kmers(kmers, ref_id, mask)", "return table"]
/-- `kmertable.pyx` `BucketKmerTable.from_sequences` -/
def bktFromSequences : List String := ["ref_ids = _compute_ref_ids(ref_ids, sequences)", "ignore_masks = _compute_masks(ignore_masks, sequences)", "alphabet = _compute_alphabet(alphabet, (sequence.alphabet for sequence in sequences))", "kmer_alphabet = KmerAlphabet(alphabet, k, spacing)", "kmers_list = [ kmer_alphabet.create_kmers(sequence.code) for sequence in sequences ]", "if n_buckets is None:", "n_kmers = np.sum([len(kmers) for kmers in kmers_list])", "n_buckets = bucket_number(n_kmers)", "table = BucketKmerTable(n_buckets, kmer_alphabet)", "masks = [ _prepare_mask(kmer_alphabet, ignore_mask, len(sequence)) for sequence, ignore_mask in zip(sequences, ignore_masks) ]", "for kmers, mask in zip(kmers_list, masks):", "table._count_masked_kmers(kmers, mask)", "_init_c_arrays(table._ptr_array, EntrySize.BUCKETS)", "for kmers, ref_id, mask in zip(kmers_list, ref_ids, masks):", "table._add_kmers(kmers, ref_id, mask)", "return table"]
/-- `kmertable.pyx` `KmerTable.from_kmers` -/
def ktFromKmers : List String := ["_check_kmer_alphabet(kmer_alphabet)", "_check_multiple_kmer_bounds(kmers, kmer_alphabet)", "ref_ids = _compute_ref_ids(ref_ids, kmers)", "masks = _compute_masks(masks, kmers)", "table = KmerTable(kmer_alphabet)", "masks = [ np.ones(len(arr), dtype=np.uint8) if mask is None else np.frombuffer(mask.astype(bool, copy=False), dtype=np.uint8) for mask, arr in zip(masks, kmers) ]", "for arr, mask in zip(kmers, masks):", "table._count_masked_kmers(arr, mask)", "_init_c_arrays(table._ptr_array, EntrySize.NO_BUCKETS)", "for arr, ref_id, mask in zip(kmers, ref_ids, masks):", "table._add_kmers(arr, ref_id, mask)", "return table"]
/-- `kmertable.pyx` `BucketKmerTable.from_kmers` -/
def bktFromKmers : List String := ["_check_kmer_alphabet(kmer_alphabet)", "_check_multiple_kmer_bounds(kmers, kmer_alphabet)", "ref_ids = _compute_ref_ids(ref_ids, kmers)", "masks = _compute_masks(masks, kmers)", "if n_buckets is None:", "n_kmers = np.sum([len(e) for e in kmers])", "n_buckets = bucket_number(n_kmers)", "table = BucketKmerTable(n_buckets, kmer_alphabet)", "masks = [ np.ones(len(arr), dtype=np.uint8) if mask is None else np.frombuffer(mask.astype(bool, copy=False), dtype=np.uint8) for mask, arr in zip(masks, kmers) ]", "for arr, mask in zip(kmers, masks):", "table._count_masked_kmers(arr, mask)", "_init_c_arrays(table._ptr_array, EntrySize.BUCKETS)", "for arr, ref_id, mask in zip(kmers, ref_ids, masks):", "table._add_kmers(arr, ref_id, mask)", "return table"]
/-- `kmertable.pyx` `KmerTable.from_kmer_selection` -/
def ktFromSelection : List String := ["_check_kmer_alphabet(kmer_alphabet)", "_check_multiple_kmer_bounds(kmers, kmer_alphabet)", "_check_position_shape(positions, kmers)", "ref_ids = _compute_ref_ids(ref_ids, kmers)", "table = KmerTable(kmer_alphabet)", "for arr in kmers:", "table._count_kmers(arr)", "_init_c_arrays(table._ptr_array, EntrySize.NO_BUCKETS)", "for pos, arr, ref_id in zip(positions, kmers, ref_ids):", "table._add_kmer_selection(pos.astype(np.uint32, copy=False), arr, ref_id)", "return table"]
/-- `kmertable.pyx` `BucketKmerTable.from_kmer_selection` -/
def bktFromSelection : List String := ["_check_kmer_alphabet(kmer_alphabet)", "_check_multiple_kmer_bounds(kmers, kmer_alphabet)", "_check_position_shape(positions, kmers)", "ref_ids = _compute_ref_ids(ref_ids, kmers)", "if n_buckets is None:", "n_kmers = np.sum([len(e) for e in kmers])", "n_buckets = bucket_number(n_kmers)", "table = BucketKmerTable(n_buckets, kmer_alphabet)", "for arr in kmers:", "table._count_kmers(arr)", "_init_c_arrays(table._ptr_array, EntrySize.BUCKETS)", "for pos, arr, ref_id in zip(positions, kmers, ref_ids):", "table._add_kmer_selection(pos.astype(np.uint32, copy=False), arr, ref_id)", "return table"]
/-- `kmertable.pyx` `KmerTable.from_tables` -/
def ktFromTables : List String := ["_check_same_kmer_alphabet(tables)", "merged_table = KmerTable(tables[0].kmer_alphabet)", "for table in tables:", "_count_table_entries(merged_table._ptr_array, table._ptr_array, EntrySize.NO_BUCKETS)", "_init_c_arrays(merged_table._ptr_array, EntrySize.NO_BUCKETS)", "for table in tables:", "_append_entries(merged_table._ptr_array, table._ptr_array)", "return merged_table"]
/-- `kmertable.pyx` `BucketKmerTable.from_tables` -/
def bktFromTables : List String := ["_check_same_kmer_alphabet(tables)", "_check_same_buckets(tables)", "merged_table = BucketKmerTable(tables[0].n_buckets, tables[0].kmer_alphabet)", "for table in tables:", "_count_table_entries(merged_table._ptr_array, table._ptr_array, EntrySize.BUCKETS)", "_init_c_arrays(merged_table._ptr_array, EntrySize.BUCKETS)", "for table in tables:", "_append_entries(merged_table._ptr_array, table._ptr_array)", "return merged_table"]
/-- `kmertable.pyx` `KmerTable.from_positions` -/
def ktFromPositions : List String := ["cdef int64 alph_length = len(kmer_alphabet)", "for kmer, position_array in kmer_positions.items():", "positions = position_array.astype(np.uint32, copy=False)", "continue", "length = 2 * positions.shape[0] + 2", "ptr_array[kmer] = <ptr>kmer_ptr", "(<int64*> kmer_ptr)[0] = length", "kmer_ptr += 2", "for i in range(positions.shape[0]):", "kmer_ptr[0] = positions[i,0]", "kmer_ptr += 1", "kmer_ptr[0] = positions[i,1]", "kmer_ptr += 1"]
/-- `kmertable.pyx` `KmerTable._count_kmers` -/
def ktCountKmers : List String := ["for seq_pos in range(kmers.shape[0]):", "kmer = kmers[seq_pos]", "count_array[kmer] += 1"]
/-- `kmertable.pyx` `KmerTable._count_masked_kmers` -/
def ktCountMasked : List String := ["for seq_pos in range(kmers.shape[0]):", "if mask[seq_pos]:", "kmer = kmers[seq_pos]", "count_array[kmer] += 1"]
/-- `kmertable.pyx` `BucketKmerTable._count_kmers` -/
def bktCountKmers : List String := ["for seq_pos in range(kmers.shape[0]):", "kmer = kmers[seq_pos]", "count_array[kmer % self._n_buckets] += 1"]
/-- `kmertable.pyx` `BucketKmerTable._count_masked_kmers` -/
def bktCountMasked : List String := ["for seq_pos in range(kmers.shape[0]):", "if mask[seq_pos]:", "kmer = kmers[seq_pos]", "count_array[kmer % self._n_buckets] += 1"]
/-- `kmertable.pyx` `KmerTable._add_kmers` -/
def ktAddKmers : List String := ["cdef int64 current_size", "cdef uint32* kmer_ptr", "for seq_pos in range(kmers.shape[0]):", "if mask[seq_pos]:", "kmer = kmers[seq_pos]", "kmer_ptr = <uint32*> ptr_array[kmer]", "current_size = (<int64*> kmer_ptr)[0]", "kmer_ptr[current_size ] = ref_id", "kmer_ptr[current_size + 1] = seq_pos", "(<int64*> kmer_ptr)[0] = current_size + EntrySize.NO_BUCKETS"]
/-- `kmertable.pyx` `BucketKmerTable._add_kmers` -/
def bktAddKmers : List String := ["cdef int64 current_size", "cdef uint32* bucket_ptr", "cdef uint32* kmer_val_ptr", "for seq_pos in range(kmers.shape[0]):", "if mask[seq_pos]:", "kmer = kmers[seq_pos]", "bucket_ptr = <uint32*> ptr_array[kmer % self._n_buckets]", "current_size = (<int64*> bucket_ptr)[0]", "kmer_val_ptr = &bucket_ptr[current_size]", "(<int64*> kmer_val_ptr)[0] = kmer", "bucket_ptr[current_size + 2] = ref_id", "bucket_ptr[current_size + 3] = seq_pos", "(<int64*> bucket_ptr)[0] = current_size + EntrySize.BUCKETS"]
/-- `kmertable.pyx` `KmerTable._add_kmer_selection` -/
def ktAddSelection : List String := ["cdef int64 current_size", "cdef uint32* kmer_ptr", "for i in range(positions.shape[0]):", "kmer = kmers[i]", "seq_pos = positions[i]", "kmer_ptr = <uint32*> ptr_array[kmer]", "current_size = (<int64*> kmer_ptr)[0]", "kmer_ptr[current_size ] = ref_id", "kmer_ptr[current_size + 1] = seq_pos", "(<int64*> kmer_ptr)[0] = current_size + EntrySize.NO_BUCKETS"]
/-- `kmertable.pyx` `BucketKmerTable._add_kmer_selection` -/
def bktAddSelection : List String := ["cdef int64 current_size", "cdef uint32* bucket_ptr", "cdef uint32* kmer_val_ptr", "for i in range(positions.shape[0]):", "kmer = kmers[i]", "seq_pos = positions[i]", "bucket_ptr = <uint32*> ptr_array[kmer % self._n_buckets]", "current_size = (<int64*> bucket_ptr)[0]", "kmer_val_ptr = &bucket_ptr[current_size]", "(<int64*> kmer_val_ptr)[0] = kmer", "bucket_ptr[current_size + 2] = ref_id", "bucket_ptr[current_size + 3] = seq_pos", "(<int64*> bucket_ptr)[0] = current_size + EntrySize.BUCKETS"]
/-- `kmertable.pyx` `_count_table_entries` -/
def countTableEntries : List String := ["for bucket in range(count_array.shape[0]):", "bucket_ptr = <uint32*> (ptr_array[bucket])", "if bucket_ptr != NULL:", "length = (<int64*>bucket_ptr)[0]", "count = (length - 2) // element_size", "count_array[bucket] += count"]
/-- `kmertable.pyx` `_init_c_arrays` -/
def initCArrays : List String := ["for bucket in range(ptr_array.shape[0]):", "count = ptr_array[bucket]", "if count != 0:", "bucket_ptr = <uint32*>malloc((2 + count * element_size) * sizeof(uint32))", "if not bucket_ptr:", "(<int64*> bucket_ptr)[0] = 2", "ptr_array[bucket] = <ptr>bucket_ptr"]
/-- `kmertable.pyx` `_append_entries` -/
def appendEntries : List String := ["for bucket in range(trg_ptr_array.shape[0]):", "self_kmer_ptr = <uint32*>trg_ptr_array[bucket]", "other_kmer_ptr = <uint32*>src_ptr_array[bucket]", "if other_kmer_ptr != NULL:", "self_length = (<int64*>self_kmer_ptr)[0]", "other_length = (<int64*>other_kmer_ptr)[0]", "new_length = self_length + other_length - 2", "(<int64*>self_kmer_ptr)[0] = new_length", "self_kmer_ptr += self_length", "other_kmer_ptr += 2", "memcpy(self_kmer_ptr, other_kmer_ptr, (other_length - 2) * sizeof(uint32))"]
/-- `kmertable.pyx` `_equal_c_arrays` -/
def equalCArrays : List String := ["for bucket in range(self_ptr_array.shape[0]):", "self_bucket_ptr = <uint32*>self_ptr_array[bucket]", "other_bucket_ptr = <uint32*>other_ptr_array[bucket]", "if self_bucket_ptr != NULL or other_bucket_ptr != NULL:", "if self_bucket_ptr == NULL or other_bucket_ptr == NULL:", "return False", "self_length = (<int64*>self_bucket_ptr)[0]", "other_length = (<int64*>other_bucket_ptr)[0]", "if self_length != other_length:", "return False", "for i in range(2, self_length):", "if self_bucket_ptr[i] != other_bucket_ptr[i]:", "return False", "return True"]
/-- `kmertable.pyx` `_pickle_c_arrays` -/
def pickleCArrays : List String := ["cdef int64 total_length = 0", "for pointer_i in range(ptr_array.shape[0]):", "bucket_ptr = <uint32*>ptr_array[pointer_i]", "if bucket_ptr != NULL:", "total_length += (<int64*>bucket_ptr)[0]", "cdef uint32[:] concatenated_array = np.empty(total_length, dtype=np.uint32)", "cdef int64[:] lengths = np.empty(ptr_array.shape[0], dtype=np.int64)", "concat_i = 0", "for pointer_i in range(ptr_array.shape[0]):", "bucket_ptr = <uint32*>ptr_array[pointer_i]", "if bucket_ptr != NULL:", "length = (<int64*>bucket_ptr)[0]", "lengths[pointer_i] = length", "memcpy(&concatenated_array[concat_i], bucket_ptr, length * sizeof(uint32),)", "concat_i += length", "else:", "lengths[pointer_i] = 0", "return np.asarray(concatenated_array), np.asarray(lengths)"]
/-- `kmertable.pyx` `_unpickle_c_arrays` -/
def unpickleCArrays : List String := ["cdef uint32[:] concatenated_array = state[0]", "cdef int64[:] lengths = state[1]", "concat_i = 0", "for pointer_i in range(ptr_array.shape[0]):", "length = lengths[pointer_i]", "if length != 0:", "bucket_ptr = <uint32*>malloc(length * sizeof(uint32))", "if not bucket_ptr:", "memcpy(bucket_ptr, &concatenated_array[concat_i], length * sizeof(uint32),)", "concat_i += length", "ptr_array[pointer_i] = <ptr>bucket_ptr"]
/-- `kmertable.pyx` `_compute_ref_ids` -/
def computeRefIds : List String := ["if ref_ids is None:", "return np.arange(len(sequences))", "else:", "if len(ref_ids) != len(sequences):", "return ref_ids"]
/-- `kmertable.pyx` `_compute_masks` -/
def computeMasks : List String := ["if masks is None:", "return [None] * len(sequences)", "else:", "if len(masks) != len(sequences):", "return masks"]
/-- `kmertable.pyx` `_compute_alphabet` -/
def computeAlphabet : List String := ["if given_alphabet is None:", "alphabet = common_alphabet(sequence_alphabets)", "if alphabet is None:", "return alphabet", "else:", "for alph in sequence_alphabets:", "if not given_alphabet.extends(alph):", "return given_alphabet"]
/-- `kmertable.pyx` `_check_position_shape` -/
def checkPositionShape : List String := ["if len(position_arrays) != len(kmer_arrays):", "for i, (positions, kmers) in enumerate(zip(position_arrays, kmer_arrays)):", "if len(positions) != len(kmers):"]
/-- `kmertable.pyx` `_check_same_kmer_alphabet` -/
def checkSameAlphabet : List String := ["ref_alph = tables[0].kmer_alphabet", "for alph in (table.kmer_alphabet for table in tables):", "if not alph == ref_alph:"]
/-- `kmertable.pyx` `_check_same_buckets` -/
def checkSameBuckets : List String := ["ref_n_buckets = tables[0].n_buckets", "for buckets in (table.n_buckets for table in tables):", "if not buckets == ref_n_buckets:"]
/-- `kmertable.pyx` `KmerTable.match` -/
def ktMatch : List String := ["cdef int64[:] kmers = self._kmer_alph.create_kmers(sequence.code)", "cdef uint8[:] kmer_mask = _prepare_mask(self._kmer_alph, ignore_mask, len(sequence.code))", "if similarity_rule is None:", "for i in range(kmers.shape[0]):", "if kmer_mask[i]:", "kmer = kmers[i]", "kmer_ptr = <uint32*>ptr_array[kmer]", "for j in range(2, length, 2):", "matches[match_i, 0] = i", "matches[match_i, 1] = kmer_ptr[j]", "matches[match_i, 2] = kmer_ptr[j+1]", "else:", "for i in range(kmers.shape[0]):", "if kmer_mask[i]:", "kmer = kmers[i]", "similar_kmers = similarity_rule.similar_kmers(self._kmer_alph, kmer)", "for l in range(similar_kmers.shape[0]):", "sim_kmer = similar_kmers[l]", "kmer_ptr = <uint32*>ptr_array[sim_kmer]", "for j in range(2, length, 2):", "matches[match_i, 0] = i", "matches[match_i, 1] = kmer_ptr[j]", "matches[match_i, 2] = kmer_ptr[j+1]"]
/-- `kmertable.pyx` `BucketKmerTable.match` -/
def bktMatch : List String := ["cdef int64[:] kmers = self._kmer_alph.create_kmers(sequence.code)", "cdef uint8[:] kmer_mask = _prepare_mask(self._kmer_alph, ignore_mask, len(sequence.code))", "if similarity_rule is None:", "for i in range(kmers.shape[0]):", "if kmer_mask[i]:", "other_kmer = kmers[i]", "bucket = other_kmer % self._n_buckets", "bucket_ptr = <uint32*>ptr_array[bucket]", "array_stop = bucket_ptr + length", "bucket_ptr += 2", "while bucket_ptr < array_stop:", "if self_kmer == other_kmer:", "matches[match_i, 0] = i", "bucket_ptr += 2", "matches[match_i, 1] = bucket_ptr[0]", "bucket_ptr += 1", "matches[match_i, 2] = bucket_ptr[0]", "bucket_ptr += 1", "else:", "bucket_ptr += EntrySize.BUCKETS", "else:", "for i in range(kmers.shape[0]):", "if kmer_mask[i]:", "other_kmer = kmers[i]", "similar_kmers = similarity_rule.similar_kmers(self._kmer_alph, other_kmer)", "for l in range(similar_kmers.shape[0]):", "sim_kmer = similar_kmers[l]", "bucket = sim_kmer % self._n_buckets", "bucket_ptr = <uint32*>ptr_array[bucket]", "array_stop = bucket_ptr + length", "bucket_ptr += 2", "while bucket_ptr < array_stop:", "if self_kmer == sim_kmer:", "matches[match_i, 0] = i", "bucket_ptr += 2", "matches[match_i, 1] = bucket_ptr[0]", "bucket_ptr += 1", "matches[match_i, 2] = bucket_ptr[0]", "bucket_ptr += 1", "else:", "bucket_ptr += EntrySize.BUCKETS"]
/-- `kmertable.pyx` `KmerTable.match_table` -/
def ktMatchTable : List String := ["_check_same_kmer_alphabet((self, table))", "if similarity_rule is None:", "for kmer in range(self_ptr_array.shape[0]):", "self_kmer_ptr = <uint32*>self_ptr_array[kmer]", "other_kmer_ptr = <uint32*>other_ptr_array[kmer]", "if self_kmer_ptr != NULL and other_kmer_ptr != NULL:", "for i in range(2, other_length, 2):", "for j in range(2, self_length, 2):", "matches[match_i, 0] = other_kmer_ptr[i]", "matches[match_i, 1] = other_kmer_ptr[i+1]", "matches[match_i, 2] = self_kmer_ptr[j]", "matches[match_i, 3] = self_kmer_ptr[j+1]", "else:", "for kmer in range(self_ptr_array.shape[0]):", "other_kmer_ptr = <uint32*>other_ptr_array[kmer]", "if other_kmer_ptr != NULL:", "similar_kmers = similarity_rule.similar_kmers(self._kmer_alph, kmer)", "for l in range(similar_kmers.shape[0]):", "sim_kmer = similar_kmers[l]", "self_kmer_ptr = <uint32*>self_ptr_array[sim_kmer]", "if self_kmer_ptr != NULL:", "for i in range(2, other_length, 2):", "for j in range(2, self_length, 2):", "matches[match_i, 0] = other_kmer_ptr[i]", "matches[match_i, 1] = other_kmer_ptr[i+1]", "matches[match_i, 2] = self_kmer_ptr[j]", "matches[match_i, 3] = self_kmer_ptr[j+1]"]
/-- `kmertable.pyx` `BucketKmerTable.match_table` -/
def bktMatchTable : List String := ["_check_same_kmer_alphabet((self, table))", "_check_same_buckets((self, table))", "if similarity_rule is None:", "for bucket in range(self_ptr_array.shape[0]):", "self_bucket_ptr = <uint32*>self_ptr_array[bucket]", "other_bucket_ptr = <uint32*>other_ptr_array[bucket]", "if self_bucket_ptr != NULL and other_bucket_ptr != NULL:", "for i in range(2, other_length, 4):", "other_kmer = (<int64*>(other_bucket_ptr + i))[0]", "for j in range(2, self_length, 4):", "self_kmer = (<int64*>(self_bucket_ptr + j))[0]", "if self_kmer == other_kmer:", "matches[match_i, 0] = other_bucket_ptr[i+2]", "matches[match_i, 1] = other_bucket_ptr[i+3]", "matches[match_i, 2] = self_bucket_ptr[j+2]", "matches[match_i, 3] = self_bucket_ptr[j+3]", "else:", "for bucket in range(self_ptr_array.shape[0]):", "other_bucket_ptr = <uint32*>other_ptr_array[bucket]", "if other_bucket_ptr != NULL:", "for i in range(2, other_length, 4):", "other_kmer = (<int64*>(other_bucket_ptr + i))[0]", "similar_kmers = similarity_rule.similar_kmers(self._kmer_alph, other_kmer)", "for l in range(similar_kmers.shape[0]):", "sim_kmer = similar_kmers[l]", "sim_bucket = sim_kmer % self._n_buckets", "self_bucket_ptr = <uint32*>self_ptr_array[sim_bucket]", "if self_bucket_ptr != NULL:", "for j in range(2, self_length, 4):", "self_kmer = (<int64*>(self_bucket_ptr + j))[0]", "if self_kmer == sim_kmer:", "matches[match_i, 0] = other_bucket_ptr[i+2]", "matches[match_i, 1] = other_bucket_ptr[i+3]", "matches[match_i, 2] = self_bucket_ptr[j+2]", "matches[match_i, 3] = self_bucket_ptr[j+3]"]
/-- `kmertable.pyx` `KmerTable.match_kmer_selection` -/
def ktMatchSelection : List String := ["_check_kmer_bounds(kmers, self._kmer_alph)", "cdef uint32[:] pos_array = positions.astype(np.uint32, copy=False)", "cdef int64[:] kmer_array = kmers.astype(np.int64, copy=False)", "for i in range(kmer_array.shape[0]):", "kmer = kmer_array[i]", "seq_pos = pos_array[i]", "kmer_ptr = <uint32*>ptr_array[kmer]", "for j in range(2, length, 2):", "matches[match_i, 0] = seq_pos", "matches[match_i, 1] = kmer_ptr[j]", "matches[match_i, 2] = kmer_ptr[j+1]"]
/-- `kmertable.pyx` `BucketKmerTable.match_kmer_selection` -/
def bktMatchSelection : List String := ["_check_kmer_bounds(kmers, self._kmer_alph)", "cdef uint32[:] pos_array = positions.astype(np.uint32, copy=False)", "cdef int64[:] kmer_array = kmers.astype(np.int64, copy=False)", "for i in range(kmer_array.shape[0]):", "other_kmer = kmer_array[i]", "seq_pos = pos_array[i]", "bucket = other_kmer % self._n_buckets", "bucket_ptr = <uint32*>ptr_array[bucket]", "array_stop = bucket_ptr + length", "bucket_ptr += 2", "while bucket_ptr < array_stop:", "if self_kmer == other_kmer:", "matches[match_i, 0] = seq_pos", "bucket_ptr += 2", "matches[match_i, 1] = bucket_ptr[0]", "bucket_ptr += 1", "matches[match_i, 2] = bucket_ptr[0]", "bucket_ptr += 1", "bucket_ptr += EntrySize.BUCKETS"]
/-- `kmertable.pyx` `KmerTable.count` -/
def ktCount : List String := ["if kmers is None:", "counts = np.zeros(ptr_array.shape[0], dtype=np.int64)", "for kmer in range(ptr_array.shape[0]):", "kmer_ptr = <int64*> (ptr_array[kmer])", "if kmer_ptr != NULL:", "length = kmer_ptr[0]", "counts[kmer] = (length - 2) // 2", "else:", "_check_kmer_bounds(kmers, self._kmer_alph)", "kmer_array = kmers.astype(np.int64, copy=False)", "counts = np.zeros(kmer_array.shape[0], dtype=np.int64)", "for i in range(kmer_array.shape[0]):", "kmer = kmer_array[i]", "kmer_ptr = <int64*> (ptr_array[kmer])", "if kmer_ptr != NULL:", "length = kmer_ptr[0]", "counts[i] = (length - 2) // 2", "return np.asarray(counts)"]
/-- `kmertable.pyx` `BucketKmerTable.count` -/
def bktCount : List String := ["_check_kmer_bounds(kmers, self._kmer_alph)", "for i in range(kmer_array.shape[0]):", "kmer = kmer_array[i]", "bucket = kmer % self._n_buckets", "bucket_ptr = <uint32*> (ptr_array[bucket])", "if bucket_ptr != NULL:", "length = (<int64*>bucket_ptr)[0]", "array_stop = bucket_ptr + length", "bucket_ptr += 2", "while bucket_ptr < array_stop:", "self_kmer = (<int64*>bucket_ptr)[0]", "if self_kmer == kmer:", "counts[i] += 1", "bucket_ptr += EntrySize.BUCKETS", "return np.asarray(counts)"]
/-- `kmertable.pyx` `KmerTable.get_kmers` -/
def ktGetKmers : List String := ["cdef ptr[:] ptr_array = self._ptr_array", "cdef int64[:] kmers = np.zeros(ptr_array.shape[0], dtype=np.int64)", "cdef int64 i = 0", "for kmer in range(ptr_array.shape[0]):", "if <uint32*> (ptr_array[kmer]) != NULL:", "kmers[i] = kmer", "i += 1", "return np.asarray(kmers)[:i]"]
/-- `kmertable.pyx` `BucketKmerTable.get_kmers` -/
def bktGetKmers : List String := ["cdef ptr[:] ptr_array = self._ptr_array", "cdef cpp_set[int64] kmer_set", "for bucket in range(ptr_array.shape[0]):", "bucket_ptr = <uint32*> (ptr_array[bucket])", "if bucket_ptr != NULL:", "length = (<int64*>bucket_ptr)[0]", "array_stop = bucket_ptr + length", "bucket_ptr += 2", "while bucket_ptr < array_stop:", "kmer = (<int64*>bucket_ptr)[0]", "kmer_set.insert(kmer)", "bucket_ptr += EntrySize.BUCKETS", "cdef int64[:] kmers = np.zeros(kmer_set.size(), dtype=np.int64)", "cdef int64 i = 0", "for kmer in kmer_set:", "kmers[i] = kmer", "i += 1", "return np.sort(np.asarray(kmers))"]
/-- `kmertable.pyx` `KmerTable.__getitem__` -/
def ktGetItem : List String := ["if kmer >= len(self):", "kmer_ptr = <uint32*>self._ptr_array[kmer]", "if kmer_ptr == NULL:", "return np.zeros((0, 2), dtype=np.uint32)", "else:", "length = (<int64*>kmer_ptr)[0]", "positions = np.empty(((length - 2) // 2, 2), dtype=np.uint32)", "i = 0", "for j in range(2, length, 2):", "positions[i,0] = kmer_ptr[j]", "positions[i,1] = kmer_ptr[j+1]", "i += 1", "return np.asarray(positions)"]
/-- `kmertable.pyx` `BucketKmerTable.__getitem__` -/
def bktGetItem : List String := ["if kmer >= len(self):", "bucket_ptr = <uint32*>self._ptr_array[kmer % self._n_buckets]", "if bucket_ptr == NULL:", "return np.zeros((0, 2), dtype=np.uint32)", "else:", "length = (<int64*>bucket_ptr)[0]", "positions = np.empty(((length - 2) // 4, 2), dtype=np.uint32)", "i = 0", "for j in range(2, length, 4):", "self_kmer = bucket_ptr[j]", "if self_kmer == kmer:", "positions[i,0] = bucket_ptr[j+2]", "positions[i,1] = bucket_ptr[j+3]", "i += 1", "return np.asarray(positions)[:i]"]
/-- `kmertable.pyx` `KmerTable.__contains__` -/
def ktContains : List String := ["return self._ptr_array[kmer] != 0"]
/-- `kmertable.pyx` `KmerTable.__iter__` -/
def ktIter : List String := ["for kmer in self.get_kmers():", "yield kmer.item()"]
/-- `kmertable.pyx` `KmerTable.__reversed__` -/
def ktReversed : List String := ["return reversed(self.get_kmers())"]
/-- `kmertable.pyx` `KmerTable.__len__` -/
def ktLen : List String := ["return len(self._kmer_alph)"]
/-- `kmertable.pyx` `KmerTable.__eq__` -/
def ktEq : List String := ["if item is self:", "return True", "if type(item) != KmerTable:", "return False", "if self._kmer_alph.base_alphabet != other._kmer_alph.base_alphabet:", "return False", "if self._k != other._k:", "return False", "return _equal_c_arrays(self._ptr_array, other._ptr_array)"]
/-- `kmertable.pyx` `BucketKmerTable.__eq__` -/
def bktEq : List String := ["if item is self:", "return True", "if type(item) != BucketKmerTable:", "return False", "if self._kmer_alph.base_alphabet != other._kmer_alph.base_alphabet:", "return False", "if self._k != other._k:", "return False", "if self._n_buckets != other._n_buckets:", "return False", "return _equal_c_arrays(self._ptr_array, other._ptr_array)"]
/-- `kmertable.pyx` `KmerTable.__getnewargs_ex__` -/
def ktState : List String := ["return (self._kmer_alph,), {}"]
/-- `kmertable.pyx` `BucketKmerTable.__getnewargs_ex__` -/
def bktState : List String := ["return (self._n_buckets, self._kmer_alph), {}"]
/-- `kmertable.pyx` `_to_string` -/
def toString : List String := ["lines = []", "for kmer in table.get_kmers():", "symbols = table.kmer_alphabet.decode(kmer)", "if isinstance(table.alphabet, LetterAlphabet):", "symbols = \"\".join(symbols)", "else:", "symbols = str(tuple(symbols))", "line = symbols + \": \" + \", \".join([str((ref_id.item(), pos.item())) for ref_id, pos in table[kmer]])", "lines.append(line)", "return \"\\n\".join(lines)"]
/-- `kmertable.pyx` `_check_kmer_bounds` -/
def checkKmerBounds : List String := ["if np.any(kmers < 0) or np.any(kmers >= len(kmer_alphabet)):"]
/-- `kmertable.pyx` `_check_multiple_kmer_bounds` -/
def checkMultipleKmerBounds : List String := ["for kmers in kmer_arrays:", "if np.any(kmers < 0) or np.any(kmers >= len(kmer_alphabet)):"]
/-- `kmertable.pyx` `_prepare_mask` -/
def prepareMask : List String := ["if ignore_mask is None:", "kmer_mask = np.ones(kmer_alphabet.kmer_array_length(seq_length), dtype=np.uint8)", "else:", "if not isinstance(ignore_mask, np.ndarray):", "if ignore_mask.dtype != np.dtype(bool):", "if len(ignore_mask) != seq_length:", "kmer_mask = _to_kmer_mask(np.frombuffer(ignore_mask.astype(bool, copy=False), dtype=np.uint8), kmer_alphabet)", "return kmer_mask"]
/-- `kmertable.pyx` `_to_kmer_mask` -/
def toKmerMask : List String := ["cdef uint8[:] kmer_mask = np.empty(kmer_alphabet.kmer_array_length(mask.shape[0]), dtype=np.uint8)", "cdef int64 k = kmer_alphabet.k", "if kmer_alphabet.spacing is None:", "for i in range(kmer_mask.shape[0]):", "is_retained = True", "for j in range(i, i + k):", "if mask[j]:", "is_retained = False", "kmer_mask[i] = is_retained", "else:", "spacing = kmer_alphabet.spacing", "for i in range(kmer_mask.shape[0]):", "is_retained = True", "for j in range(spacing.shape[0]):", "offset = spacing[j]", "if mask[j + offset]:", "is_retained = False", "kmer_mask[i] = is_retained", "return np.asarray(kmer_mask)"]
/-- `selector.pyx` `_minimize` -/
def minimize : List String := ["cdef uint32 n_windows = kmers.shape[0] - (window - 1)", "cdef uint32[:] mininizer_pos = np.empty(n_windows, dtype=np.uint32)", "cdef int64[:] minimizers = np.empty(n_windows, dtype=np.int64)", "cdef uint32 n_minimizers = 0", "cdef uint32 prev_argcummin = kmers.shape[0]", "cdef uint32[:] forward_argcummins = _chunk_wise_forward_argcummin(ordering, window)", "cdef uint32[:] reverse_argcummins = _chunk_wise_reverse_argcummin(ordering, window)", "for seq_i in range(n_windows):", "forward_argcummin = forward_argcummins[seq_i + window - 1]", "reverse_argcummin = reverse_argcummins[seq_i]", "forward_cummin = ordering[forward_argcummin]", "reverse_cummin = ordering[reverse_argcummin]", "if forward_cummin < reverse_cummin:", "combined_argcummin = forward_argcummin", "else:", "combined_argcummin = reverse_argcummin", "if include_duplicates or combined_argcummin != prev_argcummin:", "mininizer_pos[n_minimizers] = combined_argcummin", "minimizers[n_minimizers] = kmers[combined_argcummin]", "n_minimizers += 1", "prev_argcummin = combined_argcummin", "return (np.asarray(mininizer_pos)[:n_minimizers], np.asarray(minimizers)[:n_minimizers])"]
/-- `selector.pyx` `chunk_wise_forward_argcummin` -/
def forwardArgcummin : List String := ["cdef uint32 current_min_i = 0", "cdef uint32[:] min_pos = np.empty(values.shape[0], dtype=np.uint32)", "current_min = MAX_INT_64", "for seq_i in range(values.shape[0]):", "if seq_i % chunk_size == 0:", "current_min = MAX_INT_64", "current_val = values[seq_i]", "if current_val < current_min:", "current_min_i = seq_i", "current_min = current_val", "min_pos[seq_i] = current_min_i", "return min_pos"]
/-- `selector.pyx` `chunk_wise_reverse_argcummin` -/
def reverseArgcummin : List String := ["cdef uint32 current_min_i = 0", "cdef uint32[:] min_pos = np.empty(values.shape[0], dtype=np.uint32)", "current_min = MAX_INT_64", "for seq_i in reversed(range(values.shape[0])):", "if seq_i % chunk_size == chunk_size - 1:", "current_min = MAX_INT_64", "current_val = values[seq_i]", "if current_val <= current_min:", "current_min_i = seq_i", "current_min = current_val", "min_pos[seq_i] = current_min_i", "return min_pos"]
/-- `selector.pyx` `MinimizerSelector.__init__` -/
def minimizerInit : List String := ["if window < 2:", "self._window = window", "self._kmer_alph = kmer_alphabet", "self._permutation = permutation"]
/-- `selector.pyx` `MinimizerSelector.select` -/
def minimizerSelect : List String := ["if alphabet_check:", "if not self._kmer_alph.base_alphabet.extends(sequence.alphabet):", "kmers = self._kmer_alph.create_kmers(sequence.code)", "return self.select_from_kmers(kmers)"]
/-- `selector.pyx` `MinimizerSelector.select_from_kmers` -/
def minimizerFromKmers : List String := ["if self._permutation is None:", "ordering = kmers", "else:", "ordering = self._permutation.permute(kmers)", "if len(ordering) != len(kmers):", "if len(kmers) < self._window:", "return _minimize(kmers.astype(np.int64, copy=False), ordering.astype(np.int64, copy=False), self._window, include_duplicates=False)"]
/-- `selector.pyx` `SyncmerSelector.__init__` -/
def syncmerInit : List String := ["if not s < k:", "self._window = k - s + 1", "self._alphabet = alphabet", "self._kmer_alph = KmerAlphabet(alphabet, k)", "self._smer_alph = KmerAlphabet(alphabet, s)", "self._permutation = permutation", "self._offset = np.asarray(offset, dtype=np.int64)", "self._offset = np.where(self._offset < 0, self._window + self._offset, self._offset)", "if (self._offset >= self._window).any() or (self._offset < 0).any():", "if len(np.unique(self._offset)) != len(self._offset):"]
/-- `selector.pyx` `SyncmerSelector.select` -/
def syncmerSelect : List String := ["if alphabet_check:", "if not self._alphabet.extends(sequence.alphabet):", "kmers = self._kmer_alph.create_kmers(sequence.code)", "smers = self._smer_alph.create_kmers(sequence.code)", "if self._permutation is None:", "ordering = smers", "else:", "ordering = self._permutation.permute(smers)", "if len(ordering) != len(smers):", "min_pos, _ = _minimize(smers, ordering.astype(np.int64, copy=False), self._window, include_duplicates=True)", "relative_min_pos = min_pos - np.arange(len(kmers))", "syncmer_pos = self._filter_syncmer_pos(relative_min_pos)", "return syncmer_pos, kmers[syncmer_pos]"]
/-- `selector.pyx` `SyncmerSelector.select_from_kmers` -/
def syncmerFromKmers : List String := ["symbol_codes_for_each_kmer = self._kmer_alph.split(kmers)", "for i in range(symbol_codes_for_each_kmer.shape[0]):", "smers = self._smer_alph.create_kmers(symbol_codes_for_each_kmer[i])", "if self._permutation is None:", "ordering = smers", "else:", "ordering = self._permutation.permute(smers)", "if len(ordering) != len(smers):", "min_pos[i] = np.argmin(ordering)", "syncmer_pos = self._filter_syncmer_pos(min_pos)", "return syncmer_pos, kmers[syncmer_pos]"]
/-- `selector.pyx` `SyncmerSelector._filter_syncmer_pos` -/
def syncmerFilter : List String := ["syncmer_mask = None", "for offset in self._offset:", "if syncmer_mask is None:", "syncmer_mask = min_pos == offset", "else:", "syncmer_mask |= min_pos == offset", "return np.where(syncmer_mask)[0]"]
/-- `selector.pyx` `CachedSyncmerSelector.__init__` -/
def cachedInit : List String := ["super().__init__(alphabet, k, s, permutation, offset)", "all_kmers = np.arange(len(self.kmer_alphabet))", "syncmer_indices, _ = super().select_from_kmers(all_kmers)", "self._syncmer_mask = np.zeros(len(self.kmer_alphabet), dtype=bool)", "self._syncmer_mask[syncmer_indices] = True"]
/-- `selector.pyx` `CachedSyncmerSelector.select` -/
def cachedSelect : List String := ["if alphabet_check:", "if not self.alphabet.extends(sequence.alphabet):", "kmers = self.kmer_alphabet.create_kmers(sequence.code)", "return self.select_from_kmers(kmers)"]
/-- `selector.pyx` `CachedSyncmerSelector.select_from_kmers` -/
def cachedFromKmers : List String := ["syncmer_pos = np.where(self._syncmer_mask[kmers])[0]", "return syncmer_pos, kmers[syncmer_pos]"]
/-- `selector.pyx` `MincodeSelector.__init__` -/
def mincodeInit : List String := ["if compression < 1:", "self._compression = compression", "self._kmer_alph = kmer_alphabet", "self._permutation = permutation", "if permutation is None:", "permutation_offset = 0", "permutation_range = len(kmer_alphabet)", "else:", "permutation_offset = permutation.min", "permutation_range = permutation.max - permutation.min + 1", "self._threshold = permutation_offset + permutation_range / compression"]
/-- `selector.pyx` `MincodeSelector.select` -/
def mincodeSelect : List String := ["if alphabet_check:", "if not self._kmer_alph.base_alphabet.extends(sequence.alphabet):", "kmers = self._kmer_alph.create_kmers(sequence.code)", "return self.select_from_kmers(kmers)"]
/-- `selector.pyx` `MincodeSelector.select_from_kmers` -/
def mincodeFromKmers : List String := ["if self._permutation is None:", "ordering = kmers", "else:", "ordering = self._permutation.permute(kmers)", "if len(ordering) != len(kmers):", "mincode_pos = ordering < self._threshold", "return mincode_pos, kmers[mincode_pos]"]
/-- `permutation.pyx` `RandomPermutation.min` -/
def randomMin : List String := ["return np.iinfo(np.int64).min"]
/-- `permutation.pyx` `RandomPermutation.max` -/
def randomMax : List String := ["return np.iinfo(np.int64).max"]
/-- `permutation.pyx` `RandomPermutation.permute` -/
def randomPermute : List String := ["kmers = kmers.astype(np.int64, copy=False)", "kmers = kmers.view(np.uint64)", "permutation = RandomPermutation.LCG_A * kmers + RandomPermutation.LCG_C", "return permutation.view(np.int64)"]
/-- `permutation.pyx` `FrequencyPermutation.__init__` -/
def frequencyInit : List String := ["if len(kmer_alphabet) != len(counts):", "order = np.argsort(counts, kind=\"stable\")", "self._permutation_table = _invert_mapping(order)", "self._kmer_alph = kmer_alphabet"]
/-- `permutation.pyx` `FrequencyPermutation.min` -/
def frequencyMin : List String := ["return 0"]
/-- `permutation.pyx` `FrequencyPermutation.max` -/
def frequencyMax : List String := ["return len(self._permutation_table) - 1"]
/-- `permutation.pyx` `FrequencyPermutation.from_table` -/
def frequencyFromTable : List String := ["return FrequencyPermutation(kmer_table.kmer_alphabet, kmer_table.count())"]
/-- `permutation.pyx` `FrequencyPermutation.permute` -/
def frequencyPermute : List String := ["return self._permutation_table[kmers]"]
/-- `permutation.pyx` `_invert_mapping` -/
def invertMapping : List String := ["cdef int64[:] inverted = np.empty(mapping.shape[0], dtype=np.int64)", "for i in range(mapping.shape[0]):", "value = mapping[i]", "inverted[value] = i", "return np.asarray(inverted)"]
/-- `kmersimilarity.pyx` `ScoreThresholdRule.__init__` -/
def ruleInit : List String := ["if not matrix.is_symmetric():", "self._matrix = matrix", "self._threshold = threshold"]
/-- `kmersimilarity.pyx` `ScoreThresholdRule.similar_kmers` -/
def similarKmers : List String := ["cdef int INIT_SIZE = 1", "if not self._matrix.get_alphabet1().extends(kmer_alphabet.base_alphabet):", "cdef int64 alph_len = len(kmer_alphabet.base_alphabet)", "cdef const int32[:,:] matrix = self._matrix.score_matrix()", "matrix = matrix[:alph_len, :alph_len]", "cdef int32 threshold = self._threshold", "cdef int32[:] max_scores = np.max(self._matrix.score_matrix(), axis=-1)", "cdef int k = kmer_alphabet.k", "cdef int64[:] split_kmer = kmer_alphabet.split(kmer).astype(np.int64)", "cdef int64[:] current_split_kmer = np.zeros(k, dtype=np.int64)", "cdef int64[:,:] similar_split_kmers = np.zeros((INIT_SIZE, k), dtype=np.int64)", "cdef int32[:] positional_thresholds = np.empty(k, dtype=np.int32)", "cdef int total_max_score = 0", "for i in reversed(range(positional_thresholds.shape[0])):", "positional_thresholds[i] = threshold - total_max_score", "total_max_score += max_scores[split_kmer[i]]", "cdef int pos = 0", "cdef int similar_i = 0", "while pos != -1:", "if current_split_kmer[pos] >= alph_len:", "pos -= 1", "if pos != -1:", "current_split_kmer[pos] += 1", "else:", "score = 0", "for i in range(pos+1):", "score += matrix[split_kmer[i], current_split_kmer[i]]", "if score >= positional_thresholds[pos]:", "if pos < k-1:", "pos += 1", "current_split_kmer[pos] = 0", "else:", "if similar_i >= similar_split_kmers.shape[0]:", "similar_split_kmers = expand(np.asarray(similar_split_kmers))", "similar_split_kmers[similar_i] = current_split_kmer", "similar_i += 1", "current_split_kmer[pos] += 1", "else:", "current_split_kmer[pos] += 1", "return kmer_alphabet.fuse(np.asarray(similar_split_kmers[:similar_i]))"]
/-- default values of the optional parameters (every function of the anchored files that has any) -/
def defaults : List (String × List (String × String)) := [("kmeralphabet:KmerAlphabet.__init__", [("spacing", "None")]),
  ("kmertable:KmerTable.from_sequences", [("ref_ids", "None"), ("ignore_masks", "None"), ("alphabet", "None"), ("spacing", "None")]),
  ("kmertable:KmerTable.from_kmers", [("ref_ids", "None"), ("masks", "None")]),
  ("kmertable:KmerTable.from_kmer_selection", [("ref_ids", "None")]),
  ("kmertable:KmerTable.match_table", [("similarity_rule", "None")]),
  ("kmertable:KmerTable.match", [("similarity_rule", "None"), ("ignore_mask", "None")]),
  ("kmertable:KmerTable.count", [("kmers", "None")]),
  ("kmertable:BucketKmerTable.from_sequences", [("ref_ids", "None"), ("ignore_masks", "None"), ("alphabet", "None"), ("spacing", "None"), ("n_buckets", "None")]),
  ("kmertable:BucketKmerTable.from_kmers", [("ref_ids", "None"), ("masks", "None"), ("n_buckets", "None")]),
  ("kmertable:BucketKmerTable.from_kmer_selection", [("ref_ids", "None"), ("n_buckets", "None")]),
  ("kmertable:BucketKmerTable.match_table", [("similarity_rule", "None")]),
  ("kmertable:BucketKmerTable.match", [("similarity_rule", "None"), ("ignore_mask", "None")]),
  ("selector:MinimizerSelector.__init__", [("permutation", "None")]),
  ("selector:MinimizerSelector.select", [("alphabet_check", "True")]),
  ("selector:SyncmerSelector.__init__", [("permutation", "None"), ("offset", "(0,)")]),
  ("selector:SyncmerSelector.select", [("alphabet_check", "True")]),
  ("selector:CachedSyncmerSelector.__init__", [("permutation", "None"), ("offset", "(0,)")]),
  ("selector:CachedSyncmerSelector.select", [("alphabet_check", "True")]),
  ("selector:MincodeSelector.__init__", [("permutation", "None")]),
  ("selector:MincodeSelector.select", [("alphabet_check", "True")])]
/-- parameters in positional order -/
def params : List (String × List String) := [("kmeralphabet:KmerAlphabet.__init__", ["base_alphabet", "k", "spacing"]),
  ("kmeralphabet:KmerAlphabet.extends", ["alphabet"]),
  ("kmeralphabet:KmerAlphabet.encode", ["symbol"]),
  ("kmeralphabet:KmerAlphabet.decode", ["code"]),
  ("kmeralphabet:KmerAlphabet.fuse", ["codes"]),
  ("kmeralphabet:KmerAlphabet.split", ["kmer_code"]),
  ("kmeralphabet:KmerAlphabet._split", ["int64[:] codes not None"]),
  ("kmeralphabet:KmerAlphabet.kmer_array_length", ["int64 length"]),
  ("kmeralphabet:KmerAlphabet.create_kmers", ["seq_code"]),
  ("kmeralphabet:KmerAlphabet._create_continuous_kmers", ["CodeType[:] seq_code not None"]),
  ("kmeralphabet:KmerAlphabet._create_spaced_kmers", ["CodeType[:] seq_code not None"]),
  ("kmeralphabet:KmerAlphabet.__eq__", ["item"]),
  ("kmeralphabet:KmerAlphabet.__contains__", ["symbol"]),
  ("kmeralphabet:_to_array_form", ["model_string"]),
  ("kmertable:KmerTable.__cinit__", ["kmer_alphabet"]),
  ("kmertable:KmerTable.from_sequences", ["k", "sequences", "ref_ids", "ignore_masks", "alphabet", "spacing"]),
  ("kmertable:KmerTable.from_kmers", ["kmer_alphabet", "kmers", "ref_ids", "masks"]),
  ("kmertable:KmerTable.from_kmer_selection", ["kmer_alphabet", "positions", "kmers", "ref_ids"]),
  ("kmertable:KmerTable.from_tables", ["tables"]),
  ("kmertable:KmerTable.from_positions", ["kmer_alphabet", "dict kmer_positions"]),
  ("kmertable:KmerTable.match_table", ["KmerTable table", "similarity_rule"]),
  ("kmertable:KmerTable.match", ["sequence", "similarity_rule", "ignore_mask"]),
  ("kmertable:KmerTable.match_kmer_selection", ["positions", "kmers"]),
  ("kmertable:KmerTable.count", ["kmers"]),
  ("kmertable:KmerTable.__getitem__", ["int64 kmer"]),
  ("kmertable:KmerTable.__contains__", ["int64 kmer"]),
  ("kmertable:KmerTable.__eq__", ["item"]),
  ("kmertable:KmerTable._count_kmers", ["int64[:] kmers"]),
  ("kmertable:KmerTable._count_masked_kmers", ["int64[:] kmers", "uint8[:] mask"]),
  ("kmertable:KmerTable._add_kmers", ["int64[:] kmers", "uint32 ref_id", "uint8[:] mask"]),
  ("kmertable:KmerTable._add_kmer_selection", ["uint32[:] positions", "int64[:] kmers", "uint32 ref_id"]),
  ("kmertable:BucketKmerTable.__cinit__", ["n_buckets", "kmer_alphabet"]),
  ("kmertable:BucketKmerTable.from_sequences", ["k", "sequences", "ref_ids", "ignore_masks", "alphabet", "spacing", "n_buckets"]),
  ("kmertable:BucketKmerTable.from_kmers", ["kmer_alphabet", "kmers", "ref_ids", "masks", "n_buckets"]),
  ("kmertable:BucketKmerTable.from_kmer_selection", ["kmer_alphabet", "positions", "kmers", "ref_ids", "n_buckets"]),
  ("kmertable:BucketKmerTable.from_tables", ["tables"]),
  ("kmertable:BucketKmerTable.match_table", ["BucketKmerTable table", "similarity_rule"]),
  ("kmertable:BucketKmerTable.match", ["sequence", "similarity_rule", "ignore_mask"]),
  ("kmertable:BucketKmerTable.match_kmer_selection", ["positions", "kmers"]),
  ("kmertable:BucketKmerTable.count", ["kmers"]),
  ("kmertable:BucketKmerTable.__getitem__", ["int64 kmer"]),
  ("kmertable:BucketKmerTable.__eq__", ["item"]),
  ("kmertable:BucketKmerTable._count_kmers", ["int64[:] kmers"]),
  ("kmertable:BucketKmerTable._count_masked_kmers", ["int64[:] kmers", "uint8[:] mask"]),
  ("kmertable:BucketKmerTable._add_kmers", ["int64[:] kmers", "uint32 ref_id", "uint8[:] mask"]),
  ("kmertable:BucketKmerTable._add_kmer_selection", ["uint32[:] positions", "int64[:] kmers", "uint32 ref_id"]),
  ("kmertable:_count_table_entries", ["ptr[:] count_array", "ptr[:] ptr_array", "int64 element_size"]),
  ("kmertable:_init_c_arrays", ["ptr[:] ptr_array", "int64 element_size"]),
  ("kmertable:_equal_c_arrays", ["ptr[:] self_ptr_array", "ptr[:] other_ptr_array"]),
  ("kmertable:_append_entries", ["ptr[:] trg_ptr_array", "ptr[:] src_ptr_array"]),
  ("kmertable:_pickle_c_arrays", ["ptr[:] ptr_array"]),
  ("kmertable:_unpickle_c_arrays", ["ptr[:] ptr_array", "state"]),
  ("kmertable:_deallocate_ptrs", ["ptr[:] ptrs"]),
  ("kmertable:expand", ["np.ndarray array"]),
  ("kmertable:_prepare_mask", ["kmer_alphabet", "ignore_mask", "seq_length"]),
  ("kmertable:_to_kmer_mask", ["uint8[:] mask not None", "kmer_alphabet"]),
  ("kmertable:_check_position_shape", ["position_arrays", "kmer_arrays"]),
  ("kmertable:_check_same_kmer_alphabet", ["tables"]),
  ("kmertable:_check_same_buckets", ["tables"]),
  ("kmertable:_check_kmer_bounds", ["kmers", "kmer_alphabet"]),
  ("kmertable:_check_multiple_kmer_bounds", ["kmer_arrays", "kmer_alphabet"]),
  ("kmertable:_check_kmer_alphabet", ["kmer_alph"]),
  ("kmertable:_compute_masks", ["masks", "sequences"]),
  ("kmertable:_compute_ref_ids", ["ref_ids", "sequences"]),
  ("kmertable:_compute_alphabet", ["given_alphabet", "sequence_alphabets"]),
  ("kmertable:_to_string", ["table"]),
  ("selector:MinimizerSelector.__init__", ["kmer_alphabet", "window", "permutation"]),
  ("selector:MinimizerSelector.select", ["sequence", "bint alphabet_check"]),
  ("selector:MinimizerSelector.select_from_kmers", ["kmers"]),
  ("selector:SyncmerSelector.__init__", ["alphabet", "k", "s", "permutation", "offset"]),
  ("selector:SyncmerSelector.select", ["sequence", "bint alphabet_check"]),
  ("selector:SyncmerSelector.select_from_kmers", ["kmers"]),
  ("selector:SyncmerSelector._filter_syncmer_pos", ["min_pos"]),
  ("selector:CachedSyncmerSelector.__init__", ["alphabet", "k", "s", "permutation", "offset"]),
  ("selector:CachedSyncmerSelector.select", ["sequence", "bint alphabet_check"]),
  ("selector:CachedSyncmerSelector.select_from_kmers", ["kmers"]),
  ("selector:MincodeSelector.__init__", ["kmer_alphabet", "compression", "permutation"]),
  ("selector:MincodeSelector.select", ["sequence", "bint alphabet_check"]),
  ("selector:MincodeSelector.select_from_kmers", ["kmers"]),
  ("selector:_minimize", ["int64[:] kmers", "int64[:] ordering", "uint32 window", "bint include_duplicates"]),
  ("selector:chunk_wise_forward_argcummin", ["int64[:] values", "uint32 chunk_size"]),
  ("selector:chunk_wise_reverse_argcummin", ["int64[:] values", "uint32 chunk_size"]),
  ("permutation:Permutation.permute", ["kmers"]),
  ("permutation:RandomPermutation.permute", ["kmers"]),
  ("permutation:FrequencyPermutation.__init__", ["kmer_alphabet", "counts"]),
  ("permutation:FrequencyPermutation.from_table", ["kmer_table"]),
  ("permutation:FrequencyPermutation.permute", ["kmers"]),
  ("permutation:_invert_mapping", ["int64[:] mapping"]),
  ("kmersimilarity:SimilarityRule.similar_kmers", ["kmer_alphabet", "kmer"]),
  ("kmersimilarity:ScoreThresholdRule.__init__", ["matrix", "int32 threshold"]),
  ("kmersimilarity:ScoreThresholdRule.similar_kmers", ["kmer_alphabet", "kmer"]),
  ("kmersimilarity:expand", ["np.ndarray array"])]
/-- exception class and guard of every `raise`, per function, in source order (which refusal wins) -/
def errorPaths : List (String × List (String × String)) := [("kmeralphabet:KmerAlphabet.__init__", [("TypeError", "not isinstance(base_alphabet, Alphabet)"), ("ValueError", "k < 2"), ("ValueError", "(self._spacing < 0).any()"), ("ValueError", "len(np.unique(self._spacing)) != len(self._spacing)"), ("ValueError", "spacing is not None and len(self._spacing) != self._k")]),
  ("kmeralphabet:KmerAlphabet.fuse", [("AlphabetError", "codes.shape[-1] != self._k"), ("AlphabetError", "np.any(codes > len(self._base_alph))")]),
  ("kmeralphabet:KmerAlphabet.split", [("AlphabetError", "np.any(kmer_code >= len(self)) or np.any(kmer_code < 0)")]),
  ("kmeralphabet:KmerAlphabet._create_continuous_kmers", [("ValueError", "len(seq_code) < <unsigned int>k"), ("AlphabetError", "code >= alphabet_length"), ("AlphabetError", "code >= alphabet_length")]),
  ("kmeralphabet:KmerAlphabet._create_spaced_kmers", [("ValueError", "len(seq_code) < <unsigned int>max_offset"), ("AlphabetError", "code >= alphabet_length")]),
  ("kmertable:KmerTable.__cinit__", [("Exception", "self._is_initialized()")]),
  ("kmertable:KmerTable.from_positions", [("AlphabetError", "kmer < 0 or kmer >= alph_length"), ("IndexError", "positions.shape[1] != 2"), ("MemoryError", "not kmer_ptr")]),
  ("kmertable:KmerTable.match", [("ValueError", "len(sequence.code) < self._k"), ("ValueError", "not self._kmer_alph.base_alphabet.extends(sequence.alphabet)")]),
  ("kmertable:KmerTable.match_kmer_selection", [("IndexError", "positions.shape[0] != kmers.shape[0]")]),
  ("kmertable:KmerTable.__getitem__", [("AlphabetError", "kmer >= len(self)")]),
  ("kmertable:KmerTable._add_kmers", [("IndexError", "mask.shape[0] != kmers.shape[0]")]),
  ("kmertable:KmerTable._add_kmer_selection", [("IndexError", "positions.shape[0] != kmers.shape[0]")]),
  ("kmertable:BucketKmerTable.__cinit__", [("Exception", "self._is_initialized()")]),
  ("kmertable:BucketKmerTable.match", [("ValueError", "len(sequence.code) < self._k"), ("ValueError", "not self._kmer_alph.base_alphabet.extends(sequence.alphabet)")]),
  ("kmertable:BucketKmerTable.match_kmer_selection", [("IndexError", "positions.shape[0] != kmers.shape[0]")]),
  ("kmertable:BucketKmerTable.__getitem__", [("AlphabetError", "kmer >= len(self)")]),
  ("kmertable:BucketKmerTable._add_kmers", [("IndexError", "mask.shape[0] != kmers.shape[0]")]),
  ("kmertable:BucketKmerTable._add_kmer_selection", [("IndexError", "positions.shape[0] != kmers.shape[0]")]),
  ("kmertable:_init_c_arrays", [("MemoryError", "not bucket_ptr")]),
  ("kmertable:_unpickle_c_arrays", [("MemoryError", "not bucket_ptr")]),
  ("kmertable:_prepare_mask", [("TypeError", "not isinstance(ignore_mask, np.ndarray)"), ("ValueError", "ignore_mask.dtype != np.dtype(bool)"), ("IndexError", "len(ignore_mask) != seq_length")]),
  ("kmertable:_check_position_shape", [("IndexError", "len(position_arrays) != len(kmer_arrays)"), ("IndexError", "len(positions) != len(kmers)")]),
  ("kmertable:_check_same_kmer_alphabet", [("ValueError", "not alph == ref_alph")]),
  ("kmertable:_check_same_buckets", [("ValueError", "not buckets == ref_n_buckets")]),
  ("kmertable:_check_kmer_bounds", [("AlphabetError", "np.any(kmers < 0) or np.any(kmers >= len(kmer_alphabet))")]),
  ("kmertable:_check_multiple_kmer_bounds", [("AlphabetError", "np.any(kmers < 0) or np.any(kmers >= len(kmer_alphabet))")]),
  ("kmertable:_check_kmer_alphabet", [("TypeError", "not isinstance(kmer_alph, KmerAlphabet)")]),
  ("kmertable:_compute_masks", [("IndexError", "len(masks) != len(sequences)")]),
  ("kmertable:_compute_ref_ids", [("IndexError", "len(ref_ids) != len(sequences)")]),
  ("kmertable:_compute_alphabet", [("ValueError", "alphabet is None"), ("ValueError", "not given_alphabet.extends(alph)")]),
  ("selector:MinimizerSelector.__init__", [("ValueError", "window < 2")]),
  ("selector:MinimizerSelector.select", [("ValueError", "not self._kmer_alph.base_alphabet.extends(sequence.alphabet)")]),
  ("selector:MinimizerSelector.select_from_kmers", [("IndexError", "len(ordering) != len(kmers)"), ("ValueError", "len(kmers) < self._window")]),
  ("selector:SyncmerSelector.__init__", [("ValueError", "not s < k"), ("IndexError", "(self._offset >= self._window).any() or (self._offset < 0).any()"), ("ValueError", "len(np.unique(self._offset)) != len(self._offset)")]),
  ("selector:SyncmerSelector.select", [("ValueError", "not self._alphabet.extends(sequence.alphabet)"), ("IndexError", "len(ordering) != len(smers)")]),
  ("selector:SyncmerSelector.select_from_kmers", [("IndexError", "len(ordering) != len(smers)")]),
  ("selector:CachedSyncmerSelector.select", [("ValueError", "not self.alphabet.extends(sequence.alphabet)")]),
  ("selector:MincodeSelector.__init__", [("ValueError", "compression < 1")]),
  ("selector:MincodeSelector.select", [("ValueError", "not self._kmer_alph.base_alphabet.extends(sequence.alphabet)")]),
  ("selector:MincodeSelector.select_from_kmers", [("IndexError", "len(ordering) != len(kmers)")]),
  ("permutation:FrequencyPermutation.__init__", [("IndexError", "len(kmer_alphabet) != len(counts)")]),
  ("kmersimilarity:ScoreThresholdRule.__init__", [("ValueError", "not matrix.is_symmetric()")]),
  ("kmersimilarity:ScoreThresholdRule.similar_kmers", [("ValueError", "not self._matrix.get_alphabet1().extends(kmer_alphabet.base_alphabet)")])]

end BiotiteModel.C10.Expected

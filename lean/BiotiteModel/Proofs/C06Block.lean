import BiotiteModel.Proofs.C06TableSingle
/-!
# C06 — cutting a block into categories and a file into blocks
-/
namespace BiotiteModel.C06

/-- A category the table theorems cover: names without blank/`.`/quote, distinct column names,
at least one column, all columns of the same length `r ≥ 1`, all values single-line and not
containing both quote characters. -/
structure GoodCat (c : Str × Cols) : Prop where
  name : NameOk c.1
  keys : ∀ kv ∈ c.2, NameOk kv.1
  nodup : (c.2.map (·.1)).Nodup
  ne : c.2 ≠ []
  rect : ∃ r, 1 ≤ r ∧ ∀ kv ∈ c.2, kv.2.length = r
  vals : ∀ kv ∈ c.2, ∀ v ∈ kv.2, SingleLine v ∧ ¬ BothQuotes v

/-- the written lines of a good category (looped or single-row) -/
theorem goodCat_lines (c : Str × Cols) (h : GoodCat c) :
    ∃ W, categorySerialize c.1 c.2 = .ok (unlines W) ∧ CatLines c.1 W ∧
      categoryDeserialize (unlines W) = .ok c := by
  obtain ⟨name, cols⟩ := c
  obtain ⟨r, hr1, hrect⟩ := h.rect
  by_cases hr : 2 ≤ r
  · exact table_looped name cols r h.name h.keys h.nodup h.ne hr hrect h.vals
  · have hr' : r = 1 := by omega
    subst hr'
    let kvs : List (Str × Str) := cols.map (fun kv => (kv.1, kv.2.headD []))
    have hcols : kvs.map (fun kv => (kv.1, [kv.2])) = cols := by
      simp only [kvs, List.map_map]
      conv => rhs; rw [← List.map_id cols]
      apply List.map_congr_left
      intro kv hkv
      have := hrect kv hkv
      obtain ⟨k, vs⟩ := kv
      cases vs with
      | nil => simp at this
      | cons v vs' =>
        cases vs' with
        | nil => rfl
        | cons _ _ => simp at this
    have := table_single name kvs h.name
      (by intro kv hkv
          simp only [kvs, List.mem_map] at hkv
          obtain ⟨kv', hkv', rfl⟩ := hkv
          exact h.keys kv' hkv')
      (by simpa [kvs, List.map_map, Function.comp_def] using h.nodup)
      (by simpa [kvs] using h.ne)
      (by intro kv hkv
          simp only [kvs, List.mem_map] at hkv
          obtain ⟨kv', hkv', rfl⟩ := hkv
          have hl := hrect kv' hkv'
          obtain ⟨k, vs⟩ := kv'
          cases vs with
          | nil => simp at hl
          | cons v vs' => exact h.vals (k, v :: vs') hkv' v (by simp))
    rw [hcols] at this
    exact this

/-! ## `catLines`: all that `CIFCategory.deserialize` looks at -/

def catLines (text : Str) : List Str := ((splitLines text).filter (fun l => !isEmptyLine l)).map strip

theorem categoryDeserialize_congr (t1 t2 : Str) (h : catLines t1 = catLines t2) :
    categoryDeserialize t1 = categoryDeserialize t2 := by
  unfold categoryDeserialize
  simp only [catLines] at h
  rw [h]

theorem catLines_comment (W : List Str) (hnl : ∀ w ∈ W, NoBreak w) :
    catLines (unlines (W ++ [['#']])) = catLines (unlines W) := by
  have hnl' : ∀ w ∈ W ++ [['#']], NoBreak w := by
    intro w hw
    rcases List.mem_append.mp hw with h | h
    · exact hnl w h
    · simp at h; subst h; decide
  unfold catLines
  rw [splitLines_unlines _ hnl', splitLines_unlines _ hnl, List.filter_append]
  have : [['#']].filter (fun l => !isEmptyLine l) = [] := by decide
  rw [this, List.append_nil]

/-! ## the scan of `CIFBlock.deserialize` -/

theorem blockScan_cons (cur : Option Str) (segs : List (Option Str × List Str)) (line : Str) (rest : List Str) :
    blockScan cur segs (line :: rest) =
      (if isEmptyLine line then blockScan cur (pushLine line segs) rest
       else
        if isLoopStart line then
          match rest with
          | [] => .error .indexError
          | [] :: _ => .error .indexError
          | nxt :: _ => blockScan (parseCategoryName nxt) ((parseCategoryName nxt, [line]) :: segs) rest
        else if parseCategoryName line != cur && (parseCategoryName line).isSome then
          blockScan (parseCategoryName line) ((parseCategoryName line, [line]) :: segs) rest
        else blockScan cur (pushLine line segs) rest) := by
  rw [blockScan.eq_def]
  rfl

/-- lines that continue the category `name` -/
def ContLine (name : Str) (l : Str) : Prop :=
  isEmptyLine l = true ∨ (isLoopStart l = false ∧ (parseCategoryName l = none ∨ parseCategoryName l = some name))

theorem blockScan_cont (name : Str) (L : List Str) (hL : ∀ l ∈ L, ContLine name l)
    (a : List Str) (acc : List (Option Str × List Str)) (more : List Str) :
    blockScan (some name) ((some name, a) :: acc) (L ++ more) =
      blockScan (some name) ((some name, L.reverse ++ a) :: acc) more := by
  induction L generalizing a with
  | nil => simp
  | cons l L ih =>
    have hl := hL l (by simp)
    have ih' := ih (fun x hx => hL x (by simp [hx])) (l :: a)
    simp only [List.cons_append, List.reverse_cons, List.append_assoc, List.singleton_append]
    rw [blockScan_cons]
    rcases hl with he | ⟨hloop, hn⟩
    · simp only [he, if_true, pushLine]
      exact ih'
    · by_cases he : isEmptyLine l = true
      · simp only [he, if_true, pushLine]; exact ih'
      · simp only [he, Bool.false_eq_true, if_false, hloop]
        rcases hn with hn | hn
        · simp only [hn, Option.isSome_none, Bool.and_false, Bool.false_eq_true, if_false, pushLine]
          exact ih'
        · simp only [hn, bne_self_eq_false, Bool.false_and, Bool.false_eq_true, if_false, pushLine]
          exact ih'

/-- one category segment: its written lines followed by empty/comment lines -/
theorem blockScan_segment (name : Str) (W : List Str) (hcl : CatLines name W) (E : List Str)
    (hE : ∀ e ∈ E, isEmptyLine e = true) (cur : Option Str) (hcur : cur ≠ some name)
    (acc : List (Option Str × List Str)) (more : List Str) :
    blockScan cur acc (W ++ E ++ more) =
      blockScan (some name) ((some name, (W ++ E).reverse) :: acc) more := by
  obtain ⟨l0, rest, hW, hstart⟩ := hcl.start
  subst hW
  have htail : ∀ l ∈ rest ++ E, ContLine name l := by
    intro l hl
    rcases List.mem_append.mp hl with h | h
    · exact Or.inr (hcl.tail l h)
    · exact Or.inl (hE l h)
  have hne0 : isEmptyLine l0 = false := hcl.nonempty l0 (by simp)
  have hcont := blockScan_cont name (rest ++ E) htail [l0] acc more
  have hrev : (rest ++ E).reverse ++ [l0] = (l0 :: rest ++ E).reverse := by simp
  rw [hrev, List.append_assoc] at hcont
  simp only [List.cons_append, List.append_assoc]
  rw [blockScan_cons]
  simp only [hne0, Bool.false_eq_true, if_false]
  rcases hstart with ⟨hloop, k1, rest', hrest, hk1, hpk1⟩ | ⟨hloop, hp0⟩
  · simp only [hloop, if_true]
    subst hrest
    cases k1 with
    | nil => exact absurd rfl hk1
    | cons c cs =>
      simp only [List.cons_append, hpk1]
      simpa [List.append_assoc] using hcont
  · have hne : (some name != cur && (some name : Option Str).isSome) = true := by
      simp only [Option.isSome_some, Bool.and_true, bne_iff_ne, ne_eq]
      exact fun e => hcur e.symm
    rw [hp0]
    simp only [hloop, Bool.false_eq_true, if_false]
    rw [if_pos hne]
    simpa [List.append_assoc] using hcont

theorem nodup_map_some {α : Type} (l : List α) (h : l.Nodup) : (l.map some).Nodup := by
  induction l with
  | nil => simp
  | cons a l ih =>
    have h' := List.nodup_cons.mp h
    rw [List.map_cons]
    refine List.nodup_cons.mpr ⟨?_, ih h'.2⟩
    intro hm
    simp only [List.mem_map, Option.some.injEq] at hm
    obtain ⟨b, hb, rfl⟩ := hm
    exact h'.1 hb

/-! ## a whole block -/

/-- categories paired with their written lines -/
inductive CatsLines : List (Str × Cols) → List (List Str) → Prop where
  | nil : CatsLines [] []
  | cons {c : Str × Cols} {W : List Str} {cs : List (Str × Cols)} {Ws : List (List Str)} :
      categorySerialize c.1 c.2 = .ok (unlines W) → CatLines c.1 W → categoryDeserialize (unlines W) = .ok c →
      CatsLines cs Ws → CatsLines (c :: cs) (W :: Ws)

theorem catsLines_exists (cats : List (Str × Cols)) (h : ∀ c ∈ cats, GoodCat c) : ∃ Ws, CatsLines cats Ws := by
  induction cats with
  | nil => exact ⟨[], CatsLines.nil⟩
  | cons c cs ih =>
    obtain ⟨Ws, hWs⟩ := ih (fun x hx => h x (by simp [hx]))
    obtain ⟨W, h1, h2, h3⟩ := goodCat_lines c (h c (by simp))
    exact ⟨W :: Ws, CatsLines.cons h1 h2 h3 hWs⟩

def segLines (Ws : List (List Str)) : List Str := (Ws.map (· ++ [['#']])).flatten

/-- the segments the scan produces, in order -/
def mkSegs : List (Str × Cols) → List (List Str) → List (Option Str × List Str)
  | c :: cs, W :: Ws => (some c.1, (W ++ [['#']]).reverse) :: mkSegs cs Ws
  | _, _ => []

theorem unlines_append (A B : List Str) : unlines (A ++ B) = unlines A ++ unlines B := by
  simp [unlines]

theorem blockSerialize_lines (bname : Str) (cats : List (Str × Cols)) (Ws : List (List Str))
    (h : CatsLines cats Ws) (hbn : NoBreak bname) :
    blockSerialize bname cats = .ok (unlines ((sData ++ bname) :: ['#'] :: segLines Ws)) := by
  have hm : mapM' catBlockText cats = .ok (Ws.map (fun W => unlines (W ++ [['#']]))) := by
    induction h with
    | nil => rfl
    | cons h1 _ _ _ ih =>
      simp only [mapM', catBlockText, h1, ih, bind, Except.bind, List.map_cons]
      simp [unlines]
  have hbk : bname.any isBreak = false := by
    apply Bool.eq_false_iff.mpr
    intro hh
    simp only [List.any_eq_true] at hh
    obtain ⟨c, hc, hb⟩ := hh
    rw [hbn c hc] at hb; exact absurd hb (by simp)
  unfold blockSerialize
  simp only [hbk, Bool.false_eq_true, if_false, hm, bind, Except.bind]
  congr 1
  have hflat : (Ws.map (fun W => unlines (W ++ [['#']]))).flatten = unlines (segLines Ws) := by
    clear hm h
    induction Ws with
    | nil => rfl
    | cons W Ws ih =>
      rw [List.map_cons, List.flatten_cons, ih]
      simp only [segLines, List.map_cons, List.flatten_cons, unlines_append]
  rw [hflat]
  simp [unlines]

theorem blockScan_all (cats : List (Str × Cols)) (Ws : List (List Str)) (h : CatsLines cats Ws)
    (hnd : (cats.map (·.1)).Nodup) (cur : Option Str) (hcur : ∀ c ∈ cats, cur ≠ some c.1)
    (acc : List (Option Str × List Str)) :
    blockScan cur acc (segLines Ws) = .ok ((mkSegs cats Ws).reverse ++ acc) := by
  induction h generalizing cur acc with
  | nil => simp [segLines, mkSegs, blockScan]
  | @cons c W cs Ws' h1 h2 h3 hrest ih =>
    have hnd' := List.nodup_cons.mp (by rw [List.map_cons] at hnd; exact hnd)
    have hseg := blockScan_segment c.1 W h2 [['#']] (by intro e he; simp at he; subst he; decide) cur
      (hcur c (by simp)) acc (segLines Ws')
    have e : segLines (W :: Ws') = W ++ [['#']] ++ segLines Ws' := by simp [segLines]
    rw [e, hseg]
    rw [ih hnd'.2 (some c.1) (by
      intro c' hc' heq
      apply hnd'.1
      simp only [Option.some.injEq] at heq
      rw [heq]
      exact List.mem_map_of_mem hc')]
    simp [mkSegs]

theorem closeSegs_mkSegs (cats : List (Str × Cols)) (Ws : List (List Str)) (h : CatsLines cats Ws) :
    closeSegs ((mkSegs cats Ws).reverse) =
      (cats.zip Ws).map (fun cw => (some cw.1.1, unlines (cw.2 ++ [['#']]))) := by
  simp only [closeSegs, List.reverse_reverse]
  induction h with
  | nil => rfl
  | cons _ _ _ _ ih => simp [mkSegs, ih]

theorem header_facts (bname : Str) (hb : NameOk bname) :
    isEmptyLine (sData ++ bname) = false ∧ isLoopStart (sData ++ bname) = false ∧
    parseCategoryName (sData ++ bname) = none ∧ parseDataBlockName (sData ++ bname) = some bname ∧
    NoBreak (sData ++ bname) := by
  have hnows : ∀ c ∈ sData ++ bname, isWs c = false := by
    intro c hc
    rcases List.mem_append.mp hc with h | h
    · simp only [sData, List.mem_cons, List.mem_nil_iff, or_false] at h
      rcases h with rfl | rfl | rfl | rfl | rfl <;> decide
    · exact (hb c h).1
  have hedges := edges_of_nows (sData ++ bname) (by simp [sData]) hnows
  have hstrip : strip (sData ++ bname) = sData ++ bname := by simpa using strip_edges_spaces _ hedges 0
  refine ⟨?_, by simp [isLoopStart, sLoop, sData, List.isPrefixOf], by simp [parseCategoryName, sData], ?_, ?_⟩
  · unfold isEmptyLine
    rw [hstrip]
    simp [sData]
  · simp [parseDataBlockName, sData, List.isPrefixOf]
  · exact noBreak_of_nows _ hnows

/-- **A whole block**: serialise, cut into categories, parse each category. -/
theorem block_roundtrip (bname : Str) (cats : List (Str × Cols)) (hb : NameOk bname)
    (hcats : ∀ c ∈ cats, GoodCat c) (hnd : (cats.map (·.1)).Nodup) :
    ∃ Ws, CatsLines cats Ws ∧
      blockSerialize bname cats = .ok (unlines ((sData ++ bname) :: ['#'] :: segLines Ws)) ∧
      blockParse (unlines ((sData ++ bname) :: ['#'] :: segLines Ws)) = .ok (cats.map (fun c => (some c.1, c))) := by
  obtain ⟨Ws, hWs⟩ := catsLines_exists cats hcats
  refine ⟨Ws, hWs, blockSerialize_lines bname cats Ws hWs (noBreak_of_nows _ (fun c hc => (hb c hc).1)), ?_⟩
  obtain ⟨hh1, hh2, hh3, _, hh5⟩ := header_facts bname hb
  -- no line break inside any line
  have hsegnl : ∀ l ∈ segLines Ws, NoBreak l := by
    clear hcats hnd
    induction hWs with
    | nil => simp [segLines]
    | cons _ h2 _ _ ih =>
      intro l hl
      simp only [segLines, List.map_cons, List.flatten_cons, List.mem_append] at hl
      rcases hl with (hl | hl) | hl
      · exact h2.nonl l hl
      · simp at hl; subst hl; decide
      · exact ih l hl
  have hnl : ∀ l ∈ (sData ++ bname) :: ['#'] :: segLines Ws, NoBreak l := by
    intro l hl
    simp only [List.mem_cons] at hl
    rcases hl with rfl | rfl | hl
    · exact hh5
    · decide
    · exact hsegnl l hl
  have hscan : blockScan none [] ((sData ++ bname) :: ['#'] :: segLines Ws) = .ok ((mkSegs cats Ws).reverse) := by
    rw [blockScan_cons]
    simp only [hh1, Bool.false_eq_true, if_false, hh2, hh3]
    simp only [bne_self_eq_false, Bool.false_and, Bool.false_eq_true, if_false, pushLine]
    rw [blockScan_cons]
    have he : isEmptyLine ['#'] = true := by decide
    simp only [he, if_true, pushLine]
    have := blockScan_all cats Ws hWs hnd none (by intro c _ h; cases h) []
    simpa using this
  have hkeys : (((cats.zip Ws).map (fun cw => ((some cw.1.1 : Option Str), unlines (cw.2 ++ [['#']])))).map (·.1)).Nodup := by
    have hlen : ∀ (cs : List (Str × Cols)) (ws : List (List Str)), CatsLines cs ws →
        ((cs.zip ws).map (fun cw => ((some cw.1.1 : Option Str), unlines (cw.2 ++ [['#']])))).map (·.1) = (cs.map (·.1)).map some := by
      intro cs ws h
      induction h with
      | nil => rfl
      | cons _ _ _ _ ih => simp only [List.zip_cons_cons, List.map_cons, ih]
    rw [hlen cats Ws hWs]
    exact nodup_map_some _ hnd
  have hbd : blockDeserialize (unlines ((sData ++ bname) :: ['#'] :: segLines Ws)) =
      .ok ((cats.zip Ws).map (fun cw => (some cw.1.1, unlines (cw.2 ++ [['#']])))) := by
    unfold blockDeserialize
    rw [splitLines_unlines _ hnl, hscan]
    simp only [bind, Except.bind]
    rw [closeSegs_mkSegs cats Ws hWs]
    unfold toDict
    rw [foldl_dictSet_nodup _ hkeys]
  unfold blockParse
  rw [hbd]
  simp only [bind, Except.bind]
  clear hbd hkeys hscan hnl hsegnl hcats hnd
  induction hWs with
  | nil => rfl
  | cons _ h2 h3 _ ih =>
    have hc := categoryDeserialize_congr _ _ (catLines_comment _ h2.nonl)
    simp only [List.zip_cons_cons, List.map_cons, mapM', hc, h3, ih, bind, Except.bind]

end BiotiteModel.C06

import BiotiteModel.Proofs.C07Num
/-! MODEL / ENDMDL indexing: `selectModel` on a file made of model blocks. -/
namespace BiotiteModel.C07

abbrev Line := List Char

theorem enumFrom_append {α : Type} (l1 l2 : List α) : ∀ o, enumFrom o (l1 ++ l2) = enumFrom o l1 ++ enumFrom (o + l1.length) l2 := by
  induction l1 with
  | nil => intro o; simp [enumFrom]
  | cons x xs ih =>
    intro o
    simp only [List.cons_append, enumFrom, ih, List.length_cons]
    congr 3; omega

theorem mem_enumFrom {α : Type} (l : List α) : ∀ o p, p ∈ enumFrom o l → o ≤ p.1 ∧ p.1 < o + l.length ∧ p.2 ∈ l := by
  induction l with
  | nil => intro o p h; simp [enumFrom] at h
  | cons x xs ih =>
    intro o p h
    simp only [enumFrom, List.mem_cons] at h
    rcases h with rfl | h
    · simp
    · have := ih (o + 1) p h
      simp only [List.length_cons, List.mem_cons]
      refine ⟨by omega, by omega, Or.inr this.2.2⟩

/-- atom records of `lines` (numbered from `o`) with index in `[lo, hi)` -/
def recsFrom (o : Nat) (lines : List Line) (lo : Nat) (hi : Option Nat) : List Line :=
  ((enumFrom o lines).filter fun p =>
    isAtomLine p.2 && decide (lo ≤ p.1) && (match hi with | some h => decide (p.1 < h) | none => true)).map (·.2)

theorem recordsBetween_eq (lines : List Line) (lo : Nat) (hi : Option Nat) :
    recordsBetween lines lo hi = recsFrom 0 lines lo hi := rfl

theorem recsFrom_append (o : Nat) (l1 l2 : List Line) (lo : Nat) (hi : Option Nat) :
    recsFrom o (l1 ++ l2) lo hi = recsFrom o l1 lo hi ++ recsFrom (o + l1.length) l2 lo hi := by
  simp [recsFrom, enumFrom_append]

theorem recsFrom_nil_of (o : Nat) (l : List Line) (lo : Nat) (hi : Option Nat)
    (h : ∀ p ∈ enumFrom o l, (isAtomLine p.2 && decide (lo ≤ p.1) &&
      (match hi with | some h => decide (p.1 < h) | none => true)) = false) : recsFrom o l lo hi = [] := by
  unfold recsFrom
  rw [List.filter_eq_nil_iff.2 (fun p hp => by simp [h p hp])]
  rfl

theorem recsFrom_noatoms (o : Nat) (l : List Line) (lo : Nat) (hi : Option Nat)
    (h : ∀ x ∈ l, isAtomLine x = false) : recsFrom o l lo hi = [] :=
  recsFrom_nil_of o l lo hi fun p hp => by simp [h p.2 (mem_enumFrom l o p hp).2.2]

theorem recsFrom_below (o : Nat) (l : List Line) (lo : Nat) (hi : Option Nat) (h : o + l.length ≤ lo) :
    recsFrom o l lo hi = [] :=
  recsFrom_nil_of o l lo hi fun p hp => by
    have := (mem_enumFrom l o p hp).2.1
    have : ¬ lo ≤ p.1 := by omega
    simp [this]

theorem recsFrom_above (o : Nat) (l : List Line) (lo h : Nat) (hh : h ≤ o) : recsFrom o l lo (some h) = [] :=
  recsFrom_nil_of o l lo (some h) fun p hp => by
    have := (mem_enumFrom l o p hp).1
    have : ¬ p.1 < h := by omega
    simp [this]

theorem recsFrom_all (o : Nat) (l : List Line) (lo : Nat) (hi : Option Nat) (hat : ∀ x ∈ l, isAtomLine x = true)
    (hlo : lo ≤ o) (hhi : ∀ h, hi = some h → o + l.length ≤ h) : recsFrom o l lo hi = l := by
  unfold recsFrom
  have : (enumFrom o l).filter (fun p => isAtomLine p.2 && decide (lo ≤ p.1) &&
      (match hi with | some h => decide (p.1 < h) | none => true)) = enumFrom o l := by
    rw [List.filter_eq_self]
    intro p hp
    have hm := mem_enumFrom l o p hp
    have h1 : lo ≤ p.1 := by omega
    cases hi with
    | none => simp [hat p.2 hm.2.2, h1]
    | some h => have := hhi h rfl; simp [hat p.2 hm.2.2, h1]; omega
  rw [this]
  clear this hhi hlo
  induction l generalizing o with
  | nil => rfl
  | cons x xs ih =>
    simp only [enumFrom, List.map_cons]
    rw [ih (o + 1) (fun y hy => hat y (List.mem_cons_of_mem _ hy))]

theorem getD_mem {α : Type} (l : List α) (k : Nat) (d : α) (h : k < l.length) : l.getD k d ∈ l := by
  induction l generalizing k with
  | nil => simp at h
  | cons x xs ih =>
    cases k with
    | zero => simp
    | succ k => simp only [List.getD_cons_succ]; exact List.mem_cons_of_mem _ (ih k (by simpa using h))

/-! ### files made of model blocks -/

def endmdl : Line := "ENDMDL".toList

/-- one model as written: `MODEL` record, atom records, `ENDMDL` -/
def block (b : Line × List Line) : List Line := b.1 :: (b.2 ++ [endmdl])

def fileOf (bs : List (Line × List Line)) (tail : List Line) : List Line := (bs.map block).flatten ++ tail

/-- line index of every `MODEL` record -/
def offs : Nat → List (Line × List Line) → List Nat
  | _, [] => []
  | o, b :: r => o :: offs (o + b.2.length + 2) r

structure GoodFile (bs : List (Line × List Line)) (tail : List Line) : Prop where
  ml : ∀ b ∈ bs, isModelLine b.1 = true ∧ isAtomLine b.1 = false
  atoms : ∀ b ∈ bs, ∀ x ∈ b.2, isAtomLine x = true ∧ isModelLine x = false
  tail : ∀ x ∈ tail, isAtomLine x = false ∧ isModelLine x = false

theorem GoodFile.tl {b : Line × List Line} {r : List (Line × List Line)} {tail : List Line}
    (g : GoodFile (b :: r) tail) : GoodFile r tail :=
  ⟨fun x hx => g.ml x (List.mem_cons_of_mem _ hx), fun x hx => g.atoms x (List.mem_cons_of_mem _ hx), g.tail⟩

theorem block_length (b : Line × List Line) : (block b).length = b.2.length + 2 := by simp [block]

theorem offs_length (bs : List (Line × List Line)) : ∀ o, (offs o bs).length = bs.length := by
  induction bs with
  | nil => intro o; rfl
  | cons b r ih => intro o; simp [offs, ih]

theorem offs_ge (bs : List (Line × List Line)) : ∀ o, ∀ x ∈ offs o bs, o ≤ x := by
  induction bs with
  | nil => intro o x h; simp [offs] at h
  | cons b r ih =>
    intro o x h
    simp only [offs, List.mem_cons] at h
    rcases h with rfl | h
    · exact Nat.le_refl _
    · have := ih _ x h; omega

theorem fileOf_cons (b : Line × List Line) (r : List (Line × List Line)) (tail : List Line) :
    fileOf (b :: r) tail = block b ++ fileOf r tail := by
  simp [fileOf]

/-- `_model_start_i` of a block file -/
theorem starts_fileOf (bs : List (Line × List Line)) (tail : List Line) (g : GoodFile bs tail) :
    ∀ o, ((enumFrom o (fileOf bs tail)).filter (fun p => isModelLine p.2)).map (·.1) = offs o bs := by
  induction bs with
  | nil =>
    intro o
    simp only [fileOf, List.map_nil, List.flatten_nil, List.nil_append, offs]
    rw [List.filter_eq_nil_iff.2 (fun p hp => by simp [(g.tail p.2 (mem_enumFrom tail o p hp).2.2).2])]
    rfl
  | cons b r ih =>
    intro o
    have hml := g.ml b List.mem_cons_self
    have hat := g.atoms b List.mem_cons_self
    rw [fileOf_cons, enumFrom_append, List.filter_append, List.map_append, block_length, ih g.tl]
    have : ((enumFrom o (block b)).filter (fun p => isModelLine p.2)).map (·.1) = [o] := by
      simp only [block, enumFrom]
      rw [List.filter_cons_of_pos (by simpa using hml.1)]
      rw [List.filter_eq_nil_iff.2 (fun p hp => by
        have hm := (mem_enumFrom _ _ p hp).2.2
        rcases List.mem_append.1 hm with hm | hm
        · simp [(hat p.2 hm).2]
        · simp only [List.mem_singleton] at hm; rw [hm]; decide)]
      rfl
    rw [this]
    rfl

/-- the records between the k-th `MODEL` record and the next one (or the end) are the k-th model -/
theorem recs_fileOf (bs : List (Line × List Line)) (tail : List Line) (g : GoodFile bs tail) :
    ∀ o k, (hk : k < bs.length) →
      recsFrom o (fileOf bs tail) ((offs o bs).getD k 0)
        (if k + 1 < bs.length then some ((offs o bs).getD (k + 1) 0) else none) = bs[k].2 := by
  induction bs with
  | nil => intro o k hk; simp at hk
  | cons b r ih =>
    intro o k hk
    have hml := g.ml b List.mem_cons_self
    have hat := g.atoms b List.mem_cons_self
    have hend : isAtomLine endmdl = false := by decide
    rw [fileOf_cons, recsFrom_append, block_length]
    cases k with
    | zero =>
      simp only [offs, List.getD_cons_zero, List.getElem_cons_zero, List.length_cons]
      -- the block itself
      have hb : ∀ hi : Option Nat, (∀ h, hi = some h → o + b.2.length + 2 ≤ h) → recsFrom o (block b) o hi = b.2 := by
        intro hi hhi
        show recsFrom o ([b.1] ++ (b.2 ++ [endmdl])) o hi = b.2
        rw [recsFrom_append, recsFrom_append,
          recsFrom_noatoms o [b.1] o hi (by intro x hx; simp only [List.mem_singleton] at hx; rw [hx]; exact hml.2),
          recsFrom_noatoms _ [endmdl] o hi (by intro x hx; simp only [List.mem_singleton] at hx; rw [hx]; exact hend),
          recsFrom_all _ b.2 o hi (fun x hx => (hat x hx).1) (by simp) (fun h hh => by have := hhi h hh; simp; omega)]
        simp
      cases r with
      | nil =>
        simp only [List.length_nil, Nat.zero_add, Nat.lt_irrefl, if_false]
        rw [hb none (fun h hh => by cases hh)]
        have : fileOf [] tail = tail := by simp [fileOf]
        rw [this, recsFrom_noatoms _ tail _ _ (fun x hx => (g.tail x hx).1)]
        simp
      | cons b2 r2 =>
        have hlt : 0 + 1 < (b2 :: r2).length + 1 := by simp
        simp only [hlt, if_true, offs, List.getD_cons_succ, List.getD_cons_zero]
        rw [hb _ (fun h hh => by injection hh with hh; omega), recsFrom_above _ _ _ _ (by omega)]
        simp
    | succ k =>
      have hk' : k < r.length := by simpa using hk
      simp only [offs, List.getD_cons_succ, List.getElem_cons_succ, List.length_cons, Nat.add_lt_add_iff_right]
      have hlo : o + (b.2.length + 2) ≤ (offs (o + b.2.length + 2) r).getD k 0 := by
        have hmem : (offs (o + b.2.length + 2) r).getD k 0 ∈ offs (o + b.2.length + 2) r :=
          getD_mem _ _ _ (by rw [offs_length]; exact hk')
        have := offs_ge r _ _ hmem
        omega
      rw [recsFrom_below o (block b) _ _ (by rw [block_length]; exact hlo), List.nil_append]
      have := ih g.tl (o + b.2.length + 2) k hk'
      rw [Nat.add_assoc] at this ⊢
      exact this

theorem modelStarts_fileOf (bs : List (Line × List Line)) (tail : List Line) (g : GoodFile bs tail) (hne : bs ≠ []) :
    modelStarts (fileOf bs tail) = offs 0 bs := by
  unfold modelStarts
  simp only [starts_fileOf bs tail g 0]
  cases bs with
  | nil => exact absurd rfl hne
  | cons b r => simp [offs]

/-- **model selection on a block file**: positive and negative indices return exactly that model's records,
everything else is refused. -/
theorem selectModel_fileOf (bs : List (Line × List Line)) (tail : List Line) (g : GoodFile bs tail) (hne : bs ≠ []) :
    (∀ k, (hk : k < bs.length) → selectModel (fileOf bs tail) ((k : Int) + 1) = .ok bs[k].2) ∧
    (∀ k, (hk : k < bs.length) → selectModel (fileOf bs tail) (-((k : Int) + 1)) = .ok (bs[bs.length - 1 - k]'(by omega)).2) ∧
    (∀ m : Int, m = 0 ∨ (bs.length : Int) < m ∨ m < -(bs.length : Int) → selectModel (fileOf bs tail) m = .error .valueError) := by
  have hst := modelStarts_fileOf bs tail g hne
  have hlen : (offs 0 bs).length = bs.length := offs_length bs 0
  have key : ∀ k, (hk : k < bs.length) → ∀ m : Int, (if m < 0 then ((offs 0 bs).length : Int) + m + 1 else m) = (k : Int) + 1 →
      m ≠ 0 → selectModel (fileOf bs tail) m = .ok bs[k].2 := by
    intro k hk m hm hm0
    have hrec := recs_fileOf bs tail g 0 k hk
    unfold selectModel
    simp only [hst, hm0, if_false, hm]
    have h1 : ¬ ((k : Int) + 1 < 1) := by omega
    have e1 : ((k : Int) + 1).toNat - 1 = k := by omega
    have e2 : ((k : Int) + 1).toNat = k + 1 := by omega
    simp only [h1, if_false, e2, recordsBetween_eq, hlen, Nat.add_sub_cancel]
    by_cases hlast : k + 1 < bs.length
    · have : ((k : Int) + 1 < (bs.length : Int)) := by omega
      simp only [this, if_true]
      simp only [hlast, if_true] at hrec
      rw [hrec]
    · have h2 : ¬ ((k : Int) + 1 < (bs.length : Int)) := by omega
      have h3 : ((k : Int) + 1 = (bs.length : Int)) := by omega
      simp only [hlast, if_false] at hrec
      rw [if_neg h2, if_pos h3, hrec]
  refine ⟨fun k hk => key k hk _ (by have : ¬ ((k : Int) + 1 < 0) := by omega
                                     simp [this]) (by omega), fun k hk => ?_, fun m hm => ?_⟩
  · have hk2 : bs.length - 1 - k < bs.length := by omega
    refine key (bs.length - 1 - k) hk2 _ ?_ (by omega)
    have : (-((k : Int) + 1) < 0) := by omega
    simp only [this, if_true, hlen]
    omega
  · unfold selectModel
    simp only [hst, hlen]
    rcases hm with rfl | hm | hm
    · simp
    · have h0 : m ≠ 0 := by omega
      have hn : ¬ m < 0 := by omega
      have h1 : ¬ m < 1 := by omega
      have h2 : ¬ m < (bs.length : Int) := by omega
      have h3 : ¬ m = (bs.length : Int) := by omega
      simp [h0, hn, h1, h2, h3]
    · have h0 : m ≠ 0 := by omega
      have hn : m < 0 := by omega
      have h1 : (bs.length : Int) + m + 1 < 1 := by omega
      simp [h0, hn, h1]

/-! ### the writer produces such a file -/

theorem rstrip_cons (c : Char) (r : List Char) (hc : isWS c = false) : rstrip (c :: r) = c :: rstrip r := by
  unfold rstrip
  rw [List.reverse_cons, List.dropWhile_append]
  split
  · rename_i he
    have : List.dropWhile isWS r.reverse = [] := by simpa using he
    simp [this, hc]
  · simp

theorem litATOM : "ATOM".toList = ['A', 'T', 'O', 'M'] := by decide
theorem litHETATM : "HETATM".toList = ['H', 'E', 'T', 'A', 'T', 'M'] := by decide
theorem litMODEL : "MODEL".toList = ['M', 'O', 'D', 'E', 'L'] := by decide
theorem litMODEL10 : "MODEL     ".toList = ['M', 'O', 'D', 'E', 'L', ' ', ' ', ' ', ' ', ' '] := by decide
theorem litCONECT : "CONECT".toList = ['C', 'O', 'N', 'E', 'C', 'T'] := by decide

theorem prefix_ne (p l : List Char) (a b : Char) (h : (a == b) = false) : (a :: p).isPrefixOf (b :: l) = false := by
  simp [List.isPrefixOf, h]

theorem atomLine_kind (a : Atom) (idTxt resTxt sh : List Char) (c : Coord) :
    isAtomLine (atomLine (firstHalf a idTxt resTxt) sh c) = true ∧
    isModelLine (atomLine (firstHalf a idTxt resTxt) sh c) = false := by
  have hA : isWS 'A' = false := by decide
  have hT : isWS 'T' = false := by decide
  have hO : isWS 'O' = false := by decide
  have hM : isWS 'M' = false := by decide
  have hH : isWS 'H' = false := by decide
  have hE : isWS 'E' = false := by decide
  unfold atomLine
  rw [firstHalf_eq]
  unfold recordName
  cases a.hetero
  · simp only [Bool.false_eq_true, if_false, litATOM, ljust, List.cons_append, rstrip_cons _ _ hA, rstrip_cons _ _ hT,
      rstrip_cons _ _ hO, rstrip_cons _ _ hM]
    simp [isAtomLine, isModelLine, startsWith, litATOM, litMODEL, litHETATM, prefix_ne _ _ 'M' 'A' (by decide)]
  · simp only [if_true, litHETATM, ljust, List.cons_append, rstrip_cons _ _ hA, rstrip_cons _ _ hT,
      rstrip_cons _ _ hH, rstrip_cons _ _ hE, rstrip_cons _ _ hM]
    simp [isAtomLine, isModelLine, startsWith, litATOM, litMODEL, litHETATM, prefix_ne _ _ 'M' 'H' (by decide)]

theorem modelRecord_kind (t : List Char) :
    isModelLine ("MODEL     ".toList ++ t) = true ∧ isAtomLine ("MODEL     ".toList ++ t) = false := by
  simp [isAtomLine, isModelLine, startsWith, litATOM, litMODEL, litHETATM, litMODEL10,
    prefix_ne _ _ 'A' 'M' (by decide), prefix_ne _ _ 'H' 'M' (by decide)]

theorem conect_kind (t : List Char) :
    isAtomLine ("CONECT".toList ++ t) = false ∧ isModelLine ("CONECT".toList ++ t) = false := by
  simp [isAtomLine, isModelLine, startsWith, litATOM, litMODEL, litHETATM, litCONECT,
    prefix_ne _ _ 'A' 'C' (by decide), prefix_ne _ _ 'H' 'C' (by decide), prefix_ne _ _ 'M' 'C' (by decide)]

theorem conectLines_kind (ids : List (List Char)) (bonds : List (Nat × Nat)) :
    ∀ x ∈ conectLines ids bonds, isAtomLine x = false ∧ isModelLine x = false := by
  intro x hx
  unfold conectLines at hx
  simp only [List.mem_flatMap, List.mem_map] at hx
  obtain ⟨_, _, ch, _, rfl⟩ := hx
  rw [List.append_assoc]
  exact conect_kind _

/-- the atom records of one model as `set_structure` writes them -/
def recordsOf (halves : List (Line × Line)) (coords : List Coord) : List Line :=
  (halves.zip coords).map fun p => atomLine p.1.1 p.1.2 p.2

theorem modelLines_block (halves : List (Line × Line)) (n : Nat) (coords : List Coord) :
    modelLines true halves n coords = block ("MODEL     ".toList ++ rjust 4 (natDec n), recordsOf halves coords) := by
  simp [modelLines, block, recordsOf, endmdl]

theorem enum_length {α : Type} (l : List α) : (enum l).length = l.length := by simp [enum]

theorem enum_getElem {α : Type} (l : List α) (k : Nat) (h : k < (enum l).length) :
    (enum l)[k] = (k, l[k]'(by simpa [enum] using h)) := by
  simp [enum]

/-- shape of a successfully written multi-model file -/
theorem writePdb_shape (fl : Flags) (s : Struct) (lines : List Line) (h : writePdb fl s = .ok lines) :
    ∃ (ids ress : List Line) (con : List Line),
      mapME (fun p => idText fl.h36 5 pdbMaxAtoms (effId fl p.1 p.2)) (enum s.atoms) = .ok ids ∧
      mapME (fun a => idText fl.h36 4 pdbMaxResidues a.resId) s.atoms = .ok ress ∧
      (∀ x ∈ con, isAtomLine x = false ∧ isModelLine x = false) ∧
      lines = ((enum s.models).map fun p => modelLines (decide (1 < s.models.length))
        ((s.atoms.zip (ids.zip ress)).map fun q => (firstHalf q.1 q.2.1 q.2.2, secondHalf fl q.1)) (p.1 + 1) p.2).flatten ++ con := by
  unfold writePdb at h
  cases hc : checkCompat fl s with
  | error e => rw [hc] at h; cases h
  | ok u =>
    cases hi : mapME (fun p => idText fl.h36 5 pdbMaxAtoms (effId fl p.1 p.2)) (enum s.atoms) with
    | error e => rw [hc, hi] at h; cases h
    | ok ids =>
      cases hr : mapME (fun a => idText fl.h36 4 pdbMaxResidues a.resId) s.atoms with
      | error e => rw [hc, hi, hr] at h; cases h
      | ok ress =>
        rw [hc, hi, hr] at h
        simp only [bind, Except.bind, pure, Except.pure, Except.ok.injEq] at h
        refine ⟨ids, ress, _, rfl, rfl, ?_, h.symm⟩
        intro x hx
        split at hx
        · exact conectLines_kind _ _ x hx
        · cases hx

/-- a file without `MODEL` records: one model -/
theorem selectModel_single (recs tail : List Line) (hne : recs ≠ [])
    (hat : ∀ x ∈ recs, isAtomLine x = true ∧ isModelLine x = false)
    (htail : ∀ x ∈ tail, isAtomLine x = false ∧ isModelLine x = false) :
    selectModel (recs ++ tail) 1 = .ok recs ∧ selectModel (recs ++ tail) (-1) = .ok recs ∧
    (∀ m : Int, m = 0 ∨ 1 < m ∨ m < -1 → selectModel (recs ++ tail) m = .error .valueError) := by
  have hst : modelStarts (recs ++ tail) = [0] := by
    unfold modelStarts
    have : (enumFrom 0 (recs ++ tail)).filter (fun p => isModelLine p.2) = [] := by
      rw [List.filter_eq_nil_iff]
      intro p hp
      have hm := (mem_enumFrom _ _ p hp).2.2
      rcases List.mem_append.1 hm with hm | hm
      · simp [(hat p.2 hm).2]
      · simp [(htail p.2 hm).2]
    rw [this]
    obtain ⟨x, xs, rfl⟩ := List.exists_cons_of_ne_nil hne
    simp [(hat x List.mem_cons_self).1]
  have hrec : recordsBetween (recs ++ tail) 0 none = recs := by
    rw [recordsBetween_eq, recsFrom_append, recsFrom_all 0 recs 0 none (fun x hx => (hat x hx).1) (Nat.le_refl _)
      (fun h hh => by cases hh), recsFrom_noatoms _ tail _ _ (fun x hx => (htail x hx).1)]
    simp
  refine ⟨?_, ?_, fun m hm => ?_⟩
  · unfold selectModel; simp [hst, hrec]
  · unfold selectModel; simp [hst, hrec]
  · unfold selectModel
    simp only [hst, List.length_cons, List.length_nil]
    rcases hm with rfl | hm | hm
    · simp
    · have h0 : m ≠ 0 := by omega
      have hn : ¬ m < 0 := by omega
      have h1 : ¬ m < 1 := by omega
      have h3 : ¬ m = 1 := by omega
      simp [h0, hn, h1, h3]
    · have h0 : m ≠ 0 := by omega
      have hn : m < 0 := by omega
      have h1 : 1 + m + 1 < 1 := by omega
      simp [h0, hn]
      omega

theorem mapME_length {α β : Type} (f : α → Except Err β) : ∀ (l : List α) (r : List β), mapME f l = .ok r → r.length = l.length := by
  intro l
  induction l with
  | nil => intro r h; simp [mapME] at h; subst h; rfl
  | cons a as ih =>
    intro r h
    simp only [mapME, bind, Except.bind] at h
    cases hf : f a with
    | error e => rw [hf] at h; cases h
    | ok b =>
      rw [hf] at h
      cases hm : mapME f as with
      | error e => rw [hm] at h; cases h
      | ok bs =>
        rw [hm] at h
        simp only [pure, Except.pure, Except.ok.injEq] at h
        subst h
        simp [ih bs hm]

theorem modelLines_single (halves : List (Line × Line)) (n : Nat) (coords : List Coord) :
    modelLines false halves n coords = recordsOf halves coords := by
  simp [modelLines, recordsOf]

end BiotiteModel.C07

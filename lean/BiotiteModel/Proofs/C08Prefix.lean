import BiotiteModel.Proofs.C08AffOpt
/-! Prefix form of the table refinement. -/
namespace BiotiteModel.C08

theorem Rec.val_congr {α : Type} (R R' : Rec α) (i j : Nat)
    (hb : ∀ i' j', R.border i' j' = R'.border i' j')
    (hc : ∀ i' j' d l t, i' < i → j' < j → R.cell i' j' d l t = R'.cell i' j' d l t) :
    ∀ i0, i0 ≤ i → ∀ j0, j0 ≤ j → R.val i0 j0 = R'.val i0 j0 := by
  intro i0
  induction i0 with
  | zero => intro _ j0 _; simp [Rec.val_zero, hb]
  | succ i0 ih =>
    intro hi j0
    induction j0 with
    | zero => intro _; simp [Rec.val_succ_zero, hb]
    | succ j0 ihj =>
      intro hj
      rw [Rec.val_succ_succ, Rec.val_succ_succ, ih (by omega) j0 (by omega), ih (by omega) (j0 + 1) hj,
        ihj (by omega), hc _ _ _ _ _ (by omega) (by omega)]

theorem sub_take (M : Mat) (a b : Seq) (i j i' j' : Nat) (hi : i' < i) (hj : j' < j) :
    sub M (a.take i) (b.take j) i' j' = sub M a b i' j' := by
  simp [sub, List.getD_eq_getElem?_getD, List.getElem?_take, hi, hj]

/-- prefix form: cell `(i, j)` of the global table is the global optimum of the prefixes `a[:i]`, `b[:j]`. -/
theorem table_lin_prefix (M : Mat) (g : Int) (a b : Seq) (i j : Nat) (hi : i ≤ a.length) (hj : j ≤ b.length) :
    (linRec .global M g a b).val i j = optLin M g (a.take i) (b.take j) := by
  unfold optLin
  have h1 : (a.take i).length = i := by simp; omega
  have h2 : (b.take j).length = j := by simp; omega
  rw [h1, h2]
  refine Rec.val_congr (linRec .global M g a b) (linRec .global M g (a.take i) (b.take j)) i j
    (fun _ _ => rfl) ?_ i (Nat.le_refl _) j (Nat.le_refl _)
  intro i' j' d l t hi' hj'
  simp only [cellG, sub_take M a b i j i' j' hi' hj']

theorem table_aff_prefix (M : Mat) (go ge : Int) (a b : Seq) (i j : Nat) (hi : i ≤ a.length) (hj : j ≤ b.length) :
    (((affRec .global M go ge a b).val i j).best).getD 0 = optAff .global M go ge (a.take i) (b.take j) := by
  unfold optAff
  have h1 : (a.take i).length = i := by simp; omega
  have h2 : (b.take j).length = j := by simp; omega
  simp only [h1, h2]
  congr 2
  refine Rec.val_congr (affRec .global M go ge a b) (affRec .global M go ge (a.take i) (b.take j)) i j
    (fun _ _ => rfl) ?_ i (Nat.le_refl _) j (Nat.le_refl _)
  intro i' j' d l t hi' hj'
  simp only [aff_cell_global, sub_take M a b i j i' j' hi' hj']

end BiotiteModel.C08

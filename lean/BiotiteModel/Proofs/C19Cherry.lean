import Mathlib.Algebra.BigOperators.Ring.Finset
import Mathlib.Algebra.Order.BigOperators.Group.Finset
import Mathlib.Algebra.Order.Field.Rat
import Mathlib.Tactic.Ring
import Mathlib.Tactic.Linarith
/-!
The cherry lemma of neighbour joining, abstractly: on a finite set `N` of taxa with a symmetric,
zero-diagonal dissimilarity `d` satisfying the (weak) four-point condition, every pair minimising
`Q(x,y) = (|N|−2)·d(x,y) − r_x − r_y` is a cherry (`d(i,k) − d(j,k)` is the same for all other `k`).

Proof (averaging, no explicit trees): if the other taxa attach at ≥ 2 different points of the path
`i — j`, let `A` be `i` together with the taxa attached nearest to `i`, and `B` likewise for `j`; one of
them has at most `|N|/2` elements, and the *sum* of `Q` over all pairs inside it is strictly smaller
than (number of pairs)·`Q(i,j)`.
-/
namespace BiotiteModel.C19.Cherry
open Finset

structure M4 (N : Finset ℕ) (d : ℕ → ℕ → ℚ) : Prop where
  sym : ∀ x ∈ N, ∀ y ∈ N, d x y = d y x
  diag : ∀ x ∈ N, d x x = 0
  fp : ∀ a ∈ N, ∀ b ∈ N, ∀ c ∈ N, ∀ e ∈ N, a ≠ b → a ≠ c → a ≠ e → b ≠ c → b ≠ e → c ≠ e →
    d a b + d c e ≤ d a c + d b e ∨ d a b + d c e ≤ d a e + d b c

def rr (N : Finset ℕ) (d : ℕ → ℕ → ℚ) (x : ℕ) : ℚ := ∑ u ∈ N, d x u
def QQ (N : Finset ℕ) (d : ℕ → ℕ → ℚ) (x y : ℕ) : ℚ := ((N.card : ℚ) - 2) * d x y - rr N d x - rr N d y

theorem sum_erase_sub (A : Finset ℕ) (f : ℕ → ℚ) (x : ℕ) (hx : x ∈ A) :
    ∑ y ∈ A.erase x, f y = ∑ y ∈ A, f y - f x := by
  rw [← Finset.add_sum_erase A f hx]; ring

section
variable {N : Finset ℕ} {d : ℕ → ℕ → ℚ} (h : M4 N d)
  {i j : ℕ} (hi : i ∈ N) (hj : j ∈ N) (hij : i ≠ j) (m : ℚ) (G : Finset ℕ)
  (hG : ∀ x ∈ G, x ∈ N ∧ x ≠ i ∧ x ≠ j ∧ d i x - d j x = m)
  (hR : ∀ u ∈ N, u ≠ i → u ≠ j → u ∉ G → m < d i u - d j u)
include h hi hj hij hG hR

/-- (F1) every taxon of the near side sees the far side like `i`, shifted by `t x = d x j − d i j`. -/
theorem far_side (x : ℕ) (hx : x ∈ insert i G) (u : ℕ) (hu : u ∈ N \ insert i G) :
    d x u = d i u + (d x j - d i j) := by
  have hu' := Finset.mem_sdiff.mp hu
  have huN := hu'.1
  have hui : u ≠ i := fun e => hu'.2 (e ▸ Finset.mem_insert_self i G)
  have huG : u ∉ G := fun e => hu'.2 (Finset.mem_insert_of_mem e)
  rcases Finset.mem_insert.mp hx with rfl | hxG
  · ring
  · obtain ⟨hxN, hxi, hxj, hpx⟩ := hG x hxG
    by_cases huj : u = j
    · subst huj; ring
    · have hpu := hR u huN hui huj huG
      have hxu : x ≠ u := fun e => huG (e ▸ hxG)
      have f1 := h.fp i hi u huN j hj x hxN (fun e => hui e.symm) hij (fun e => hxi e.symm) huj
        (fun e => hxu e.symm) (fun e => hxj e.symm)
      have f2 := h.fp i hi j hj x hxN u huN hij (fun e => hxi e.symm) (fun e => hui e.symm)
        (fun e => hxj e.symm) (fun e => huj e.symm) hxu
      have s1 := h.sym u huN x hxN
      have s2 := h.sym u huN j hj
      have s3 := h.sym j hj x hxN
      rcases f1 with f1 | f1 <;> rcases f2 with f2 | f2 <;> linarith

/-- (F2) inside the near side distances are bounded by the star through the attachment point. -/
theorem near_side (x : ℕ) (hx : x ∈ insert i G) (y : ℕ) (hy : y ∈ insert i G) (hxy : x ≠ y) :
    d x y ≤ (m + d i j) + (d x j - d i j) + (d y j - d i j) := by
  rcases Finset.mem_insert.mp hx with rfl | hxG <;> rcases Finset.mem_insert.mp hy with rfl | hyG
  · exact absurd rfl hxy
  · obtain ⟨hyN, hyi, hyj, hpy⟩ := hG y hyG
    have := h.sym j hj y hyN
    linarith
  · obtain ⟨hxN, hxi, hxj, hpx⟩ := hG x hxG
    have := h.sym j hj x hxN
    have := h.sym x hxN y hi
    linarith
  · obtain ⟨hxN, hxi, hxj, hpx⟩ := hG x hxG
    obtain ⟨hyN, hyi, hyj, hpy⟩ := hG y hyG
    have f := h.fp i hi j hj x hxN y hyN hij (fun e => hxi e.symm) (fun e => hyi e.symm)
      (fun e => hxj e.symm) (fun e => hyj e.symm) hxy
    have s1 := h.sym j hj x hxN
    have s2 := h.sym j hj y hyN
    rcases f with f | f <;> linarith

/-- **Averaging lemma.**  If the near side `A = {i} ∪ G` holds at most half of the taxa and some taxon
attaches farther along the path `i — j`, some pair inside `A` has a strictly smaller `Q` than `(i,j)`. -/
theorem avg (hGne : G.Nonempty) (hRne : ∃ u ∈ N, u ≠ i ∧ u ≠ j ∧ u ∉ G)
    (hsize : 2 * (G.card + 1) ≤ N.card) :
    ∃ x ∈ insert i G, ∃ y ∈ insert i G, x ≠ y ∧ QQ N d x y < QQ N d i j := by
  classical
  have hiG : i ∉ G := fun e => (hG i e).2.1 rfl
  have hjG : j ∉ G := fun e => (hG j e).2.2.1 rfl
  set A := insert i G with hA
  have hAN : A ⊆ N := by
    intro x hx
    rcases Finset.mem_insert.mp hx with rfl | hx
    · exact hi
    · exact (hG x hx).1
  set R := N \ A with hRdef
  have hjA : j ∉ A := by
    intro e
    rcases Finset.mem_insert.mp e with e | e
    · exact hij e.symm
    · exact hjG e
  have hjR : j ∈ R := Finset.mem_sdiff.mpr ⟨hj, hjA⟩
  have hiA : i ∈ A := Finset.mem_insert_self i G
  -- abbreviations
  set t : ℕ → ℚ := fun x => d x j - d i j with ht
  set c : ℚ := m + d i j with hc
  set α : ℚ := (A.card : ℚ) with hα
  set ρ : ℚ := (R.card : ℚ) with hρ
  set nn : ℚ := (N.card : ℚ) with hnn
  have hcard : nn = α + ρ := by
    have := Finset.card_sdiff_add_card_eq_card hAN
    rw [hnn, hα, hρ]; exact_mod_cast (by omega : N.card = A.card + (N \ A).card)
  have hαG : α = (G.card : ℚ) + 1 := by
    rw [hα, hA, Finset.card_insert_of_notMem hiG]; push_cast; ring
  have hα2 : 2 ≤ α := by
    have : 1 ≤ G.card := Finset.card_pos.mpr hGne
    rw [hαG]; have : (1 : ℚ) ≤ (G.card : ℚ) := by exact_mod_cast this
    linarith
  have hsz : 2 * α ≤ nn := by
    rw [hαG, hnn]; exact_mod_cast hsize
  have hti : t i = 0 := by simp [ht]
  set E : ℚ := ∑ u ∈ R, d i u with hE
  set E' : ℚ := ∑ u ∈ R, d j u with hE'
  set T : ℚ := ∑ x ∈ A, t x with hT
  set W : ℚ := ∑ x ∈ A, ∑ y ∈ A, d x y with hW
  -- row sums on the near side
  have hrr : ∀ x ∈ A, rr N d x = ∑ y ∈ A, d x y + (E + ρ * t x) := by
    intro x hx
    unfold rr
    rw [← Finset.sum_sdiff hAN]
    have : ∑ u ∈ N \ A, d x u = ∑ u ∈ R, (d i u + t x) :=
      Finset.sum_congr rfl (fun u hu => far_side h hi hj hij m G hG hR x hx u hu)
    rw [this, Finset.sum_add_distrib, Finset.sum_const, nsmul_eq_mul]
    ring
  set Sr : ℚ := ∑ x ∈ A, rr N d x with hSr
  have hSr' : Sr = W + α * E + ρ * T := by
    rw [hSr, Finset.sum_congr rfl hrr, Finset.sum_add_distrib, Finset.sum_add_distrib, Finset.sum_const,
      nsmul_eq_mul, ← Finset.mul_sum, hW, hT, hα]
    ring
  -- the sum of Q over ordered pairs of the near side
  have hQrow : ∀ x ∈ A, ∑ y ∈ A.erase x, QQ N d x y
      = (nn - 2) * ∑ y ∈ A, d x y - (α - 2) * rr N d x - Sr := by
    intro x hx
    rw [sum_erase_sub A _ x hx]
    have e1 : ∑ y ∈ A, QQ N d x y = (nn - 2) * ∑ y ∈ A, d x y - α * rr N d x - Sr := by
      unfold QQ
      rw [Finset.sum_sub_distrib, Finset.sum_sub_distrib, ← Finset.mul_sum, Finset.sum_const, nsmul_eq_mul]
    have e2 : QQ N d x x = - 2 * rr N d x := by
      unfold QQ; rw [h.diag x (hAN hx)]; ring
    rw [e1, e2]; ring
  set SQ : ℚ := ∑ x ∈ A, ∑ y ∈ A.erase x, QQ N d x y with hSQ
  have hSQ' : SQ = (nn - 2) * W - (2 * α - 2) * Sr := by
    rw [hSQ, Finset.sum_congr rfl hQrow, Finset.sum_sub_distrib, Finset.sum_sub_distrib, ← Finset.mul_sum,
      ← Finset.mul_sum, Finset.sum_const, nsmul_eq_mul]
    ring
  -- bound on the distances inside the near side
  have hcardErase : ∀ x ∈ A, ((A.erase x).card : ℚ) = α - 1 := by
    intro x hx
    rw [Finset.card_erase_of_mem hx, hα]
    have : 1 ≤ A.card := Finset.card_pos.mpr ⟨x, hx⟩
    push_cast [Nat.cast_sub this]; ring
  have hWrow : ∀ x ∈ A, ∑ y ∈ A, d x y ≤ (α - 1) * (c + t x) + (T - t x) := by
    intro x hx
    have e0 : ∑ y ∈ A, d x y = ∑ y ∈ A.erase x, d x y := by
      rw [← Finset.add_sum_erase A _ hx, h.diag x (hAN hx)]; ring
    rw [e0]
    have : ∑ y ∈ A.erase x, d x y ≤ ∑ y ∈ A.erase x, (c + t x + t y) := by
      apply Finset.sum_le_sum
      intro y hy
      have hy' := Finset.mem_erase.mp hy
      exact near_side h hi hj hij m G hG hR x hx y hy'.2 (fun e => hy'.1 e.symm)
    refine le_trans this (le_of_eq ?_)
    rw [Finset.sum_add_distrib, Finset.sum_const, nsmul_eq_mul, hcardErase x hx, sum_erase_sub A t x hx]
  have hWb : W ≤ α * (α - 1) * c + 2 * (α - 1) * T := by
    have : W ≤ ∑ x ∈ A, ((α - 1) * (c + t x) + (T - t x)) := Finset.sum_le_sum hWrow
    refine le_trans this (le_of_eq ?_)
    have e1 : ∑ x ∈ A, (c + t x) = α * c + T := by
      rw [Finset.sum_add_distrib, Finset.sum_const, nsmul_eq_mul]
    have e2 : ∑ x ∈ A, (T - t x) = α * T - T := by
      rw [Finset.sum_sub_distrib, Finset.sum_const, nsmul_eq_mul]
    rw [Finset.sum_add_distrib, ← Finset.mul_sum, e1, e2]
    ring
  -- the two row sums of the pair (i, j)
  have hri : rr N d i = (α - 1) * c + T + E := by
    rw [hrr i hiA, hti]
    have : ∑ y ∈ A, d i y = ∑ y ∈ A, (if y = i then 0 else c + t y) := by
      apply Finset.sum_congr rfl
      intro y hy
      by_cases hyi : y = i
      · subst hyi; simp [h.diag y hi]
      · rw [if_neg hyi]
        rcases Finset.mem_insert.mp hy with e | hyG
        · exact absurd e hyi
        · obtain ⟨hyN, _, hyj, hpy⟩ := hG y hyG
          have := h.sym j hj y hyN
          simp only [ht, hc]; linarith
    rw [this, ← Finset.add_sum_erase A _ hiA, if_pos rfl]
    have : ∑ y ∈ A.erase i, (if y = i then (0 : ℚ) else c + t y) = ∑ y ∈ A.erase i, (c + t y) := by
      apply Finset.sum_congr rfl
      intro y hy; rw [if_neg (Finset.mem_erase.mp hy).1]
    rw [this, Finset.sum_add_distrib, Finset.sum_const, nsmul_eq_mul, hcardErase i hiA,
      sum_erase_sub A t i hiA, hti]
    ring
  have hrj : rr N d j = α * d i j + T + E' := by
    unfold rr
    rw [← Finset.sum_sdiff hAN]
    have : ∑ x ∈ A, d j x = ∑ x ∈ A, (d i j + t x) := by
      apply Finset.sum_congr rfl
      intro x hx
      have := h.sym j hj x (hAN hx)
      simp only [ht]; linarith
    rw [this, Finset.sum_add_distrib, Finset.sum_const, nsmul_eq_mul]
    ring
  -- far side: everything except j attaches strictly farther
  set P : ℚ := ∑ u ∈ R.erase j, (d i u - d j u) with hP
  have hEE : E' = E - d i j - P := by
    rw [hE', hE, hP, ← Finset.add_sum_erase R (fun u => d j u) hjR, ← Finset.add_sum_erase R (fun u => d i u) hjR,
      Finset.sum_sub_distrib, h.diag j hj]
    ring
  have hR'ne : (R.erase j).Nonempty := by
    obtain ⟨u, huN, hui, huj, huG⟩ := hRne
    refine ⟨u, Finset.mem_erase.mpr ⟨huj, Finset.mem_sdiff.mpr ⟨huN, ?_⟩⟩⟩
    intro e
    rcases Finset.mem_insert.mp e with e | e
    · exact hui e
    · exact huG e
  have hcardR' : ((R.erase j).card : ℚ) = ρ - 1 := by
    rw [Finset.card_erase_of_mem hjR, hρ]
    have : 1 ≤ R.card := Finset.card_pos.mpr ⟨j, hjR⟩
    push_cast [Nat.cast_sub this]; ring
  have hPm : (ρ - 1) * m < P := by
    have : ∑ _u ∈ R.erase j, m < P := by
      apply Finset.sum_lt_sum_of_nonempty hR'ne
      intro u hu
      have hu' := Finset.mem_erase.mp hu
      have hu'' := Finset.mem_sdiff.mp hu'.2
      apply hR u hu''.1 _ hu'.1
      · intro e; exact hu''.2 (Finset.mem_insert_of_mem e)
      · intro e; exact hu''.2 (e ▸ hiA)
    rw [Finset.sum_const, nsmul_eq_mul, hcardR'] at this
    exact this
  -- put everything together
  have hQij : QQ N d i j = (nn - 2) * d i j - ((α - 1) * c + T + E) - (α * d i j + T + E') := by
    unfold QQ; rw [hri, hrj]
  have hbound : SQ ≤ (nn - 2 * α) * (α * (α - 1) * c + 2 * (α - 1) * T) - (2 * α - 2) * (α * E + ρ * T) := by
    have e : SQ = (nn - 2 * α) * W - (2 * α - 2) * (α * E + ρ * T) := by rw [hSQ', hSr']; ring
    rw [e]
    have : (nn - 2 * α) * W ≤ (nn - 2 * α) * (α * (α - 1) * c + 2 * (α - 1) * T) :=
      mul_le_mul_of_nonneg_left hWb (by linarith)
    linarith
  have hkey : α * (α - 1) * QQ N d i j
      - ((nn - 2 * α) * (α * (α - 1) * c + 2 * (α - 1) * T) - (2 * α - 2) * (α * E + ρ * T))
      = α * (α - 1) * (P - (ρ - 1) * m) := by
    rw [hQij, hEE, hcard, hc]; ring
  have hpos : 0 < α * (α - 1) * (P - (ρ - 1) * m) := by
    apply mul_pos (mul_pos (by linarith) (by linarith)); linarith
  have hstrict : SQ < α * (α - 1) * QQ N d i j := by linarith
  -- some pair must be below the average
  by_contra hcon
  push Not at hcon
  have : α * (α - 1) * QQ N d i j ≤ SQ := by
    have : ∑ x ∈ A, ∑ _y ∈ A.erase x, QQ N d i j ≤ SQ := by
      apply Finset.sum_le_sum
      intro x hx
      apply Finset.sum_le_sum
      intro y hy
      have hy' := Finset.mem_erase.mp hy
      exact hcon x hx y hy'.2 (fun e => hy'.1 e.symm)
    have e : ∑ x ∈ A, ∑ _y ∈ A.erase x, QQ N d i j = α * (α - 1) * QQ N d i j := by
      rw [Finset.sum_congr rfl (fun x hx => by
        rw [Finset.sum_const, nsmul_eq_mul, hcardErase x hx]), Finset.sum_const, nsmul_eq_mul]
      ring
    linarith
  linarith

end

/-- **Cherry lemma.**  A pair minimising `Q` is a cherry. -/
theorem cherry {N : Finset ℕ} {d : ℕ → ℕ → ℚ} (h : M4 N d) {i j : ℕ} (hi : i ∈ N) (hj : j ∈ N)
    (hij : i ≠ j) (hmin : ∀ x ∈ N, ∀ y ∈ N, x ≠ y → QQ N d i j ≤ QQ N d x y) :
    ∀ k ∈ N, ∀ l ∈ N, k ≠ i → k ≠ j → l ≠ i → l ≠ j → d i k - d j k = d i l - d j l := by
  classical
  by_contra hcon
  push Not at hcon
  obtain ⟨k, hk, l, hl, hki, hkj, hli, hlj, hne⟩ := hcon
  set M := (N.erase i).erase j with hM
  have memM : ∀ u, u ∈ M ↔ u ∈ N ∧ u ≠ i ∧ u ≠ j := by
    intro u; simp only [hM, Finset.mem_erase]; tauto
  have hkM : k ∈ M := (memM k).mpr ⟨hk, hki, hkj⟩
  have hlM : l ∈ M := (memM l).mpr ⟨hl, hli, hlj⟩
  set π : ℕ → ℚ := fun u => d i u - d j u with hπ
  obtain ⟨k0, hk0, hk0min⟩ := Finset.exists_min_image M π ⟨k, hkM⟩
  obtain ⟨l0, hl0, hl0max⟩ := Finset.exists_min_image M (fun u => - π u) ⟨k, hkM⟩
  have hlt : π k0 < π l0 := by
    have a1 := hk0min k hkM
    have a2 := hk0min l hlM
    have b1 := hl0max k hkM
    have b2 := hl0max l hlM
    rcases lt_or_gt_of_ne hne with hh | hh <;> linarith
  set G := M.filter (fun u => π u = π k0) with hGdef
  set G' := M.filter (fun u => π u = π l0) with hG'def
  have hdisj : Disjoint G G' := by
    rw [Finset.disjoint_left]
    intro u hu hu'
    have e1 := (Finset.mem_filter.mp hu).2
    have e2 := (Finset.mem_filter.mp hu').2
    linarith
  have hcardM : M.card + 2 = N.card := by
    rw [hM, Finset.card_erase_of_mem (Finset.mem_erase.mpr ⟨fun e => hij e.symm, hj⟩),
      Finset.card_erase_of_mem hi]
    have : 2 ≤ N.card := by
      have := Finset.card_le_card (show ({i, j} : Finset ℕ) ⊆ N by
        intro x hx; rcases Finset.mem_insert.mp hx with rfl | hx
        · exact hi
        · rw [Finset.mem_singleton] at hx; exact hx ▸ hj)
      rw [Finset.card_pair hij] at this; exact this
    omega
  have hcards : G.card + G'.card ≤ M.card := by
    rw [← Finset.card_union_of_disjoint hdisj]
    exact Finset.card_le_card (Finset.union_subset (Finset.filter_subset _ _) (Finset.filter_subset _ _))
  have hQsym : QQ N d j i = QQ N d i j := by
    unfold QQ; rw [h.sym j hj i hi]; ring
  rcases (by omega : 2 * (G.card + 1) ≤ N.card ∨ 2 * (G'.card + 1) ≤ N.card) with hs | hs
  · obtain ⟨x, hx, y, hy, hxy, hq⟩ := avg h hi hj hij (π k0) G
      (by
        intro x hx
        have := Finset.mem_filter.mp hx
        have hm := (memM x).mp this.1
        exact ⟨hm.1, hm.2.1, hm.2.2, this.2⟩)
      (by
        intro u hu hui huj huG
        have huM : u ∈ M := (memM u).mpr ⟨hu, hui, huj⟩
        have := hk0min u huM
        have hneq : π u ≠ π k0 := fun e => huG (Finset.mem_filter.mpr ⟨huM, e⟩)
        exact lt_of_le_of_ne this (fun e => hneq e.symm))
      ⟨k0, Finset.mem_filter.mpr ⟨hk0, rfl⟩⟩
      ⟨l0, ((memM l0).mp hl0).1, ((memM l0).mp hl0).2.1, ((memM l0).mp hl0).2.2,
        fun e => by have := (Finset.mem_filter.mp e).2; linarith⟩
      hs
    have hsub : ∀ z ∈ insert i G, z ∈ N := by
      intro z hz
      rcases Finset.mem_insert.mp hz with rfl | hz
      · exact hi
      · exact ((memM z).mp (Finset.mem_filter.mp hz).1).1
    have := hmin x (hsub x hx) y (hsub y hy) hxy
    linarith
  · have h' : M4 N d := h
    obtain ⟨x, hx, y, hy, hxy, hq⟩ := avg h hj hi (fun e => hij e.symm) (- π l0) G'
      (by
        intro x hx
        have := Finset.mem_filter.mp hx
        have hm := (memM x).mp this.1
        refine ⟨hm.1, hm.2.2, hm.2.1, ?_⟩
        have e := this.2
        simp only [hπ] at e ⊢; linarith)
      (by
        intro u hu huj hui huG
        have huM : u ∈ M := (memM u).mpr ⟨hu, hui, huj⟩
        have := hl0max u huM
        have hneq : π u ≠ π l0 := fun e => huG (Finset.mem_filter.mpr ⟨huM, e⟩)
        have : π u < π l0 := lt_of_le_of_ne (by linarith) hneq
        simp only [hπ] at this ⊢; linarith)
      ⟨l0, Finset.mem_filter.mpr ⟨hl0, rfl⟩⟩
      ⟨k0, ((memM k0).mp hk0).1, ((memM k0).mp hk0).2.2, ((memM k0).mp hk0).2.1,
        fun e => by have := (Finset.mem_filter.mp e).2; linarith⟩
      hs
    have hsub : ∀ z ∈ insert j G', z ∈ N := by
      intro z hz
      rcases Finset.mem_insert.mp hz with rfl | hz
      · exact hj
      · exact ((memM z).mp (Finset.mem_filter.mp hz).1).1
    have := hmin x (hsub x hx) y (hsub y hy) hxy
    linarith

end BiotiteModel.C19.Cherry

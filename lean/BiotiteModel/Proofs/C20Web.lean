import BiotiteModel.Model.C20Web
/-! Helper lemmas for the WebApp part of C20 (core Lean only). -/
namespace BiotiteModel.C20.Web
open BiotiteModel.C20

/-- Terminal states have seen exactly one clean-up, all others none. -/
def Inv (w : Web) : Prop :=
  (w.state.terminal = true → w.cleanups = 1) ∧ (w.state.terminal = false → w.cleanups = 0) ∧
  (w.hasResult = true → w.state = .joined)

theorem contact_frame (w : Web) :
    (contact w).1.state = w.state ∧ (contact w).1.cleanups = w.cleanups ∧ (contact w).1.hasResult = w.hasResult ∧
    (contact w).1.sent = w.sent ∧ (contact w).1.k = w.k := by
  unfold contact violateRule
  repeat' split
  all_goals simp_all

theorem request_frame (w : Web) :
    (request w).1.state = w.state ∧ (request w).1.cleanups = w.cleanups ∧ (request w).1.hasResult = w.hasResult := by
  unfold request violateRule
  repeat' split
  all_goals simp_all

theorem inv_of_frame {w w' : Web} (h : Inv w) (hs : w'.state = w.state) (hc : w'.cleanups = w.cleanups)
    (hr : w'.hasResult = w.hasResult) : Inv w' := by
  unfold Inv at *; rw [hs, hc, hr]; exact h

theorem runBody_frame (w : Web) :
    (runBody w).1.state = w.state ∧ (runBody w).1.cleanups = w.cleanups ∧ (runBody w).1.hasResult = w.hasResult := by
  unfold runBody
  simp only
  split
  · simp
  · have hc := contact_frame { w with sent := w.sent + 1 }
    split
    · rename_i w' e heq
      have : w' = (contact { w with sent := w.sent + 1 }).1 := by rw [heq]
      subst this; simpa using ⟨hc.1, hc.2.1, hc.2.2.1⟩
    · rename_i w' heq
      have : w' = (contact { w with sent := w.sent + 1 }).1 := by rw [heq]
      subst this
      have hr := request_frame (contact { w with sent := w.sent + 1 }).1
      exact ⟨hr.1.trans hc.1, hr.2.1.trans hc.2.1, hr.2.2.trans hc.2.2.1⟩

theorem inv_cancelled (w : Web) (hc : w.cleanups = 0) (hr : w.hasResult = false) :
    Inv (cleanUp { w with state := .cancelled }) := by
  simp [Inv, cleanUp, AppState.terminal, hc, hr]

theorem inv_startBody (w : Web) (h : Inv w) (hs : w.state = .created) : Inv (startBody w).1 := by
  obtain ⟨f1, f2, f3⟩ := runBody_frame w
  have hcl : w.cleanups = 0 := h.2.1 (by simp [hs, AppState.terminal])
  have hres : w.hasResult = false := by
    cases hr : w.hasResult with
    | false => rfl
    | true => have := h.2.2 hr; simp [hs] at this
  unfold startBody
  split
  · rename_i w' e heq
    have : w' = (runBody w).1 := by rw [heq]
    subst this
    exact inv_cancelled _ (f2.trans hcl) (f3.trans hres)
  · rename_i w' heq
    have : w' = (runBody w).1 := by rw [heq]
    subst this
    simp [Inv, AppState.terminal, f2, hcl, f3, hres]

theorem isFinished_frame (w : Web) :
    (isFinished w).1.state = w.state ∧ (isFinished w).1.cleanups = w.cleanups ∧ (isFinished w).1.hasResult = w.hasResult := by
  unfold isFinished
  simp only
  have hc := contact_frame { w with sent := w.sent + 1, k := w.k - 1 }
  split
  · rename_i w' e heq
    have : w' = (contact { w with sent := w.sent + 1, k := w.k - 1 }).1 := by rw [heq]
    subst this; simpa using ⟨hc.1, hc.2.1, hc.2.2.1⟩
  · rename_i w' heq
    have : w' = (contact { w with sent := w.sent + 1, k := w.k - 1 }).1 := by rw [heq]
    subst this; simpa using ⟨hc.1, hc.2.1, hc.2.2.1⟩

/-- `get_app_state()` keeps the invariant; it only ever moves RUNNING to FINISHED. -/
theorem getAppState_spec (w : Web) (h : Inv w) (hs : w.state = .running ∨ w.state = .finished) :
    Inv (getAppState w).1 ∧ ((getAppState w).1.state = .running ∨ (getAppState w).1.state = .finished) ∧
    (∀ st, (getAppState w).2 = .ok st → st = (getAppState w).1.state) := by
  unfold getAppState
  split
  · rename_i hrun
    obtain ⟨f1, f2, f3⟩ := isFinished_frame w
    split
    · rename_i w' e heq
      have : w' = (isFinished w).1 := by rw [heq]
      subst this
      exact ⟨inv_of_frame h f1 f2 f3, by simp [f1, hrun], by simp⟩
    · rename_i w' heq
      have : w' = (isFinished w).1 := by rw [heq]
      subst this
      refine ⟨?_, by simp, by simp⟩
      have hcl : w.cleanups = 0 := h.2.1 (by simp [hrun, AppState.terminal])
      have hres : w.hasResult = false := by
        cases hr : w.hasResult with
        | false => rfl
        | true => have := h.2.2 hr; simp [hrun] at this
      simp [Inv, AppState.terminal, f2, hcl, f3, hres]
    · rename_i w' heq
      have : w' = (isFinished w).1 := by rw [heq]
      subst this
      exact ⟨inv_of_frame h f1 f2 f3, by simp [f1, hrun], by simp [f1, hrun]⟩
  · exact ⟨h, hs, by simp⟩

theorem nonterm_facts (w : Web) (h : Inv w) (hs : w.state = .running ∨ w.state = .finished) :
    w.cleanups = 0 ∧ w.hasResult = false := by
  refine ⟨h.2.1 (by rcases hs with hs | hs <;> simp [hs, AppState.terminal]), ?_⟩
  cases hr : w.hasResult with
  | false => rfl
  | true => have := h.2.2 hr; rcases hs with hs | hs <;> simp [hs] at this

theorem evaluate_frame (w : Web) :
    (evaluate w).1.state = w.state ∧ (evaluate w).1.cleanups = w.cleanups ∧ (evaluate w).1.hasResult = w.hasResult := by
  unfold evaluate
  have hc := contact_frame { w with sent := w.sent + 1 }
  exact ⟨hc.1, hc.2.1, hc.2.2.1⟩

theorem inv_joinTail (w : Web) (h : Inv w) (hs : w.state = .running ∨ w.state = .finished) : Inv (joinTail w).1 := by
  obtain ⟨hcl, hres⟩ := nonterm_facts w h hs
  obtain ⟨e1, e2, e3⟩ := evaluate_frame (sleepInterval w)
  have hcl' : (evaluate (sleepInterval w)).1.cleanups = 0 := by rw [e2]; simpa [sleepInterval] using hcl
  have hres' : (evaluate (sleepInterval w)).1.hasResult = false := by rw [e3]; simpa [sleepInterval] using hres
  unfold joinTail
  simp only
  split
  · rename_i w' e heq
    have : w' = (evaluate (sleepInterval w)).1 := by rw [heq]
    subst this
    exact inv_cancelled _ hcl' hres'
  · rename_i w' heq
    have : w' = (evaluate (sleepInterval w)).1 := by rw [heq]
    subst this
    simp [Inv, cleanUp, AppState.terminal, hcl']

theorem inv_sleep (w : Web) (h : Inv w) : Inv (sleepInterval w) := inv_of_frame h rfl rfl rfl

theorem inv_joinLoop (fuel : Nat) (t : Option Int) (w : Web) (h : Inv w)
    (hs : w.state = .running ∨ w.state = .finished) : Inv (joinLoop fuel t w).1 := by
  induction fuel generalizing w with
  | zero => exact h
  | succ n ih =>
    obtain ⟨g1, g2, g3⟩ := getAppState_spec w h hs
    unfold joinLoop
    split
    · rename_i w' e heq
      have : w' = (getAppState w).1 := by rw [heq]
      subst this; exact g1
    · rename_i w' st heq
      have hw : w' = (getAppState w).1 := by rw [heq]
      subst hw
      split
      · exact inv_joinTail _ g1 g2
      · obtain ⟨hcl, hres⟩ := nonterm_facts _ g1 g2
        split
        · split
          · exact inv_cancelled _ hcl hres
          · exact ih _ (inv_sleep _ g1) (by simpa [sleepInterval] using g2)
        · exact ih _ (inv_sleep _ g1) (by simpa [sleepInterval] using g2)

theorem step_inv (w : Web) (c : Call) (h : Inv w) : Inv (step w c).1 := by
  cases c with
  | clock dt => exact inv_of_frame h rfl rfl rfl
  | contact =>
    obtain ⟨f1, f2, f3, _, _⟩ := contact_frame w
    simp only [step]
    split
    · rename_i w' _ heq
      have : w' = (contact w).1 := by rw [heq]
      subst this; exact inv_of_frame h f1 f2 f3
    · rename_i w' heq
      have : w' = (contact w).1 := by rw [heq]
      subst this; exact inv_of_frame h f1 f2 f3
  | request =>
    obtain ⟨f1, f2, f3⟩ := request_frame w
    simp only [step]
    split
    · rename_i w' _ heq
      have : w' = (request w).1 := by rw [heq]
      subst this; exact inv_of_frame h f1 f2 f3
    · rename_i w' heq
      have : w' = (request w).1 := by rw [heq]
      subst this; exact inv_of_frame h f1 f2 f3
  | violate => simp only [step]; split <;> exact h
  | getState =>
    simp only [step]
    by_cases hs : w.state = .running ∨ w.state = .finished
    · have g := (getAppState_spec w h hs).1
      split
      · rename_i w' _ heq
        have : w' = (getAppState w).1 := by rw [heq]
        subst this; exact g
      · rename_i w' _ heq
        have : w' = (getAppState w).1 := by rw [heq]
        subst this; exact g
    · have : getAppState w = (w, .ok w.state) := by
        unfold getAppState; simp at hs; simp [hs.1]
      simp [this]; exact h
  | start =>
    simp only [step]
    split
    · rename_i hs; exact inv_startBody w h hs
    · exact h
  | join t =>
    simp only [step]
    split
    · rename_i hs
      exact inv_joinLoop _ t _ (inv_sleep w h) (by simpa [sleepInterval] using hs)
    · exact h
  | cancel =>
    simp only [step]
    split
    · rename_i hs
      obtain ⟨hcl, hres⟩ := nonterm_facts w h hs
      exact inv_cancelled w hcl hres
    · exact h
  | method m =>
    simp only [step]
    repeat' split
    all_goals exact h

theorem run_inv (w : Web) (cs : List Call) (h : Inv w) : Inv (run w cs) := by
  induction cs generalizing w with
  | nil => exact h
  | cons c cs ih => exact ih _ (step_inv w c h)


/-! ## No body ever produces a state error: only the guards do -/

theorem contact_err (w : Web) (e : Err) (h : (contact w).2 = some e) : e = errRule := by
  unfold contact violateRule at h
  repeat' split at h
  all_goals simp_all

theorem request_err (w : Web) (e : Err) (h : (request w).2 = some e) : e = errRule := by
  unfold request violateRule at h
  repeat' split at h
  all_goals simp_all

theorem errRule_ne : errRule ≠ .stateError := by simp [errRule]

theorem runBody_err (w : Web) (e : Err) (h : (runBody w).2 = some e) : e ≠ .stateError := by
  unfold runBody at h
  simp only at h
  split at h
  · simp at h; rw [← h]; simp
  · split at h
    · rename_i w' e' heq
      have := contact_err _ e' (by rw [heq])
      simp at h; rw [← h, this]; exact errRule_ne
    · have := request_err _ e h
      rw [this]; exact errRule_ne

theorem startBody_res (w : Web) : (startBody w).2 ≠ .err .stateError := by
  unfold startBody
  split
  · rename_i w' e heq
    have := runBody_err w e (by rw [heq])
    simpa using this
  · simp

theorem getAppState_err (w : Web) (e : Err) (h : (getAppState w).2 = .error e) : e = errRule := by
  unfold getAppState at h
  split at h
  · split at h
    · rename_i w' e' heq
      simp at h
      unfold isFinished at heq
      simp only at heq
      split at heq
      · rename_i w'' e'' hc
        have := contact_err _ e'' (by rw [hc])
        simp at heq; rw [← h, ← heq.2, this]
      · simp at heq
    · simp at h
    · simp at h
  · simp at h

theorem joinTail_res (w : Web) : (joinTail w).2 ≠ .err .stateError := by
  unfold joinTail evaluate
  simp only
  split
  · rename_i w' e heq
    have := contact_err _ e (by rw [heq])
    simp [this, errRule]
  · simp

theorem joinLoop_res (fuel : Nat) (t : Option Int) (w : Web) : (joinLoop fuel t w).2 ≠ .err .stateError := by
  induction fuel generalizing w with
  | zero => simp [joinLoop]
  | succ n ih =>
    unfold joinLoop
    split
    · rename_i w' e heq
      have := getAppState_err w e (by rw [heq])
      simp [this, errRule]
    · split
      · exact joinTail_res _
      · split
        · split
          · simp [errTimeout]
          · exact ih _
        · exact ih _

theorem step_refused_pure (w : Web) (c : Call) (h : (step w c).2 = .err .stateError) : (step w c).1 = w := by
  cases c with
  | clock dt => simp [step] at h
  | contact =>
    simp only [step] at h
    split at h
    · rename_i w' e heq
      have := contact_err w e (by rw [heq])
      simp [this, errRule] at h
    · simp at h
  | request =>
    simp only [step] at h
    split at h
    · rename_i w' e heq
      have := request_err w e (by rw [heq])
      simp [this, errRule] at h
    · simp at h
  | violate =>
    simp only [step, violateRule] at h
    repeat' split at h
    all_goals simp_all [errRule]
  | getState =>
    simp only [step] at h
    split at h
    · rename_i w' e heq
      have := getAppState_err w e (by rw [heq])
      simp [this, errRule] at h
    · simp at h
  | start =>
    simp only [step] at h ⊢
    split at h
    · exact absurd h (startBody_res w)
    · rename_i hs; simp [hs]
  | join t =>
    simp only [step] at h ⊢
    split at h
    · exact absurd h (joinLoop_res _ _ _)
    · rename_i hs; simp [hs]
  | cancel =>
    simp only [step] at h ⊢
    split at h
    · simp at h
    · rename_i hs; simp [hs]
  | method m =>
    simp only [step] at h ⊢
    repeat' split at h
    all_goals simp_all


/-! ## The poll loop's fuel is never exhausted -/

theorem joinTail_ne_div (w : Web) : (joinTail w).2 ≠ .diverges := by
  unfold joinTail
  simp only
  split <;> simp

/-- One poll of a RUNNING job: it fails, or the job is READY, or one WAITING answer of the server script is used up. -/
theorem getAppState_running (w : Web) (hs : w.state = .running) :
    (∃ e, (getAppState w).2 = .error e) ∨
    ((getAppState w).2 = .ok .finished) ∨
    ((getAppState w).2 = .ok .running ∧ (getAppState w).1.state = .running ∧ w.k ≠ 0 ∧ (getAppState w).1.k = w.k - 1) := by
  have hc := contact_frame { w with sent := w.sent + 1, k := w.k - 1 }
  unfold getAppState
  rw [if_pos hs]
  unfold isFinished
  simp only
  split
  · rename_i w' e heq
    split at heq
    · left; exact ⟨_, rfl⟩
    · simp at heq
  · right; left; rfl
  · rename_i w' heq
    right; right
    split at heq
    · simp at heq
    · rename_i w'' hc'
      simp only [Prod.mk.injEq, Except.ok.injEq, decide_eq_false_iff_not] at heq
      obtain ⟨h1, h2⟩ := heq
      have : w'' = (contact { w with sent := w.sent + 1, k := w.k - 1 }).1 := by rw [hc']
      subst h1; subst this
      exact ⟨rfl, by simpa [hs] using hc.1, h2, by simpa using hc.2.2.2.2⟩

theorem joinLoop_terminates (fuel : Nat) (t : Option Int) (w : Web)
    (hs : w.state = .running ∨ w.state = .finished) (hf : w.k < fuel) : (joinLoop fuel t w).2 ≠ .diverges := by
  induction fuel generalizing w with
  | zero => omega
  | succ n ih =>
    unfold joinLoop
    rcases hs with hs | hs
    · rcases getAppState_running w hs with ⟨e, he⟩ | he | ⟨he, hst, hk0, hk⟩
      · split
        · simp
        · rename_i heq; rw [heq] at he; simp at he
      · split
        · simp
        · rename_i w' st heq
          rw [heq] at he
          simp only [Except.ok.injEq] at he
          subst he
          simp only [if_true]
          exact joinTail_ne_div _
      · split
        · simp
        · rename_i w' st heq
          have hw' : w' = (getAppState w).1 := by rw [heq]
          rw [heq] at he
          simp only [Except.ok.injEq] at he
          subst he
          subst hw'
          simp only [show (AppState.running = AppState.finished) = False by simp, if_false]
          have hlt : (sleepInterval (getAppState w).1).k < n := by
            simp only [sleepInterval, hk]; omega
          have hst' : (sleepInterval (getAppState w).1).state = .running := by simpa [sleepInterval] using hst
          split
          · split
            · simp [errTimeout]
            · exact ih _ (Or.inl hst') hlt
          · exact ih _ (Or.inl hst') hlt
    · have : getAppState w = (w, .ok .finished) := by unfold getAppState; simp [hs]
      rw [this]
      simp only [if_true]
      exact joinTail_ne_div _

/-- `join` on a web job never runs out of the model's fuel: with a server that becomes READY after `k` polls the loop ends
(by READY, by a timeout, or by an exception of `is_finished()`), for every timeout. -/
theorem joinBody_terminates (w : Web) (t : Option Int) (hs : w.state = .running ∨ w.state = .finished) :
    (joinBody w t).2 ≠ .diverges := by
  unfold joinBody
  apply joinLoop_terminates
  · simpa [sleepInterval] using hs
  · simp only [sleepInterval]; omega

end BiotiteModel.C20.Web

import BiotiteModel.Proofs.C10Mincode
import BiotiteModel.Proofs.C10Syncmer
/-! `CachedSyncmerSelector.select_from_kmers` = `SyncmerSelector.select_from_kmers`. -/
namespace BiotiteModel.C10

theorem zipIdx_map {α β : Type} (f : α → β) (l : List α) :
    zipIdx (l.map f) = (zipIdx l).map fun x => (x.1, f x.2) := by
  unfold zipIdx
  rw [List.length_map, List.zip_map_right]
  rfl

theorem pairWithKmers_fst (kmers pos : List Nat) (sel : List (Nat × Nat))
    (h : pairWithKmers kmers pos = .ok sel) : sel.map (·.1) = pos := by
  unfold pairWithKmers at h
  apply List.ext_getElem?
  intro i
  have hlen := mapMExcept_length _ _ _ h
  cases hp : pos[i]? with
  | none =>
    have : ¬ i < pos.length := fun hh => by simp [List.getElem?_eq_getElem hh] at hp
    simp [hlen, this]
  | some x =>
    obtain ⟨y, hy1, hy2⟩ := mapMExcept_getElem _ _ _ h i x hp
    simp only [List.getElem?_map, hy2, Option.map_some]
    cases hk : kmers[x]? with
    | none => simp [hk] at hy1
    | some q => simp only [hk, Except.ok.injEq] at hy1; subst hy1; rfl

theorem cached_eq (n k s : Nat) (p : Perm) (offsets : List Int) (mask : List Bool)
    (hmask : cachedSyncmerMask n k s p offsets = .ok mask) (kmers : List Nat)
    (hk : ∀ q ∈ kmers, q < n ^ k) :
    cachedSyncmerFromKmers n k s p offsets kmers = syncmerFromKmers n k s p offsets kmers := by
  unfold cachedSyncmerFromKmers
  rw [hmask]
  unfold cachedSyncmerMask syncmerFromKmers at hmask
  unfold syncmerFromKmers
  cases hsetup : syncSetup n k s offsets with
  | error e => simp [hsetup] at hmask
  | ok so =>
    obtain ⟨sa, offs⟩ := so
    simp only [hsetup] at hmask ⊢
    have hall : (List.range (n ^ k)).all (fun x => decide (x < n ^ k)) = true := by
      simp [List.all_eq_true]
    have hall2 : kmers.all (fun x => decide (x < n ^ k)) = true := by
      simp only [List.all_eq_true, decide_eq_true_eq]; exact hk
    simp only [hall, hall2, Bool.not_true, Bool.false_eq_true, if_false] at hmask ⊢
    cases hmp : mapMExcept (syncMinPos n k sa p) (List.range (n ^ k)) with
    | error e => simp [hmp] at hmask
    | ok mpAll =>
      simp only [hmp] at hmask
      cases hsel : pairWithKmers (List.range (n ^ k)) (filterSyncmer offs mpAll) with
      | error e => simp [hsel] at hmask
      | ok sel =>
        simp only [hsel, Except.ok.injEq] at hmask
        have hfst := pairWithKmers_fst _ _ _ hsel
        have hlenAll := mapMExcept_length _ _ _ hmp
        -- value of the cache at a valid k-mer code
        let hq : Nat → Int := fun q => mpAll[q]?.getD 0
        have hmin : ∀ q, q < n ^ k → syncMinPos n k sa p q = .ok (hq q) ∧ mpAll[q]? = some (hq q) := by
          intro q hlt
          obtain ⟨y, h1, h2⟩ := mapMExcept_getElem _ _ _ hmp q q (by simp [hlt])
          simp only [hq, h2, Option.getD_some]
          exact ⟨h1, trivial⟩
        have hmaskq : ∀ q, q < n ^ k → mask[q]? = some (offs.any fun o => (o : Int) == hq q) := by
          intro q hlt
          rw [← hmask]
          simp only [List.getElem?_map, List.getElem?_range hlt, Option.map_some, Option.some.injEq]
          rw [Bool.eq_iff_iff]
          simp only [List.any_eq_true, beq_iff_eq]
          constructor
          · rintro ⟨x, hx, rfl⟩
            have : x.1 ∈ filterSyncmer offs mpAll := by rw [← hfst]; exact List.mem_map_of_mem hx
            obtain ⟨r, hr, o, ho, heq⟩ := (mem_filterSyncmer offs mpAll x.1).1 this
            rw [(hmin x.1 hlt).2] at hr
            simp only [Option.some.injEq] at hr
            exact ⟨o, ho, by rw [heq, hr]⟩
          · rintro ⟨o, ho, heq⟩
            have : q ∈ filterSyncmer offs mpAll :=
              (mem_filterSyncmer offs mpAll q).2 ⟨hq q, (hmin q hlt).2, o, ho, heq⟩
            rw [← hfst] at this
            obtain ⟨x, hx, rfl⟩ := List.mem_map.1 this
            exact ⟨x, hx, rfl⟩
        rw [mapMExcept_ok (syncMinPos n k sa p) hq kmers (fun q hqm => (hmin q (hk q hqm)).1)]
        rw [mapMExcept_ok (maskLookup mask) (fun q => offs.any fun o => (o : Int) == hq q) kmers
              (fun q hqm => by simp only [maskLookup, hmaskq q (hk q hqm)])]
        simp only []
        congr 1
        unfold filterSyncmer
        rw [zipIdx_map, zipIdx_map, List.filterMap_map, List.filterMap_map]
        rfl

end BiotiteModel.C10

import BiotiteModel.Model.C02
/-!
# C02 — definitions used in the property statements and helper lemmas

* `Canon`: canonical form of a bond list (sorted pairs, indices below the atom count, valid types, no duplicate pair).
* `MaxOk`: the cached `_max_bonds_per_atom` bounds the degree of every atom.
* lemmas per operation: invariants (`*_wf`) and the value of `lookup` after the operation (`lookup_*`).
-/
namespace BiotiteModel.C02
open BiotiteModel

/-! ## `_to_positive_index` at C width -/

theorem toNat_ofInt32 (i : Int) : (BitVec.ofInt 32 i).toNat = (i % 4294967296).toNat := by
  simp [BitVec.toNat_ofInt]

theorem toInt_ofInt32 (i : Int) (h1 : -2147483648 ≤ i) (h2 : i ≤ 2147483647) : (BitVec.ofInt 32 i).toInt = i := by
  rw [BitVec.toInt_ofInt]
  simp [Int.bmod]
  omega

/-- value of `_to_positive_index` for every int32 index, as natural-number arithmetic -/
theorem posIndex32_spec32 (n : Nat) (i : Int) (hn : n < 4294967296) (h1 : -2147483648 ≤ i) (h2 : i ≤ 2147483647) :
    posIndex32 n (BitVec.ofInt 32 i) =
      if 0 ≤ i then (if i < n then .ok i.toNat else .err .indexError)
      else if i = -(n : Int) - 1 then .crash
      else .ok ((i + n) % 4294967296).toNat := by
  unfold posIndex32 toPositiveIndex
  have hbig : ¬ n ≥ 4294967296 := by omega
  simp only [hbig, if_false]
  have hslt : (BitVec.ofInt 32 i).slt 0#32 = decide (i < 0) := by
    simp [BitVec.slt, toInt_ofInt32 i h1 h2]
  rw [hslt]
  by_cases hi : i < 0
  · have hn0 : ¬ (0 ≤ i) := by omega
    simp only [hi, decide_true, if_true, hn0, if_false]
    have hult : (BitVec.ofNat 32 n + BitVec.ofInt 32 i).ult 0#32 = false := by simp [BitVec.ult]
    simp only [hult, Bool.false_eq_true, if_false]
    have htn : (BitVec.ofNat 32 n + BitVec.ofInt 32 i).toNat = ((i + n) % 4294967296).toNat := by
      rw [BitVec.toNat_add, toNat_ofInt32]
      simp
      omega
    by_cases hs : i = -(n : Int) - 1
    · have : BitVec.ofNat 32 n + BitVec.ofInt 32 i = sentinel := by
        apply BitVec.eq_of_toNat_eq
        rw [htn, hs]; simp [sentinel]; omega
      simp only [this]
      simp [hs]
    · have : BitVec.ofNat 32 n + BitVec.ofInt 32 i ≠ sentinel := by
        intro h
        have := congrArg BitVec.toNat h
        rw [htn] at this
        simp [sentinel] at this
        omega
      simp [this, hs, htn]
  · have h0 : 0 ≤ i := by omega
    simp only [hi, decide_false, Bool.false_eq_true, if_false, h0, if_true]
    have hult : (BitVec.ofInt 32 i).ult (BitVec.ofNat 32 n) = decide (i < n) := by
      simp [BitVec.ult, toNat_ofInt32]
      omega
    rw [hult]
    by_cases hlt : i < n
    · have : BitVec.ofInt 32 i ≠ sentinel := by
        intro h
        have := congrArg BitVec.toNat h
        rw [toNat_ofInt32] at this
        simp [sentinel] at this
        omega
      simp [hlt, this, toNat_ofInt32]
      omega
    · simp [hlt]

theorem posIndex32_spec (n : Nat) (i : Int) (hn : n < 2147483648) (h1 : -2147483648 ≤ i) (h2 : i ≤ 2147483647) :
    posIndex32 n (BitVec.ofInt 32 i) =
      if 0 ≤ i then (if i < n then .ok i.toNat else .err .indexError)
      else if i = -(n : Int) - 1 then .crash
      else .ok ((i + n) % 4294967296).toNat :=
  posIndex32_spec32 n i (by omega) h1 h2

/-! ## Canonical form and the cached maximum -/

def pairs (bs : List Bond) : List (Nat × Nat) := bs.map fun c => (c.1, c.2.1)

structure Canon (s : BL) : Prop where
  sorted : ∀ c ∈ s.bonds, c.1 ≤ c.2.1
  bound : ∀ c ∈ s.bonds, c.2.1 < s.n
  types : ∀ c ∈ s.bonds, c.2.2 < 10
  nodup : (pairs s.bonds).Nodup

/-- the cached maximum bounds every degree: the buffers of `get_bonds`/`get_all_bonds` are large enough -/
def MaxOk (s : BL) : Prop := ∀ k, deg s.bonds k ≤ s.cachedMax

def WF (s : BL) : Prop := Canon s ∧ MaxOk s

theorem le_listMax {x : Nat} {l : List Nat} (h : x ∈ l) : x ≤ listMax l := by
  induction l with
  | nil => cases h
  | cons y ys ih =>
    simp only [listMax]
    rcases List.mem_cons.mp h with rfl | h
    · omega
    · have := ih h; omega

@[simp] theorem deg_nil (k : Nat) : deg [] k = 0 := rfl

@[simp] theorem deg_cons (c : Bond) (bs : List Bond) (k : Nat) :
    deg (c :: bs) k = ((if c.1 = k then 1 else 0) + (if c.2.1 = k then 1 else 0)) + deg bs k := by
  simp [deg]

theorem deg_append (l1 l2 : List Bond) (k : Nat) : deg (l1 ++ l2) k = deg l1 k + deg l2 k := by
  induction l1 with
  | nil => simp
  | cons c cs ih => simp [ih]; omega

theorem deg_eq_zero {bs : List Bond} {k : Nat} (h : ∀ c ∈ bs, c.1 ≠ k ∧ c.2.1 ≠ k) : deg bs k = 0 := by
  induction bs with
  | nil => rfl
  | cons c cs ih =>
    have hc := h c (by simp)
    simp [hc.1, hc.2, ih (fun d hd => h d (by simp [hd]))]

theorem deg_sublist {l' l : List Bond} (h : l'.Sublist l) (k : Nat) : deg l' k ≤ deg l k := by
  induction h with
  | slnil => simp
  | cons a _ ih => simp; omega
  | cons_cons a _ ih => simp; omega

theorem deg_le_maxBonds {n k : Nat} (bs : List Bond) (hk : k < n) : deg bs k ≤ maxBonds n bs := by
  have hn : n ≠ 0 := by omega
  simp only [maxBonds, hn, if_false]
  exact le_listMax (List.mem_map.mpr ⟨k, List.mem_range.mpr hk, rfl⟩)

theorem maxOk_maxBonds {n : Nat} {bs : List Bond} (h : ∀ c ∈ bs, c.1 < n ∧ c.2.1 < n) (k : Nat) :
    deg bs k ≤ maxBonds n bs := by
  by_cases hk : k < n
  · exact deg_le_maxBonds bs hk
  · rw [deg_eq_zero]
    · omega
    · intro c hc; have := h c hc; omega

theorem Canon.of_sublist {n m m' : Nat} {l l' : List Bond} (h : Canon ⟨n, l, m⟩) (hs : l'.Sublist l) :
    Canon ⟨n, l', m'⟩ :=
  ⟨fun c hc => h.sorted c (hs.subset hc), fun c hc => h.bound c (hs.subset hc),
   fun c hc => h.types c (hs.subset hc), (hs.map _).nodup h.nodup⟩

theorem WF.of_sublist {n m : Nat} {l l' : List Bond} (h : WF ⟨n, l, m⟩) (hs : l'.Sublist l) : WF ⟨n, l', m⟩ :=
  ⟨h.1.of_sublist hs, fun k => Nat.le_trans (deg_sublist hs k) (h.2 k)⟩

/-! ## first-wins dedup -/

theorem dedupAux_sublist (seen : List (Nat × Nat)) (l : List Bond) : (dedupAux seen l).Sublist l := by
  induction l generalizing seen with
  | nil => simp [dedupAux]
  | cons c cs ih =>
    simp only [dedupAux]
    split
    · exact (ih seen).cons c
    · exact (ih _).cons_cons c

theorem dedupAux_pairs (seen : List (Nat × Nat)) (l : List Bond) :
    (pairs (dedupAux seen l)).Nodup ∧ ∀ p ∈ pairs (dedupAux seen l), p ∉ seen := by
  induction l generalizing seen with
  | nil => simp [dedupAux, pairs]
  | cons c cs ih =>
    simp only [dedupAux]
    split
    · exact ih seen
    · rename_i hns
      obtain ⟨hnd, hdis⟩ := ih ((c.1, c.2.1) :: seen)
      have hns' : (c.1, c.2.1) ∉ seen := by simpa using hns
      refine ⟨?_, ?_⟩
      · simp only [pairs, List.map_cons, List.nodup_cons]
        refine ⟨fun hm => ?_, hnd⟩
        exact hdis _ hm (by simp)
      · intro p hp
        simp only [pairs, List.map_cons, List.mem_cons] at hp
        rcases hp with rfl | hp
        · exact hns'
        · intro hps
          exact hdis p hp (by simp [hps])

theorem isPair_iff {i j : Nat} {c : Bond} : isPair i j c = true ↔ c.1 = i ∧ c.2.1 = j := by
  simp [isPair]

@[simp] theorem lookup_nil (i j : Nat) : lookup [] i j = none := rfl

theorem lookup_cons (c : Bond) (bs : List Bond) (i j : Nat) :
    lookup (c :: bs) i j = if c.1 = i ∧ c.2.1 = j then some c.2.2 else lookup bs i j := by
  simp only [lookup, List.find?_cons]
  by_cases hc : c.1 = i ∧ c.2.1 = j
  · have : isPair i j c = true := isPair_iff.mpr hc
    simp [this, hc]
  · have : isPair i j c = false := by rw [← Bool.not_eq_true, isPair_iff]; exact hc
    simp [this, hc]

theorem lookup_dedupAux (seen : List (Nat × Nat)) (l : List Bond) (i j : Nat) :
    lookup (dedupAux seen l) i j = if (i, j) ∈ seen then none else lookup l i j := by
  induction l generalizing seen with
  | nil => simp [dedupAux]
  | cons c cs ih =>
    simp only [dedupAux]
    split
    · rename_i hs
      have hs' : (c.1, c.2.1) ∈ seen := by simpa using hs
      rw [ih, lookup_cons]
      by_cases hm : (i, j) ∈ seen
      · simp [hm]
      · have : ¬ (c.1 = i ∧ c.2.1 = j) := by
          rintro ⟨rfl, rfl⟩; exact hm hs'
        simp [hm, this]
    · rename_i hs
      have hs' : (c.1, c.2.1) ∉ seen := by simpa using hs
      rw [lookup_cons, lookup_cons, ih]
      by_cases hc : c.1 = i ∧ c.2.1 = j
      · obtain ⟨rfl, rfl⟩ := hc
        simp [hs']
      · have hne : ¬ ((i, j) = (c.1, c.2.1)) := by
          intro h; injection h with h1 h2; exact hc ⟨h1.symm, h2.symm⟩
        simp [hc, hne]

theorem lookup_isSome_iff (bs : List Bond) (i j : Nat) : (lookup bs i j).isSome ↔ (i, j) ∈ pairs bs := by
  induction bs with
  | nil => simp [pairs]
  | cons c cs ih =>
    rw [lookup_cons]
    by_cases hc : c.1 = i ∧ c.2.1 = j
    · obtain ⟨rfl, rfl⟩ := hc; simp [pairs]
    · have : ¬ ((i, j) = (c.1, c.2.1)) := by
        intro h; injection h with h1 h2; exact hc ⟨h1.symm, h2.symm⟩
      simp only [hc, if_false, ih, pairs, List.map_cons, List.mem_cons, this, false_or]

/-- in a list without duplicate pairs `lookup` is membership -/
theorem lookup_eq_some_iff {bs : List Bond} (hnd : (pairs bs).Nodup) (i j t : Nat) :
    lookup bs i j = some t ↔ (i, j, t) ∈ bs := by
  induction bs with
  | nil => simp
  | cons c cs ih =>
    simp only [pairs, List.map_cons, List.nodup_cons] at hnd
    rw [lookup_cons]
    by_cases hc : c.1 = i ∧ c.2.1 = j
    · obtain ⟨rfl, rfl⟩ := hc
      simp only [and_self, if_true, List.mem_cons]
      constructor
      · intro h; left; injection h with h; rw [← h]
      · rintro (h | h)
        · rw [← h]
        · exact absurd (List.mem_map.mpr ⟨_, h, rfl⟩) hnd.1
    · simp only [hc, if_false, List.mem_cons]
      rw [ih hnd.2]
      constructor
      · exact Or.inr
      · rintro (h | h)
        · exact absurd (by rw [← h]; exact ⟨rfl, rfl⟩) hc
        · exact h

/-! ## Constructor -/

theorem sortPair_le (a b : Nat) : (sortPair a b).1 ≤ (sortPair a b).2 := by
  unfold sortPair; split <;> simp <;> omega

theorem sortPair_lt {a b n : Nat} (ha : a < n) (hb : b < n) : (sortPair a b).1 < n ∧ (sortPair a b).2 < n := by
  unfold sortPair; split <;> simp <;> omega

theorem sortPair_of_le {a b : Nat} (h : a ≤ b) : sortPair a b = (a, b) := by
  unfold sortPair; split
  · omega
  · rfl

/-- `_to_positive_index_array` accepts exactly `[-n, n)` and maps `x` to `x mod n` -/
theorem normOne_spec (n : Nat) (x : Int) :
    normOne n x = if -(n : Int) ≤ x ∧ x < n then some (x % n).toNat else none := by
  unfold normOne
  simp only
  by_cases hneg : x < 0
  · simp only [hneg, if_true]
    by_cases h : -(n : Int) ≤ x
    · have h1 : ¬ (x + n < 0 ∨ x + n ≥ n) := by omega
      have h2 : -(n : Int) ≤ x ∧ x < n := by omega
      have h3 : x % (n : Int) = x + n := by
        rw [← Int.add_emod_right, Int.emod_eq_of_lt] <;> omega
      rw [if_neg h1, if_pos h2, h3]
    · have h1 : x + n < 0 ∨ x + n ≥ n := by omega
      have h2 : ¬ (-(n : Int) ≤ x ∧ x < n) := by omega
      rw [if_pos h1, if_neg h2]
  · simp only [hneg, if_false]
    by_cases h : x < n
    · have h1 : ¬ (False ∨ x ≥ n) := by simp; omega
      have h2 : -(n : Int) ≤ x ∧ x < n := by omega
      have h3 : x % (n : Int) = x := Int.emod_eq_of_lt (by omega) h
      rw [if_neg h1, if_pos h2, h3]
    · have h1 : False ∨ x ≥ n := by simp; omega
      have h2 : ¬ (-(n : Int) ≤ x ∧ x < n) := by omega
      rw [if_pos h1, if_neg h2]

theorem normOne_lt {n : Nat} {x : Int} {a : Nat} (h : normOne n x = some a) : a < n := by
  rw [normOne_spec] at h
  split at h
  · rename_i hx
    injection h with h; subst h
    have h1 := Int.emod_lt_of_pos x (show (0 : Int) < n by omega)
    have h2 := Int.emod_nonneg x (show (n : Int) ≠ 0 by omega)
    omega
  · cases h

theorem normRows_bound {n : Nat} {input : List (Int × Int × Nat)} {rows : List Bond}
    (h : normRows n input = some rows) : ∀ c ∈ rows, c.1 < n ∧ c.2.1 < n := by
  induction input generalizing rows with
  | nil => simp [normRows] at h; subst h; simp
  | cons x xs ih =>
    obtain ⟨i, j, t⟩ := x
    simp only [normRows] at h
    split at h
    · rename_i a b r ha hb hr
      injection h with h; subst h
      intro c hc
      rcases List.mem_cons.mp hc with rfl | hc
      · exact ⟨normOne_lt ha, normOne_lt hb⟩
      · exact ih hr c hc
    · cases h

theorem ctorCore_ok {n : Nat} {typed : Bool} {rows : List Bond} {s : BL} (h : ctorCore n typed rows = .ok s) :
    s = ⟨n, dedupAux [] (rows.map (sortRow typed)), maxBonds n (dedupAux [] (rows.map (sortRow typed)))⟩ ∧
    (typed = true → ∀ c ∈ rows, c.2.2 < 10) := by
  unfold ctorCore at h
  split at h
  · cases h
  · rename_i hc
    injection h with h
    refine ⟨h.symm, fun ht c hcm => ?_⟩
    simp only [ht, Bool.true_and, List.any_eq_true, decide_eq_true_eq, not_exists, not_and] at hc
    have := hc c hcm; omega

theorem ctorCore_wf {n : Nat} {typed : Bool} {rows : List Bond} {s : BL}
    (hr : ∀ c ∈ rows, c.1 < n ∧ c.2.1 < n) (h : ctorCore n typed rows = .ok s) : WF s ∧ s.n = n := by
  obtain ⟨rfl, hty⟩ := ctorCore_ok h
  have hmem : ∀ c ∈ dedupAux [] (rows.map (sortRow typed)), ∃ r ∈ rows, c = sortRow typed r := by
    intro c hc
    have := (dedupAux_sublist [] _).subset hc
    obtain ⟨r, hr, rfl⟩ := List.mem_map.mp this
    exact ⟨r, hr, rfl⟩
  refine ⟨⟨⟨?_, ?_, ?_, (dedupAux_pairs [] _).1⟩, ?_⟩, rfl⟩
  · intro c hc; obtain ⟨r, _, rfl⟩ := hmem c hc; exact sortPair_le _ _
  · intro c hc; obtain ⟨r, hrm, rfl⟩ := hmem c hc; exact (sortPair_lt (hr r hrm).1 (hr r hrm).2).2
  · intro c hc; obtain ⟨r, hrm, rfl⟩ := hmem c hc
    simp only [sortRow]
    cases typed
    · simp
    · simpa using hty rfl r hrm
  · intro k
    apply maxOk_maxBonds
    intro c hc; obtain ⟨r, hrm, rfl⟩ := hmem c hc
    exact sortPair_lt (hr r hrm).1 (hr r hrm).2

theorem newBL_wf {n : Nat} {typed : Bool} {input : List (Int × Int × Nat)} {s : BL}
    (h : newBL n typed input = .ok s) : WF s ∧ s.n = n := by
  unfold newBL at h
  split at h
  · injection h with h; subst h
    exact ⟨⟨⟨by simp [BL.empty], by simp [BL.empty], by simp [BL.empty], by simp [BL.empty, pairs]⟩,
      fun k => by simp [BL.empty]⟩, rfl⟩
  · split at h
    · cases h
    · rename_i rows hrows
      exact ctorCore_wf (normRows_bound hrows) h

/-! ## `lookup` under the list operations -/

theorem lookup_append (l1 l2 : List Bond) (i j : Nat) :
    lookup (l1 ++ l2) i j = (lookup l1 i j).or (lookup l2 i j) := by
  induction l1 with
  | nil => simp
  | cons c cs ih =>
    rw [List.cons_append, lookup_cons, lookup_cons]
    split <;> simp [ih]

theorem lookup_filter (p : Nat → Nat → Bool) (l : List Bond) (i j : Nat) :
    lookup (l.filter fun c => p c.1 c.2.1) i j = if p i j then lookup l i j else none := by
  induction l with
  | nil => simp
  | cons c cs ih =>
    rw [List.filter_cons]
    by_cases hp : p c.1 c.2.1 = true
    · simp only [hp, if_true]
      rw [lookup_cons, lookup_cons, ih]
      by_cases hc : c.1 = i ∧ c.2.1 = j
      · obtain ⟨rfl, rfl⟩ := hc; simp [hp]
      · simp [hc]
    · simp only [hp, Bool.false_eq_true, if_false]
      rw [ih, lookup_cons]
      by_cases hc : c.1 = i ∧ c.2.1 = j
      · obtain ⟨rfl, rfl⟩ := hc
        simp [hp]
      · simp [hc]

theorem lookup_map_type (f : Nat → Nat) (l : List Bond) (i j : Nat) :
    lookup (l.map fun c => (c.1, c.2.1, f c.2.2)) i j = (lookup l i j).map f := by
  induction l with
  | nil => simp
  | cons c cs ih =>
    rw [List.map_cons, lookup_cons, lookup_cons, ih]
    split <;> simp

theorem lookup_shift (k : Nat) (l : List Bond) (i j : Nat) :
    lookup (shift k l) i j = if k ≤ i ∧ k ≤ j then lookup l (i - k) (j - k) else none := by
  induction l with
  | nil => simp [shift]
  | cons c cs ih =>
    simp only [shift, List.map_cons] at ih ⊢
    rw [lookup_cons, lookup_cons, ih]
    by_cases hk : k ≤ i ∧ k ≤ j
    · have e : (c.1 + k = i ∧ c.2.1 + k = j) ↔ (c.1 = i - k ∧ c.2.1 = j - k) := by omega
      simp only [hk, and_self, if_true, e]
    · have e : ¬ (c.1 + k = i ∧ c.2.1 + k = j) := by omega
      simp only [hk, if_false, e]

theorem lookup_setType (a b t : Nat) (l : List Bond) (i j : Nat) :
    lookup (setType a b t l) i j = if i = a ∧ j = b then (lookup l a b).map (fun _ => t) else lookup l i j := by
  induction l with
  | nil => simp [setType]
  | cons c cs ih =>
    simp only [setType]
    by_cases hp : isPair a b c = true
    · have hab := isPair_iff.mp hp
      simp only [hp, if_true]
      rw [lookup_cons, lookup_cons, lookup_cons]
      by_cases hij : i = a ∧ j = b
      · obtain ⟨rfl, rfl⟩ := hij; simp [hab]
      · have : ¬ (c.1 = i ∧ c.2.1 = j) := by rw [hab.1, hab.2]; intro h; exact hij ⟨h.1.symm, h.2.symm⟩
        simp [hij, this]
    · have hab : ¬ (c.1 = a ∧ c.2.1 = b) := fun h => hp (isPair_iff.mpr h)
      simp only [hp, Bool.false_eq_true, if_false]
      simp only [lookup_cons, ih]
      by_cases hij : i = a ∧ j = b
      · obtain ⟨rfl, rfl⟩ := hij; simp [hab]
      · simp [hij]

theorem any_isPair_iff (l : List Bond) (a b : Nat) : l.any (isPair a b) = true ↔ (a, b) ∈ pairs l := by
  simp only [List.any_eq_true, pairs, List.mem_map, isPair_iff]
  constructor
  · rintro ⟨c, hc, h1, h2⟩; exact ⟨c, hc, by rw [h1, h2]⟩
  · rintro ⟨c, hc, h⟩; injection h with h1 h2; exact ⟨c, hc, h1, h2⟩

/-! ## add_bond -/

theorem setType_pairs (a b t : Nat) (l : List Bond) : pairs (setType a b t l) = pairs l := by
  induction l with
  | nil => rfl
  | cons c cs ih =>
    simp only [setType]; split
    · simp [pairs]
    · simp only [pairs, List.map_cons] at ih ⊢; rw [ih]

theorem setType_deg (a b t : Nat) (l : List Bond) (k : Nat) : deg (setType a b t l) k = deg l k := by
  induction l with
  | nil => rfl
  | cons c cs ih =>
    simp only [setType]; split
    · simp
    · simp [ih]

theorem setType_mem {a b t : Nat} {l : List Bond} {c : Bond} (h : c ∈ setType a b t l) :
    ∃ d ∈ l, c.1 = d.1 ∧ c.2.1 = d.2.1 ∧ (c.2.2 = d.2.2 ∨ c.2.2 = t) := by
  induction l with
  | nil => simp [setType] at h
  | cons x xs ih =>
    simp only [setType] at h
    split at h
    · rcases List.mem_cons.mp h with rfl | h
      · exact ⟨x, by simp, rfl, rfl, Or.inr rfl⟩
      · exact ⟨c, by simp [h], rfl, rfl, Or.inl rfl⟩
    · rcases List.mem_cons.mp h with rfl | h
      · exact ⟨c, by simp, rfl, rfl, Or.inl rfl⟩
      · obtain ⟨d, hd, h'⟩ := ih h
        exact ⟨d, by simp [hd], h'⟩

theorem addCore_wf {s s' : BL} {a b : Nat} {t : Int} (hw : WF s) (ha : a < s.n) (hb : b < s.n) (ht : t < 10)
    (h : addCore s a b t = .ok s') : WF s' ∧ s'.n = s.n := by
  unfold addCore at h
  simp only at h
  split at h
  · cases h
  · rename_i ht0
    have htn : t.toNat < 10 := by omega
    split at h
    · injection h with h; subst h
      refine ⟨⟨⟨?_, ?_, ?_, ?_⟩, ?_⟩, rfl⟩
      · intro c hc; obtain ⟨d, hd, h1, h2, _⟩ := setType_mem hc; have := hw.1.sorted d hd; omega
      · intro c hc; obtain ⟨d, hd, h1, h2, _⟩ := setType_mem hc; have := hw.1.bound d hd; simp only at this ⊢; omega
      · intro c hc; obtain ⟨d, hd, _, _, h3⟩ := setType_mem hc; have := hw.1.types d hd; omega
      · simp only [setType_pairs]; exact hw.1.nodup
      · intro k; simp only [setType_deg]; exact hw.2 k
    · rename_i hany
      have hnotin : ((sortPair a b).1, (sortPair a b).2) ∉ pairs s.bonds := by
        rw [← any_isPair_iff]; exact hany
      have hn0 : s.n ≠ 0 := by omega
      simp only [hn0, if_false] at h
      split at h
      · injection h with h; subst h
        have hsp := sortPair_lt ha hb
        have hmem : ∀ c ∈ s.bonds ++ [((sortPair a b).1, (sortPair a b).2, t.toNat)],
            c.1 ≤ c.2.1 ∧ c.2.1 < s.n ∧ c.2.2 < 10 := by
          intro c hc
          rcases List.mem_append.mp hc with hc | hc
          · exact ⟨hw.1.sorted c hc, hw.1.bound c hc, hw.1.types c hc⟩
          · simp only [List.mem_singleton] at hc; subst hc
            exact ⟨sortPair_le a b, hsp.2, htn⟩
        refine ⟨⟨⟨fun c hc => (hmem c hc).1, fun c hc => (hmem c hc).2.1, fun c hc => (hmem c hc).2.2, ?_⟩, ?_⟩, rfl⟩
        · simp only [pairs, List.map_append, List.map_cons, List.map_nil]
          rw [List.nodup_append]
          refine ⟨hw.1.nodup, by simp, ?_⟩
          intro x hx y hy
          simp only [List.mem_singleton] at hy
          subst hy
          intro hxy; subst hxy; exact hnotin hx
        · intro k
          apply maxOk_maxBonds
          intro c hc
          have := hmem c hc
          omega
      · cases h

theorem addCore_lookup {s s' : BL} {a b : Nat} {t : Int} (hn : s.n ≠ 0) (h : addCore s a b t = .ok s') (i j : Nat) :
    lookup s'.bonds i j =
      if i = (sortPair a b).1 ∧ j = (sortPair a b).2 then some t.toNat else lookup s.bonds i j := by
  unfold addCore at h
  simp only at h
  split at h
  · cases h
  · split at h
    · rename_i hany
      injection h with h; subst h
      simp only [lookup_setType]
      have : (lookup s.bonds (sortPair a b).1 (sortPair a b).2).isSome := by
        rw [lookup_isSome_iff, ← any_isPair_iff]; exact hany
      obtain ⟨v, hv⟩ := Option.isSome_iff_exists.mp this
      simp [hv]
    · rename_i hany
      have hnone : lookup s.bonds (sortPair a b).1 (sortPair a b).2 = none := by
        have : ¬ (lookup s.bonds (sortPair a b).1 (sortPair a b).2).isSome := by
          rw [lookup_isSome_iff, ← any_isPair_iff]; exact hany
        simpa using this
      try rw [if_neg hn] at h
      split at h
      · injection h with h; subst h
        simp only [lookup_append, lookup_cons, lookup_nil]
        by_cases hij : i = (sortPair a b).1 ∧ j = (sortPair a b).2
        · obtain ⟨rfl, rfl⟩ := hij; simp [hnone]
        · have : ¬ ((sortPair a b).1 = i ∧ (sortPair a b).2 = j) := fun h => hij ⟨h.1.symm, h.2.symm⟩
          simp [hij, this]
      · cases h

/-! ## remove_bond / remove_bonds_to / remove_bonds -/

theorem removeLoop_sublist (a b : Nat) (old : List Bond) (i : Nat) (cur : List Bond) :
    (removeLoop a b old i cur).Sublist cur := by
  induction old generalizing i cur with
  | nil => simp [removeLoop]
  | cons c cs ih =>
    simp only [removeLoop]
    split
    · exact (ih _ _).trans (List.eraseIdx_sublist _ _)
    · exact ih _ _

theorem removeLoop_nomatch (a b : Nat) (old : List Bond) (i : Nat) (cur : List Bond)
    (h : ∀ c ∈ old, isPair a b c = false) : removeLoop a b old i cur = cur := by
  induction old generalizing i with
  | nil => rfl
  | cons c cs ih =>
    simp only [removeLoop, h c (by simp), Bool.false_eq_true, if_false]
    exact ih _ (fun d hd => h d (by simp [hd]))

/-- with no duplicate pair, the delete-inside-the-scan loop is a filter -/
theorem removeLoop_eq_filter (a b : Nat) (old done : List Bond) (hnd : (pairs old).Nodup) :
    removeLoop a b old done.length (done ++ old) = done ++ old.filter (fun c => !isPair a b c) := by
  induction old generalizing done with
  | nil => simp [removeLoop]
  | cons c cs ih =>
    simp only [pairs, List.map_cons, List.nodup_cons] at hnd
    simp only [removeLoop]
    by_cases hp : isPair a b c = true
    · simp only [hp, if_true, List.filter_cons, Bool.not_true, Bool.false_eq_true, if_false]
      have he : (done ++ c :: cs).eraseIdx done.length = done ++ cs := by
        rw [List.eraseIdx_append_of_length_le (Nat.le_refl _)]; simp
      rw [he]
      have hab := isPair_iff.mp hp
      have hno : ∀ d ∈ cs, isPair a b d = false := by
        intro d hd
        rw [← Bool.not_eq_true, isPair_iff]
        intro h
        apply hnd.1
        exact List.mem_map.mpr ⟨d, hd, by rw [h.1, h.2, hab.1, hab.2]⟩
      rw [removeLoop_nomatch a b cs _ _ hno]
      congr 1
      rw [List.filter_eq_self.mpr]
      intro d hd; simp [hno d hd]
    · simp only [hp, Bool.false_eq_true, if_false, List.filter_cons, Bool.not_false, if_true]
      have := ih (done ++ [c]) hnd.2
      simp only [List.length_append, List.length_singleton, List.append_assoc, List.singleton_append] at this
      exact this

theorem removeCore_wf {s : BL} (a b : Nat) (hw : WF s) : WF (removeCore s a b) :=
  WF.of_sublist (l := s.bonds) hw (removeLoop_sublist _ _ _ _ _)

theorem removeCore_lookup {s : BL} (a b : Nat) (hw : WF s) (i j : Nat) :
    lookup (removeCore s a b).bonds i j =
      if i = (sortPair a b).1 ∧ j = (sortPair a b).2 then none else lookup s.bonds i j := by
  have := removeLoop_eq_filter (sortPair a b).1 (sortPair a b).2 s.bonds [] hw.1.nodup
  simp only [List.length_nil, List.nil_append] at this
  simp only [removeCore, this]
  have hf : (fun c : Bond => !isPair (sortPair a b).1 (sortPair a b).2 c) =
      fun c => !(c.1 == (sortPair a b).1 && c.2.1 == (sortPair a b).2) := by
    funext c; simp [isPair]
  have hl := lookup_filter (fun x y => !(x == (sortPair a b).1 && y == (sortPair a b).2)) s.bonds i j
  rw [hf, hl]
  by_cases hij : i = (sortPair a b).1 ∧ j = (sortPair a b).2
  · obtain ⟨rfl, rfl⟩ := hij; simp
  · have : (i == (sortPair a b).1 && j == (sortPair a b).2) = false := by
      rw [← Bool.not_eq_true]; simpa using hij
    simp [hij, this]

/-! ## filters, merge, type maps -/

theorem wf_empty (n : Nat) : WF (BL.empty n) :=
  ⟨⟨by simp [BL.empty], by simp [BL.empty], by simp [BL.empty], by simp [BL.empty, pairs]⟩, fun k => by simp [BL.empty]⟩

theorem filter_wf {s : BL} (p : Bond → Bool) (hw : WF s) : WF { s with bonds := s.bonds.filter p } :=
  WF.of_sublist (l := s.bonds) hw List.filter_sublist

theorem sortRow_of_sorted {c : Bond} (h : c.1 ≤ c.2.1) : sortRow true c = c := by
  simp [sortRow, sortPair_of_le h]

theorem merge_wf {s o s' : BL} (h : merge s o = .ok s') : WF s' ∧ s'.n = max s.n o.n := by
  unfold merge at h
  simp only at h
  split at h
  · injection h with h; subst h; exact ⟨wf_empty _, rfl⟩
  · split at h
    · cases h
    · rename_i hr
      refine ctorCore_wf ?_ h
      intro c hc
      simp only [List.any_eq_true, Bool.or_eq_true, decide_eq_true_eq, not_exists, not_and, not_or] at hr
      have := hr c hc
      omega

theorem merge_lookup {s o s' : BL} (hs : Canon s) (ho : Canon o) (h : merge s o = .ok s') (i j : Nat) :
    lookup s'.bonds i j = (lookup o.bonds i j).or (lookup s.bonds i j) := by
  unfold merge at h
  simp only at h
  split at h
  · rename_i he
    injection h with h; subst h
    have he' : o.bonds ++ s.bonds = [] := by simpa using he
    obtain ⟨h1, h2⟩ := List.append_eq_nil_iff.mp he'
    simp [BL.empty, h1, h2]
  · split at h
    · cases h
    · obtain ⟨rfl, _⟩ := ctorCore_ok h
      have hm : (o.bonds ++ s.bonds).map (sortRow true) = o.bonds ++ s.bonds := by
        rw [List.map_congr_left (g := id)]
        · simp
        · intro c hc
          rcases List.mem_append.mp hc with hc | hc
          · exact sortRow_of_sorted (ho.sorted c hc)
          · exact sortRow_of_sorted (hs.sorted c hc)
      simp only [hm, lookup_dedupAux, List.not_mem_nil, if_false, lookup_append]

theorem deg_map_type (f : Nat → Nat) (l : List Bond) (k : Nat) :
    deg (l.map fun c => (c.1, c.2.1, f c.2.2)) k = deg l k := by
  induction l with
  | nil => rfl
  | cons c cs ih => simp [ih]

theorem map_type_wf {s : BL} (f : Nat → Nat) (hf : ∀ t, t < 10 → f t < 10) (hw : WF s) :
    WF { s with bonds := s.bonds.map fun c => (c.1, c.2.1, f c.2.2) } := by
  refine ⟨⟨?_, ?_, ?_, ?_⟩, ?_⟩
  · intro c hc; obtain ⟨d, hd, rfl⟩ := List.mem_map.mp hc; exact hw.1.sorted d hd
  · intro c hc; obtain ⟨d, hd, rfl⟩ := List.mem_map.mp hc; exact hw.1.bound d hd
  · intro c hc; obtain ⟨d, hd, rfl⟩ := List.mem_map.mp hc; exact hf _ (hw.1.types d hd)
  · have : pairs (s.bonds.map fun c => (c.1, c.2.1, f c.2.2)) = pairs s.bonds := by
      simp [pairs, List.map_map, Function.comp_def]
    simp only [this]; exact hw.1.nodup
  · intro k; simp only [deg_map_type]; exact hw.2 k

theorem applyPairs_lt : ∀ t, t < 10 → applyPairs aromPairs t < 10 := by decide

/-! ## offset_indices / concatenate -/

theorem deg_shift (k : Nat) (l : List Bond) (x : Nat) : deg (shift k l) x = if k ≤ x then deg l (x - k) else 0 := by
  induction l with
  | nil => simp [shift]
  | cons c cs ih =>
    simp only [shift, List.map_cons, deg_cons] at ih ⊢
    rw [ih]
    by_cases hk : k ≤ x
    · have e1 : (c.1 + k = x) ↔ (c.1 = x - k) := by omega
      have e2 : (c.2.1 + k = x) ↔ (c.2.1 = x - k) := by omega
      simp only [hk, if_true, e1, e2]
    · have e1 : ¬ (c.1 + k = x) := by omega
      have e2 : ¬ (c.2.1 + k = x) := by omega
      simp only [hk, if_false, e1, e2]

theorem pairs_shift_nodup (k : Nat) {l : List Bond} (h : (pairs l).Nodup) : (pairs (shift k l)).Nodup := by
  have : pairs (shift k l) = (pairs l).map fun p => (p.1 + k, p.2 + k) := by
    simp [pairs, shift, List.map_map, Function.comp_def]
  rw [this]
  refine List.Pairwise.map _ ?_ h
  intro a b hab heq
  injection heq with h1 h2
  apply hab
  have : a.1 = b.1 := by omega
  have : a.2 = b.2 := by omega
  cases a; cases b; simp_all

theorem mem_shift {k : Nat} {l : List Bond} {c : Bond} (h : c ∈ shift k l) :
    ∃ d ∈ l, c = (d.1 + k, d.2.1 + k, d.2.2) := by
  obtain ⟨d, hd, rfl⟩ := List.mem_map.mp h
  exact ⟨d, hd, rfl⟩

theorem offset_wf {s s' : BL} {k : Int} (hw : WF s) (h : offsetIndices s k = .ok s') :
    WF s' ∧ s'.n = s.n + k.toNat ∧ 0 ≤ k := by
  unfold offsetIndices at h
  split at h
  · cases h
  · split at h
    · cases h
    · rename_i hk
      injection h with h; subst h
      refine ⟨⟨⟨?_, ?_, ?_, pairs_shift_nodup _ hw.1.nodup⟩, ?_⟩, rfl, by omega⟩
      · intro c hc; obtain ⟨d, hd, rfl⟩ := mem_shift hc; have := hw.1.sorted d hd; simp only; omega
      · intro c hc; obtain ⟨d, hd, rfl⟩ := mem_shift hc; have := hw.1.bound d hd; simp only; omega
      · intro c hc; obtain ⟨d, hd, rfl⟩ := mem_shift hc; exact hw.1.types d hd
      · intro x; simp only [deg_shift]; split
        · exact hw.2 _
        · omega

theorem concatFrom_spec (ls : List BL) (cum : Nat) (h : ∀ l ∈ ls, WF l) :
    (∀ c ∈ (concatFrom cum ls).1, cum ≤ c.1 ∧ c.1 ≤ c.2.1 ∧ c.2.1 < (concatFrom cum ls).2.1 ∧ c.2.2 < 10) ∧
    (pairs (concatFrom cum ls).1).Nodup ∧ (∀ k, deg (concatFrom cum ls).1 k ≤ (concatFrom cum ls).2.2) ∧
    cum ≤ (concatFrom cum ls).2.1 := by
  induction ls generalizing cum with
  | nil => simp [concatFrom, pairs]
  | cons l ls ih =>
    obtain ⟨hm, hnd, hdeg, hcum⟩ := ih (cum + l.n) (fun x hx => h x (by simp [hx]))
    have hl := h l (by simp)
    simp only [concatFrom]
    have hfirst : ∀ c ∈ shift cum l.bonds, cum ≤ c.1 ∧ c.1 ≤ c.2.1 ∧ c.2.1 < cum + l.n ∧ c.2.2 < 10 := by
      intro c hc
      obtain ⟨d, hd, rfl⟩ := mem_shift hc
      have h1 := hl.1.sorted d hd
      have h2 := hl.1.bound d hd
      have h3 := hl.1.types d hd
      simp only; omega
    refine ⟨?_, ?_, ?_, by omega⟩
    · intro c hc
      rcases List.mem_append.mp hc with hc | hc
      · have := hfirst c hc; omega
      · have := hm c hc; omega
    · simp only [pairs, List.map_append]
      rw [List.nodup_append]
      refine ⟨pairs_shift_nodup _ hl.1.nodup, hnd, ?_⟩
      intro x hx y hy hxy
      subst hxy
      obtain ⟨c, hc, rfl⟩ := List.mem_map.mp hx
      obtain ⟨d, hd, hcd⟩ := List.mem_map.mp hy
      have h1 := hfirst c hc
      have h2 := hm d hd
      injection hcd with e1 e2
      omega
    · intro k
      rw [deg_append]
      by_cases hk : k < cum + l.n
      · have : deg (concatFrom (cum + l.n) ls).1 k = 0 := by
          apply deg_eq_zero
          intro c hc; have := hm c hc; omega
        rw [this, deg_shift]
        split
        · have := hl.2 (k - cum); omega
        · omega
      · have : deg (shift cum l.bonds) k = 0 := by
          apply deg_eq_zero
          intro c hc; have := hfirst c hc; omega
        rw [this]
        have := hdeg k; omega

theorem concatenate_wf {ls : List BL} {s' : BL} (h : ∀ l ∈ ls, WF l) (hc : concatenate ls = .ok s') : WF s' := by
  unfold concatenate at hc
  split at hc
  · cases hc
  · injection hc with hc; subst hc
    obtain ⟨hm, hnd, hdeg, _⟩ := concatFrom_spec ls 0 h
    exact ⟨⟨fun c hc => (hm c hc).2.1, fun c hc => (hm c hc).2.2.1, fun c hc => (hm c hc).2.2.2, hnd⟩, hdeg⟩

/-! ## `__getitem__`, index-array branch -/

theorem posOf_lt {a : Nat} {sel : List Nat} {p : Nat} (h : posOf a sel = some p) : p < sel.length := by
  induction sel generalizing p with
  | nil => simp [posOf] at h
  | cons x xs ih =>
    simp only [posOf] at h
    split at h
    · injection h with h; subst h; simp
    · cases hq : posOf a xs with
      | none => simp [hq] at h
      | some q => simp [hq] at h; subst h; have := ih hq; simp; omega

theorem posOf_inj {a a' : Nat} {sel : List Nat} {p : Nat} (h : posOf a sel = some p) (h' : posOf a' sel = some p) :
    a = a' := by
  induction sel generalizing p with
  | nil => simp [posOf] at h
  | cons x xs ih =>
    simp only [posOf] at h h'
    split at h <;> split at h'
    · rename_i h1 h2; rw [← h1, ← h2]
    · rename_i h1 h2
      injection h with h; subst h
      cases hq : posOf a' xs with
      | none => simp [hq] at h'
      | some q => simp [hq] at h'
    · rename_i h1 h2
      injection h' with h'; subst h'
      cases hq : posOf a xs with
      | none => simp [hq] at h
      | some q => simp [hq] at h
    · cases hq : posOf a xs with
      | none => simp [hq] at h
      | some q =>
        cases hq' : posOf a' xs with
        | none => simp [hq'] at h'
        | some q' =>
          simp [hq] at h; simp [hq'] at h'
          have : q = q' := by omega
          subst this
          exact ih hq hq'

theorem relabel_some {sel : List Nat} {c c' : Bond} (h : relabel sel c = some c') :
    ∃ p q, posOf c.1 sel = some p ∧ posOf c.2.1 sel = some q ∧ c' = ((sortPair p q).1, (sortPair p q).2, c.2.2) := by
  unfold relabel at h
  split at h
  · rename_i p q hp hq; injection h with h; exact ⟨p, q, hp, hq, h.symm⟩
  · cases h

theorem sortPair_eq {p q p' q' : Nat} (h1 : (sortPair p q).1 = (sortPair p' q').1)
    (h2 : (sortPair p q).2 = (sortPair p' q').2) : (p = p' ∧ q = q') ∨ (p = q' ∧ q = p') := by
  unfold sortPair at h1 h2
  split at h1 <;> split at h1 <;> simp_all <;> omega

theorem getSel_wf {s s' : BL} {sel : List Nat} (hw : WF s) (h : getSel s sel = .ok s') :
    WF s' ∧ s'.n = sel.length := by
  unfold getSel at h
  split at h
  · cases h
  · split at h
    · cases h
    · split at h
      · cases h
      · injection h with h; subst h
        have hmem : ∀ c' ∈ s.bonds.filterMap (relabel sel), c'.1 ≤ c'.2.1 ∧ c'.2.1 < sel.length ∧ c'.2.2 < 10 := by
          intro c' hc'
          obtain ⟨c, hc, hr⟩ := List.mem_filterMap.mp hc'
          obtain ⟨p, q, hp, hq, rfl⟩ := relabel_some hr
          exact ⟨sortPair_le p q, (sortPair_lt (posOf_lt hp) (posOf_lt hq)).2, hw.1.types c hc⟩
        refine ⟨⟨⟨fun c hc => (hmem c hc).1, fun c hc => (hmem c hc).2.1, fun c hc => (hmem c hc).2.2, ?_⟩, ?_⟩, rfl⟩
        · have hnd := hw.1.nodup
          simp only [pairs, List.Nodup, List.pairwise_map] at hnd ⊢
          have hsorted : List.Pairwise (fun a b : Bond => (a.1 ≤ a.2.1 ∧ b.1 ≤ b.2.1) ∧ (a.1, a.2.1) ≠ (b.1, b.2.1)) s.bonds := by
            refine List.Pairwise.and ?_ hnd |>.imp (fun h => h)
            exact List.pairwise_of_forall_mem_list (fun a ha b hb => ⟨hw.1.sorted a ha, hw.1.sorted b hb⟩)
          refine List.Pairwise.filterMap _ ?_ hsorted
          intro a a' haa' b hb b' hb' heq
          obtain ⟨p, q, hp, hq, rfl⟩ := relabel_some hb
          obtain ⟨p', q', hp', hq', rfl⟩ := relabel_some hb'
          injection heq with e1 e2
          apply haa'.2
          rcases sortPair_eq e1 e2 with ⟨rfl, rfl⟩ | ⟨rfl, rfl⟩
          · rw [posOf_inj hp hp', posOf_inj hq hq']
          · have h1 := posOf_inj hp hq'
            have h2 := posOf_inj hq hp'
            have := haa'.1
            have e : a.1 = a'.1 := by omega
            have e' : a.2.1 = a'.2.1 := by omega
            rw [e, e']
        · intro k
          apply maxOk_maxBonds
          intro c hc; have := hmem c hc; omega

/-! ## `__getitem__`, boolean-mask branch -/

/-- number of selected atoms before position `k` = the new index of atom `k` -/
def rank (m : List Bool) (k : Nat) : Nat := ((m.take k).filter id).length

theorem filter_id_add_not (l : List Bool) :
    (l.filter id).length + (l.filter (fun b => !b)).length = l.length := by
  induction l with
  | nil => rfl
  | cons b bs ih => cases b <;> simp <;> omega

theorem rank_mono (m : List Bool) {k k' : Nat} (h : k ≤ k') : rank m k ≤ rank m k' := by
  induction m generalizing k k' with
  | nil => simp [rank]
  | cons b bs ih =>
    cases k with
    | zero => simp [rank]
    | succ k =>
      cases k' with
      | zero => omega
      | succ k' =>
        have := ih (k := k) (k' := k') (by omega)
        simp only [rank, List.take_succ_cons, List.filter_cons] at this ⊢
        cases b <;> simp <;> omega

theorem rank_le_count (m : List Bool) (k : Nat) : rank m k ≤ (m.filter id).length :=
  ((List.take_sublist k m).filter id).length_le

/-- for a selected atom `k`: it exists, `k - cumsum(~mask)[k]` is its rank, and the rank grows right after it -/
theorem rank_selected (m : List Bool) (k : Nat) (h : m.getD k false = true) :
    k < m.length ∧ k - offsetsAt m k = rank m k ∧ rank m (k + 1) = rank m k + 1 := by
  induction m generalizing k with
  | nil => simp at h
  | cons b bs ih =>
    cases k with
    | zero =>
      simp at h; subst h
      simp [offsetsAt, rank]
    | succ k =>
      have hk : bs.getD k false = true := by simpa using h
      obtain ⟨h1, h2, h3⟩ := ih k hk
      have hoff : offsetsAt (b :: bs) (k + 1) = offsetsAt bs k + (if b then 0 else 1) := by
        simp only [offsetsAt, List.take_succ_cons, List.filter_cons]
        cases b <;> simp
      have hr : ∀ j, rank (b :: bs) (j + 1) = rank bs j + (if b then 1 else 0) := by
        intro j
        simp only [rank, List.take_succ_cons, List.filter_cons]
        cases b <;> simp
      have hle : offsetsAt bs k ≤ k := by
        have : offsetsAt bs k ≤ (bs.take (k + 1)).length := List.length_filter_le _ _
        have hb : rank bs (k + 1) + offsetsAt bs k = (bs.take (k + 1)).length := by
          simp only [rank, offsetsAt]
          exact filter_id_add_not _
        rw [List.length_take] at hb
        omega
      refine ⟨by simp; omega, ?_, ?_⟩
      · rw [hoff, hr]; cases b <;> simp <;> omega
      · rw [hr, hr, h3]; omega

theorem rank_inj (m : List Bool) {i j : Nat} (hi : m.getD i false = true) (hj : m.getD j false = true)
    (h : rank m i = rank m j) : i = j := by
  rcases Nat.lt_trichotomy i j with hlt | heq | hgt
  · have := rank_mono m (show i + 1 ≤ j by omega)
    have := (rank_selected m i hi).2.2
    omega
  · exact heq
  · have := rank_mono m (show j + 1 ≤ i by omega)
    have := (rank_selected m j hj).2.2
    omega

theorem maskRow_some {m : List Bool} {c c' : Bond} (h : maskRow m c = some c') :
    m.getD c.1 false = true ∧ m.getD c.2.1 false = true ∧ c' = (rank m c.1, rank m c.2.1, c.2.2) := by
  unfold maskRow at h
  split at h
  · rename_i hb
    simp only [Bool.and_eq_true] at hb
    injection h with h
    refine ⟨hb.1, hb.2, ?_⟩
    rw [← h, (rank_selected m c.1 hb.1).2.1, (rank_selected m c.2.1 hb.2).2.1]
  · cases h

theorem getMask_wf {s s' : BL} {m : List Bool} (hw : WF s) (h : getMask s m = .ok s') :
    WF s' ∧ s'.n = (m.filter id).length := by
  unfold getMask at h
  split at h
  · cases h
  · injection h with h; subst h
    have hmem : ∀ c' ∈ s.bonds.filterMap (maskRow m),
        c'.1 ≤ c'.2.1 ∧ c'.2.1 < (m.filter id).length ∧ c'.2.2 < 10 := by
      intro c' hc'
      obtain ⟨c, hc, hr⟩ := List.mem_filterMap.mp hc'
      obtain ⟨h1, h2, rfl⟩ := maskRow_some hr
      refine ⟨rank_mono m (hw.1.sorted c hc), ?_, hw.1.types c hc⟩
      have := (rank_selected m c.2.1 h2).2.2
      have := rank_le_count m (c.2.1 + 1)
      simp only; omega
    refine ⟨⟨⟨fun c hc => (hmem c hc).1, fun c hc => (hmem c hc).2.1, fun c hc => (hmem c hc).2.2, ?_⟩, ?_⟩, rfl⟩
    · have hnd := hw.1.nodup
      simp only [pairs, List.Nodup, List.pairwise_map] at hnd ⊢
      refine List.Pairwise.filterMap _ ?_ hnd
      intro a a' haa' b hb b' hb' heq
      obtain ⟨h1, h2, rfl⟩ := maskRow_some hb
      obtain ⟨h1', h2', rfl⟩ := maskRow_some hb'
      injection heq with e1 e2
      apply haa'
      rw [rank_inj m h1 h1' e1, rank_inj m h2 h2' e2]
    · intro k
      apply maxOk_maxBonds
      intro c hc; have := hmem c hc; omega

/-! ## index resolution of the scalar-index methods -/

theorem toInt32_inv {i : Int} {iv : BitVec 32} (h : toInt32 i = .ok iv) :
    iv = BitVec.ofInt 32 i ∧ -2147483648 ≤ i ∧ i ≤ 2147483647 := by
  unfold toInt32 at h
  split at h
  · rename_i hb; injection h with h; exact ⟨h.symm, hb.1, hb.2⟩
  · cases h

/-- an index that is not below `-n` resolves, if at all, to `i mod n`, which is below `n` -/
theorem posIndex32_ok_lt {n : Nat} {i : Int} {iv : BitVec 32} {a : Nat} (hn : n < 2147483648)
    (hi : toInt32 i = .ok iv) (hlo : -(n : Int) ≤ i) (h : posIndex32 n iv = .ok a) :
    a < n ∧ a = (i % n).toNat ∧ i < n := by
  obtain ⟨rfl, h1, h2⟩ := toInt32_inv hi
  rw [posIndex32_spec n i hn h1 h2] at h
  split at h
  · split at h
    · rename_i h0 hlt
      injection h with h; subst h
      have : i % (n : Int) = i := Int.emod_eq_of_lt h0 hlt
      rw [this]; omega
    · cases h
  · rename_i hneg
    split at h
    · cases h
    · injection h with h; subst h
      have e1 : (i + n) % 4294967296 = i + n := Int.emod_eq_of_lt (by omega) (by omega)
      have e2 : i % (n : Int) = i + n := by
        rw [← Int.add_emod_right, Int.emod_eq_of_lt] <;> omega
      rw [e1, e2]; omega

theorem withIndices_inv {n : Nat} {i j : Int} {tc : Option Err} {k : Nat → Nat → Res BL} {s' : BL}
    (h : withIndices n i j tc k = .ok s') :
    ∃ iv jv a b, toInt32 i = .ok iv ∧ toInt32 j = .ok jv ∧ tc = none ∧
      posIndex32 n iv = .ok a ∧ posIndex32 n jv = .ok b ∧ k a b = .ok s' := by
  unfold withIndices at h
  split at h
  · cases h
  · cases h
  · rename_i iv jv hi hj
    split at h
    · cases h
    · split at h
      · cases h
      · cases h
      · cases h
      · rename_i a ha
        split at h
        · cases h
        · cases h
        · cases h
        · rename_i b hb
          exact ⟨iv, jv, a, b, hi, hj, rfl, ha, hb, h⟩

/-- for indices inside `[-n, n)` the resolution succeeds with `i mod n` -/
theorem withIndices_valid {n : Nat} {i j : Int} (k : Nat → Nat → Res BL) (hn : n < 2147483648)
    (hi : -(n : Int) ≤ i ∧ i < n) (hj : -(n : Int) ≤ j ∧ j < n) :
    withIndices n i j none k = k (i % n).toNat (j % n).toNat := by
  have key : ∀ x : Int, -(n : Int) ≤ x ∧ x < n →
      toInt32 x = .ok (BitVec.ofInt 32 x) ∧ posIndex32 n (BitVec.ofInt 32 x) = .ok (x % n).toNat := by
    intro x hx
    have hb1 : -2147483648 ≤ x := by omega
    have hb2 : x ≤ 2147483647 := by omega
    refine ⟨by simp [toInt32, hb1, hb2], ?_⟩
    rw [posIndex32_spec n x hn hb1 hb2]
    by_cases h0 : 0 ≤ x
    · have : x % (n : Int) = x := Int.emod_eq_of_lt h0 hx.2
      simp [h0, hx.2, this]
    · have e1 : (x + n) % 4294967296 = x + n := Int.emod_eq_of_lt (by omega) (by omega)
      have e2 : x % (n : Int) = x + n := by
        rw [← Int.add_emod_right, Int.emod_eq_of_lt] <;> omega
      have hne : ¬ (x = -(n : Int) - 1) := by omega
      simp [h0, hne, e1, e2]
  unfold withIndices
  rw [(key i hi).1, (key j hj).1]
  simp only [(key i hi).2, (key j hj).2]

/-! ## every operation keeps the invariants -/

def WFS (st : State) : Prop := WF st.cur ∧ WF st.aux

/-- `add_bond` is the only operation whose invariants depend on the index guard: the indices must not lie below `-n`
(`_to_positive_index` accepts them, see `C02_index_defect`). -/
def OpSafe (st : State) : Op → Prop
  | .add i j _ => st.cur.n < 2147483648 ∧ -(st.cur.n : Int) ≤ i ∧ -(st.cur.n : Int) ≤ j
  | _ => True

theorem apply_wf {st st' : State} {op : Op} (hw : WFS st) (hs : OpSafe st op) (h : apply st op = .ok st') :
    WFS st' := by
  obtain ⟨hc, ha⟩ := hw
  have lift : ∀ {r : Res BL}, r.toState st = .ok st' → ∃ b, r = .ok b ∧ st' = { st with cur := b } := by
    intro r hr
    cases r with
    | ok b => injection hr with hr; exact ⟨b, rfl, hr.symm⟩
    | err e => cases hr
    | crash => cases hr
    | ub => cases hr
  cases op with
  | new toAux n typed input =>
    simp only [apply] at h
    split at h
    · rename_i b hb
      injection h with h; subst h
      have := (newBL_wf hb).1
      split
      · exact ⟨hc, this⟩
      · exact ⟨this, ha⟩
    all_goals cases h
  | swap => simp only [apply] at h; injection h with h; subst h; exact ⟨ha, hc⟩
  | dup => simp only [apply] at h; injection h with h; subst h; exact ⟨hc, hc⟩
  | add i j t =>
    obtain ⟨b, hb, rfl⟩ := lift (by simpa only [apply] using h)
    obtain ⟨iv, jv, a, b', hi, hj, htc, hpa, hpb, hk⟩ := withIndices_inv hb
    have ht : t < 10 := by
      by_cases h10 : t ≥ 10
      · simp [h10] at htc
      · omega
    have hA := posIndex32_ok_lt hs.1 hi hs.2.1 hpa
    have hB := posIndex32_ok_lt hs.1 hj hs.2.2 hpb
    exact ⟨(addCore_wf hc hA.1 hB.1 ht hk).1, ha⟩
  | remove i j =>
    obtain ⟨b, hb, rfl⟩ := lift (by simpa only [apply] using h)
    obtain ⟨iv, jv, a, b', _, _, _, _, _, hk⟩ := withIndices_inv hb
    injection hk with hk; subst hk
    exact ⟨removeCore_wf _ _ hc, ha⟩
  | removeTo i =>
    obtain ⟨b, hb, rfl⟩ := lift (by simpa only [apply] using h)
    unfold removeBondsTo at hb
    split at hb
    · cases hb
    · cases hb
    · cases hb
    · injection hb with hb; subst hb; exact ⟨filter_wf _ hc, ha⟩
  | removeBonds => simp only [apply] at h; injection h with h; subst h; exact ⟨filter_wf _ hc, ha⟩
  | merge =>
    obtain ⟨b, hb, rfl⟩ := lift (by simpa only [apply] using h)
    exact ⟨(merge_wf hb).1, ha⟩
  | concat =>
    obtain ⟨b, hb, rfl⟩ := lift (by simpa only [apply] using h)
    exact ⟨concatenate_wf (by intro l hl; simp at hl; rcases hl with rfl | rfl <;> assumption) hb, ha⟩
  | concat3 =>
    obtain ⟨b, hb, rfl⟩ := lift (by simpa only [apply] using h)
    exact ⟨concatenate_wf (by intro l hl; simp at hl; rcases hl with rfl | rfl | rfl <;> assumption) hb, ha⟩
  | offset k =>
    obtain ⟨b, hb, rfl⟩ := lift (by simpa only [apply] using h)
    exact ⟨(offset_wf hc hb).1, ha⟩
  | rmArom =>
    simp only [apply] at h; injection h with h; subst h
    exact ⟨map_type_wf _ applyPairs_lt hc, ha⟩
  | rmOrder =>
    simp only [apply] at h; injection h with h; subst h
    exact ⟨map_type_wf (fun _ => 0) (fun _ _ => by omega) hc, ha⟩
  | getitem ix =>
    obtain ⟨b, hb, rfl⟩ := lift (by simpa only [apply] using h)
    refine ⟨?_, ha⟩
    cases ix with
    | mask m => exact (getMask_wf hc hb).1
    | smask m =>
      simp only [getitem] at hb
      split at hb
      · cases hb
      · exact (getMask_wf hc hb).1
    | blist m =>
      simp only [getitem] at hb
      split at hb
      · exact (getSel_wf hc hb).1
      · split at hb
        · cases hb
        · exact (getSel_wf hc hb).1
    | arr is =>
      simp only [getitem] at hb
      split at hb
      · cases hb
      · exact (getSel_wf hc hb).1
    | slice a b c =>
      simp only [getitem] at hb
      split at hb
      · cases hb
      · exact (getSel_wf hc hb).1

theorem step_wf {st : State} {op : Op} (hw : WFS st) (hs : OpSafe st op) : WFS (step st op) := by
  unfold step
  split
  · rename_i st' h; exact apply_wf hw hs h
  · exact hw

/-- every operation of the history satisfies `OpSafe` in the state it is applied to -/
def SafeRun : State → List Op → Prop
  | _, [] => True
  | st, op :: ops => OpSafe st op ∧ SafeRun (step st op) ops

theorem run_wf (ops : List Op) (st : State) (hw : WFS st) (hs : SafeRun st ops) : WFS (ops.foldl step st) := by
  induction ops generalizing st with
  | nil => exact hw
  | cons op ops ih => exact ih _ (step_wf hw hs.1) hs.2

end BiotiteModel.C02

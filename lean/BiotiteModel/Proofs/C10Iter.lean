import BiotiteModel.Proofs.C10Syncmer
/-! Helper lemmas: `get_kmers()` is strictly ascending; `count()` is complete (sums to the number of entries). -/
namespace BiotiteModel.C10

theorem dedupSorted_strict : ∀ l : List Nat, l.Pairwise (· ≤ ·) → (dedupSorted l).Pairwise (· < ·) := by
  intro l
  induction l with
  | nil => intro _; simp [dedupSorted]
  | cons a t ih =>
    intro h
    obtain ⟨h1, h2⟩ := List.pairwise_cons.1 h
    cases t with
    | nil => simp [dedupSorted]
    | cons b r =>
      simp only [dedupSorted]
      split
      · exact ih h2
      · rename_i hab
        have hne : a ≠ b := by simpa using hab
        refine List.pairwise_cons.2 ⟨?_, ih h2⟩
        intro z hz
        rw [mem_dedupSorted] at hz
        have hab' : a ≤ b := h1 b (by simp)
        have hbz : b ≤ z := by
          rcases List.mem_cons.1 hz with rfl | hz
          · exact Nat.le_refl _
          · exact (List.pairwise_cons.1 h2).1 z hz
        omega

theorem range_strict (n : Nat) : (List.range n).Pairwise (· < ·) := by
  induction n with
  | zero => simp
  | succ n ih =>
    rw [List.range_succ, List.pairwise_append]
    refine ⟨ih, by simp, ?_⟩
    intro a ha b hb
    simp at hb; subst hb
    exact List.mem_range.1 ha

/-- `get_kmers()` of any table is strictly ascending (hence duplicate-free) -/
theorem getKmers_strict (t : Table) : (getKmers t).Pairwise (· < ·) := by
  unfold getKmers
  split
  · exact dedupSorted_strict _ (sorted_sortNats _)
  · exact (range_strict t.nb).sublist List.filter_sublist

theorem sum_map_add (l : List Nat) (f g : Nat → Nat) :
    (l.map fun b => f b + g b).sum = (l.map f).sum + (l.map g).sum := by
  induction l with
  | nil => rfl
  | cons x xs ih => simp only [List.map_cons, List.sum_cons, ih]; omega

theorem sum_indicator (q : Nat) : ∀ nb : Nat,
    ((List.range nb).map fun b => if q = b then 1 else 0).sum = if q < nb then 1 else 0 := by
  intro nb
  induction nb with
  | zero => simp
  | succ nb ih =>
    rw [List.range_succ, List.map_append, List.sum_append, ih]
    by_cases h1 : q < nb
    · have : ¬ q = nb := by omega
      have h2 : q < nb + 1 := by omega
      simp [h1, h2, this]
    · by_cases h3 : q = nb
      · subst h3; simp
      · have h2 : ¬ q < nb + 1 := by omega
        simp [h1, h2, h3]

theorem sum_counts (nb : Nat) : ∀ items : List Entry, (∀ e ∈ items, e.kmer < nb) →
    ((List.range nb).map fun b => (items.filter (fun e => e.kmer == b)).length).sum = items.length := by
  intro items
  induction items with
  | nil =>
    intro _
    have : ∀ l : List Nat, (l.map fun _ => 0).sum = 0 := by
      intro l; induction l with
      | nil => rfl
      | cons x xs ih => simp [ih]
    simpa using this (List.range nb)
  | cons e es ih =>
    intro h
    have hfun : (fun b => ((e :: es).filter (fun x => x.kmer == b)).length)
        = fun b => (if e.kmer = b then 1 else 0) + (es.filter (fun x => x.kmer == b)).length := by
      funext b
      by_cases hb : e.kmer = b
      · simp [hb]; omega
      · simp [hb]
    rw [hfun, sum_map_add, sum_indicator, ih (fun x hx => h x (by simp [hx]))]
    have := h e (by simp)
    simp [this]; omega

end BiotiteModel.C10

import BiotiteModel.Proofs.C10
/-! Helper lemmas for the constructor theorems of C10 (`from_kmers`, `from_sequences`,
`from_positions`) and for `match_table`. -/
namespace BiotiteModel.C10

/-- what one reference contributes: exactly the unmasked `(kmer, ref, position)` triples -/
theorem mem_itemsOf (ref : Nat) (kmers : List Nat) (mask : List Bool) (e : Entry) :
    e ∈ itemsOf ref kmers mask ↔ e.ref = ref ∧ kmers[e.pos]? = some e.kmer ∧ mask[e.pos]? = some true := by
  unfold itemsOf
  simp only [List.mem_filterMap]
  constructor
  · rintro ⟨⟨⟨j, km⟩, m⟩, hmem, hsel⟩
    rw [mem_zipIdx_zip] at hmem
    cases m with
    | false => simp at hsel
    | true =>
      simp only [if_true, Option.some.injEq] at hsel
      subst hsel
      exact ⟨rfl, hmem.1, hmem.2⟩
  · rintro ⟨h1, h2, h3⟩
    refine ⟨((e.pos, e.kmer), true), (mem_zipIdx_zip _ _ _ _ _).2 ⟨h2, h3⟩, ?_⟩
    cases e; simp_all

theorem itemsOf_kmer_mem (ref : Nat) (kmers : List Nat) (mask : List Bool) (e : Entry)
    (h : e ∈ itemsOf ref kmers mask) : e.kmer ∈ kmers :=
  List.mem_of_getElem? ((mem_itemsOf ref kmers mask e).1 h).2.1

theorem fromKmers_eq (a : KAlph) (nBuckets : Option Nat)
    (refs : List (Nat × List Nat × Option (List Bool)))
    (hsize : 0 < a.size) (hnb : ∀ n, nBuckets = some n → 0 < n)
    (hq : ∀ r ∈ refs, ∀ q ∈ r.2.1, q < a.size)
    (hm : ∀ r ∈ refs, ∀ m, r.2.2 = some m → m.length = r.2.1.length) :
    fromKmers a nBuckets refs = .ok (canonTable a nBuckets.isSome (slotCount a nBuckets)
      (refs.flatMap fun (r, ks, m) => itemsOf r ks (m.getD (List.replicate ks.length true)))) := by
  unfold fromKmers
  have h1 : (refs.all fun r => checkBounds a r.2.1) = true := by
    simp only [List.all_eq_true, checkBounds]
    intro r hr x hx; exact decide_eq_true (hq r hr x hx)
  simp only [h1, Bool.not_true, Bool.false_eq_true, if_false]
  split
  · rename_i hany
    exfalso
    simp only [List.any_eq_true] at hany
    obtain ⟨r, hr, hx⟩ := hany
    cases hmm : r.2.2 with
    | none => simp [hmm] at hx
    | some m => simp [hmm] at hx; exact hx (hm r hr m hmm)
  rename_i hany
  apply mkTable_eq a nBuckets _ hsize hnb
  intro e he
  simp only [List.mem_flatMap] at he
  obtain ⟨⟨r, ks, m⟩, hr, he⟩ := he
  exact hq _ hr _ (itemsOf_kmer_mem _ _ _ _ he)

/-! ### match_table -/

theorem matchTable_canon (a : KAlph) (bucketed : Bool) (nb : Nat) (itemsT itemsO : List Entry)
    (hbk : bucketed = true → 0 < nb)
    (hd : bucketed = false → ∀ e, (e ∈ itemsT ∨ e ∈ itemsO) → e.kmer < nb) (r2 p2 r1 p1 : Nat) :
    ∃ l, matchTable (canonTable a bucketed nb itemsT) (canonTable a bucketed nb itemsO) = .ok l ∧
      ((r2, p2, r1, p1) ∈ l ↔ ∃ q, (⟨q, r2, p2⟩ : Entry) ∈ itemsO ∧ (⟨q, r1, p1⟩ : Entry) ∈ itemsT) := by
  unfold matchTable
  simp only [canonTable, ne_eq, not_true_eq_false, if_false, Bool.and_false, Bool.false_eq_true,
    decide_false]
  refine ⟨_, rfl, ?_⟩
  simp only [List.mem_flatMap, List.mem_map, List.mem_filter, List.mem_range]
  constructor
  · rintro ⟨b, hb, oe, hoe, se, ⟨hse, hcmp⟩, heq⟩
    rw [slotEntries_canon _ _ _ _ hb] at hoe hse
    simp only [filt, List.mem_filter, beq_iff_eq] at hoe hse
    simp only [Prod.mk.injEq] at heq
    obtain ⟨rfl, rfl, rfl, rfl⟩ := heq
    have hk : se.kmer = oe.kmer := by
      cases bucketed with
      | false =>
        have h1 := hoe.2; have h2 := hse.2
        simp only [hashOf, Bool.false_eq_true, if_false] at h1 h2
        omega
      | true => simpa using hcmp
    refine ⟨oe.kmer, ?_, ?_⟩
    · cases oe; exact hoe.1
    · cases se; simp only at hk; subst hk; exact hse.1
  · rintro ⟨q, ho, ht⟩
    have hlt : hashOf bucketed nb q < nb :=
      hashOf_lt bucketed nb q hbk (fun hb => hd hb _ (Or.inr ho))
    refine ⟨hashOf bucketed nb q, hlt, ⟨q, r2, p2⟩, ?_, ⟨q, r1, p1⟩, ⟨?_, ?_⟩, rfl⟩
    · rw [slotEntries_canon _ _ _ _ hlt]; simp [filt, ho]
    · rw [slotEntries_canon _ _ _ _ hlt]; simp [filt, ht]
    · simp


/-! ### from_positions -/

/-- the triples a `{kmer: [(ref, pos), …]}` dictionary describes -/
def dictItems (dict : List (Nat × List (Nat × Nat))) : List Entry :=
  dict.flatMap fun (km, ps) => ps.map fun (rf, p) => ⟨km, rf, p⟩

theorem canon_nil (h : Nat → Nat) (nb : Nat) : canon h nb [] = List.replicate nb none := by
  apply List.ext_getElem?
  intro i
  by_cases hi : i < nb <;> simp [canon, hi]

theorem filt_eq_nil_of (h : Nat → Nat) (b : Nat) (l : List Entry) (hl : ∀ e ∈ l, h e.kmer ≠ b) :
    filt h b l = [] := by
  simp only [filt, List.filter_eq_nil_iff, beq_iff_eq]
  exact hl

theorem filt_eq_self_of (h : Nat → Nat) (b : Nat) (l : List Entry) (hl : ∀ e ∈ l, h e.kmer = b) :
    filt h b l = l := by
  simp only [filt, List.filter_eq_self, beq_iff_eq]
  exact hl

theorem fromPositions_go (a : KAlph) : ∀ (dict : List (Nat × List (Nat × Nat))) (done : List Entry),
    (dict.map (·.1)).Nodup → (∀ x ∈ dict, x.1 < a.size) →
    (∀ e ∈ done, e.kmer ∉ dict.map (·.1)) →
    fromPositions.go a (canon (hashOf false a.size) a.size done) dict
      = .ok (canon (hashOf false a.size) a.size (done ++ dictItems dict)) := by
  intro dict
  induction dict with
  | nil => intro done _ _ _; simp [fromPositions.go, dictItems]
  | cons x r ih =>
    intro done hnd hlt hdone
    obtain ⟨km, ps⟩ := x
    have hkm : km < a.size := hlt (km, ps) (by simp)
    have hnd' : (r.map (·.1)).Nodup := (List.nodup_cons.1 (by simpa using hnd)).2
    have hkr : km ∉ r.map (·.1) := (List.nodup_cons.1 (by simpa using hnd)).1
    have hlt' : ∀ x ∈ r, x.1 < a.size := fun x hx => hlt x (by simp [hx])
    have hge : ¬ km ≥ a.size := by omega
    simp only [fromPositions.go, hge, if_false]
    cases ps with
    | nil =>
      simp only [List.isEmpty_nil, if_true]
      have := ih done hnd' hlt' (fun e he hm => hdone e he (by simp [hm]))
      simpa [dictItems] using this
    | cons q qs =>
      simp only [List.isEmpty_cons, Bool.false_eq_true, if_false]
      -- the entries written for this key
      have hents : ∀ e ∈ ((q :: qs).map fun (x : Nat × Nat) => (⟨km, x.1, x.2⟩ : Entry)), e.kmer = km := by
        intro e he
        simp only [List.mem_map] at he
        obtain ⟨_, _, rfl⟩ := he
        rfl
      have hset : (canon (hashOf false a.size) a.size done).set km
            (some ⟨(q :: qs).length, (q :: qs).map fun (x : Nat × Nat) => (⟨km, x.1, x.2⟩ : Entry)⟩)
          = canon (hashOf false a.size) a.size
              (done ++ (q :: qs).map fun (x : Nat × Nat) => (⟨km, x.1, x.2⟩ : Entry)) := by
        rw [canon_eq_spec, canon_eq_spec]
        unfold specSlots
        rw [set_map_range]
        apply List.map_congr_left
        intro b _
        simp only [filt_append]
        by_cases hb : b = km
        · subst hb
          have h1 : filt (hashOf false a.size) b done = [] := by
            apply filt_eq_nil_of
            intro e he hh
            simp only [hashOf, Bool.false_eq_true, if_false] at hh
            exact hdone e he (by simp [hh])
          have h2 := filt_eq_self_of (hashOf false a.size) b _ (fun e he => by
            simp only [hashOf, Bool.false_eq_true, if_false]; exact hents e he)
          rw [h1, h2]
          simp
        · have h2 : filt (hashOf false a.size) b
              ((q :: qs).map fun (x : Nat × Nat) => (⟨km, x.1, x.2⟩ : Entry)) = [] := by
            apply filt_eq_nil_of
            intro e he hh
            simp only [hashOf, Bool.false_eq_true, if_false] at hh
            have := hents e he
            omega
          rw [h2]
          simp [hb]
      have hgoal := ih (done ++ (q :: qs).map fun (x : Nat × Nat) => (⟨km, x.1, x.2⟩ : Entry)) hnd' hlt'
        (fun e he hm => by
          rcases List.mem_append.1 he with h | h
          · exact hdone e h (by simp [hm])
          · rw [hents e h] at hm; exact hkr hm)
      have hshape : (List.map (fun x : Nat × Nat => match x with | (rf, p) => (⟨km, rf, p⟩ : Entry)) (q :: qs))
          = (q :: qs).map fun (x : Nat × Nat) => (⟨km, x.1, x.2⟩ : Entry) := rfl
      rw [hshape, hset, hgoal]
      simp [dictItems, List.append_assoc]

theorem fromPositions_eq (a : KAlph) (dict : List (Nat × List (Nat × Nat)))
    (hnd : (dict.map (·.1)).Nodup) (hlt : ∀ x ∈ dict, x.1 < a.size) :
    fromPositions a dict = .ok (canonTable a false a.size (dictItems dict)) := by
  unfold fromPositions
  have := fromPositions_go a dict [] hnd hlt (by simp)
  rw [canon_nil] at this
  simp only [this, List.nil_append, canonTable]

end BiotiteModel.C10

import BiotiteModel.Proofs.C11Cigar
import BiotiteModel.Model.C11Msa
/-! Helper lemmas for the progressive-alignment part of C11 (core Lean only). -/
namespace BiotiteModel.C11
open BiotiteModel

/-! ### `All₂` toolkit -/

theorem All₂.length_eq {α β : Type} {R : α → β → Prop} {l1 : List α} {l2 : List β} (h : All₂ R l1 l2) :
    l1.length = l2.length := by
  induction h with
  | nil => rfl
  | cons _ _ ih => simp [ih]

theorem All₂.append {α β : Type} {R : α → β → Prop} {l1 l3 : List α} {l2 l4 : List β}
    (h : All₂ R l1 l2) (h' : All₂ R l3 l4) : All₂ R (l1 ++ l3) (l2 ++ l4) := by
  induction h with
  | nil => exact h'
  | cons hab _ ih => exact .cons hab ih

theorem All₂.comp {α β γ : Type} {R : α → β → Prop} {S : β → γ → Prop} {T : α → γ → Prop}
    (hT : ∀ a b c, R a b → S b c → T a c) :
    ∀ {l1 : List α} {l2 : List β} {l3 : List γ}, All₂ R l1 l2 → All₂ S l2 l3 → All₂ T l1 l3 := by
  intro l1 l2 l3 h
  induction h generalizing l3 with
  | nil => intro h'; cases h'; exact .nil
  | cons hab _ ih => intro h'; cases h' with | cons hbc h'' => exact .cons (hT _ _ _ hab hbc) (ih h'')

theorem All₂.with_mem {α β : Type} {R : α → β → Prop} {l1 : List α} {l2 : List β} (h : All₂ R l1 l2) (L : List α) :
    (∀ a ∈ l1, a ∈ L) → All₂ (fun a b => a ∈ L ∧ R a b) l1 l2 := by
  induction h with
  | nil => intro _; exact .nil
  | cons hab _ ih =>
    intro hm
    exact .cons ⟨hm _ (List.mem_cons_self ..), hab⟩ (ih fun a ha => hm a (List.mem_cons_of_mem _ ha))

theorem All₂.mem_left {α β : Type} {R : α → β → Prop} {l1 : List α} {l2 : List β} (h : All₂ R l1 l2) :
    ∀ a ∈ l1, ∃ b ∈ l2, R a b := by
  induction h with
  | nil => intro a ha; cases ha
  | cons hab _ ih =>
    intro a ha
    rcases List.mem_cons.mp ha with rfl | ha
    · exact ⟨_, List.mem_cons_self .., hab⟩
    · obtain ⟨b, hb, hr⟩ := ih a ha; exact ⟨b, List.mem_cons_of_mem _ hb, hr⟩

theorem All₂.mem_right {α β : Type} {R : α → β → Prop} {l1 : List α} {l2 : List β} (h : All₂ R l1 l2) :
    ∀ b ∈ l2, ∃ a ∈ l1, R a b := by
  induction h with
  | nil => intro a ha; cases ha
  | cons hab _ ih =>
    intro b hb
    rcases List.mem_cons.mp hb with rfl | hb
    · exact ⟨_, List.mem_cons_self .., hab⟩
    · obtain ⟨a, ha, hr⟩ := ih b hb; exact ⟨a, List.mem_cons_of_mem _ ha, hr⟩

theorem All₂.get {α β : Type} {R : α → β → Prop} {l1 : List α} {l2 : List β} (h : All₂ R l1 l2) :
    ∀ (i : Nat) a, l1[i]? = some a → ∃ b, l2[i]? = some b ∧ R a b := by
  induction h with
  | nil => intro i a ha; simp at ha
  | cons hab _ ih =>
    intro i a ha
    cases i with
    | zero => simp at ha; subst ha; exact ⟨_, by simp, hab⟩
    | succ i => simp at ha; simpa using ih i a ha

theorem All₂.map_left {α β γ : Type} {R : α → β → Prop} (f : γ → α) {l1 : List γ} {l2 : List β}
    (h : All₂ R (l1.map f) l2) : All₂ (fun c b => R (f c) b) l1 l2 := by
  induction l1 generalizing l2 with
  | nil => cases h; exact .nil
  | cons c l1 ih => cases h with | cons hab h' => exact .cons hab (ih h')

theorem mapE_ok_of_forall {α β : Type} (f : α → Except Err β) :
    ∀ (l : List α), (∀ a ∈ l, ∃ b, f a = .ok b) → ∃ r, mapE f l = .ok r := by
  intro l
  induction l with
  | nil => intro _; exact ⟨[], rfl⟩
  | cons a l ih =>
    intro h
    obtain ⟨b, hb⟩ := h a (List.mem_cons_self ..)
    obtain ⟨r, hr⟩ := ih fun x hx => h x (List.mem_cons_of_mem _ hx)
    exact ⟨b :: r, by simp [mapE, hb, hr]⟩

/-! ### `_replace_gaps` -/

theorem range'_filterMap_get {α : Type} (row : List α) :
    ∀ pre : List α, (List.range' pre.length row.length).filterMap (fun i => (pre ++ row)[i]?) = row := by
  induction row with
  | nil => intro pre; simp
  | cons c row ih =>
    intro pre
    have h := ih (pre ++ [c])
    simp only [List.length_append, List.length_cons, List.length_nil, Nat.zero_add, List.append_assoc,
      List.cons_append, List.nil_append] at h
    rw [List.length_cons, List.range'_succ, List.filterMap_cons]
    simp [h]

theorem range_filterMap_get {α : Type} (row : List α) :
    (List.range row.length).filterMap (fun i => row[i]?) = row := by
  have := range'_filterMap_get row []
  simpa [List.range_eq_range'] using this

/-- what `replaceGaps` returns, in closed form -/
theorem replaceGaps_spec (g : Nat) (row : Row) :
    ∀ (tr : List (Option Nat)) (r : Row), replaceGaps g tr row = .ok r →
      r.length = tr.length ∧ strip g r = strip g ((tr.filterMap id).filterMap (fun i => row[i]?)) := by
  intro tr
  induction tr with
  | nil => intro r h; simp [replaceGaps, mapE] at h; subst h; simp [strip]
  | cons x tr ih =>
    intro r h
    unfold replaceGaps at h
    unfold mapE at h
    split at h
    · cases h
    · next b hb =>
      split at h
      · cases h
      · next bs hbs =>
        simp at h; subst h
        obtain ⟨hl, hs⟩ := ih bs hbs
        refine ⟨by simp [hl], ?_⟩
        cases x with
        | none =>
          simp at hb; subst hb
          simpa [strip] using hs
        | some i =>
          simp only at hb
          split at hb
          · next c hc =>
            simp at hb; subst hb
            simp only [strip] at hs ⊢
            have hs' : List.filter (fun x => !decide (x = g)) bs =
                List.filter (fun x => !decide (x = g)) (List.filterMap (fun i => row[i]?) (List.filterMap id tr)) := by
              simpa using hs
            simp [hc, List.filter_cons, hs']
          · cases hb

theorem replaceGaps_total (g : Nat) (row : Row) (tr : List (Option Nat))
    (h : ∀ i ∈ tr.filterMap id, i < row.length) : ∃ r, replaceGaps g tr row = .ok r := by
  unfold replaceGaps
  apply mapE_ok_of_forall
  intro x hx
  cases x with
  | none => exact ⟨g, rfl⟩
  | some i =>
    have hi : i < row.length := h i (by simp [List.mem_filterMap]; exact hx)
    exact ⟨row[i], by simp [List.getElem?_eq_getElem hi]⟩

/-- `C11_msa_rows`: rewriting a row along one side of a valid global trace keeps its gap-stripped content -/
theorem replaceGaps_strip (g : Nat) (row : Row) (tr : List (Option Nat))
    (h : tr.filterMap id = List.range row.length) :
    ∃ r, replaceGaps g tr row = .ok r ∧ r.length = tr.length ∧ strip g r = strip g row := by
  obtain ⟨r, hr⟩ := replaceGaps_total g row tr (by rw [h]; intro i hi; simpa using hi)
  obtain ⟨hl, hs⟩ := replaceGaps_spec g row tr r hr
  refine ⟨r, hr, hl, ?_⟩
  rw [hs, h, range_filterMap_get]

theorem replaceGaps_get (g : Nat) (row : Row) :
    ∀ (tr : List (Option Nat)) (r : Row), replaceGaps g tr row = .ok r →
      ∀ (i j : Nat), tr[i]? = some (some j) → r[i]? = row[j]? ∧ j < row.length := by
  intro tr r h i j hij
  have h2 := mapE_ok_forall₂ _ _ _ h
  obtain ⟨b, hb, hR⟩ := h2.get i _ hij
  simp only at hR
  split at hR
  · next c hc =>
    simp at hR; subst hR
    have : j < row.length := by
      by_cases hj : j < row.length
      · exact hj
      · simp [List.getElem?_eq_none (Nat.le_of_not_lt hj)] at hc
    exact ⟨by rw [hb, hc], this⟩
  · cases hR

/-! ### the merge step and the induction over the guide tree -/

def NoAllGap (g w : Nat) (rows : List Row) : Prop :=
  ∀ i, i < w → ∃ r ∈ rows, ∃ c, r[i]? = some c ∧ c ≠ g

/-- invariant of a sub-MSA `(order, rows)` of width `w` -/
structure Inv (g : Nat) (seqs : List Row) (w : Nat) (order : List Nat) (rows : List Row) : Prop where
  spell : All₂ (fun i r => seqs[i]? = some (strip g r)) order rows
  uniform : ∀ r ∈ rows, r.length = w
  nonempty : rows ≠ []
  noAllGap : NoAllGap g w rows

theorem Inv.width_eq {g : Nat} {seqs : List Row} {w : Nat} {order : List Nat} {rows : List Row}
    (h : Inv g seqs w order rows) : width rows = w := by
  cases rows with
  | nil => exact absurd rfl h.nonempty
  | cons r rs => simpa [width] using h.uniform r (List.mem_cons_self ..)

theorem side_inv {g : Nat} {seqs : List Row} {w : Nat} {order : List Nat} {rows : List Row}
    (h : Inv g seqs w order rows) (tr1 : List (Option Nat)) (htr : tr1.filterMap id = List.range w) :
    ∃ a, mapE (replaceGaps g tr1) rows = .ok a ∧
      All₂ (fun i r => seqs[i]? = some (strip g r)) order a ∧ (∀ r' ∈ a, r'.length = tr1.length) ∧ a ≠ [] ∧
      (∀ (i j : Nat), tr1[i]? = some (some j) → ∃ r' ∈ a, ∃ c, r'[i]? = some c ∧ c ≠ g) := by
  have hrow : ∀ r ∈ rows, ∃ r', replaceGaps g tr1 r = .ok r' ∧ r'.length = tr1.length ∧ strip g r' = strip g r := by
    intro r hr
    exact replaceGaps_strip g r tr1 (by rw [htr, h.uniform r hr])
  obtain ⟨a, ha⟩ := mapE_ok_of_forall (replaceGaps g tr1) rows (fun r hr => let ⟨r', h', _⟩ := hrow r hr; ⟨r', h'⟩)
  have hS := mapE_ok_forall₂ _ _ _ ha
  have hprop : ∀ r r', r ∈ rows → replaceGaps g tr1 r = .ok r' → r'.length = tr1.length ∧ strip g r' = strip g r := by
    intro r r' hr hrr
    obtain ⟨r'', h1, h2, h3⟩ := hrow r hr
    rw [hrr] at h1; cases h1; exact ⟨h2, h3⟩
  refine ⟨a, ha, ?_, ?_, ?_, ?_⟩
  · -- spell
    refine All₂.comp ?_ h.spell (hS.with_mem rows (fun r hr => hr))
    intro i r r' hir hrr
    rw [(hprop r r' hrr.1 hrr.2).2]; exact hir
  · intro r' hr'
    obtain ⟨r, hr, hrr⟩ := hS.mem_right r' hr'
    exact (hprop r r' hr hrr).1
  · intro ha0
    have := hS.length_eq
    rw [ha0] at this
    exact h.nonempty (List.eq_nil_of_length_eq_zero (by simpa using this))
  · intro i j hij
    have hj : j < w := by
      have : j ∈ tr1.filterMap id := by
        rw [List.mem_filterMap]
        exact ⟨some j, List.mem_of_getElem? hij, rfl⟩
      rw [htr] at this
      simpa using this
    obtain ⟨r, hr, c, hc, hcg⟩ := h.noAllGap j hj
    obtain ⟨r', hr', hrr⟩ := hS.mem_left r hr
    exact ⟨r', hr', c, by rw [(replaceGaps_get g r tr1 r' hrr i j hij).1, hc], hcg⟩

theorem filterMap_fst (tr : PTrace) : (tr.map (·.1)).filterMap id = tr.filterMap (·.1) := by
  induction tr with
  | nil => rfl
  | cons c t ih => cases h : c.1 <;> simp [h, ih]

theorem filterMap_snd (tr : PTrace) : (tr.map (·.2)).filterMap id = tr.filterMap (·.2) := by
  induction tr with
  | nil => rfl
  | cons c t ih => cases h : c.2 <;> simp [h, ih]

/-- `C11_msa_no_allgap` + row preservation for one merge step -/
theorem merge_inv {g : Nat} {seqs : List Row} {w1 w2 : Nat} {o1 o2 : List Nat} {r1 r2 : List Row} {tr : PTrace}
    (h1 : Inv g seqs w1 o1 r1) (h2 : Inv g seqs w2 o2 r2) (hv : GlobalValid tr w1 w2) :
    ∃ rows, mergeGroups g tr r1 r2 = .ok rows ∧ Inv g seqs tr.length (o1 ++ o2) rows := by
  obtain ⟨hv1, hv2, hv3⟩ := hv
  obtain ⟨a, ha, sa, ua, na, ga⟩ := side_inv h1 (tr.map (·.1)) (by rw [filterMap_fst, hv1])
  obtain ⟨b, hb, sb, ub, _, gb⟩ := side_inv h2 (tr.map (·.2)) (by rw [filterMap_snd, hv2])
  refine ⟨a ++ b, by simp [mergeGroups, ha, hb], sa.append sb, ?_, ?_, ?_⟩
  · intro r hr
    rcases List.mem_append.mp hr with hr | hr
    · simpa using ua r hr
    · simpa using ub r hr
  · intro h; exact na (List.append_eq_nil_iff.mp h).1
  · intro i hi
    have hc : tr[i]? = some tr[i] := List.getElem?_eq_getElem hi
    have hne := hv3 tr[i] (List.getElem_mem hi)
    generalize hxy : tr[i] = cxy at hc hne
    obtain ⟨x, y⟩ := cxy
    cases x with
    | some j =>
      obtain ⟨r', hr', c, h1', h2'⟩ := ga i j (by simp [hc])
      exact ⟨r', List.mem_append_left _ hr', c, h1', h2'⟩
    | none =>
      cases y with
      | some j =>
        obtain ⟨r', hr', c, h1', h2'⟩ := gb i j (by simp [hc])
        exact ⟨r', List.mem_append_right _ hr', c, h1', h2'⟩
      | none => exact absurd rfl hne

theorem progressive_inv {al : List Nat → List Nat → PTrace} {g : Nat} {seqs : List Row}
    (hin : ∀ s ∈ seqs, ∀ c ∈ s, c ≠ g) :
    ∀ tree : GTree, AllValid al g seqs tree → (∀ i ∈ tree.leaves, i < seqs.length) →
      ∃ rows w, progressive al g seqs tree = .ok (tree.leaves, rows) ∧ Inv g seqs w tree.leaves rows := by
  intro tree
  induction tree with
  | leaf i =>
    intro _ hl
    have hi : i < seqs.length := hl i (by simp [GTree.leaves])
    have hs : seqs[i]? = some seqs[i] := List.getElem?_eq_getElem hi
    have hmem : seqs[i] ∈ seqs := List.getElem_mem hi
    have hstrip : strip g seqs[i] = seqs[i] := by
      unfold strip
      exact List.filter_eq_self.mpr fun c hc => by simpa using hin _ hmem c hc
    refine ⟨[seqs[i]], seqs[i].length, by simp [progressive, hs, GTree.leaves], ?_, ?_, by simp, ?_⟩
    · exact .cons (by rw [hstrip]; exact hs) .nil
    · intro r hr; simp at hr; rw [hr]
    · intro j hj
      exact ⟨seqs[i], by simp, seqs[i][j], List.getElem?_eq_getElem hj, hin _ hmem _ (List.getElem_mem hj)⟩
  | node l r ihl ihr =>
    intro hv hl
    obtain ⟨hvl, hvr, hvn⟩ := hv
    simp only [GTree.leaves, List.mem_append] at hl
    obtain ⟨r1, w1, p1, i1⟩ := ihl hvl fun i hi => hl i (Or.inl hi)
    obtain ⟨r2, w2, p2, i2⟩ := ihr hvr fun i hi => hl i (Or.inr hi)
    have hg := hvn _ _ _ _ p1 p2
    rw [i1.width_eq, i2.width_eq] at hg
    obtain ⟨rows, hm, hinv⟩ := merge_inv i1 i2 hg
    exact ⟨rows, _, by simp [progressive, p1, p2, hm, GTree.leaves], hinv⟩

/-! ### numbering of the final rows -/

theorem numberCodes_covered (g : Nat) : ∀ (r : Row) (a : Nat),
    (numberCodes g a r).filterMap id = List.range' a (strip g r).length := by
  intro r
  induction r with
  | nil => intro a; simp [numberCodes, strip]
  | cons c r ih =>
    intro a
    unfold numberCodes strip
    by_cases hc : c = g
    · simp only [hc, if_true, List.filterMap_cons, id]
      simpa [strip] using ih a
    · simp only [hc, if_false, List.filterMap_cons, id]
      have := ih (a + 1)
      simp [strip] at this
      simp [hc, List.range'_succ, this]

theorem pick_forall₂ {α : Type} (xs : List α) (idx : List Nat) (r : List α) (h : pick xs idx = .ok r) :
    All₂ (fun p x => xs[p]? = some x) idx r := by
  have h2 := mapE_ok_forall₂ _ _ _ h
  clear h
  induction h2 with
  | nil => exact .nil
  | cons hab _ ih =>
    refine .cons ?_ ih
    split at hab
    · next z hz => simp at hab; subst hab; exact hz
    · cases hab

theorem getElem?_idxOf' (l : List Nat) (k : Nat) (h : k ∈ l) : l[l.idxOf k]? = some k := by
  induction l with
  | nil => cases h
  | cons b l ih =>
    rw [List.idxOf_cons]
    by_cases hb : b = k
    · simp [hb]
    · have : k ∈ l := by
        rcases List.mem_cons.mp h with h | h
        · exact absurd h.symm hb
        · exact h
      have hbk : (b == k) = false := by simpa using hb
      rw [hbk]
      simpa using ih this

theorem All₂.imp_mem {α β : Type} {R R' : α → β → Prop} {l1 : List α} {l2 : List β} (h : All₂ R l1 l2)
    (hi : ∀ a b, a ∈ l1 → R a b → R' a b) : All₂ R' l1 l2 := by
  have := h.with_mem l1 (fun a ha => ha)
  exact All₂.comp (S := fun (b : β) c => b = c) (fun a b c hab hbc => hbc ▸ hi a b hab.1 hab.2) this (by
    clear this h hi
    induction l2 with
    | nil => exact .nil
    | cons x r ih => exact .cons rfl ih)

theorem All₂.map_map {α β γ : Type} {P : β → γ → Prop} (f1 : α → β) (f2 : α → γ) (l : List α)
    (h : ∀ x ∈ l, P (f1 x) (f2 x)) : All₂ P (l.map f1) (l.map f2) := by
  induction l with
  | nil => exact .nil
  | cons x l ih =>
    exact .cons (h x (List.mem_cons_self ..)) (ih fun y hy => h y (List.mem_cons_of_mem _ hy))

theorem spell_range {α : Type} (seqs : List Row) (f : α → Row) (picked : List α)
    (h : All₂ (fun k x => seqs[k]? = some (f x)) (List.range seqs.length) picked) : picked.map f = seqs := by
  apply List.ext_getElem?
  intro i
  by_cases hi : i < seqs.length
  · have hr : (List.range seqs.length)[i]? = some i := by simp [hi]
    obtain ⟨x, hx, hs⟩ := h.get i i hr
    simp [hx, hs]
  · have hl : picked.length = seqs.length := by rw [← h.length_eq]; simp
    rw [List.getElem?_eq_none (by simpa [hl] using Nat.le_of_not_lt hi), List.getElem?_eq_none (Nat.le_of_not_lt hi)]

/-- `C11_msa_invariant` -/
theorem msa_invariant {al : List Nat → List Nat → PTrace} {g : Nat} {seqs : List Row} (tree : GTree)
    (hin : ∀ s ∈ seqs, ∀ c ∈ s, c ≠ g) (hv : AllValid al g seqs tree)
    (hperm : tree.leaves.Perm (List.range seqs.length)) :
    ∃ res, alignMultiple al g seqs tree = .ok (some res) ∧ res.order = tree.leaves ∧ res.seqs = seqs ∧
      All₂ (fun s row => row.filterMap id = List.range s.length) seqs res.rows := by
  have hmem : ∀ k, k ∈ tree.leaves ↔ k < seqs.length := by intro k; rw [hperm.mem_iff]; simp
  have hlen : tree.leaves.length = seqs.length := by simpa using hperm.length_eq
  obtain ⟨rows, w, hp, inv⟩ := progressive_inv hin tree hv (fun i hi => (hmem i).1 hi)
  have hrl : rows.length = seqs.length := by rw [← inv.spell.length_eq, hlen]
  have hisPerm : isPerm tree.leaves = true := by
    simp only [isPerm, List.all_eq_true, List.mem_range, hlen]
    intro k hk
    simpa using (hmem k).2 hk
  obtain ⟨picked, hpick⟩ : ∃ picked, pick rows (argsortPerm tree.leaves) = .ok picked := by
    apply mapE_ok_of_forall
    intro p hp
    simp only [argsortPerm, List.mem_map, List.mem_range, hlen] at hp
    obtain ⟨k, hk, rfl⟩ := hp
    have : tree.leaves.idxOf k < rows.length := by
      rw [hrl, ← hlen]; exact List.idxOf_lt_length_of_mem ((hmem k).2 hk)
    exact ⟨rows[tree.leaves.idxOf k], by simp [List.getElem?_eq_getElem this]⟩
  have h1 := (pick_forall₂ _ _ _ hpick)
  simp only [argsortPerm, hlen] at h1
  have h2 := All₂.map_left _ h1
  have h3 : All₂ (fun k x => seqs[k]? = some (strip g x)) (List.range seqs.length) picked := by
    refine h2.imp_mem ?_
    intro k x hk hx
    have hk' : k ∈ tree.leaves := (hmem k).2 (by simpa using hk)
    obtain ⟨r, hr, hs⟩ := inv.spell.get _ k (getElem?_idxOf' _ k hk')
    rw [hx] at hr; cases hr; exact hs
  have hseqs : picked.map (strip g) = seqs := spell_range seqs (strip g) picked h3
  refine ⟨{ seqs := picked.map (strip g), rows := picked.map (numberCodes g 0),
            trace := transpose (width rows) (picked.map (numberCodes g 0)), order := tree.leaves },
    by simp [alignMultiple, hp, hisPerm, hpick], rfl, hseqs, ?_⟩
  simp only
  rw [← hseqs]
  apply All₂.map_map
  intro x _
  rw [numberCodes_covered, List.range_eq_range']

end BiotiteModel.C11

import BiotiteModel.Model.C09
import BiotiteModel.Proofs.C09Region
import BiotiteModel.Proofs.C09Grow
/-! The refusals of the three heuristics happen exactly where the guards say (and nowhere else without a table limit). -/
namespace BiotiteModel.C09
open BiotiteModel BiotiteModel.C08

/-! ## without `max_table_size` the region fill never fails -/

theorem regStepLin_none_err (so : Bool) (M : Mat) (g thr : Int) (x y : Seq) (gf : Nat) (st : RegState) (k : Nat)
    (h : st.err = false) : (regStepLin so M g thr x y none gf st k).err = false := by
  unfold regStepLin
  by_cases hd : (st.done || st.err) = true
  · simp only [hd, if_true]; exact h
  · have hd' : (st.done || st.err) = false := by simpa using hd
    simp only [hd', Bool.false_eq_true, if_false]
    split
    · exact h
    · obtain ⟨r, c, hg⟩ := growShape_none st.rows st.cols
        (min (max (st.max0 + 1) (st.max1 + 1)) x.length) (k - max (min st.min0 (st.min1 + 1)) (k - y.length)) gf
      simp only [hg]

theorem regStepAff_none_err (so : Bool) (M : Mat) (go ge thr : Int) (x y : Seq) (gf : Nat) (st : RegStateA) (k : Nat)
    (h : st.err = false) : (regStepAff so M go ge thr x y none gf st k).err = false := by
  unfold regStepAff
  by_cases hd : (st.done || st.err) = true
  · simp only [hd, if_true]; exact h
  · have hd' : (st.done || st.err) = false := by simpa using hd
    simp only [hd', Bool.false_eq_true, if_false]
    split
    · exact h
    · obtain ⟨r, c, hg⟩ := growShape_none st.rows st.cols
        (min (max (st.max0 + 1) (st.max1 + 1)) x.length) (k - max (min st.min0 (st.min1 + 1)) (k - y.length)) gf
      simp only [hg]

theorem foldLin_none_err (so : Bool) (M : Mat) (g thr : Int) (x y : Seq) (gf : Nat) (l : List Nat) :
    ∀ st, st.err = false → (l.foldl (regStepLin so M g thr x y none gf) st).err = false := by
  induction l with
  | nil => intro st h; exact h
  | cons k r ih => intro st h; exact ih _ (regStepLin_none_err so M g thr x y gf st k h)

theorem foldAff_none_err (so : Bool) (M : Mat) (go ge thr : Int) (x y : Seq) (gf : Nat) (l : List Nat) :
    ∀ st, st.err = false → (l.foldl (regStepAff so M go ge thr x y none gf) st).err = false := by
  induction l with
  | nil => intro st h; exact h
  | cons k r ih => intro st h; exact ih _ (regStepAff_none_err so M go ge thr x y gf st k h)

theorem regionAlign_none_ok (so : Bool) (M : Mat) (gap : Gap) (thr : Int) (x y : Seq) (is io gf : Nat) :
    ∃ v, regionAlign so M gap thr x y none is io gf = .ok v := by
  cases gap with
  | lin g =>
    simp only [regionAlign, regionLin]
    rw [foldLin_none_err so M g thr x y gf _ _ rfl]
    exact ⟨_, rfl⟩
  | aff go ge =>
    simp only [regionAlign, regionAff]
    rw [foldAff_none_err so M go ge thr x y gf _ _ rfl]
    exact ⟨_, rfl⟩

end BiotiteModel.C09

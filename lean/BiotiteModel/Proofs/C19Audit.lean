import BiotiteModel.Proofs.C19NJ
import BiotiteModel.Proofs.C19Newick
import Mathlib.Tactic.Linarith
import Mathlib.Tactic.Tauto
/-! Hypothesis/abstention audit: the refusals happen exactly where the hypotheses of the theorems end,
and the model's internal abstentions (`fuel`, `unreachable`) are never produced. -/
namespace BiotiteModel.C19

/-! ### UPGMA / NJ: accepted ⇔ valid -/
theorem upgma_total (n : Nat) (D : Nat → Nat → Rat) (h1 : allcloseSym n D = true)
    (h2 : anyNegative n D = false) (hn : 0 < n) : ∃ t, upgma n D = .ok t := by
  have hfin := upgmaLoop_final n n (UState.init D) (UInv_init n D) (Nat.le_succ_of_le (liveCount_le n _))
  have hnone := hfin.2
  unfold upgmaStep at hnone
  split at hnone
  · rename_i hmin
    have hl := liveLeaves_last n hn _ (upgmaLoop n n (UState.init D)).nd hfin.1.2 (scanMin_none hmin)
    have hp := hfin.1.1
    rw [hl] at hp
    refine ⟨(upgmaLoop n n (UState.init D)).nd (n - 1), ?_⟩
    have hn0 : ¬ n = 0 := by omega
    have hall : (((upgmaLoop n n (UState.init D)).nd (n - 1)).leaves.all
        fun x => decide (x < ((upgmaLoop n n (UState.init D)).nd (n - 1)).leaves.length)) = true := by
      rw [List.all_eq_true]
      intro x hx
      have hx' : x ∈ List.range n := hp.mem_iff.mp hx
      have hlen : ((upgmaLoop n n (UState.init D)).nd (n - 1)).leaves.length = n := by rw [hp.length_eq]; simp
      simp [hlen, List.mem_range.mp hx']
    simp [upgma, h1, h2, hn0, mkTree, hall]
  · cases hnone

/-- `upgma` raises `ValueError` exactly for matrices that are not symmetric (by `allclose`) or contain a
negative entry; an empty matrix is an `IndexError`; everything else is accepted. -/
theorem upgma_rejects (n : Nat) (D : Nat → Nat → Rat) :
    (upgma n D = .error .valueError ↔ (allcloseSym n D = false ∨ anyNegative n D = true)) ∧
    (allcloseSym n D = true → anyNegative n D = false → n = 0 → upgma n D = .error .indexError) := by
  constructor
  · constructor
    · intro h
      by_contra hc
      push Not at hc
      have h1 : allcloseSym n D = true := by simpa using hc.1
      have h2 : anyNegative n D = false := by simpa using hc.2
      by_cases hn : n = 0
      · subst hn; simp [upgma, h1, h2] at h
      · obtain ⟨t, ht⟩ := upgma_total n D h1 h2 (by omega)
        rw [ht] at h; cases h
    · rintro (h | h)
      · simp [upgma, h]
      · cases h1 : allcloseSym n D <;> simp [upgma, h1, h]
  · intro h1 h2 hn
    subst hn; simp [upgma, h1, h2]

/-- `neighbor_joining` raises `ValueError` exactly for matrices that are not symmetric, have fewer than
four rows or contain a negative entry; everything else yields a tree (`nj_total`). -/
theorem nj_rejects (n : Nat) (D : Nat → Nat → Rat) :
    neighborJoining n D = .error .valueError ↔ (allcloseSym n D = false ∨ n < 4 ∨ anyNegative n D = true) := by
  constructor
  · intro h
    by_contra hc
    push Not at hc
    obtain ⟨t, ht⟩ := nj_total n D (by simpa using hc.1) (by omega) (by simpa using hc.2.2)
    rw [ht] at h; cases h
  · rintro (h | h | h)
    · simp [neighborJoining, h]
    · cases h1 : allcloseSym n D <;> simp [neighborJoining, h1, h]
    · cases h1 : allcloseSym n D <;> by_cases h4 : n < 4 <;> simp [neighborJoining, h1, h4, h]

/-- `Tree()` raises `TreeError` exactly when some leaf index is not below the number of leaves. -/
theorem mkTree_rejects {δ : Type} (t : T δ) :
    mkTree t = .error (.other "TreeError") ↔ ∃ i ∈ t.leaves, t.leaves.length ≤ i := by
  simp only [mkTree]
  constructor
  · intro h
    split at h
    · cases h
    · rename_i hc
      simp only [List.all_eq_true, decide_eq_true_eq, not_forall] at hc
      obtain ⟨i, hi⟩ := hc
      exact ⟨i, by tauto, by omega⟩
  · rintro ⟨i, hi, hle⟩
    have : ¬ (t.leaves.all fun x => decide (x < t.leaves.length)) = true := by
      simp only [List.all_eq_true, decide_eq_true_eq, not_forall]
      exact ⟨i, by simp [hi]; omega⟩
    simp [this]

/-! ### the reader never reports its internal abstentions -/
theorem firstOpen_none : ∀ (s : List Char) (i : Nat), firstOpen s i = .ok none → ∀ c ∈ s, c ≠ '(' ∧ c ≠ ')'
  | [], _, _ => by simp
  | c :: s, i, h => by
    simp only [firstOpen] at h
    by_cases h1 : c = '('
    · simp [h1] at h
    · by_cases h2 : c = ')'
      · simp [h1, h2] at h
      · simp only [h1, h2, if_false] at h
        intro x hx
        rcases List.mem_cons.mp hx with rfl | hx
        · exact ⟨h1, h2⟩
        · exact firstOpen_none s (i + 1) h x hx

theorem lastCloseRev_none : ∀ (s : List Char) (k : Nat), lastCloseRev s k = .ok none → ∀ c ∈ s, c ≠ '(' ∧ c ≠ ')'
  | [], _, _ => by simp
  | c :: s, k, h => by
    simp only [lastCloseRev] at h
    by_cases h2 : c = ')'
    · simp [h2] at h
    · by_cases h1 : c = '('
      · simp [h1, h2] at h
      · simp only [h1, h2, if_false] at h
        intro x hx
        rcases List.mem_cons.mp hx with rfl | hx
        · exact ⟨h1, h2⟩
        · exact lastCloseRev_none s (k + 1) h x hx

theorem firstOpen_some : ∀ (s : List Char) (i a : Nat), firstOpen s i = .ok (some a) → '(' ∈ s
  | [], _, _, h => by simp [firstOpen] at h
  | c :: s, i, a, h => by
    simp only [firstOpen] at h
    by_cases h1 : c = '('
    · simp [h1]
    · by_cases h2 : c = ')'
      · simp [h1, h2] at h
      · simp only [h1, h2, if_false] at h
        exact List.mem_cons_of_mem _ (firstOpen_some s (i + 1) a h)

theorem lastCloseRev_some : ∀ (s : List Char) (k a : Nat), lastCloseRev s k = .ok (some a) → ')' ∈ s
  | [], _, _, h => by simp [lastCloseRev] at h
  | c :: s, k, a, h => by
    simp only [lastCloseRev] at h
    by_cases h2 : c = ')'
    · simp [h2]
    · by_cases h1 : c = '('
      · simp [h1, h2] at h
      · simp only [h1, h2, if_false] at h
        exact List.mem_cons_of_mem _ (lastCloseRev_some s (k + 1) a h)

theorem splitTop_length : ∀ (cs : List Char) (level : Nat) (cur : List Char) (ps : List (List Char)),
    splitTop cs level cur = some ps → ∀ p ∈ ps, p.length ≤ cs.length + cur.length
  | [], _, cur, ps, h => by
    simp only [splitTop, Option.some.injEq] at h
    subst h
    intro p hp; simp at hp; subst hp; simp
  | c :: cs, level, cur, ps, h => by
    simp only [splitTop] at h
    by_cases h1 : c = '('
    · simp only [h1, if_true] at h
      intro p hp
      have := splitTop_length cs (level + 1) (c :: cur) ps (by simpa [h1] using h) p hp
      simp at this ⊢; omega
    · simp only [h1, if_false] at h
      by_cases h2 : c = ')'
      · simp only [h2, if_true] at h
        cases level with
        | zero => simp at h
        | succ l =>
          intro p hp
          have := splitTop_length cs l (c :: cur) ps (by simpa [h2] using h) p hp
          simp at this ⊢; omega
      · simp only [h2, if_false] at h
        by_cases h3 : c = ',' ∧ level = 0
        · rw [if_pos h3] at h
          cases hr : splitTop cs level [] with
          | none => simp [hr] at h
          | some qs =>
            simp only [hr, Option.map_some, Option.some.injEq] at h
            subst h
            intro p hp
            rcases List.mem_cons.mp hp with rfl | hp
            · first | (simp; omega) | simp
            · have := splitTop_length cs level [] qs hr p hp
              simp at this ⊢; omega
        · rw [if_neg h3] at h
          intro p hp
          have := splitTop_length cs level (c :: cur) ps h p hp
          simp at this ⊢; omega

theorem labelIndex_error (labels : Option (List (List Char))) (l : List Char) (e : Err)
    (h : labelIndex labels l = .error e) : e = .valueError := by
  unfold labelIndex at h
  split at h
  · split at h
    · split at h <;> first | (cases h; rfl) | cases h
    · split at h <;> first | (cases h; rfl) | cases h
    · split at h <;> first | (cases h; rfl) | cases h
  · split at h <;> first | (cases h; rfl) | cases h

theorem parsePieces_error {δ : Type} (rec : List Char → Except Err (T δ × δ)) (bad : Err) :
    ∀ ps : List (List Char), (∀ p ∈ ps, rec p ≠ .error bad) → parsePieces rec ps ≠ .error bad
  | [], _ => by simp [parsePieces]
  | p :: ps, h => by
    simp only [parsePieces]
    cases hp : rec p with
    | error e =>
      intro heq
      simp at heq
      exact h p (by simp) (by rw [hp, heq])
    | ok r =>
      obtain ⟨c, dc⟩ := r
      simp only
      have ih := parsePieces_error rec bad ps (fun q hq => h q (by simp [hq]))
      cases hr : parsePieces rec ps with
      | error e => intro heq; simp at heq; exact ih (by rw [hr, heq])
      | ok r => simp

/-- **`from_newick` model: no abstention.**  For every input string the reader returns a tree or one of
the real exceptions; the internal markers `fuel` (recursion bound) and `unreachable` never appear. -/
theorem fromNewick_no_abstention {δ : Type} (labels : Option (List (List Char))) (parseD : List Char → Option δ)
    (zero : δ) : ∀ (fuel : Nat) (s : List Char), s.length < fuel →
      fromNewickFuel labels parseD zero fuel s ≠ .error (.other "fuel") ∧
      fromNewickFuel labels parseD zero fuel s ≠ .error (.other "unreachable") := by
  intro fuel
  induction fuel with
  | zero => intro s h; omega
  | succ fuel ih =>
    intro s0 hlen
    have hfl : (s0.filter fun c => !isWs c).length ≤ s0.length := List.length_filter_le _ _
    generalize hs : (s0.filter fun c => !isWs c) = s at hfl
    have key : ∀ bad : Err, (bad = .other "fuel" ∨ bad = .other "unreachable") →
        fromNewickFuel labels parseD zero (fuel + 1) s0 ≠ .error bad := by
      intro bad hbad
      simp only [fromNewickFuel, hs]
      cases h1 : firstOpen s 0 with
      | error e =>
        have : e = .invalidFile := by
          clear hbad
          have : ∀ (l : List Char) (i : Nat) (e : Err), firstOpen l i = .error e → e = .invalidFile := by
            intro l
            induction l with
            | nil => intro i e h; simp [firstOpen] at h
            | cons c l ihl =>
              intro i e h
              simp only [firstOpen] at h
              by_cases a1 : c = '('
              · simp [a1] at h
              · by_cases a2 : c = ')'
                · simp [a1, a2] at h; exact h.symm
                · simp only [a1, a2, if_false] at h; exact ihl (i + 1) e h
          exact this s 0 e h1
        subst this
        rcases hbad with rfl | rfl <;> simp
      | ok start =>
        simp only
        cases h2 : lastCloseRev s.reverse 0 with
        | error e =>
          have : e = .invalidFile := by
            have : ∀ (l : List Char) (k : Nat) (e : Err), lastCloseRev l k = .error e → e = .invalidFile := by
              intro l
              induction l with
              | nil => intro k e h; simp [lastCloseRev] at h
              | cons c l ihl =>
                intro k e h
                simp only [lastCloseRev] at h
                by_cases a2 : c = ')'
                · simp [a2] at h
                · by_cases a1 : c = '('
                  · simp [a1, a2] at h; exact h.symm
                  · simp only [a1, a2, if_false] at h; exact ihl (k + 1) e h
            exact this s.reverse 0 e h2
          subst this
          rcases hbad with rfl | rfl <;> simp
        | ok stopR =>
          simp only
          cases start with
          | none =>
            cases stopR with
            | none =>
              simp only
              cases hli : labelIndex labels (labelAndDistance parseD zero s).1 with
              | error e =>
                have := labelIndex_error labels _ e hli
                subst this
                rcases hbad with rfl | rfl <;> simp
              | ok i => simp
            | some k =>
              exfalso
              have a := firstOpen_none s 0 h1
              have b := lastCloseRev_some s.reverse 0 k h2
              exact (a ')' (List.mem_reverse.mp b)).2 rfl
          | some a =>
            cases stopR with
            | none =>
              exfalso
              have a' := firstOpen_some s 0 a h1
              have b := lastCloseRev_none s.reverse 0 h2
              exact (b '(' (List.mem_reverse.mpr a')).1 rfl
            | some k =>
              simp only
              split
              · rcases hbad with rfl | rfl <;> simp
              · split
                · rcases hbad with rfl | rfl <;> simp
                · rename_i pieces hsp
                  have hpl := splitTop_length _ 0 [] pieces hsp
                  have hpp := parsePieces_error (fromNewickFuel labels parseD zero fuel) bad pieces (by
                    intro p hp
                    have hp1 := hpl p hp
                    have hs1 : 1 ≤ s.length := List.length_pos_of_mem (firstOpen_some s 0 a h1)
                    have : p.length < fuel := by
                      simp only [List.length_drop, List.length_take, List.length_nil] at hp1
                      omega
                    rcases hbad with rfl | rfl
                    · exact (ih p this).1
                    · exact (ih p this).2)
                  split
                  · rename_i e he
                    intro heq
                    simp at heq
                    exact hpp (by rw [he, heq])
                  · simp
    exact ⟨key _ (Or.inl rfl), key _ (Or.inr rfl)⟩


/-! ### the writer refuses exactly the illegal labels -/

/-- The label of leaf `i` contains one of `, : ; ( )`. -/
def IllegalAt (ls : List (List Char)) (i : Nat) : Prop :=
  ∃ l, ls[i]? = some l ∧ (l.any (illegalChars.contains ·)) = true

theorem leafLabel_cases (ls : List (List Char)) (i : Nat) (hi : i < ls.length) :
    (leafLabel (some ls) i = .error .valueError ∧ IllegalAt ls i) ∨
    ((∃ l, leafLabel (some ls) i = .ok l) ∧ ¬ IllegalAt ls i) := by
  have hne : ls.isEmpty = false := by
    cases ls with
    | nil => simp at hi
    | cons a l => rfl
  have hget : ls[i]? = some ls[i] := List.getElem?_eq_getElem hi
  unfold leafLabel
  simp only [hne, hget]
  by_cases hany : (ls[i].any (illegalChars.contains ·)) = true
  · left
    exact ⟨by rw [if_pos hany]; rfl, ls[i], hget, hany⟩
  · right
    refine ⟨⟨ls[i], by rw [if_neg hany]; rfl⟩, ?_⟩
    rintro ⟨l, hl, hl'⟩
    rw [hget] at hl
    cases hl
    exact hany hl'

section
variable {δ : Type} (ls : List (List Char)) (inc : Bool) (showD : δ → List Char)

mutual
theorem T.toNewick_cases : ∀ (t : T δ) (e : δ), (∀ i ∈ t.leaves, i < ls.length) →
    (t.toNewick (some ls) inc showD e = .error .valueError ∧ ∃ i ∈ t.leaves, IllegalAt ls i) ∨
    ((∃ s, t.toNewick (some ls) inc showD e = .ok s) ∧ ∀ i ∈ t.leaves, ¬ IllegalAt ls i)
  | .leaf i, e, h => by
    rcases leafLabel_cases ls i (h i (by simp [T.leaves])) with ⟨h1, h2⟩ | ⟨⟨l, h1⟩, h2⟩
    · left; exact ⟨by simp [T.toNewick, h1, bind, Except.bind], i, by simp [T.leaves], h2⟩
    · right
      refine ⟨⟨_, by simp [T.toNewick, h1, bind, Except.bind, pure, Except.pure]; rfl⟩, ?_⟩
      intro j hj; simp [T.leaves] at hj; subst hj; exact h2
  | .node cs, e, h => by
    rcases F.toNewick_cases cs (by simpa [T.leaves] using h) with ⟨h1, h2⟩ | ⟨⟨ss, h1⟩, h2⟩
    · left; exact ⟨by simp [T.toNewick, h1, bind, Except.bind], by simpa [T.leaves] using h2⟩
    · right
      exact ⟨⟨_, by simp [T.toNewick, h1, bind, Except.bind, pure, Except.pure]; rfl⟩, by simpa [T.leaves] using h2⟩
theorem F.toNewick_cases : ∀ (f : F δ), (∀ i ∈ f.leaves, i < ls.length) →
    (f.toNewick (some ls) inc showD = .error .valueError ∧ ∃ i ∈ f.leaves, IllegalAt ls i) ∨
    ((∃ ss, f.toNewick (some ls) inc showD = .ok ss) ∧ ∀ i ∈ f.leaves, ¬ IllegalAt ls i)
  | .nil, _ => by right; exact ⟨⟨[], rfl⟩, by simp [F.leaves]⟩
  | .cons d t r, h => by
    have ht := T.toNewick_cases t d (fun i hi => h i (by simp [F.leaves, hi]))
    have hr := F.toNewick_cases r (fun i hi => h i (by simp [F.leaves, hi]))
    rcases ht with ⟨t1, i, hi, t2⟩ | ⟨⟨s, t1⟩, t2⟩
    · left
      exact ⟨by simp [F.toNewick, t1, bind, Except.bind], i, by simp [F.leaves, hi], t2⟩
    · rcases hr with ⟨r1, i, hi, r2⟩ | ⟨⟨ss, r1⟩, r2⟩
      · left
        exact ⟨by simp [F.toNewick, t1, r1, bind, Except.bind], i, by simp [F.leaves, hi], r2⟩
      · right
        refine ⟨⟨s :: ss, by simp [F.toNewick, t1, r1, bind, Except.bind, pure, Except.pure]⟩, ?_⟩
        intro i hi
        simp only [F.leaves, List.mem_append] at hi
        rcases hi with hi | hi
        · exact t2 i hi
        · exact r2 i hi
end
end

/-- **`to_newick` raises `ValueError` exactly when a used label contains `, : ; ( )`** (labels covering
every leaf index). -/
theorem toNewick_rejects {δ : Type} (ls : List (List Char)) (inc : Bool) (showD : δ → List Char)
    (t : T δ) (e : δ) (h : ∀ i ∈ t.leaves, i < ls.length) :
    t.toNewick (some ls) inc showD e = .error .valueError ↔ ∃ i ∈ t.leaves, IllegalAt ls i := by
  rcases T.toNewick_cases ls inc showD t e h with ⟨h1, h2⟩ | ⟨⟨s, h1⟩, h2⟩
  · exact ⟨fun _ => h2, fun _ => h1⟩
  · constructor
    · intro h'; rw [h1] at h'; cases h'
    · rintro ⟨i, hi, hil⟩; exact absurd hil (h2 i hi)

end BiotiteModel.C19

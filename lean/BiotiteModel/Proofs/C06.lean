import BiotiteModel.Model.C06Containers
/-!
# C06 — helper lemmas (tokeniser, padding, lines)
-/
namespace BiotiteModel.C06

/-! ## basic facts -/

theorem has_iff (c : Char) (s : Str) : has c s = true ↔ c ∈ s := by
  simp [has]

theorem has_false_iff (c : Char) (s : Str) : has c s = false ↔ c ∉ s := by
  rw [← has_iff]; cases has c s <;> simp

theorem isWs_space : isWs ' ' = true := by decide
theorem isWs_tab : isWs '\t' = true := by decide
theorem isWs_nl : isWs '\n' = true := by decide
theorem isWs_q1 : isWs q1 = false := by decide
theorem isWs_q2 : isWs q2 = false := by decide

/-- No character that `str.splitlines()` treats as a line boundary. -/
def NoBreak (w : Str) : Prop := ∀ c ∈ w, isBreak c = false

instance (w : Str) : Decidable (NoBreak w) := by unfold NoBreak; infer_instance

/-- A single-line value: any characters (blanks, tabs, no-break spaces, …) except line boundaries. -/
def SingleLine (v : Str) : Prop := NoBreak v

theorem isWs_of_isBreak (c : Char) (h : isBreak c = true) : isWs c = true := by
  simp only [isBreak, Bool.or_eq_true, beq_iff_eq] at h
  unfold isWs
  simp only [Bool.or_eq_true, Bool.and_eq_true, decide_eq_true_eq, beq_iff_eq]
  omega

theorem noBreak_of_nows (w : Str) (h : ∀ c ∈ w, isWs c = false) : NoBreak w := by
  intro c hc
  cases hb : isBreak c with
  | false => rfl
  | true => have := isWs_of_isBreak c hb; rw [h c hc] at this; exact absurd this (by simp)

def BothQuotes (v : Str) : Prop := q1 ∈ v ∧ q2 ∈ v

theorem lstrip_cons_of_not_ws (c : Char) (s : Str) (h : isWs c = false) : lstrip (c :: s) = c :: s := by
  simp [lstrip, List.dropWhile, h]

theorem lstrip_spaces (m : Nat) (c : Char) (s : Str) (h : isWs c = false) :
    lstrip (List.replicate m ' ' ++ c :: s) = c :: s := by
  induction m with
  | zero => simpa using lstrip_cons_of_not_ws c s h
  | succ m ih =>
    simp only [List.replicate_succ, List.cons_append]
    simp only [lstrip, List.dropWhile, isWs_space] at ih ⊢
    exact ih

theorem partition_notin (c : Char) (a : Str) (h : c ∉ a) : partition c a = (a, []) := by
  induction a with
  | nil => rfl
  | cons x xs ih =>
    have hx : (x == c) = false := by
      simp only [List.mem_cons, not_or] at h
      simpa using fun e => h.1 e.symm
    have := ih (fun hm => h (List.mem_cons_of_mem _ hm))
    simp [partition, hx, this]

theorem partition_app (c : Char) (a b : Str) (h : c ∉ a) : partition c (a ++ c :: b) = (a, b) := by
  induction a with
  | nil => simp [partition]
  | cons x xs ih =>
    have hx : (x == c) = false := by
      simp only [List.mem_cons, not_or] at h
      simpa using fun e => h.1 e.symm
    have := ih (fun hm => h (List.mem_cons_of_mem _ hm))
    simp [partition, hx, this]

/-! ## tokens as the writer produces them -/

/-- `BareTok t`: an unquoted token — non-empty, no whitespace, no quote character. -/
structure BareTok (t : Str) : Prop where
  ne : t ≠ []
  nows : ∀ c ∈ t, isWs c = false
  noq1 : q1 ∉ t
  noq2 : q2 ∉ t

/-- `Tok v t`: `t` is a one-line token that stands for the value `v`. -/
inductive Tok : Str → Str → Prop where
  | bare (t : Str) : BareTok t → Tok t t
  | quoted (q : Char) (v : Str) : (q = q1 ∨ q = q2) → q ∉ v → Tok v (quoteWith q v)

/-- A line made of tokens separated by at least one blank; no blank after the last token. -/
def padded : List (Str × Nat) → Str
  | [] => []
  | [(t, _)] => t
  | (t, n) :: r :: rest => t ++ List.replicate (n + 1) ' ' ++ padded (r :: rest)

/-- What the quoted-path loop does on `L` after any number of leading blanks. -/
def Q (L : Str) (vals : List Str) : Prop :=
  ∀ m fuel, m + L.length + 1 ≤ fuel → splitQuoted fuel (List.replicate m ' ' ++ L) = vals

theorem splitQuoted_nil (fuel : Nat) : splitQuoted fuel [] = [] := by
  cases fuel <;> simp [splitQuoted]

/-- one iteration of the loop on a line whose first non-blank character is `c` -/
theorem splitQuoted_step (f m : Nat) (c : Char) (s : Str) (hc : isWs c = false) :
    splitQuoted (f + 1) (List.replicate m ' ' ++ c :: s) =
      (match (partition ' ' (c :: s)).1 with
       | [] => [] :: splitQuoted f (partition ' ' (c :: s)).2
       | q :: w =>
         if q == q1 || q == q2 then
           if w.getLast? == some q then w.dropLast :: splitQuoted f (partition ' ' (c :: s)).2
           else (partition q s).1 :: splitQuoted f (partition q s).2
         else (partition ' ' (c :: s)).1 :: splitQuoted f (partition ' ' (c :: s)).2) := by
  have hne : (List.replicate m ' ' ++ c :: s).isEmpty = false := by simp
  rw [splitQuoted]
  simp only [hne, lstrip_spaces m c s hc, List.tail_cons, Bool.false_eq_true, if_false]
  rfl

theorem bare_head (t : Str) (h : BareTok t) :
    ∃ c w, t = c :: w ∧ isWs c = false ∧ (c == q1) = false ∧ (c == q2) = false := by
  cases t with
  | nil => exact absurd rfl h.ne
  | cons c w =>
    refine ⟨c, w, rfl, h.nows c (by simp), ?_, ?_⟩
    · simp only [beq_eq_false_iff_ne, ne_eq]; intro e; exact h.noq1 (by simp [e])
    · simp only [beq_eq_false_iff_ne, ne_eq]; intro e; exact h.noq2 (by simp [e])

theorem bare_nospace (t : Str) (h : BareTok t) : ' ' ∉ t := fun hm => by
  have := h.nows ' ' hm; simp [isWs_space] at this

theorem Q_bare_last (t : Str) (h : BareTok t) : Q t [t] := by
  intro m fuel hf
  obtain ⟨c, w, rfl, hc, h1, h2⟩ := bare_head t h
  obtain ⟨f, rfl⟩ : ∃ f, fuel = f + 1 := ⟨fuel - 1, by omega⟩
  rw [splitQuoted_step f m c w hc, partition_notin ' ' (c :: w) (bare_nospace _ h)]
  simp [h1, h2, splitQuoted_nil]

theorem Q_bare_cons (t : Str) (h : BareTok t) (n : Nat) (L : Str) (vals : List Str) (hL : Q L vals) :
    Q (t ++ List.replicate (n + 1) ' ' ++ L) (t :: vals) := by
  intro m fuel hf
  obtain ⟨c, w, rfl, hc, h1, h2⟩ := bare_head t h
  obtain ⟨f, rfl⟩ : ∃ f, fuel = f + 1 := ⟨fuel - 1, by omega⟩
  have e : c :: w ++ List.replicate (n + 1) ' ' ++ L = c :: (w ++ List.replicate (n + 1) ' ' ++ L) := by simp
  rw [e, splitQuoted_step f m c _ hc]
  have e2 : c :: (w ++ List.replicate (n + 1) ' ' ++ L) = (c :: w) ++ ' ' :: (List.replicate n ' ' ++ L) := by
    simp [List.replicate_succ]
  rw [e2, partition_app ' ' (c :: w) _ (bare_nospace _ h)]
  simp only [h1, h2, Bool.or_self, if_false, Bool.false_eq_true]
  rw [hL n f (by simp at hf; omega)]

theorem getLast?_append_singleton (v : Str) (q : Char) : (v ++ [q]).getLast? = some q := by simp

theorem partition_fst_of_mem (c : Char) (v X : Str) (h : c ∈ v) :
    (partition c (v ++ X)).1 = (partition c v).1 := by
  induction v with
  | nil => simp at h
  | cons x xs ih =>
    by_cases hx : (x == c) = true
    · simp [partition, hx]
    · have hx' : (x == c) = false := by simpa using hx
      have hm : c ∈ xs := by
        rcases List.mem_cons.mp h with e | e
        · exact absurd (by simp [e]) hx
        · exact e
      simp [partition, hx', ih hm]

theorem partition_fst_subset (c : Char) (v : Str) : ∀ x ∈ (partition c v).1, x ∈ v := by
  induction v with
  | nil => simp [partition]
  | cons y ys ih =>
    by_cases hy : (y == c) = true
    · simp [partition, hy]
    · have hy' : (y == c) = false := by simpa using hy
      intro x hx
      simp only [partition, hy', Bool.false_eq_true, if_false, List.mem_cons] at hx ⊢
      rcases hx with e | e
      · exact Or.inl e
      · exact Or.inr (ih x e)

theorem Q_quoted_gen (q : Char) (v : Str) (hq : q = q1 ∨ q = q2) (hv : q ∉ v)
    (R : Str) (vals : List Str)
    (hR : R = [] ∧ vals = [] ∨ ∃ n L, R = List.replicate (n + 1) ' ' ++ L ∧ Q L vals) :
    Q (quoteWith q v ++ R) (v :: vals) := by
  intro m fuel hf
  obtain ⟨f, rfl⟩ : ∃ f, fuel = f + 1 := ⟨fuel - 1, by omega⟩
  have hqws : isWs q = false := by rcases hq with rfl | rfl <;> decide
  have hqq : (q == q1 || q == q2) = true := by rcases hq with rfl | rfl <;> decide
  have hqsp : (q == ' ') = false := by rcases hq with rfl | rfl <;> decide
  have e : quoteWith q v ++ R = q :: (v ++ q :: R) := by simp [quoteWith]
  rw [e, splitQuoted_step f m q _ hqws]
  have hp2 : partition q (v ++ q :: R) = (v, R) := partition_app q v R hv
  have hlen : (quoteWith q v ++ R).length = v.length + 2 + R.length := by simp [quoteWith]; omega
  -- the recursive call on `R` (second sub-case) or on `R` minus one blank (first sub-case)
  have hrecR : splitQuoted f R = vals := by
    rcases hR with ⟨rfl, rfl⟩ | ⟨n, L, rfl, hL⟩
    · exact splitQuoted_nil f
    · exact hL (n + 1) f (by simp at hlen hf ⊢; omega)
  by_cases hsp : ' ' ∈ v
  · -- the value contains a blank: the first word is `q :: a` with `a` inside `v`
    have hw : (partition ' ' (q :: (v ++ q :: R))).1 = q :: (partition ' ' v).1 := by
      simp [partition, hqsp, partition_fst_of_mem ' ' v (q :: R) hsp]
    have hnl : ((partition ' ' v).1.getLast? == some q) = false := by
      apply Bool.eq_false_iff.mpr
      intro hh
      have : q ∈ (partition ' ' v).1 := List.mem_of_getLast? (by simpa using hh)
      exact hv (partition_fst_subset ' ' v q this)
    rw [hw]
    simp only [hqq, if_true, hnl, Bool.false_eq_true, if_false, hp2, hrecR]
  · -- no blank: the first word is the whole token
    have hns : ' ' ∉ q :: (v ++ [q]) := by
      intro hm
      simp only [List.mem_cons, List.mem_append, List.mem_nil_iff, or_false] at hm
      rcases hm with e | e | e
      · rcases hq with rfl | rfl <;> simp [q1, q2] at e
      · exact hsp e
      · rcases hq with rfl | rfl <;> simp [q1, q2] at e
    rcases hR with ⟨rfl, rfl⟩ | ⟨n, L, rfl, hL⟩
    · have e1 : q :: (v ++ [q]) = q :: (v ++ [q]) := rfl
      rw [partition_notin ' ' (q :: (v ++ [q])) hns]
      simp [hqq, splitQuoted_nil]
    · have e1 : q :: (v ++ q :: (List.replicate (n + 1) ' ' ++ L)) = (q :: (v ++ [q])) ++ ' ' :: (List.replicate n ' ' ++ L) := by
        simp [List.replicate_succ]
      rw [e1, partition_app ' ' _ _ hns]
      have := hL n f (by simp at hlen hf ⊢; omega)
      simp [hqq, this]

/-! ## a whole padded row -/

inductive RowRel : List Str → List (Str × Nat) → Prop where
  | nil : RowRel [] []
  | cons {v : Str} {tn : Str × Nat} {vs : List Str} {rest : List (Str × Nat)} :
      Tok v tn.1 → RowRel vs rest → RowRel (v :: vs) (tn :: rest)

theorem Q_padded (vals : List Str) (toks : List (Str × Nat)) (h : RowRel vals toks) (hne : toks ≠ []) :
    Q (padded toks) vals := by
  induction h with
  | nil => exact absurd rfl hne
  | @cons v tn vs rest htok hrest ih =>
    obtain ⟨t, n⟩ := tn
    cases rest with
    | nil =>
      cases hrest
      cases htok with
      | bare _ hb => exact Q_bare_last t hb
      | quoted q v hq hv =>
        have := Q_quoted_gen q v hq hv [] [] (Or.inl ⟨rfl, rfl⟩)
        simpa [padded, quoteWith] using this
    | cons r rest' =>
      have ihQ := ih (by simp)
      cases htok with
      | bare _ hb => exact Q_bare_cons t hb n _ _ ihQ
      | quoted q v hq hv =>
        have := Q_quoted_gen q v hq hv (List.replicate (n + 1) ' ' ++ padded (r :: rest')) vs
          (Or.inr ⟨n, _, rfl, ihQ⟩)
        simpa [padded, List.append_assoc, quoteWith] using this

/-! ### the path without quote characters: `str.split()` -/

theorem splitWsAux_bare (t s : Str) (h : ∀ c ∈ t, isWs c = false) :
    splitWsAux (t ++ s) = (t ++ (splitWsAux s).1, (splitWsAux s).2) := by
  induction t with
  | nil => simp
  | cons c w ih =>
    have hc := h c (by simp)
    have := ih (fun x hx => h x (by simp [hx]))
    simp [splitWsAux, hc, this]

theorem splitWs_space (s : Str) : splitWs (' ' :: s) = splitWs s := by
  simp [splitWs, splitWsAux, isWs_space]

theorem splitWs_spaces (n : Nat) (s : Str) : splitWs (List.replicate n ' ' ++ s) = splitWs s := by
  induction n with
  | zero => simp
  | succ n ih => simp only [List.replicate_succ, List.cons_append, splitWs_space, ih]

theorem splitWs_bare_cons (t s : Str) (hne : t ≠ []) (h : ∀ c ∈ t, isWs c = false) :
    splitWs (t ++ ' ' :: s) = t :: splitWs s := by
  have e : splitWsAux (' ' :: s) = ([], splitWs s) := by simp [splitWs, splitWsAux, isWs_space]
  unfold splitWs
  rw [splitWsAux_bare t _ h, e]
  cases t with
  | nil => exact absurd rfl hne
  | cons c w => simp [splitWs]

theorem splitWs_bare (t : Str) (hne : t ≠ []) (h : ∀ c ∈ t, isWs c = false) : splitWs t = [t] := by
  have := splitWsAux_bare t [] h
  rw [List.append_nil] at this
  unfold splitWs
  rw [this]
  cases t with
  | nil => exact absurd rfl hne
  | cons c w => simp [splitWsAux]

theorem splitWs_padded (toks : List (Str × Nat)) (h : ∀ tn ∈ toks, BareTok tn.1) :
    splitWs (padded toks) = toks.map (·.1) := by
  induction toks with
  | nil => simp [padded, splitWs, splitWsAux]
  | cons tn rest ih =>
    obtain ⟨t, n⟩ := tn
    have hb := h (t, n) (by simp)
    cases rest with
    | nil => simpa [padded] using splitWs_bare t hb.ne hb.nows
    | cons r rest' =>
      have ih' := ih (fun x hx => h x (by simp [hx]))
      have e : padded ((t, n) :: r :: rest') = t ++ ' ' :: (List.replicate n ' ' ++ padded (r :: rest')) := by
        simp [padded, List.replicate_succ]
      rw [e, splitWs_bare_cons t _ hb.ne hb.nows, splitWs_spaces, ih']
      simp

theorem mem_padded_head (c : Char) (t : Str) (n : Nat) (rest : List (Str × Nat)) (h : c ∈ t) :
    c ∈ padded ((t, n) :: rest) := by
  cases rest with
  | nil => simpa [padded] using h
  | cons r rest' => simp [padded, h]

theorem mem_padded_tail (c : Char) (tn : Str × Nat) (rest : List (Str × Nat)) (h : c ∈ padded rest) :
    c ∈ padded (tn :: rest) := by
  obtain ⟨t, n⟩ := tn
  cases rest with
  | nil => simp [padded] at h
  | cons r rest' => simp [padded, h]

theorem noquote_bare (vals : List Str) (toks : List (Str × Nat)) (h : RowRel vals toks)
    (h1 : q1 ∉ padded toks) (h2 : q2 ∉ padded toks) :
    vals = toks.map (·.1) ∧ ∀ tn ∈ toks, BareTok tn.1 := by
  induction h with
  | nil => simp
  | @cons v tn vs rest htok hrest ih =>
    obtain ⟨t, n⟩ := tn
    have ih' := ih (fun hm => h1 (mem_padded_tail _ _ _ hm)) (fun hm => h2 (mem_padded_tail _ _ _ hm))
    cases htok with
    | bare _ hb =>
      refine ⟨by simp [ih'.1], ?_⟩
      intro x hx
      rcases List.mem_cons.mp hx with e | e
      · simpa [e] using hb
      · exact ih'.2 x e
    | quoted q v hq hv =>
      exfalso
      have hm : q ∈ padded ((quoteWith q v, n) :: rest) := mem_padded_head q _ n rest (by simp [quoteWith])
      rcases hq with rfl | rfl
      · exact h1 hm
      · exact h2 hm

theorem padded_head? (t : Str) (n : Nat) (rest : List (Str × Nat)) (hne : t ≠ []) :
    (padded ((t, n) :: rest)).head? = t.head? := by
  cases t with
  | nil => exact absurd rfl hne
  | cons c w => cases rest <;> simp [padded]

theorem tok_ne_nil (v t : Str) (h : Tok v t) : t ≠ [] := by
  cases h with
  | bare _ hb => exact hb.ne
  | quoted q v _ _ => simp [quoteWith]

/-- The tokeniser inverts a padded row of tokens, provided the line does not start with `;`. -/
theorem splitOneLine_padded (vals : List Str) (toks : List (Str × Nat)) (h : RowRel vals toks)
    (hne : toks ≠ []) (hsemi : (padded toks).head? ≠ some ';') :
    splitOneLine (padded toks) = .ok vals := by
  have hQ := Q_padded vals toks h hne
  cases hl : padded toks with
  | nil =>
    exfalso
    cases h with
    | nil => exact hne rfl
    | @cons v tn vs rest htok hrest =>
      obtain ⟨t, n⟩ := tn
      have := tok_ne_nil _ _ htok
      cases t with
      | nil => exact this rfl
      | cons c w => cases rest <;> simp [padded] at hl
  | cons c cs =>
    have hc : (c == ';') = false := by
      rw [hl] at hsemi
      simpa using hsemi
    simp only [splitOneLine, hc, Bool.false_eq_true, if_false]
    by_cases hq : (has q1 (c :: cs) || has q2 (c :: cs)) = true
    · simp only [hq, if_true]
      have := hQ 0 ((c :: cs).length + 1) (by rw [hl]; simp)
      rw [hl] at this
      simpa using this
    · simp only [hq, Bool.false_eq_true, if_false]
      have hq' : has q1 (c :: cs) = false ∧ has q2 (c :: cs) = false := by
        simpa using hq
      have := noquote_bare vals toks h (by rw [hl]; exact (has_false_iff _ _).mp hq'.1)
        (by rw [hl]; exact (has_false_iff _ _).mp hq'.2)
      rw [← hl, splitWs_padded toks this.2, this.1]

/-! ## the writer's quoting decision produces tokens -/

/-- None of the reader's line-start tests fires on `t`. -/
structure SafeHead (t : Str) : Prop where
  semi : t.head? ≠ some ';'
  hash : t.head? ≠ some '#'
  under : t.head? ≠ some '_'
  data : sData.isPrefixOf t = false
  loop : sLoop.isPrefixOf t = false

theorem safeHead_quoted (q : Char) (v : Str) (hq : q = q1 ∨ q = q2) : SafeHead (quoteWith q v) := by
  rcases hq with rfl | rfl <;> constructor <;> simp [quoteWith, q1, q2, sData, sLoop, List.isPrefixOf]

theorem singleLine_no_nl (v : Str) (h : SingleLine v) : '\n' ∉ v := fun hm => by
  have := h '\n' hm
  simp [isBreak] at this

theorem escape_tok (v : Str) (hs : SingleLine v) (hb : ¬ BothQuotes v) :
    Tok v (escape v) ∧ SafeHead (escape v) := by
  have hnl : has '\n' v = false := (has_false_iff _ _).mpr (singleLine_no_nl v hs)
  have hbq : (has q1 v && has q2 v) = false := by
    apply Bool.eq_false_iff.mpr
    intro h
    simp only [Bool.and_eq_true, has_iff] at h
    exact hb h
  unfold escape
  simp only [hnl, hbq, Bool.false_eq_true, if_false]
  by_cases h0 : v.isEmpty = true
  · have : v = [] := by simpa using h0
    subst this
    simp only [List.isEmpty_nil, if_true]
    exact ⟨Tok.quoted q1 [] (Or.inl rfl) (by simp), safeHead_quoted q1 [] (Or.inl rfl)⟩
  simp only [h0, Bool.false_eq_true, if_false]
  by_cases h1 : has q1 v = true
  · have h2 : q2 ∉ v := by
      intro hm
      exact hb ⟨(has_iff _ _).mp h1, hm⟩
    simp only [h1, if_true]
    exact ⟨Tok.quoted q2 v (Or.inr rfl) h2, safeHead_quoted q2 v (Or.inr rfl)⟩
  have h1' : q1 ∉ v := by simpa [has_iff] using h1
  simp only [h1, Bool.false_eq_true, if_false]
  have hquote : Tok v (quoteWith q1 v) ∧ SafeHead (quoteWith q1 v) :=
    ⟨Tok.quoted q1 v (Or.inl rfl) h1', safeHead_quoted q1 v (Or.inl rfl)⟩
  by_cases h2 : has q2 v = true
  · simp only [h2, if_true]; exact hquote
  have h2' : q2 ∉ v := by simpa [has_iff] using h2
  simp only [h2, Bool.false_eq_true, if_false]
  by_cases h3 : (v.head? == some '_') = true
  · simp only [h3, if_true]; exact hquote
  simp only [h3, Bool.false_eq_true, if_false]
  by_cases h4 : has ' ' v = true
  · simp only [h4, if_true]; exact hquote
  simp only [h4, Bool.false_eq_true, if_false]
  by_cases h5 : has '\t' v = true
  · simp only [h5, if_true]; exact hquote
  simp only [h5, Bool.false_eq_true, if_false]
  by_cases h5b : v.any isWs = true
  · simp only [h5b, if_true]; exact hquote
  simp only [h5b, Bool.false_eq_true, if_false]
  by_cases h6 : (v.head? == some '#' || v.head? == some ';' || sData.isPrefixOf v || sLoop.isPrefixOf v) = true
  · simp only [h6, if_true]; exact hquote
  simp only [h6, Bool.false_eq_true, if_false]
  have h4' : ' ' ∉ v := by simpa [has_iff] using h4
  have h5' : '\t' ∉ v := by simpa [has_iff] using h5
  simp only [Bool.or_eq_true, not_or, Bool.not_eq_true] at h6
  refine ⟨Tok.bare v ⟨by simpa using h0, ?_, h1', h2'⟩, ⟨?_, ?_, ?_, h6.1.2, h6.2⟩⟩
  · intro c hc
    cases hw : isWs c with
    | false => rfl
    | true =>
      exfalso
      apply h5b
      simp only [List.any_eq_true]
      exact ⟨c, hc, hw⟩
  · simpa using h6.1.1.2
  · simpa using h6.1.1.1
  · simpa using h3

/-! ## `rowLine` (ljust to column widths, strip) is a padded row -/

theorem rstrip_append_spaces (s : Str) (c : Char) (n : Nat) (hc : isWs c = false) :
    rstrip (s ++ c :: List.replicate n ' ') = s ++ [c] := by
  unfold rstrip
  have : (s ++ c :: List.replicate n ' ').reverse = List.replicate n ' ' ++ c :: s.reverse := by
    simp [List.reverse_append]
  rw [this]
  have h2 : (List.replicate n ' ' ++ c :: s.reverse).dropWhile isWs = c :: s.reverse := by
    have := lstrip_spaces n c s.reverse hc
    simpa [lstrip] using this
  rw [h2]; simp

/-- first and last character of a token are not blank -/
structure Edges (t : Str) : Prop where
  first : ∃ c w, t = c :: w ∧ isWs c = false
  last : ∃ w c, t = w ++ [c] ∧ isWs c = false

theorem tok_edges (v t : Str) (h : Tok v t) : Edges t := by
  cases h with
  | bare _ hb =>
    obtain ⟨c, w, hcw, hc, _, _⟩ := bare_head _ hb
    subst hcw
    refine ⟨⟨c, w, rfl, hc⟩, ?_⟩
    refine ⟨(c :: w).dropLast, (c :: w).getLast (by simp), (List.dropLast_concat_getLast _).symm, ?_⟩
    exact hb.nows _ (List.getLast_mem _)
  | quoted q v hq _ =>
    have hqws : isWs q = false := by rcases hq with rfl | rfl <;> decide
    exact ⟨⟨q, v ++ [q], rfl, hqws⟩, ⟨q :: v, q, by simp [quoteWith], hqws⟩⟩

/-- pads: how many blanks beyond the first follow token `t` in a column of width `w` -/
def padsOf : List Nat → List Str → List (Str × Nat)
  | w :: ws, t :: ts => (t, w - t.length - 1) :: padsOf ws ts
  | _, _ => []

theorem padsOf_map_fst (ws : List Nat) (ts : List Str) (h : ws.length = ts.length) :
    (padsOf ws ts).map (·.1) = ts := by
  induction ws generalizing ts with
  | nil => cases ts <;> simp_all [padsOf]
  | cons w ws ih =>
    cases ts with
    | nil => simp at h
    | cons t ts => simp [padsOf, ih ts (by simpa using h)]

/-- the unstripped concatenation is the padded line followed by the last column's blanks -/
theorem flatten_ljust (ws : List Nat) (ts : List Str) (hlen : ws.length = ts.length) (hne : ts ≠ [])
    (hw : ∀ p ∈ ws.zip ts, p.2.length < p.1) :
    ∃ k, (List.zipWith ljust ws ts).flatten = padded (padsOf ws ts) ++ List.replicate (k + 1) ' ' := by
  induction ws generalizing ts with
  | nil => cases ts <;> simp_all
  | cons w ws ih =>
    cases ts with
    | nil => exact absurd rfl hne
    | cons t ts =>
      have hwt : t.length < w := hw (w, t) (by simp)
      cases ts with
      | nil =>
        have : ws = [] := by cases ws <;> simp_all
        subst this
        refine ⟨w - t.length - 1, ?_⟩
        simp only [List.zipWith, List.flatten_cons, List.flatten_nil, List.append_nil, padsOf, padded, ljust]
        congr 2; omega
      | cons t2 ts2 =>
        cases ws with
        | nil => simp at hlen
        | cons w2 ws2 =>
          obtain ⟨k, hk⟩ := ih (t2 :: ts2) (by simpa using hlen) (by simp)
            (fun p hp => hw p (by simp only [List.zip_cons_cons, List.mem_cons] at hp ⊢; exact Or.inr hp))
          refine ⟨k, ?_⟩
          have e1 : List.zipWith ljust (w :: w2 :: ws2) (t :: t2 :: ts2)
              = ljust w t :: List.zipWith ljust (w2 :: ws2) (t2 :: ts2) := rfl
          rw [e1, List.flatten_cons, hk]
          simp only [padsOf, padded, ljust, List.append_assoc]
          congr 2
          congr 1
          omega

theorem rowRel_edges (vals : List Str) (toks : List (Str × Nat)) (h : RowRel vals toks) :
    ∀ tn ∈ toks, Edges tn.1 := by
  induction h with
  | nil => simp
  | cons htok _ ih =>
    intro x hx
    rcases List.mem_cons.mp hx with e | e
    · subst e; exact tok_edges _ _ htok
    · exact ih x e

theorem padded_first (toks : List (Str × Nat)) (hne : toks ≠ []) (h : ∀ tn ∈ toks, Edges tn.1) :
    ∃ c s, padded toks = c :: s ∧ isWs c = false := by
  cases toks with
  | nil => exact absurd rfl hne
  | cons tn rest =>
    obtain ⟨t, n⟩ := tn
    obtain ⟨c, w, hcw, hc⟩ := (h (t, n) (by simp)).first
    simp only at hcw
    subst hcw
    cases rest with
    | nil => exact ⟨c, w, by simp [padded], hc⟩
    | cons r rest' => exact ⟨c, w ++ (List.replicate (n + 1) ' ' ++ padded (r :: rest')), by simp [padded], hc⟩

theorem padded_last (toks : List (Str × Nat)) (hne : toks ≠ []) (h : ∀ tn ∈ toks, Edges tn.1) :
    ∃ s c, padded toks = s ++ [c] ∧ isWs c = false := by
  induction toks with
  | nil => exact absurd rfl hne
  | cons tn rest ih =>
    obtain ⟨t, n⟩ := tn
    cases rest with
    | nil =>
      obtain ⟨w, c, hcw, hc⟩ := (h (t, n) (by simp)).last
      exact ⟨w, c, by simpa [padded] using hcw, hc⟩
    | cons r rest' =>
      obtain ⟨s, c, hs, hc⟩ := ih (by simp) (fun x hx => h x (by simp [hx]))
      exact ⟨t ++ List.replicate (n + 1) ' ' ++ s, c, by simp [padded, hs], hc⟩

theorem strip_padded_spaces (toks : List (Str × Nat)) (hne : toks ≠ []) (h : ∀ tn ∈ toks, Edges tn.1)
    (k : Nat) : strip (padded toks ++ List.replicate k ' ') = padded toks := by
  obtain ⟨c, s, hcs, hc⟩ := padded_first toks hne h
  obtain ⟨s', c', hcs', hc'⟩ := padded_last toks hne h
  unfold strip
  have : lstrip (padded toks ++ List.replicate k ' ') = padded toks ++ List.replicate k ' ' := by
    rw [hcs]; exact lstrip_cons_of_not_ws c _ hc
  rw [this, hcs']
  have := rstrip_append_spaces s' c' k hc'
  simpa using this

theorem strip_padded (toks : List (Str × Nat)) (hne : toks ≠ []) (h : ∀ tn ∈ toks, Edges tn.1) :
    strip (padded toks) = padded toks := by
  simpa using strip_padded_spaces toks hne h 0

theorem padsOf_ne_nil (ws : List Nat) (ts : List Str) (hlen : ws.length = ts.length) (hne : ts ≠ []) :
    padsOf ws ts ≠ [] := by
  cases ws <;> cases ts <;> simp_all [padsOf]

theorem rowLine_padded (vals : List Str) (ws : List Nat) (ts : List Str) (hlen : ws.length = ts.length)
    (hrel : RowRel vals (padsOf ws ts)) (hne : ts ≠ [])
    (hw : ∀ p ∈ ws.zip ts, p.2.length < p.1) :
    rowLine ws ts = padded (padsOf ws ts) := by
  obtain ⟨k, hk⟩ := flatten_ljust ws ts hlen hne hw
  unfold rowLine
  rw [hk]
  exact strip_padded_spaces _ (padsOf_ne_nil ws ts hlen hne) (rowRel_edges _ _ hrel) (k + 1)

end BiotiteModel.C06

import BiotiteModel.Proofs.C18Sdf
/-! # C18 — helper lemmas for the CTAB write → read round trip -/
namespace BiotiteModel.C18

/-! ## `float(f"{x:.4f}")` -/

theorem takeWhile_append_stop (p : Char → Bool) (l r : Line) (c : Char) (hl : ∀ x ∈ l, p x = true)
    (hc : p c = false) : (l ++ c :: r).takeWhile p = l ∧ (l ++ c :: r).dropWhile p = c :: r := by
  induction l with
  | nil => simp [List.takeWhile_cons, List.dropWhile_cons, hc]
  | cons x l ih =>
    have hx := hl x (by simp)
    have := ih (fun y hy => hl y (by simp [hy]))
    simp [List.takeWhile_cons, List.dropWhile_cons, hx, this]

theorem isDig_ne_dot (c : Char) (h : isDig c = true) : (c != '.') = true := by
  cases hc : (c != '.') with
  | true => rfl
  | false =>
    have : c = '.' := by simpa using hc
    subst this
    exact absurd h (by decide)

theorem unsignedDec_fmt (neg : Bool) (k : Nat) :
    unsignedDec neg (natRepr (k / 10000) ++ '.' :: fixedDigits 4 (k % 10000)) = some ⟨neg, k, 4⟩ := by
  unfold unsignedDec
  obtain ⟨h1, h2⟩ := takeWhile_append_stop (· != '.') (natRepr (k / 10000)) (fixedDigits 4 (k % 10000)) '.'
    (fun x hx => isDig_ne_dot x (natRepr_isDig _ x hx)) (by decide)
  simp only [h1, h2]
  have he : (natRepr (k / 10000)).isEmpty = false := by
    cases h : natRepr (k / 10000) with
    | nil => exact absurd h (natRepr_ne_nil _)
    | cons _ _ => rfl
  have ha : digitsVal0 (natRepr (k / 10000)) = some (k / 10000) := digitsAcc_natRepr _
  have hb : digitsVal0 (fixedDigits 4 (k % 10000)) = some (k % 10000) := by
    unfold digitsVal0
    rw [digitsAcc_fixed]
    congr 1
    have : k % 10000 % 10 ^ 4 = k % 10000 := Nat.mod_eq_of_lt (by have := Nat.mod_lt k (show 10000 > 0 by omega); omega)
    omega
  simp only [he, Bool.false_and, Bool.false_eq_true, if_false, ha, hb, fixedDigits_length]
  congr 2
  have := Nat.div_add_mod k 10000
  omega

theorem fmt4_noSp (q : Q) : NoSp (fmt4 q) := by
  unfold fmt4
  refine NoSp.append (NoSp.append ?_ (natRepr_noSp _)) (noSp_cons (by decide) (noSp_of_isDig (fixedDigits_isDig _ _)))
  split
  · exact noSp_single (by decide)
  · intro c hc; simp at hc

theorem signedDec_fmt4 (q : Q) : signedDec (fmt4 q) = some q.dec := by
  unfold fmt4 Q.dec
  cases hq : q.neg with
  | true =>
    simp only [if_true, List.cons_append, List.nil_append, signedDec]
    exact unsignedDec_fmt true q.k4
  | false =>
    simp only [Bool.false_eq_true, if_false, List.nil_append]
    obtain ⟨c, cs, hc, hd⟩ := natRepr_head (q.k4 / 10000)
    have key := unsignedDec_fmt false q.k4
    rw [hc] at key ⊢
    unfold signedDec
    split
    · rename_i r heq
      simp only [List.cons_append, List.cons.injEq] at heq
      obtain ⟨rfl, _⟩ := heq
      exact absurd hd (by decide)
    · rename_i r heq
      simp only [List.cons_append, List.cons.injEq] at heq
      obtain ⟨rfl, _⟩ := heq
      exact absurd hd (by decide)
    · exact key

theorem pyFloat_fmt4 (w : Nat) (q : Q) : pyFloat (padL w (fmt4 q)) = some q.dec := by
  unfold pyFloat
  rw [strip_padL w _ (fmt4_noSp q).tightL (fmt4_noSp q).tightR]
  exact signedDec_fmt4 q

theorem pyFloat_fmt4_tight (q : Q) : pyFloat (fmt4 q) = some q.dec := by
  have := pyFloat_fmt4 0 q
  simpa [padL] using this

/-! ## elements -/

/-- Element symbols as biotite stores them: 1–2 characters, upper case (so that
`capitalize` followed by `upper` gives the symbol back), letters and digits only. -/
def ElemOk (e : Line) : Prop :=
  e ≠ [] ∧ e.length ≤ 2 ∧ upper (capitalize e) = e ∧ (capitalize e).all isAlnumC = true

instance (e : Line) : Decidable (ElemOk e) := by unfold ElemOk; infer_instance

theorem alnum_not_sp (c : Char) (h : isAlnumC c = true) : isSp c = false := by
  cases hc : isSp c with
  | false => rfl
  | true =>
    have : c = ' ' := by simpa [isSp] using hc
    subst this
    exact absurd h (by decide)

theorem ElemOk.noSp {e : Line} (h : ElemOk e) : NoSp (capitalize e) :=
  fun c hc => alnum_not_sp c (List.all_eq_true.mp h.2.2.2 c hc)

theorem elem_read (e : Line) (h : ElemOk e) : storeElem (upper (strip (padR 3 (capitalize e)))) = e := by
  rw [strip_padR 3 _ h.noSp.tightL h.noSp.tightR, h.2.2.1]
  unfold storeElem
  exact List.take_of_length_le h.2.1

/-! ## one V2000 atom line -/

theorem slice_of_eq (whole p x r : Line) (a b : Nat) (h : whole = p ++ (x ++ r)) (ha : p.length = a)
    (hb : a + x.length = b) : slice a b whole = x := by
  rw [h]; exact slice_at p x r a b ha hb

theorem readAtomV2000_write (a : Atom) (blk : Bool) (hx : CoordOk a.x) (hy : CoordOk a.y) (hz : CoordOk a.z)
    (he : ElemOk a.elem) :
    readAtomV2000 blk (atomLineV2000 a)
      = .ok ⟨a.x.dec, a.y.dec, a.z.dec, a.elem, if blk then (chargeOfCode (codeOfCharge a.charge)).getD 0 else 0⟩ := by
  have h1 := padL_length_of_le 10 _ (fmt4_length_le a.x hx)
  have h2 := padL_length_of_le 10 _ (fmt4_length_le a.y hy)
  have h3 := padL_length_of_le 10 _ (fmt4_length_le a.z hz)
  have h4 := padR_length_of_le 3 (capitalize a.elem) (by rw [capitalize_length]; have := he.2.1; omega)
  have h5 := pad3_nat_length (codeOfCharge a.charge) (by have := codeOfCharge_lt a.charge; omega)
  have h6 : (padL 2 ['0']).length = 2 := by decide
  let X := padL 10 (fmt4 a.x)
  let Y := padL 10 (fmt4 a.y)
  let Z := padL 10 (fmt4 a.z)
  let E := padR 3 (capitalize a.elem)
  let M := padL 2 ['0']
  let G := padL 3 (natRepr (codeOfCharge a.charge))
  let R := (List.replicate 10 (padL 3 ['0'])).flatten
  have sx : slice 0 10 (atomLineV2000 a) = X :=
    slice_of_eq _ [] X (Y ++ Z ++ ' ' :: E ++ M ++ G ++ R) 0 10 (by simp [atomLineV2000, X, Y, Z, E, M, G, R, List.append_assoc]) rfl (by simp [X, h1])
  have sy : slice 10 20 (atomLineV2000 a) = Y :=
    slice_of_eq _ X Y (Z ++ ' ' :: E ++ M ++ G ++ R) 10 20 (by simp [atomLineV2000, X, Y, Z, E, M, G, R, List.append_assoc]) h1 (by simp [Y, h2])
  have sz : slice 20 30 (atomLineV2000 a) = Z :=
    slice_of_eq _ (X ++ Y) Z (' ' :: E ++ M ++ G ++ R) 20 30 (by simp [atomLineV2000, X, Y, Z, E, M, G, R, List.append_assoc])
      (by simp [X, Y, h1, h2]) (by simp [Z, h3])
  have se : slice 31 34 (atomLineV2000 a) = E :=
    slice_of_eq _ (X ++ Y ++ Z ++ [' ']) E (M ++ G ++ R) 31 34 (by simp [atomLineV2000, X, Y, Z, E, M, G, R, List.append_assoc])
      (by simp [X, Y, Z, h1, h2, h3]) (by simp [E, h4])
  have sg : slice 36 39 (atomLineV2000 a) = G :=
    slice_of_eq _ (X ++ Y ++ Z ++ [' '] ++ E ++ M) G R 36 39 (by simp [atomLineV2000, X, Y, Z, E, M, G, R, List.append_assoc])
      (by simp [X, Y, Z, E, M, h1, h2, h3, h4, h6]) (by simp [G, h5])
  unfold readAtomV2000
  rw [sx, sy, sz, se, sg]
  simp only [X, Y, Z, E, G, pyFloatE, pyFloat_fmt4, pyIntE, pyInt_natRepr, elem_read a.elem he, bind, Except.bind, pure, Except.pure]
  cases blk <;> simp

/-! ## one V2000 bond line -/

theorem readBondV2000_write (dc : Nat) (b : Nat × Nat × Nat) (hi : b.1 < 999) (hj : b.2.1 < 999) (hd : dc < 1000) :
    readBondV2000 (bondLineV2000 dc b)
      = .ok (((b.1 + 1 : Nat) : Int), ((b.2.1 + 1 : Nat) : Int), (bondOfCode (((codeOfBond b.2.2).getD dc : Nat) : Int)).getD 0) := by
  obtain ⟨r1, r2⟩ := bond_read dc b hi hj
  have h1 := pad3_nat_length (b.1 + 1) (by omega)
  have h2 := pad3_nat_length (b.2.1 + 1) (by omega)
  have h3 : ((codeOfBond b.2.2).getD dc) < 1000 := by
    unfold codeOfBond; split <;> simp <;> omega
  have h3' := pad3_nat_length _ h3
  have s3 : slice 6 9 (bondLineV2000 dc b) = padL 3 (natRepr ((codeOfBond b.2.2).getD dc)) :=
    slice_of_eq _ (padL 3 (natRepr (b.1 + 1)) ++ padL 3 (natRepr (b.2.1 + 1))) _ (List.replicate 4 (padL 3 ['0'])).flatten 6 9
      (by simp [bondLineV2000, List.append_assoc]) (by simp [h1, h2]) (by simp [h3'])
  unfold readBondV2000
  simp only [pyIntE, s3, r1, r2, pyInt_natRepr, bind, Except.bind, pure, Except.pure]
  have p1 : ¬ ((b.1 : Int) + 1 < 1) := by omega
  have p2 : ¬ ((b.2.1 : Int) + 1 < 1) := by omega
  simp [p1, p2]

/-! ## `M  CHG` lines -/

theorem splitWs_spaces_pre (k : Nat) (s : Line) : splitWs (List.replicate k ' ' ++ s) = splitWs s := by
  induction k with
  | zero => simp
  | succ k ih => rw [List.replicate_succ, List.cons_append, splitWs_sp, ih]

theorem splitWs_tok_then (t : Line) (ht : NoSp t) (hne : t ≠ []) (rest : Line)
    (hr : rest = [] ∨ ∃ r, rest = ' ' :: r) : splitWs (t ++ rest) = t :: splitWs rest := by
  rcases hr with rfl | ⟨r, rfl⟩
  · rw [List.append_nil, splitWs_token t ht hne, splitWs_nil]
  · rw [splitWs_token_sp t ht hne, splitWs_sp]

def pairTokens (p : Nat × Int) : List Line := [natRepr (p.1 + 1), intRepr p.2]

theorem entries_head (b : List (Nat × Int)) :
    (b.map chargeEntry).flatten = [] ∨ ∃ r, (b.map chargeEntry).flatten = ' ' :: r := by
  cases b with
  | nil => left; rfl
  | cons p b =>
    right
    simp only [List.map_cons, List.flatten_cons, chargeEntry, List.cons_append]
    exact ⟨_, rfl⟩

theorem intRepr_ne_nil (i : Int) : intRepr i ≠ [] := by
  unfold intRepr; split
  · simp
  · exact natRepr_ne_nil _

theorem splitWs_entries (b : List (Nat × Int)) :
    splitWs (b.map chargeEntry).flatten = b.flatMap pairTokens := by
  induction b with
  | nil => simp [splitWs_nil]
  | cons p b ih =>
    have e : ((p :: b).map chargeEntry).flatten
        = ' ' :: (List.replicate (3 - (natRepr (p.1 + 1)).length) ' ' ++ (natRepr (p.1 + 1) ++
            ' ' :: (List.replicate (3 - (intRepr p.2).length) ' ' ++ (intRepr p.2 ++ (b.map chargeEntry).flatten)))) := by
      simp [chargeEntry, padL, List.append_assoc]
    rw [e, splitWs_sp, splitWs_spaces_pre, splitWs_token_sp _ (natRepr_noSp _) (natRepr_ne_nil _), splitWs_spaces_pre,
      splitWs_tok_then _ (intRepr_noSp _) (intRepr_ne_nil _) _ (entries_head b), ih]
    simp [pairTokens]

def applyPairs (atoms : List AtomR) : List (Nat × Int) → Except Err (List AtomR)
  | [] => .ok atoms
  | p :: ps => do
    let a ← setCharge atoms (p.1 : Int) p.2
    applyPairs a ps

theorem applyChargeTokens_pairs (b : List (Nat × Int)) (atoms : List AtomR) :
    applyChargeTokens atoms (b.flatMap pairTokens) = applyPairs atoms b := by
  induction b generalizing atoms with
  | nil => rfl
  | cons p b ih =>
    simp only [List.flatMap_cons, pairTokens, List.cons_append, List.nil_append, applyChargeTokens, pyIntE,
      pyInt_natRepr_tight, pyInt_intRepr_tight, bind, Except.bind, applyPairs]
    have : ((p.1 + 1 : Nat) : Int) - 1 = (p.1 : Int) := by omega
    rw [this]
    cases setCharge atoms (p.1 : Int) p.2 with
    | error e => rfl
    | ok a => exact ih a

theorem applyPairs_append (a b : List (Nat × Int)) (atoms : List AtomR) :
    applyPairs atoms (a ++ b) = (applyPairs atoms a).bind fun x => applyPairs x b := by
  induction a generalizing atoms with
  | nil => rfl
  | cons p a ih =>
    simp only [List.cons_append, applyPairs, bind, Except.bind]
    cases setCharge atoms (p.1 : Int) p.2 with
    | error e => rfl
    | ok x => exact ih x

theorem chargeLine_drop9 (b : List (Nat × Int)) (hb : b.length < 1000) :
    (chargeLine b).drop 9 = (b.map chargeEntry).flatten := by
  unfold chargeLine
  have h3 := pad3_nat_length b.length hb
  have : ("M  CHG".toList ++ padL 3 (natRepr b.length)).length = 9 := by simp [h3]
  rw [List.drop_left' this]

theorem applyChargeLines_batches (bs : List (List (Nat × Int))) (hb : ∀ b ∈ bs, b.length < 1000)
    (atoms : List AtomR) : applyChargeLines atoms (bs.map chargeLine) = applyPairs atoms bs.flatten := by
  induction bs generalizing atoms with
  | nil => rfl
  | cons b bs ih =>
    simp only [List.map_cons, applyChargeLines, List.flatten_cons, applyPairs_append,
      chargeLine_drop9 b (hb b (by simp)), splitWs_entries, applyChargeTokens_pairs, bind, Except.bind]
    cases applyPairs atoms b with
    | error e => rfl
    | ok x => exact ih (fun c hc => hb c (by simp [hc])) x

theorem set_at_length (pre : List AtomR) (x y : AtomR) (r : List AtomR) :
    (pre ++ x :: r).set pre.length y = pre ++ y :: r := by
  induction pre with
  | nil => rfl
  | cons p pre ih => simp [ih]

theorem getD_at_length (pre : List AtomR) (x d : AtomR) (r : List AtomR) :
    (pre ++ x :: r).getD pre.length d = x := by
  induction pre with
  | nil => rfl
  | cons p pre ih => simpa using ih

theorem setCharge_at (pre : List AtomR) (x : AtomR) (r : List AtomR) (c : Int) :
    setCharge (pre ++ x :: r) (pre.length : Int) c = .ok (pre ++ ({ x with charge := c } : AtomR) :: r) := by
  unfold setCharge
  have hlen : ((pre ++ x :: r).length : Int) = (pre.length : Int) + r.length + 1 := by simp; omega
  simp only [hlen]
  have h1 : ¬ ((pre.length : Int) < -((pre.length : Int) + r.length + 1) ∨
      (pre.length : Int) + r.length + 1 ≤ pre.length) := by omega
  rw [if_neg h1]
  have h2 : ¬ ((pre.length : Int) < 0) := by omega
  simp only [if_neg h2, Int.toNat_natCast, set_at_length, getD_at_length]

def zeroed (as : List AtomR) : List AtomR := as.map fun a => { a with charge := 0 }

theorem applyPairs_chargePairs (as pre : List AtomR) :
    applyPairs (pre ++ zeroed as) (chargePairs pre.length (as.map (·.charge))) = .ok (pre ++ as) := by
  induction as generalizing pre with
  | nil => simp [zeroed, chargePairs, applyPairs]
  | cons a as ih =>
    have hlen : (pre ++ [a]).length = pre.length + 1 := by simp
    have hih := ih (pre ++ [a])
    rw [hlen] at hih
    simp only [List.map_cons, chargePairs]
    split
    · rename_i hc
      have : ({ a with charge := 0 } : AtomR) = a := by
        cases a; simp only at hc; subst hc; rfl
      simp only [zeroed, List.map_cons, this]
      simpa [zeroed] using hih
    · simp only [applyPairs, zeroed, List.map_cons, bind, Except.bind, setCharge_at]
      have : ({ ({ a with charge := 0 } : AtomR) with charge := a.charge } : AtomR) = a := by cases a; rfl
      rw [this]
      simpa [zeroed] using hih

theorem chargePairs_nil (i : Nat) (cs : List Int) (h : chargePairs i cs = []) : ∀ c ∈ cs, c = 0 := by
  induction cs generalizing i with
  | nil => simp
  | cons c cs ih =>
    simp only [chargePairs] at h
    split at h
    · rename_i hc
      intro x hx
      rcases List.mem_cons.mp hx with rfl | hx
      · exact hc
      · exact ih (i + 1) h x hx
    · cases h

/-! ## `mapM` in `Except` -/

theorem mapM_ok {α β : Type} (f : α → Except Err β) (g : α → β) (l : List α) (h : ∀ x ∈ l, f x = .ok (g x)) :
    l.mapM f = .ok (l.map g) := by
  induction l with
  | nil => rfl
  | cons x l ih =>
    simp [List.mapM_cons, h x (by simp), ih (fun y hy => h y (by simp [hy])), bind, Except.bind, pure, Except.pure]

theorem hasDup_of_nodup {α : Type} [DecidableEq α] (l : List α) (h : l.Nodup) : hasDup l = false := by
  induction l with
  | nil => rfl
  | cons x l ih =>
    rw [List.nodup_cons] at h
    simp [hasDup, h.1, ih h.2]

theorem mapM_map_ok {α γ β : Type} (f : α → γ) (g : γ → Except Err β) (r : α → β) (l : List α)
    (h : ∀ x ∈ l, g (f x) = .ok (r x)) : (l.map f).mapM g = .ok (l.map r) := by
  induction l with
  | nil => rfl
  | cons x l ih =>
    simp [List.mapM_cons, h x (by simp), ih (fun y hy => h y (by simp [hy])), bind, Except.bind, pure, Except.pure]

/-! ## the whole V2000 table -/

/-- Well-formed molecule: what an `AtomArray` with a `BondList` and the documented conventions
guarantees (see `FitsV2000`, `ElemOk`), bonds normalised as `BondList` keeps them (`i < j < n`,
no atom pair twice). -/
def WFMol (m : Mol) : Prop :=
  (∀ a ∈ m.atoms, CoordOk a.x ∧ CoordOk a.y ∧ CoordOk a.z ∧ ElemOk a.elem) ∧
  (∀ b ∈ m.bonds, b.1 < b.2.1 ∧ b.2.1 < m.atoms.length) ∧
  (m.bonds.map fun b => (b.1, b.2.1)).Nodup

theorem mkBondList_write (m : Mol) (hw : WFMol m) (t : Nat × Nat × Nat → Nat) :
    mkBondList m.atoms.length (m.bonds.map fun b => (((b.1 + 1 : Nat) : Int), ((b.2.1 + 1 : Nat) : Int), t b))
      = .ok (m.bonds.map fun b => (b.1, b.2.1, t b)) := by
  unfold mkBondList
  have hany : ((m.bonds.map fun b => (((b.1 + 1 : Nat) : Int), ((b.2.1 + 1 : Nat) : Int), t b)).any
      fun b => decide (b.1 > (m.atoms.length : Int) ∨ b.2.1 > (m.atoms.length : Int))) = false := by
    rw [List.any_eq_false]
    intro x hx
    obtain ⟨b, hb, rfl⟩ := List.mem_map.mp hx
    have := hw.2.1 b hb
    simp only [decide_eq_true_eq]
    omega
  have hout : ((m.bonds.map fun b => (((b.1 + 1 : Nat) : Int), ((b.2.1 + 1 : Nat) : Int), t b)).map fun b =>
      (min (b.1 - 1).toNat (b.2.1 - 1).toNat, max (b.1 - 1).toNat (b.2.1 - 1).toNat, b.2.2))
      = m.bonds.map fun b => (b.1, b.2.1, t b) := by
    rw [List.map_map]
    apply List.map_congr_left
    intro b hb
    have := hw.2.1 b hb
    have e1 : (((b.1 + 1 : Nat) : Int) - 1).toNat = b.1 := by omega
    have e2 : (((b.2.1 + 1 : Nat) : Int) - 1).toNat = b.2.1 := by omega
    simp only [Function.comp, e1, e2]
    rw [Nat.min_eq_left (by omega), Nat.max_eq_right (by omega)]
  simp only [hany, Bool.false_eq_true, if_false, hout]
  have : ((m.bonds.map fun b => (b.1, b.2.1, t b)).map fun b => (b.1, b.2.1)) = m.bonds.map fun b => (b.1, b.2.1) := by
    rw [List.map_map]; rfl
  rw [this, hasDup_of_nodup _ hw.2.2]
  simp

theorem chargeLine_startsWith (b : List (Nat × Int)) : startsWith "M  CHG".toList (chargeLine b) = true := by
  simp [startsWith, chargeLine]

theorem filter_chargeLines (m : Mol) :
    (chargeLines m ++ [mEnd]).filter (startsWith "M  CHG".toList) = chargeLines m := by
  rw [List.filter_append]
  have h1 : (chargeLines m).filter (startsWith "M  CHG".toList) = chargeLines m := by
    apply List.filter_eq_self.mpr
    intro l hl
    obtain ⟨b, _, rfl⟩ := List.mem_map.mp hl
    exact chargeLine_startsWith b
  have h2 : [mEnd].filter (startsWith "M  CHG".toList) = [] := by decide
  rw [h1, h2, List.append_nil]

theorem batched_nil_iff {α : Type} (n : Nat) (hn : 0 < n) (xs : List α) : batched n xs = [] ↔ xs = [] := by
  constructor
  · intro h
    have := (batchedF_spec n hn xs.length xs (Nat.le_refl _)).1
    unfold batched at h
    rw [h] at this
    simpa using this.symm
  · intro h; subst h; rfl

/-- atoms and charges of a V2000 table: block charges when there is no `M  CHG` line, otherwise
zeros overwritten by the `M  CHG` entries. -/
theorem atoms_charges_v2000 (m : Mol) (hw : WFMol m) :
    ((m.atoms.map atomLineV2000).mapM (readAtomV2000 (chargeLines m).isEmpty)).bind
        (fun atoms => applyChargeLines atoms (chargeLines m))
      = .ok (m.atoms.map Atom.rt) := by
  have hread : ∀ blk, (m.atoms.map atomLineV2000).mapM (readAtomV2000 blk)
      = .ok (m.atoms.map fun a => ⟨a.x.dec, a.y.dec, a.z.dec, a.elem,
          if blk then (chargeOfCode (codeOfCharge a.charge)).getD 0 else 0⟩) := by
    intro blk
    apply mapM_map_ok
    intro a ha
    obtain ⟨hx, hy, hz, he⟩ := hw.1 a ha
    exact readAtomV2000_write a blk hx hy hz he
  rw [hread]
  simp only [Except.bind]
  cases hC : (chargeLines m).isEmpty with
  | true =>
    have hnil : chargeLines m = [] := by simpa using hC
    have hpairs : chargePairs 0 (m.atoms.map (·.charge)) = [] := by
      have : batched nChargesPerLine (chargePairs 0 (m.atoms.map (·.charge))) = [] := by
        simpa [chargeLines] using hnil
      exact (batched_nil_iff _ (by decide) _).mp this
    have hz := chargePairs_nil 0 _ hpairs
    rw [hnil]
    simp only [applyChargeLines, if_true]
    congr 1
    apply List.map_congr_left
    intro a ha
    have : a.charge = 0 := hz a.charge (List.mem_map.mpr ⟨a, ha, rfl⟩)
    simp [Atom.rt, this, codeOfCharge, chargeOfCode]
  | false =>
    simp only [Bool.false_eq_true, if_false]
    have hb : ∀ b ∈ batched nChargesPerLine (chargePairs 0 (m.atoms.map (·.charge))), b.length < 1000 := by
      intro b hb
      have := ((batchedF_spec nChargesPerLine (by decide) _ _ (Nat.le_refl _)).2 b hb).2
      simp [nChargesPerLine] at this; omega
    have hfl := (batchedF_spec nChargesPerLine (by decide) _ (chargePairs 0 (m.atoms.map (·.charge))) (Nat.le_refl _)).1
    unfold chargeLines
    rw [applyChargeLines_batches _ hb]
    unfold batched
    rw [hfl]
    have hz : (m.atoms.map fun a => (⟨a.x.dec, a.y.dec, a.z.dec, a.elem, 0⟩ : AtomR)) = zeroed (m.atoms.map Atom.rt) := by
      simp [zeroed, Atom.rt, List.map_map, Function.comp_def]
    have hc : m.atoms.map (·.charge) = (m.atoms.map Atom.rt).map (·.charge) := by
      simp [Atom.rt, List.map_map, Function.comp_def]
    rw [hz, hc]
    have := applyPairs_chargePairs (m.atoms.map Atom.rt) []
    simpa using this

theorem codeOfBond_lt {d dc : Nat} (h : codeOfBond d = some dc) : dc < 1000 := by
  revert h; unfold codeOfBond; split <;> intro h <;> cases h <;> omega

theorem readV2000_write (m : Mol) (dc : Nat) (hdc : dc < 1000) (hw : WFMol m)
    (hn : m.atoms.length < 1000) (hm : m.bonds.length < 1000) :
    readV2000 (countsLineV2000 m.atoms.length m.bonds.length ::
        (m.atoms.map atomLineV2000 ++ (m.bonds.map (bondLineV2000 dc) ++ (chargeLines m ++ [mEnd]))))
      = .ok (m.rt dc) := by
  obtain ⟨hr1, hr2, _⟩ := counts_read m.atoms.length m.bonds.length hn hm
  have hA : (m.atoms.map atomLineV2000 ++ (m.bonds.map (bondLineV2000 dc) ++ (chargeLines m ++ [mEnd]))).take m.atoms.length
      = m.atoms.map atomLineV2000 := List.take_left' (by simp)
  have hD : (m.atoms.map atomLineV2000 ++ (m.bonds.map (bondLineV2000 dc) ++ (chargeLines m ++ [mEnd]))).drop m.atoms.length
      = m.bonds.map (bondLineV2000 dc) ++ (chargeLines m ++ [mEnd]) := List.drop_left' (by simp)
  have hB : (m.bonds.map (bondLineV2000 dc) ++ (chargeLines m ++ [mEnd])).take m.bonds.length
      = m.bonds.map (bondLineV2000 dc) := List.take_left' (by simp)
  have hC : (m.atoms.map atomLineV2000 ++ (m.bonds.map (bondLineV2000 dc) ++ (chargeLines m ++ [mEnd]))).drop
      (m.atoms.length + m.bonds.length) = chargeLines m ++ [mEnd] := by
    rw [← List.drop_drop, hD]
    exact List.drop_left' (by simp)
  have hlen : ¬ ((m.atoms.map atomLineV2000 ++ (m.bonds.map (bondLineV2000 dc) ++ (chargeLines m ++ [mEnd]))).length
      < m.atoms.length + m.bonds.length) := by simp
  have hbonds : (m.bonds.map (bondLineV2000 dc)).mapM readBondV2000
      = .ok (m.bonds.map fun b => (((b.1 + 1 : Nat) : Int), ((b.2.1 + 1 : Nat) : Int),
          (bondOfCode (((codeOfBond b.2.2).getD dc : Nat) : Int)).getD 0)) := by
    apply mapM_map_ok
    intro b hb
    have := hw.2.1 b hb
    exact readBondV2000_write dc b (by omega) (by omega) hdc
  have hmk := mkBondList_write m hw (fun b => (bondOfCode (((codeOfBond b.2.2).getD dc : Nat) : Int)).getD 0)
  have hat := atoms_charges_v2000 m hw
  unfold readV2000
  simp only [pyIntE, hr1, hr2, bind, Except.bind]
  have hneg : ¬ ((m.atoms.length : Int) < 0 ∨ (m.bonds.length : Int) < 0) := by omega
  simp only [hneg, if_false, Int.toNat_natCast, hlen, hA, hD, hB, hC, filter_chargeLines]
  cases h1 : (m.atoms.map atomLineV2000).mapM (readAtomV2000 (chargeLines m).isEmpty) with
  | error e => rw [h1] at hat; simp [Except.bind] at hat
  | ok atoms =>
    rw [h1] at hat
    simp only [Except.bind] at hat
    simp only [hat, hbonds, hmk, pure, Except.pure]
    rfl

/-! ## V3000 -/

/-- no quote characters (the reader switches to `shlex` otherwise) -/
def NoQ (s : Line) : Prop := ∀ c ∈ s, (c == '\'') = false ∧ (c == '"') = false

theorem NoQ.append {a b : Line} (ha : NoQ a) (hb : NoQ b) : NoQ (a ++ b) := by
  intro c hc
  rcases List.mem_append.mp hc with h | h
  · exact ha c h
  · exact hb c h

theorem NoQ.cons {c : Char} {s : Line} (hc : (c == '\'') = false ∧ (c == '"') = false) (hs : NoQ s) : NoQ (c :: s) := by
  intro d hd
  rcases List.mem_cons.mp hd with rfl | hd
  · exact hc
  · exact hs d hd

theorem NoQ.nil : NoQ [] := fun _ h => by simp at h

theorem noQ_of_isDig {s : Line} (h : ∀ c ∈ s, isDig c = true) : NoQ s := by
  intro c hc
  have hd := h c hc
  constructor
  · cases e : (c == '\'') with
    | false => rfl
    | true => have : c = '\'' := by simpa using e
              subst this; exact absurd hd (by decide)
  · cases e : (c == '"') with
    | false => rfl
    | true => have : c = '"' := by simpa using e
              subst this; exact absurd hd (by decide)

theorem noQ_of_alnum {s : Line} (h : s.all isAlnumC = true) : NoQ s := by
  intro c hc
  have hd := List.all_eq_true.mp h c hc
  constructor
  · cases e : (c == '\'') with
    | false => rfl
    | true => have : c = '\'' := by simpa using e
              subst this; exact absurd hd (by decide)
  · cases e : (c == '"') with
    | false => rfl
    | true => have : c = '"' := by simpa using e
              subst this; exact absurd hd (by decide)

theorem natRepr_noQ (n : Nat) : NoQ (natRepr n) := noQ_of_isDig (natRepr_isDig n)

theorem intRepr_noQ (i : Int) : NoQ (intRepr i) := by
  unfold intRepr; split
  · exact NoQ.cons (by decide) (natRepr_noQ _)
  · exact natRepr_noQ _

theorem fmt4_noQ (q : Q) : NoQ (fmt4 q) := by
  unfold fmt4
  refine NoQ.append (NoQ.append ?_ (natRepr_noQ _)) (NoQ.cons (by decide) (noQ_of_isDig (fixedDigits_isDig _ _)))
  split
  · exact NoQ.cons (by decide) NoQ.nil
  · exact NoQ.nil

theorem contains_false_of_noQ {s : Line} (h : NoQ s) : s.contains '\'' = false ∧ s.contains '"' = false := by
  constructor
  · cases e : s.contains '\'' with
    | false => rfl
    | true =>
      have : '\'' ∈ s := by simpa using e
      exact absurd (h _ this).1 (by decide)
  · cases e : s.contains '"' with
    | false => rfl
    | true =>
      have : '"' ∈ s := by simpa using e
      exact absurd (h _ this).2 (by decide)

/-- tokens of a V3000 atom line -/
def atomToks (i : Nat) (a : Atom) : List Line :=
  [natRepr (i + 1), capitalize a.elem, fmt4 a.x, fmt4 a.y, fmt4 a.z, ['0']]
    ++ (if a.charge = 0 then [] else ["CHG=".toList ++ intRepr a.charge])

theorem quote_elem (e : Line) (h : ElemOk e) : quote (capitalize e) = capitalize e := by
  unfold quote
  have h1 : (capitalize e).contains ' ' = false := by
    cases c : (capitalize e).contains ' ' with
    | false => rfl
    | true =>
      have : ' ' ∈ capitalize e := by simpa using c
      exact absurd (h.noSp _ this) (by decide)
  have h2 : (capitalize e).isEmpty = false := by
    have := h.1
    cases e with
    | nil => exact absurd rfl this
    | cons _ _ => rfl
  rw [h1, h2]
  simp

theorem capitalize_ne_nil (e : Line) (h : e ≠ []) : capitalize e ≠ [] := by
  cases e with
  | nil => exact absurd rfl h
  | cons _ _ => simp [capitalize]

theorem joinSp_cons2 (t u : Line) (ts : List Line) : joinSp (t :: u :: ts) = t ++ ' ' :: joinSp (u :: ts) := rfl

theorem splitWs_joinSp (ts : List Line) (h : ∀ t ∈ ts, NoSp t ∧ t ≠ []) : splitWs (joinSp ts) = ts := by
  induction ts with
  | nil => exact splitWs_nil
  | cons t ts ih =>
    cases ts with
    | nil => exact splitWs_token t (h t (by simp)).1 (h t (by simp)).2
    | cons u ts =>
      rw [joinSp_cons2, splitWs_token_sp t (h t (by simp)).1 (h t (by simp)).2,
        ih (fun x hx => h x (by simp [hx]))]

theorem joinSp_tight (ts : List Line) (hne : ts ≠ []) (h : ∀ t ∈ ts, NoSp t ∧ t ≠ []) :
    TightL (joinSp ts) ∧ TightR (joinSp ts) := by
  induction ts with
  | nil => exact absurd rfl hne
  | cons t ts ih =>
    have ht := h t (by simp)
    cases ts with
    | nil => exact ⟨ht.1.tightL, ht.1.tightR⟩
    | cons u ts =>
      have := ih (by simp) (fun x hx => h x (by simp [hx]))
      rw [joinSp_cons2]
      constructor
      · intro c r hc
        cases t with
        | nil => exact absurd rfl ht.2
        | cons d t' =>
          simp only [List.cons_append, List.cons.injEq] at hc
          obtain ⟨rfl, _⟩ := hc
          exact ht.1 _ (by simp)
      · intro c r hc
        have hr := this.2
        unfold TightR at hr
        rw [List.reverse_append, List.reverse_cons] at hc
        cases hj : (joinSp (u :: ts)).reverse with
        | nil =>
          have : joinSp (u :: ts) = [] := by simpa using hj
          have hu := (h u (by simp)).2
          cases ts with
          | nil => exact absurd this hu
          | cons v ts' =>
            rw [joinSp_cons2] at this
            cases u with
            | nil => exact absurd rfl hu
            | cons _ _ => simp at this
        | cons d r' =>
          rw [hj] at hc
          simp only [List.cons_append, List.cons.injEq] at hc
          obtain ⟨rfl, _⟩ := hc
          exact hr d r' hj

theorem atomLineV3000_eq (i : Nat) (a : Atom) (he : ElemOk a.elem) :
    atomLineV3000 i a = if a.charge = 0 then joinSp (atomToks i a) ++ [' '] else joinSp (atomToks i a) := by
  unfold atomLineV3000 atomToks propV3000
  rw [quote_elem _ he]
  split <;> simp [joinSp, List.append_assoc]

theorem atomToks_ok (i : Nat) (a : Atom) (he : ElemOk a.elem) : ∀ t ∈ atomToks i a, NoSp t ∧ t ≠ [] := by
  intro t ht
  have hfne : ∀ q : Q, fmt4 q ≠ [] := by
    intro q; unfold fmt4
    have := natRepr_ne_nil (q.k4 / 10000)
    cases h : natRepr (q.k4 / 10000) with
    | nil => exact absurd h this
    | cons _ _ => split <;> simp
  simp only [atomToks, List.mem_append, List.mem_cons, List.mem_nil_iff, or_false] at ht
  rcases ht with (rfl | rfl | rfl | rfl | rfl | rfl) | ht
  · exact ⟨natRepr_noSp _, natRepr_ne_nil _⟩
  · exact ⟨he.noSp, capitalize_ne_nil _ he.1⟩
  · exact ⟨fmt4_noSp _, hfne _⟩
  · exact ⟨fmt4_noSp _, hfne _⟩
  · exact ⟨fmt4_noSp _, hfne _⟩
  · exact ⟨noSp_single (by decide), by simp⟩
  · split at ht
    · simp at ht
    · simp only [List.mem_cons, List.mem_nil_iff, or_false] at ht
      subst ht
      refine ⟨?_, by simp⟩
      exact NoSp.append (fun c hc => by
        simp only [String.toList] at hc
        revert c; decide) (intRepr_noSp _)

/-- `line[6:].strip()` of a written atom line is the tokens joined by single blanks. -/
theorem atom_v30_strip (i : Nat) (a : Atom) (he : ElemOk a.elem) :
    strip ((v30 (atomLineV3000 i a)).drop 6) = joinSp (atomToks i a) := by
  have hne : atomToks i a ≠ [] := by simp [atomToks]
  obtain ⟨hl, hr⟩ := joinSp_tight (atomToks i a) hne (atomToks_ok i a he)
  have hd : (v30 (atomLineV3000 i a)).drop 6 = ' ' :: atomLineV3000 i a := by
    unfold v30; rfl
  rw [hd, atomLineV3000_eq i a he]
  split
  · have := strip_pad 1 1 (joinSp (atomToks i a)) hl hr
    simpa using this
  · have := strip_pad 1 0 (joinSp (atomToks i a)) hl hr
    simpa using this

end BiotiteModel.C18

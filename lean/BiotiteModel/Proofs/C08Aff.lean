import BiotiteModel.Model.C08
import BiotiteModel.Proofs.C08
/-! Affine gap penalties: state-machine scores, the three-state recurrence, upper bound and attainment. -/
namespace BiotiteModel.C08

/-! ## Kinds, non-abutting alignments, positional scores with a state -/

def Col.kind : Col → Kind
  | .both _ _ => .m
  | .gapA _ => .ga
  | .gapB _ => .gb

def allowedK : Kind → Col → Bool
  | .ga, .gapB _ => false
  | .gb, .gapA _ => false
  | _, _ => true

/-- no gap column directly follows a gap column of the other kind, given the kind of the previous column -/
def noAbutK : Kind → Aln → Bool
  | _, [] => true
  | k, c :: r => allowedK k c && noAbutK c.kind r

def lastKind : Kind → Aln → Kind
  | k, [] => k
  | _, c :: r => lastKind c.kind r

/-- positional score with state: `cost p k c` = score of column `c` entered at `p` after a column of kind `k` -/
def scorePosK (cost : Nat × Nat → Kind → Col → Int) : Nat × Nat → Kind → Aln → Int
  | _, _, [] => 0
  | p, k, c :: r => cost p k c + scorePosK cost (adv p c) c.kind r

theorem noAbutB_cons (c : Col) (r : Aln) : noAbutB (c :: r) = noAbutK c.kind r := by
  induction r generalizing c with
  | nil => cases c <;> rfl
  | cons c' r' ih =>
    have := ih c'
    cases c <;> cases c' <;> simp_all [noAbutB, noAbutK, allowedK, Col.kind]

theorem noAbutB_eq (aln : Aln) : noAbutB aln = noAbutK .m aln := by
  cases aln with
  | nil => rfl
  | cons c r => rw [noAbutB_cons]; cases c <;> simp [noAbutK, allowedK]

theorem noAbutK_append (k : Kind) (l : Aln) (c : Col) :
    noAbutK k (l ++ [c]) = (noAbutK k l && allowedK (lastKind k l) c) := by
  induction l generalizing k with
  | nil => simp [noAbutK, lastKind]
  | cons x r ih => simp [noAbutK, lastKind, ih, Bool.and_assoc]

theorem lastKind_append (k : Kind) (l : Aln) (c : Col) : lastKind k (l ++ [c]) = c.kind := by
  induction l generalizing k with
  | nil => rfl
  | cons x r ih => simp [lastKind, ih]

theorem scorePosK_append (cost : Nat × Nat → Kind → Col → Int) (p q : Nat × Nat) (k : Kind) (l : Aln) (c : Col)
    (h : walk p l = some q) :
    scorePosK cost p k (l ++ [c]) = scorePosK cost p k l + cost q (lastKind k l) c := by
  induction l generalizing p k with
  | nil => simp [walk] at h; subst h; simp [scorePosK, lastKind]
  | cons x r ih =>
    obtain ⟨_, h2⟩ := walk_cons_some h
    simp only [List.cons_append, scorePosK, lastKind, ih _ _ h2]
    omega

/-- Upper bound, generic with state: an invariant preserved by every allowed step is preserved by every walk. -/
theorem upper_genK (Inv : Nat × Nat → Kind → Int → Prop) (cost : Nat × Nat → Kind → Col → Int)
    (hstep : ∀ p k c s, stepPos p c = some (adv p c) → allowedK k c = true → Inv p k s →
      Inv (adv p c) c.kind (s + cost p k c)) :
    ∀ (aln : Aln) (p q : Nat × Nat) (k : Kind) (s : Int), walk p aln = some q → noAbutK k aln = true →
      Inv p k s → Inv q (lastKind k aln) (s + scorePosK cost p k aln) := by
  intro aln
  induction aln with
  | nil => intro p q k s h _ hi; simp [walk] at h; subst h; simpa [scorePosK, lastKind] using hi
  | cons c r ih =>
    intro p q k s h hn hi
    obtain ⟨h1, h2⟩ := walk_cons_some h
    simp only [noAbutK, Bool.and_eq_true] at hn
    have a1 := hstep p k c s h1 hn.1 hi
    have a2 := ih _ _ _ _ h2 hn.2 a1
    simp only [scorePosK, lastKind]
    rw [← Int.add_assoc]
    exact a2

/-- Attainment, generic with state. `R i j k w`: state `k` of cell `(i, j)` carries the (real) value `w`. -/
theorem attained_genK (R : Nat → Nat → Kind → Int → Prop) (cost : Nat × Nat → Kind → Col → Int)
    (P : Nat × Nat → Prop)
    (hcell : ∀ i j k w, R i j k w → (k = .m ∧ w = 0 ∧ P (i, j)) ∨
      ∃ p k' c w', stepPos p c = some (i, j) ∧ c.kind = k ∧ allowedK k' c = true ∧ R p.1 p.2 k' w' ∧
        w = w' + cost p k' c) :
    ∀ (n i j : Nat) (k : Kind) (w : Int), i + j = n → R i j k w →
      ∃ p0 aln, P p0 ∧ walk p0 aln = some (i, j) ∧ noAbutK .m aln = true ∧ lastKind .m aln = k ∧
        scorePosK cost p0 .m aln = w := by
  intro n
  induction n using Nat.strongRecOn with
  | _ n ih =>
    intro i j k w hn hR
    rcases hcell i j k w hR with ⟨hk, hw, hP⟩ | ⟨p, k', c, w', hs, hk, hal, hR', hw⟩
    · subst hk; subst hw
      exact ⟨(i, j), [], hP, rfl, rfl, rfl, rfl⟩
    · have hq := stepPos_adv hs
      have hlt : p.1 + p.2 < n := by
        obtain ⟨pi, pj⟩ := p
        cases c <;> simp [adv] at hq <;> omega
      obtain ⟨p0, aln, hP, hwk, hna, hlk, hsc⟩ := ih (p.1 + p.2) hlt p.1 p.2 k' w' rfl hR'
      refine ⟨p0, aln ++ [c], hP, ?_, ?_, ?_, ?_⟩
      · rw [walk_append, hwk]; simp [walk, hs]
      · rw [noAbutK_append, hna, hlk, hal]; rfl
      · rw [lastKind_append, hk]
      · rw [scorePosK_append cost p0 p .m aln c hwk, hsc, hlk, hw]

/-! ## The affine costs and the public score as a state machine -/

def costAffK (mode : Mode) (M : Mat) (go ge : Int) (a b : Seq) : Nat × Nat → Kind → Col → Int
  | _, _, .both i j => sub M a b i j
  | (i, _), k, .gapA _ =>
    if mode = .semi ∧ (i = 0 ∨ i = a.length) then 0 else if k = .ga then ge else go
  | (_, j), k, .gapB _ =>
    if mode = .semi ∧ (j = 0 ∨ j = b.length) then 0 else if k = .gb then ge else go

/-- `scorePub … terminal_penalty=True` is the state machine `scoreAffSt`. -/
theorem scorePub_aff_aux (M : Mat) (go ge : Int) (a b : Seq) (aln : Aln) (k : Kind) :
    subSum M a b aln + gapCost go ge Col.hasA (decide (k = .ga)) aln + gapCost go ge Col.hasB (decide (k = .gb)) aln
      = scoreAffSt M go ge a b k aln := by
  induction aln generalizing k with
  | nil => cases k <;> simp [subSum, gapCost, scoreAffSt]
  | cons c r ih =>
    cases c with
    | both i j =>
      have := ih .m
      simp [subSum, gapCost, scoreAffSt, Col.hasA, Col.hasB] at this ⊢; omega
    | gapA j =>
      have := ih .ga
      simp [subSum, gapCost, scoreAffSt, Col.hasA, Col.hasB] at this ⊢; omega
    | gapB i =>
      have := ih .gb
      simp [subSum, gapCost, scoreAffSt, Col.hasA, Col.hasB] at this ⊢; omega

theorem scorePub_aff (M : Mat) (go ge : Int) (a b : Seq) (aln : Aln) :
    scorePub M go ge true a b aln = scoreAffSt M go ge a b .none aln := by
  have := scorePub_aff_aux M go ge a b aln .none
  simpa [scorePub] using this

theorem scoreAffSt_eq_pos (mode : Mode) (hm : mode ≠ .semi) (M : Mat) (go ge : Int) (a b : Seq) (aln : Aln)
    (p : Nat × Nat) (k : Kind) :
    scoreAffSt M go ge a b k aln = scorePosK (costAffK mode M go ge a b) p k aln := by
  induction aln generalizing p k with
  | nil => cases k <;> rfl
  | cons c r ih =>
    obtain ⟨i, j⟩ := p
    cases c <;> simp [scoreAffSt, scorePosK, costAffK, hm, Col.kind, adv, ← ih]

theorem scoreAffSt_none (M : Mat) (go ge : Int) (a b : Seq) (aln : Aln) :
    scoreAffSt M go ge a b .none aln = scoreAffSt M go ge a b .m aln := by
  cases aln with
  | nil => rfl
  | cons c r => cases c <;> simp [scoreAffSt]

end BiotiteModel.C08

import BiotiteModel.Proofs.C06Table
/-!
# C06 — multi-line values through the category reader's line pipeline
-/
namespace BiotiteModel.C06

/-- What `CIFCategory.deserialize` + `_deserialize_looped` do with the text of value lines:
split into lines, drop empty/comment lines, strip, merge `;`-delimited blocks, tokenise. -/
def readTokens (text : Str) : Except Err (List Str) :=
  match mapM' splitOneLine (toSingle none (((splitLines text).filter (fun l => !isEmptyLine l)).map strip)) with
  | .ok ts => .ok ts.flatten
  | .error e => .error e

theorem joinNl_unlines (p l0 : Str) (ls : List Str) :
    p ++ joinNl (l0 :: ls) ++ ['\n'] = unlines ((p ++ l0) :: ls) := by
  induction ls generalizing p l0 with
  | nil => simp [joinNl, unlines]
  | cons l1 ls ih =>
    have := ih [] l1
    simp only [List.nil_append] at this
    rw [unlines_cons, ← this]
    simp [joinNl]

theorem joinNl_cons_head (c : Char) (l0 : Str) (ls : List Str) :
    joinNl ((c :: l0) :: ls) = c :: joinNl (l0 :: ls) := by
  cases ls <;> rfl

theorem multiline_lines (l0 : Str) (ls : List Str) :
    multiline (joinNl (l0 :: ls)) = unlines ([] :: (';' :: l0) :: ls ++ [[';']]) := by
  have h := joinNl_unlines [';'] l0 ls
  have e : unlines ([] :: (';' :: l0) :: ls ++ [[';']]) = '\n' :: (unlines ((';' :: l0) :: ls) ++ [';', '\n']) := by
    simp [unlines]
  have h' : unlines ((';' :: l0) :: ls) = ';' :: joinNl (l0 :: ls) ++ ['\n'] := by
    rw [← show [';'] ++ l0 = ';' :: l0 from rfl, ← h]; rfl
  rw [e, h']
  simp [multiline]

theorem toSingle_block (acc ls : List Str) (h : ∀ l ∈ ls, l.head? ≠ some ';') :
    toSingle (some acc) (ls ++ [[';']]) = [joinNl (acc ++ ls)] := by
  induction ls generalizing acc with
  | nil => simp [toSingle]
  | cons l ls ih =>
    have hl : (l.head? == some ';') = false := by simpa using h l (by simp)
    have := ih (acc ++ [l]) (fun x hx => h x (by simp [hx]))
    simp only [List.cons_append, toSingle, hl, Bool.false_eq_true, if_false, this]
    simp

/-- a later line of a multi-line value that the reader keeps intact -/
structure KeptLine (l : Str) : Prop where
  edges : Edges l
  nohash : l.head? ≠ some '#'
  nosemi : l.head? ≠ some ';'
  nonl : NoBreak l

theorem multiline_tokens (l0 : Str) (ls : List Str)
    (h0nl : NoBreak l0) (h0 : l0 = [] ∨ ∃ s c, l0 = s ++ [c] ∧ isWs c = false)
    (hls : ∀ l ∈ ls, KeptLine l) :
    readTokens (multiline (joinNl (l0 :: ls))) = .ok [joinNl (l0 :: ls)] := by
  have hedge0 : Edges (';' :: l0) := by
    rcases h0 with rfl | ⟨s, c, rfl, hc⟩
    · exact ⟨⟨';', [], rfl, by decide⟩, ⟨[], ';', rfl, by decide⟩⟩
    · exact ⟨⟨';', s ++ [c], rfl, by decide⟩, ⟨';' :: s, c, by simp, hc⟩⟩
  have hstrip0 : strip (';' :: l0) = ';' :: l0 := by simpa using strip_edges_spaces _ hedge0 0
  have hstripl : ∀ l ∈ ls, strip l = l := fun l hl => by simpa using strip_edges_spaces _ (hls l hl).edges 0
  have hstripe : strip [';'] = [';'] := by decide
  let X : List Str := [] :: (';' :: l0) :: ls ++ [[';']]
  have hXnl : ∀ l ∈ X, NoBreak l := by
    intro l hl
    simp only [X, List.cons_append, List.mem_cons, List.mem_append, List.mem_nil_iff, or_false] at hl
    rcases hl with rfl | rfl | hl | rfl
    · intro c hc; simp at hc
    · intro c hc
      rcases List.mem_cons.mp hc with e | e
      · rw [e]; decide
      · exact h0nl c e
    · exact (hls l hl).nonl
    · decide
  have hfilter : (X.filter (fun l => !isEmptyLine l)) = (';' :: l0) :: ls ++ [[';']] := by
    have hkeep : ∀ l ∈ (';' :: l0) :: ls ++ [[';']], (!isEmptyLine l) = true := by
      intro l hl
      simp only [List.cons_append, List.mem_cons, List.mem_append, List.mem_nil_iff, or_false] at hl
      rcases hl with rfl | hl | rfl
      · simp [isEmptyLine, hstrip0]
      · have hk := hls l hl
        obtain ⟨c, w, hcw, _⟩ := hk.edges.first
        have hh := hk.nohash
        simp only [isEmptyLine, hstripl l hl, Bool.not_eq_true', Bool.or_eq_false_iff]
        refine ⟨by simp [hcw], by simpa using hh⟩
      · decide
    have he : isEmptyLine [] = true := by decide
    have : X = [] :: ((';' :: l0) :: ls ++ [[';']]) := rfl
    rw [this, List.filter_cons]
    simp only [he, Bool.not_true, Bool.false_eq_true, if_false]
    exact List.filter_eq_self.mpr hkeep
  have hmapstrip : ((';' :: l0) :: ls ++ [[';']]).map strip = (';' :: l0) :: ls ++ [[';']] := by
    simp only [List.cons_append, List.map_cons, List.map_append, List.map_nil, hstrip0, hstripe]
    congr 2
    conv => rhs; rw [← List.map_id ls]
    exact List.map_congr_left (fun l hl => hstripl l hl)
  have hts : toSingle none ((';' :: l0) :: ls ++ [[';']]) = [';' :: joinNl (l0 :: ls)] := by
    have h1 : ((';' :: l0).head? == some ';') = true := by simp
    simp only [List.cons_append, toSingle, h1, if_true]
    rw [toSingle_block [';' :: l0] ls (fun l hl => (hls l hl).nosemi)]
    simp [joinNl_cons_head]
  unfold readTokens
  rw [multiline_lines, splitLines_unlines X hXnl, hfilter, hmapstrip, hts]
  simp [mapM', splitOneLine, bind, Except.bind]

/-! ## rows that mix multi-line values with ordinary tokens -/

theorem toSingle_block_rest (acc ls rest : List Str) (h : ∀ l ∈ ls, l.head? ≠ some ';') :
    toSingle (some acc) (ls ++ [';'] :: rest) = joinNl (acc ++ ls) :: toSingle none rest := by
  induction ls generalizing acc with
  | nil => simp [toSingle]
  | cons l ls ih =>
    have hl : (l.head? == some ';') = false := by simpa using h l (by simp)
    have := ih (acc ++ [l]) (fun x hx => h x (by simp [hx]))
    simp only [List.cons_append, toSingle, hl, Bool.false_eq_true, if_false, this]
    simp

/-- One stretch of a written row as the category reader sees it after dropping empty lines and
stripping: either one line of ordinary tokens (values `vals` written with `_escape` and padding),
or the `;`-delimited lines of one multi-line value `l0, l1, …`. -/
inductive Seg where
  | toks (vals : List Str) (pads : List Nat)
  | ml (l0 : Str) (ls : List Str)

def Seg.lines : Seg → List Str
  | .toks vals pads => [padded ((vals.map escape).zip pads)]
  | .ml l0 ls => (';' :: l0) :: ls ++ [[';']]

def Seg.vals : Seg → List Str
  | .toks vals _ => vals
  | .ml l0 ls => [joinNl (l0 :: ls)]

/-- hypotheses on one stretch -/
def Seg.Ok : Seg → Prop
  | .toks vals pads => vals ≠ [] ∧ pads.length = vals.length ∧ ∀ v ∈ vals, SingleLine v ∧ ¬ BothQuotes v
  | .ml _ ls => ∀ l ∈ ls, KeptLine l

end BiotiteModel.C06

import BiotiteModel.Model.C12Feat
import BiotiteModel.Proofs.C12Loc
import BiotiteModel.Proofs.C12Gb
import BiotiteModel.Proofs.C12Fasta
/-!
# C12 — GenBank qualifier text, feature table and ORIGIN block: parsing inverts printing
-/
namespace BiotiteModel.C12
set_option linter.unusedSimpArgs false

/-! ## the `re.split` scanner on the shapes the writer produces -/

theorem ft_span (p : Char → Bool) (inner after : Str) (c : Char) (h : ∀ x ∈ inner, p x = true) (hc : p c = false) :
    (inner ++ c :: after).takeWhile p = inner ∧ (inner ++ c :: after).dropWhile p = c :: after := by
  induction inner with
  | nil => simp [hc]
  | cons a t ih =>
    have ha := h a (by simp)
    have := ih (fun x hx => h x (by simp [hx]))
    simp [ha, this.1, this.2]

/-- text without `"` and `=` is never split -/
theorem reSplitF_plain (s : Str) : ∀ (acc : Str) (f : Nat), s.length + 1 ≤ f → '"' ∉ s → '=' ∉ s →
    reSplitF f s acc = [acc.reverse ++ s] := by
  induction s with
  | nil => intro acc f hf _ _; obtain ⟨f', rfl⟩ : ∃ f', f = f' + 1 := ⟨f - 1, by simp at hf; omega⟩; simp [reSplitF]
  | cons c rest ih =>
    intro acc f hf hq he
    obtain ⟨f', rfl⟩ : ∃ f', f = f' + 1 := ⟨f - 1, by simp at hf; omega⟩
    have hc1 : c ≠ '"' := fun e => hq (by simp [e])
    have hr2 : '=' ∉ rest := fun h => he (by simp [h])
    simp only [reSplitF, hc1, false_and, if_false, hr2, and_false]
    rw [ih (c :: acc) f' (by simp at hf ⊢; omega) (fun h => hq (by simp [h])) hr2]
    simp

/-- a prefix without `"` and `/` goes to the text accumulator -/
theorem reSplitF_prefix (t : Str) : ∀ (rest acc : Str) (f : Nat), (t ++ rest).length + 1 ≤ f → '"' ∉ t → '/' ∉ t →
    reSplitF f (t ++ rest) acc = reSplitF (f - t.length) rest (t.reverse ++ acc) := by
  induction t with
  | nil => intro rest acc f _ _ _; simp
  | cons c t ih =>
    intro rest acc f hf hq hs
    obtain ⟨f', rfl⟩ : ∃ f', f = f' + 1 := ⟨f - 1, by simp at hf; omega⟩
    have hc1 : c ≠ '"' := fun e => hq (by simp [e])
    have hc2 : c ≠ '/' := fun e => hs (by simp [e])
    simp only [List.cons_append, reSplitF, hc1, hc2, false_and, if_false]
    rw [ih rest (c :: acc) f' (by simp at hf ⊢; omega) (fun h => hq (by simp [h])) (fun h => hs (by simp [h]))]
    simp only [List.length_cons, List.reverse_cons, List.append_assoc, List.singleton_append]
    congr 1; omega

/-- at `/`: the match `/.*?=` runs to the first `=` -/
theorem reSplitF_slash (inner after acc : Str) (f : Nat) (hi : '=' ∉ inner) :
    reSplitF (f + 1) ('/' :: (inner ++ '=' :: after)) acc =
      acc.reverse :: ('/' :: inner ++ ['=']) :: reSplitF f after [] := by
  have hsp := ft_span (fun x => !decide (x = '=')) inner after '='
    (by intro x hx; simp only [Bool.not_eq_true', decide_eq_false_iff_not]; intro e; exact hi (e ▸ hx)) (by simp)
  have hmem : '=' ∈ inner ++ '=' :: after := by simp
  simp only [reSplitF, hmem, and_true]
  simp [hsp.1, hsp.2]

/-- at `"` with a closing `"`: the match `".*?"` -/
theorem reSplitF_quote (inner after acc : Str) (f : Nat) (hi : '"' ∉ inner) :
    reSplitF (f + 1) ('"' :: (inner ++ '"' :: after)) acc =
      acc.reverse :: ('"' :: inner ++ ['"']) :: reSplitF f after [] := by
  have hsp := ft_span (fun x => !decide (x = '"')) inner after '"'
    (by intro x hx; simp only [Bool.not_eq_true', decide_eq_false_iff_not]; intro e; exact hi (e ▸ hx)) (by simp)
  have hmem : '"' ∈ inner ++ '"' :: after := by simp
  simp only [reSplitF, hmem, and_true, if_true]
  simp [hsp.1, hsp.2]

/-! ## qualifier lines, runs, and the text they form -/

/-- what a qualifier key can be: no whitespace, no `=`, no `"` (a `/` is fine) -/
def QKeyOk (k : Str) : Prop := ∀ c ∈ k, isSpace c = false ∧ c ≠ '=' ∧ c ≠ '"'
/-- what a qualifier value can be: no `"` (the format has no escape for it) -/
def QValOk (v : Str) : Prop := '"' ∉ v
/-- a printed location: non-empty, no blank at either end, none of `/ " =` -/
def LocStrOk (s : Str) : Prop :=
  s ≠ [] ∧ (∀ c, s.head? = some c → isSpace c = false) ∧ (∀ c, s.getLast? = some c → isSpace c = false) ∧
  ∀ c ∈ s, c ≠ '/' ∧ c ≠ '"' ∧ c ≠ '='

/-- one qualifier line: key and (for a valued qualifier) one piece of the value -/
abbrev QL := Str × Option Str
def QLOk (l : QL) : Prop := QKeyOk l.1 ∧ ∀ p, l.2 = some p → '"' ∉ p

def qlText (l : QL) : Str :=
  match l.2 with
  | none => '/' :: l.1
  | some p => '/' :: l.1 ++ '=' :: '"' :: p ++ ['"']

def qlPieces (q : Qual) : List QL :=
  match q.2 with
  | none => [(q.1, none)]
  | some v => (splitC '\n' v []).map (fun p => (q.1, some p))

theorem qualLines_eq (q : Qual) : qualLines q = (qlPieces q).map qlText := by
  obtain ⟨k, v⟩ := q
  cases v with
  | none => rfl
  | some v => simp [qualLines, qlPieces, qlText, List.map_map, Function.comp_def]

def bodyText (ls : List QL) : Str := ls.flatMap (fun l => ' ' :: qlText l)

theorem ft_shift_blank (xs : List Str) :
    ' ' :: xs.flatMap (fun l => l ++ [' ']) = xs.flatMap (fun l => ' ' :: l) ++ [' '] := by
  induction xs with
  | nil => rfl
  | cons x xs ih =>
    simp only [List.flatMap_cons, List.cons_append, List.append_assoc]
    rw [← ih]; simp

theorem featValue_eq (loc : Str) (quals : List Qual) :
    featValue loc quals = loc ++ (bodyText (quals.flatMap qlPieces) ++ [' ']) := by
  unfold featValue bodyText
  have h1 : quals.flatMap qualLines = (quals.flatMap qlPieces).map qlText := by
    induction quals with
    | nil => rfl
    | cons q qs ih => simp [List.flatMap_cons, ih, qualLines_eq]
  rw [h1, ft_shift_blank]
  simp [List.flatMap_map]

structure QRun where
  ns : List Str
  k : Str
  p : Str

/-- split a list of qualifier lines into runs (value-less lines followed by one valued line) and
the trailing value-less lines -/
def runsR : List QL → List QRun × List Str
  | [] => ([], [])
  | (k, none) :: ls =>
    match runsR ls with
    | ([], tr) => ([], k :: tr)
    | (r :: rs, tr) => ({ r with ns := k :: r.ns } :: rs, tr)
  | (k, some p) :: ls => (⟨[], k, p⟩ :: (runsR ls).1, (runsR ls).2)

def tailText (tr : List Str) : Str := tr.flatMap (fun n => ' ' :: '/' :: n)
def runText (r : QRun) : Str := tailText r.ns ++ ' ' :: '/' :: r.k ++ '=' :: '"' :: r.p ++ ['"']

theorem bodyText_runs (ls : List QL) :
    bodyText ls = (runsR ls).1.flatMap runText ++ tailText (runsR ls).2 := by
  induction ls with
  | nil => rfl
  | cons l ls ih =>
    obtain ⟨k, v⟩ := l
    cases v with
    | some p =>
      simp only [bodyText, List.flatMap_cons, runsR, runText, tailText, qlText] at ih ⊢
      rw [ih]; simp
    | none =>
      simp only [runsR]
      cases hr : runsR ls with
      | mk rs tr =>
        rw [hr] at ih
        cases rs with
        | nil =>
          simp only [bodyText, List.flatMap_cons, qlText, tailText, List.flatMap_nil, List.nil_append] at ih ⊢
          rw [ih]
        | cons r rs =>
          simp only [bodyText, List.flatMap_cons, qlText, runText, tailText] at ih ⊢
          rw [ih]; simp

/-! ## scanning the runs -/

def innerOf : List Str → Str → Str
  | [], k => k
  | n :: ns, k => n ++ ' ' :: '/' :: innerOf ns k

def QRunOk (r : QRun) : Prop := (∀ n ∈ r.ns, QKeyOk n) ∧ QKeyOk r.k ∧ '"' ∉ r.p

theorem tailText_inner (ns : List Str) (k Y : Str) :
    tailText ns ++ ' ' :: '/' :: (k ++ Y) = ' ' :: '/' :: (innerOf ns k ++ Y) := by
  induction ns with
  | nil => rfl
  | cons n ns ih =>
    simp only [tailText, List.flatMap_cons, innerOf, List.cons_append, List.append_assoc] at ih ⊢
    rw [ih]

theorem innerOf_noeq (ns : List Str) (k : Str) (hns : ∀ n ∈ ns, QKeyOk n) (hk : QKeyOk k) : '=' ∉ innerOf ns k := by
  induction ns with
  | nil => intro h; exact (hk _ h).2.1 rfl
  | cons n ns ih =>
    intro h
    simp only [innerOf, List.mem_append, List.mem_cons] at h
    rcases h with h | h | h | h
    · exact (hns n (by simp) _ h).2.1 rfl
    · revert h; decide
    · revert h; decide
    · exact ih (fun x hx => hns x (by simp [hx])) h

def runM (r : QRun) : Str := '/' :: innerOf r.ns r.k ++ ['=']
def runQ (r : QRun) : Str := '"' :: r.p ++ ['"']

theorem reSplitF_run (r : QRun) (hr : QRunOk r) (R a : Str) (f : Nat) :
    reSplitF (f + 3) (runText r ++ R) a = (a.reverse ++ [' ']) :: runM r :: [] :: runQ r :: reSplitF f R [] := by
  have e : runText r ++ R = ' ' :: ('/' :: (innerOf r.ns r.k ++ '=' :: ('"' :: (r.p ++ '"' :: R)))) := by
    unfold runText
    have := tailText_inner r.ns r.k ('=' :: '"' :: r.p ++ ['"'] ++ R)
    simp only [List.append_assoc, List.cons_append, List.nil_append] at this ⊢
    exact this
  rw [e]
  have s1 : reSplitF (f + 3) (' ' :: ('/' :: (innerOf r.ns r.k ++ '=' :: ('"' :: (r.p ++ '"' :: R))))) a =
      reSplitF (f + 2) ('/' :: (innerOf r.ns r.k ++ '=' :: ('"' :: (r.p ++ '"' :: R)))) (' ' :: a) := by
    have h1 : (' ' : Char) ≠ '"' := by decide
    have h2 : (' ' : Char) ≠ '/' := by decide
    simp only [reSplitF, h1, h2, false_and, if_false]
  rw [s1, reSplitF_slash _ _ _ _ (innerOf_noeq r.ns r.k hr.1 hr.2.1), reSplitF_quote _ _ _ _ hr.2.2]
  simp [runM, runQ]

/-- output of the scanner over a list of runs; `k` continues after the last run -/
def runsOut (a : Str) : List QRun → (Str → List Str) → List Str
  | [], k => k a
  | r :: rs, k => (a.reverse ++ [' ']) :: runM r :: [] :: runQ r :: runsOut [] rs k

theorem reSplitF_runs (rs : List QRun) (hok : ∀ r ∈ rs, QRunOk r) (R : Str) (f : Nat) : ∀ a : Str,
    reSplitF (f + 3 * rs.length) (rs.flatMap runText ++ R) a = runsOut a rs (fun a' => reSplitF f R a') := by
  induction rs with
  | nil => intro a; simp [runsOut]
  | cons r rs ih =>
    intro a
    have hf : f + 3 * (r :: rs).length = (f + 3 * rs.length) + 3 := by simp; omega
    rw [hf, List.flatMap_cons, List.append_assoc, reSplitF_run r (hok r (by simp))]
    rw [ih (fun x hx => hok x (by simp [hx]))]
    rfl

theorem runText_len (r : QRun) : 3 ≤ (runText r).length := by
  simp [runText]; omega

theorem runsText_len (rs : List QRun) : 3 * rs.length ≤ (rs.flatMap runText).length := by
  induction rs with
  | nil => simp
  | cons r rs ih =>
    have := runText_len r
    simp only [List.flatMap_cons, List.length_append, List.length_cons]; omega

/-! ## the parts `get_annotation` works on -/

def ftClean (l : List Str) : List Str := (l.map strip).filter (fun p => !p.isEmpty)

theorem ftClean_cons (x : Str) (xs : List Str) :
    ftClean (x :: xs) = (if (strip x).isEmpty then [] else [strip x]) ++ ftClean xs := by
  unfold ftClean
  by_cases h : (strip x).isEmpty <;> simp [h]

theorem ft_strip_wrap (a b : Char) (mid : Str) (ha : isSpace a = false) (hb : isSpace b = false) :
    strip (a :: (mid ++ [b])) = a :: (mid ++ [b]) := by
  apply gff_strip_of_noEdgeSpace
  · intro c hc; simp at hc; subst hc; exact ha
  · intro c hc
    have : (a :: (mid ++ [b])).getLast? = some b := by
      rw [show a :: (mid ++ [b]) = (a :: mid) ++ [b] by simp, List.getLast?_append]; simp
    rw [this] at hc; injection hc with hc; subst hc; exact hb

theorem ft_strip_blank_cons (y : Str) : strip (' ' :: y) = strip y := by
  simp [strip, lstrip, show isSpace ' ' = true by decide]

theorem strip_runM (r : QRun) : strip (runM r) = runM r := by
  unfold runM; exact ft_strip_wrap '/' '=' _ (by decide) (by decide)

theorem strip_runQ (r : QRun) : strip (runQ r) = runQ r := by
  unfold runQ; exact ft_strip_wrap '"' '"' _ (by decide) (by decide)

def runsParts (rs : List QRun) : List Str := rs.flatMap (fun r => [runM r, runQ r])

theorem ftClean_runsOut_nil (rs : List QRun) (k0 : Str → List Str) :
    ftClean (runsOut [] rs k0) = runsParts rs ++ ftClean (k0 []) := by
  induction rs with
  | nil => simp [runsOut, runsParts]
  | cons r rs ih =>
    simp only [runsOut, ftClean_cons, strip_runM, strip_runQ, ih, runsParts, List.flatMap_cons]
    have h1 : (strip ([].reverse ++ [' '])).isEmpty = true := by decide
    have h2 : (strip ([] : Str)).isEmpty = true := by decide
    have h3 : strip [' '] = [] := by decide
    simp [h1, h2, h3, runM, runQ]

/-- value-less keys as one blank-separated text `/n1 /n2 …` -/
def nText : List Str → Str
  | [] => []
  | [n] => '/' :: n
  | n :: n' :: ns => '/' :: n ++ ' ' :: nText (n' :: ns)

theorem tailText_eq (n : Str) (ns : List Str) : tailText (n :: ns) = ' ' :: nText (n :: ns) := by
  induction ns generalizing n with
  | nil => simp [tailText, nText]
  | cons n' ns ih =>
    have := ih n'
    simp only [tailText, List.flatMap_cons, nText] at this ⊢
    rw [this]; simp

theorem nText_head (n : Str) (ns : List Str) : ∃ t, nText (n :: ns) = '/' :: t := by
  cases ns with
  | nil => exact ⟨n, rfl⟩
  | cons n' ns => exact ⟨_, rfl⟩

theorem nText_last (n : Str) (ns : List Str) (hk : ∀ x ∈ n :: ns, QKeyOk x) :
    ∀ c, (nText (n :: ns)).getLast? = some c → isSpace c = false := by
  induction ns generalizing n with
  | nil =>
    intro c hc
    simp only [nText] at hc
    cases hn : n.getLast? with
    | none =>
      rw [List.getLast?_eq_none_iff] at hn; subst hn
      simp at hc; subst hc; decide
    | some z =>
      have : ('/' :: n).getLast? = some z := by
        rw [List.getLast?_cons]; simp [hn]
      rw [this] at hc; injection hc with hc; subst hc
      exact (hk n (by simp) z (List.mem_of_getLast? hn)).1
  | cons n' ns ih =>
    intro c hc
    have hne : nText (n' :: ns) ≠ [] := by obtain ⟨t, ht⟩ := nText_head n' ns; rw [ht]; simp
    have : (nText (n :: n' :: ns)).getLast? = (nText (n' :: ns)).getLast? := by
      simp only [nText]
      rw [show '/' :: n ++ ' ' :: nText (n' :: ns) = ('/' :: n ++ [' ']) ++ nText (n' :: ns) by simp,
        List.getLast?_append]
      cases h : (nText (n' :: ns)).getLast? with
      | none => exact absurd (List.getLast?_eq_none_iff.mp h) hne
      | some z => simp
    rw [this] at hc
    exact ih n' (fun x hx => hk x (by simp at hx ⊢; rcases hx with h | h <;> simp [h])) c hc

theorem nText_mem (tr : List Str) : ∀ c ∈ nText tr, c = '/' ∨ c = ' ' ∨ ∃ n ∈ tr, c ∈ n := by
  induction tr with
  | nil => intro c hc; simp [nText] at hc
  | cons n ns ih =>
    intro c hc
    cases ns with
    | nil =>
      simp only [nText, List.mem_cons] at hc
      rcases hc with h | h
      · exact Or.inl h
      · exact Or.inr (Or.inr ⟨n, by simp, h⟩)
    | cons n' ns =>
      simp only [nText, List.mem_cons, List.mem_append] at hc
      rcases hc with (h | h) | h | h
      · exact Or.inl h
      · exact Or.inr (Or.inr ⟨n, by simp, h⟩)
      · exact Or.inr (Or.inl h)
      · rcases ih c h with h | h | ⟨m, hm, hc⟩
        · exact Or.inl h
        · exact Or.inr (Or.inl h)
        · exact Or.inr (Or.inr ⟨m, by simp [hm], hc⟩)

theorem nText_chars (tr : List Str) (hk : ∀ x ∈ tr, QKeyOk x) : '"' ∉ nText tr ∧ '=' ∉ nText tr := by
  constructor
  · intro h
    rcases nText_mem tr _ h with h | h | ⟨n, hn, hc⟩
    · revert h; decide
    · revert h; decide
    · exact (hk n hn _ hc).2.2 rfl
  · intro h
    rcases nText_mem tr _ h with h | h | ⟨n, hn, hc⟩
    · revert h; decide
    · revert h; decide
    · exact (hk n hn _ hc).2.1 rfl

theorem tailText_chars (tr : List Str) (hk : ∀ x ∈ tr, QKeyOk x) :
    '"' ∉ tailText tr ++ [' '] ∧ '=' ∉ tailText tr ++ [' '] := by
  cases tr with
  | nil => simp [tailText]
  | cons n ns =>
    rw [tailText_eq]
    have := nText_chars (n :: ns) hk
    simp only [List.cons_append, List.mem_cons, List.mem_append, List.not_mem_nil, or_false, not_or]
    exact ⟨⟨by decide, this.1, by decide⟩, ⟨by decide, this.2, by decide⟩⟩

/-- the scanner on a whole feature value -/
theorem reSplit_value (loc : Str) (hloc : LocStrOk loc) (rs : List QRun) (hrs : ∀ r ∈ rs, QRunOk r)
    (tr : List Str) (htr : ∀ n ∈ tr, QKeyOk n) :
    reSplit (loc ++ (rs.flatMap runText ++ (tailText tr ++ [' ']))) =
      runsOut loc.reverse rs (fun a' => [a'.reverse ++ (tailText tr ++ [' '])]) := by
  obtain ⟨_, _, _, hch⟩ := hloc
  unfold reSplit
  rw [reSplitF_prefix loc _ [] _ (Nat.le_refl _) (fun h => (hch _ h).2.1 rfl) (fun h => (hch _ h).1 rfl)]
  have hlen := runsText_len rs
  have hf : (loc ++ (rs.flatMap runText ++ (tailText tr ++ [' ']))).length + 1 - loc.length =
      ((rs.flatMap runText).length - 3 * rs.length + (tailText tr ++ [' ']).length + 1) + 3 * rs.length := by
    simp only [List.length_append]; omega
  rw [hf, List.append_nil, reSplitF_runs rs hrs]
  congr 1
  funext a'
  have hc := tailText_chars tr htr
  exact reSplitF_plain _ a' _ (by omega) hc.1 hc.2

def trailParts : List Str → List Str
  | [] => []
  | n :: ns => [nText (n :: ns)]

theorem ft_strip_pad1 (n : Str) (h1 : ∀ c, n.head? = some c → isSpace c = false)
    (h2 : ∀ c, n.getLast? = some c → isSpace c = false) (hne : n ≠ []) : strip (n ++ [' ']) = n := by
  have := gb_strip_padded n 1 h1 h2 hne
  simpa using this

theorem ftClean_tail (tr : List Str) (htr : ∀ n ∈ tr, QKeyOk n) :
    ftClean [tailText tr ++ [' ']] = trailParts tr := by
  cases tr with
  | nil => simp [ftClean, tailText, trailParts]; decide
  | cons n ns =>
    obtain ⟨t, ht⟩ := nText_head n ns
    have hs : strip (tailText (n :: ns) ++ [' ']) = nText (n :: ns) := by
      rw [tailText_eq, List.cons_append, ft_strip_blank_cons]
      apply ft_strip_pad1
      · intro c hc; rw [ht] at hc; simp at hc; subst hc; decide
      · exact nText_last n ns htr
      · rw [ht]; simp
    simp [ftClean, hs, trailParts, ht]

theorem featParts_value (loc : Str) (hloc : LocStrOk loc) (rs : List QRun) (hrs : ∀ r ∈ rs, QRunOk r)
    (tr : List Str) (htr : ∀ n ∈ tr, QKeyOk n) :
    featParts (loc ++ (rs.flatMap runText ++ (tailText tr ++ [' ']))) = .ok (loc, runsParts rs ++ trailParts tr) := by
  have hsplit := reSplit_value loc hloc rs hrs tr htr
  obtain ⟨hne, hh, hl, hch⟩ := hloc
  have hsl : strip loc = loc := gff_strip_of_noEdgeSpace loc hh hl
  have hnoslash : '/' ∉ loc := fun h => (hch _ h).1 rfl
  have hlocne : loc.isEmpty = false := by cases loc with | nil => exact absurd rfl hne | cons _ _ => rfl
  have hfp : ∀ val, featParts val = (match ftClean (reSplit val) with
      | [] => .error .indexError
      | p0 :: ps =>
        if '/' ∈ strip p0 then .ok (strip ((strip p0).takeWhile (· ≠ '/')), (strip p0).dropWhile (· ≠ '/') :: ps)
        else .ok (strip p0, ps)) := fun _ => rfl
  rw [hfp, hsplit]
  cases rs with
  | nil =>
    simp only [runsOut, List.reverse_reverse, runsParts, List.flatMap_nil, List.nil_append]
    cases tr with
    | nil =>
      have : ftClean [loc ++ (tailText [] ++ [' '])] = [loc] := by
        simp [ftClean, tailText, ft_strip_pad1 loc hh hl hne, hlocne]
      rw [this]
      simp [hsl, hnoslash, trailParts]
    | cons n ns =>
      obtain ⟨t, ht⟩ := nText_head n ns
      have hL : strip (loc ++ (tailText (n :: ns) ++ [' '])) = loc ++ ' ' :: nText (n :: ns) := by
        rw [tailText_eq]
        have := ft_strip_pad1 (loc ++ ' ' :: nText (n :: ns))
          (by intro c hc; cases loc with
              | nil => exact absurd rfl hne
              | cons a as => exact hh c (by simpa using hc))
          (by intro c hc
              rw [List.getLast?_append] at hc
              have hne2 : (' ' :: nText (n :: ns)).getLast? = (nText (n :: ns)).getLast? := by
                rw [ht]; simp [List.getLast?_cons_cons]
              cases hq : (nText (n :: ns)).getLast? with
              | none => rw [ht] at hq; simp at hq
              | some z =>
                rw [hne2, hq] at hc
                simp at hc; subst hc
                exact nText_last n ns htr z hq)
          (by simp)
        simpa using this
      have hcl : ftClean [loc ++ (tailText (n :: ns) ++ [' '])] = [loc ++ ' ' :: nText (n :: ns)] := by
        simp [ftClean, hL]
      rw [hcl]
      have hidem : strip (loc ++ ' ' :: nText (n :: ns)) = loc ++ ' ' :: nText (n :: ns) := by
        rw [← hL]
        apply gff_strip_of_noEdgeSpace
        · intro c hc; exact gff_strip_head _ c hc
        · intro c hc; exact gff_strip_last _ c hc
      have hmem : '/' ∈ loc ++ ' ' :: nText (n :: ns) := by rw [ht]; simp
      have hsp := ft_span (fun x => !decide (x = '/')) (loc ++ [' ']) t '/'
        (by intro x hx
            simp only [List.mem_append, List.mem_singleton] at hx
            simp only [Bool.not_eq_true', decide_eq_false_iff_not]
            rcases hx with hx | hx
            · intro e; exact hnoslash (e ▸ hx)
            · subst hx; decide)
        (by simp)
      have e2 : loc ++ ' ' :: nText (n :: ns) = (loc ++ [' ']) ++ '/' :: t := by rw [ht]; simp
      simp only [hidem, hmem, if_true]
      rw [e2]
      simp only [ne_eq, decide_not, hsp.1, hsp.2, ft_strip_pad1 loc hh hl hne, trailParts, ht]
  | cons r rs' =>
    simp only [runsOut, List.reverse_reverse]
    have h1 : strip (loc ++ [' ']) = loc := ft_strip_pad1 loc hh hl hne
    have htl := ftClean_tail tr htr
    have hcl : ftClean ((loc ++ [' ']) :: runM r :: [] :: runQ r ::
        runsOut [] rs' (fun a' => [a'.reverse ++ (tailText tr ++ [' '])])) =
        loc :: runM r :: runQ r :: (runsParts rs' ++ trailParts tr) := by
      rw [ftClean_cons, ftClean_cons, ftClean_cons, ftClean_cons, ftClean_runsOut_nil, h1, strip_runM, strip_runQ]
      have : ftClean [[].reverse ++ (tailText tr ++ [' '])] = trailParts tr := by simpa using htl
      rw [this]
      have h2 : (strip ([] : Str)).isEmpty = true := by decide
      simp [hlocne, h2, runM, runQ]
    rw [hcl]
    simp [hsl, hnoslash, runsParts]

/-! ## the qualifier loop -/

theorem wsSplitGo_tok (tok : Str) (htok : ∀ c ∈ tok, isSpace c = false) : ∀ (acc rest : Str),
    (acc ≠ [] ∨ tok ≠ []) → wsSplitGo (tok ++ ' ' :: rest) acc = (acc.reverse ++ tok) :: wsSplitGo rest [] := by
  induction tok with
  | nil =>
    intro acc rest h
    have hacc : acc.isEmpty = false := by
      rcases h with h | h
      · cases acc with | nil => exact absurd rfl h | cons _ _ => rfl
      · exact absurd rfl h
    simp [wsSplitGo, show isSpace ' ' = true by decide, hacc]
  | cons c t ih =>
    intro acc rest _
    have hc := htok c (by simp)
    simp only [List.cons_append, wsSplitGo, hc, Bool.false_eq_true, if_false]
    rw [ih (fun x hx => htok x (by simp [hx])) (c :: acc) rest (Or.inl (by simp))]
    simp

theorem wsSplitGo_last (tok : Str) (htok : ∀ c ∈ tok, isSpace c = false) : ∀ (acc : Str),
    (acc ≠ [] ∨ tok ≠ []) → wsSplitGo tok acc = [acc.reverse ++ tok] := by
  induction tok with
  | nil =>
    intro acc h
    have hacc : acc.isEmpty = false := by
      rcases h with h | h
      · cases acc with | nil => exact absurd rfl h | cons _ _ => rfl
      · exact absurd rfl h
    simp [wsSplitGo, hacc]
  | cons c t ih =>
    intro acc _
    have hc := htok c (by simp)
    simp only [wsSplitGo, hc, Bool.false_eq_true, if_false]
    rw [ih (fun x hx => htok x (by simp [hx])) (c :: acc) (Or.inl (by simp))]
    simp

theorem ft_keytok_nospace (n : Str) (hn : QKeyOk n) : ∀ c ∈ '/' :: n, isSpace c = false := by
  intro c hc
  simp only [List.mem_cons] at hc
  rcases hc with rfl | hc
  · decide
  · exact (hn c hc).1

theorem wsSplit_runM (ns : List Str) (k p : Str) (hns : ∀ n ∈ ns, QKeyOk n) (hk : QKeyOk k) :
    wsSplit (runM ⟨ns, k, p⟩) = ns.map ('/' :: ·) ++ ['/' :: k ++ ['=']] := by
  induction ns with
  | nil =>
    simp only [runM, innerOf, List.map_nil, List.nil_append, wsSplit]
    have := wsSplitGo_last ('/' :: k ++ ['=']) (by
      intro c hc
      simp only [List.cons_append, List.mem_cons, List.mem_append, List.not_mem_nil, or_false] at hc
      rcases hc with rfl | hc | rfl
      · decide
      · exact (hk c hc).1
      · decide) [] (Or.inr (by simp))
    simpa using this
  | cons n ns ih =>
    have e : runM ⟨n :: ns, k, p⟩ = ('/' :: n) ++ ' ' :: runM ⟨ns, k, p⟩ := by simp [runM, innerOf]
    rw [e]
    unfold wsSplit
    rw [wsSplitGo_tok ('/' :: n) (ft_keytok_nospace n (hns n (by simp))) [] _ (Or.inr (by simp))]
    have := ih (fun x hx => hns x (by simp [hx]))
    unfold wsSplit at this
    rw [this]; simp

theorem wsSplit_nText (n : Str) (ns : List Str) (hk : ∀ x ∈ n :: ns, QKeyOk x) :
    wsSplit (nText (n :: ns)) = (n :: ns).map ('/' :: ·) := by
  induction ns generalizing n with
  | nil =>
    simp only [nText, wsSplit]
    have := wsSplitGo_last ('/' :: n) (ft_keytok_nospace n (hk n (by simp))) [] (Or.inr (by simp))
    simpa using this
  | cons n' ns ih =>
    simp only [nText]
    unfold wsSplit
    rw [wsSplitGo_tok ('/' :: n) (ft_keytok_nospace n (hk n (by simp))) [] _ (Or.inr (by simp))]
    have := ih n' (fun x hx => hk x (by simp at hx ⊢; rcases hx with h | h <;> simp [h]))
    unfold wsSplit at this
    rw [this]; simp

/-- `_set_qual(key, None)` for a list of value-less keys -/
def nFold (d : List Qual) : List Str → Except Err (List Qual)
  | [] => .ok d
  | n :: ns => match setQual d n none with | .ok d' => nFold d' ns | .error e => .error e

theorem keyPartGo_ns (ns : List Str) (hns : ∀ n ∈ ns, QKeyOk n) (more : List Str) : ∀ d : List Qual,
    keyPartGo d none (ns.map ('/' :: ·) ++ more) =
      match nFold d ns with | .ok d' => keyPartGo d' none more | .error e => .error e := by
  induction ns with
  | nil => intro d; simp [nFold]
  | cons n ns ih =>
    intro d
    have hne : '=' ∉ '/' :: n := by
      intro h; simp only [List.mem_cons] at h
      rcases h with h | h
      · revert h; decide
      · exact (hns n (by simp) _ h).2.1 rfl
    simp only [List.map_cons, List.cons_append, keyPartGo, hne, if_false, List.drop_succ_cons, List.drop_zero, nFold]
    cases setQual d n none with
    | error e => rfl
    | ok d' => exact ih (fun x hx => hns x (by simp [hx])) d'

def runsFold (d : List Qual) : List QRun → List Str → Except Err (List Qual)
  | [], tr => nFold d tr
  | r :: rs, tr =>
    match nFold d r.ns with
    | .error e => .error e
    | .ok d' =>
      match setQual d' r.k (some r.p) with
      | .error e => .error e
      | .ok d'' => runsFold d'' rs tr

theorem partsGo_runs (rs : List QRun) (hrs : ∀ r ∈ rs, QRunOk r) (tr : List Str) (htr : ∀ n ∈ tr, QKeyOk n) :
    ∀ d : List Qual, partsGo d none (runsParts rs ++ trailParts tr) = runsFold d rs tr := by
  induction rs with
  | nil =>
    intro d
    cases tr with
    | nil => simp [runsParts, trailParts, partsGo, runsFold, nFold]
    | cons n ns =>
      simp only [runsParts, List.flatMap_nil, List.nil_append, trailParts, partsGo, runsFold]
      rw [wsSplit_nText n ns htr]
      have := keyPartGo_ns (n :: ns) htr [] d
      simp only [List.append_nil] at this
      rw [this]
      cases nFold d (n :: ns) with
      | error e => rfl
      | ok d' => simp [keyPartGo, partsGo]
  | cons r rs ih =>
    intro d
    obtain ⟨hns, hk, hp⟩ := hrs r (by simp)
    obtain ⟨ns, k, p⟩ := r
    simp only [runsParts, List.flatMap_cons, List.cons_append, List.nil_append, partsGo, runsFold]
    rw [wsSplit_runM ns k p hns hk, keyPartGo_ns ns hns]
    cases nFold d ns with
    | error e => rfl
    | ok d' =>
      have hmem : '=' ∈ '/' :: k ++ ['='] := by simp
      have hkk : (('/' :: k ++ ['=']).drop 1).dropLast = k := by simp
      simp only [keyPartGo, hmem, if_true, hkk]
      have hq : (runQ ⟨ns, k, p⟩).head? = some '"' := rfl
      have hv : ((runQ ⟨ns, k, p⟩).drop 1).dropLast = p := by simp [runQ]
      simp only [hq, if_true, hv]
      cases setQual d' k (some p) with
      | error e => rfl
      | ok d'' => exact ih (fun x hx => hrs x (by simp [hx])) d''

/-- `_set_qual` line by line -/
def lineFold (d : List Qual) : List QL → Except Err (List Qual)
  | [] => .ok d
  | l :: ls => match setQual d l.1 l.2 with | .ok d' => lineFold d' ls | .error e => .error e

theorem runsFold_lines (ls : List QL) : ∀ d : List Qual,
    runsFold d (runsR ls).1 (runsR ls).2 = lineFold d ls := by
  induction ls with
  | nil => intro d; rfl
  | cons l ls ih =>
    intro d
    obtain ⟨k, v⟩ := l
    cases v with
    | some p =>
      simp only [runsR, runsFold, nFold, lineFold]
      cases setQual d k (some p) with
      | error e => rfl
      | ok d' => exact ih d'
    | none =>
      simp only [runsR, lineFold]
      cases hr : runsR ls with
      | mk rs tr =>
        rw [hr] at ih
        cases rs with
        | nil =>
          simp only [runsFold, nFold]
          cases setQual d k none with
          | error e => rfl
          | ok d' => exact ih d'
        | cons r rs =>
          simp only [runsFold, nFold]
          cases setQual d k none with
          | error e => rfl
          | ok d' => exact ih d'

theorem runsR_ok (ls : List QL) (h : ∀ l ∈ ls, QLOk l) :
    (∀ r ∈ (runsR ls).1, QRunOk r) ∧ (∀ n ∈ (runsR ls).2, QKeyOk n) := by
  induction ls with
  | nil => simp [runsR]
  | cons l ls ih =>
    have hl := h l (by simp)
    have ih' := ih (fun x hx => h x (by simp [hx]))
    obtain ⟨k, v⟩ := l
    cases v with
    | some p =>
      simp only [runsR]
      refine ⟨?_, ih'.2⟩
      intro r hr
      simp only [List.mem_cons] at hr
      rcases hr with rfl | hr
      · exact ⟨by simp, hl.1, hl.2 p rfl⟩
      · exact ih'.1 r hr
    | none =>
      simp only [runsR]
      cases hr : runsR ls with
      | mk rs tr =>
        rw [hr] at ih'
        cases rs with
        | nil =>
          refine ⟨by simp, ?_⟩
          intro n hn
          simp only [List.mem_cons] at hn
          rcases hn with rfl | hn
          · exact hl.1
          · exact ih'.2 n hn
        | cons r rs =>
          refine ⟨?_, ih'.2⟩
          intro x hx
          simp only [List.mem_cons] at hx
          rcases hx with rfl | hx
          · obtain ⟨h1, h2, h3⟩ := ih'.1 r (by simp)
            refine ⟨?_, h2, h3⟩
            intro n hn
            simp only [List.mem_cons] at hn
            rcases hn with rfl | hn
            · exact hl.1
            · exact h1 n hn
          · exact ih'.1 x (by simp [hx])

/-! ## the dictionary rebuilt from the lines -/

theorem splitC_ne_nil (c : Char) (s acc : Str) : splitC c s acc ≠ [] := by
  induction s generalizing acc with
  | nil => simp [splitC]
  | cons x xs ih =>
    by_cases hx : x = c
    · simp [splitC, hx]
    · simp only [splitC, hx, if_false]; exact ih _

theorem intercalateC_splitC (c : Char) (s : Str) : ∀ acc : Str,
    intercalateC c (splitC c s acc) = acc.reverse ++ s := by
  induction s with
  | nil => intro acc; simp [splitC, intercalateC]
  | cons x xs ih =>
    intro acc
    by_cases hx : x = c
    · subst hx
      simp only [splitC, if_true]
      have := ih []
      cases hsp : splitC x xs [] with
      | nil => exact absurd hsp (splitC_ne_nil _ _ _)
      | cons y ys =>
        rw [hsp] at this
        simp only [intercalateC, this]; simp
    · simp only [splitC, hx, if_false]
      rw [ih (x :: acc)]; simp

theorem setQual_append_piece (d : List Qual) (k o p : Str) (hd : d.lookup k = none) :
    setQual (d ++ [(k, some o)]) k (some p) = .ok (d ++ [(k, some (o ++ '\n' :: p))]) := by
  have hk : k ∉ d.map (·.1) := by
    intro hm
    obtain ⟨q, hq, rfl⟩ := List.mem_map.mp hm
    obtain ⟨v, hv⟩ := lookup_isSome_of_mem d q hq
    rw [hd] at hv; cases hv
  have hl : (d ++ [(k, some o)]).lookup k = some (some o) := by
    rw [List.lookup_append, hd]; simp
  unfold setQual
  rw [hl]
  have hmap : d.map (fun q => if q.1 = k then (k, some (o ++ '\n' :: p)) else q) = d := by
    conv => rhs; rw [← List.map_id d]
    apply List.map_congr_left
    intro q hq
    have : q.1 ≠ k := fun e => hk (List.mem_map.mpr ⟨q, hq, e⟩)
    simp [this]
  simp only [List.map_append, List.map_cons, List.map_nil, if_true, hmap]

theorem lineFold_append (xs ys : List QL) : ∀ d : List Qual,
    lineFold d (xs ++ ys) = match lineFold d xs with | .ok d' => lineFold d' ys | .error e => .error e := by
  induction xs with
  | nil => intro d; rfl
  | cons x xs ih =>
    intro d
    simp only [List.cons_append, lineFold]
    cases setQual d x.1 x.2 with
    | error e => rfl
    | ok d' => exact ih d'

theorem lineFold_pieces_some (d : List Qual) (k : Str) (hd : d.lookup k = none) (ps : List Str) : ∀ o : Str,
    lineFold (d ++ [(k, some o)]) (ps.map (fun p => (k, some p))) =
      .ok (d ++ [(k, some (intercalateC '\n' (o :: ps)))]) := by
  induction ps with
  | nil => intro o; simp [lineFold, intercalateC]
  | cons p ps ih =>
    intro o
    simp only [List.map_cons, lineFold, setQual_append_piece d k o p hd]
    rw [ih (o ++ '\n' :: p)]
    congr 4
    cases ps with
    | nil => simp [intercalateC]
    | cons p' ps' => simp [intercalateC]

theorem setQual_fresh (d : List Qual) (k : Str) (v : Option Str) (hd : d.lookup k = none) :
    setQual d k v = .ok (d ++ [(k, v)]) := by
  unfold setQual; rw [hd]

theorem lineFold_qual (d : List Qual) (q : Qual) (hd : d.lookup q.1 = none) :
    lineFold d (qlPieces q) = .ok (d ++ [q]) := by
  obtain ⟨k, v⟩ := q
  cases v with
  | none => simp [qlPieces, lineFold, setQual_fresh d k none hd]
  | some v =>
    simp only [qlPieces]
    cases hsp : splitC '\n' v [] with
    | nil => exact absurd hsp (splitC_ne_nil _ _ _)
    | cons p0 ps =>
      simp only [List.map_cons, lineFold, setQual_fresh d k (some p0) hd]
      rw [lineFold_pieces_some d k hd ps p0, ← hsp, intercalateC_splitC]
      simp

theorem lineFold_quals (quals : List Qual) : ∀ d : List Qual,
    (d.map (·.1) ++ quals.map (·.1)).Nodup → lineFold d (quals.flatMap qlPieces) = .ok (d ++ quals) := by
  induction quals with
  | nil => intro d _; simp [lineFold]
  | cons q qs ih =>
    intro d hnd
    have hq : q.1 ∉ d.map (·.1) := by
      intro hm
      rw [List.nodup_append] at hnd
      exact hnd.2.2 _ hm _ (by simp) rfl
    rw [List.flatMap_cons, lineFold_append, lineFold_qual d q (lookup_none_of_not_mem d q.1 hq)]
    simp only
    rw [ih (d ++ [q]) (by simpa [List.nodup_append, List.nodup_cons, and_assoc, and_comm, and_left_comm, or_imp, forall_and] using hnd)]
    simp

theorem splitC_sub (c : Char) (s : Str) : ∀ acc : Str, ∀ p ∈ splitC c s acc, ∀ x ∈ p, x ∈ s ∨ x ∈ acc := by
  induction s with
  | nil => intro acc p hp x hx; simp [splitC] at hp; subst hp; right; simpa using hx
  | cons y ys ih =>
    intro acc p hp x hx
    by_cases hy : y = c
    · simp only [splitC, hy, if_true, List.mem_cons] at hp
      rcases hp with rfl | hp
      · right; simpa using hx
      · rcases ih [] p hp x hx with h | h
        · left; simp [h]
        · simp at h
    · simp only [splitC, hy, if_false] at hp
      rcases ih (y :: acc) p hp x hx with h | h
      · left; simp [h]
      · simp only [List.mem_cons] at h
        rcases h with rfl | h
        · left; simp
        · right; exact h

/-- **qualifier text round trip** (value level): the text `get_annotation` accumulates for a feature
written by `set_annotation` is parsed back into the same location string and the same qualifiers. -/
theorem qualifiers_roundtrip (loc : Str) (hloc : LocStrOk loc) (quals : List Qual)
    (hk : ∀ q ∈ quals, QKeyOk q.1) (hv : ∀ q ∈ quals, ∀ v, q.2 = some v → QValOk v)
    (hnd : (quals.map (·.1)).Nodup) :
    parseFeatVal (featValue loc quals) = .ok (loc, quals) := by
  have hls : ∀ l ∈ quals.flatMap qlPieces, QLOk l := by
    intro l hl
    obtain ⟨q, hq, hlq⟩ := List.mem_flatMap.mp hl
    obtain ⟨k, v⟩ := q
    cases v with
    | none =>
      simp only [qlPieces, List.mem_singleton] at hlq
      subst hlq
      exact ⟨hk _ hq, fun p hp => by cases hp⟩
    | some v =>
      simp only [qlPieces, List.mem_map] at hlq
      obtain ⟨p, hp, rfl⟩ := hlq
      refine ⟨hk (k, some v) hq, ?_⟩
      intro p' hp' hmem
      injection hp' with hp'; subst hp'
      rcases splitC_sub '\n' v [] p hp _ hmem with h | h
      · exact hv _ hq v rfl h
      · simp at h
  obtain ⟨hr1, hr2⟩ := runsR_ok _ hls
  unfold parseFeatVal
  rw [featValue_eq, bodyText_runs, List.append_assoc, featParts_value loc hloc _ hr1 _ hr2]
  simp only
  rw [partsGo_runs _ hr1 _ hr2, runsFold_lines, lineFold_quals quals [] (by simpa using hnd)]
  simp

/-! ## ORIGIN block -/

/-- a sequence symbol as it is written (already lower-cased): not a digit, not a blank, not `-` -/
def OSymOk (c : Char) : Prop := isDigitC c = false ∧ c ≠ ' ' ∧ c ≠ '-'
def NoDashEnd (l : Str) : Prop := l.getLast? ≠ some '-'

theorem stripNums_append (a b : Str) (h : NoDashEnd a) : stripNums (a ++ b) = stripNums a ++ stripNums b := by
  induction a with
  | nil => simp [stripNums]
  | cons c t ih =>
    cases t with
    | nil =>
      have hc : c ≠ '-' := by intro e; apply h; simp [e]
      have hc' : (c == '-') = false := by simpa using hc
      cases b with
      | nil => simp [stripNums]
      | cons d rest =>
        simp only [List.cons_append, List.nil_append, stripNums, hc', Bool.false_and]
        by_cases h1 : (isDigitC c || c == ' ') = true
        · simp [h1]
        · simp [h1]
    | cons d rest =>
      have ih' := ih (by
        unfold NoDashEnd at h ⊢
        simpa [List.getLast?_cons_cons] using h)
      simp only [List.cons_append] at ih' ⊢
      simp only [stripNums]
      by_cases h1 : (isDigitC c || c == ' ') = true
      · simp only [h1, if_true]; exact ih'
      · simp only [h1]
        by_cases h2 : (c == '-' && isDigitC d) = true
        · simp only [h2, if_true]; exact ih'
        · simp only [h2]; simp [ih']

theorem stripNums_syms (s : Str) (h : ∀ c ∈ s, OSymOk c) : stripNums s = s := by
  induction s with
  | nil => rfl
  | cons c t ih =>
    obtain ⟨h1, h2, h3⟩ := h c (by simp)
    have hb : (c == ' ') = false := by simpa using h2
    have hd : (c == '-') = false := by simpa using h3
    have ih' := ih (fun x hx => h x (by simp [hx]))
    cases t with
    | nil => simp [stripNums, h1, hb]
    | cons d rest => simp [stripNums, h1, hb, hd, ih']

theorem stripNums_blanks (n : Nat) (x : Str) : stripNums (List.replicate n ' ' ++ x) = stripNums x := by
  induction n with
  | zero => simp
  | succ n ih =>
    rw [List.replicate_succ, List.cons_append]
    cases hx : List.replicate n ' ' ++ x with
    | nil =>
      have : x = [] := by
        have := congrArg List.length hx; simp at this; cases x with | nil => rfl | cons _ _ => simp at this
      rw [hx] at ih; subst this; simp [stripNums] at ih ⊢
    | cons d rest =>
      rw [hx] at ih
      simp only [stripNums, show (isDigitC ' ' || ' ' == ' ') = true by decide, if_true]
      exact ih

theorem locDigits_isDigit : ∀ c ∈ locDigits, isDigitC c = true := by decide

theorem stripNums_digits (s : Str) (h : ∀ c ∈ s, isDigitC c = true) : stripNums s = [] := by
  induction s with
  | nil => rfl
  | cons c t ih =>
    have hc := h c (by simp)
    have ih' := ih (fun x hx => h x (by simp [hx]))
    cases t with
    | nil => simp [stripNums, hc]
    | cons d rest => simp [stripNums, hc, ih']

theorem stripNums_showInt (i : Int) : stripNums (showInt i) = [] ∧ NoDashEnd (showInt i) := by
  cases i with
  | ofNat n =>
    have hd : ∀ c ∈ showNat n, isDigitC c = true := fun c hc => locDigits_isDigit c (showNat_chars n c hc)
    refine ⟨stripNums_digits _ hd, ?_⟩
    intro hl
    have := hd '-' (List.mem_of_getLast? hl)
    revert this; decide
  | negSucc n =>
    have hd : ∀ c ∈ showNat (n + 1), isDigitC c = true := fun c hc => locDigits_isDigit c (showNat_chars _ c hc)
    obtain ⟨d, ds, hds⟩ := List.exists_cons_of_ne_nil (showNat_ne_nil (n + 1))
    constructor
    · show stripNums ('-' :: showNat (n + 1)) = []
      rw [hds]
      have hdd := hd d (by rw [hds]; simp)
      have := stripNums_digits (d :: ds) (by rw [← hds]; exact hd)
      simp only [stripNums, show (isDigitC '-' || '-' == ' ') = false by decide, hdd]
      simpa using this
    · show ('-' :: showNat (n + 1)).getLast? ≠ some '-'
      rw [hds]
      intro hl
      have hm : '-' ∈ d :: ds := by
        rw [List.getLast?_cons_cons] at hl
        exact List.mem_of_getLast? hl
      have := hd '-' (by rw [hds]; exact hm)
      revert this; decide

theorem stripNums_fmt9 (i : Int) : stripNums (fmt9 i) = [] ∧ NoDashEnd (fmt9 i) := by
  obtain ⟨h1, h2⟩ := stripNums_showInt i
  unfold fmt9
  refine ⟨by simp only; rw [stripNums_blanks, h1], ?_⟩
  simp only
  unfold NoDashEnd at h2 ⊢
  rw [List.getLast?_append]
  cases hq : (showInt i).getLast? with
  | none => exact absurd (List.getLast?_eq_none_iff.mp hq) (showInt_ne_nil i)
  | some z => rw [hq] at h2; simpa using h2

theorem originGo_seq (start : Int) (chunks : List Str) (hch : ∀ c ∈ chunks, c ≠ [] ∧ ∀ x ∈ c, OSymOk x) :
    ∀ (i : Nat) (line : Str), NoDashEnd line →
      stripNums (originGo start i chunks line).flatten = stripNums line ++ chunks.flatten := by
  induction chunks with
  | nil => intro i line _; simp [originGo]
  | cons c cs ih =>
    intro i line hl
    obtain ⟨hcne, hcs⟩ := hch c (by simp)
    have hcl : NoDashEnd (' ' :: c) := by
      unfold NoDashEnd
      obtain ⟨a, t, rfl⟩ := List.exists_cons_of_ne_nil hcne
      intro h
      have hm := List.mem_of_getLast? h
      simp only [List.mem_cons] at hm
      rcases hm with h | h
      · revert h; decide
      · exact (hcs '-' (by simpa using h)).2.2 rfl
    have hsc : stripNums (' ' :: c) = c := by
      have := stripNums_blanks 1 c
      simp only [List.replicate_one, List.singleton_append] at this
      rw [this, stripNums_syms c hcs]
    have hend : ∀ l : Str, NoDashEnd (l ++ ' ' :: c) := by
      intro l
      unfold NoDashEnd at hcl ⊢
      rw [List.getLast?_append]
      cases hq : (' ' :: c).getLast? with
      | none => simp at hq
      | some z => rw [hq] at hcl; simpa using hcl
    simp only [originGo]
    split
    · obtain ⟨f1, f2⟩ := stripNums_fmt9 (start + i)
      simp only [List.flatten_cons]
      rw [stripNums_append _ _ hl, ih (fun x hx => hch x (by simp [hx])) (i + 10) _ (hend _),
        stripNums_append _ _ f2, f1, hsc]
      simp
    · rw [ih (fun x hx => hch x (by simp [hx])) (i + 10) _ (hend _), stripNums_append _ _ hl, hsc]
      simp

/-- **ORIGIN round trip, sequence**: any length (0, non-multiples of 10 / 60), any start. -/
theorem origin_seq_roundtrip (start : Int) (seq : Str) (h : ∀ c ∈ lower seq, OSymOk c) :
    originSeq (printOrigin start seq) = lower seq := by
  unfold originSeq printOrigin
  obtain ⟨f1, f2⟩ := stripNums_fmt9 start
  rw [originGo_seq start (wrap 10 (lower seq)) (fun c hc =>
      ⟨wrap_chunk_ne_nil 10 (by omega) _ c hc, fun x hx => h x (wrap_chunk_sub 10 _ c hc x hx)⟩) 0 _ f2,
    f1, wrap_flatten 10 (by omega)]
  simp

theorem originGo_head (start : Int) (chunks : List Str) : ∀ (i : Nat) (line : Str),
    ∃ rest tl, originGo start i chunks line = (line ++ rest) :: tl ∧ (rest = [] ∨ rest.head? = some ' ') := by
  induction chunks with
  | nil => intro i line; exact ⟨[], [], by simp [originGo], Or.inl rfl⟩
  | cons c cs ih =>
    intro i line
    simp only [originGo]
    split
    · exact ⟨[], originGo start (i + 10) cs (fmt9 (start + i) ++ ' ' :: c), by simp, Or.inl rfl⟩
    · obtain ⟨rest, tl, h1, _⟩ := ih (i + 10) (line ++ ' ' :: c)
      exact ⟨' ' :: c ++ rest, tl, by rw [h1]; simp, Or.inr rfl⟩

theorem wsSplitGo_blanks (n : Nat) (x : Str) : wsSplitGo (List.replicate n ' ' ++ x) [] = wsSplitGo x [] := by
  induction n with
  | zero => simp
  | succ n ih => rw [List.replicate_succ, List.cons_append]; simp [wsSplitGo, show isSpace ' ' = true by decide, ih]

/-- **ORIGIN round trip, sequence start** (negative values included). -/
theorem origin_start_roundtrip (start : Int) (seq : Str) : originStart (printOrigin start seq) = .ok start := by
  unfold printOrigin
  obtain ⟨rest, tl, h1, h2⟩ := originGo_head start (wrap 10 (lower seq)) 0 (fmt9 start)
  rw [h1]
  have hns : ∀ c ∈ showInt start, isSpace c = false := fun c hc =>
    locPSChars_noSpace c (locIntChars_sub c (showInt_locChars start c hc))
  have htok : ∃ more, wsSplit (fmt9 start ++ rest) = showInt start :: more := by
    unfold wsSplit fmt9
    simp only [List.append_assoc]
    rw [wsSplitGo_blanks]
    rcases h2 with rfl | h2
    · exact ⟨[], by simpa using wsSplitGo_last (showInt start) hns [] (Or.inr (showInt_ne_nil start))⟩
    · obtain ⟨r', rfl⟩ : ∃ r', rest = ' ' :: r' := by
        cases rest with
        | nil => simp at h2
        | cons a r' => simp at h2; exact ⟨r', by rw [h2]⟩
      exact ⟨_, by simpa using wsSplitGo_tok (showInt start) hns [] r' (Or.inr (showInt_ne_nil start))⟩
  obtain ⟨more, hm⟩ := htok
  simp only [originStart, hm, readInt_showInt]

/-! ## feature = key column + location + qualifiers -/

def locAllChars : List Char := locPSChars ++ ['j', 'i', ',']

theorem locAllChars_ok : ∀ c ∈ locAllChars, isSpace c = false ∧ c ≠ '/' ∧ c ≠ '"' ∧ c ≠ '=' := by decide

theorem intercalateC_chars (sep : Char) (xs : List Str) : ∀ c ∈ intercalateC sep xs, c = sep ∨ ∃ x ∈ xs, c ∈ x := by
  induction xs with
  | nil => intro c hc; simp [intercalateC] at hc
  | cons x xs ih =>
    intro c hc
    cases xs with
    | nil => simp only [intercalateC] at hc; exact Or.inr ⟨x, by simp, hc⟩
    | cons y ys =>
      simp only [intercalateC, List.mem_append, List.mem_cons] at hc
      rcases hc with h | h | h
      · exact Or.inr ⟨x, by simp, h⟩
      · exact Or.inl h
      · rcases ih c h with h | ⟨z, hz, hc⟩
        · exact Or.inl h
        · exact Or.inr ⟨z, by simp [hz], hc⟩

theorem printLocs_chars (ls : List Loc) : ∀ c ∈ printLocs ls, c ∈ locAllChars := by
  have hps : ∀ l : Loc, ∀ c ∈ printSingle l, c ∈ locAllChars := fun l c hc => by
    have := printSingle_chars l c hc
    simp only [locAllChars, List.mem_append]; exact Or.inl this
  have hjoin : ∀ xs : List Loc, ∀ c ∈ "join(".toList ++ intercalateC ',' (xs.map printSingle) ++ [')'], c ∈ locAllChars := by
    intro xs c hc
    simp only [List.mem_append, List.mem_singleton] at hc
    rcases hc with (h | h) | h
    · have : ∀ c ∈ "join(".toList, c ∈ locAllChars := by decide
      exact this c h
    · rcases intercalateC_chars ',' _ c h with h | ⟨x, hx, hc⟩
      · subst h; decide
      · obtain ⟨l, _, rfl⟩ := List.mem_map.mp hx
        exact hps l c hc
    · subst h; decide
  intro c hc
  unfold printLocs at hc
  split at hc
  · exact hps _ c hc
  · exact hjoin _ c hc

theorem printLocs_ne_nil (ls : List Loc) : printLocs ls ≠ [] := by
  unfold printLocs
  split
  · exact printSingle_ne_nil _
  · simp

theorem printLocs_locStrOk (ls : List Loc) : LocStrOk (printLocs ls) := by
  have hc := printLocs_chars ls
  refine ⟨printLocs_ne_nil ls, ?_, ?_, ?_⟩
  · intro c h
    have : c ∈ printLocs ls := by
      cases hp : printLocs ls with
      | nil => rw [hp] at h; simp at h
      | cons a t => rw [hp] at h; simp at h; subst h; simp
    exact (locAllChars_ok c (hc c this)).1
  · intro c h; exact (locAllChars_ok c (hc c (List.mem_of_getLast? h))).1
  · intro c h
    have := locAllChars_ok c (hc c h)
    exact ⟨this.2.1, this.2.2.1, this.2.2.2⟩

structure GbFeatOk (f : GbFeat) : Prop where
  locs_ne : f.locs ≠ []
  locs_ok : ∀ l ∈ f.locs, Expressible l
  keys_ok : ∀ q ∈ f.quals, QKeyOk q.1
  vals_ok : ∀ q ∈ f.quals, ∀ v, q.2 = some v → QValOk v
  keys_nodup : (f.quals.map (·.1)).Nodup

/-- location + qualifiers of one feature: the accumulated text is parsed back to the same location
list and the same qualifiers -/
theorem feature_value_roundtrip (f : GbFeat) (h : GbFeatOk f) :
    parseFeatVal (featValue (printLocs f.locs) f.quals) = .ok (printLocs f.locs, f.quals) ∧
    parseLocs (printLocs f.locs) = some f.locs :=
  ⟨qualifiers_roundtrip _ (printLocs_locStrOk f.locs) f.quals h.keys_ok h.vals_ok h.keys_nodup,
   parseLocs_printLocs f.locs h.locs_ne h.locs_ok⟩

/-! ## the key column and the feature list (line level) -/

/-- feature key as the 15-character key column can hold it -/
def FeatKeyOk (k : Str) : Prop :=
  k ≠ [] ∧ k.length ≤ 15 ∧ (∀ c, k.head? = some c → isSpace c = false) ∧ (∀ c, k.getLast? = some c → isSpace c = false)

theorem featCollect_qlines (qs : List Str) (rest : List Str) : ∀ (k v : Str),
    featCollect (some (k, v)) (qs.map (fun l => List.replicate 21 ' ' ++ l) ++ rest) =
      featCollect (some (k, v ++ qs.flatMap (fun l => l ++ [' ']))) rest := by
  induction qs with
  | nil => intro k v; simp
  | cons q qs ih =>
    intro k v
    have h5 : (List.replicate 21 ' ' ++ q)[5]? = some ' ' := by
      rw [List.getElem?_append_left (by simp)]; simp
    have hd : (List.replicate 21 ' ' ++ q).drop 21 = q := List.drop_left' (by simp)
    simp only [List.map_cons, List.cons_append, featCollect, h5, ne_eq, not_true_eq_false, if_false, hd]
    rw [ih]; simp

theorem ljust16 (key : Str) (h : key.length ≤ 15) :
    ljust 16 key = (key ++ List.replicate (15 - key.length) ' ') ++ [' '] := by
  unfold ljust
  have : 16 - key.length = (15 - key.length) + 1 := by omega
  rw [this, List.replicate_succ']; simp

theorem featCollect_block (key loc : Str) (quals : List Qual) (hk : FeatKeyOk key) (rest : List Str)
    (cur : Option (Str × Str)) :
    featCollect cur (featLines key loc quals ++ rest) =
      match featCollect (some (key, featValue loc quals)) rest with
      | .ok r => .ok (cur.toList ++ r)
      | .error e => .error e := by
  obtain ⟨hne, hlen, hh, hl⟩ := hk
  obtain ⟨a, t, rfl⟩ := List.exists_cons_of_ne_nil hne
  have ha : a ≠ ' ' := gb_space_of_blank a (hh a rfl)
  let P := (a :: t) ++ List.replicate (15 - (a :: t).length) ' '
  have hP : P.length = 15 := by simp [P]; simp at hlen; omega
  have e0 : List.replicate 5 ' ' ++ ljust 16 (a :: t) ++ loc = List.replicate 5 ' ' ++ (P ++ ' ' :: loc) := by
    rw [ljust16 _ hlen]; simp [P]
  have h5 : (List.replicate 5 ' ' ++ (P ++ ' ' :: loc))[5]? = some a := by
    rw [List.getElem?_append_right (by simp)]; simp [P]
  have hs : sliceL (List.replicate 5 ' ' ++ (P ++ ' ' :: loc)) 5 20 = P := by
    unfold sliceL
    have : List.replicate 5 ' ' ++ (P ++ ' ' :: loc) = (List.replicate 5 ' ' ++ P) ++ ' ' :: loc := by simp
    rw [this, List.take_left' (by simp [hP]), List.drop_left' (by simp)]
  have hd : (List.replicate 5 ' ' ++ (P ++ ' ' :: loc)).drop 21 = loc := by
    have : List.replicate 5 ' ' ++ (P ++ ' ' :: loc) = (List.replicate 5 ' ' ++ P ++ [' ']) ++ loc := by simp
    rw [this, List.drop_left' (by simp [hP])]
  have hst : strip P = a :: t := gb_strip_padded (a :: t) _ hh hl (by simp)
  unfold featLines
  rw [e0]
  simp only [List.cons_append, featCollect, h5, ne_eq, ha, not_false_eq_true, if_true, hs, hst, hd]
  rw [featCollect_qlines]
  have : loc ++ [' '] ++ (quals.flatMap qualLines).flatMap (fun l => l ++ [' ']) = featValue loc quals := by
    simp [featValue]
  rw [this]
  rfl

theorem featCollect_print (fs : List GbFeat) (hk : ∀ f ∈ fs, FeatKeyOk f.key) : ∀ cur : Option (Str × Str),
    featCollect cur (printFeatures fs) =
      .ok (cur.toList ++ fs.map (fun f => (f.key, featValue (printLocs f.locs) f.quals))) := by
  induction fs with
  | nil => intro cur; simp [printFeatures, featCollect]
  | cons f fs ih =>
    intro cur
    have : printFeatures (f :: fs) = featLines f.key (printLocs f.locs) f.quals ++ printFeatures fs := by
      simp [printFeatures]
    rw [this, featCollect_block _ _ _ (hk f (by simp)), ih (fun x hx => hk x (by simp [hx]))]
    simp

theorem parseFeatVal_split (v loc : Str) (d : List Qual) (h : parseFeatVal v = .ok (loc, d)) :
    ∃ ps, featParts v = .ok (loc, ps) ∧ partsGo [] none ps = .ok d := by
  unfold parseFeatVal at h
  cases hf : featParts v with
  | error e => rw [hf] at h; cases h
  | ok r =>
    obtain ⟨l, ps⟩ := r
    rw [hf] at h
    simp only at h
    cases hp : partsGo [] none ps with
    | error e => rw [hp] at h; cases h
    | ok d' =>
      rw [hp] at h
      injection h with h
      injection h with h1 h2
      subst h1; subst h2
      exact ⟨ps, rfl, hp⟩

/-- **feature table round trip**: key column + location + qualifiers, for a list of features,
order kept. -/
theorem feature_roundtrip (fs : List GbFeat) (hk : ∀ f ∈ fs, FeatKeyOk f.key) (hf : ∀ f ∈ fs, GbFeatOk f) :
    parseFeatures (printFeatures fs) = .ok fs := by
  unfold parseFeatures
  rw [featCollect_print fs hk none]
  simp only [Option.toList_none, List.nil_append]
  suffices H : ∀ (gs : List GbFeat) (acc : List GbFeat), (∀ f ∈ gs, GbFeatOk f) →
      (gs.map (fun f => (f.key, featValue (printLocs f.locs) f.quals))).foldlM featStep acc =
        (.ok (acc ++ gs) : Except Err (List GbFeat)) by
    simpa using H fs [] hf
  intro gs
  induction gs with
  | nil => intro acc _; simp [pure, Except.pure]
  | cons g gs ih =>
    intro acc hg
    obtain ⟨h1, h2⟩ := feature_value_roundtrip g (hg g (by simp))
    obtain ⟨ps, hp1, hp2⟩ := parseFeatVal_split _ _ _ h1
    rw [List.map_cons, List.foldlM_cons]
    simp only [featStep, hp1, h2, hp2, bind, Except.bind]
    rw [ih (acc ++ [g]) (fun x hx => hg x (by simp [hx]))]
    simp

/-! ## what the repaired writer accepts is exactly what the round trip needs -/

theorem featCheck_ok (f : GbFeat) (h : featCheck f = true) :
    FeatKeyOk f.key ∧ (∀ q ∈ f.quals, QKeyOk q.1) ∧ (∀ q ∈ f.quals, ∀ v, q.2 = some v → QValOk v) := by
  unfold featCheck at h
  simp only [Bool.and_eq_true, Bool.not_eq_true', decide_eq_true_eq, beq_iff_eq, List.all_eq_true] at h
  obtain ⟨⟨⟨hne, hlen⟩, hst⟩, hq⟩ := h
  refine ⟨⟨?_, hlen, ?_, ?_⟩, ?_, ?_⟩
  · intro e; rw [e] at hne; simp at hne
  · intro c hc; rw [← hst] at hc; exact gff_strip_head _ c hc
  · intro c hc; rw [← hst] at hc; exact gff_strip_last _ c hc
  · intro q hqm c hc
    have := (hq q hqm).1 c hc
    simp only [Bool.and_eq_true, Bool.not_eq_true', bne_iff_ne, ne_eq] at this
    exact ⟨this.1.1, this.1.2, this.2⟩
  · intro q hqm v hv
    have := (hq q hqm).2
    rw [hv] at this
    unfold QValOk
    intro hm
    simp only [Bool.not_eq_true'] at this
    have hc : v.contains '"' = true := by simpa using hm
    rw [hc] at this; cases this

/-- accepted by `set_annotation` ⇒ read back unchanged -/
theorem feature_roundtrip_accepted (fs : List GbFeat) (lines : List Str) (hacc : printFeaturesE fs = .ok lines)
    (hl : ∀ f ∈ fs, f.locs ≠ [] ∧ ∀ l ∈ f.locs, Expressible l) (hnd : ∀ f ∈ fs, (f.quals.map (·.1)).Nodup) :
    parseFeatures lines = .ok fs := by
  unfold printFeaturesE at hacc
  split at hacc
  · rename_i hall
    injection hacc with hacc
    subst hacc
    rw [List.all_eq_true] at hall
    exact feature_roundtrip fs (fun f hf => (featCheck_ok f (hall f hf)).1)
      (fun f hf => ⟨(hl f hf).1, (hl f hf).2, (featCheck_ok f (hall f hf)).2.1, (featCheck_ok f (hall f hf)).2.2, hnd f hf⟩)
  · cases hacc

/-- … and refused otherwise: nothing is written for a feature list that fails the check -/
theorem printFeaturesE_rejects (fs : List GbFeat) (h : ∃ f ∈ fs, featCheck f = false) :
    printFeaturesE fs = .error .valueError := by
  unfold printFeaturesE
  obtain ⟨f, hf, hc⟩ := h
  have : fs.all featCheck = false := by
    rw [List.all_eq_false]; exact ⟨f, hf, by simp [hc]⟩
  simp [this]

end BiotiteModel.C12

import BiotiteModel.Model.C10
/-! Helper lemmas for `C10_minimizer`: the chunk-wise forward / reverse arg-cumulative-minimum
passes of `_minimize` compute, per window, the leftmost position of the minimum. -/
namespace BiotiteModel.C10

/-- `p` is the leftmost position of the minimum of `g` on `[lo, hi)`. -/
def IsLeftMin (g : Nat → Int) (lo hi p : Nat) : Prop :=
  lo ≤ p ∧ p < hi ∧ (∀ j, lo ≤ j → j < hi → g p ≤ g j) ∧ (∀ j, lo ≤ j → j < p → g p < g j)

theorem IsLeftMin.unique {g : Nat → Int} {lo hi p q : Nat}
    (hp : IsLeftMin g lo hi p) (hq : IsLeftMin g lo hi q) : p = q := by
  obtain ⟨hp1, hp2, hp3, hp4⟩ := hp
  obtain ⟨hq1, hq2, hq3, hq4⟩ := hq
  rcases Nat.lt_trichotomy p q with h | h | h
  · have := hq4 p hp1 h; have := hp3 q hq1 hq2; omega
  · exact h
  · have := hp4 q hq1 h; have := hq3 p hp1 hp2; omega

/-! ### chunk arithmetic -/

theorem chunk_decomp (w i : Nat) : w * (i / w) + i % w = i := Nat.div_add_mod i w

theorem succ_same_chunk (w i : Nat) (hw : 0 < w) (h : i % w + 1 < w) :
    (i + 1) / w = i / w ∧ (i + 1) % w = i % w + 1 := by
  have := chunk_decomp w i
  apply (Nat.div_mod_unique hw).2
  constructor <;> omega

theorem succ_next_chunk (w i : Nat) (hw : 0 < w) (h : i % w + 1 = w) :
    (i + 1) / w = i / w + 1 ∧ (i + 1) % w = 0 := by
  have := chunk_decomp w i
  apply (Nat.div_mod_unique hw).2
  rw [Nat.mul_add, Nat.mul_one]
  constructor <;> omega

/-! ### forward pass -/

theorem fwd_step (w : Nat) (_hw : 0 < w) (g : Nat → Int) (hg : ∀ j, g j < int64Max)
    (i : Nat) (curMin : Int) (curI : Nat) (rest : List Int)
    (inv : i % w = 0 ∨ (curMin = g curI ∧ IsLeftMin g (w * (i / w)) i curI)) :
    ∃ p, fwdArgcummin w i curMin curI (g i :: rest) = p :: fwdArgcummin w (i + 1) (g p) p rest ∧
      IsLeftMin g (w * (i / w)) (i + 1) p := by
  have hd := chunk_decomp w i
  by_cases h0 : i % w = 0
  · simp only [fwdArgcummin, h0, if_true, hg i]
    refine ⟨i, rfl, ?_⟩
    refine ⟨by omega, by omega, ?_, ?_⟩
    · intro j h1 h2; have : j = i := by omega
      subst this; exact Int.le_refl _
    · intro j h1 h2; omega
  · rcases inv with h | ⟨hcm, hlm⟩
    · exact absurd h h0
    · obtain ⟨l1, l2, l3, l4⟩ := hlm
      simp only [fwdArgcummin, h0, if_false]
      by_cases hlt : g i < curMin
      · simp only [hlt, if_true]
        refine ⟨i, rfl, by omega, by omega, ?_, ?_⟩
        · intro j h1 h2
          by_cases hj : j = i
          · subst hj; exact Int.le_refl _
          · have := l3 j h1 (by omega); omega
        · intro j h1 h2
          have := l3 j h1 h2; omega
      · simp only [hlt, if_false]
        refine ⟨curI, by rw [hcm], l1, by omega, ?_, l4⟩
        intro j h1 h2
        by_cases hj : j = i
        · subst hj; omega
        · exact l3 j h1 (by omega)

theorem fwd_spec (w : Nat) (hw : 0 < w) (g : Nat → Int) (hg : ∀ j, g j < int64Max) :
    ∀ (len i : Nat) (curMin : Int) (curI : Nat),
      (i % w = 0 ∨ (curMin = g curI ∧ IsLeftMin g (w * (i / w)) i curI)) →
      ∀ j, j < len → ∃ p, (fwdArgcummin w i curMin curI ((List.range' i len).map g))[j]? = some p ∧
        IsLeftMin g (w * ((i + j) / w)) (i + j + 1) p := by
  intro len
  induction len with
  | zero => intro i _ _ _ j hj; omega
  | succ len ih =>
    intro i curMin curI inv j hj
    obtain ⟨p, heq, hp⟩ := fwd_step w hw g hg i curMin curI ((List.range' (i + 1) len).map g) inv
    have hl : (List.range' i (len + 1)).map g = g i :: (List.range' (i + 1) len).map g := by
      simp [List.range'_succ]
    rw [hl, heq]
    cases j with
    | zero => exact ⟨p, by simp, by simpa using hp⟩
    | succ j =>
      have inv' : (i + 1) % w = 0 ∨ (g p = g p ∧ IsLeftMin g (w * ((i + 1) / w)) (i + 1) p) := by
        by_cases h : i % w + 1 < w
        · right
          rw [(succ_same_chunk w i hw h).1]
          exact ⟨rfl, hp⟩
        · left
          have : i % w < w := Nat.mod_lt _ hw
          exact (succ_next_chunk w i hw (by omega)).2
      obtain ⟨q, hq1, hq2⟩ := ih (i + 1) (g p) p inv' j (by omega)
      refine ⟨q, by simpa using hq1, ?_⟩
      have : i + 1 + j = i + (j + 1) := by omega
      rw [this] at hq2
      exact hq2


/-! ### reverse pass -/

/-- exclusive end of the chunk of `i`, clipped to the sequence length `n` -/
def chunkEnd (w n i : Nat) : Nat := min (w * (i / w) + w) n

theorem rev_step (w n : Nat) (hw : 0 < w) (g : Nat → Int) (hg : ∀ j, g j < int64Max)
    (i : Nat) (hi : i < n) (curMin : Int) (curI : Nat) (rest : List Int)
    (inv : i % w + 1 = w ∨ (curMin = int64Max ∧ i + 1 = chunkEnd w n i) ∨
      (curMin = g curI ∧ IsLeftMin g (i + 1) (chunkEnd w n i) curI)) :
    ∃ p, revArgcumminAux w i curMin curI (g i :: rest) = p :: revArgcumminAux w (i - 1) (g p) p rest ∧
      IsLeftMin g i (chunkEnd w n i) p := by
  have hd := chunk_decomp w i
  have hmod : i % w < w := Nat.mod_lt _ hw
  have hE : i < chunkEnd w n i := by unfold chunkEnd; omega
  -- the state after the conditional reset
  have key : ∀ cm : Int, ((cm = int64Max ∧ i + 1 = chunkEnd w n i) ∨
      (cm = g curI ∧ IsLeftMin g (i + 1) (chunkEnd w n i) curI)) →
      ∃ p, (if g i ≤ cm then i :: revArgcumminAux w (i - 1) (g i) i rest
            else curI :: revArgcumminAux w (i - 1) cm curI rest)
          = p :: revArgcumminAux w (i - 1) (g p) p rest ∧ IsLeftMin g i (chunkEnd w n i) p := by
    intro cm hcm
    rcases hcm with ⟨h1, h2⟩ | ⟨h1, l1, l2, l3, l4⟩
    · have : g i ≤ cm := by have := hg i; omega
      simp only [this, if_true]
      refine ⟨i, rfl, Nat.le_refl _, hE, ?_, ?_⟩
      · intro j h3 h4
        have : j = i := by omega
        subst this; exact Int.le_refl _
      · intro j h3 h4; omega
    · by_cases hle : g i ≤ cm
      · simp only [hle, if_true]
        refine ⟨i, rfl, Nat.le_refl _, hE, ?_, ?_⟩
        · intro j h3 h4
          by_cases hj : j = i
          · subst hj; exact Int.le_refl _
          · have := l3 j (by omega) h4; omega
        · intro j h3 h4; omega
      · simp only [hle, if_false]
        refine ⟨curI, by rw [h1], by omega, l2, ?_, ?_⟩
        · intro j h3 h4
          by_cases hj : j = i
          · subst hj; omega
          · exact l3 j (by omega) h4
        · intro j h3 h4
          by_cases hj : j = i
          · subst hj; omega
          · exact l4 j (by omega) h4
  by_cases hr : i % w + 1 = w
  · have hmw : i % w = w - 1 := by omega
    simp only [revArgcumminAux, hmw, if_true]
    apply key
    left
    refine ⟨rfl, ?_⟩
    unfold chunkEnd; omega
  · have hmw : ¬ i % w = w - 1 := by omega
    simp only [revArgcumminAux, hmw, if_false]
    apply key
    rcases inv with h | h | h
    · exact absurd h hr
    · exact Or.inl h
    · exact Or.inr h


theorem range_succ_reverse_map (g : Nat → Int) (i : Nat) :
    (List.range (i + 1)).reverse.map g = g i :: (List.range i).reverse.map g := by
  simp [List.range_succ]

theorem revAux_length (w : Nat) : ∀ (vs : List Int) (i : Nat) (cm : Int) (ci : Nat),
    (revArgcumminAux w i cm ci vs).length = vs.length := by
  intro vs
  induction vs with
  | nil => intro i cm ci; simp [revArgcumminAux]
  | cons v vs ih =>
    intro i cm ci
    simp only [revArgcumminAux]
    split <;> split <;> simp [ih]

theorem rev_spec (w n : Nat) (hw : 0 < w) (g : Nat → Int) (hg : ∀ j, g j < int64Max) :
    ∀ (i : Nat) (cm : Int) (ci : Nat), i < n →
      (i % w + 1 = w ∨ (cm = int64Max ∧ i + 1 = chunkEnd w n i) ∨
        (cm = g ci ∧ IsLeftMin g (i + 1) (chunkEnd w n i) ci)) →
      ∀ j, j ≤ i → ∃ p, (revArgcumminAux w i cm ci ((List.range (i + 1)).reverse.map g))[j]? = some p ∧
        IsLeftMin g (i - j) (chunkEnd w n (i - j)) p := by
  intro i
  induction i with
  | zero =>
    intro cm ci hi inv j hj
    have hj0 : j = 0 := by omega
    subst hj0
    obtain ⟨p, heq, hp⟩ := rev_step w n hw g hg 0 hi cm ci [] inv
    have : (List.range (0 + 1)).reverse.map g = [g 0] := by simp
    rw [this, heq]
    exact ⟨p, by simp, by simpa using hp⟩
  | succ i ih =>
    intro cm ci hi inv j hj
    rw [range_succ_reverse_map]
    obtain ⟨p, heq, hp⟩ := rev_step w n hw g hg (i + 1) hi cm ci _ inv
    rw [heq]
    cases j with
    | zero => exact ⟨p, by simp, by simpa using hp⟩
    | succ j =>
      have hmod : i % w < w := Nat.mod_lt _ hw
      have inv' : i % w + 1 = w ∨ (g p = int64Max ∧ i + 1 = chunkEnd w n i) ∨
          (g p = g p ∧ IsLeftMin g (i + 1) (chunkEnd w n i) p) := by
        by_cases h : i % w + 1 < w
        · right; right
          refine ⟨rfl, ?_⟩
          have : chunkEnd w n i = chunkEnd w n (i + 1) := by
            unfold chunkEnd; rw [(succ_same_chunk w i hw h).1]
          rw [this]; exact hp
        · left; omega
      obtain ⟨q, hq1, hq2⟩ := ih (g p) p (by omega) inv' j (by omega)
      refine ⟨q, by simpa using hq1, ?_⟩
      have : i + 1 - (j + 1) = i - j := by omega
      rw [this]; exact hq2


/-! ### combining the two passes -/

theorem leftMin_merge (g : Nat → Int) (a c b r f : Nat)
    (hr : IsLeftMin g a c r) (hf : IsLeftMin g c b f) :
    IsLeftMin g a b (if g f < g r then f else r) := by
  obtain ⟨r1, r2, r3, r4⟩ := hr
  obtain ⟨f1, f2, f3, f4⟩ := hf
  by_cases h : g f < g r
  · simp only [h, if_true]
    refine ⟨by omega, f2, ?_, ?_⟩
    · intro j h1 h2
      by_cases hj : j < c
      · have := r3 j h1 hj; omega
      · exact f3 j (by omega) h2
    · intro j h1 h2
      by_cases hj : j < c
      · have := r3 j h1 hj; omega
      · exact f4 j (by omega) h2
  · simp only [h, if_false]
    refine ⟨r1, by omega, ?_, ?_⟩
    · intro j h1 h2
      by_cases hj : j < c
      · exact r3 j h1 hj
      · have := f3 j (by omega) h2; omega
    · intro j h1 h2
      exact r4 j h1 h2

/-- the executable specification `leftmostArgmin` computes the `IsLeftMin` position -/
theorem leftmostArgmin_spec (ord : List Int) (g : Nat → Int)
    (hg : ∀ j, j < ord.length → ord[j]? = some (g j)) :
    ∀ (len lo : Nat), 0 < len → lo + len ≤ ord.length →
      ∃ p, leftmostArgmin ord lo len = some p ∧ IsLeftMin g lo (lo + len) p := by
  intro len
  induction len with
  | zero => intro lo h; omega
  | succ len ih =>
    intro lo _ hle
    simp only [leftmostArgmin, hg lo (by omega)]
    cases len with
    | zero =>
      simp only [leftmostArgmin]
      refine ⟨lo, rfl, Nat.le_refl _, by omega, ?_, ?_⟩
      · intro j h1 h2
        have : j = lo := by omega
        subst this; exact Int.le_refl _
      · intro j h1 h2; omega
    | succ len =>
      obtain ⟨j, hj, l1, l2, l3, l4⟩ := ih (lo + 1) (by omega) (by omega)
      simp only [hj, hg j (by omega)]
      by_cases hlt : g j < g lo
      · simp only [hlt, if_true]
        refine ⟨j, rfl, by omega, by omega, ?_, ?_⟩
        · intro i h1 h2
          by_cases hi : i = lo
          · subst hi; omega
          · exact l3 i (by omega) (by omega)
        · intro i h1 h2
          by_cases hi : i = lo
          · subst hi; exact hlt
          · exact l4 i (by omega) h2
      · simp only [hlt, if_false]
        refine ⟨lo, rfl, Nat.le_refl _, by omega, ?_, ?_⟩
        · intro i h1 h2
          by_cases hi : i = lo
          · subst hi; exact Int.le_refl _
          · have := l3 i (by omega) (by omega); omega
        · intro i h1 h2; omega


/-! ### the list level -/

/-- key function of a key list (0 outside the list; never used there) -/
def gOf (ord : List Int) (j : Nat) : Int := ord[j]?.getD 0

theorem gOf_get (ord : List Int) (j : Nat) (hj : j < ord.length) : ord[j]? = some (gOf ord j) := by
  simp [gOf, List.getElem?_eq_getElem hj]

theorem gOf_lt (ord : List Int) (hmax : ∀ v ∈ ord, v < int64Max) (j : Nat) : gOf ord j < int64Max := by
  unfold gOf
  cases h : ord[j]? with
  | none => simp [int64Max]
  | some v => simpa using hmax v (List.mem_of_getElem? h)

theorem ord_eq_map (ord : List Int) : ord = (List.range' 0 ord.length).map (gOf ord) := by
  apply List.ext_getElem?
  intro j
  by_cases hj : j < ord.length
  · simp [hj, gOf]
  · simp [hj]

theorem ord_reverse_eq_map (ord : List Int) :
    ord.reverse = (List.range ord.length).reverse.map (gOf ord) := by
  have h := ord_eq_map ord
  rw [← List.range_eq_range'] at h
  rw [List.map_reverse, ← h]

theorem fwd_list (ord : List Int) (w : Nat) (hw : 0 < w) (hmax : ∀ v ∈ ord, v < int64Max)
    (j : Nat) (hj : j < ord.length) :
    ∃ p, (fwdArgcummin w 0 int64Max 0 ord)[j]? = some p ∧
      IsLeftMin (gOf ord) (w * (j / w)) (j + 1) p := by
  have := fwd_spec w hw (gOf ord) (gOf_lt ord hmax) ord.length 0 int64Max 0 (Or.inl (Nat.zero_mod w)) j hj
  rw [← ord_eq_map] at this
  simpa using this

theorem rev_list (ord : List Int) (w : Nat) (hw : 0 < w) (hmax : ∀ v ∈ ord, v < int64Max)
    (k : Nat) (hk : k < ord.length) :
    ∃ p, (revArgcummin w ord)[k]? = some p ∧
      IsLeftMin (gOf ord) k (chunkEnd w ord.length k) p := by
  unfold revArgcummin
  have hn : ord.length = (ord.length - 1) + 1 := by omega
  have hlist : ord.reverse = (List.range ((ord.length - 1) + 1)).reverse.map (gOf ord) := by
    rw [← hn]; exact ord_reverse_eq_map ord
  have hinv : (ord.length - 1) % w + 1 = w ∨
      (int64Max = int64Max ∧ ord.length - 1 + 1 = chunkEnd w ord.length (ord.length - 1)) ∨
      (int64Max = gOf ord 0 ∧ IsLeftMin (gOf ord) (ord.length - 1 + 1) (chunkEnd w ord.length (ord.length - 1)) 0) := by
    right; left
    refine ⟨rfl, ?_⟩
    have := chunk_decomp w (ord.length - 1)
    have := Nat.mod_lt (ord.length - 1) hw
    unfold chunkEnd; omega
  have hspec := rev_spec w ord.length hw (gOf ord) (gOf_lt ord hmax) (ord.length - 1) int64Max 0 (by omega) hinv
    (ord.length - 1 - k) (by omega)
  rw [← hlist] at hspec
  obtain ⟨p, hp1, hp2⟩ := hspec
  refine ⟨p, ?_, ?_⟩
  · have hlen := revAux_length w ord.reverse (ord.length - 1) int64Max 0
    rw [List.length_reverse] at hlen
    rw [List.getElem?_reverse (by omega), hlen]
    exact hp1
  · have : ord.length - 1 - (ord.length - 1 - k) = k := by omega
    rw [this] at hp2; exact hp2


/-- one window: the combination of the forward value at the window end and the reverse value at the
window start is the leftmost minimum of the window -/
theorem window_min (ord : List Int) (w : Nat) (hw : 0 < w) (hmax : ∀ v ∈ ord, v < int64Max)
    (i : Nat) (hi : i + w ≤ ord.length) :
    ∃ f r c, (fwdArgcummin w 0 int64Max 0 ord)[i + w - 1]? = some f ∧ (revArgcummin w ord)[i]? = some r ∧
      combine ord f r = some c ∧ IsLeftMin (gOf ord) i (i + w) c := by
  obtain ⟨f, hf1, hf2⟩ := fwd_list ord w hw hmax (i + w - 1) (by omega)
  obtain ⟨r, hr1, hr2⟩ := rev_list ord w hw hmax i (by omega)
  have hfn : f < ord.length := by have := hf2.2.1; omega
  have hrn : r < ord.length := by have := hr2.2.1; unfold chunkEnd at this; omega
  refine ⟨f, r, if gOf ord f < gOf ord r then f else r, hf1, hr1, ?_, ?_⟩
  · simp [combine, gOf_get ord f hfn, gOf_get ord r hrn]
  · have hd := chunk_decomp w i
    have hmod : i % w < w := Nat.mod_lt _ hw
    have hend : i + w - 1 + 1 = i + w := by omega
    rw [hend] at hf2
    by_cases h0 : i % w = 0
    · -- the window is exactly one chunk: both passes give the same position
      have hq : (i + w - 1) / w = i / w ∧ (i + w - 1) % w = w - 1 := by
        apply (Nat.div_mod_unique hw).2
        constructor <;> omega
      rw [hq.1] at hf2
      have hs : w * (i / w) = i := by omega
      rw [hs] at hf2
      have he : chunkEnd w ord.length i = i + w := by unfold chunkEnd; omega
      rw [he] at hr2
      have : f = r := hf2.unique hr2
      subst this
      simpa using hr2
    · -- the window spans two chunks: reverse pass covers the left part, forward pass the right part
      have hq : (i + w - 1) / w = i / w + 1 ∧ (i + w - 1) % w = i % w - 1 := by
        apply (Nat.div_mod_unique hw).2
        rw [Nat.mul_add, Nat.mul_one]
        constructor <;> omega
      rw [hq.1, Nat.mul_add, Nat.mul_one] at hf2
      have he : chunkEnd w ord.length i = w * (i / w) + w := by unfold chunkEnd; omega
      rw [he] at hr2
      exact leftMin_merge (gOf ord) i (w * (i / w) + w) (i + w) r f hr2 hf2

theorem mapMExcept_ok {α β : Type} (f : α → Except Err β) (h : α → β) (l : List α)
    (hf : ∀ x ∈ l, f x = .ok (h x)) : mapMExcept f l = .ok (l.map h) := by
  induction l with
  | nil => rfl
  | cons x xs ih =>
    simp only [mapMExcept, hf x (by simp), ih (fun y hy => hf y (by simp [hy])), List.map_cons]

/-- the specification: leftmost minimum of every window of width `w` -/
def windowMinima (ord : List Int) (w : Nat) : List (Option Nat) :=
  (List.range (ord.length - (w - 1))).map fun i => leftmostArgmin ord i w

theorem minimizeAll_spec (ord : List Int) (w : Nat) (hw : 0 < w) (hmax : ∀ v ∈ ord, v < int64Max) :
    ∃ ps, minimizeAll ord w = .ok ps ∧ ps.map some = windowMinima ord w ∧
      (∀ i, i + w ≤ ord.length → ∃ p, ps[i]? = some p ∧ IsLeftMin (gOf ord) i (i + w) p) ∧
      ∀ p ∈ ps, p < ord.length := by
  have hstep : ∀ i ∈ List.range (ord.length - (w - 1)),
      leftmostArgmin ord i w = some ((leftmostArgmin ord i w).getD 0) ∧
      IsLeftMin (gOf ord) i (i + w) ((leftmostArgmin ord i w).getD 0) ∧
      (match (fwdArgcummin w 0 int64Max 0 ord)[i + w - 1]?, (revArgcummin w ord)[i]? with
        | some f, some r => match combine ord f r with
          | some c => (Except.ok c : Except Err Nat)
          | none => .error ub
        | _, _ => .error ub) = .ok ((leftmostArgmin ord i w).getD 0) := by
    intro i hi
    have hi' : i + w ≤ ord.length := by have := List.mem_range.1 hi; omega
    obtain ⟨f, r, c, h1, h2, h3, h4⟩ := window_min ord w hw hmax i hi'
    obtain ⟨p, hp1, hp2⟩ := leftmostArgmin_spec ord (gOf ord) (gOf_get ord) w i hw hi'
    have : c = p := h4.unique hp2
    subst this
    simp [h1, h2, h3, hp1, hp2]
  refine ⟨(List.range (ord.length - (w - 1))).map fun i => (leftmostArgmin ord i w).getD 0, ?_, ?_, ?_, ?_⟩
  · unfold minimizeAll
    exact mapMExcept_ok _ _ _ (fun i hi => (hstep i hi).2.2)
  · unfold windowMinima
    rw [List.map_map]
    apply List.map_congr_left
    intro i hi
    exact ((hstep i hi).1).symm
  · intro i hi
    have hmem : i ∈ List.range (ord.length - (w - 1)) := List.mem_range.2 (by omega)
    refine ⟨_, ?_, (hstep i hmem).2.1⟩
    simp [List.mem_range.1 hmem]

  · intro p hp
    simp only [List.mem_map] at hp
    obtain ⟨i, hi, rfl⟩ := hp
    have h1 := (hstep i hi).2.1.2.1
    have := List.mem_range.1 hi
    omega

theorem mapMExcept_length {α β : Type} (f : α → Except Err β) :
    ∀ (l : List α) (r : List β), mapMExcept f l = .ok r → r.length = l.length := by
  intro l
  induction l with
  | nil => intro r h; simp only [mapMExcept] at h; cases h; rfl
  | cons x xs ih =>
    intro r h
    simp only [mapMExcept] at h
    split at h
    · cases h
    · split at h
      · cases h
      · rename_i ys hys
        cases h
        simp [ih ys hys]

theorem perm_apply_length (p : Perm) (kmers : List Nat) (ord : List Int) (h : p.apply kmers = .ok ord) :
    ord.length = kmers.length := by
  cases p with
  | ident => simp only [Perm.apply] at h; cases h; simp
  | random => simp only [Perm.apply] at h; cases h; simp
  | freq counts => exact mapMExcept_length _ _ _ h
  | table vals => exact mapMExcept_length _ _ _ h

theorem mem_dedupConsecutive : ∀ (l : List Nat) (x : Nat), x ∈ dedupConsecutive l → x ∈ l := by
  intro l
  induction l with
  | nil => intro x h; simp [dedupConsecutive] at h
  | cons a t ih =>
    intro x h
    cases t with
    | nil => simpa [dedupConsecutive] using h
    | cons b r =>
      simp only [dedupConsecutive] at h
      split at h
      · exact List.mem_cons_of_mem _ (ih x h)
      · rcases List.mem_cons.1 h with h | h
        · simp [h]
        · exact List.mem_cons_of_mem _ (ih x h)

theorem minimizerSelect_spec (w : Nat) (hw : 2 ≤ w) (p : Perm) (kmers : List Nat) (ord : List Int)
    (happly : p.apply kmers = .ok ord) (hlen : w ≤ kmers.length) (hmax : ∀ v ∈ ord, v < int64Max) :
    ∃ ps, minimizeAll ord w = .ok ps ∧ ps.map some = windowMinima ord w ∧
      minimizerSelect w p kmers = .ok ((dedupConsecutive ps).map fun i => (i, kmers[i]?.getD 0)) ∧
      ∀ i ∈ dedupConsecutive ps, kmers[i]? = some (kmers[i]?.getD 0) := by
  obtain ⟨ps, h1, h2, _, h4⟩ := minimizeAll_spec ord w (by omega) hmax
  have hl := perm_apply_length p kmers ord happly
  have hget : ∀ i ∈ dedupConsecutive ps, kmers[i]? = some (kmers[i]?.getD 0) := by
    intro i hi
    have : i < kmers.length := by have := h4 i (mem_dedupConsecutive ps i hi); omega
    simp [List.getElem?_eq_getElem this]
  refine ⟨ps, h1, h2, ?_, hget⟩
  unfold minimizerSelect
  have hw' : ¬ w < 2 := by omega
  have hl' : ¬ kmers.length < w := by omega
  simp only [hw', if_false, happly, hl', h1]
  apply mapMExcept_ok
  intro i hi
  rw [hget i hi]
  rfl

end BiotiteModel.C10

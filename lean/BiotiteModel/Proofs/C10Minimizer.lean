import BiotiteModel.Model.C10
/-! Helper lemmas for `C10_minimizer`: the chunk-wise forward / reverse arg-cumulative-minimum
passes of `_minimize` compute, per window, the leftmost position of the minimum. -/
namespace BiotiteModel.C10

/-- `p` is the leftmost position of the minimum of `g` on `[lo, hi)`. -/
def IsLeftMin (g : Nat → Int) (lo hi p : Nat) : Prop :=
  lo ≤ p ∧ p < hi ∧ (∀ j, lo ≤ j → j < hi → g p ≤ g j) ∧ (∀ j, lo ≤ j → j < p → g p < g j)

theorem IsLeftMin.unique {g : Nat → Int} {lo hi p q : Nat}
    (hp : IsLeftMin g lo hi p) (hq : IsLeftMin g lo hi q) : p = q := by
  obtain ⟨hp1, hp2, hp3, hp4⟩ := hp
  obtain ⟨hq1, hq2, hq3, hq4⟩ := hq
  rcases Nat.lt_trichotomy p q with h | h | h
  · have := hq4 p hp1 h; have := hp3 q hq1 hq2; omega
  · exact h
  · have := hp4 q hq1 h; have := hq3 p hp1 hp2; omega

/-! ### chunk arithmetic -/

theorem chunk_decomp (w i : Nat) : w * (i / w) + i % w = i := Nat.div_add_mod i w

theorem succ_same_chunk (w i : Nat) (hw : 0 < w) (h : i % w + 1 < w) :
    (i + 1) / w = i / w ∧ (i + 1) % w = i % w + 1 := by
  have := chunk_decomp w i
  apply (Nat.div_mod_unique hw).2
  constructor <;> omega

theorem succ_next_chunk (w i : Nat) (hw : 0 < w) (h : i % w + 1 = w) :
    (i + 1) / w = i / w + 1 ∧ (i + 1) % w = 0 := by
  have := chunk_decomp w i
  apply (Nat.div_mod_unique hw).2
  rw [Nat.mul_add, Nat.mul_one]
  constructor <;> omega

/-! ### forward pass -/

theorem fwd_step (w : Nat) (_hw : 0 < w) (g : Nat → Int) (hg : ∀ j, g j < int64Max)
    (i : Nat) (curMin : Int) (curI : Nat) (rest : List Int)
    (inv : i % w = 0 ∨ (curMin = g curI ∧ IsLeftMin g (w * (i / w)) i curI)) :
    ∃ p, fwdArgcummin w i curMin curI (g i :: rest) = p :: fwdArgcummin w (i + 1) (g p) p rest ∧
      IsLeftMin g (w * (i / w)) (i + 1) p := by
  have hd := chunk_decomp w i
  by_cases h0 : i % w = 0
  · simp only [fwdArgcummin, h0, if_true, hg i]
    refine ⟨i, rfl, ?_⟩
    refine ⟨by omega, by omega, ?_, ?_⟩
    · intro j h1 h2; have : j = i := by omega
      subst this; exact Int.le_refl _
    · intro j h1 h2; omega
  · rcases inv with h | ⟨hcm, hlm⟩
    · exact absurd h h0
    · obtain ⟨l1, l2, l3, l4⟩ := hlm
      simp only [fwdArgcummin, h0, if_false]
      by_cases hlt : g i < curMin
      · simp only [hlt, if_true]
        refine ⟨i, rfl, by omega, by omega, ?_, ?_⟩
        · intro j h1 h2
          by_cases hj : j = i
          · subst hj; exact Int.le_refl _
          · have := l3 j h1 (by omega); omega
        · intro j h1 h2
          have := l3 j h1 h2; omega
      · simp only [hlt, if_false]
        refine ⟨curI, by rw [hcm], l1, by omega, ?_, l4⟩
        intro j h1 h2
        by_cases hj : j = i
        · subst hj; omega
        · exact l3 j h1 (by omega)

theorem fwd_spec (w : Nat) (hw : 0 < w) (g : Nat → Int) (hg : ∀ j, g j < int64Max) :
    ∀ (len i : Nat) (curMin : Int) (curI : Nat),
      (i % w = 0 ∨ (curMin = g curI ∧ IsLeftMin g (w * (i / w)) i curI)) →
      ∀ j, j < len → ∃ p, (fwdArgcummin w i curMin curI ((List.range' i len).map g))[j]? = some p ∧
        IsLeftMin g (w * ((i + j) / w)) (i + j + 1) p := by
  intro len
  induction len with
  | zero => intro i _ _ _ j hj; omega
  | succ len ih =>
    intro i curMin curI inv j hj
    obtain ⟨p, heq, hp⟩ := fwd_step w hw g hg i curMin curI ((List.range' (i + 1) len).map g) inv
    have hl : (List.range' i (len + 1)).map g = g i :: (List.range' (i + 1) len).map g := by
      simp [List.range'_succ]
    rw [hl, heq]
    cases j with
    | zero => exact ⟨p, by simp, by simpa using hp⟩
    | succ j =>
      have inv' : (i + 1) % w = 0 ∨ (g p = g p ∧ IsLeftMin g (w * ((i + 1) / w)) (i + 1) p) := by
        by_cases h : i % w + 1 < w
        · right
          rw [(succ_same_chunk w i hw h).1]
          exact ⟨rfl, hp⟩
        · left
          have : i % w < w := Nat.mod_lt _ hw
          exact (succ_next_chunk w i hw (by omega)).2
      obtain ⟨q, hq1, hq2⟩ := ih (i + 1) (g p) p inv' j (by omega)
      refine ⟨q, by simpa using hq1, ?_⟩
      have : i + 1 + j = i + (j + 1) := by omega
      rw [this] at hq2
      exact hq2


/-! ### reverse pass -/

/-- exclusive end of the chunk of `i`, clipped to the sequence length `n` -/
def chunkEnd (w n i : Nat) : Nat := min (w * (i / w) + w) n

theorem rev_step (w n : Nat) (hw : 0 < w) (g : Nat → Int) (hg : ∀ j, g j < int64Max)
    (i : Nat) (hi : i < n) (curMin : Int) (curI : Nat) (rest : List Int)
    (inv : i % w + 1 = w ∨ (curMin = int64Max ∧ i + 1 = chunkEnd w n i) ∨
      (curMin = g curI ∧ IsLeftMin g (i + 1) (chunkEnd w n i) curI)) :
    ∃ p, revArgcumminAux w i curMin curI (g i :: rest) = p :: revArgcumminAux w (i - 1) (g p) p rest ∧
      IsLeftMin g i (chunkEnd w n i) p := by
  have hd := chunk_decomp w i
  have hmod : i % w < w := Nat.mod_lt _ hw
  have hE : i < chunkEnd w n i := by unfold chunkEnd; omega
  -- the state after the conditional reset
  have key : ∀ cm : Int, ((cm = int64Max ∧ i + 1 = chunkEnd w n i) ∨
      (cm = g curI ∧ IsLeftMin g (i + 1) (chunkEnd w n i) curI)) →
      ∃ p, (if g i ≤ cm then i :: revArgcumminAux w (i - 1) (g i) i rest
            else curI :: revArgcumminAux w (i - 1) cm curI rest)
          = p :: revArgcumminAux w (i - 1) (g p) p rest ∧ IsLeftMin g i (chunkEnd w n i) p := by
    intro cm hcm
    rcases hcm with ⟨h1, h2⟩ | ⟨h1, l1, l2, l3, l4⟩
    · have : g i ≤ cm := by have := hg i; omega
      simp only [this, if_true]
      refine ⟨i, rfl, Nat.le_refl _, hE, ?_, ?_⟩
      · intro j h3 h4
        have : j = i := by omega
        subst this; exact Int.le_refl _
      · intro j h3 h4; omega
    · by_cases hle : g i ≤ cm
      · simp only [hle, if_true]
        refine ⟨i, rfl, Nat.le_refl _, hE, ?_, ?_⟩
        · intro j h3 h4
          by_cases hj : j = i
          · subst hj; exact Int.le_refl _
          · have := l3 j (by omega) h4; omega
        · intro j h3 h4; omega
      · simp only [hle, if_false]
        refine ⟨curI, by rw [h1], by omega, l2, ?_, ?_⟩
        · intro j h3 h4
          by_cases hj : j = i
          · subst hj; omega
          · exact l3 j (by omega) h4
        · intro j h3 h4
          by_cases hj : j = i
          · subst hj; omega
          · exact l4 j (by omega) h4
  by_cases hr : i % w + 1 = w
  · have hmw : i % w = w - 1 := by omega
    simp only [revArgcumminAux, hmw, if_true]
    apply key
    left
    refine ⟨rfl, ?_⟩
    unfold chunkEnd; omega
  · have hmw : ¬ i % w = w - 1 := by omega
    simp only [revArgcumminAux, hmw, if_false]
    apply key
    rcases inv with h | h | h
    · exact absurd h hr
    · exact Or.inl h
    · exact Or.inr h


theorem range_succ_reverse_map (g : Nat → Int) (i : Nat) :
    (List.range (i + 1)).reverse.map g = g i :: (List.range i).reverse.map g := by
  simp [List.range_succ]

theorem revAux_length (w : Nat) : ∀ (vs : List Int) (i : Nat) (cm : Int) (ci : Nat),
    (revArgcumminAux w i cm ci vs).length = vs.length := by
  intro vs
  induction vs with
  | nil => intro i cm ci; simp [revArgcumminAux]
  | cons v vs ih =>
    intro i cm ci
    simp only [revArgcumminAux]
    split <;> split <;> simp [ih]

theorem rev_spec (w n : Nat) (hw : 0 < w) (g : Nat → Int) (hg : ∀ j, g j < int64Max) :
    ∀ (i : Nat) (cm : Int) (ci : Nat), i < n →
      (i % w + 1 = w ∨ (cm = int64Max ∧ i + 1 = chunkEnd w n i) ∨
        (cm = g ci ∧ IsLeftMin g (i + 1) (chunkEnd w n i) ci)) →
      ∀ j, j ≤ i → ∃ p, (revArgcumminAux w i cm ci ((List.range (i + 1)).reverse.map g))[j]? = some p ∧
        IsLeftMin g (i - j) (chunkEnd w n (i - j)) p := by
  intro i
  induction i with
  | zero =>
    intro cm ci hi inv j hj
    have hj0 : j = 0 := by omega
    subst hj0
    obtain ⟨p, heq, hp⟩ := rev_step w n hw g hg 0 hi cm ci [] inv
    have : (List.range (0 + 1)).reverse.map g = [g 0] := by simp
    rw [this, heq]
    exact ⟨p, by simp, by simpa using hp⟩
  | succ i ih =>
    intro cm ci hi inv j hj
    rw [range_succ_reverse_map]
    obtain ⟨p, heq, hp⟩ := rev_step w n hw g hg (i + 1) hi cm ci _ inv
    rw [heq]
    cases j with
    | zero => exact ⟨p, by simp, by simpa using hp⟩
    | succ j =>
      have hmod : i % w < w := Nat.mod_lt _ hw
      have inv' : i % w + 1 = w ∨ (g p = int64Max ∧ i + 1 = chunkEnd w n i) ∨
          (g p = g p ∧ IsLeftMin g (i + 1) (chunkEnd w n i) p) := by
        by_cases h : i % w + 1 < w
        · right; right
          refine ⟨rfl, ?_⟩
          have : chunkEnd w n i = chunkEnd w n (i + 1) := by
            unfold chunkEnd; rw [(succ_same_chunk w i hw h).1]
          rw [this]; exact hp
        · left; omega
      obtain ⟨q, hq1, hq2⟩ := ih (g p) p (by omega) inv' j (by omega)
      refine ⟨q, by simpa using hq1, ?_⟩
      have : i + 1 - (j + 1) = i - j := by omega
      rw [this]; exact hq2

end BiotiteModel.C10

import BiotiteModel.Proofs.C08AffDistinct
import BiotiteModel.Proofs.C08LookupLocal
/-! Affine traceback: start nodes, lookup = recurrence, keys for distinctness across start nodes. -/
namespace BiotiteModel.C08


def endKeyLast : Aln → Nat × Nat
  | [] => (0, 0)
  | [.both i j] => (i + 1, j + 1)
  | [_] => (0, 0)
  | _ :: c :: r => endKeyLast (c :: r)

theorem endKeyLast_spec (x : Aln) : ∀ (p0 p : Nat × Nat) (k : Kind), walk p0 x = some p → x ≠ [] →
    lastKind k x = .m → endKeyLast x = p := by
  induction x with
  | nil => intro _ _ _ _ h; exact absurd rfl h
  | cons c r ih =>
    intro p0 p k hw _ hk
    obtain ⟨hs, hw2⟩ := walk_cons_some hw
    cases r with
    | nil =>
      simp [walk] at hw2
      simp only [lastKind] at hk
      obtain ⟨i, j⟩ := p0
      cases c <;> simp [Col.kind] at hk
      rename_i i' j'
      simp only [stepPos] at hs
      split at hs
      · rename_i hh; obtain ⟨rfl, rfl⟩ := hh
        simp [adv] at hw2; subst hw2; rfl
      · simp at hs
    | cons c' r' =>
      simp only [lastKind] at hk
      have := ih (adv p0 c) p c.kind hw2 (by simp) (by simpa [lastKind] using hk)
      simpa [endKeyLast] using this

theorem filterMap_congr' {α β : Type} (l : List α) (f g : α → Option β) (h : ∀ x ∈ l, f x = g x) :
    l.filterMap f = l.filterMap g := by
  induction l with
  | nil => rfl
  | cons x r ih =>
    simp only [List.filterMap_cons, h x List.mem_cons_self, ih (fun y hy => h y (List.mem_cons_of_mem _ hy))]

theorem startsAff_congr (mode : Mode) (T T' : Nat → Nat → AffCell) (n m : Nat)
    (h : ∀ i j, i ≤ n → j ≤ m → T i j = T' i j) : startsAff mode T n m = startsAff mode T' n m := by
  have hcells : ∀ p ∈ ((List.range (n + 1)).flatMap fun i => (List.range (m + 1)).map fun j => (i, j)),
      T p.1 p.2 = T' p.1 p.2 := fun p hp => by
    obtain ⟨h1, h2⟩ := cells_mem n m p hp; exact h _ _ h1 h2
  cases mode with
  | global => simp only [startsAff, h n m (Nat.le_refl _) (Nat.le_refl _)]
  | semi => simp only [startsAff, h n m (Nat.le_refl _) (Nat.le_refl _)]
  | «local» =>
    simp only [startsAff]
    rw [filterMap_congr' _ _ (fun p => (T' p.1 p.2).m) (fun p hp => by rw [hcells p hp])]
    congr 1
    apply List.filter_congr
    intro p hp
    rw [hcells p hp]

theorem startsAff_range (mode : Mode) (T : Nat → Nat → AffCell) (n m : Nat) (s : ANode)
    (h : s ∈ startsAff mode T n m) : s.1.1 ≤ n ∧ s.1.2 ≤ m := by
  cases mode with
  | global => obtain ⟨h1, _⟩ := startsAff_mem .global (by decide) T n m s h; rw [h1]; simp
  | semi => obtain ⟨h1, _⟩ := startsAff_mem .semi (by decide) T n m s h; rw [h1]; simp
  | «local» =>
    simp only [startsAff, List.mem_map, List.mem_filter] at h
    obtain ⟨p, ⟨hp, _⟩, rfl⟩ := h
    exact cells_mem n m p hp

theorem tracesAff_lookup (mode : Mode) (M : Mat) (go ge : Int) (a b : Seq) (mx : Nat) :
    tracesAff mode M go ge a b (affLookup (fillAff mode M go ge a b)) mx =
      tracesAff mode M go ge a b (affRec mode M go ge a b).val mx := by
  unfold tracesAff
  have hT : ∀ i j, i ≤ a.length → j ≤ b.length →
      affLookup (fillAff mode M go ge a b) i j = (affRec mode M go ge a b).val i j :=
    fun i j hi hj => affLookup_fill mode M go ge a b i j hi hj
  rw [startsAff_congr mode _ (affRec mode M go ge a b).val _ _ hT]
  congr 1
  apply flatMap_congr'
  intro s hs
  rw [followAff_congr mode M go ge a b _ _ a.length b.length hT mx _ 1 s [] (startsAff_range mode _ _ _ s hs)]

/-- local start nodes: a cell whose match-table value is the table maximum `optAff .local` -/
theorem startsAff_local_mem (M : Mat) (go ge : Int) (a b : Seq) (s : ANode)
    (h : s ∈ startsAff .local (affRec .local M go ge a b).val a.length b.length) :
    s.2 = .m ∧ s.1.1 ≤ a.length ∧ s.1.2 ≤ b.length ∧
      ((affRec .local M go ge a b).val s.1.1 s.1.2).m = some (optAff .local M go ge a b) := by
  simp only [startsAff, List.mem_map, List.mem_filter, beq_iff_eq] at h
  obtain ⟨p, ⟨hp, hv⟩, rfl⟩ := h
  obtain ⟨h1, h2⟩ := cells_mem _ _ p hp
  refine ⟨rfl, h1, h2, ?_⟩
  rw [hv]
  congr 2
  have e : (((List.range (a.length + 1)).flatMap fun i => (List.range (b.length + 1)).map fun j => (i, j)).map
      fun p : Nat × Nat => (affRec .local M go ge a b).val p.1 p.2) =
      (List.range (a.length + 1)).flatMap fun i => (List.range (b.length + 1)).map ((affRec .local M go ge a b).val i) := by
    rw [List.map_flatMap]
    simp [List.map_map, Function.comp_def]
  rw [← e, List.filterMap_map]
  rfl

theorem startsAff_nodup (mode : Mode) (T : Nat → Nat → AffCell) (n m : Nat) : (startsAff mode T n m).Nodup := by
  have h3 : ∀ (c : AffCell), (([(Kind.m, c.m), (Kind.ga, c.g1), (Kind.gb, c.g2)].filter
      fun x => x.2.isSome && x.2 == c.best).map fun x => ((n, m), x.1)).Nodup := by
    intro c
    simp only [List.filter_cons, List.filter_nil]
    by_cases h1 : (c.m.isSome && c.m == c.best) = true <;> by_cases h2 : (c.g1.isSome && c.g1 == c.best) = true <;>
      by_cases h3 : (c.g2.isSome && c.g2 == c.best) = true <;> simp [h1, h2, h3]
  cases mode with
  | global => exact h3 _
  | semi => exact h3 _
  | «local» =>
    simp only [startsAff]
    unfold List.Nodup
    rw [List.pairwise_map]
    have hc : ((List.range (n + 1)).flatMap fun i => (List.range (m + 1)).map fun j => (i, j)).Nodup := by
      apply flatMap_nodup_key Prod.fst _ _ List.nodup_range
      · intro i _
        unfold List.Nodup
        rw [List.pairwise_map]
        exact List.Pairwise.imp (fun h => by simpa using h) List.nodup_range
      · intro i _ x hx
        obtain ⟨j, _, rfl⟩ := List.mem_map.mp hx
        rfl
    exact List.Pairwise.imp (fun h => by simpa using h) (List.Pairwise.filter _ hc)



/-- the last column of a trace yielded from a real node has the node's state -/
theorem followAff_lastKind (mode : Mode) (M : Mat) (go ge : Int) (a b : Seq) (mx fuel c : Nat) (s : ANode)
    (hR : RealN mode (affRec mode M go ge a b).val s) (x : Aln)
    (hx : x ∈ (followG (nextAff mode M go ge a b (affRec mode M go ge a b).val) mx fuel s [] c).1) :
    lastKind .m x = s.2 ∧ ∃ p0, walk p0 x = some s.1 := by
  cases mode with
  | global =>
    obtain ⟨pre, s0, he, _, _, hw, _, _, hk⟩ := followG_good _ (fun s => s.1) (fun s => s.2)
      (fun s => (valN .global (affRec .global M go ge a b).val s).getD 0)
      (RealN .global (affRec .global M go ge a b).val) (costAffK .global M go ge a b) mx
      (hnext_aff_global M go ge a b)
      (fun s hR hn => ⟨(hend_aff_global M go ge a b s hR hn).1, (hend_aff_global M go ge a b s hR hn).2.1⟩)
      fuel s [] c hR x hx
    simp only [List.append_nil] at he; subst he
    exact ⟨hk, s0.1, hw⟩
  | semi =>
    obtain ⟨pre, s0, he, _, _, hw, _, _, hk⟩ := followG_good _ (fun s => s.1) (fun s => s.2)
      (fun s => (valN .semi (affRec .semi M go ge a b).val s).getD 0)
      (RealN .semi (affRec .semi M go ge a b).val) (costAffK .semi M go ge a b) mx
      (hnext_aff_semi M go ge a b)
      (fun s hR hn => ⟨(hend_aff_semi M go ge a b s hR hn).1, (hend_aff_semi M go ge a b s hR hn).2.1⟩)
      fuel s [] c hR x hx
    simp only [List.append_nil] at he; subst he
    exact ⟨hk, s0.1, hw⟩
  | «local» =>
    obtain ⟨pre, s0, he, _, _, hw, _, _, hk⟩ := followG_good _ (fun s => s.1) (fun s => s.2)
      (fun s => (valN .local (affRec .local M go ge a b).val s).getD 0)
      (RealN .local (affRec .local M go ge a b).val) (costAffK .local M go ge a b) mx
      (hnext_aff_local M go ge a b) (hend_aff_local M go ge a b) fuel s [] c hR x hx
    simp only [List.append_nil] at he; subst he
    exact ⟨hk, s0.1, hw⟩

theorem startsAff_real (mode : Mode) (M : Mat) (go ge : Int) (a b : Seq) (s : ANode)
    (h : s ∈ startsAff mode (affRec mode M go ge a b).val a.length b.length) :
    RealN mode (affRec mode M go ge a b).val s := by
  cases mode with
  | global =>
    obtain ⟨h1, hk, v, hv, _⟩ := startsAff_mem .global (by decide) _ _ _ s h
    obtain ⟨p, k⟩ := s
    simp only at h1 hk hv; subst h1
    exact ⟨v, by rw [valN_nonlocal .global (by decide) _ _ _ hk]; exact hv⟩
  | semi =>
    obtain ⟨h1, hk, v, hv, _⟩ := startsAff_mem .semi (by decide) _ _ _ s h
    obtain ⟨p, k⟩ := s
    simp only at h1 hk hv; subst h1
    exact ⟨v, by rw [valN_nonlocal .semi (by decide) _ _ _ hk]; exact hv⟩
  | «local» =>
    obtain ⟨hk, _, _, hv⟩ := startsAff_local_mem M go ge a b s h
    obtain ⟨p, k⟩ := s
    simp only at hk hv; subst hk
    exact ⟨_, valN_local_m M go ge a b p _ hv⟩

end BiotiteModel.C08

import BiotiteModel.Proofs.C10
/-! Helper lemmas for `C10_pickle`: `_unpickle_c_arrays ∘ _pickle_c_arrays = id` on the model's layout
(concatenated 32-bit words + per-slot lengths). -/
namespace BiotiteModel.C10

theorem parse_flat_bucketed (slot : Nat) : ∀ ents : List Entry,
    parseEntries true slot (ents.flatMap (entryWords true)) = ents := by
  intro ents
  induction ents with
  | nil => simp [parseEntries]
  | cons e es ih =>
    simp only [List.flatMap_cons, entryWords, if_true, List.cons_append, List.nil_append, parseEntries, ih]
    have : e.kmer % 2 ^ 32 + 2 ^ 32 * (e.kmer / 2 ^ 32) = e.kmer := Nat.mod_add_div _ _
    rw [this]

theorem parse_flat_direct (slot : Nat) : ∀ ents : List Entry, (∀ e ∈ ents, e.kmer = slot) →
    parseEntries false slot (ents.flatMap (entryWords false)) = ents := by
  intro ents
  induction ents with
  | nil => intro _; simp [parseEntries]
  | cons e es ih =>
    intro h
    have he : e.kmer = slot := h e (by simp)
    have ih' := ih (fun x hx => h x (by simp [hx]))
    cases es with
    | nil =>
      simp only [List.flatMap_cons, List.flatMap_nil, entryWords, Bool.false_eq_true, if_false,
        List.append_nil, parseEntries]
      cases e; simp_all
    | cons e2 es2 =>
      simp only [List.flatMap_cons, entryWords, Bool.false_eq_true, if_false, List.cons_append,
        List.nil_append, parseEntries] at ih' ⊢
      rw [ih']
      cases e; simp_all

theorem parse_flat (bucketed : Bool) (slot : Nat) (ents : List Entry)
    (h : bucketed = false → ∀ e ∈ ents, e.kmer = slot) :
    parseEntries bucketed slot (ents.flatMap (entryWords bucketed)) = ents := by
  cases bucketed with
  | true => exact parse_flat_bucketed slot ents
  | false => exact parse_flat_direct slot ents (h rfl)

theorem pickle_none (bucketed : Bool) (r : Slots) :
    pickleSlots bucketed (none :: r) = ((pickleSlots bucketed r).1, 0 :: (pickleSlots bucketed r).2) := by
  simp [pickleSlots]

theorem pickle_some (bucketed : Bool) (b : Bucket) (r : Slots) :
    pickleSlots bucketed (some b :: r)
      = (bucketWords bucketed b ++ (pickleSlots bucketed r).1,
         (bucketWords bucketed b).length :: (pickleSlots bucketed r).2) := by
  simp [pickleSlots]

theorem pickle_roundtrip (bucketed : Bool) : ∀ (slots : Slots) (s0 : Nat),
    (∀ j b, slots[j]? = some (some b) →
      b.cap = b.ents.length ∧ (bucketed = false → ∀ e ∈ b.ents, e.kmer = s0 + j)) →
    unpickleSlots bucketed s0 (pickleSlots bucketed slots).1 (pickleSlots bucketed slots).2 = slots := by
  intro slots
  induction slots with
  | nil => intro s0 _; simp [pickleSlots, unpickleSlots]
  | cons s r ih =>
    intro s0 h
    have ihr := ih (s0 + 1) (fun j b hj => by
      have := h (j + 1) b (by simpa using hj)
      refine ⟨this.1, fun hb e he => ?_⟩
      have := this.2 hb e he
      omega)
    cases s with
    | none =>
      rw [pickle_none]
      simp only [unpickleSlots, if_true, ihr]
    | some b =>
      rw [pickle_some]
      obtain ⟨hcap, hk⟩ := h 0 b (by simp)
      have hlen : (bucketWords bucketed b).length ≠ 0 := by simp [bucketWords]
      have htake : ((bucketWords bucketed b ++ (pickleSlots bucketed r).1).take (bucketWords bucketed b).length).drop 2
          = b.ents.flatMap (entryWords bucketed) := by
        rw [List.take_left']
        · simp [bucketWords]
        · rfl
      have hdrop : (bucketWords bucketed b ++ (pickleSlots bucketed r).1).drop (bucketWords bucketed b).length
          = (pickleSlots bucketed r).1 := by
        rw [List.drop_left']
        rfl
      simp only [unpickleSlots, hlen, if_false, htake, hdrop, ihr]
      rw [parse_flat bucketed s0 b.ents (fun hb e he => by simpa using hk hb e he)]
      cases b; simp_all


/-- a table as every constructor produces it: blocks exactly full; in a direct table slot `j` holds
entries of k-mer `j` only (the k-mer is not stored there, it *is* the slot index) -/
def Table.Full (t : Table) : Prop :=
  ∀ (j : Nat) (b : Bucket), t.slots[j]? = some (some b) →
    b.cap = b.ents.length ∧ (t.bucketed = false → ∀ e ∈ b.ents, e.kmer = j)

theorem pickleRoundTrip_eq (t : Table) (h : t.Full) : pickleRoundTrip t = t := by
  have := pickle_roundtrip t.bucketed t.slots 0 (by simpa [Table.Full] using h)
  unfold pickleRoundTrip
  cases t
  simp_all

theorem canonTable_full (a : KAlph) (bucketed : Bool) (nb : Nat) (items : List Entry) :
    (canonTable a bucketed nb items).Full := by
  unfold Table.Full
  intro j b hj
  simp only [canonTable, canon, List.getElem?_map] at hj
  cases hr : (List.range nb)[j]? with
  | none => simp [hr] at hj
  | some j' =>
    have hjj : j' = j := by
      have := List.getElem?_eq_some_iff.1 hr
      obtain ⟨_, h2⟩ := this
      simpa using h2.symm
    subst hjj
    simp only [hr, Option.map_some, Option.some.injEq] at hj
    split at hj
    · simp at hj
    · simp only [Option.some.injEq] at hj
      subst hj
      refine ⟨rfl, ?_⟩
      intro hb e he
      subst hb
      simp only [List.mem_filter, hashOf, Bool.false_eq_true, if_false, beq_iff_eq] at he
      exact he.2

end BiotiteModel.C10

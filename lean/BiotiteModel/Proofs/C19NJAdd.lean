import BiotiteModel.Proofs.C19NJ
import BiotiteModel.Proofs.C19Binary
import BiotiteModel.Proofs.C19Rows
import Mathlib.Tactic.Ring
import Mathlib.Tactic.Linarith
import Mathlib.Tactic.FieldSimp
/-! Neighbour joining on additive matrices: branch lengths of a joined cherry, the reduced matrix,
and (given that every selected pair is a cherry) exact recovery of all path lengths. -/
namespace BiotiteModel.C19

/-! ### labelled rows: leaf index, depth, distances to the later leaves -/
abbrev LRows := List (Nat × Rat × List Rat)

def shiftL (x : Rat) (R : LRows) : LRows := R.map fun r => (r.1, r.2.1 + x, r.2.2)
def dsL (x : Rat) (B : LRows) : List Rat := B.map fun b => x + b.2.1
def glueL (A B : LRows) : LRows := A.map (fun a => (a.1, a.2.1, a.2.2 ++ dsL a.2.1 B)) ++ B

mutual
def T.lrows : T Rat → LRows
  | .leaf i => [(i, 0, [])]
  | .node cs => cs.lrows
def F.lrows : F Rat → LRows
  | .nil => []
  | .cons d c r => glueL (shiftL d c.lrows) r.lrows
end

def unlabel (R : LRows) : Rows := R.map fun r => (r.2.1, r.2.2)

theorem unlabel_glueL (A B : LRows) : unlabel (glueL A B) = glue (unlabel A) (unlabel B) := by
  simp [unlabel, glueL, glue, dsL, ds, List.map_map, Function.comp_def]

theorem unlabel_shiftL (x : Rat) (A : LRows) : unlabel (shiftL x A) = shift x (unlabel A) := by
  simp [unlabel, shiftL, shift, List.map_map, Function.comp_def]

mutual
/-- `lrows` is `rows` with the leaf index attached. -/
theorem T.unlabel_lrows : ∀ t : T Rat, unlabel t.lrows = t.rows
  | .leaf _ => rfl
  | .node cs => by simpa [T.lrows, T.rows] using F.unlabel_lrows cs
theorem F.unlabel_lrows : ∀ f : F Rat, unlabel f.lrows = f.rows
  | .nil => rfl
  | .cons d c r => by
    simp [F.lrows, F.rows, unlabel_glueL, unlabel_shiftL, T.unlabel_lrows c, F.unlabel_lrows r]
end

mutual
theorem T.lrows_fst : ∀ t : T Rat, t.lrows.map (·.1) = t.leaves
  | .leaf _ => rfl
  | .node cs => by simpa [T.lrows, T.leaves] using F.lrows_fst cs
theorem F.lrows_fst : ∀ f : F Rat, f.lrows.map (·.1) = f.leaves
  | .nil => rfl
  | .cons d c r => by
    simp [F.lrows, F.leaves, glueL, shiftL, List.map_map, Function.comp_def, ← T.lrows_fst c, ← F.lrows_fst r]
end

/-- Every row lists the original distances `D` from its leaf to the later leaves. -/
def Intra (D : Nat → Nat → Rat) : LRows → Prop
  | [] => True
  | r :: R => r.2.2 = R.map (fun b => D r.1 b.1) ∧ Intra D R

/-- Leaves of two groups whose roots are at distance `c`: `D x y = depth x + c + depth y`. -/
def Cross (D : Nat → Nat → Rat) (A B : LRows) (c : Rat) : Prop :=
  ∀ a ∈ A, ∀ b ∈ B, D a.1 b.1 = a.2.1 + c + b.2.1

theorem glueL_nil (A : LRows) : glueL A [] = A := by simp [glueL, dsL]

theorem intra_shiftL (D : Nat → Nat → Rat) (x : Rat) : ∀ R : LRows, Intra D R → Intra D (shiftL x R)
  | [], _ => trivial
  | r :: R, h => by
    refine ⟨?_, intra_shiftL D x R h.2⟩
    simp only [shiftL, List.map_map, Function.comp_def]
    exact h.1

theorem intra_glueL (D : Nat → Nat → Rat) (B : LRows) (hB : Intra D B) :
    ∀ A : LRows, Intra D A → Cross D A B 0 → Intra D (glueL A B)
  | [], _, _ => by simpa [glueL] using hB
  | a :: A, hA, hc => by
    have ih := intra_glueL D B hB A hA.2 (fun x hx y hy => hc x (List.mem_cons_of_mem _ hx) y hy)
    refine ⟨?_, ih⟩
    show a.2.2 ++ dsL a.2.1 B
        = (A.map (fun a => (a.1, a.2.1, a.2.2 ++ dsL a.2.1 B)) ++ B).map (fun b => D a.1 b.1)
    have e1 : (A.map (fun a => (a.1, a.2.1, a.2.2 ++ dsL a.2.1 B))).map (fun b => D a.1 b.1)
        = A.map (fun b => D a.1 b.1) := by
      simp [List.map_map, Function.comp_def]
    rw [List.map_append, e1, ← hA.1]
    congr 1
    simp only [dsL]
    apply List.map_congr_left
    intro b hb
    have := hc a (by simp) b hb
    rw [this]; ring

theorem mem_glueL {A B : LRows} {r : Nat × Rat × List Rat} (h : r ∈ glueL A B) :
    (∃ a ∈ A, r.1 = a.1 ∧ r.2.1 = a.2.1) ∨ r ∈ B := by
  simp only [glueL, List.mem_append, List.mem_map] at h
  rcases h with ⟨a, ha, rfl⟩ | h
  · exact Or.inl ⟨a, ha, rfl, rfl⟩
  · exact Or.inr h

theorem mem_shiftL {x : Rat} {A : LRows} {r : Nat × Rat × List Rat} (h : r ∈ shiftL x A) :
    ∃ a ∈ A, r.1 = a.1 ∧ r.2.1 = a.2.1 + x := by
  simp only [shiftL, List.mem_map] at h
  obtain ⟨a, ha, rfl⟩ := h
  exact ⟨a, ha, rfl, rfl⟩

/-- Hanging `A` on a branch `x` and `B` on a branch `y` under a common parent. -/
theorem cross_shift (D : Nat → Nat → Rat) (A B : LRows) (c x y : Rat) (h : Cross D A B c) (hxy : x + y = c) :
    Cross D (shiftL x A) (shiftL y B) 0 := by
  intro a ha b hb
  obtain ⟨a', ha', e1, e2⟩ := mem_shiftL ha
  obtain ⟨b', hb', e3, e4⟩ := mem_shiftL hb
  rw [e1, e2, e3, e4, h a' ha' b' hb', ← hxy]; ring

/-! ### sums over the live positions -/
theorem foldl_eq_sum (cl : Nat → Bool) (f : Nat → Rat) : ∀ (l : List Nat) (acc : Rat),
    l.foldl (fun acc k => if cl k then acc else acc + f k) acc
      = acc + (l.map fun k => if cl k then 0 else f k).sum := by
  intro l
  induction l with
  | nil => intro acc; simp
  | cons a l ih =>
    intro acc
    simp only [List.foldl_cons, List.map_cons, List.sum_cons, ih]
    cases cl a <;> simp <;> ring

theorem divergence_eq_sum (n : Nat) (s : NState) (i : Nat) :
    divergence n s i = ((List.range n).map fun k => if s.cl k then 0 else s.d i k).sum := by
  unfold divergence
  rw [foldl_eq_sum]; simp

theorem sum_map_sub (f g : Nat → Rat) : ∀ l : List Nat,
    (l.map f).sum - (l.map g).sum = (l.map fun k => f k - g k).sum := by
  intro l
  induction l with
  | nil => simp
  | cons a l ih => simp only [List.map_cons, List.sum_cons, ← ih]; ring

theorem sum_map_add (f g : Nat → Rat) : ∀ l : List Nat,
    (l.map fun k => f k + g k).sum = (l.map f).sum + (l.map g).sum := by
  intro l
  induction l with
  | nil => simp
  | cons a l ih => simp only [List.map_cons, List.sum_cons, ih]; ring

theorem sum_zero_rat (e : Nat → Rat) : ∀ l : List Nat, (∀ k ∈ l, e k = 0) → (l.map e).sum = 0 := by
  intro l
  induction l with
  | nil => intro _; rfl
  | cons a l ih =>
    intro h
    simp [h a (by simp), ih (fun k hk => h k (List.mem_cons_of_mem _ hk))]

/-- Peel one point off a sum over a duplicate-free list. -/
theorem sum_peel (g : Nat → Rat) (a : Nat) : ∀ l : List Nat, l.Nodup → a ∈ l →
    (l.map g).sum = g a + (l.map fun k => if k = a then 0 else g k).sum := by
  intro l
  induction l with
  | nil => intro _ h; simp at h
  | cons b l ih =>
    intro hnd ha
    have hnd' := List.nodup_cons.mp hnd
    by_cases hba : b = a
    · subst hba
      have : (l.map fun k => if k = b then 0 else g k) = l.map g := by
        apply List.map_congr_left
        intro k hk
        have : k ≠ b := fun e => hnd'.1 (e ▸ hk)
        simp [this]
      simp [this]
    · have ha' : a ∈ l := by
        rcases List.mem_cons.mp ha with h | h
        · exact absurd h.symm hba
        · exact h
      simp only [List.map_cons, List.sum_cons, hba, if_false, ih hnd'.2 ha']
      ring

theorem sum_live_const (n : Nat) (cl : Nat → Bool) (c : Rat) :
    ((List.range n).map fun k => if cl k then 0 else c).sum = c * (liveCount n cl : Rat) := by
  unfold liveCount
  induction n with
  | zero => simp
  | succ n ih =>
    rw [List.range_succ, List.map_append, List.sum_append, List.map_append, List.sum_append, ih]
    cases h : cl n <;> simp [h] <;> ring


/-! ### the pieces of one pass of `neighbor_joining`, named -/
def brI (n : Nat) (s : NState) (i j : Nat) : Rat :=
  (1 : Rat) / 2 * (s.d i j + 1 / (((s.nrem : Int) - 2 : Int) : Rat) * (divergence n s i - divergence n s j))
def brJ (n : Nat) (s : NState) (i j : Nat) : Rat :=
  (1 : Rat) / 2 * (s.d i j + 1 / (((s.nrem : Int) - 2 : Int) : Rat) * (divergence n s j - divergence n s i))
def brK (s : NState) (i j k : Nat) : Rat := (1 : Rat) / 2 * (s.d i k + s.d j k - s.d i j)

def njMerge (n : Nat) (s : NState) (i j : Nat) : NState :=
  { d := fun a b =>
      if a = i ∧ b < n ∧ !(upd s.cl j true) b ∧ b ≠ i then brK s i j b
      else if b = i ∧ a < n ∧ !(upd s.cl j true) a ∧ a ≠ i then brK s i j a
      else s.d a b,
    cl := upd s.cl j true,
    nd := upd s.nd i (.node (.cons (brI n s i j) (s.nd i) (.cons (brJ n s i j) (s.nd j) .nil))),
    nrem := n - countClustered n (upd s.cl j true) }

theorem njStep_eq (n : Nat) (s : NState) :
    njStep n s =
      match scanMin (corrected n s) s.cl n with
      | none => none
      | some (_, i, j) =>
        if s.nrem > 3 then some (.inl (njMerge n s i j))
        else
          match (List.range n).find? (fun k => !(upd (upd s.cl i true) j true) k) with
          | none => none
          | some k => some (.inr (.node (.cons (brI n s i j) (s.nd i) (.cons (brJ n s i j) (s.nd j)
              (.cons (brK s i j k) (s.nd k) .nil))))) := rfl

/-- Metric side conditions on the live part of the working matrix. -/
structure NMetric (n : Nat) (s : NState) : Prop where
  sym : ∀ a b, a < n → b < n → s.cl a = false → s.cl b = false → s.d a b = s.d b a
  diag : ∀ a, a < n → s.cl a = false → s.d a a = 0

/-- `i`, `j` form a **cherry** of the current matrix: `d(i,k) − d(j,k)` is the same for every other
live `k` (every other taxon attaches to the path `i — j` at the same point). -/
def ConstDiff (n : Nat) (s : NState) (i j : Nat) : Prop :=
  ∀ k l, k < n → l < n → s.cl k = false → s.cl l = false → k ≠ i → k ≠ j → l ≠ i → l ≠ j →
    s.d i k - s.d j k = s.d i l - s.d j l

/-- Difference of the divergences of a cherry. -/
theorem div_diff {n : Nat} {s : NState} (hm : NMetric n s) (hrem : s.nrem = liveCount n s.cl)
    {i j k0 : Nat} (hi : i < n) (hj : j < n) (hij : i ≠ j) (hci : s.cl i = false) (hcj : s.cl j = false)
    (hcd : ConstDiff n s i j) (hk : k0 < n) (hck : s.cl k0 = false) (hki : k0 ≠ i) (hkj : k0 ≠ j) :
    divergence n s i - divergence n s j = ((s.nrem : Rat) - 2) * (s.d i k0 - s.d j k0) := by
  rw [divergence_eq_sum, divergence_eq_sum, sum_map_sub]
  set c := s.d i k0 - s.d j k0 with hc
  -- split every term into the constant part and a correction supported on {i, j}
  have hsplit : ∀ k ∈ List.range n,
      ((if s.cl k then 0 else s.d i k) - (if s.cl k then 0 else s.d j k) : Rat)
        = (if s.cl k then 0 else c) +
          (if k = i then (-(s.d i j) - c) else if k = j then (s.d i j - c) else 0) := by
    intro k hkr
    have hkn := List.mem_range.mp hkr
    by_cases h1 : k = i
    · subst h1
      simp [hci, hm.diag k hi hci, hm.sym j k hj hi hcj hci]
    · by_cases h2 : k = j
      · subst h2
        simp [hcj, hm.diag k hj hcj, h1]
      · cases hck' : s.cl k with
        | true => simp [h1, h2]
        | false =>
          simp only [h1, h2, if_false, Bool.false_eq_true]
          rw [hcd k k0 hkn hk hck' hck h1 h2 hki hkj]
          ring
  rw [List.map_congr_left hsplit, sum_map_add, sum_live_const, ← hrem,
    sum_peel _ i (List.range n) List.nodup_range (List.mem_range.mpr hi),
    sum_peel _ j (List.range n) List.nodup_range (List.mem_range.mpr hj)]
  have hz : ((List.range n).map fun k => if k = j then (0 : Rat) else
      (fun k => if k = i then (0 : Rat) else
        (if k = i then (-(s.d i j) - c) else if k = j then (s.d i j - c) else 0)) k).sum = 0 := by
    apply sum_zero_rat
    intro k _
    by_cases h1 : k = i <;> by_cases h2 : k = j <;> simp [h1, h2]
  rw [hz]
  have hji : j ≠ i := fun e => hij e.symm
  simp [hji]
  ring

/-- **Branch lengths of a joined cherry** (`C19_nj_join_lengths`): they add up to `d(i,j)` for any
pair, and for a cherry they are the three-point formulas with *any* other live taxon `k`. -/
theorem nj_join_lengths {n : Nat} {s : NState} (hm : NMetric n s) (hrem : s.nrem = liveCount n s.cl)
    (h3 : 3 ≤ s.nrem)
    {i j k0 : Nat} (hi : i < n) (hj : j < n) (hij : i ≠ j) (hci : s.cl i = false) (hcj : s.cl j = false)
    (hcd : ConstDiff n s i j) (hk : k0 < n) (hck : s.cl k0 = false) (hki : k0 ≠ i) (hkj : k0 ≠ j) :
    brI n s i j = 1 / 2 * (s.d i j + s.d i k0 - s.d j k0) ∧
    brJ n s i j = 1 / 2 * (s.d i j + s.d j k0 - s.d i k0) ∧
    brI n s i j + brJ n s i j = s.d i j := by
  have hd := div_diff hm hrem hi hj hij hci hcj hcd hk hck hki hkj
  have hr : ((((s.nrem : Int) - 2 : Int) : Rat)) = (s.nrem : Rat) - 2 := by push_cast; ring
  have hr0 : (s.nrem : Rat) - 2 ≠ 0 := by
    have : (3 : Rat) ≤ (s.nrem : Rat) := by exact_mod_cast h3
    intro h; linarith
  have hd' : divergence n s j - divergence n s i = -(((s.nrem : Rat) - 2) * (s.d i k0 - s.d j k0)) := by
    rw [← hd]; ring
  refine ⟨?_, ?_, ?_⟩
  · unfold brI; rw [hr, hd]; field_simp; ring
  · unfold brJ; rw [hr, hd']; field_simp; ring
  · unfold brI brJ; rw [hr, hd, hd']; field_simp; ring


theorem br_sum (n : Nat) (s : NState) (i j : Nat) : brI n s i j + brJ n s i j = s.d i j := by
  unfold brI brJ; ring

/-- Invariant of the merge loop on an additive matrix `D`: inside every live subtree the rows list
the original distances, and leaves of two live subtrees are at `depth + d(a,b) + depth`. -/
structure NAInv (n : Nat) (D : Nat → Nat → Rat) (s : NState) : Prop where
  metric : NMetric n s
  intra : ∀ k, k < n → s.cl k = false → Intra D (s.nd k).lrows
  cross : ∀ a b, a < n → b < n → s.cl a = false → s.cl b = false → a ≠ b →
    Cross D (s.nd a).lrows (s.nd b).lrows (s.d a b)

theorem cross_new_left (D : Nat → Nat → Rat) (Ri Rj B : LRows) (ci cj bi bj e : Rat)
    (h1 : Cross D Ri B ci) (h2 : Cross D Rj B cj) (e1 : bi + e = ci) (e2 : bj + e = cj) :
    Cross D (glueL (shiftL bi Ri) (shiftL bj Rj)) B e := by
  intro r hr b hb
  rcases mem_glueL hr with ⟨a, ha, f1, f2⟩ | hr
  · obtain ⟨a', ha', g1, g2⟩ := mem_shiftL ha
    rw [f1, f2, g1, g2, h1 a' ha' b hb, ← e1]; ring
  · obtain ⟨a', ha', g1, g2⟩ := mem_shiftL hr
    rw [g1, g2, h2 a' ha' b hb, ← e2]; ring

theorem cross_new_right (D : Nat → Nat → Rat) (Ri Rj B : LRows) (ci cj bi bj e : Rat)
    (h1 : Cross D B Ri ci) (h2 : Cross D B Rj cj) (e1 : bi + e = ci) (e2 : bj + e = cj) :
    Cross D B (glueL (shiftL bi Ri) (shiftL bj Rj)) e := by
  intro b hb r hr
  rcases mem_glueL hr with ⟨a, ha, f1, f2⟩ | hr
  · obtain ⟨a', ha', g1, g2⟩ := mem_shiftL ha
    rw [f1, f2, g1, g2, h1 b hb a' ha', ← e1]; ring
  · obtain ⟨a', ha', g1, g2⟩ := mem_shiftL hr
    rw [g1, g2, h2 b hb a' ha', ← e2]; ring

theorem njMerge_d (n : Nat) (s : NState) (i j a b : Nat) :
    (njMerge n s i j).d a b =
      if a = i ∧ b < n ∧ (!(upd s.cl j true) b) = true ∧ b ≠ i then brK s i j b
      else if b = i ∧ a < n ∧ (!(upd s.cl j true) a) = true ∧ a ≠ i then brK s i j a
      else s.d a b := rfl

theorem njMerge_lrows_i (n : Nat) (s : NState) (i j : Nat) :
    ((njMerge n s i j).nd i).lrows
      = glueL (shiftL (brI n s i j) (s.nd i).lrows) (shiftL (brJ n s i j) (s.nd j).lrows) := by
  simp [njMerge, upd, T.lrows, F.lrows, glueL_nil]

/-- **The reduced matrix and the joined subtree keep the invariant** when the joined pair is a cherry. -/
theorem NAInv_merge {n : Nat} {D : Nat → Nat → Rat} {s : NState} (h : NAInv n D s)
    (hrem : s.nrem = liveCount n s.cl) (h3 : 3 ≤ s.nrem)
    {i j : Nat} (hi : i < n) (hj : j < n) (hij : i ≠ j) (hci : s.cl i = false) (hcj : s.cl j = false)
    (hcd : ConstDiff n s i j) : NAInv n D (njMerge n s i j) := by
  have live' : ∀ k, upd s.cl j true k = false → k ≠ j ∧ s.cl k = false := by
    intro k hk
    by_cases hkj : k = j
    · simp [upd, hkj] at hk
    · exact ⟨hkj, by simpa [upd, hkj] using hk⟩
  have hnd : ∀ k, k ≠ i → (njMerge n s i j).nd k = s.nd k := by
    intro k hk; simp [njMerge, upd, hk]
  have lens : ∀ k, k < n → s.cl k = false → k ≠ i → k ≠ j →
      brI n s i j + brK s i j k = s.d i k ∧ brJ n s i j + brK s i j k = s.d j k := by
    intro k hk hck hki hkj
    obtain ⟨e1, e2, _⟩ := nj_join_lengths h.metric hrem h3 hi hj hij hci hcj hcd hk hck hki hkj
    rw [e1, e2]; unfold brK; constructor <;> ring
  have neg : ∀ {x : Nat}, upd s.cl j true x = false → (!(upd s.cl j true) x) = true := by
    intro x hx; simp [hx]
  refine ⟨⟨?_, ?_⟩, ?_, ?_⟩
  · -- symmetry
    intro a b ha hb hca hcb
    obtain ⟨haj, hca0⟩ := live' a hca
    obtain ⟨hbj, hcb0⟩ := live' b hcb
    rw [njMerge_d, njMerge_d]
    by_cases hai : a = i <;> by_cases hbi : b = i
    · subst hai; subst hbi; rfl
    · subst hai
      have c2 : ¬ (b = a ∧ a < n ∧ (!(upd s.cl j true) a) = true ∧ a ≠ a) := fun c => hbi c.1
      rw [if_pos ⟨rfl, hb, neg hcb, hbi⟩, if_neg c2, if_pos ⟨rfl, hb, neg hcb, hbi⟩]
    · subst hbi
      have c1 : ¬ (a = b ∧ b < n ∧ (!(upd s.cl j true) b) = true ∧ b ≠ b) := fun c => hai c.1
      rw [if_neg c1, if_pos ⟨rfl, ha, neg hca, hai⟩, if_pos ⟨rfl, ha, neg hca, hai⟩]
    · have c1 : ¬ (a = i ∧ b < n ∧ (!(upd s.cl j true) b) = true ∧ b ≠ i) := fun c => hai c.1
      have c2 : ¬ (b = i ∧ a < n ∧ (!(upd s.cl j true) a) = true ∧ a ≠ i) := fun c => hbi c.1
      have c3 : ¬ (b = i ∧ a < n ∧ (!(upd s.cl j true) a) = true ∧ a ≠ i) := c2
      have c4 : ¬ (a = i ∧ b < n ∧ (!(upd s.cl j true) b) = true ∧ b ≠ i) := c1
      rw [if_neg c1, if_neg c2, if_neg c2, if_neg c1]
      exact h.metric.sym a b ha hb hca0 hcb0
  · -- zero diagonal
    intro a ha hca
    obtain ⟨haj, hca0⟩ := live' a hca
    rw [njMerge_d]
    have c1 : ¬ (a = i ∧ a < n ∧ (!(upd s.cl j true) a) = true ∧ a ≠ i) := fun c => c.2.2.2 c.1
    rw [if_neg c1, if_neg c1]
    exact h.metric.diag a ha hca0
  · -- intra
    intro k hk hck
    obtain ⟨hkj, hck0⟩ := live' k hck
    by_cases hki : k = i
    · subst hki
      rw [njMerge_lrows_i]
      exact intra_glueL D _ (intra_shiftL D _ _ (h.intra j hj hcj)) _ (intra_shiftL D _ _ (h.intra k hk hck0))
        (cross_shift D _ _ _ _ _ (h.cross k j hk hj hck0 hcj hij) (br_sum n s k j))
    · rw [hnd k hki]; exact h.intra k hk hck0
  · -- cross
    intro a b ha hb hca hcb hab
    obtain ⟨haj, hca0⟩ := live' a hca
    obtain ⟨hbj, hcb0⟩ := live' b hcb
    rw [njMerge_d]
    by_cases hai : a = i
    · subst hai
      have hba : b ≠ a := fun e => hab e.symm
      rw [if_pos ⟨rfl, hb, neg hcb, hba⟩, njMerge_lrows_i, hnd b hba]
      obtain ⟨e1, e2⟩ := lens b hb hcb0 hba hbj
      exact cross_new_left D _ _ _ _ _ _ _ _ (h.cross a b ha hb hca0 hcb0 hab)
        (h.cross j b hj hb hcj hcb0 (fun e => hbj e.symm)) e1 e2
    · by_cases hbi : b = i
      · subst hbi
        have c1 : ¬ (a = b ∧ b < n ∧ (!(upd s.cl j true) b) = true ∧ b ≠ b) := fun c => hai c.1
        rw [if_neg c1, if_pos ⟨rfl, ha, neg hca, hai⟩, njMerge_lrows_i, hnd a hai]
        obtain ⟨e1, e2⟩ := lens a ha hca0 hai haj
        rw [← h.metric.sym a b ha hb hca0 hcb0] at e1
        rw [← h.metric.sym a j ha hj hca0 hcj] at e2
        exact cross_new_right D _ _ _ _ _ _ _ _ (h.cross a b ha hb hca0 hcb0 hab)
          (h.cross a j ha hj hca0 hcj haj) e1 e2
      · have c1 : ¬ (a = i ∧ b < n ∧ (!(upd s.cl j true) b) = true ∧ b ≠ i) := fun c => hai c.1
        have c2 : ¬ (b = i ∧ a < n ∧ (!(upd s.cl j true) a) = true ∧ a ≠ i) := fun c => hbi c.1
        rw [if_neg c1, if_neg c2, hnd a hai, hnd b hbi]
        exact h.cross a b ha hb hca0 hcb0 hab


/-- **The final three-way join** reproduces all distances (no cherry condition needed: with three
live taxa the three branch lengths are determined). -/
theorem NAInv_final {n : Nat} {D : Nat → Nat → Rat} {s : NState} (h : NAInv n D s)
    (hrem : s.nrem = liveCount n s.cl) (h3 : s.nrem = 3)
    {i j k : Nat} (hi : i < n) (hj : j < n) (hk : k < n) (hij : i ≠ j) (hki : k ≠ i) (hkj : k ≠ j)
    (hci : s.cl i = false) (hcj : s.cl j = false) (hck : s.cl k = false) :
    Intra D (T.node (.cons (brI n s i j) (s.nd i) (.cons (brJ n s i j) (s.nd j)
      (.cons (brK s i j k) (s.nd k) .nil)))).lrows := by
  -- only i, j, k are live
  have c1 := liveCount_upd n s.cl i hi hci
  have hcj' : upd s.cl i true j = false := by
    have : j ≠ i := fun e => hij e.symm
    simp [upd, this, hcj]
  have c2 := liveCount_upd n (upd s.cl i true) j hj hcj'
  have hck' : upd (upd s.cl i true) j true k = false := by simp [upd, hki, hkj, hck]
  have honly := only_live n _ k hk hck' (by omega)
  have hcd : ConstDiff n s i j := by
    intro k1 l1 hk1 hl1 hck1 hcl1 a1 a2 a3 a4
    have e1 : k1 = k := by
      apply Classical.byContradiction
      intro hne
      have := honly k1 hk1 hne
      simp [upd, a1, a2, hck1] at this
    have e2 : l1 = k := by
      apply Classical.byContradiction
      intro hne
      have := honly l1 hl1 hne
      simp [upd, a3, a4, hcl1] at this
    rw [e1, e2]
  obtain ⟨e1, e2, e3⟩ := nj_join_lengths h.metric hrem (by omega) hi hj hij hci hcj hcd hk hck hki hkj
  have f1 : brI n s i j + brK s i j k = s.d i k := by rw [e1]; unfold brK; ring
  have f2 : brJ n s i j + brK s i j k = s.d j k := by rw [e2]; unfold brK; ring
  have hl : (T.node (.cons (brI n s i j) (s.nd i) (.cons (brJ n s i j) (s.nd j)
      (.cons (brK s i j k) (s.nd k) .nil)))).lrows
      = glueL (shiftL (brI n s i j) (s.nd i).lrows)
          (glueL (shiftL (brJ n s i j) (s.nd j).lrows) (shiftL (brK s i j k) (s.nd k).lrows)) := by
    simp [T.lrows, F.lrows, glueL_nil]
  rw [hl]
  have inner : Intra D (glueL (shiftL (brJ n s i j) (s.nd j).lrows) (shiftL (brK s i j k) (s.nd k).lrows)) :=
    intra_glueL D _ (intra_shiftL D _ _ (h.intra k hk hck)) _ (intra_shiftL D _ _ (h.intra j hj hcj))
      (cross_shift D _ _ _ _ _ (h.cross j k hj hk hcj hck (fun e => hkj e.symm)) f2)
  apply intra_glueL D _ inner _ (intra_shiftL D _ _ (h.intra i hi hci))
  intro a ha r hr
  obtain ⟨a', ha', g1, g2⟩ := mem_shiftL ha
  rcases mem_glueL hr with ⟨b, hb, q1, q2⟩ | hr
  · obtain ⟨b', hb', p1, p2⟩ := mem_shiftL hb
    rw [g1, g2, q1, q2, p1, p2, h.cross i j hi hj hci hcj hij a' ha' b' hb', ← e3]; ring
  · obtain ⟨b', hb', p1, p2⟩ := mem_shiftL hr
    rw [g1, g2, p1, p2, h.cross i k hi hk hci hck (fun e => hki e.symm) a' ha' b' hb', ← f1]; ring

/-- States reached by continuing the loop. -/
inductive Reach (n : Nat) : NState → NState → Prop
  | refl (s : NState) : Reach n s s
  | step {s s' s'' : NState} : Reach n s s' → njStep n s' = some (.inl s'') → Reach n s s''

theorem Reach.head {n : Nat} {s s1 s' : NState} (h1 : njStep n s = some (.inl s1)) (h : Reach n s1 s') :
    Reach n s s' := by
  induction h with
  | refl => exact Reach.step (Reach.refl s) h1
  | step _ hs ih => exact Reach.step ih hs

/-- The pair selected in state `s` is a cherry. -/
def CherrySel (n : Nat) (s : NState) : Prop :=
  ∀ m i j, scanMin (corrected n s) s.cl n = some (m, i, j) → ConstDiff n s i j

theorem njLoop_additive (n : Nat) (D : Nat → Nat → Rat) : ∀ (fuel : Nat) (s : NState) (t : T Rat),
    NInv n s → NAInv n D s →
    (∀ s', Reach n s s' → 3 < s'.nrem → CherrySel n s') →
    njLoop n fuel s = some t → Intra D t.lrows := by
  intro fuel
  induction fuel with
  | zero => intro s t _ _ _ h; cases h
  | succ fuel ih =>
    intro s t hN hA hsel h
    unfold njLoop at h
    split at h
    · cases h
    · rename_i s' hs
      -- one more merge
      have hN' := njStep_inl hN hs
      have hA' : NAInv n D s' := by
        rw [njStep_eq] at hs
        split at hs
        · cases hs
        · rename_i m i j hmin
          obtain ⟨hji, hin, hci, hcj, _, _⟩ := scanMin_some hmin
          split at hs
          · rename_i hgt
            cases hs
            exact NAInv_merge hA hN.2.1 hN.2.2 hin (by omega) (by omega) hci hcj
              (hsel s (Reach.refl s) hgt m i j hmin)
          · split at hs <;> cases hs
      exact ih s' t hN' hA' (fun s'' hr => hsel s'' (Reach.head hs hr)) h
    · rename_i t' hs
      cases h
      rw [njStep_eq] at hs
      split at hs
      · cases hs
      · rename_i m i j hmin
        obtain ⟨hji, hin, hci, hcj, _, _⟩ := scanMin_some hmin
        split at hs
        · cases hs
        · rename_i hle
          split at hs
          · cases hs
          · rename_i k hfind
            cases hs
            have hk := List.find?_some hfind
            have hkn : k < n := List.mem_range.mp (List.mem_of_find?_eq_some hfind)
            have hki : k ≠ i := by
              intro e; subst e
              by_cases hkj : k = j <;> simp [upd, hkj] at hk
            have hkj : k ≠ j := by
              intro e; subst e; simp [upd] at hk
            have hck : s.cl k = false := by simpa [upd, hki, hkj] using hk
            have h3 : s.nrem = 3 := by have := hN.2.2; omega
            exact NAInv_final hA hN.2.1 h3 hin (by omega) hkn (by omega) hki hkj hci hcj hck


theorem NAInv_init (n : Nat) (D : Nat → Nat → Rat) (hsym : ∀ a b, a < n → b < n → D a b = D b a)
    (hdiag : ∀ a, a < n → D a a = 0) : NAInv n D (NState.init n D) where
  metric := ⟨fun a b ha hb _ _ => hsym a b ha hb, fun a ha _ => hdiag a ha⟩
  intra := by intro k _ _; simp [NState.init, T.lrows, Intra]
  cross := by
    intro a b _ _ _ _ _ x hx y hy
    simp [NState.init, T.lrows] at hx hy
    subst hx; subst hy
    simp [NState.init]

/-- **NJ recovers an additive matrix whenever every selected pair is a cherry**: the rows of the
returned tree list exactly the original distances between its leaves. -/
theorem nj_additive_of_cherry (n : Nat) (D : Nat → Nat → Rat)
    (hsym : ∀ a b, a < n → b < n → D a b = D b a) (hdiag : ∀ a, a < n → D a a = 0)
    (hsel : ∀ s', Reach n (NState.init n D) s' → 3 < s'.nrem → CherrySel n s')
    (t : T Rat) (h : neighborJoining n D = .ok t) : Intra D t.lrows := by
  unfold neighborJoining at h
  split at h; · cases h
  split at h; · cases h
  split at h; · cases h
  rename_i _ hn _
  split at h
  · cases h
  · rename_i t' hl
    have := njLoop_additive n D n _ t' (NInv_init n D (by omega)) (NAInv_init n D hsym hdiag) hsel hl
    simp only [mkTree] at h
    split at h
    · cases h; exact this
    · cases h

theorem intra_get (D : Nat → Nat → Rat) : ∀ (R : LRows) (a b : Nat), Intra D R → a < b → b < R.length →
    ∃ ra rb, R[a]? = some ra ∧ R[b]? = some rb ∧ ra.2.2[b - a - 1]? = some (D ra.1 rb.1) := by
  intro R
  induction R with
  | nil => intro a b _ _ hb; simp at hb
  | cons r R ih =>
    intro a b hI hab hb
    cases a with
    | zero =>
      cases b with
      | zero => omega
      | succ b =>
        have hb' : b < R.length := by simpa using hb
        refine ⟨r, R[b], rfl, by simp [List.getElem?_eq_getElem hb'], ?_⟩
        rw [hI.1]
        simp [List.getElem?_map, List.getElem?_eq_getElem hb']
    | succ a =>
      cases b with
      | zero => omega
      | succ b =>
        obtain ⟨ra, rb, h1, h2, h3⟩ := ih a b hI.2 (by omega) (by simpa using hb)
        refine ⟨ra, rb, by simpa using h1, by simpa using h2, ?_⟩
        have e : b + 1 - (a + 1) - 1 = b - a - 1 := by omega
        rw [e]; exact h3

/-- Reading `Intra` through the public query: the a-th and b-th leaf of `t` (depth-first order),
with indices `x`, `y`, are at `distance_to` exactly `D x y`. -/
theorem intra_distance (D : Nat → Nat → Rat) (t : T Rat) (hI : Intra D t.lrows) (a b : Nat) (hab : a < b)
    (hb : b < t.leaves.length) :
    ∃ (x y : Nat) (pa pb : List Nat), t.leafPaths[a]? = some (x, pa) ∧ t.leafPaths[b]? = some (y, pb) ∧
      distanceTo t false pa pb = .ok (D x y) := by
  have hlen : t.lrows.length = t.leaves.length := by rw [← T.lrows_fst t]; simp
  obtain ⟨ra, rb, h1, h2, h3⟩ := intra_get D t.lrows a b hI hab (by omega)
  obtain ⟨pa, pb, v, hpa, hpb, hv, hd⟩ := rows_eq_distance t a b hab (by rw [leafPaths_length]; exact hb)
  -- rows = unlabel lrows
  have hrow : (t.rows)[a]? = some (ra.2.1, ra.2.2) := by
    rw [← T.unlabel_lrows t]; simp [unlabel, List.getElem?_map, h1]
  rw [hrow] at hv
  simp only [Option.bind_some] at hv
  rw [h3] at hv
  cases hv
  -- leaf indices
  have hx : (t.leafPaths.map (·.1))[a]? = some ra.1 := by
    rw [T.leafPaths_fst, ← T.lrows_fst t]; simp [List.getElem?_map, h1]
  have hy : (t.leafPaths.map (·.1))[b]? = some rb.1 := by
    rw [T.leafPaths_fst, ← T.lrows_fst t]; simp [List.getElem?_map, h2]
  simp only [List.getElem?_map] at hx hy hpa hpb
  cases hA : t.leafPaths[a]? with
  | none => simp [hA] at hx
  | some ea =>
    cases hB : t.leafPaths[b]? with
    | none => simp [hB] at hy
    | some eb =>
      simp only [hA, hB, Option.map_some, Option.some.injEq] at hx hy hpa hpb
      refine ⟨ra.1, rb.1, pa, pb, ?_, ?_, hd⟩
      · rw [← hx, ← hpa]
      · rw [← hy, ← hpb]


/-! ### additivity (four-point condition) -/

/-- Four-point condition on the live taxa: of the three pairings of four distinct taxa no sum is
strictly the largest (⇔ the two largest are equal) — the classical characterisation of tree metrics. -/
def FourPoint (n : Nat) (s : NState) : Prop :=
  ∀ a b c e, a < n → b < n → c < n → e < n →
    s.cl a = false → s.cl b = false → s.cl c = false → s.cl e = false →
    a ≠ b → a ≠ c → a ≠ e → b ≠ c → b ≠ e → c ≠ e →
    s.d a b + s.d c e ≤ s.d a c + s.d b e ∨ s.d a b + s.d c e ≤ s.d a e + s.d b c

/-- **The reduced matrix of a joined cherry is again additive.** -/
theorem fourPoint_merge {n : Nat} {s : NState} (hm : NMetric n s) (hrem : s.nrem = liveCount n s.cl)
    (h3 : 3 ≤ s.nrem) (hfp : FourPoint n s)
    {i j : Nat} (hi : i < n) (hj : j < n) (hij : i ≠ j) (hci : s.cl i = false) (hcj : s.cl j = false)
    (hcd : ConstDiff n s i j) : FourPoint n (njMerge n s i j) := by
  have live' : ∀ k, upd s.cl j true k = false → k ≠ j ∧ s.cl k = false := by
    intro k hk
    by_cases hkj : k = j
    · simp [upd, hkj] at hk
    · exact ⟨hkj, by simpa [upd, hkj] using hk⟩
  have neg : ∀ {x : Nat}, upd s.cl j true x = false → (!(upd s.cl j true) x) = true := by
    intro x hx; simp [hx]
  -- entries of the reduced matrix
  have hrow : ∀ x, x < n → upd s.cl j true x = false → x ≠ i →
      (njMerge n s i j).d i x = s.d i x - brI n s i j ∧ (njMerge n s i j).d x i = s.d i x - brI n s i j := by
    intro x hx hcx hxi
    obtain ⟨hxj, hcx0⟩ := live' x hcx
    obtain ⟨e1, _, _⟩ := nj_join_lengths hm hrem h3 hi hj hij hci hcj hcd hx hcx0 hxi hxj
    have hb : brK s i j x = s.d i x - brI n s i j := by rw [e1]; unfold brK; ring
    constructor
    · rw [njMerge_d, if_pos ⟨rfl, hx, neg hcx, hxi⟩, hb]
    · have c1 : ¬ (x = i ∧ i < n ∧ (!(upd s.cl j true) i) = true ∧ i ≠ i) := fun c => hxi c.1
      rw [njMerge_d, if_neg c1, if_pos ⟨rfl, hx, neg hcx, hxi⟩, hb]
  have hother : ∀ x y, x ≠ i → y ≠ i → (njMerge n s i j).d x y = s.d x y := by
    intro x y hx hy
    have c1 : ¬ (x = i ∧ y < n ∧ (!(upd s.cl j true) y) = true ∧ y ≠ i) := fun c => hx c.1
    have c2 : ¬ (y = i ∧ x < n ∧ (!(upd s.cl j true) x) = true ∧ x ≠ i) := fun c => hy c.1
    rw [njMerge_d, if_neg c1, if_neg c2]
  intro a b c e ha hb hc he hca hcb hcc hce hab hac hae hbc hbe hce'
  obtain ⟨_, la⟩ := live' a hca
  obtain ⟨_, lb⟩ := live' b hcb
  obtain ⟨_, lc⟩ := live' c hcc
  obtain ⟨_, le⟩ := live' e hce
  by_cases hai : a = i
  · subst hai
    have := hfp a b c e ha hb hc he la lb lc le hab hac hae hbc hbe hce'
    rw [(hrow b hb hcb (fun h => hab h.symm)).1, (hrow c hc hcc (fun h => hac h.symm)).1,
      (hrow e he hce (fun h => hae h.symm)).1, hother c e (fun h => hac h.symm) (fun h => hae h.symm),
      hother b e (fun h => hab h.symm) (fun h => hae h.symm), hother b c (fun h => hab h.symm) (fun h => hac h.symm)]
    rcases this with h | h
    · left; linarith
    · right; linarith
  · by_cases hbi : b = i
    · subst hbi
      have := hfp a b c e ha hb hc he la lb lc le hab hac hae hbc hbe hce'
      rw [hm.sym a b ha hb la lb] at this
      rw [(hrow a ha hca hai).2, (hrow e he hce (fun h => hbe h.symm)).1, (hrow c hc hcc (fun h => hbc h.symm)).1,
        hother c e (fun h => hbc h.symm) (fun h => hbe h.symm), hother a c hai (fun h => hbc h.symm),
        hother a e hai (fun h => hbe h.symm)]
      rcases this with h | h
      · left; linarith
      · right; linarith
    · by_cases hci' : c = i
      · subst hci'
        have := hfp a b c e ha hb hc he la lb lc le hab hac hae hbc hbe hce'
        rw [hm.sym a c ha hc la lc, hm.sym b c hb hc lb lc] at this
        rw [(hrow e he hce (fun h => hce' h.symm)).1, (hrow a ha hca hai).2, (hrow b hb hcb hbi).2,
          hother a b hai hbi, hother b e hbi (fun h => hce' h.symm), hother a e hai (fun h => hce' h.symm)]
        rcases this with h | h
        · left; linarith
        · right; linarith
      · by_cases hei : e = i
        · subst hei
          have := hfp a b c e ha hb hc he la lb lc le hab hac hae hbc hbe hce'
          rw [hm.sym c e hc he lc le, hm.sym b e hb he lb le, hm.sym a e ha he la le] at this
          rw [(hrow c hc hcc hci').2, (hrow b hb hcb hbi).2, (hrow a ha hca hai).2,
            hother a b hai hbi, hother a c hai hci', hother b c hbi hci']
          rcases this with h | h
          · left; linarith
          · right; linarith
        · rw [hother a b hai hbi, hother c e hci' hei, hother a c hai hci', hother b e hbi hei,
            hother a e hai hei, hother b c hbi hci']
          exact hfp a b c e ha hb hc he la lb lc le hab hac hae hbc hbe hce'


/-! ### the cherry lemma for four live taxa -/

theorem only_four_live (n : Nat) (cl : Nat → Bool) {i j k l : Nat} (hi : i < n) (hj : j < n) (hk : k < n)
    (hl : l < n) (hij : i ≠ j) (hik : i ≠ k) (hil : i ≠ l) (hjk : j ≠ k) (hjl : j ≠ l) (hkl : k ≠ l)
    (ci : cl i = false) (cj : cl j = false) (ck : cl k = false) (cll : cl l = false)
    (h4 : liveCount n cl = 4) : ∀ x, x < n → x ≠ i → x ≠ j → x ≠ k → x ≠ l → cl x = true := by
  intro x hx xi xj xk xl
  cases hcx : cl x with
  | true => rfl
  | false =>
    exfalso
    have e1 : ¬ j = i := fun e => hij e.symm
    have e2 : ¬ k = i := fun e => hik e.symm
    have e3 : ¬ k = j := fun e => hjk e.symm
    have e4 : ¬ l = i := fun e => hil e.symm
    have e5 : ¬ l = j := fun e => hjl e.symm
    have e6 : ¬ l = k := fun e => hkl e.symm
    have c1 := liveCount_upd n cl i hi ci
    have cj1 : upd cl i true j = false := by simp [upd, e1, cj]
    have c2 := liveCount_upd n _ j hj cj1
    have ck1 : upd (upd cl i true) j true k = false := by simp [upd, e2, e3, ck]
    have c3 := liveCount_upd n _ k hk ck1
    have cl1 : upd (upd (upd cl i true) j true) k true l = false := by simp [upd, e4, e5, e6, cll]
    have c4 := liveCount_upd n _ l hl cl1
    have cx : upd (upd (upd (upd cl i true) j true) k true) l true x = false := by
      simp [upd, xi, xj, xk, xl, hcx]
    have := liveCount_pos n _ x hx cx
    omega

theorem sum_four_live (n : Nat) (cl : Nat → Bool) {i j k l : Nat} (hi : i < n) (hj : j < n) (hk : k < n)
    (hl : l < n) (hij : i ≠ j) (hik : i ≠ k) (hil : i ≠ l) (hjk : j ≠ k) (hjl : j ≠ l) (hkl : k ≠ l)
    (ci : cl i = false) (cj : cl j = false) (ck : cl k = false) (cll : cl l = false)
    (h4 : liveCount n cl = 4) (f : Nat → Rat) :
    ((List.range n).map fun x => if cl x then 0 else f x).sum = f i + f j + f k + f l := by
  have honly := only_four_live n cl hi hj hk hl hij hik hil hjk hjl hkl ci cj ck cll h4
  have nd := @List.nodup_range n
  rw [sum_peel _ i _ nd (List.mem_range.mpr hi), sum_peel _ j _ nd (List.mem_range.mpr hj),
    sum_peel _ k _ nd (List.mem_range.mpr hk), sum_peel _ l _ nd (List.mem_range.mpr hl)]
  rw [sum_zero_rat _ _ (by
    intro x hx
    have hxn := List.mem_range.mp hx
    by_cases xl : x = l
    · simp [xl]
    · by_cases xk : x = k
      · simp [xl, xk]
      · by_cases xj : x = j
        · simp [xl, xk, xj]
        · by_cases xi : x = i
          · simp [xl, xk, xj, xi]
          · simp [xl, xk, xj, xi, honly x hxn xi xj xk xl])]
  have e1 : ¬ j = i := fun e => hij e.symm
  have e2 : ¬ k = i := fun e => hik e.symm
  have e3 : ¬ k = j := fun e => hjk e.symm
  have e4 : ¬ l = i := fun e => hil e.symm
  have e5 : ¬ l = j := fun e => hjl e.symm
  have e6 : ¬ l = k := fun e => hkl e.symm
  simp [ci, cj, ck, cll, e1, e2, e3, e4, e5, e6]
  ring

/-- **Cherry lemma for four live taxa** (`C19_nj_cherry_4`): on a symmetric, zero-diagonal matrix that
satisfies the four-point condition, the pair minimising the corrected distance (Q-criterion) is a
cherry. -/
theorem nj_cherry_4 {n : Nat} {s : NState} (hm : NMetric n s) (hrem : s.nrem = liveCount n s.cl)
    (h4 : s.nrem = 4) (hfp : FourPoint n s) : CherrySel n s := by
  intro m i j hmin
  obtain ⟨hji, hin, hci, hcj, hmv, hminimal⟩ := scanMin_some hmin
  have hjn : j < n := by omega
  have hij : i ≠ j := by omega
  -- two more live taxa
  have c1 := liveCount_upd n s.cl i hin hci
  have eji : ¬ j = i := fun e => hij e.symm
  have cj1 : upd s.cl i true j = false := by simp [upd, eji, hcj]
  have c2 := liveCount_upd n _ j hjn cj1
  obtain ⟨k, l, hlk, hkn, hck2, hcl2⟩ := exists_two_live n (upd (upd s.cl i true) j true) (by omega)
  have hln : l < n := by omega
  have hkl : k ≠ l := by omega
  have hki : k ≠ i := by intro e; subst e; simp [upd] at hck2
  have hkj : k ≠ j := by intro e; subst e; simp [upd] at hck2
  have hli : l ≠ i := by intro e; subst e; simp [upd] at hcl2
  have hlj : l ≠ j := by intro e; subst e; simp [upd] at hcl2
  have hck : s.cl k = false := by simpa [upd, hki, hkj] using hck2
  have hcl : s.cl l = false := by simpa [upd, hli, hlj] using hcl2
  have h4' : liveCount n s.cl = 4 := by omega
  have hdiv : ∀ a, divergence n s a = s.d a i + s.d a j + s.d a k + s.d a l := by
    intro a
    rw [divergence_eq_sum]
    exact sum_four_live n s.cl hin hjn hkn hln hij (fun e => hki e.symm) (fun e => hli e.symm)
      (fun e => hkj e.symm) (fun e => hlj e.symm) hkl hci hcj hck hcl h4' (fun x => s.d a x)
  have hcorr : ∀ a b, corrected n s a b = 2 * s.d a b - divergence n s a - divergence n s b := by
    intro a b; unfold corrected; rw [h4]; norm_num
  -- minimality against the pairs (i,k) and (i,l), in either index order
  have hmin' : ∀ a b, a < n → b < n → s.cl a = false → s.cl b = false → a ≠ b → m ≤ corrected n s a b := by
    intro a b ha hb hca hcb hab
    rcases Nat.lt_or_gt_of_ne hab with hlt | hgt
    · have := hminimal b a hlt hb hcb hca
      rw [hcorr] at this ⊢
      rw [hm.sym a b ha hb hca hcb]; linarith
    · exact hminimal a b hgt ha hca hcb
  have q1 := hmin' i k hin hkn hci hck (fun e => hki e.symm)
  have q2 := hmin' i l hin hln hci hcl (fun e => hli e.symm)
  rw [hmv, hcorr, hcorr, hdiv, hdiv] at q1 q2
  have dii := hm.diag i hin hci
  have djj := hm.diag j hjn hcj
  have dkk := hm.diag k hkn hck
  have dll := hm.diag l hln hcl
  have sji := hm.sym j i hjn hin hcj hci
  have ski := hm.sym k i hkn hin hck hci
  have sli := hm.sym l i hln hin hcl hci
  have skj := hm.sym k j hkn hjn hck hcj
  have slj := hm.sym l j hln hjn hcl hcj
  have slk := hm.sym l k hln hkn hcl hck
  rw [hdiv k] at q1
  rw [hdiv l] at q2
  -- S1 = d(i,j)+d(k,l) ≤ S2 = d(i,k)+d(j,l) and ≤ S3 = d(i,l)+d(j,k)
  have hS12 : s.d i j + s.d k l ≤ s.d i k + s.d j l := by linarith
  have hS13 : s.d i j + s.d k l ≤ s.d i l + s.d j k := by linarith
  have f1 := hfp i k j l hin hkn hjn hln hci hck hcj hcl (fun e => hki e.symm) hij (fun e => hli e.symm)
    hkj hkl (fun e => hlj e.symm)
  have f2 := hfp i l j k hin hln hjn hkn hci hcl hcj hck (fun e => hli e.symm) hij (fun e => hki e.symm)
    hlj (fun e => hkl e.symm) (fun e => hkj e.symm)
  have hEq : s.d i k + s.d j l = s.d i l + s.d j k := by
    rcases f1 with f1 | f1 <;> rcases f2 with f2 | f2 <;> linarith
  -- every other live taxon is k or l
  have honly := only_four_live n s.cl hin hjn hkn hln hij (fun e => hki e.symm) (fun e => hli e.symm)
    (fun e => hkj e.symm) (fun e => hlj e.symm) hkl hci hcj hck hcl h4'
  intro k1 l1 hk1 hl1 hck1 hcl1 a1 a2 a3 a4
  have hk1' : k1 = k ∨ k1 = l := by
    by_cases e : k1 = k
    · exact Or.inl e
    · by_cases e' : k1 = l
      · exact Or.inr e'
      · have := honly k1 hk1 a1 a2 e e'; simp [hck1] at this
  have hl1' : l1 = k ∨ l1 = l := by
    by_cases e : l1 = k
    · exact Or.inl e
    · by_cases e' : l1 = l
      · exact Or.inr e'
      · have := honly l1 hl1 a3 a4 e e'; simp [hcl1] at this
  rcases hk1' with rfl | rfl <;> rcases hl1' with rfl | rfl <;> linarith


/-! ### reduction of the recovery theorem to the cherry lemma -/

/-- The classical cherry lemma as a statement about loop states: on a symmetric, zero-diagonal,
four-point matrix with more than three live taxa the selected pair is a cherry. -/
def CherryLemma (n : Nat) : Prop :=
  ∀ s : NState, NInv n s → NMetric n s → FourPoint n s → 3 < s.nrem → CherrySel n s

theorem njStep_inl_eq {n : Nat} {s s' : NState} (hs : njStep n s = some (.inl s')) :
    ∃ m i j, scanMin (corrected n s) s.cl n = some (m, i, j) ∧ 3 < s.nrem ∧ s' = njMerge n s i j := by
  rw [njStep_eq] at hs
  split at hs
  · cases hs
  · rename_i m i j hmin
    split at hs
    · rename_i hgt
      cases hs
      exact ⟨m, i, j, hmin, hgt, rfl⟩
    · split at hs <;> cases hs

theorem reach_inv {n : Nat} {D : Nat → Nat → Rat} (H : CherryLemma n) {s s' : NState} (hr : Reach n s s')
    (h : NInv n s ∧ NAInv n D s ∧ FourPoint n s) : NInv n s' ∧ NAInv n D s' ∧ FourPoint n s' := by
  induction hr with
  | refl => exact h
  | step _ hs ih =>
    obtain ⟨hN, hA, hF⟩ := ih
    obtain ⟨m, i, j, hmin, hgt, rfl⟩ := njStep_inl_eq hs
    obtain ⟨hji, hin, hci, hcj, _, _⟩ := scanMin_some hmin
    have hcd := H _ hN hA.metric hF hgt m i j hmin
    exact ⟨njStep_inl hN hs,
      NAInv_merge hA hN.2.1 hN.2.2 hin (by omega) (by omega) hci hcj hcd,
      fourPoint_merge hA.metric hN.2.1 hN.2.2 hF hin (by omega) (by omega) hci hcj hcd⟩

/-- **NJ recovers every additive matrix, given the cherry lemma** (`C19_nj_additive`, reduced to
`CherryLemma n`). -/
theorem nj_additive_of_lemma (n : Nat) (D : Nat → Nat → Rat) (H : CherryLemma n)
    (hsym : ∀ a b, a < n → b < n → D a b = D b a) (hdiag : ∀ a, a < n → D a a = 0)
    (hfp : FourPoint n (NState.init n D)) (hn : 4 ≤ n)
    (t : T Rat) (h : neighborJoining n D = .ok t) : Intra D t.lrows := by
  apply nj_additive_of_cherry n D hsym hdiag _ t h
  intro s' hr hgt
  obtain ⟨hN, hA, hF⟩ := reach_inv (D := D) H hr ⟨NInv_init n D hn, NAInv_init n D hsym hdiag, hfp⟩
  exact H s' hN hA.metric hF hgt

theorem cherryLemma_4 : CherryLemma 4 := by
  intro s hN hM hF hgt
  have : s.nrem ≤ 4 := by rw [hN.2.1]; exact liveCount_le 4 s.cl
  exact nj_cherry_4 hM hN.2.1 (by omega) hF

/-- **Quartets: NJ recovers every additive 4×4 matrix** (unconditional). -/
theorem nj_additive_4 (D : Nat → Nat → Rat)
    (hsym : ∀ a b, a < 4 → b < 4 → D a b = D b a) (hdiag : ∀ a, a < 4 → D a a = 0)
    (hfp : FourPoint 4 (NState.init 4 D)) (t : T Rat) (h : neighborJoining 4 D = .ok t) :
    Intra D t.lrows :=
  nj_additive_of_lemma 4 D cherryLemma_4 hsym hdiag hfp (by omega) t h

end BiotiteModel.C19

import BiotiteModel.Model.C05
/-! Helper lemmas for C05 (kept apart from the property theorems). -/
namespace BiotiteModel.C05

theorem map_eq_self {α : Type} (f : α → α) (l : List α) (h : ∀ x ∈ l, f x = x) : l.map f = l := by
  induction l with
  | nil => rfl
  | cons a l ih =>
    simp only [List.map_cons, h a (by simp)]
    rw [ih (fun x hx => h x (by simp [hx]))]

theorem wrap_of_inRange (t : DType) (x : Int) (h : t.inRange x) : wrap t x = x := by
  cases t <;> simp [DType.inRange, DType.lo, DType.hi, DType.signed, DType.bits] at h <;>
    simp [wrap, DType.lo, DType.signed, DType.bits] <;> omega

theorem wrap_inRange (t : DType) (x : Int) : t.inRange (wrap t x) := by
  cases t <;> simp [DType.inRange, wrap, DType.lo, DType.hi, DType.signed, DType.bits] <;> omega

/-- Storing into int32 first does not matter for any type of at most 32 bits. -/
theorem wrap_wrap32 (t : DType) (ht : t ≠ .i64) (x : Int) : wrap t (wrap .i32 x) = wrap t x := by
  cases t <;> first | (exact absurd rfl ht) | (simp [wrap, DType.lo, DType.signed, DType.bits]; omega)

theorem wrap_idem (t : DType) (x : Int) : wrap t (wrap t x) = wrap t x :=
  wrap_of_inRange t _ (wrap_inRange t x)

/-- Modular congruence: adding a wrapped value is adding the value. -/
theorem wrap_add_wrap (t : DType) (a b : Int) : wrap t (a + wrap t b) = wrap t (a + b) := by
  cases t <;> simp [wrap, DType.lo, DType.signed, DType.bits] <;> omega

theorem wrap_add_wrap32 (t : DType) (ht : t ≠ .i64) (a b : Int) :
    wrap t (a + wrap .i32 b) = wrap t (a + b) := by
  cases t <;> first | (exact absurd rfl ht) | (simp [wrap, DType.lo, DType.signed, DType.bits]; omega)

theorem supported_ne_i64 (t : DType) : t.supported ≠ .i64 := by cases t <;> simp [DType.supported]

/-! ### run-length -/

theorem rleLoop_even (v : Int) (n : Nat) (ys : List Int) : (rleLoop v n ys).length % 2 = 0 := by
  induction ys generalizing v n with
  | nil => simp [rleLoop]
  | cons x xs ih =>
    simp only [rleLoop]; split
    · exact ih _ _
    · simp only [List.length_cons]; have := ih (wrap .i32 x) 1; omega

theorem rleLoop_noNeg (v : Int) (n : Nat) (ys : List Int) :
    rleDecode.pairsNeg (rleLoop v n ys) = false := by
  induction ys generalizing v n with
  | nil => simp [rleLoop, rleDecode.pairsNeg]
  | cons x xs ih =>
    simp only [rleLoop]; split
    · exact ih _ _
    · simp [rleDecode.pairsNeg, ih]

theorem rleExpand_loop (t : DType) (v : Int) (n : Nat) (ys : List Int) :
    rleExpand t (rleLoop v n ys)
      = List.replicate n (wrap t (wrap .i32 v)) ++ ys.map (fun x => wrap t (wrap .i32 (wrap .i32 x))) := by
  induction ys generalizing v n with
  | nil => simp [rleLoop, rleExpand]
  | cons x xs ih =>
    simp only [rleLoop]; split
    · rename_i h
      rw [ih, List.replicate_succ', List.append_assoc]; simp [h]
    · rw [rleExpand, ih]; simp [List.replicate]

/-! ### delta -/

theorem cumsum_diffs (t : DType) (ht : t ≠ .i64) (prev : Int) (ys : List Int)
    (hp : t.inRange prev) (hy : ∀ y ∈ ys, t.inRange y) :
    cumsumW t prev (diffsW t prev ys) = ys := by
  induction ys generalizing prev with
  | nil => simp [diffsW, cumsumW]
  | cons y ys ih =>
    have hy0 : t.inRange y := hy y (by simp)
    have h1 : wrap t (prev + wrap .i32 (y - prev)) = y := by
      rw [wrap_add_wrap32 t ht]
      have : prev + (y - prev) = y := by omega
      rw [this]; exact wrap_of_inRange t y hy0
    simp only [diffsW, cumsumW, h1]
    rw [ih y hy0 (fun z hz => hy z (by simp [hz]))]

/-! ### packing -/

theorem unpack_packPos (lo : Int) (maxV : Nat) (hpos : 0 < maxV)
    (hlo : lo < 0) (fuel r : Nat) (hf : r ≤ fuel) (acc : Int) (rest : List Int) :
    unpackLoop lo (maxV : Int) acc (packPos maxV fuel r ++ rest)
      = (acc + r) :: unpackLoop lo (maxV : Int) 0 rest := by
  induction fuel generalizing r acc with
  | zero =>
    have : r = 0 := by omega
    subst this
    have h1 : ¬ (((0 : Nat) : Int) = (maxV : Int) ∨ ((0 : Nat) : Int) = lo) := by omega
    simp only [packPos, List.cons_append, List.nil_append, unpackLoop, h1, if_false]
  | succ fuel ih =>
    simp only [packPos]; split
    · rename_i h
      simp only [List.cons_append, unpackLoop, true_or, if_true]
      rw [ih (r - maxV) (by omega)]
      congr 1; omega
    · rename_i h
      have h1 : ¬ ((r : Int) = (maxV : Int) ∨ (r : Int) = lo) := by omega
      simp only [List.cons_append, List.nil_append, unpackLoop, h1, if_false]

theorem unpack_packNeg (hi : Int) (minAbs : Nat) (hpos : 0 < minAbs)
    (hhi : 0 < hi) (fuel r : Nat) (hf : r ≤ fuel) (acc : Int) (rest : List Int) :
    unpackLoop (-(minAbs : Int)) hi acc (packNeg minAbs fuel r ++ rest)
      = (acc - r) :: unpackLoop (-(minAbs : Int)) hi 0 rest := by
  induction fuel generalizing r acc with
  | zero =>
    have : r = 0 := by omega
    subst this
    have h1 : ¬ ((-((0:Nat):Int)) = hi ∨ (-((0:Nat):Int)) = -(minAbs : Int)) := by omega
    simp only [packNeg, List.cons_append, List.nil_append, unpackLoop, h1, if_false]
    congr 1
  | succ fuel ih =>
    simp only [packNeg]; split
    · rename_i h
      simp only [List.cons_append, unpackLoop, or_true, if_true]
      rw [ih (r - minAbs) (by omega)]
      congr 1; omega
    · rename_i h
      have h1 : ¬ ((-(r:Int)) = hi ∨ (-(r:Int)) = -(minAbs : Int)) := by omega
      simp only [List.cons_append, List.nil_append, unpackLoop, h1, if_false]
      congr 1

end BiotiteModel.C05

import BiotiteModel.Proofs.C16
/-!
# C16 — Kabsch optimality *given* a singular value decomposition

LAPACK's SVD stays external.  What it is assumed to return is made explicit (`IsSVD`); from that
assumption the optimality of the rotation `_get_rotation_matrices` builds is linear algebra:

* `ssd_trace`     : for `RᵀR = 1`, `Σ|R(x−cm) + cf − y|² = spread − 2·⟨R, H⟩`, `⟨R,H⟩ = trace(Rᵀ·H)`, `H` the
                    cross-covariance of the centred sets — minimising RMSD = maximising `⟨R, H⟩`;
* `inner_svd`     : `⟨R, V·diag(s)·W⟩ = Σ Mᵢᵢ·sᵢ` with `M = W·Rᵀ·V` (orthogonal, `det M = det W·det R·det V`);
* `diag_bound`    : orthogonal `M`, `s ≥ 0`            ⇒ `Σ Mᵢᵢ sᵢ ≤ s₁+s₂+s₃`;
* `diag_bound_reflected` : orthogonal `M`, `det M = −1`, `s₁ ≥ s₂ ≥ s₃ ≥ 0` ⇒ `Σ Mᵢᵢ sᵢ ≤ s₁+s₂−s₃`
                    (via `trace M ≤ 1`, elementary: cofactor relations give
                    `Σ_{i<j}(Mᵢⱼ−Mⱼᵢ)² = (1−tr M)(3+tr M)`).
-/
namespace BiotiteModel.C16

section Ring
variable {α : Type} [CommRing α]

/-- Frobenius inner product `Σ Aᵢⱼ·Bᵢⱼ = trace(Aᵀ·B)`. -/
def M3.inner (A B : M3 α) : α := A.r0.dot B.r0 + A.r1.dot B.r1 + A.r2.dot B.r2
def M3.trace (A : M3 α) : α := A.r0.x + A.r1.y + A.r2.z
def M3.diag (s : V3 α) : M3 α := ⟨⟨s.x, 0, 0⟩, ⟨0, s.y, 0⟩, ⟨0, 0, s.z⟩⟩

theorem inner_eq_trace (A B : M3 α) : A.inner B = (A.transpose.mul B).trace := by
  simp only [M3.inner, M3.trace, M3.mul, M3.transpose, V3.dot, M3.c0, M3.c1, M3.c2]
  ring

theorem inner_add (R A B : M3 α) : R.inner (A.add B) = R.inner A + R.inner B := by
  simp only [M3.inner, M3.add, V3.add, V3.dot]
  ring

theorem inner_zero (R : M3 α) : R.inner M3.zero = 0 := by
  simp only [M3.inner, M3.zero, V3.zero, V3.dot]
  ring

theorem inner_outer (R : M3 α) (p q : V3 α) : R.inner (V3.outer p q) = p.dot (R.mulVec q) := by
  simp only [M3.inner, V3.outer, V3.dot, M3.mulVec]
  ring

omit [CommRing α] in
theorem transpose_transpose (A : M3 α) : A.transpose.transpose = A := by
  obtain ⟨⟨a0, a1, a2⟩, ⟨b0, b1, b2⟩, ⟨c0, c1, c2⟩⟩ := A
  rfl

theorem IsOrtho.transpose {A : M3 α} (h : IsOrtho A) : IsOrtho A.transpose :=
  ⟨by rw [transpose_transpose]; exact h.2, by rw [transpose_transpose]; exact h.1⟩

/-- `⟨R, (V·S)·W⟩ = trace(((W·Rᵀ)·V)·S)`. -/
theorem inner_svd (R V S W : M3 α) :
    R.inner ((V.mul S).mul W) = (((W.mul R.transpose).mul V).mul S).trace := by
  simp only [M3.inner, M3.trace, M3.mul, M3.transpose, V3.dot, M3.c0, M3.c1, M3.c2]
  ring

theorem trace_mul_diag (M : M3 α) (s : V3 α) :
    (M.mul (M3.diag s)).trace = M.r0.x * s.x + M.r1.y * s.y + M.r2.z * s.z := by
  simp only [M3.trace, M3.mul, M3.diag, V3.dot, M3.c0, M3.c1, M3.c2]
  ring

/-- Column relations of `AᵀA = 1`, spelled out. -/
theorem cols_of_ortho {A : M3 α} (h : A.transpose.mul A = M3.one) :
    (A.r0.x * A.r0.x + A.r1.x * A.r1.x + A.r2.x * A.r2.x = 1 ∧
     A.r0.y * A.r0.y + A.r1.y * A.r1.y + A.r2.y * A.r2.y = 1 ∧
     A.r0.z * A.r0.z + A.r1.z * A.r1.z + A.r2.z * A.r2.z = 1) ∧
    (A.r0.x * A.r0.y + A.r1.x * A.r1.y + A.r2.x * A.r2.y = 0 ∧
     A.r0.x * A.r0.z + A.r1.x * A.r1.z + A.r2.x * A.r2.z = 0 ∧
     A.r0.y * A.r0.z + A.r1.y * A.r1.z + A.r2.y * A.r2.z = 0) := by
  simp only [M3.mul, M3.transpose, M3.one, V3.dot, M3.c0, M3.c1, M3.c2, M3.mk.injEq, V3.mk.injEq] at h
  obtain ⟨⟨h00, h01, h02⟩, ⟨_, h11, h12⟩, ⟨_, _, h22⟩⟩ := h
  exact ⟨⟨h00, h11, h22⟩, ⟨h01, h02, h12⟩⟩

/-- `|R·q|² = |q|²` for `RᵀR = 1`. -/
theorem normSq_mulVec {R : M3 α} (h : R.transpose.mul R = M3.one) (q : V3 α) :
    (R.mulVec q).normSq = q.normSq := by
  obtain ⟨⟨h00, h11, h22⟩, ⟨h01, h02, h12⟩⟩ := cols_of_ortho h
  simp only [V3.normSq, V3.dot, M3.mulVec]
  linear_combination (q.x * q.x) * h00 + (q.y * q.y) * h11 + (q.z * q.z) * h22
    + (2 * q.x * q.y) * h01 + (2 * q.x * q.z) * h02 + (2 * q.y * q.z) * h12

end Ring

/-! ## RMSD as a trace -/

theorem foldl_M3add (l : List (M3 ℚ)) (acc : M3 ℚ) :
    l.foldl M3.add acc = acc.add (l.foldl M3.add M3.zero) := by
  induction l generalizing acc with
  | nil =>
    simp only [List.foldl_nil, M3.add, V3.add, M3.zero, V3.zero, add_zero]
  | cons A l ih =>
    simp only [List.foldl_cons]
    rw [ih (acc.add A), ih (M3.zero.add A)]
    simp only [M3.add, V3.add, M3.zero, V3.zero, M3.mk.injEq, V3.mk.injEq]
    refine ⟨⟨?_, ?_, ?_⟩, ⟨?_, ?_, ?_⟩, ⟨?_, ?_, ?_⟩⟩ <;> ring



theorem inner_foldl (R : M3 ℚ) (l : List (M3 ℚ)) (acc : M3 ℚ) :
    R.inner (l.foldl M3.add acc) = R.inner acc + (l.map R.inner).sum := by
  induction l generalizing acc with
  | nil => simp
  | cons A l ih =>
    simp only [List.foldl_cons, ih, inner_add, List.map_cons, List.sum_cons]
    ring

theorem inner_cov1 (R : M3 ℚ) (ps qs : List (V3 ℚ)) :
    R.inner (cov1 ps qs) = (List.zipWith (fun p q => p.dot (R.mulVec q)) ps qs).sum := by
  unfold cov1
  rw [inner_foldl, inner_zero, List.map_zipWith]
  simp only [inner_outer, zero_add]

theorem zipWith_sum_lin (f g h : V3 ℚ → V3 ℚ → ℚ) (hfgh : ∀ y x, f y x = g y x - 2 * h y x) :
    ∀ l1 l2 : List (V3 ℚ), (List.zipWith f l1 l2).sum
      = (List.zipWith g l1 l2).sum - 2 * (List.zipWith h l1 l2).sum := by
  intro l1
  induction l1 with
  | nil => intro l2; simp
  | cons y l1 ih =>
    intro l2
    cases l2 with
    | nil => simp
    | cons x l2 =>
      simp only [List.zipWith_cons_cons, List.sum_cons, ih l2, hfgh]
      ring

/-- The part of the sum of squared deviations that does not depend on the rotation. -/
def spread (fixed mobile : List (V3 ℚ)) (cf cm : V3 ℚ) : ℚ :=
  (List.zipWith (fun y x => (x.sub cm).normSq + (y.sub cf).normSq) fixed mobile).sum

theorem ssd_trace (R : M3 ℚ) (hR : R.transpose.mul R = M3.one) (fixed mobile : List (V3 ℚ)) (cf cm : V3 ℚ) :
    ssd fixed (mobile.map (applyPoint cm.neg R cf))
      = spread fixed mobile cf cm
        - 2 * R.inner (cov1 (fixed.map fun p => p.sub cf) (mobile.map fun p => p.sub cm)) := by
  unfold ssd spread
  rw [inner_cov1, List.zipWith_map_right, List.zipWith_map_left, List.zipWith_map_right]
  apply zipWith_sum_lin
  intro y x
  have hn := normSq_mulVec hR (x.sub cm)
  simp only [V3.normSq, V3.dot, M3.mulVec, V3.sub, V3.add, V3.neg, applyPoint] at hn ⊢
  linear_combination hn

/-! ## Bounds on `Σ Mᵢᵢ·sᵢ` for orthogonal `M` -/

theorem diag_le_one {M : M3 ℚ} (h : M.transpose.mul M = M3.one) :
    (M.r0.x ≤ 1 ∧ M.r1.y ≤ 1 ∧ M.r2.z ≤ 1) ∧ (-1 ≤ M.r0.x ∧ -1 ≤ M.r1.y ∧ -1 ≤ M.r2.z) := by
  obtain ⟨⟨h00, h11, h22⟩, _⟩ := cols_of_ortho h
  refine ⟨⟨?_, ?_, ?_⟩, ⟨?_, ?_, ?_⟩⟩
  · nlinarith [sq_nonneg M.r1.x, sq_nonneg M.r2.x, sq_nonneg (M.r0.x - 1)]
  · nlinarith [sq_nonneg M.r0.y, sq_nonneg M.r2.y, sq_nonneg (M.r1.y - 1)]
  · nlinarith [sq_nonneg M.r0.z, sq_nonneg M.r1.z, sq_nonneg (M.r2.z - 1)]
  · nlinarith [sq_nonneg M.r1.x, sq_nonneg M.r2.x, sq_nonneg (M.r0.x + 1)]
  · nlinarith [sq_nonneg M.r0.y, sq_nonneg M.r2.y, sq_nonneg (M.r1.y + 1)]
  · nlinarith [sq_nonneg M.r0.z, sq_nonneg M.r1.z, sq_nonneg (M.r2.z + 1)]

/-- `trace(M·diag s) ≤ s₁+s₂+s₃` for orthogonal `M` and non-negative `s`. -/
theorem diag_bound {M : M3 ℚ} (h : M.transpose.mul M = M3.one) (s : V3 ℚ)
    (hx : 0 ≤ s.x) (hy : 0 ≤ s.y) (hz : 0 ≤ s.z) :
    M.r0.x * s.x + M.r1.y * s.y + M.r2.z * s.z ≤ s.x + s.y + s.z := by
  obtain ⟨⟨h0, h1, h2⟩, _⟩ := diag_le_one h
  nlinarith [mul_nonneg (sub_nonneg.2 h0) hx, mul_nonneg (sub_nonneg.2 h1) hy, mul_nonneg (sub_nonneg.2 h2) hz]

/-- Entries `a b c / d e f / g h i`, orthonormal columns, determinant `−1` ⇒ trace `≤ 1`
(`−M` is a rotation, whose trace is `1 + 2cos θ ≥ −1`).  Elementary route: the cofactor relations
`Mᵢᵢ = −(complementary minor)` give `Σ_{i<j}(Mᵢⱼ−Mⱼᵢ)² = (1−t)(3+t)` and `3+t ≥ 0`. -/
theorem trace_le_one_scalar (a b c d e f g h i : ℚ)
    (c11 : a*a + d*d + g*g = 1) (c22 : b*b + e*e + h*h = 1) (c33 : c*c + f*f + i*i = 1)
    (c12 : a*b + d*e + g*h = 0) (c13 : a*c + d*f + g*i = 0) (c23 : b*c + e*f + h*i = 0)
    (hdet : a*(e*i - f*h) - b*(d*i - f*g) + c*(d*h - e*g) = -1) :
    a + e + i ≤ 1 := by
  have k3 : i = -(a*e - b*d) := by
    linear_combination (-(b*f - c*e)) * c13 + (-(c*d - a*f)) * c23 + (-(a*e - b*d)) * c33 + i * hdet
  have k2 : e = -(a*i - c*g) := by
    linear_combination (-(c*h - b*i)) * c12 + (-(a*i - c*g)) * c22 + (-(b*g - a*h)) * c23 + e * hdet
  have k1 : a = -(e*i - f*h) := by
    linear_combination (-(e*i - f*h)) * c11 + (-(f*g - d*i)) * c12 + (-(d*h - e*g)) * c13 + a * hdet
  have hS : (b - d)^2 + (c - g)^2 + (f - h)^2 = (1 - (a+e+i)) * (3 + (a+e+i)) := by
    linear_combination c11 + c22 + c33 + 2*k1 + 2*k2 + 2*k3
  have hS0 : 0 ≤ (b - d)^2 + (c - g)^2 + (f - h)^2 := by positivity
  have ha : -1 ≤ a := by nlinarith [sq_nonneg d, sq_nonneg g, sq_nonneg (a+1)]
  have he : -1 ≤ e := by nlinarith [sq_nonneg b, sq_nonneg h, sq_nonneg (e+1)]
  have hi : -1 ≤ i := by nlinarith [sq_nonneg c, sq_nonneg f, sq_nonneg (i+1)]
  by_contra hlt
  have hlt' : 1 < a + e + i := not_le.mp hlt
  have h3 : 0 < 3 + (a+e+i) := by linarith
  have : (1 - (a+e+i)) * (3 + (a+e+i)) < 0 := mul_neg_of_neg_of_pos (by linarith) h3
  linarith

theorem trace_le_one_of_det_neg {M : M3 ℚ} (h : M.transpose.mul M = M3.one) (hd : M.det = -1) :
    M.trace ≤ 1 := by
  obtain ⟨⟨h00, h11, h22⟩, ⟨h01, h02, h12⟩⟩ := cols_of_ortho h
  obtain ⟨⟨a, b, c⟩, ⟨d, e, f⟩, ⟨g, hh, i⟩⟩ := M
  simp only [M3.det] at hd
  exact trace_le_one_scalar a b c d e f g hh i h00 h11 h22 h01 h02 h12 hd

/-- `trace(M·diag s) ≤ s₁+s₂−s₃` for orthogonal `M` with `det M = −1` and `s₁ ≥ s₂ ≥ s₃ ≥ 0`. -/
theorem diag_bound_reflected {M : M3 ℚ} (h : M.transpose.mul M = M3.one) (hd : M.det = -1) (s : V3 ℚ)
    (hxy : s.y ≤ s.x) (hyz : s.z ≤ s.y) (hz : 0 ≤ s.z) :
    M.r0.x * s.x + M.r1.y * s.y + M.r2.z * s.z ≤ s.x + s.y - s.z := by
  obtain ⟨⟨h0, h1, _⟩, _⟩ := diag_le_one h
  have ht := trace_le_one_of_det_neg h hd
  simp only [M3.trace] at ht
  -- s₁(1−M₁₁) + s₂(1−M₂₂) − s₃(1+M₃₃)
  --   = (s₁−s₂)(1−M₁₁) + (s₂−s₃)((1−M₁₁)+(1−M₂₂)) + s₃(1 − tr M)
  nlinarith [mul_nonneg (sub_nonneg.2 hxy) (sub_nonneg.2 h0),
    mul_nonneg (sub_nonneg.2 hyz) (add_nonneg (sub_nonneg.2 h0) (sub_nonneg.2 h1)),
    mul_nonneg hz (sub_nonneg.2 ht)]

/-! ## The assumption on the external SVD, and optimality of `correct V W` -/

/-- What `v, s, w = np.linalg.svd(H)` is assumed to deliver: orthogonal factors, `H = v·diag(s)·w`,
singular values sorted in descending order and non-negative. -/
structure IsSVD (H V W : M3 ℚ) (s : V3 ℚ) : Prop where
  orthoV : IsOrtho V
  orthoW : IsOrtho W
  decomp : H = (V.mul (M3.diag s)).mul W
  sorted : s.y ≤ s.x ∧ s.z ≤ s.y ∧ 0 ≤ s.z

/-- `⟨R', H⟩ = Σ Mᵢᵢ sᵢ` with `M = W·R'ᵀ·V`. -/
theorem inner_of_svd {H V W : M3 ℚ} {s : V3 ℚ} (hs : IsSVD H V W s) (R : M3 ℚ) :
    R.inner H = ((W.mul R.transpose).mul V).r0.x * s.x + ((W.mul R.transpose).mul V).r1.y * s.y
      + ((W.mul R.transpose).mul V).r2.z * s.z := by
  rw [hs.decomp, inner_svd, trace_mul_diag]

theorem flipD_eq_diag : (flipD : M3 ℚ) = M3.diag ⟨1, 1, -1⟩ := rfl

/-- The value the code's rotation attains. -/
theorem inner_correct {H V W : M3 ℚ} {s : V3 ℚ} (hs : IsSVD H V W s) :
    (correct V W).inner H = if V.det * W.det < 0 then s.x + s.y - s.z else s.x + s.y + s.z := by
  rw [inner_of_svd hs]
  unfold correct
  split
  · -- M = W·(V·D·W)ᵀ·V = D
    have hM : ((W.mul (V.flipLastCol.mul W).transpose).mul V) = flipD := by
      rw [flipLastCol_eq, transpose_mul, transpose_mul, ← mul_assoc3 W, hs.orthoW.2, one_mul3, mul_assoc3,
        hs.orthoV.1, mul_one3]
      rfl
    rw [hM]
    simp only [flipD]
    ring
  · have hM : ((W.mul (V.mul W).transpose).mul V) = M3.one := by
      rw [transpose_mul, ← mul_assoc3 W, hs.orthoW.2, one_mul3, hs.orthoV.1]
    rw [hM]
    simp only [M3.one]
    ring

/-- **Kabsch, given the SVD.**  Among all proper rotations `R'`, `correct V W` maximises `⟨R', H⟩`. -/
theorem inner_le_correct {H V W : M3 ℚ} {s : V3 ℚ} (hs : IsSVD H V W s) (R : M3 ℚ) (hR : IsOrtho R)
    (hdet : R.det = 1) : R.inner H ≤ (correct V W).inner H := by
  rw [inner_correct hs, inner_of_svd hs R]
  have hM : IsOrtho ((W.mul R.transpose).mul V) := (hs.orthoW.mul hR.transpose).mul hs.orthoV
  have hMdet : ((W.mul R.transpose).mul V).det = W.det * V.det := by
    rw [det_mul, det_mul, det_transpose, hdet]; ring
  obtain ⟨hxy, hyz, hz⟩ := hs.sorted
  split
  · rename_i hneg
    -- det V · det W = −1
    have hd : ((W.mul R.transpose).mul V).det = -1 := by
      rw [hMdet]
      have hp : (V.det * W.det - 1) * (V.det * W.det + 1) = 0 := by
        have a := hs.orthoV.det_sq
        have b := hs.orthoW.det_sq
        linear_combination (W.det * W.det) * a + b
      rcases mul_eq_zero.mp hp with h1 | h1
      · linarith
      · linarith
    exact diag_bound_reflected hM.1 hd s hxy hyz hz
  · exact diag_bound hM.1 s (by linarith) (by linarith) hz

end BiotiteModel.C16

import BiotiteModel.Proofs.C08Distinct
import BiotiteModel.Proofs.C08Semi
/-! Local mode: the trace list assembled over all start cells. -/
namespace BiotiteModel.C08


/-- local mode: a cell with trace bits has a positive value -/
theorem dirs_ne_pos (M : Mat) (g : Int) (a b : Seq) (q : Nat × Nat)
    (h : traceDirs .local M g a b (valOf .local M g a b) q ≠ []) : 0 < valOf .local M g a b q.1 q.2 := by
  obtain ⟨i, j⟩ := q
  cases i with
  | zero => cases j <;> simp [traceDirs] at h
  | succ i =>
    cases j with
    | zero => simp [traceDirs] at h
    | succ j =>
      simp only [traceDirs, valOf, reduceCtorEq, false_and, if_false, true_and] at h
      simp only [valOf, Rec.val_succ_succ, cellL]
      by_cases hle : max3 ((linRec .local M g a b).val i j + sub M a b i j)
          ((linRec .local M g a b).val (i + 1) j + g) ((linRec .local M g a b).val i (j + 1) + g) ≤ 0
      · simp [hle] at h
      · simp only [hle, if_false]; omega

/-- local mode, `g ≤ 0`: a finished non-empty trace starts with a pair column at its start cell -/
theorem local_first_both (M : Mat) (g : Int) (hg : g ≤ 0) (a b : Seq) (p0 p : Nat × Nat) (c : Col) (r : Aln)
    (hw : walk p0 (c :: r) = some p) (h0 : traceDirs .local M g a b (valOf .local M g a b) p0 = [])
    (hf : FirstStep .local M g a b p0 (c :: r)) : c = .both p0.1 p0.2 := by
  obtain ⟨hv, hne⟩ := hf
  have hpos := dirs_ne_pos M g a b _ hne
  have hz := dirs_nil_zero .local M g a b p0 h0
  obtain ⟨hstep, _⟩ := walk_cons_some hw
  obtain ⟨i, j⟩ := p0
  cases c with
  | both i' j' =>
    simp only [stepPos] at hstep
    split at hstep
    · rename_i hh; simp [hh.1, hh.2]
    · simp at hstep
  | gapA j' => simp [costOf, costLin, colScoreLin] at hv; simp only at hz; omega
  | gapB i' => simp [costOf, costLin, colScoreLin] at hv; simp only at hz; omega

/-- the end cell of a local trace, read off the trace itself -/
def endKey (x : Aln) : Nat × Nat := (firstA x + cnt Col.hasA x, firstB x + cnt Col.hasB x)

theorem local_endKey (M : Mat) (g : Int) (hg : g ≤ 0) (a b : Seq) (mx fuel c : Nat) (p : Nat × Nat) (x : Aln)
    (h : x ∈ (followLin (traceDirs .local M g a b (valOf .local M g a b)) mx fuel p [] c).1) (hne : x ≠ []) :
    endKey x = p := by
  obtain ⟨pre, p0, he, hw, _, h0, hf⟩ := followLin_good .local M g a b mx _ _ _ _ x h
  simp only [List.append_nil] at he
  subst he
  cases x with
  | nil => exact absurd rfl hne
  | cons c r =>
    have hc := local_first_both M g hg a b p0 p c r hw h0 hf
    obtain ⟨h1, h2⟩ := walk_cnt _ _ _ hw
    subst hc
    simp only [endKey, firstA, firstB]
    ext <;> simp [h1, h2]



theorem flatMap_filter_nodup {σ : Type} (key : Aln → σ) (f : σ → List Aln) (starts : List σ) (hs : starts.Nodup)
    (hf : ∀ p ∈ starts, (f p).Nodup) (hk : ∀ p ∈ starts, ∀ x ∈ f p, x ≠ [] → key x = p) :
    ((starts.flatMap f).filter (fun x => !x.isEmpty)).Nodup := by
  induction starts with
  | nil => simp
  | cons p ps ih =>
    have hs' := List.nodup_cons.mp hs
    simp only [List.flatMap_cons, List.filter_append]
    rw [List.nodup_append]
    refine ⟨List.Nodup.sublist List.filter_sublist (hf p List.mem_cons_self),
      ih hs'.2 (fun q hq => hf q (List.mem_cons_of_mem _ hq)) (fun q hq => hk q (List.mem_cons_of_mem _ hq)), ?_⟩
    intro x hx y hy hxy
    subst hxy
    rw [List.mem_filter] at hx hy
    have hne : x ≠ [] := by intro h; simp [h] at hx
    have k1 := hk p List.mem_cons_self x hx.1 hne
    obtain ⟨q, hq, hxq⟩ := List.mem_flatMap.mp hy.1
    have k2 := hk q (List.mem_cons_of_mem _ hq) x hxq hne
    rw [k1] at k2
    subst k2
    exact hs'.1 hq

theorem flatMap_nodup_key {α σ : Type} (key : α → σ) (f : σ → List α) (starts : List σ) (hs : starts.Nodup)
    (hf : ∀ p ∈ starts, (f p).Nodup) (hk : ∀ p ∈ starts, ∀ x ∈ f p, key x = p) :
    (starts.flatMap f).Nodup := by
  induction starts with
  | nil => simp
  | cons p ps ih =>
    have hs' := List.nodup_cons.mp hs
    simp only [List.flatMap_cons]
    rw [List.nodup_append]
    refine ⟨hf p List.mem_cons_self,
      ih hs'.2 (fun q hq => hf q (List.mem_cons_of_mem _ hq)) (fun q hq => hk q (List.mem_cons_of_mem _ hq)), ?_⟩
    intro x hx y hy hxy
    subst hxy
    have k1 := hk p List.mem_cons_self x hx
    obtain ⟨q, hq, hxq⟩ := List.mem_flatMap.mp hy
    have k2 := hk q (List.mem_cons_of_mem _ hq) x hxq
    rw [k1] at k2
    subst k2
    exact hs'.1 hq

theorem localStarts_nodup (V : Nat → Nat → Int) (n m : Nat) : (localStarts V n m).Nodup := by
  unfold localStarts
  apply List.Nodup.sublist List.filter_sublist
  apply flatMap_nodup_key Prod.fst _ _ List.nodup_range
  · intro i _
    unfold List.Nodup
    rw [List.pairwise_map]
    exact List.Pairwise.imp (fun h => by simpa using h) List.nodup_range
  · intro i _ x hx
    obtain ⟨j, _, rfl⟩ := List.mem_map.mp hx
    rfl

theorem localStarts_mem (V : Nat → Nat → Int) (n m : Nat) (p : Nat × Nat) (h : p ∈ localStarts V n m) :
    p.1 ≤ n ∧ p.2 ≤ m ∧ V p.1 p.2 = listMax 0 ((List.range (n + 1)).flatMap fun i =>
      (List.range (m + 1)).map (V i)) := by
  unfold localStarts at h
  simp only [List.mem_filter, beq_iff_eq] at h
  obtain ⟨hc, hv⟩ := h
  obtain ⟨i, hi, hx⟩ := List.mem_flatMap.mp hc
  obtain ⟨j, hj, rfl⟩ := List.mem_map.mp hx
  have hi' := List.mem_range.mp hi
  have hj' := List.mem_range.mp hj
  refine ⟨by simp; omega, by simp; omega, ?_⟩
  rw [hv]
  congr 1
  rw [List.map_flatMap]
  simp [List.map_map, Function.comp_def]

theorem localStarts_ne_nil (V : Nat → Nat → Int) (hV : ∀ i j, 0 ≤ V i j) (hz : V 0 0 = 0) (n m : Nat) :
    localStarts V n m ≠ [] := by
  intro hnil
  -- the maximum is 0 (then (0,0) is a start) or it is attained by a cell
  have hmem := listMax_mem 0 (((List.range (n + 1)).flatMap fun i =>
      (List.range (m + 1)).map fun j => (i, j)).map fun p => V p.1 p.2)
  unfold localStarts at hnil
  rw [List.filter_eq_nil_iff] at hnil
  rcases hmem with h0 | hm
  · have := hnil (0, 0) (List.mem_flatMap.mpr ⟨0, List.mem_range.mpr (by omega),
      List.mem_map.mpr ⟨0, List.mem_range.mpr (by omega), rfl⟩⟩)
    simp [h0, hz] at this
  · obtain ⟨p, hp, hv⟩ := List.mem_map.mp hm
    have := hnil p hp
    simp [hv] at this

end BiotiteModel.C08

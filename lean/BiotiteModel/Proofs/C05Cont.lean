import BiotiteModel.Model.C05Cont
namespace BiotiteModel.C05

variable {S L α β : Type}

theorem find_map (f : α → β) (d : Dict α) (k : String) :
    Dict.find (d.map fun p => (p.1, f p.2)) k = (Dict.find d k).map f := by
  induction d with
  | nil => rfl
  | cons p r ih => simp only [List.map_cons, Dict.find]; split <;> simp_all

theorem upd_map (f : α → β) (d : Dict α) (k : String) (v : α) :
    (Dict.upd d k v).map (fun p => (p.1, f p.2)) = Dict.upd (d.map fun p => (p.1, f p.2)) k (f v) := by
  induction d with
  | nil => rfl
  | cons p r ih => simp only [List.map_cons, Dict.upd]; split <;> simp_all

theorem del_map (f : α → β) (d : Dict α) (k : String) :
    (Dict.del d k).map (fun p => (p.1, f p.2)) = Dict.del (d.map fun p => (p.1, f p.2)) k := by
  simp [Dict.del, List.filter_map, Function.comp_def]

/-- overwriting a key with the value it already has changes nothing -/
theorem upd_same (d : Dict α) (k : String) (v : α) (h : Dict.find d k = some v) : Dict.upd d k v = d := by
  induction d with
  | nil => simp [Dict.find] at h
  | cons p r ih =>
    simp only [Dict.find] at h
    simp only [Dict.upd]
    split
    · rename_i hk; simp only [hk, if_true, Option.some.injEq] at h; subst hk; subst h; rfl
    · rename_i hk; simp only [hk, if_false] at h; rw [ih h]

theorem keys_upd_of_mem (d : Dict α) (k : String) (v : α) (h : k ∈ d.keys) : (Dict.upd d k v).keys = d.keys := by
  induction d with
  | nil => simp [Dict.keys] at h
  | cons p r ih =>
    simp only [Dict.upd]
    split
    · rename_i hk; simp [Dict.keys, hk]
    · rename_i hk
      have : k ∈ Dict.keys r := by
        simp only [Dict.keys, List.map_cons, List.mem_cons] at h
        rcases h with h | h
        · exact absurd h.symm hk
        · exact h
      simp only [Dict.keys, List.map_cons] at ih ⊢
      rw [ih this]

theorem upd_of_not_mem (d : Dict α) (k : String) (v : α) (h : k ∉ d.keys) : Dict.upd d k v = d ++ [(k, v)] := by
  induction d with
  | nil => rfl
  | cons p r ih =>
    simp only [Dict.keys, List.map_cons, List.mem_cons, not_or] at h
    simp only [Dict.upd, if_neg (Ne.symm h.1), List.cons_append]
    rw [ih h.2]

theorem find_mem_keys (d : Dict α) (k : String) (v : α) (h : Dict.find d k = some v) : k ∈ d.keys := by
  induction d with
  | nil => simp [Dict.find] at h
  | cons p r ih =>
    simp only [Dict.find] at h
    split at h
    · rename_i hk; simp [Dict.keys, hk]
    · simp only [Dict.keys, List.map_cons, List.mem_cons]; exact Or.inr (ih h)

theorem keys_nodup_upd (d : Dict α) (k : String) (v : α) (h : d.keys.Nodup) : (Dict.upd d k v).keys.Nodup := by
  by_cases hk : k ∈ d.keys
  · rw [keys_upd_of_mem d k v hk]; exact h
  · rw [upd_of_not_mem d k v hk]
    simp only [Dict.keys, List.map_append, List.map_cons, List.map_nil]
    exact List.nodup_append.mpr ⟨h, by simp, by
      intro a ha b hb; simp only [List.mem_singleton] at hb; subst hb; intro e; subst e; exact hk ha⟩

theorem keys_nodup_del (d : Dict α) (k : String) (h : d.keys.Nodup) : (Dict.del d k).keys.Nodup := by
  simp only [Dict.keys, Dict.del] at *
  exact (List.Nodup.sublist ((List.filter_sublist).map _) h)

/-- Reading a content list whose keys are distinct gives exactly that list, all lazy. -/
theorem ofContent_nodup (content : List (String × S)) (h : (content.map (·.1)).Nodup) :
    (Cont.ofContent content : Cont S L) = content.map fun p => (p.1, Elem.lazy p.2) := by
  unfold Cont.ofContent
  suffices H : ∀ (acc : Cont S L), (∀ k ∈ acc.keys, k ∉ content.map (·.1)) →
      content.foldl (fun m p => Dict.upd m p.1 (.lazy p.2)) acc = acc ++ content.map fun p => (p.1, Elem.lazy p.2) by
    simpa using H [] (by simp [Dict.keys])
  induction content with
  | nil => intro acc _; simp
  | cons p r ih =>
    intro acc hacc
    simp only [List.map_cons, List.nodup_cons] at h
    have hp : p.1 ∉ acc.keys := fun hin => hacc _ hin (by simp)
    simp only [List.foldl_cons, upd_of_not_mem acc p.1 _ hp]
    rw [ih h.2]
    · simp
    · intro k hk
      simp only [Dict.keys, List.map_append, List.map_cons, List.map_nil, List.mem_append, List.mem_singleton] at hk
      rcases hk with hk | hk
      · have := hacc k hk; simp only [List.map_cons, List.mem_cons, not_or] at this; exact this.2
      · subst hk; exact h.1

/-- the only state change an access can make: a readable lazy element becomes live -/
theorem get_state (c : Codec S L) (m : Cont S L) (k : String) :
    (m.get c k).2 = m ∨ ∃ s l, Dict.find m k = some (.lazy s) ∧ c.de s = some l ∧
      (m.get c k).2 = Dict.upd m k (.live l) := by
  unfold Cont.get
  split
  · exact Or.inl rfl
  · exact Or.inl rfl
  · rename_i s hs
    split
    · exact Or.inl rfl
    · rename_i l hl; exact Or.inr ⟨s, l, hs, hl, rfl⟩

theorem abs_upd (c : Codec S L) (m : Cont S L) (k : String) (e : Elem S L) :
    Cont.abs c (Dict.upd m k e) = Dict.upd (Cont.abs c m) k (e.view c) := upd_map (Elem.view c) m k e

theorem abs_del (c : Codec S L) (m : Cont S L) (k : String) :
    Cont.abs c (Dict.del m k) = Dict.del (Cont.abs c m) k := del_map (Elem.view c) m k

theorem abs_find (c : Codec S L) (m : Cont S L) (k : String) :
    Dict.find (Cont.abs c m) k = (Dict.find m k).map (Elem.view c) := find_map (Elem.view c) m k

theorem del_of_find_none (d : Dict α) (k : String) (h : Dict.find d k = none) : Dict.del d k = d := by
  induction d with
  | nil => rfl
  | cons p r ih =>
    simp only [Dict.find] at h
    split at h
    · cases h
    · rename_i hk
      have := ih h
      simp only [Dict.del] at this ⊢
      rw [List.filter_cons_of_pos (by simpa using hk), this]

end BiotiteModel.C05

import BiotiteModel.Model.C15
import Mathlib.Algebra.Order.Field.Rat
import Mathlib.Tactic.Ring
import Mathlib.Tactic.Linarith
import Mathlib.Tactic.FieldSimp
import Mathlib.Tactic.LinearCombination
import Mathlib.Tactic.Positivity
import Mathlib.Algebra.Field.Basic
/-! Helper lemmas for C15 (kept apart from the property theorems). -/
namespace BiotiteModel.C15

/-! ## Part A — polynomial identities over a commutative ring -/
section Ring
variable {R : Type} [CommRing R]

theorem V3.ext' {α : Type} {u v : V3 α} (hx : u.x = v.x) (hy : u.y = v.y) (hz : u.z = v.z) : u = v := by
  cases u; cases v; simp_all

/-- the identity matrix -/
def M3.one : M3 R := ⟨⟨1, 0, 0⟩, ⟨0, 1, 0⟩, ⟨0, 0, 1⟩⟩

/-- `RᵀR = 1` -/
def Orthogonal (Rm : M3 R) : Prop := Rm.transpose.mul Rm = M3.one

/-- proper rotation: `RᵀR = 1` and `det R = 1` -/
def IsRotation (Rm : M3 R) : Prop := Orthogonal Rm ∧ Rm.det = 1

theorem rigid_sub (Rm : M3 R) (t p q : V3 R) :
    (rigid Rm t p).sub (rigid Rm t q) = mulVec Rm (p.sub q) := by
  apply V3.ext' <;> simp only [rigid, mulVec, V3.sub, V3.add, V3.dot] <;> ring

theorem dot_mulVec (Rm : M3 R) (h : Orthogonal Rm) (p q : V3 R) :
    (mulVec Rm p).dot (mulVec Rm q) = p.dot q := by
  have h' := h
  simp only [Orthogonal, M3.mul, M3.transpose, vecMul, M3.one, M3.mk.injEq, V3.mk.injEq] at h'
  obtain ⟨⟨h00, h01, h02⟩, ⟨h10, h11, h12⟩, ⟨h20, h21, h22⟩⟩ := h'
  simp only [mulVec, V3.dot]
  linear_combination p.x * q.x * h00 + p.x * q.y * h01 + p.x * q.z * h02 +
    p.y * q.x * h10 + p.y * q.y * h11 + p.y * q.z * h12 +
    p.z * q.x * h20 + p.z * q.y * h21 + p.z * q.z * h22

/-- `det [Rp, Rq, Rr] = det R · det [p, q, r]` — a pure polynomial identity. -/
theorem triple_mulVec (Rm : M3 R) (p q r : V3 R) :
    triple (mulVec Rm p) (mulVec Rm q) (mulVec Rm r) = Rm.det * triple p q r := by
  simp only [triple, M3.det, mulVec, V3.dot, V3.cross]; ring

/-- Binet–Cauchy: `(p×q)·(q×r) = (p·q)(q·r) − (p·r)(q·q)`. -/
theorem cross_dot_cross (p q r : V3 R) :
    (p.cross q).dot (q.cross r) = p.dot q * q.dot r - p.dot r * q.dot q := by
  simp only [V3.dot, V3.cross]; ring

/-- `((p×q)×(q×r))·q = (q·q) · det[p,q,r]`. -/
theorem cross_cross_dot (p q r : V3 R) :
    ((p.cross q).cross (q.cross r)).dot q = q.dot q * triple p q r := by
  simp only [triple, V3.dot, V3.cross]; ring

/-- Lagrange: `|u|²|v|² − (u·v)² = |u×v|²`. -/
theorem lagrange (u v : V3 R) :
    u.normSq * v.normSq - (u.dot v) * (u.dot v) = (u.cross v).normSq := by
  simp only [V3.normSq, V3.dot, V3.cross]; ring

end Ring

/-! ### unit cell ↔ vectors, over any field -/
section Cell
variable {F : Type} [Field F]

/-- With `sin²γ = 1 − cos²γ`, `sin γ ≠ 0` and `c_z² = c² − c_x² − c_y²`, the box built by
`vectors_from_unitcell` has exactly the squared lengths and dot products of the requested cell. -/
theorem cellSq_vectorsFromCell (la lb lc ca cb cg sg cz : F) (hsg : sg ≠ 0) (hs : sg * sg = 1 - cg * cg)
    (hz : cz * cz = lc * lc - (lc * cb) * (lc * cb) - (lc * (ca - cb * cg) / sg) * (lc * (ca - cb * cg) / sg)) :
    cellSqFromVectors (vectorsFromCell la lb lc ca cb cg sg cz) =
      ⟨la * la, lb * lb, lc * lc, lb * lc * ca, la * lc * cb, la * lb * cg⟩ := by
  simp only [cellSqFromVectors, vectorsFromCell, V3.dot, CellSq.mk.injEq]
  refine ⟨by ring, ?_, ?_, ?_, by ring, by ring⟩
  · linear_combination (lb * lb) * hs
  · linear_combination hz
  · field_simp
    ring

end Cell

/-! ## Part B — rational vectors, fractions, lattice -/

/-- `v` is an integer combination of the box vectors. -/
def InLattice (b : Box) (v : Vec) : Prop := ∃ i j k : Int, v = vecMul (ofInts i j k) b

theorem vecMul_add (f g : Vec) (b : Box) : vecMul (f.add g) b = (vecMul f b).add (vecMul g b) := by
  apply V3.ext' <;> simp only [vecMul, V3.add] <;> ring

theorem vecMul_sub (f g : Vec) (b : Box) : vecMul (f.sub g) b = (vecMul f b).sub (vecMul g b) := by
  apply V3.ext' <;> simp only [vecMul, V3.sub] <;> ring

theorem ofInts_add (i j k i' j' k' : Int) :
    (ofInts i j k).add (ofInts i' j' k') = ofInts (i + i') (j + j') (k + k') := by
  apply V3.ext' <;> simp [ofInts, V3.add]

theorem InLattice.add {b : Box} {u v : Vec} (hu : InLattice b u) (hv : InLattice b v) :
    InLattice b (u.add v) := by
  obtain ⟨i, j, k, rfl⟩ := hu
  obtain ⟨i', j', k', rfl⟩ := hv
  exact ⟨i + i', j + j', k + k', by rw [← vecMul_add, ofInts_add]⟩

theorem InLattice.zero (b : Box) : InLattice b ⟨0, 0, 0⟩ :=
  ⟨0, 0, 0, by apply V3.ext' <;> simp [vecMul, ofInts]⟩

/-- the three reciprocal vectors: columns of `inv(box)`; `1/|recipᵢ|` is the i-th box height -/
def recip0 (b : Box) : Vec := V3.smul (1 / b.det) (b.r1.cross b.r2)
def recip1 (b : Box) : Vec := V3.smul (1 / b.det) (b.r2.cross b.r0)
def recip2 (b : Box) : Vec := V3.smul (1 / b.det) (b.r0.cross b.r1)

theorem coordToFraction_eq (x : Vec) (b : Box) (h : b.det ≠ 0) :
    coordToFraction x b = some ⟨x.dot (recip0 b), x.dot (recip1 b), x.dot (recip2 b)⟩ := by
  simp only [coordToFraction, inv3, h, if_false, Option.map_some, vecMul, recip0, recip1, recip2,
    V3.dot, V3.smul, V3.cross]
  congr 1
  apply V3.ext' <;> simp only <;> field_simp

theorem coordToFraction_none (x : Vec) (b : Box) (h : b.det = 0) : coordToFraction x b = none := by
  simp [coordToFraction, inv3, h]

/-- `fraction_to_coord ∘ coord_to_fraction = id` -/
theorem fractionToCoord_coordToFraction (x f : Vec) (b : Box) (h : coordToFraction x b = some f) :
    fractionToCoord f b = x := by
  by_cases hd : b.det = 0
  · simp [coordToFraction_none x b hd] at h
  · rw [coordToFraction_eq x b hd] at h
    cases h
    have htd : (1 / b.det) * b.det = 1 := by field_simp
    apply V3.ext' <;>
      simp only [fractionToCoord, vecMul, recip0, recip1, recip2, V3.dot, V3.smul, V3.cross] <;>
      generalize (1 / b.det) = t at htd ⊢ <;>
      simp only [M3.det, triple, V3.dot, V3.cross] at htd
    · linear_combination x.x * htd
    · linear_combination x.y * htd
    · linear_combination x.z * htd

/-- `coord_to_fraction ∘ fraction_to_coord = id` -/
theorem coordToFraction_fractionToCoord (f : Vec) (b : Box) (h : b.det ≠ 0) :
    coordToFraction (fractionToCoord f b) b = some f := by
  rw [coordToFraction_eq _ b h]
  have htd : (1 / b.det) * b.det = 1 := by field_simp
  congr 1
  apply V3.ext' <;>
    simp only [fractionToCoord, vecMul, recip0, recip1, recip2, V3.dot, V3.smul, V3.cross] <;>
    generalize (1 / b.det) = t at htd ⊢ <;>
    simp only [M3.det, triple, V3.dot, V3.cross] at htd
  · linear_combination f.x * htd
  · linear_combination f.y * htd
  · linear_combination f.z * htd

/-! ### `% 1` -/

theorem pymod_one (q : Rat) : pymod q 1 = q - (q.floor : Rat) := by
  simp [pymod]

theorem pymod_one_nonneg (q : Rat) : 0 ≤ pymod q 1 := by
  rw [pymod_one]; linarith [Rat.floor_le q]

theorem pymod_one_lt (q : Rat) : pymod q 1 < 1 := by
  rw [pymod_one]
  have := Rat.lt_floor_add_one q
  push_cast at this
  linarith

theorem floor_of_unit {g : Rat} (h0 : 0 ≤ g) (h1 : g < 1) : g.floor = 0 := by
  have a : (0 : Int) ≤ g.floor := Rat.le_floor_iff.mpr (by simpa using h0)
  have b : g.floor < (1 : Int) := Rat.floor_lt_iff.mpr (by simpa using h1)
  omega

end BiotiteModel.C15

import BiotiteModel.Model.C07H36
/-! Proofs about the hybrid-36 model (`Model/C07H36.lean`): decimal text, `int(str)`, `strip`,
base-36 blocks, `decode ∘ encode = id` for every width, rejection above `maxNumber`, and
`encode ∘ decode = id` on canonical letter strings.  Core Lean only (no Mathlib). -/
namespace BiotiteModel.C07

theorem toNat_ofNat_small : ∀ n < 128, (Char.ofNat n).toNat = n := by decide

theorem natDecAux_succ (f n : Nat) : natDecAux (f + 1) n =
    if n < 10 then [Char.ofNat (48 + n)] else natDecAux f (n / 10) ++ [Char.ofNat (48 + n % 10)] := rfl

theorem natDecAux_fuel : ∀ f g n, n < f → n < g → natDecAux f n = natDecAux g n := by
  intro f
  induction f with
  | zero => intro g n h; omega
  | succ f ih =>
    intro g n hf hg
    cases g with
    | zero => omega
    | succ g =>
      simp only [natDecAux_succ]
      split
      · rfl
      · rw [ih g (n / 10) (by omega) (by omega)]

theorem natDec_unfold (n : Nat) : natDec n =
    if n < 10 then [Char.ofNat (48 + n)] else natDec (n / 10) ++ [Char.ofNat (48 + n % 10)] := by
  by_cases h : n < 10
  · rw [if_pos h]; show natDecAux (n + 1) n = _; rw [natDecAux_succ, if_pos h]
  · rw [if_neg h]; show natDecAux (n + 1) n = natDecAux (n / 10 + 1) (n / 10) ++ _
    rw [natDecAux_succ, if_neg h, natDecAux_fuel n (n / 10 + 1) (n / 10) (by omega) (by omega)]

theorem natDec_ne_nil (n : Nat) : natDec n ≠ [] := by
  rw [natDec_unfold]; split <;> simp

theorem isDig_digit (d : Nat) (hd : d < 10) : isDig (Char.ofNat (48 + d)) = true := by
  have h := toNat_ofNat_small (48 + d) (by omega)
  simp only [isDig, h, Bool.and_eq_true, decide_eq_true_eq]; omega

theorem natDec_all_digits (n : Nat) : ∀ c ∈ natDec n, isDig c = true := by
  induction n using Nat.strongRecOn with
  | ind n ih =>
    rw [natDec_unfold]
    split
    · rename_i h; intro c hc; simp only [List.mem_singleton] at hc; subst hc; exact isDig_digit n h
    · rename_i h; intro c hc
      rw [List.mem_append] at hc
      rcases hc with hc | hc
      · exact ih (n / 10) (by omega) c hc
      · simp only [List.mem_singleton] at hc; subst hc; exact isDig_digit _ (by omega)

theorem natDec_length_pos (n : Nat) : 0 < (natDec n).length :=
  List.length_pos_iff.mpr (natDec_ne_nil n)

theorem natDec_length_le_iff (n w : Nat) (hw : 1 ≤ w) : (natDec n).length ≤ w ↔ n < 10 ^ w := by
  induction n using Nat.strongRecOn generalizing w with
  | ind n ih =>
    rw [natDec_unfold]
    split
    · rename_i h
      have : 10 ^ 1 ≤ 10 ^ w := Nat.pow_le_pow_right (by omega) hw
      simp only [List.length_singleton]; constructor
      · intro _; omega
      · intro _; exact hw
    · rename_i h
      simp only [List.length_append, List.length_singleton]
      have hp := natDec_length_pos (n / 10)
      cases w with
      | zero => omega
      | succ w =>
        cases w with
        | zero => simp only [Nat.zero_add, Nat.pow_one]; omega
        | succ w =>
          have := ih (n / 10) (by omega) (w + 1) (by omega)
          rw [Nat.pow_succ 10 (w + 1), Nat.add_le_add_iff_right, this, Nat.div_lt_iff_lt_mul (by omega)]

theorem natDec_length_le (n w : Nat) (h : n < 10 ^ w) (hw : 1 ≤ w) : (natDec n).length ≤ w :=
  (natDec_length_le_iff n w hw).mpr h

theorem digStep_digit (acc : Nat) (p : Bool) (d : Nat) (hd : d < 10) :
    digStep (some (acc, p)) (Char.ofNat (48 + d)) = some (acc * 10 + d, true) := by
  have h := toNat_ofNat_small (48 + d) (by omega)
  simp only [digStep, isDig_digit d hd, if_true, h, Nat.add_sub_cancel_left]

theorem foldl_digStep_natDec (n : Nat) : ∀ p, (natDec n).foldl digStep (some (0, p)) = some (n, true) := by
  induction n using Nat.strongRecOn with
  | ind n ih =>
    intro p
    rw [natDec_unfold]
    split
    · rename_i h; simp only [List.foldl_cons, List.foldl_nil, digStep_digit 0 p n h]; simp
    · rename_i h
      rw [List.foldl_append, ih (n / 10) (by omega) p]
      simp only [List.foldl_cons, List.foldl_nil, digStep_digit (n / 10) true (n % 10) (by omega)]
      congr 2; omega

theorem foldl_digStep_zeros (k : Nat) : ∀ p, ∃ q, (List.replicate k '0').foldl digStep (some (0, p)) = some (0, q) := by
  induction k with
  | zero => intro p; exact ⟨p, rfl⟩
  | succ k ih =>
    intro p
    rw [List.replicate_succ, List.foldl_cons]
    have : digStep (some (0, p)) '0' = some (0, true) := by
      have := digStep_digit 0 p 0 (by omega); simpa using this
    rw [this]; exact ih true

theorem digitsVal_natDec (n : Nat) : digitsVal (natDec n) = some n := by
  unfold digitsVal; rw [foldl_digStep_natDec]

theorem digitsVal_zeros_natDec (k n : Nat) : digitsVal (List.replicate k '0' ++ natDec n) = some n := by
  unfold digitsVal
  obtain ⟨q, hq⟩ := foldl_digStep_zeros k false
  rw [List.foldl_append, hq, foldl_digStep_natDec]

theorem dropWhile_of_all_false {p : Char → Bool} : ∀ (s : List Char), (∀ c ∈ s, p c = false) → s.dropWhile p = s
  | [], _ => rfl
  | c :: r, h => by rw [List.dropWhile_cons, h c (List.mem_cons_self ..)]; rfl

theorem dropWhile_replicate_append {p : Char → Bool} (x : Char) (hx : p x = true) (t : List Char) :
    ∀ a, (List.replicate a x ++ t).dropWhile p = t.dropWhile p
  | 0 => rfl
  | a + 1 => by
    rw [List.replicate_succ, List.cons_append, List.dropWhile_cons, hx]
    exact dropWhile_replicate_append x hx t a

theorem strip_of_no_ws (s : List Char) (h : ∀ c ∈ s, isWS c = false) : strip s = s := by
  unfold strip lstrip rstrip
  rw [dropWhile_of_all_false s h, dropWhile_of_all_false s.reverse (by simpa using h), List.reverse_reverse]

theorem isWS_space : isWS ' ' = true := by decide

theorem strip_pad (a b : Nat) (s : List Char) (h : ∀ c ∈ s, isWS c = false) :
    strip (List.replicate a ' ' ++ s ++ List.replicate b ' ') = s := by
  unfold strip lstrip rstrip
  rw [List.append_assoc, dropWhile_replicate_append ' ' isWS_space]
  cases s with
  | nil =>
    have : (List.replicate b ' ').dropWhile isWS = [] := by
      have := dropWhile_replicate_append ' ' isWS_space [] b
      simpa using this
    simp [this]
  | cons c r =>
    rw [List.cons_append, List.dropWhile_cons, h c (List.mem_cons_self ..)]
    simp only [Bool.false_eq_true, if_false]
    rw [← List.cons_append, List.reverse_append, List.reverse_replicate,
      dropWhile_replicate_append ' ' isWS_space,
      dropWhile_of_all_false _ (fun x hx => h x (List.mem_reverse.mp hx)), List.reverse_reverse]

/-! ### `int(str)` -/

theorem isWS_of_isDig (c : Char) (h : isDig c = true) : isWS c = false := by
  simp only [isDig, Bool.and_eq_true, decide_eq_true_eq] at h
  simp only [isWS, Bool.or_eq_false_iff, Bool.and_eq_false_iff, beq_eq_false_iff_ne, decide_eq_false_iff_not]
  omega

theorem natDec_no_ws (n : Nat) : ∀ c ∈ natDec n, isWS c = false :=
  fun c hc => isWS_of_isDig c (natDec_all_digits n c hc)

theorem pyInt_neg (s r : List Char) (hs : strip s = '-' :: r) :
    pyInt? s = (digitsVal r).map (fun n => -(n : Int)) := by
  unfold pyInt?; rw [hs]; rfl

theorem pyInt_plain (s r : List Char) (hs : strip s = r) (h1 : r.head? ≠ some '-') (h2 : r.head? ≠ some '+') :
    pyInt? s = (digitsVal r).map (fun n => (n : Int)) := by
  unfold pyInt?; rw [hs]
  split
  · simp at h1
  · simp at h2
  · rfl

theorem natDec_head (n : Nat) (c : Char) (hc : isDig c = false) : (natDec n).head? ≠ some c := by
  intro h
  have := natDec_all_digits n c (List.mem_of_head? h)
  rw [hc] at this; cases this

theorem pyInt_pad_natDec (a b n : Nat) :
    pyInt? (List.replicate a ' ' ++ natDec n ++ List.replicate b ' ') = some (n : Int) := by
  rw [pyInt_plain _ _ (strip_pad a b _ (natDec_no_ws n)) (natDec_head n _ (by decide))
    (natDec_head n _ (by decide)), digitsVal_natDec]; rfl

theorem pyInt_pad_intDec (a b : Nat) (i : Int) :
    pyInt? (List.replicate a ' ' ++ intDec i ++ List.replicate b ' ') = some i := by
  unfold intDec
  split
  · rename_i h
    have hws : ∀ c ∈ '-' :: natDec i.natAbs, isWS c = false := by
      intro c hc
      rcases List.mem_cons.mp hc with rfl | hc
      · decide
      · exact natDec_no_ws _ c hc
    rw [pyInt_neg _ _ (strip_pad a b _ hws), digitsVal_natDec]
    simp; omega
  · rename_i h
    rw [pyInt_pad_natDec]; congr 1; omega

theorem pyInt_intDec (i : Int) : pyInt? (intDec i) = some i := by
  have := pyInt_pad_intDec 0 0 i
  simpa using this

theorem pyInt_natDec (n : Nat) : pyInt? (natDec n) = some (n : Int) := by
  have := pyInt_pad_natDec 0 0 n
  simpa using this

theorem foldl_digStep_none : ∀ r : List Char, r.foldl digStep none = none
  | [] => rfl
  | _ :: r => by rw [List.foldl_cons]; exact foldl_digStep_none r

theorem digitsVal_none_of_head (c : Char) (r : List Char) (hc : isDig c = false) :
    digitsVal (c :: r) = none := by
  unfold digitsVal
  have : digStep (some (0, false)) c = none := by simp [digStep, hc]
  rw [List.foldl_cons, this, foldl_digStep_none]

theorem pyInt_none (c : Char) (r : List Char) (hws : ∀ x ∈ c :: r, isWS x = false)
    (hc : isDig c = false) (h1 : c ≠ '-') (h2 : c ≠ '+') : pyInt? (c :: r) = none := by
  rw [pyInt_plain _ _ (strip_of_no_ws _ hws) (by simpa using h1) (by simpa using h2),
    digitsVal_none_of_head c r hc]; rfl

theorem decodeH36_pad (a b : Nat) (s : List Char) (h : ∀ c ∈ s, isWS c = false) :
    decodeH36 (List.replicate a ' ' ++ s ++ List.replicate b ' ') = decodeH36 s := by
  unfold decodeH36 pyInt?
  rw [strip_pad a b s h, strip_of_no_ws s h]

/-! ### letters -/

theorem isLetter_facts (l0 : Nat) (hl : l0 = 65 ∨ l0 = 97) (c : Char) (h : isLetter l0 c = true) :
    isDig c = false ∧ isWS c = false ∧ c ≠ '-' ∧ c ≠ '+' ∧ ¬ c.toNat ≤ 57 := by
  simp only [isLetter, Bool.and_eq_true, decide_eq_true_eq] at h
  refine ⟨?_, ?_, ?_, ?_, ?_⟩
  · simp only [isDig, Bool.and_eq_false_iff, decide_eq_false_iff_not]; omega
  · simp only [isWS, Bool.or_eq_false_iff, Bool.and_eq_false_iff, beq_eq_false_iff_ne, decide_eq_false_iff_not]
    omega
  · rintro rfl; have : ('-' : Char).toNat = 45 := by decide
    omega
  · rintro rfl; have : ('+' : Char).toNat = 43 := by decide
    omega
  · omega

theorem decodeH36_letters (l0 : Nat) (hl : l0 = 65 ∨ l0 = 97) (c : Char) (r : List Char)
    (hc : isLetter l0 c = true) (hws : ∀ x ∈ c :: r, isWS x = false) :
    decodeH36 (c :: r) = .ok (if l0 = 65
      then decBase36 65 (c :: r) - 10 * 36 ^ r.length + 10 ^ (r.length + 1)
      else decBase36 97 (c :: r) + 16 * 36 ^ r.length + 10 ^ (r.length + 1)) := by
  obtain ⟨hd, _, h1, h2, _⟩ := isLetter_facts l0 hl c hc
  unfold decodeH36
  rw [pyInt_none c r hws hd h1 h2]
  simp only [strip_of_no_ws _ hws, List.length_cons, Nat.add_sub_cancel]
  simp only [isLetter, Bool.and_eq_true, decide_eq_true_eq] at hc
  have hU : ((asciiFirstUpper ≤ c.toNat && c.toNat ≤ asciiLastUpper) = true) ↔ (65 ≤ c.toNat ∧ c.toNat ≤ 90) := by
    simp only [Bool.and_eq_true, decide_eq_true_eq]; rfl
  have hL : ((asciiFirstLower ≤ c.toNat && c.toNat ≤ asciiLastLower) = true) ↔ (97 ≤ c.toNat ∧ c.toNat ≤ 122) := by
    simp only [Bool.and_eq_true, decide_eq_true_eq]; rfl
  rcases hl with rfl | rfl
  · rw [if_pos (hU.mpr (by omega))]; simp [asciiFirstUpper]
  · rw [if_neg (fun h => by have := hU.mp h; omega), if_pos (hL.mpr (by omega))]; simp [asciiFirstLower]


/-! ### base 36 -/

theorem encBase36_succ (l0 w n : Nat) :
    encBase36 l0 (w + 1) n = encBase36 l0 w (n / 36) ++ [digitChar l0 (n % 36)] := rfl

theorem encBase36_length (l0 w n : Nat) : (encBase36 l0 w n).length = w := by
  induction w generalizing n with
  | zero => rfl
  | succ w ih => rw [encBase36_succ, List.length_append, ih]; rfl

theorem encBase36_mem (l0 w n : Nat) : ∀ c ∈ encBase36 l0 w n, ∃ d, d < 36 ∧ c = digitChar l0 d := by
  induction w generalizing n with
  | zero => intro c hc; cases hc
  | succ w ih =>
    intro c hc
    rw [encBase36_succ, List.mem_append] at hc
    rcases hc with hc | hc
    · exact ih _ c hc
    · simp only [List.mem_singleton] at hc
      exact ⟨n % 36, Nat.mod_lt _ (by omega), hc⟩

theorem digitChar_facts (l0 : Nat) (hl : l0 = 65 ∨ l0 = 97) :
    ∀ d, d < 36 → isWS (digitChar l0 d) = false ∧ charVal l0 (digitChar l0 d) = (d : Int) ∧
      (10 ≤ d → isLetter l0 (digitChar l0 d) = true) := by
  rcases hl with rfl | rfl <;> decide

theorem encBase36_no_ws (l0 : Nat) (hl : l0 = 65 ∨ l0 = 97) (w n : Nat) :
    ∀ c ∈ encBase36 l0 w n, isWS c = false := by
  intro c hc
  obtain ⟨d, hd, rfl⟩ := encBase36_mem l0 w n c hc
  exact (digitChar_facts l0 hl d hd).1

theorem encBase36_head (l0 w n : Nat) :
    (encBase36 l0 (w + 1) n).head? = some (digitChar l0 (n / 36 ^ w % 36)) := by
  induction w generalizing n with
  | zero => simp [encBase36]
  | succ w ih =>
    have e : n / 36 / 36 ^ w = n / 36 ^ (w + 1) := by
      rw [Nat.div_div_eq_div_mul, Nat.pow_succ, Nat.mul_comm]
    rw [encBase36_succ, List.head?_append, ih, e]; rfl

theorem decBase36_append (l0 : Nat) (s : List Char) (c : Char) :
    decBase36 l0 (s ++ [c]) = decBase36 l0 s * 36 + charVal l0 c := by
  unfold decBase36; rw [List.foldl_append]; rfl

theorem decBase36_enc (l0 : Nat) (hl : l0 = 65 ∨ l0 = 97) (w n : Nat) (h : n < 36 ^ w) :
    decBase36 l0 (encBase36 l0 w n) = (n : Int) := by
  induction w generalizing n with
  | zero => simp at h; subst h; rfl
  | succ w ih =>
    rw [encBase36_succ, decBase36_append, ih (n / 36) (by rw [Nat.pow_succ] at h; omega),
      (digitChar_facts l0 hl _ (Nat.mod_lt _ (by omega))).2.1]
    omega

theorem encodeH36_nat (n k : Nat) : encodeH36 (n : Int) (k + 1) =
    if n < 10 ^ (k + 1) then .ok (natDec n)
    else if n - 10 ^ (k + 1) < 26 * 36 ^ k then
      .ok (encBase36 65 (k + 1) (n - 10 ^ (k + 1) + 10 * 36 ^ k))
    else if n - 10 ^ (k + 1) - 26 * 36 ^ k < 26 * 36 ^ k then
      .ok (encBase36 97 (k + 1) (n - 10 ^ (k + 1) - 26 * 36 ^ k + 10 * 36 ^ k))
    else .error .valueError := by
  unfold encodeH36
  rw [if_neg (by omega), if_neg (by omega)]
  simp only [Int.toNat_natCast, Nat.add_sub_cancel, asciiFirstUpper, asciiFirstLower]

/-- decoding an encoded letter block -/
theorem decode_enc_letters (l0 : Nat) (hl : l0 = 65 ∨ l0 = 97) (k N : Nat)
    (h1 : 10 * 36 ^ k ≤ N) (h2 : N < 36 * 36 ^ k) :
    decodeH36 (encBase36 l0 (k + 1) N) = .ok (if l0 = 65
      then (N : Int) - ((10 * 36 ^ k : Nat) : Int) + ((10 ^ (k + 1) : Nat) : Int)
      else (N : Int) + ((16 * 36 ^ k : Nat) : Int) + ((10 ^ (k + 1) : Nat) : Int)) := by
  have hP : 0 < 36 ^ k := Nat.pow_pos (by omega)
  have hlt : N < 36 ^ (k + 1) := by rw [Nat.pow_succ]; omega
  have hhead := encBase36_head l0 k N
  have hlen := encBase36_length l0 (k + 1) N
  have hdec := decBase36_enc l0 hl (k + 1) N hlt
  have hws := encBase36_no_ws l0 hl (k + 1) N
  have hd1 : 10 ≤ N / 36 ^ k := (Nat.le_div_iff_mul_le hP).mpr h1
  have hd2 : N / 36 ^ k < 36 := (Nat.div_lt_iff_lt_mul hP).mpr h2
  rw [Nat.mod_eq_of_lt hd2] at hhead
  have hlet := (digitChar_facts l0 hl _ hd2).2.2 hd1
  generalize encBase36 l0 (k + 1) N = s at *
  cases s with
  | nil => simp at hhead
  | cons c r =>
    simp only [List.head?_cons, Option.some.injEq] at hhead
    subst hhead
    simp only [List.length_cons, Nat.add_right_cancel_iff] at hlen
    rw [decodeH36_letters l0 hl _ r hlet hws, hlen]
    rcases hl with rfl | rfl
    · simp only [if_true] at *; rw [hdec]; push_cast; rfl
    · simp only [show ¬ (97 = 65) by omega, if_false] at *; rw [hdec]; push_cast; rfl

theorem decode_encode (w n : Nat) (hw : 1 ≤ w) (hn : n ≤ maxNumber w) :
    ∃ s, encodeH36 (n : Int) w = .ok s ∧ decodeH36 s = .ok (n : Int) := by
  obtain ⟨k, rfl⟩ : ∃ k, w = k + 1 := ⟨w - 1, by omega⟩
  rw [encodeH36_nat]
  have hmax : maxNumber (k + 1) = 10 ^ (k + 1) - 1 + 2 * (26 * 36 ^ k) := rfl
  rw [hmax] at hn; clear hmax
  have hT : 0 < 10 ^ (k + 1) := Nat.pow_pos (by omega)
  have hP : 0 < 36 ^ k := Nat.pow_pos (by omega)
  by_cases h1 : n < 10 ^ (k + 1)
  · rw [if_pos h1]; refine ⟨_, rfl, ?_⟩; unfold decodeH36; rw [pyInt_natDec]
  · rw [if_neg h1]
    by_cases h2 : n - 10 ^ (k + 1) < 26 * 36 ^ k
    · rw [if_pos h2]; refine ⟨_, rfl, ?_⟩
      rw [decode_enc_letters 65 (Or.inl rfl) k _ (by omega) (by omega), if_pos rfl]
      congr 1
      generalize 36 ^ k = P at *; generalize 10 ^ (k + 1) = T at *
      omega
    · rw [if_neg h2, if_pos (by omega)]; refine ⟨_, rfl, ?_⟩
      rw [decode_enc_letters 97 (Or.inr rfl) k _ (by omega) (by omega), if_neg (by omega)]
      congr 1
      generalize 36 ^ k = P at *; generalize 10 ^ (k + 1) = T at *
      omega


theorem encodeH36_ok_cases (n : Int) (w : Nat) (s : List Char) (h : encodeH36 n w = .ok s) :
    1 ≤ w ∧ ((n.toNat < 10 ^ w ∧ s = natDec n.toNat) ∨
      (∃ l0 N, (l0 = 65 ∨ l0 = 97) ∧ s = encBase36 l0 w N)) := by
  unfold encodeH36 at h
  split at h
  · cases h
  split at h
  · cases h
  rename_i h0 hw
  refine ⟨by omega, ?_⟩
  dsimp only at h
  split at h
  · rename_i h1; left; injection h with h; exact ⟨h1, h.symm⟩
  · split at h
    · right; injection h with h; exact ⟨65, _, Or.inl rfl, h.symm⟩
    · split at h
      · right; injection h with h; exact ⟨97, _, Or.inr rfl, h.symm⟩
      · cases h

theorem encodeH36_length (n : Int) (w : Nat) (s : List Char) (h : encodeH36 n w = .ok s) :
    s.length ≤ w := by
  obtain ⟨hw, ⟨h1, rfl⟩ | ⟨l0, N, _, rfl⟩⟩ := encodeH36_ok_cases n w s h
  · exact natDec_length_le _ _ h1 hw
  · rw [encBase36_length]; exact Nat.le_refl _

theorem encodeH36_no_ws (n : Int) (w : Nat) (s : List Char) (h : encodeH36 n w = .ok s) :
    ∀ c ∈ s, isWS c = false := by
  obtain ⟨hw, ⟨h1, rfl⟩ | ⟨l0, N, hl, rfl⟩⟩ := encodeH36_ok_cases n w s h
  · exact natDec_no_ws _
  · exact encBase36_no_ws l0 hl w N

theorem encodeH36_ne_nil (n : Int) (w : Nat) (s : List Char) (h : encodeH36 n w = .ok s) : s ≠ [] := by
  obtain ⟨hw, ⟨h1, rfl⟩ | ⟨l0, N, hl, rfl⟩⟩ := encodeH36_ok_cases n w s h
  · exact natDec_ne_nil _
  · intro h0
    have := encBase36_length l0 w N
    rw [h0] at this; simp at this; omega

theorem decode_pad_encode (w n a b : Nat) (hw : 1 ≤ w) (hn : n ≤ maxNumber w) :
    ∃ s, encodeH36 (n : Int) w = .ok s ∧
      decodeH36 (List.replicate a ' ' ++ s ++ List.replicate b ' ') = .ok (n : Int) := by
  obtain ⟨s, h1, h2⟩ := decode_encode w n hw hn
  exact ⟨s, h1, by rw [decodeH36_pad a b s (encodeH36_no_ws _ _ _ h1), h2]⟩

theorem encode_rejects_neg (w : Nat) (n : Int) (h : n < 0) : encodeH36 n w = .error .valueError := by
  unfold encodeH36; rw [if_pos h]

theorem encode_rejects (w : Nat) (n : Int) (h : (maxNumber w : Int) < n) :
    encodeH36 n w = .error .valueError := by
  unfold encodeH36
  split
  · rfl
  split
  · rfl
  rename_i h0 hw
  have hT : 0 < 10 ^ w := Nat.pow_pos (by omega)
  unfold maxNumber at h
  dsimp only
  generalize 10 ^ w = T at *
  generalize 36 ^ (w - 1) = P at *
  rw [if_neg (by omega), if_neg (by omega), if_neg (by omega)]


/-! ### encode ∘ decode on canonical letter strings -/

theorem isB36_facts (l0 : Nat) (hl : l0 = 65 ∨ l0 = 97) (c : Char) (h : isB36 l0 c = true) :
    isWS c = false ∧ ∃ d : Nat, d < 36 ∧ charVal l0 c = (d : Int) ∧ digitChar l0 d = c := by
  simp only [isB36, isDig, Bool.or_eq_true, Bool.and_eq_true, decide_eq_true_eq] at h
  constructor
  · simp only [isWS, Bool.or_eq_false_iff, Bool.and_eq_false_iff, beq_eq_false_iff_ne, decide_eq_false_iff_not]
    rcases hl with rfl | rfl <;> omega
  · rcases h with h | h
    · refine ⟨c.toNat - 48, by omega, ?_, ?_⟩
      · unfold charVal
        rw [if_pos (show c.toNat ≤ asciiLastNumber from h.2)]
        simp only [asciiFirstNumber]; omega
      · unfold digitChar
        rw [if_pos (by omega)]
        simp only [asciiFirstNumber]
        rw [show 48 + (c.toNat - 48) = c.toNat by omega, Char.ofNat_toNat]
    · refine ⟨c.toNat - l0 + 10, by omega, ?_, ?_⟩
      · unfold charVal
        rw [if_neg (show ¬ c.toNat ≤ asciiLastNumber by
          show ¬ c.toNat ≤ 57
          rcases hl with rfl | rfl <;> omega)]
        omega
      · unfold digitChar
        rw [if_neg (by omega), show c.toNat - l0 + 10 + l0 - 10 = c.toNat by omega, Char.ofNat_toNat]

theorem enc_dec_rev (l0 : Nat) (hl : l0 = 65 ∨ l0 = 97) :
    ∀ s : List Char, (∀ c ∈ s, isB36 l0 c = true) →
      ∃ N : Nat, N < 36 ^ s.length ∧ decBase36 l0 s.reverse = (N : Int) ∧
        encBase36 l0 s.length N = s.reverse
  | [], _ => ⟨0, by simp, rfl, rfl⟩
  | x :: s, h => by
    obtain ⟨N, hN, hdec, henc⟩ := enc_dec_rev l0 hl s (fun c hc => h c (List.mem_cons_of_mem _ hc))
    obtain ⟨_, d, hd, hcv, hdc⟩ := isB36_facts l0 hl x (h x (List.mem_cons_self ..))
    refine ⟨N * 36 + d, ?_, ?_, ?_⟩
    · rw [List.length_cons, Nat.pow_succ]; omega
    · rw [List.reverse_cons, decBase36_append, hdec, hcv]; omega
    · rw [List.length_cons, encBase36_succ, List.reverse_cons,
        show (N * 36 + d) / 36 = N by omega, show (N * 36 + d) % 36 = d by omega, henc, hdc]

theorem digitChar_letter (l0 : Nat) (hl : l0 = 65 ∨ l0 = 97) :
    ∀ d, d < 36 → isLetter l0 (digitChar l0 d) = true → 10 ≤ d := by
  rcases hl with rfl | rfl <;> decide

theorem isB36_of_isLetter (l0 : Nat) (c : Char) (h : isLetter l0 c = true) : isB36 l0 c = true := by
  unfold isB36; unfold isLetter at h; rw [h]; simp

theorem encode_decode_letters (l0 : Nat) (hl : l0 = 65 ∨ l0 = 97) (s : List Char)
    (h : canonicalLetters l0 s = true) :
    ∃ v : Int, decodeH36 s = .ok v ∧ encodeH36 v s.length = .ok s := by
  cases s with
  | nil => simp [canonicalLetters] at h
  | cons c r =>
    simp only [canonicalLetters, Bool.and_eq_true, List.all_eq_true] at h
    obtain ⟨hc, hr⟩ := h
    have hall : ∀ x ∈ c :: r, isB36 l0 x = true := by
      intro x hx
      rcases List.mem_cons.mp hx with rfl | hx
      · exact isB36_of_isLetter l0 _ hc
      · exact hr x hx
    have hws : ∀ x ∈ c :: r, isWS x = false := fun x hx => (isB36_facts l0 hl x (hall x hx)).1
    obtain ⟨N, hN, hdec, henc⟩ := enc_dec_rev l0 hl (c :: r).reverse
      (fun x hx => hall x (List.mem_reverse.mp hx))
    rw [List.reverse_reverse] at hdec henc
    rw [List.length_reverse, List.length_cons] at hN henc
    have hP : 0 < 36 ^ r.length := Nat.pow_pos (by omega)
    have hT : 0 < 10 ^ (r.length + 1) := Nat.pow_pos (by omega)
    rw [Nat.pow_succ] at hN
    have hd2 : N / 36 ^ r.length < 36 := (Nat.div_lt_iff_lt_mul hP).mpr (by omega)
    have hhead := encBase36_head l0 r.length N
    rw [henc, Nat.mod_eq_of_lt hd2, List.head?_cons, Option.some.injEq] at hhead
    have hd1 : 10 ≤ N / 36 ^ r.length := digitChar_letter l0 hl _ hd2 (hhead ▸ hc)
    have hlo : 10 * 36 ^ r.length ≤ N := (Nat.le_div_iff_mul_le hP).mp hd1
    rw [decodeH36_letters l0 hl c r hc hws, List.length_cons]
    rcases hl with rfl | rfl
    · refine ⟨_, rfl, ?_⟩
      rw [if_pos rfl, hdec,
        show (N : Int) - 10 * 36 ^ r.length + 10 ^ (r.length + 1)
          = ((N - 10 * 36 ^ r.length + 10 ^ (r.length + 1) : Nat) : Int) by
            push_cast [hlo]; rfl,
        encodeH36_nat, if_neg (by omega), if_pos (by omega),
        show N - 10 * 36 ^ r.length + 10 ^ (r.length + 1) - 10 ^ (r.length + 1) + 10 * 36 ^ r.length = N by omega,
        henc]
    · refine ⟨_, rfl, ?_⟩
      rw [if_neg (by omega), hdec,
        show (N : Int) + 16 * 36 ^ r.length + 10 ^ (r.length + 1)
          = ((N + 16 * 36 ^ r.length + 10 ^ (r.length + 1) : Nat) : Int) by
            push_cast; rfl,
        encodeH36_nat, if_neg (by omega), if_neg (by omega), if_pos (by omega),
        show N + 16 * 36 ^ r.length + 10 ^ (r.length + 1) - 10 ^ (r.length + 1) - 26 * 36 ^ r.length
          + 10 * 36 ^ r.length = N by omega,
        henc]

theorem encode_decode_upper (s : List Char) (h : canonicalLetters asciiFirstUpper s = true) :
    ∃ v : Int, decodeH36 s = .ok v ∧ encodeH36 v s.length = .ok s :=
  encode_decode_letters 65 (Or.inl rfl) s h

theorem encode_decode_lower (s : List Char) (h : canonicalLetters asciiFirstLower s = true) :
    ∃ v : Int, decodeH36 s = .ok v ∧ encodeH36 v s.length = .ok s :=
  encode_decode_letters 97 (Or.inr rfl) s h

end BiotiteModel.C07

import BiotiteModel.Proofs.C08TraceAffLocal
import BiotiteModel.Proofs.C08TraceG2
/-! Affine traceback: shape and distinctness of the (predecessor, column) lists; distinct traces; lookup congruence. -/
namespace BiotiteModel.C08


theorem mem_ite_nil {α : Type} (c : Prop) [Decidable c] (l : List α) (d : α)
    (h : d ∈ if c then [] else l) : d ∈ l := by
  split at h
  · simp at h
  · exact h

def predCell : ANode → Nat × Nat
  | ((i, j), .ga) => (i, j - 1)
  | ((i, j), .gb) => (i - 1, j)
  | ((i, j), _) => (i - 1, j - 1)

def colOf : ANode → Col
  | ((_, j), .ga) => .gapA (j - 1)
  | ((i, _), .gb) => .gapB (i - 1)
  | ((i, j), _) => .both (i - 1) (j - 1)

/-- every (predecessor, column) pair of a node has the same cell and the same column: only the state varies -/
theorem nextAff_shape (mode : Mode) (M : Mat) (go ge : Int) (a b : Seq) (T : Nat → Nat → AffCell) (s : ANode)
    (d : ANode × Col) (hd : d ∈ nextAff mode M go ge a b T s) :
    d.1.1 = predCell s ∧ d.2 = colOf s ∧ d.1.1.1 + d.1.1.2 < s.1.1 + s.1.2 := by
  obtain ⟨⟨i, j⟩, k⟩ := s
  cases i with
  | zero =>
    cases j with
    | zero => simp [nextAff] at hd
    | succ j =>
      simp only [nextAff] at hd
      split at hd
      · simp at hd
      · cases k <;> simp at hd
        split at hd <;> simp at hd <;> subst hd <;> simp_all [predCell, colOf]
  | succ i =>
    cases j with
    | zero =>
      simp only [nextAff] at hd
      split at hd
      · simp at hd
      · cases k <;> simp at hd
        split at hd <;> simp at hd <;> subst hd <;> simp_all [predCell, colOf]
    | succ j =>
      cases k <;> simp only [nextAff] at hd <;> have hd' := mem_ite_nil _ _ _ hd <;>
        obtain ⟨n, c, ov, hm, _, rfl⟩ := mem_pick _ _ _ _ hd' <;>
        simp only [List.mem_cons, Prod.mk.injEq, List.mem_nil_iff, or_false] at hm
      · rcases hm with ⟨rfl, rfl, _⟩ | ⟨rfl, rfl, _⟩ | ⟨rfl, rfl, _⟩ <;>
          simp [canon_fst, predCell, colOf] <;> omega
      · rcases hm with ⟨rfl, rfl, _⟩ | ⟨rfl, rfl, _⟩ | ⟨rfl, rfl, _⟩ <;>
          simp [canon_fst, predCell, colOf] <;> omega
      · rcases hm with ⟨rfl, rfl, _⟩ | ⟨rfl, rfl, _⟩ <;>
          simp [canon_fst, predCell, colOf] <;> omega
      · rcases hm with ⟨rfl, rfl, _⟩ | ⟨rfl, rfl, _⟩ <;>
          simp [canon_fst, predCell, colOf] <;> omega



theorem ite_nodup' {α : Type} (c : Prop) [Decidable c] (l : List α) (h : l.Nodup) : (if c then [] else l).Nodup := by
  split <;> simp [h]

theorem pick3_nodup (mode : Mode) (v : Option Int) (cell : Nat × Nat) (c : Col) (o1 o2 o3 : Option Int)
    (hcan : ∀ X, canonNode mode (cell, X) = (cell, X)) :
    ((pickCands v [((cell, Kind.m), c, o1), ((cell, Kind.ga), c, o2), ((cell, Kind.gb), c, o3)]).map
      fun x => (canonNode mode x.1, x.2)).Nodup := by
  simp only [pickCands, List.filter_cons, List.filter_nil]
  by_cases h1 : (o1 == v) = true <;> by_cases h2 : (o2 == v) = true <;> by_cases h3 : (o3 == v) = true <;>
    simp [h1, h2, h3, hcan]

theorem pick2_nodup (mode : Mode) (v : Option Int) (cell : Nat × Nat) (c : Col) (k2 : Kind) (hk : k2 ≠ .m)
    (o1 o2 : Option Int) (hcan : ∀ X, canonNode mode (cell, X) = (cell, X)) :
    ((pickCands v [((cell, Kind.m), c, o1), ((cell, k2), c, o2)]).map
      fun x => (canonNode mode x.1, x.2)).Nodup := by
  simp only [pickCands, List.filter_cons, List.filter_nil]
  by_cases h1 : (o1 == v) = true <;> by_cases h2 : (o2 == v) = true <;>
    simp [h1, h2, hcan, Ne.symm hk]

theorem canon_nonlocal (mode : Mode) (hm : mode ≠ .local) (s : ANode) : canonNode mode s = s := by
  simp [canonNode, hm]

theorem nextAff_nodup_nonlocal (mode : Mode) (hm : mode ≠ .local) (M : Mat) (go ge : Int) (a b : Seq)
    (T : Nat → Nat → AffCell) (s : ANode) : (nextAff mode M go ge a b T s).Nodup := by
  obtain ⟨⟨i, j⟩, k⟩ := s
  cases i with
  | zero =>
    cases j with
    | zero => simp [nextAff]
    | succ j => simp only [nextAff, hm, if_false]; cases k <;> simp; split <;> simp
  | succ i =>
    cases j with
    | zero => simp only [nextAff, hm, if_false]; cases k <;> simp; split <;> simp
    | succ j =>
      cases k <;> simp only [nextAff] <;> apply ite_nodup'
      · exact pick3_nodup mode _ (i, j) _ _ _ _ (fun X => canon_nonlocal mode hm _)
      · exact pick3_nodup mode _ (i, j) _ _ _ _ (fun X => canon_nonlocal mode hm _)
      · exact pick2_nodup mode _ (i + 1, j) _ .ga (by simp) _ _ (fun X => canon_nonlocal mode hm _)
      · exact pick2_nodup mode _ (i, j + 1) _ .gb (by simp) _ _ (fun X => canon_nonlocal mode hm _)

theorem canon_local_interior (i j : Nat) (X : Kind) :
    canonNode .local ((i + 1, j + 1), X) = ((i + 1, j + 1), X) := by simp [canonNode]

theorem nextAff_nodup_local (M : Mat) (go ge : Int) (a b : Seq) (s : ANode) :
    (nextAff .local M go ge a b (affRec .local M go ge a b).val s).Nodup := by
  obtain ⟨⟨i, j⟩, k⟩ := s
  cases i with
  | zero => cases j <;> simp [nextAff]
  | succ i =>
    cases j with
    | zero => simp [nextAff]
    | succ j =>
      cases k
      case ga =>
        simp only [nextAff]
        cases j with
        | zero => simp [aff_border1, oadd, omax]
        | succ j =>
          apply ite_nodup'
          exact pick2_nodup .local _ (i + 1, j + 1) _ .ga (by simp) _ _ (canon_local_interior i j)
      case gb =>
        simp only [nextAff]
        cases i with
        | zero => simp [aff_border0, oadd, omax]
        | succ i =>
          apply ite_nodup'
          exact pick2_nodup .local _ (i + 1, j + 1) _ .gb (by simp) _ _ (canon_local_interior i j)
      all_goals
        simp only [nextAff]
        apply ite_nodup'
        cases i with
        | zero =>
          cases j with
          | zero => simp [aff_border00, pickCands, oadd, omax]
          | succ j => simp [aff_border0, pickCands, oadd, omax]
        | succ i =>
          cases j with
          | zero => simp [aff_border1, pickCands, oadd, omax]
          | succ j => exact pick3_nodup .local _ (i + 1, j + 1) _ _ _ _ (canon_local_interior i j)


theorem nextAff_inj (mode : Mode) (M : Mat) (go ge : Int) (a b : Seq) (T : Nat → Nat → AffCell) (s : ANode)
    (d1 : ANode × Col) (h1 : d1 ∈ nextAff mode M go ge a b T s) (d2 : ANode × Col)
    (h2 : d2 ∈ nextAff mode M go ge a b T s) (hk : d1.1.2 = d2.1.2) (_ : d1.2 = d2.2) : d1 = d2 := by
  obtain ⟨a1, b1, _⟩ := nextAff_shape mode M go ge a b T s d1 h1
  obtain ⟨a2, b2, _⟩ := nextAff_shape mode M go ge a b T s d2 h2
  obtain ⟨⟨c1, k1⟩, x1⟩ := d1
  obtain ⟨⟨c2, k2⟩, x2⟩ := d2
  simp only at a1 a2 b1 b2 hk
  subst a1 a2 b1 b2 hk
  rfl

/-- the traces the affine `follow_trace` model yields from one real start node are pairwise distinct -/
theorem followAff_nodup (mode : Mode) (M : Mat) (go ge : Int) (a b : Seq) (mx fuel c : Nat) (s : ANode)
    (suffix : Aln) (hR : RealN mode (affRec mode M go ge a b).val s) :
    (followG (nextAff mode M go ge a b (affRec mode M go ge a b).val) mx fuel s suffix c).1.Nodup := by
  cases mode with
  | global =>
    exact followG_nodup _ (fun s => s.1) (fun s => s.2)
      (fun s => (valN .global (affRec .global M go ge a b).val s).getD 0)
      (RealN .global (affRec .global M go ge a b).val) (costAffK .global M go ge a b) mx
      (hnext_aff_global M go ge a b)
      (fun s hR hn => ⟨(hend_aff_global M go ge a b s hR hn).1, (hend_aff_global M go ge a b s hR hn).2.1⟩)
      (fun s _ => nextAff_nodup_nonlocal .global (by decide) M go ge a b _ s)
      (fun s _ d1 h1 d2 h2 => nextAff_inj .global M go ge a b _ s d1 h1 d2 h2) fuel s suffix c hR
  | semi =>
    exact followG_nodup _ (fun s => s.1) (fun s => s.2)
      (fun s => (valN .semi (affRec .semi M go ge a b).val s).getD 0)
      (RealN .semi (affRec .semi M go ge a b).val) (costAffK .semi M go ge a b) mx
      (hnext_aff_semi M go ge a b)
      (fun s hR hn => ⟨(hend_aff_semi M go ge a b s hR hn).1, (hend_aff_semi M go ge a b s hR hn).2.1⟩)
      (fun s _ => nextAff_nodup_nonlocal .semi (by decide) M go ge a b _ s)
      (fun s _ d1 h1 d2 h2 => nextAff_inj .semi M go ge a b _ s d1 h1 d2 h2) fuel s suffix c hR
  | «local» =>
    exact followG_nodup _ (fun s => s.1) (fun s => s.2)
      (fun s => (valN .local (affRec .local M go ge a b).val s).getD 0)
      (RealN .local (affRec .local M go ge a b).val) (costAffK .local M go ge a b) mx
      (hnext_aff_local M go ge a b) (hend_aff_local M go ge a b)
      (fun s _ => nextAff_nodup_local M go ge a b s)
      (fun s _ d1 h1 d2 h2 => nextAff_inj .local M go ge a b _ s d1 h1 d2 h2) fuel s suffix c hR

/-! lookup congruence -/

theorem nextAff_congr (mode : Mode) (M : Mat) (go ge : Int) (a b : Seq) (T T' : Nat → Nat → AffCell) (s : ANode)
    (h : ∀ i j, i ≤ s.1.1 → j ≤ s.1.2 → T i j = T' i j) :
    nextAff mode M go ge a b T s = nextAff mode M go ge a b T' s := by
  obtain ⟨⟨i, j⟩, k⟩ := s
  cases i with
  | zero => cases j <;> rfl
  | succ i =>
    cases j with
    | zero => rfl
    | succ j =>
      simp only [nextAff, h i j (by simp) (by simp), h (i + 1) j (by simp) (by simp),
        h i (j + 1) (by simp) (by simp)]

theorem followAff_congr (mode : Mode) (M : Mat) (go ge : Int) (a b : Seq) (T T' : Nat → Nat → AffCell) (n m : Nat)
    (h : ∀ i j, i ≤ n → j ≤ m → T i j = T' i j) (mx fuel c : Nat) (s : ANode) (suffix : Aln)
    (hs : s.1.1 ≤ n ∧ s.1.2 ≤ m) :
    followG (nextAff mode M go ge a b T) mx fuel s suffix c = followG (nextAff mode M go ge a b T') mx fuel s suffix c := by
  apply followG_congr _ _ mx (fun s : ANode => s.1.1 ≤ n ∧ s.1.2 ≤ m) _ fuel s suffix c hs
  intro s hs
  refine ⟨nextAff_congr mode M go ge a b T T' s (fun i j hi hj => h i j (by omega) (by omega)), ?_⟩
  intro d hd
  obtain ⟨hc, _, _⟩ := nextAff_shape mode M go ge a b T s d hd
  obtain ⟨⟨i, j⟩, k⟩ := s
  rw [hc]
  cases k <;> simp [predCell] at hs ⊢ <;> omega

theorem affLookup_fill (mode : Mode) (M : Mat) (go ge : Int) (a b : Seq) (i j : Nat) (hi : i ≤ a.length)
    (hj : j ≤ b.length) : affLookup (fillAff mode M go ge a b) i j = (affRec mode M go ge a b).val i j := by
  have h := Rec.table_get (affRec mode M go ge a b) b.length a.length i j hi hj
  unfold affLookup fillAff
  cases hr : ((affRec mode M go ge a b).table b.length a.length)[i]? with
  | none => simp [hr] at h
  | some row =>
    simp only [hr, Option.bind_some] at h
    simp [List.getD_eq_getElem?_getD, hr, h]

end BiotiteModel.C08

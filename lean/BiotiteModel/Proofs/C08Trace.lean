import BiotiteModel.Model.C08
import BiotiteModel.Proofs.C08
/-! Traceback (linear penalties): every trace `followLin` yields is valid and optimal; count ≤ max_number. -/
namespace BiotiteModel.C08

def costOf (mode : Mode) (M : Mat) (g : Int) (a b : Seq) : Nat × Nat → Col → Int :=
  match mode with
  | .semi => costSemi M g a b
  | _ => costLin M g a b

abbrev valOf (mode : Mode) (M : Mat) (g : Int) (a b : Seq) : Nat → Nat → Int := (linRec mode M g a b).val

/-- a direction recorded in the trace table leads to a predecessor whose value plus the column cost is the cell -/
theorem dir_step (mode : Mode) (M : Mat) (g : Int) (a b : Seq) (p : Nat × Nat) (d : Dir)
    (hd : d ∈ traceDirs mode M g a b (valOf mode M g a b) p) :
    stepPos (d.pred p) (d.col p) = some p ∧
      valOf mode M g a b p.1 p.2 = valOf mode M g a b (d.pred p).1 (d.pred p).2
        + costOf mode M g a b (d.pred p) (d.col p) := by
  obtain ⟨i, j⟩ := p
  cases i with
  | zero =>
    cases j with
    | zero => simp [traceDirs] at hd
    | succ j =>
      cases mode <;> simp [traceDirs] at hd <;> subst hd <;>
        simp [Dir.pred, Dir.col, stepPos, valOf, Rec.val_zero, borderG, borderS, costOf, costLin, costSemi,
          colScoreLin, gapRun_succ]
  | succ i =>
    cases j with
    | zero =>
      cases mode <;> simp [traceDirs] at hd <;> subst hd <;>
        simp [Dir.pred, Dir.col, stepPos, valOf, Rec.val_succ_zero, borderG, borderS, costOf, costLin, costSemi,
          colScoreLin, gapRun_succ] <;>
        cases i <;> simp [Rec.val_zero, Rec.val_succ_zero, borderG, borderS, gapRun_succ]
    | succ j =>
      cases mode with
      | global =>
        simp only [traceDirs, valOf] at hd
        simp only [valOf, Rec.val_succ_succ, cellG, costOf]
        simp at hd
        rcases hd with ⟨h, rfl⟩ | ⟨h, rfl⟩ | ⟨h, rfl⟩ <;>
          simp [Dir.pred, Dir.col, stepPos, costLin, colScoreLin] <;> omega
      | semi =>
        simp only [traceDirs, valOf] at hd
        simp only [valOf, Rec.val_succ_succ, cellS, costOf]
        simp at hd
        rcases hd with ⟨h, rfl⟩ | ⟨h, rfl⟩ | ⟨h, rfl⟩ <;>
          simp [Dir.pred, Dir.col, stepPos, costSemi] <;> omega
      | «local» =>
        simp only [traceDirs, valOf, reduceCtorEq, false_and, if_false, true_and] at hd
        simp only [valOf, Rec.val_succ_succ, cellL, costOf]
        by_cases hle : max3 ((linRec .local M g a b).val i j + sub M a b i j)
            ((linRec .local M g a b).val (i + 1) j + g) ((linRec .local M g a b).val i (j + 1) + g) ≤ 0
        · simp [hle] at hd
        · simp only [hle, if_false] at hd ⊢
          simp at hd
          rcases hd with ⟨h, rfl⟩ | ⟨h, rfl⟩ | ⟨h, rfl⟩ <;>
            simp [Dir.pred, Dir.col, stepPos, costLin, colScoreLin] <;> omega

/-- a cell without trace bits has value 0 (the trace ends there) -/
theorem dirs_nil_zero (mode : Mode) (M : Mat) (g : Int) (a b : Seq) (p : Nat × Nat)
    (h : traceDirs mode M g a b (valOf mode M g a b) p = []) : valOf mode M g a b p.1 p.2 = 0 := by
  obtain ⟨i, j⟩ := p
  cases i with
  | zero =>
    cases j with
    | zero => cases mode <;> simp [valOf, Rec.val_zero, borderG, borderS, borderL, gapRun]
    | succ j => cases mode <;> simp [traceDirs] at h; simp [valOf, Rec.val_zero, borderL]
  | succ i =>
    cases j with
    | zero => cases mode <;> simp [traceDirs] at h; simp [valOf, Rec.val_succ_zero, borderL]
    | succ j =>
      have hcases := fun (x y z : Int) => max3_cases x y z
      cases mode with
      | global =>
        exfalso
        simp only [traceDirs, valOf, reduceCtorEq, false_and, if_false] at h
        simp only [List.append_eq_nil_iff, ite_eq_right_iff, reduceCtorEq, imp_false] at h
        rcases hcases ((linRec .global M g a b).val i j + sub M a b i j)
          ((linRec .global M g a b).val (i + 1) j + g) ((linRec .global M g a b).val i (j + 1) + g) with h1 | h1 | h1
        · exact h.1.1 h1.symm
        · exact h.1.2 h1.symm
        · exact h.2 h1.symm
      | semi =>
        exfalso
        simp only [traceDirs, valOf, reduceCtorEq, false_and, if_false, true_and] at h
        simp only [List.append_eq_nil_iff, ite_eq_right_iff, reduceCtorEq, imp_false] at h
        rcases hcases ((linRec .semi M g a b).val i j + sub M a b i j)
          ((linRec .semi M g a b).val (i + 1) j + if i + 1 = a.length then 0 else g)
          ((linRec .semi M g a b).val i (j + 1) + if j + 1 = b.length then 0 else g) with h1 | h1 | h1
        · exact h.1.1 h1.symm
        · exact h.1.2 h1.symm
        · exact h.2 h1.symm
      | «local» =>
        simp only [traceDirs, valOf, reduceCtorEq, false_and, if_false, true_and] at h
        simp only [valOf, Rec.val_succ_succ, cellL]
        by_cases hle : max3 ((linRec .local M g a b).val i j + sub M a b i j)
            ((linRec .local M g a b).val (i + 1) j + g) ((linRec .local M g a b).val i (j + 1) + g) ≤ 0
        · simp [hle]
        · exfalso
          simp only [hle, if_false] at h
          simp only [List.append_eq_nil_iff, ite_eq_right_iff, reduceCtorEq, imp_false] at h
          rcases hcases ((linRec .local M g a b).val i j + sub M a b i j)
            ((linRec .local M g a b).val (i + 1) j + g) ((linRec .local M g a b).val i (j + 1) + g) with h1 | h1 | h1
          · exact h.1.1 h1.symm
          · exact h.1.2 h1.symm
          · exact h.2 h1.symm

end BiotiteModel.C08

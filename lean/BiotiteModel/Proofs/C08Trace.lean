import BiotiteModel.Model.C08
import BiotiteModel.Proofs.C08
/-! Traceback (linear penalties): every trace `followLin` yields is valid and optimal; count ≤ max_number. -/
namespace BiotiteModel.C08

def costOf (mode : Mode) (M : Mat) (g : Int) (a b : Seq) : Nat × Nat → Col → Int :=
  match mode with
  | .semi => costSemi M g a b
  | _ => costLin M g a b

abbrev valOf (mode : Mode) (M : Mat) (g : Int) (a b : Seq) : Nat → Nat → Int := (linRec mode M g a b).val

/-- a direction recorded in the trace table leads to a predecessor whose value plus the column cost is the cell -/
theorem dir_step (mode : Mode) (M : Mat) (g : Int) (a b : Seq) (p : Nat × Nat) (d : Dir)
    (hd : d ∈ traceDirs mode M g a b (valOf mode M g a b) p) :
    stepPos (d.pred p) (d.col p) = some p ∧
      valOf mode M g a b p.1 p.2 = valOf mode M g a b (d.pred p).1 (d.pred p).2
        + costOf mode M g a b (d.pred p) (d.col p) := by
  obtain ⟨i, j⟩ := p
  cases i with
  | zero =>
    cases j with
    | zero => simp [traceDirs] at hd
    | succ j =>
      cases mode <;> simp [traceDirs] at hd <;> subst hd <;>
        simp [Dir.pred, Dir.col, stepPos, valOf, Rec.val_zero, borderG, borderS, costOf, costLin, costSemi,
          colScoreLin, gapRun_succ]
  | succ i =>
    cases j with
    | zero =>
      cases mode <;> simp [traceDirs] at hd <;> subst hd <;>
        simp [Dir.pred, Dir.col, stepPos, valOf, Rec.val_succ_zero, borderG, borderS, costOf, costLin, costSemi,
          colScoreLin, gapRun_succ] <;>
        cases i <;> simp [Rec.val_zero, Rec.val_succ_zero, borderG, borderS, gapRun_succ]
    | succ j =>
      cases mode with
      | global =>
        simp only [traceDirs, valOf] at hd
        simp only [valOf, Rec.val_succ_succ, cellG, costOf]
        simp at hd
        rcases hd with ⟨h, rfl⟩ | ⟨h, rfl⟩ | ⟨h, rfl⟩ <;>
          simp [Dir.pred, Dir.col, stepPos, costLin, colScoreLin] <;> omega
      | semi =>
        simp only [traceDirs, valOf] at hd
        simp only [valOf, Rec.val_succ_succ, cellS, costOf]
        simp at hd
        rcases hd with ⟨h, rfl⟩ | ⟨h, rfl⟩ | ⟨h, rfl⟩ <;>
          simp [Dir.pred, Dir.col, stepPos, costSemi] <;> omega
      | «local» =>
        simp only [traceDirs, valOf, reduceCtorEq, false_and, if_false, true_and] at hd
        simp only [valOf, Rec.val_succ_succ, cellL, costOf]
        by_cases hle : max3 ((linRec .local M g a b).val i j + sub M a b i j)
            ((linRec .local M g a b).val (i + 1) j + g) ((linRec .local M g a b).val i (j + 1) + g) ≤ 0
        · simp [hle] at hd
        · simp only [hle, if_false] at hd ⊢
          simp at hd
          rcases hd with ⟨h, rfl⟩ | ⟨h, rfl⟩ | ⟨h, rfl⟩ <;>
            simp [Dir.pred, Dir.col, stepPos, costLin, colScoreLin] <;> omega

/-- a cell without trace bits has value 0 (the trace ends there) -/
theorem dirs_nil_zero (mode : Mode) (M : Mat) (g : Int) (a b : Seq) (p : Nat × Nat)
    (h : traceDirs mode M g a b (valOf mode M g a b) p = []) : valOf mode M g a b p.1 p.2 = 0 := by
  obtain ⟨i, j⟩ := p
  cases i with
  | zero =>
    cases j with
    | zero => cases mode <;> simp [valOf, Rec.val_zero, borderG, borderS, borderL, gapRun]
    | succ j => cases mode <;> simp [traceDirs] at h; simp [valOf, Rec.val_zero, borderL]
  | succ i =>
    cases j with
    | zero => cases mode <;> simp [traceDirs] at h; simp [valOf, Rec.val_succ_zero, borderL]
    | succ j =>
      have hcases := fun (x y z : Int) => max3_cases x y z
      cases mode with
      | global =>
        exfalso
        simp only [traceDirs, valOf, reduceCtorEq, false_and, if_false] at h
        simp only [List.append_eq_nil_iff, ite_eq_right_iff, reduceCtorEq, imp_false] at h
        rcases hcases ((linRec .global M g a b).val i j + sub M a b i j)
          ((linRec .global M g a b).val (i + 1) j + g) ((linRec .global M g a b).val i (j + 1) + g) with h1 | h1 | h1
        · exact h.1.1 h1.symm
        · exact h.1.2 h1.symm
        · exact h.2 h1.symm
      | semi =>
        exfalso
        simp only [traceDirs, valOf, reduceCtorEq, false_and, if_false, true_and] at h
        simp only [List.append_eq_nil_iff, ite_eq_right_iff, reduceCtorEq, imp_false] at h
        rcases hcases ((linRec .semi M g a b).val i j + sub M a b i j)
          ((linRec .semi M g a b).val (i + 1) j + if i + 1 = a.length then 0 else g)
          ((linRec .semi M g a b).val i (j + 1) + if j + 1 = b.length then 0 else g) with h1 | h1 | h1
        · exact h.1.1 h1.symm
        · exact h.1.2 h1.symm
        · exact h.2 h1.symm
      | «local» =>
        simp only [traceDirs, valOf, reduceCtorEq, false_and, if_false, true_and] at h
        simp only [valOf, Rec.val_succ_succ, cellL]
        by_cases hle : max3 ((linRec .local M g a b).val i j + sub M a b i j)
            ((linRec .local M g a b).val (i + 1) j + g) ((linRec .local M g a b).val i (j + 1) + g) ≤ 0
        · simp [hle]
        · exfalso
          simp only [hle, if_false] at h
          simp only [List.append_eq_nil_iff, ite_eq_right_iff, reduceCtorEq, imp_false] at h
          rcases hcases ((linRec .local M g a b).val i j + sub M a b i j)
            ((linRec .local M g a b).val (i + 1) j + g) ((linRec .local M g a b).val i (j + 1) + g) with h1 | h1 | h1
          · exact h.1.1 h1.symm
          · exact h.1.2 h1.symm
          · exact h.2 h1.symm

/-- outside local mode the trace table has no bits only at the origin -/
theorem dirs_nil_origin (mode : Mode) (hm : mode ≠ .local) (M : Mat) (g : Int) (a b : Seq) (p : Nat × Nat)
    (h : traceDirs mode M g a b (valOf mode M g a b) p = []) : p = (0, 0) := by
  obtain ⟨i, j⟩ := p
  cases i with
  | zero =>
    cases j with
    | zero => rfl
    | succ j => cases mode <;> simp [traceDirs] at h; exact absurd rfl hm
  | succ i =>
    cases j with
    | zero => cases mode <;> simp [traceDirs] at h; exact absurd rfl hm
    | succ j =>
      exfalso
      have hcases := fun (x y z : Int) => max3_cases x y z
      cases mode with
      | global =>
        simp only [traceDirs, valOf, reduceCtorEq, false_and, if_false] at h
        simp only [List.append_eq_nil_iff, ite_eq_right_iff, reduceCtorEq, imp_false] at h
        rcases hcases ((linRec .global M g a b).val i j + sub M a b i j)
          ((linRec .global M g a b).val (i + 1) j + g) ((linRec .global M g a b).val i (j + 1) + g) with h1 | h1 | h1
        · exact h.1.1 h1.symm
        · exact h.1.2 h1.symm
        · exact h.2 h1.symm
      | semi =>
        simp only [traceDirs, valOf, reduceCtorEq, false_and, if_false, true_and] at h
        simp only [List.append_eq_nil_iff, ite_eq_right_iff, reduceCtorEq, imp_false] at h
        rcases hcases ((linRec .semi M g a b).val i j + sub M a b i j)
          ((linRec .semi M g a b).val (i + 1) j + if i + 1 = a.length then 0 else g)
          ((linRec .semi M g a b).val i (j + 1) + if j + 1 = b.length then 0 else g) with h1 | h1 | h1
        · exact h.1.1 h1.symm
        · exact h.1.2 h1.symm
        · exact h.2 h1.symm
      | «local» => exact hm rfl


/-- the first column of a finished trace was a recorded direction of the cell it leads to -/
def FirstStep (mode : Mode) (M : Mat) (g : Int) (a b : Seq) (p0 : Nat × Nat) : Aln → Prop
  | [] => True
  | c :: _ => valOf mode M g a b (adv p0 c).1 (adv p0 c).2 = valOf mode M g a b p0.1 p0.2 + costOf mode M g a b p0 c ∧
      traceDirs mode M g a b (valOf mode M g a b) (adv p0 c) ≠ []

/-- what a finished trace below cell `p` looks like: a walk ending in `p`, started where the trace table has no
bits, scoring the value of `p`, followed by the columns collected so far -/
def GoodTr (mode : Mode) (M : Mat) (g : Int) (a b : Seq) (p : Nat × Nat) (suffix aln : Aln) : Prop :=
  ∃ pre p0, aln = pre ++ suffix ∧ walk p0 pre = some p ∧
    scorePos (costOf mode M g a b) p0 pre = valOf mode M g a b p.1 p.2 ∧
    traceDirs mode M g a b (valOf mode M g a b) p0 = [] ∧
    FirstStep mode M g a b p0 pre

theorem good_step (mode : Mode) (M : Mat) (g : Int) (a b : Seq) (p : Nat × Nat) (d : Dir) (suffix aln : Aln)
    (hd : d ∈ traceDirs mode M g a b (valOf mode M g a b) p)
    (h : GoodTr mode M g a b (d.pred p) (d.col p :: suffix) aln) : GoodTr mode M g a b p suffix aln := by
  obtain ⟨pre, p0, he, hw, hs, h0, hf⟩ := h
  obtain ⟨hstep, hval⟩ := dir_step mode M g a b p d hd
  refine ⟨pre ++ [d.col p], p0, by simp [he], ?_, ?_, h0, ?_⟩
  · rw [walk_append, hw]; simp [walk, hstep]
  · rw [scorePos_append _ p0 (d.pred p) pre [d.col p] hw, hs, hval]; simp [scorePos]
  · cases pre with
    | nil =>
      simp [walk] at hw
      subst hw
      have hq := stepPos_adv hstep
      simp only [List.nil_append, FirstStep, ← hq]
      exact ⟨hval, fun hnil => by rw [hnil] at hd; simp at hd⟩
    | cons c r => exact hf

theorem runBranches_all (mx : Nat) (run : Dir → Nat → List Aln × Nat) (P : Aln → Prop) (ds : List Dir)
    (h : ∀ d ∈ ds, ∀ c, ∀ x ∈ (run d c).1, P x) : ∀ c, ∀ x ∈ (runBranches mx run ds c).1, P x := by
  induction ds with
  | nil => intro c x hx; simp [runBranches] at hx
  | cons d ds ih =>
    intro c x hx
    have ih' := ih (fun d' hd' => h d' (List.mem_cons_of_mem _ hd'))
    simp only [runBranches] at hx
    split at hx
    · simp only [List.mem_append] at hx
      rcases hx with hx | hx
      · exact h d List.mem_cons_self _ x hx
      · exact ih' _ x hx
    · exact ih' _ x hx

theorem followLin_good (mode : Mode) (M : Mat) (g : Int) (a b : Seq) (mx : Nat) :
    ∀ (fuel : Nat) (p : Nat × Nat) (suffix : Aln) (c : Nat),
      ∀ x ∈ (followLin (traceDirs mode M g a b (valOf mode M g a b)) mx fuel p suffix c).1,
        GoodTr mode M g a b p suffix x := by
  intro fuel
  induction fuel with
  | zero => intro p suffix c x hx; simp [followLin] at hx
  | succ fuel ih =>
    intro p suffix c x hx
    simp only [followLin] at hx
    split at hx
    · rename_i hnil
      simp at hx; subst hx
      exact ⟨[], p, rfl, rfl, by simp [scorePos, dirs_nil_zero mode M g a b p hnil], hnil, trivial⟩
    · rename_i d0 ds hds
      simp only [List.mem_append] at hx
      rcases hx with hx | hx
      · have := runBranches_all mx _ (GoodTr mode M g a b p suffix) ds
          (fun d hd c' y hy => good_step mode M g a b p d suffix y (by rw [hds]; exact List.mem_cons_of_mem _ hd)
            (ih _ _ _ y hy)) c x hx
        exact this
      · exact good_step mode M g a b p d0 suffix x (by rw [hds]; exact List.mem_cons_self) (ih _ _ _ x hx)

/-! counting -/

theorem runBranches_count (mx : Nat) (run : Dir → Nat → List Aln × Nat) (ds : List Dir)
    (h : ∀ d c, ((run d c).1.length + c ≤ (run d c).2 + 1) ∧ c ≤ (run d c).2 ∧ (c ≤ mx → (run d c).2 ≤ mx)) :
    ∀ c, ((runBranches mx run ds c).1.length + c ≤ (runBranches mx run ds c).2) ∧
      c ≤ (runBranches mx run ds c).2 ∧ (c ≤ mx → (runBranches mx run ds c).2 ≤ mx) := by
  induction ds with
  | nil => intro c; simp [runBranches]
  | cons d ds ih =>
    intro c
    simp only [runBranches]
    split
    · rename_i hlt
      obtain ⟨h1, h2, h3⟩ := h d (c + 1)
      obtain ⟨i1, i2, i3⟩ := ih (run d (c + 1)).2
      simp only [List.length_append]
      refine ⟨by omega, by omega, fun _ => i3 (h3 (by omega))⟩
    · exact ih c

theorem followLin_count (dirs : Nat × Nat → List Dir) (mx : Nat) :
    ∀ (fuel : Nat) (p : Nat × Nat) (suffix : Aln) (c : Nat),
      ((followLin dirs mx fuel p suffix c).1.length + c ≤ (followLin dirs mx fuel p suffix c).2 + 1) ∧
      c ≤ (followLin dirs mx fuel p suffix c).2 ∧ (c ≤ mx → (followLin dirs mx fuel p suffix c).2 ≤ mx) := by
  intro fuel
  induction fuel with
  | zero => intro p suffix c; simp [followLin]
  | succ fuel ih =>
    intro p suffix c
    simp only [followLin]
    split
    · simp; omega
    · rename_i d0 ds hds
      obtain ⟨b1, b2, b3⟩ := runBranches_count mx
        (fun d c' => followLin dirs mx fuel (d.pred p) (d.col p :: suffix) c') ds (fun d c' => ih _ _ c') c
      obtain ⟨r1, r2, r3⟩ := ih (d0.pred p) (d0.col p :: suffix)
        (runBranches mx (fun d c' => followLin dirs mx fuel (d.pred p) (d.col p :: suffix) c') ds c).2
      simp only [List.length_append]
      refine ⟨by omega, by omega, fun hc => r3 (b3 hc)⟩

/-- with enough fuel every call returns at least its own trace -/
theorem followLin_nonempty (mode : Mode) (M : Mat) (g : Int) (a b : Seq) (mx : Nat) :
    ∀ (fuel : Nat) (p : Nat × Nat) (suffix : Aln) (c : Nat), p.1 + p.2 < fuel →
      (followLin (traceDirs mode M g a b (valOf mode M g a b)) mx fuel p suffix c).1 ≠ [] := by
  intro fuel
  induction fuel with
  | zero => intro p _ _ h; omega
  | succ fuel ih =>
    intro p suffix c hf
    simp only [followLin]
    split
    · simp
    · rename_i d0 ds hds
      have hd0 : d0 ∈ traceDirs mode M g a b (valOf mode M g a b) p := by rw [hds]; exact List.mem_cons_self
      obtain ⟨hstep, _⟩ := dir_step mode M g a b p d0 hd0
      have hq := stepPos_adv hstep
      have hlt : (d0.pred p).1 + (d0.pred p).2 < fuel := by
        generalize d0.pred p = q at hq ⊢
        obtain ⟨qi, qj⟩ := q
        generalize d0.col p = cc at hq
        cases cc <;> simp [adv] at hq <;> subst hq <;> simp at hf ⊢ <;> omega
      have := ih (d0.pred p) (d0.col p :: suffix)
        (runBranches mx (fun d c' => followLin (traceDirs mode M g a b (valOf mode M g a b)) mx fuel (d.pred p)
          (d.col p :: suffix) c') ds c).2 hlt
      intro hnil
      simp only [List.append_eq_nil_iff] at hnil
      exact this hnil.2


end BiotiteModel.C08

import BiotiteModel.Model.C09
/-! Table growth (`_extend_table`) and `max_table_size`: values never depend on the allocation. -/
namespace BiotiteModel.C09
open BiotiteModel BiotiteModel.C08

/-- reallocation + copy preserves every cell (cells outside the old table read 0 before and after) -/
theorem tget_extendTable (t : List (List Int)) (dim0 : Bool) (cols gf i j : Nat) :
    tget (extendTable t dim0 cols gf) i j = tget t i j := by
  unfold tget extendTable
  cases dim0 with
  | true =>
    simp only [if_true]
    by_cases h : i < t.length
    · rw [List.getElem?_append_left h]
    · rw [List.getElem?_append_right (by omega)]
      have e : t[i]? = none := by simp; omega
      rw [e]
      simp only [Option.bind_none, Option.getD_none]
      rw [List.getElem?_replicate]
      split
      · simp only [Option.bind_some]
        rw [List.getElem?_replicate]
        split <;> simp
      · simp
  | false =>
    simp only [Bool.false_eq_true, if_false, List.getElem?_map]
    cases hr : t[i]? with
    | none => simp
    | some row =>
      simp only [Option.map_some, Option.bind_some]
      by_cases h : j < row.length
      · rw [List.getElem?_append_left h]
      · rw [List.getElem?_append_right (by omega)]
        have e : row[j]? = none := by simp; omega
        rw [e, List.getElem?_replicate]
        split <;> simp

/-- the shape check with a limit either fails or gives the shape the unlimited check gives -/
theorem growShape_limit (rows cols a b : Nat) (lim : Int) (gf : Nat) :
    growShape rows cols a b (some lim) gf = none ∨
      growShape rows cols a b (some lim) gf = growShape rows cols a b none gf := by
  unfold growShape
  by_cases h1 : a ≥ rows <;> by_cases h2 : b ≥ cols <;> simp only [h1, h2, if_true, if_false] <;>
    repeat' split
  all_goals simp_all

theorem regStepLin_err_sticky (so : Bool) (M : Mat) (g thr : Int) (x y : Seq) (mts : Option Int) (gf : Nat)
    (l : List Nat) : ∀ st, st.err = true → (l.foldl (regStepLin so M g thr x y mts gf) st).err = true := by
  induction l with
  | nil => intro st h; exact h
  | cons k r ih =>
    intro st h
    simp only [List.foldl_cons]
    apply ih
    simp [regStepLin, h]

/-- `max_table_size` only decides between MemoryError and the unlimited run: it never changes a value -/
theorem regStepLin_limit (so : Bool) (M : Mat) (g thr : Int) (x y : Seq) (lim : Int) (gf : Nat) (l : List Nat) :
    ∀ st, (l.foldl (regStepLin so M g thr x y (some lim) gf) st).err = true ∨
      l.foldl (regStepLin so M g thr x y (some lim) gf) st = l.foldl (regStepLin so M g thr x y none gf) st := by
  induction l with
  | nil => intro st; right; rfl
  | cons k r ih =>
    intro st
    simp only [List.foldl_cons]
    by_cases hde : (st.done || st.err) = true
    · have e1 : regStepLin so M g thr x y (some lim) gf st k = st := by simp [regStepLin, hde]
      have e2 : regStepLin so M g thr x y none gf st k = st := by simp [regStepLin, hde]
      rw [e1, e2]; exact ih st
    · have hde' : (st.done || st.err) = false := by simpa using hde
      by_cases hr : max (min st.min0 (st.min1 + 1)) (k - y.length) > min (max (st.max0 + 1) (st.max1 + 1)) x.length
      · have e1 : regStepLin so M g thr x y (some lim) gf st k = { st with done := true } := by
          simp only [regStepLin, hde', Bool.false_eq_true, if_false, hr, if_true]
        have e2 : regStepLin so M g thr x y none gf st k = { st with done := true } := by
          simp only [regStepLin, hde', Bool.false_eq_true, if_false, hr, if_true]
        rw [e1, e2]; exact ih _
      · rcases growShape_limit st.rows st.cols (min (max (st.max0 + 1) (st.max1 + 1)) x.length)
          (k - max (min st.min0 (st.min1 + 1)) (k - y.length)) lim gf with hg | hg
        · left
          apply regStepLin_err_sticky
          simp only [regStepLin, hde', Bool.false_eq_true, if_false, hr, hg]
        · have e : regStepLin so M g thr x y (some lim) gf st k = regStepLin so M g thr x y none gf st k := by
            simp only [regStepLin, hde', Bool.false_eq_true, if_false, hr, hg]
          rw [e]; exact ih _

theorem regionLin_limit (so : Bool) (M : Mat) (g thr : Int) (x y : Seq) (lim : Int) (is io gf : Nat) :
    regionLin so M g thr x y (some lim) is io gf = .error (.other "MemoryError") ∨
      regionLin so M g thr x y (some lim) is io gf = regionLin so M g thr x y none is io gf := by
  unfold regionLin
  simp only []
  rcases regStepLin_limit so M g thr x y lim gf (rangeIncl 1 (x.length + y.length))
    ⟨[(0, thr + (io : Int))], [], 0, 0, 0, 0, thr + (io : Int), min (x.length + 1) is, min (y.length + 1) is,
      false, false⟩ with h | h
  · left; simp [h]
  · right; rw [h]

theorem regStepAff_err_sticky (so : Bool) (M : Mat) (go ge thr : Int) (x y : Seq) (mts : Option Int) (gf : Nat)
    (l : List Nat) : ∀ st, st.err = true → (l.foldl (regStepAff so M go ge thr x y mts gf) st).err = true := by
  induction l with
  | nil => intro st h; exact h
  | cons k r ih =>
    intro st h
    simp only [List.foldl_cons]
    apply ih
    simp [regStepAff, h]

/-- `max_table_size` only decides between MemoryError and the unlimited run: it never changes a value -/
theorem regStepAff_limit (so : Bool) (M : Mat) (go ge thr : Int) (x y : Seq) (lim : Int) (gf : Nat) (l : List Nat) :
    ∀ st, (l.foldl (regStepAff so M go ge thr x y (some lim) gf) st).err = true ∨
      l.foldl (regStepAff so M go ge thr x y (some lim) gf) st = l.foldl (regStepAff so M go ge thr x y none gf) st := by
  induction l with
  | nil => intro st; right; rfl
  | cons k r ih =>
    intro st
    simp only [List.foldl_cons]
    by_cases hde : (st.done || st.err) = true
    · have e1 : regStepAff so M go ge thr x y (some lim) gf st k = st := by simp [regStepAff, hde]
      have e2 : regStepAff so M go ge thr x y none gf st k = st := by simp [regStepAff, hde]
      rw [e1, e2]; exact ih st
    · have hde' : (st.done || st.err) = false := by simpa using hde
      by_cases hr : max (min st.min0 (st.min1 + 1)) (k - y.length) > min (max (st.max0 + 1) (st.max1 + 1)) x.length
      · have e1 : regStepAff so M go ge thr x y (some lim) gf st k = { st with done := true } := by
          simp only [regStepAff, hde', Bool.false_eq_true, if_false, hr, if_true]
        have e2 : regStepAff so M go ge thr x y none gf st k = { st with done := true } := by
          simp only [regStepAff, hde', Bool.false_eq_true, if_false, hr, if_true]
        rw [e1, e2]; exact ih _
      · rcases growShape_limit st.rows st.cols (min (max (st.max0 + 1) (st.max1 + 1)) x.length)
          (k - max (min st.min0 (st.min1 + 1)) (k - y.length)) lim gf with hg | hg
        · left
          apply regStepAff_err_sticky
          simp only [regStepAff, hde', Bool.false_eq_true, if_false, hr, hg]
        · have e : regStepAff so M go ge thr x y (some lim) gf st k = regStepAff so M go ge thr x y none gf st k := by
            simp only [regStepAff, hde', Bool.false_eq_true, if_false, hr, hg]
          rw [e]; exact ih _

theorem regionAff_limit (so : Bool) (M : Mat) (go ge thr : Int) (x y : Seq) (lim : Int) (is io gf : Nat) :
    regionAff so M go ge thr x y (some lim) is io gf = .error (.other "MemoryError") ∨
      regionAff so M go ge thr x y (some lim) is io gf = regionAff so M go ge thr x y none is io gf := by
  unfold regionAff
  simp only []
  rcases regStepAff_limit so M go ge thr x y lim gf (rangeIncl 1 (x.length + y.length))
    ⟨[(0, ⟨thr + (io : Int), 0, 0⟩)], [], 0, 0, 0, 0, thr + (io : Int), thr + (io : Int), min (x.length + 1) is,
      min (y.length + 1) is, false, false⟩ with h | h
  · left; simp [h]
  · right; rw [h]


theorem regionAlign_limit (so : Bool) (M : Mat) (gap : Gap) (thr : Int) (x y : Seq) (lim : Int) (is io gf : Nat) :
    regionAlign so M gap thr x y (some lim) is io gf = .error (.other "MemoryError") ∨
      regionAlign so M gap thr x y (some lim) is io gf = regionAlign so M gap thr x y none is io gf := by
  cases gap with
  | lin g => exact regionLin_limit so M g thr x y lim is io gf
  | aff go ge => exact regionAff_limit so M go ge thr x y lim is io gf

end BiotiteModel.C09

import BiotiteModel.Proofs.C08AffStep
/-! Affine: from the invariants to the optimum (`optAff`). -/
namespace BiotiteModel.C08

/-- positional state-machine form of the affine score with free terminal gaps (`terminal_penalty=False`) -/
def scoreAffSemiPos (M : Mat) (go ge : Int) (a b : Seq) (p : Nat × Nat) (k : Kind) (aln : Aln) : Int :=
  scorePosK (costAffK .semi M go ge a b) p k aln

theorem stateVal_le_best (c : AffCell) (k : Kind) (w : Int) (h : stateVal c k = some w) :
    ∃ v, c.best = some v ∧ w ≤ v := by
  unfold AffCell.best
  cases k with
  | none => exact omax_some_left _ h
  | m => exact omax_some_left _ h
  | ga =>
    obtain ⟨w1, h1, h2⟩ := omax_some_left c.g2 (x := c.g1) h
    obtain ⟨w2, h3, h4⟩ := omax_some_right c.m h1
    exact ⟨w2, h3, by omega⟩
  | gb =>
    obtain ⟨w1, h1, h2⟩ := omax_some_right c.g1 (y := c.g2) h
    obtain ⟨w2, h3, h4⟩ := omax_some_right c.m h1
    exact ⟨w2, h3, by omega⟩

theorem best_cases (c : AffCell) (v : Int) (h : c.best = some v) :
    ∃ k, (k = .m ∨ k = .ga ∨ k = .gb) ∧ stateVal c k = some v := by
  unfold AffCell.best at h
  rcases omax_cases h with h | h
  · exact ⟨.m, by simp, h⟩
  · rcases omax_cases h with h | h
    · exact ⟨.ga, by simp, h⟩
    · exact ⟨.gb, by simp, h⟩

theorem score_aff_eq_pos (mode : Mode) (hm : mode ≠ .semi) (M : Mat) (go ge : Int) (a b : Seq) (aln : Aln)
    (p : Nat × Nat) :
    score mode (.aff go ge) M a b aln = scorePosK (costAffK mode M go ge a b) p .m aln := by
  have h1 : score mode (.aff go ge) M a b aln = scorePub M go ge true a b aln := by
    cases mode <;> first | rfl | exact absurd rfl hm
  rw [h1, scorePub_aff, scoreAffSt_none, scoreAffSt_eq_pos mode hm]

theorem aff_local_m_le_opt (M : Mat) (go ge : Int) (a b : Seq) (i j : Nat) (hi : i ≤ a.length) (hj : j ≤ b.length)
    (w : Int) (h : ((affRec .local M go ge a b).val i j).m = some w) : w ≤ optAff .local M go ge a b := by
  apply listMax_ge_mem
  rw [List.mem_filterMap]
  refine ⟨(affRec .local M go ge a b).val i j, ?_, h⟩
  rw [List.mem_flatMap]
  exact ⟨i, List.mem_range.mpr (by omega), List.mem_map.mpr ⟨j, List.mem_range.mpr (by omega), rfl⟩⟩

theorem optAff_local_nonneg (M : Mat) (go ge : Int) (a b : Seq) : 0 ≤ optAff .local M go ge a b :=
  listMax_ge_init 0 _

theorem aff_local_g1_le_opt (M : Mat) (go ge : Int) (hgo : go ≤ 0) (hge : ge ≤ 0) (a b : Seq) (i : Nat)
    (hi : i ≤ a.length) : ∀ j, j ≤ b.length → ∀ w, ((affRec .local M go ge a b).val i j).g1 = some w →
      w ≤ optAff .local M go ge a b := by
  intro j
  induction j with
  | zero =>
    intro _ w h
    cases i with
    | zero => rw [aff_border00] at h; simp at h
    | succ i => rw [aff_border1] at h; simp at h
  | succ j ih =>
    intro hj w h
    cases i with
    | zero =>
      rw [aff_border0] at h
      simp [affLead] at h
      have := optAff_local_nonneg M go ge a b; omega
    | succ i =>
      rw [Rec.val_succ_succ, aff_cell_local] at h
      simp only at h
      split at h
      · rcases gS_cases h with ⟨v, hv, hw⟩ | ⟨v, hv, hw⟩
        · have := aff_local_m_le_opt M go ge a b (i + 1) j hi (by omega) v hv; omega
        · have := ih (by omega) v hv; omega
      · simp at h

theorem aff_local_g2_le_opt (M : Mat) (go ge : Int) (hgo : go ≤ 0) (hge : ge ≤ 0) (a b : Seq) (j : Nat)
    (hj : j ≤ b.length) : ∀ i, i ≤ a.length → ∀ w, ((affRec .local M go ge a b).val i j).g2 = some w →
      w ≤ optAff .local M go ge a b := by
  intro i
  induction i with
  | zero =>
    intro _ w h
    cases j with
    | zero => rw [aff_border00] at h; simp at h
    | succ j => rw [aff_border0] at h; simp at h
  | succ i ih =>
    intro hi w h
    cases j with
    | zero =>
      rw [aff_border1] at h
      simp [affLead] at h
      have := optAff_local_nonneg M go ge a b; omega
    | succ j =>
      rw [Rec.val_succ_succ, aff_cell_local] at h
      simp only at h
      split at h
      · rcases gS_cases h with ⟨v, hv, hw⟩ | ⟨v, hv, hw⟩
        · have := aff_local_m_le_opt M go ge a b i (j + 1) (by omega) hj v hv; omega
        · have := ih (by omega) v hv; omega
      · simp at h

theorem aff_local_state_le_opt (M : Mat) (go ge : Int) (hgo : go ≤ 0) (hge : ge ≤ 0) (a b : Seq) (i j : Nat)
    (hi : i ≤ a.length) (hj : j ≤ b.length) (k : Kind) (w : Int)
    (h : stateVal ((affRec .local M go ge a b).val i j) k = some w) : w ≤ optAff .local M go ge a b := by
  cases k with
  | none => exact aff_local_m_le_opt M go ge a b i j hi hj w h
  | m => exact aff_local_m_le_opt M go ge a b i j hi hj w h
  | ga => exact aff_local_g1_le_opt M go ge hgo hge a b i hi j hj w h
  | gb => exact aff_local_g2_le_opt M go ge hgo hge a b j hj i hi w h

/-! ## Attainment: every real state value has a predecessor -/


def RS (R : Rec AffCell) (i j : Nat) (k : Kind) (w : Int) : Prop :=
  k ≠ .none ∧ stateVal (R.val i j) k = some w

theorem allowed_both (k : Kind) (i j : Nat) : allowedK k (.both i j) = true := by cases k <;> rfl

theorem hcell_aff_global (M : Mat) (go ge : Int) (a b : Seq) (i j : Nat) (k : Kind) (w : Int)
    (h : RS (affRec .global M go ge a b) i j k w) :
    (k = .m ∧ w = 0 ∧ (fun p : Nat × Nat => p = (0, 0)) (i, j)) ∨
      ∃ p k' c w', stepPos p c = some (i, j) ∧ c.kind = k ∧ allowedK k' c = true ∧
        RS (affRec .global M go ge a b) p.1 p.2 k' w' ∧ w = w' + costAffK .global M go ge a b p k' c := by
  obtain ⟨hk, hv⟩ := h
  cases i with
  | zero =>
    cases j with
    | zero =>
      rw [aff_border00] at hv
      cases k <;> simp [stateVal] at hv hk
      left; exact ⟨rfl, hv.symm, rfl⟩
    | succ j =>
      rw [aff_border0] at hv
      cases k <;> simp [stateVal] at hv hk
      right
      cases j with
      | zero =>
        refine ⟨(0, 0), .m, .gapA 0, 0, by simp [stepPos], rfl, rfl, ⟨by simp, by simp [aff_border00, stateVal]⟩, ?_⟩
        simp [costAffK, ← hv, affLead, gapRun]
      | succ j =>
        refine ⟨(0, j + 1), .ga, .gapA (j + 1), affLead .global go ge (j + 1), by simp [stepPos], rfl, rfl,
          ⟨by simp, by simp [aff_border0, stateVal]⟩, ?_⟩
        simp [costAffK, ← hv, affLead, gapRun]; omega
  | succ i =>
    cases j with
    | zero =>
      rw [aff_border1] at hv
      cases k <;> simp [stateVal] at hv hk
      right
      cases i with
      | zero =>
        refine ⟨(0, 0), .m, .gapB 0, 0, by simp [stepPos], rfl, rfl, ⟨by simp, by simp [aff_border00, stateVal]⟩, ?_⟩
        simp [costAffK, ← hv, affLead, gapRun]
      | succ i =>
        refine ⟨(i + 1, 0), .gb, .gapB (i + 1), affLead .global go ge (i + 1), by simp [stepPos], rfl, rfl,
          ⟨by simp, by simp [aff_border1, stateVal]⟩, ?_⟩
        simp [costAffK, ← hv, affLead, gapRun]; omega
    | succ j =>
      right
      rw [Rec.val_succ_succ, aff_cell_global] at hv
      cases k with
      | none => exact absurd rfl hk
      | m =>
        obtain ⟨k', v, hk', hv', hw⟩ := mS_cases _ _ _ hv
        exact ⟨(i, j), k', .both i j, v, by simp [stepPos], rfl, allowed_both _ _ _,
          ⟨by rcases hk' with h | h | h <;> simp [h], hv'⟩, by simp [costAffK, hw]⟩
      | ga =>
        rcases gS_cases hv with ⟨v, hv', hw⟩ | ⟨v, hv', hw⟩
        · exact ⟨(i + 1, j), .m, .gapA j, v, by simp [stepPos], rfl, rfl, ⟨by simp, hv'⟩, by simp [costAffK, hw]⟩
        · exact ⟨(i + 1, j), .ga, .gapA j, v, by simp [stepPos], rfl, rfl, ⟨by simp, hv'⟩, by simp [costAffK, hw]⟩
      | gb =>
        rcases gS_cases hv with ⟨v, hv', hw⟩ | ⟨v, hv', hw⟩
        · exact ⟨(i, j + 1), .m, .gapB i, v, by simp [stepPos], rfl, rfl, ⟨by simp, hv'⟩, by simp [costAffK, hw]⟩
        · exact ⟨(i, j + 1), .gb, .gapB i, v, by simp [stepPos], rfl, rfl, ⟨by simp, hv'⟩, by simp [costAffK, hw]⟩




theorem hcell_aff_semi (M : Mat) (go ge : Int) (a b : Seq) (i j : Nat) (k : Kind) (w : Int)
    (h : RS (affRec .semi M go ge a b) i j k w) :
    (k = .m ∧ w = 0 ∧ (fun p : Nat × Nat => p = (0, 0)) (i, j)) ∨
      ∃ p k' c w', stepPos p c = some (i, j) ∧ c.kind = k ∧ allowedK k' c = true ∧
        RS (affRec .semi M go ge a b) p.1 p.2 k' w' ∧ w = w' + costAffK .semi M go ge a b p k' c := by
  obtain ⟨hk, hv⟩ := h
  cases i with
  | zero =>
    cases j with
    | zero =>
      rw [aff_border00] at hv
      cases k <;> simp [stateVal] at hv hk
      left; exact ⟨rfl, hv.symm, rfl⟩
    | succ j =>
      rw [aff_border0] at hv
      cases k <;> simp [stateVal] at hv hk
      right
      cases j with
      | zero =>
        refine ⟨(0, 0), .m, .gapA 0, 0, by simp [stepPos], rfl, rfl, ⟨by simp, by simp [aff_border00, stateVal]⟩, ?_⟩
        simp [costAffK, ← hv, affLead]
      | succ j =>
        refine ⟨(0, j + 1), .ga, .gapA (j + 1), 0, by simp [stepPos], rfl, rfl,
          ⟨by simp, by simp [aff_border0, stateVal, affLead]⟩, ?_⟩
        simp [costAffK, ← hv, affLead]
  | succ i =>
    cases j with
    | zero =>
      rw [aff_border1] at hv
      cases k <;> simp [stateVal] at hv hk
      right
      cases i with
      | zero =>
        refine ⟨(0, 0), .m, .gapB 0, 0, by simp [stepPos], rfl, rfl, ⟨by simp, by simp [aff_border00, stateVal]⟩, ?_⟩
        simp [costAffK, ← hv, affLead]
      | succ i =>
        refine ⟨(i + 1, 0), .gb, .gapB (i + 1), 0, by simp [stepPos], rfl, rfl,
          ⟨by simp, by simp [aff_border1, stateVal, affLead]⟩, ?_⟩
        simp [costAffK, ← hv, affLead]
    | succ j =>
      right
      rw [Rec.val_succ_succ, aff_cell_semi] at hv
      cases k with
      | none => exact absurd rfl hk
      | m =>
        obtain ⟨k', v, hk', hv', hw⟩ := mS_cases _ _ _ hv
        exact ⟨(i, j), k', .both i j, v, by simp [stepPos], rfl, allowed_both _ _ _,
          ⟨by rcases hk' with h | h | h <;> simp [h], hv'⟩, by simp [costAffK, hw]⟩
      | ga =>
        rcases gS_cases hv with ⟨v, hv', hw⟩ | ⟨v, hv', hw⟩
        · exact ⟨(i + 1, j), .m, .gapA j, v, by simp [stepPos], rfl, rfl, ⟨by simp, hv'⟩,
            by by_cases hf : i + 1 = a.length <;> simp [costAffK, hw, hf]⟩
        · exact ⟨(i + 1, j), .ga, .gapA j, v, by simp [stepPos], rfl, rfl, ⟨by simp, hv'⟩,
            by by_cases hf : i + 1 = a.length <;> simp [costAffK, hw, hf]⟩
      | gb =>
        rcases gS_cases hv with ⟨v, hv', hw⟩ | ⟨v, hv', hw⟩
        · exact ⟨(i, j + 1), .m, .gapB i, v, by simp [stepPos], rfl, rfl, ⟨by simp, hv'⟩,
            by by_cases hf : j + 1 = b.length <;> simp [costAffK, hw, hf]⟩
        · exact ⟨(i, j + 1), .gb, .gapB i, v, by simp [stepPos], rfl, rfl, ⟨by simp, hv'⟩,
            by by_cases hf : j + 1 = b.length <;> simp [costAffK, hw, hf]⟩

def RL (R : Rec AffCell) (i j : Nat) (k : Kind) (w : Int) : Prop :=
  (k = .m ∧ w = 0) ∨ (0 < i ∧ 0 < j ∧ k ≠ .none ∧ stateVal (R.val i j) k = some w)

theorem hcell_aff_local (M : Mat) (go ge : Int) (a b : Seq) (i j : Nat) (k : Kind) (w : Int)
    (h : RL (affRec .local M go ge a b) i j k w) :
    (k = .m ∧ w = 0 ∧ (fun _ : Nat × Nat => True) (i, j)) ∨
      ∃ p k' c w', stepPos p c = some (i, j) ∧ c.kind = k ∧ allowedK k' c = true ∧
        RL (affRec .local M go ge a b) p.1 p.2 k' w' ∧ w = w' + costAffK .local M go ge a b p k' c := by
  rcases h with ⟨hk, hw⟩ | ⟨hi, hj, hk, hv⟩
  · left; exact ⟨hk, hw, trivial⟩
  · obtain ⟨i, rfl⟩ : ∃ i', i = i' + 1 := ⟨i - 1, by omega⟩
    obtain ⟨j, rfl⟩ : ∃ j', j = j' + 1 := ⟨j - 1, by omega⟩
    rw [Rec.val_succ_succ, aff_cell_local] at hv
    cases k with
    | none => exact absurd rfl hk
    | m =>
      simp only [stateVal] at hv
      split at hv
      · right
        obtain ⟨k', v, hk', hv', hw⟩ := mS_cases _ _ _ hv
        by_cases hb : 0 < i ∧ 0 < j
        · exact ⟨(i, j), k', .both i j, v, by simp [stepPos], rfl, allowed_both _ _ _,
            Or.inr ⟨hb.1, hb.2, by rcases hk' with h | h | h <;> simp [h], hv'⟩, by simp [costAffK, hw]⟩
        · have hz : v = 0 := aff_local_border_zero M go ge a b i j (by omega) k' v hv'
          exact ⟨(i, j), .m, .both i j, 0, by simp [stepPos], rfl, rfl, Or.inl ⟨rfl, rfl⟩,
            by simp [costAffK, hw, hz]⟩
      · left; simp at hv; exact ⟨rfl, hv.symm, trivial⟩
    | ga =>
      simp only [stateVal] at hv
      split at hv
      · right
        rcases gS_cases hv with ⟨v, hv', hw⟩ | ⟨v, hv', hw⟩
        · cases j with
          | zero => rw [aff_border1] at hv'; simp at hv'
          | succ j =>
            exact ⟨(i + 1, j + 1), .m, .gapA (j + 1), v, by simp [stepPos], rfl, rfl,
              Or.inr ⟨by omega, by omega, by simp, hv'⟩, by simp [costAffK, hw]⟩
        · cases j with
          | zero => rw [aff_border1] at hv'; simp at hv'
          | succ j =>
            exact ⟨(i + 1, j + 1), .ga, .gapA (j + 1), v, by simp [stepPos], rfl, rfl,
              Or.inr ⟨by omega, by omega, by simp, hv'⟩, by simp [costAffK, hw]⟩
      · simp at hv
    | gb =>
      simp only [stateVal] at hv
      split at hv
      · right
        rcases gS_cases hv with ⟨v, hv', hw⟩ | ⟨v, hv', hw⟩
        · cases i with
          | zero => rw [aff_border0] at hv'; simp at hv'
          | succ i =>
            exact ⟨(i + 1, j + 1), .m, .gapB (i + 1), v, by simp [stepPos], rfl, rfl,
              Or.inr ⟨by omega, by omega, by simp, hv'⟩, by simp [costAffK, hw]⟩
        · cases i with
          | zero => rw [aff_border0] at hv'; simp at hv'
          | succ i =>
            exact ⟨(i + 1, j + 1), .gb, .gapB (i + 1), v, by simp [stepPos], rfl, rfl,
              Or.inr ⟨by omega, by omega, by simp, hv'⟩, by simp [costAffK, hw]⟩
      · simp at hv



theorem aff_has_real_global (M : Mat) (go ge : Int) (a b : Seq) : ∀ i j,
    ∃ k v, k ≠ Kind.none ∧ stateVal ((affRec .global M go ge a b).val i j) k = some v := by
  intro i
  induction i with
  | zero =>
    intro j
    cases j with
    | zero => exact ⟨.m, 0, by simp, by simp [aff_border00, stateVal]⟩
    | succ j => exact ⟨.ga, _, by simp, by rw [aff_border0]; rfl⟩
  | succ i ih =>
    intro j
    cases j with
    | zero => exact ⟨.gb, _, by simp, by rw [aff_border1]; rfl⟩
    | succ j =>
      obtain ⟨k, v, _, hv⟩ := ih j
      obtain ⟨w, hw, _⟩ := mS_ge _ (sub M a b i j) k v hv
      exact ⟨.m, w, by simp, by rw [Rec.val_succ_succ, aff_cell_global]; exact hw⟩

theorem aff_has_real_semi (M : Mat) (go ge : Int) (a b : Seq) : ∀ i j,
    ∃ k v, k ≠ Kind.none ∧ stateVal ((affRec .semi M go ge a b).val i j) k = some v := by
  intro i
  induction i with
  | zero =>
    intro j
    cases j with
    | zero => exact ⟨.m, 0, by simp, by simp [aff_border00, stateVal]⟩
    | succ j => exact ⟨.ga, _, by simp, by rw [aff_border0]; rfl⟩
  | succ i ih =>
    intro j
    cases j with
    | zero => exact ⟨.gb, _, by simp, by rw [aff_border1]; rfl⟩
    | succ j =>
      obtain ⟨k, v, _, hv⟩ := ih j
      obtain ⟨w, hw, _⟩ := mS_ge _ (sub M a b i j) k v hv
      exact ⟨.m, w, by simp, by rw [Rec.val_succ_succ, aff_cell_semi]; exact hw⟩


end BiotiteModel.C08

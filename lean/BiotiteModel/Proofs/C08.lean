import BiotiteModel.Model.C08
/-! Helper lemmas for C08 (core Lean only). -/
namespace BiotiteModel.C08

/-! ## The table is the recurrence -/

namespace Rec
variable {α : Type} (R : Rec α)

theorem val_zero (j : Nat) : R.val 0 j = R.border 0 j := rfl
theorem val_succ_zero (i : Nat) : R.val (i + 1) 0 = R.border (i + 1) 0 := rfl
theorem val_succ_succ (i j : Nat) :
    R.val (i + 1) (j + 1) = R.cell i j (R.val i j) (R.val (i + 1) j) (R.val i (j + 1)) := rfl

theorem rowCells_eq (i : Nat) : ∀ (k j : Nat),
    R.rowCells i (R.val (i + 1) j) (R.val i j) j ((List.range' (j + 1) k).map (R.val i))
      = (List.range' (j + 1) k).map (R.val (i + 1)) := by
  intro k
  induction k with
  | zero => intro j; rfl
  | succ k ih =>
    intro j
    simp only [List.range'_succ, List.map_cons, rowCells]
    rw [← val_succ_succ]
    rw [ih (j + 1)]

/-- Row `i` of the table filled row by row is the recurrence `val i` at the columns `0..m`. -/
theorem row_eq (m : Nat) : ∀ i, R.row m i = (List.range (m + 1)).map (R.val i) := by
  intro i
  induction i with
  | zero => rfl
  | succ i ih =>
    simp only [row, ih, List.range_eq_range', List.range'_succ, List.map_cons, nextRow]
    have := R.rowCells_eq i m 0
    simp only [Nat.zero_add] at this
    show R.val (i + 1) 0 :: R.rowCells i (R.val (i + 1) 0) (R.val i 0) 0 (List.map (R.val i) (List.range' 1 m)) = _
    rw [this]

theorem row_getLast (m i : Nat) : (R.row m i).getLast? = some (R.val i m) := by
  rw [row_eq, List.range_succ]
  simp

theorem table_flatten (m n : Nat) :
    (R.table m n).flatten = (List.range (n + 1)).flatMap fun i => (List.range (m + 1)).map (R.val i) := by
  unfold table
  rw [List.flatMap_def]
  congr 1
  apply List.map_congr_left
  intro i _
  exact R.row_eq m i

theorem table_get (m n i j : Nat) (hi : i ≤ n) (hj : j ≤ m) :
    ((R.table m n)[i]?.bind (·[j]?)) = some (R.val i j) := by
  have hi' : i < n + 1 := by omega
  have hj' : j < m + 1 := by omega
  simp [table, row_eq, hi', hj']

end Rec

/-! ## Walking and positional scores -/

def adv : Nat × Nat → Col → Nat × Nat
  | (i, j), .both _ _ => (i + 1, j + 1)
  | (i, j), .gapA _ => (i, j + 1)
  | (i, j), .gapB _ => (i + 1, j)

theorem stepPos_adv {p q : Nat × Nat} {c : Col} (h : stepPos p c = some q) : q = adv p c := by
  obtain ⟨i, j⟩ := p
  cases c <;> simp only [stepPos] at h <;> split at h <;> simp_all [adv]

/-- generic positional score: `cost p c` is the score of column `c` entered at position `p` -/
def scorePos (cost : Nat × Nat → Col → Int) : Nat × Nat → Aln → Int
  | _, [] => 0
  | p, c :: r => cost p c + scorePos cost (adv p c) r

theorem walk_cons_some {p q : Nat × Nat} {c : Col} {r : Aln} (h : walk p (c :: r) = some q) :
    stepPos p c = some (adv p c) ∧ walk (adv p c) r = some q := by
  simp only [walk] at h
  cases hs : stepPos p c with
  | none => simp [hs] at h
  | some q' =>
    have := stepPos_adv hs
    subst this
    simp [hs] at h
    exact ⟨rfl, h⟩

theorem walk_append (p : Nat × Nat) (l1 l2 : Aln) :
    walk p (l1 ++ l2) = (walk p l1).bind fun q => walk q l2 := by
  induction l1 generalizing p with
  | nil => simp [walk]
  | cons c r ih =>
    simp only [List.cons_append, walk]
    cases stepPos p c with
    | none => simp
    | some q => simp [ih]

theorem scorePos_append (cost : Nat × Nat → Col → Int) (p q : Nat × Nat) (l1 l2 : Aln)
    (h : walk p l1 = some q) : scorePos cost p (l1 ++ l2) = scorePos cost p l1 + scorePos cost q l2 := by
  induction l1 generalizing p with
  | nil => simp [walk] at h; subst h; simp [scorePos]
  | cons c r ih =>
    obtain ⟨_, h2⟩ := walk_cons_some h
    simp only [List.cons_append, scorePos, ih _ h2]
    omega

/-- Upper bound, generic: if every single step respects `V`, every walk does. -/
theorem upper_gen (V : Nat → Nat → Int) (cost : Nat × Nat → Col → Int)
    (hstep : ∀ p c, stepPos p c = some (adv p c) → V p.1 p.2 + cost p c ≤ V (adv p c).1 (adv p c).2) :
    ∀ (aln : Aln) (p q : Nat × Nat), walk p aln = some q → V p.1 p.2 + scorePos cost p aln ≤ V q.1 q.2 := by
  intro aln
  induction aln with
  | nil => intro p q h; simp [walk] at h; subst h; simp [scorePos]
  | cons c r ih =>
    intro p q h
    obtain ⟨h1, h2⟩ := walk_cons_some h
    have a1 := hstep p c h1
    have a2 := ih _ _ h2
    simp only [scorePos]
    omega

/-- Attainment, generic: if every cell is either a start cell with value 0 or equals a predecessor's value plus
the cost of the connecting column, every cell's value is the score of a walk ending there. -/
theorem attained_gen (V : Nat → Nat → Int) (cost : Nat × Nat → Col → Int) (P : Nat × Nat → Prop)
    (hcell : ∀ i j, (P (i, j) ∧ V i j = 0) ∨
      ∃ p c, stepPos p c = some (i, j) ∧ V i j = V p.1 p.2 + cost p c) :
    ∀ (n i j : Nat), i + j = n → ∃ p0 aln, P p0 ∧ walk p0 aln = some (i, j) ∧ scorePos cost p0 aln = V i j := by
  intro n
  induction n using Nat.strongRecOn with
  | _ n ih =>
    intro i j hn
    rcases hcell i j with ⟨hP, h0⟩ | ⟨p, c, hs, hv⟩
    · exact ⟨(i, j), [], hP, rfl, by simp [scorePos, h0]⟩
    · have hq := stepPos_adv hs
      have hlt : p.1 + p.2 < n := by
        obtain ⟨pi, pj⟩ := p
        cases c <;> simp [adv] at hq <;> omega
      obtain ⟨p0, aln, hP, hw, hsc⟩ := ih (p.1 + p.2) hlt p.1 p.2 rfl
      refine ⟨p0, aln ++ [c], hP, ?_, ?_⟩
      · rw [walk_append, hw]; simp [walk, hs]
      · rw [scorePos_append cost p0 p aln [c] hw, hsc, hv]
        simp [scorePos]

/-! ## The three linear scores as positional scores -/

def costLin (M : Mat) (g : Int) (a b : Seq) : Nat × Nat → Col → Int := fun _ c => colScoreLin M g a b c

def costSemi (M : Mat) (g : Int) (a b : Seq) : Nat × Nat → Col → Int
  | _, .both i j => sub M a b i j
  | (i, _), .gapA _ => if i = 0 ∨ i = a.length then 0 else g
  | (_, j), .gapB _ => if j = 0 ∨ j = b.length then 0 else g

theorem scoreLin_eq_pos (M : Mat) (g : Int) (a b : Seq) (aln : Aln) (p : Nat × Nat) :
    scoreLin M g a b aln = scorePos (costLin M g a b) p aln := by
  induction aln generalizing p with
  | nil => rfl
  | cons c r ih => simp [scoreLin, scorePos, costLin, ih (adv p c)]

theorem scoreSemiPos_eq_pos (M : Mat) (g : Int) (a b : Seq) (aln : Aln) (p : Nat × Nat) :
    scoreSemiPos M g a b p aln = scorePos (costSemi M g a b) p aln := by
  induction aln generalizing p with
  | nil => obtain ⟨i, j⟩ := p; rfl
  | cons c r ih =>
    obtain ⟨i, j⟩ := p
    cases c <;> simp [scoreSemiPos, scorePos, costSemi, adv, ih]

/-- With `gap_open = gap_ext` and terminal penalties the public score is the plain column sum. -/
theorem scorePub_lin_aux (M : Mat) (g : Int) (a b : Seq) (aln : Aln) (fa fb : Bool) :
    subSum M a b aln + gapCost g g Col.hasA fa aln + gapCost g g Col.hasB fb aln = scoreLin M g a b aln := by
  induction aln generalizing fa fb with
  | nil => simp [subSum, gapCost, scoreLin]
  | cons c r ih =>
    cases c with
    | both i j =>
      have := ih false false
      simp [subSum, gapCost, scoreLin, colScoreLin, Col.hasA, Col.hasB]; omega
    | gapA j =>
      have := ih true false
      simp [subSum, gapCost, scoreLin, colScoreLin, Col.hasA, Col.hasB]; omega
    | gapB i =>
      have := ih false true
      simp [subSum, gapCost, scoreLin, colScoreLin, Col.hasA, Col.hasB]; omega

theorem scorePub_lin (M : Mat) (g : Int) (a b : Seq) (aln : Aln) :
    scorePub M g g true a b aln = scoreLin M g a b aln := by
  simp [scorePub, scorePub_lin_aux]

/-! ## Step and cell lemmas for the three linear recurrences -/

theorem gapRun_succ (g : Int) (k : Nat) : gapRun g (k + 1) = gapRun g k + g := rfl

theorem max3_cases (x y z : Int) : max3 x y z = x ∨ max3 x y z = y ∨ max3 x y z = z := by
  unfold max3; omega

theorem cellG (M : Mat) (g : Int) (a b : Seq) (i j : Nat) (d l t : Int) :
    (linRec .global M g a b).cell i j d l t = max3 (d + sub M a b i j) (l + g) (t + g) := rfl
theorem cellS (M : Mat) (g : Int) (a b : Seq) (i j : Nat) (d l t : Int) :
    (linRec .semi M g a b).cell i j d l t = max3 (d + sub M a b i j)
      (l + (if i + 1 = a.length then 0 else g)) (t + (if j + 1 = b.length then 0 else g)) := rfl
theorem cellL (M : Mat) (g : Int) (a b : Seq) (i j : Nat) (d l t : Int) :
    (linRec .local M g a b).cell i j d l t =
      if max3 (d + sub M a b i j) (l + g) (t + g) ≤ 0 then 0 else max3 (d + sub M a b i j) (l + g) (t + g) := rfl
theorem borderG (M : Mat) (g : Int) (a b : Seq) (i j : Nat) :
    (linRec .global M g a b).border i j = gapRun g (i + j) := rfl
theorem borderS (M : Mat) (g : Int) (a b : Seq) (i j : Nat) : (linRec .semi M g a b).border i j = 0 := rfl
theorem borderL (M : Mat) (g : Int) (a b : Seq) (i j : Nat) : (linRec .local M g a b).border i j = 0 := rfl

theorem step_global (M : Mat) (g : Int) (a b : Seq) (p : Nat × Nat) (c : Col)
    (h : stepPos p c = some (adv p c)) :
    (linRec .global M g a b).val p.1 p.2 + costLin M g a b p c
      ≤ (linRec .global M g a b).val (adv p c).1 (adv p c).2 := by
  obtain ⟨i, j⟩ := p
  cases c with
  | both i' j' =>
    simp only [stepPos] at h
    split at h
    · rename_i hh; obtain ⟨rfl, rfl⟩ := hh
      simp only [adv, Rec.val_succ_succ, costLin, colScoreLin]
      simp only [linRec, max3]; omega
    · simp at h
  | gapA j' =>
    simp only [adv, costLin, colScoreLin]
    cases i with
    | zero => simp [Rec.val_zero, linRec, gapRun_succ]
    | succ i => simp only [Rec.val_succ_succ]; simp only [linRec, max3]; omega
  | gapB i' =>
    simp only [adv, costLin, colScoreLin]
    cases j with
    | zero => simp [Rec.val_succ_zero, linRec, gapRun_succ]; cases i <;> simp [Rec.val_zero, Rec.val_succ_zero, linRec]
    | succ j => simp only [Rec.val_succ_succ]; simp only [linRec, max3]; omega

theorem step_semi (M : Mat) (g : Int) (a b : Seq) (p : Nat × Nat) (c : Col)
    (h : stepPos p c = some (adv p c)) :
    (linRec .semi M g a b).val p.1 p.2 + costSemi M g a b p c
      ≤ (linRec .semi M g a b).val (adv p c).1 (adv p c).2 := by
  obtain ⟨i, j⟩ := p
  cases c with
  | both i' j' =>
    simp only [stepPos] at h
    split at h
    · rename_i hh; obtain ⟨rfl, rfl⟩ := hh
      simp only [adv, Rec.val_succ_succ, costSemi]
      simp only [linRec, max3]; omega
    · simp at h
  | gapA j' =>
    simp only [adv, costSemi]
    cases i with
    | zero => simp [Rec.val_zero, linRec]
    | succ i =>
      simp only [Rec.val_succ_succ]; simp only [linRec, max3]
      have : (i + 1 = 0) = False := by simp
      simp only [this, false_or]
      omega
  | gapB i' =>
    simp only [adv, costSemi]
    cases j with
    | zero => cases i <;> simp [Rec.val_zero, Rec.val_succ_zero, linRec]
    | succ j =>
      simp only [Rec.val_succ_succ]; simp only [linRec, max3]
      have : (j + 1 = 0) = False := by simp
      simp only [this, false_or]
      omega

theorem local_nonneg (M : Mat) (g : Int) (a b : Seq) (i j : Nat) :
    0 ≤ (linRec .local M g a b).val i j := by
  cases i with
  | zero => simp [Rec.val_zero, linRec]
  | succ i =>
    cases j with
    | zero => simp [Rec.val_succ_zero, linRec]
    | succ j =>
      simp only [Rec.val_succ_succ]; simp only [cellL, max3]
      omega

theorem step_local (M : Mat) (g : Int) (hg : g ≤ 0) (a b : Seq) (p : Nat × Nat) (c : Col)
    (h : stepPos p c = some (adv p c)) :
    (linRec .local M g a b).val p.1 p.2 + costLin M g a b p c
      ≤ (linRec .local M g a b).val (adv p c).1 (adv p c).2 := by
  obtain ⟨i, j⟩ := p
  cases c with
  | both i' j' =>
    simp only [stepPos] at h
    split at h
    · rename_i hh; obtain ⟨rfl, rfl⟩ := hh
      simp only [adv, Rec.val_succ_succ, costLin, colScoreLin]
      simp only [cellL, max3]; omega
    · simp at h
  | gapA j' =>
    simp only [adv, costLin, colScoreLin]
    cases i with
    | zero => simp [Rec.val_zero, linRec]; omega
    | succ i => simp only [Rec.val_succ_succ]; simp only [cellL, max3]; omega
  | gapB i' =>
    simp only [adv, costLin, colScoreLin]
    cases j with
    | zero =>
      have h0 : ∀ k, (linRec .local M g a b).val k 0 = 0 := by
        intro k; cases k <;> simp [Rec.val_zero, Rec.val_succ_zero, linRec]
      simp [h0]; omega
    | succ j => simp only [Rec.val_succ_succ]; simp only [cellL, max3]; omega

/-! ## listMax -/

theorem listMax_ge_init (init : Int) (l : List Int) : init ≤ listMax init l := by
  unfold listMax
  induction l generalizing init with
  | nil => simp
  | cons x r ih => simp only [List.foldl]; have := ih (max init x); omega

theorem listMax_ge_mem (init : Int) (l : List Int) (x : Int) (h : x ∈ l) : x ≤ listMax init l := by
  unfold listMax
  induction l generalizing init with
  | nil => simp at h
  | cons y r ih =>
    simp only [List.foldl]
    rcases List.mem_cons.mp h with rfl | h
    · have := listMax_ge_init (max init x) r; unfold listMax at this; omega
    · exact ih _ h

theorem listMax_mem (init : Int) (l : List Int) : listMax init l = init ∨ listMax init l ∈ l := by
  unfold listMax
  induction l generalizing init with
  | nil => simp
  | cons y r ih =>
    simp only [List.foldl]
    rcases ih (max init y) with h | h
    · rw [h]
      have : max init y = init ∨ max init y = y := by omega
      rcases this with h2 | h2
      · left; exact h2
      · right; rw [h2]; exact List.mem_cons_self
    · right; exact List.mem_cons_of_mem _ h

end BiotiteModel.C08

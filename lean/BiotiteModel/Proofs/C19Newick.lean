import BiotiteModel.Model.C19Tree
import Std.Data.String.ToNat
/-! Newick write → read round trip for the model of `to_newick` / `from_newick`. -/
namespace BiotiteModel.C19
variable {δ : Type}

/-! ### character classes -/
/-- Not one of `( ) ,` — invisible to the bracket scans and the comma split. -/
def PlainC (c : Char) : Prop := c ≠ '(' ∧ c ≠ ')' ∧ c ≠ ','

/-- A clean character: none of `, : ; ( )`, no whitespace. -/
def CleanC (c : Char) : Prop := c ∉ illegalChars ∧ isWs c = false

theorem CleanC.plain {c : Char} (h : CleanC c) : PlainC c := by
  have := h.1
  simp [illegalChars] at this
  exact ⟨this.2.2.2.1, this.2.2.2.2, this.1⟩

theorem CleanC.noColon {c : Char} (h : CleanC c) : c ≠ ':' := by
  have := h.1
  simp [illegalChars] at this
  exact this.2.1

def NoWs (s : List Char) : Prop := ∀ c ∈ s, isWs c = false

theorem filter_noWs {s : List Char} (h : NoWs s) : s.filter (fun c => !isWs c) = s := by
  rw [List.filter_eq_self]
  intro c hc; simp [h c hc]

/-! ### the level-0 comma split -/

/-- Scanning `s` from any level `> 0`… (commas allowed). -/
def Inner (s : List Char) : Prop :=
  ∀ (rest : List Char) (level : Nat) (cur : List Char),
    splitTop (s ++ rest) (level + 1) cur = splitTop rest (level + 1) (s.reverse ++ cur)

/-- Scanning `s` from any level returns to that level and only accumulates `s`. -/
def Piece (s : List Char) : Prop :=
  ∀ (rest : List Char) (level : Nat) (cur : List Char),
    splitTop (s ++ rest) level cur = splitTop rest level (s.reverse ++ cur)

theorem Piece.inner {s : List Char} (h : Piece s) : Inner s := fun rest level cur => h rest (level + 1) cur

theorem Piece.nil : Piece [] := fun _ _ _ => rfl

theorem Piece.append {s t : List Char} (hs : Piece s) (ht : Piece t) : Piece (s ++ t) := by
  intro rest level cur
  rw [List.append_assoc, hs, ht]; simp

theorem Inner.append {s t : List Char} (hs : Inner s) (ht : Inner t) : Inner (s ++ t) := by
  intro rest level cur
  rw [List.append_assoc, hs, ht]; simp

theorem Piece.plainChar {c : Char} (h : PlainC c) : Piece [c] := by
  intro rest level cur
  obtain ⟨h1, h2, h3⟩ := h
  simp [splitTop, h1, h2, h3]

theorem Piece.plain : ∀ {s : List Char}, (∀ c ∈ s, PlainC c) → Piece s
  | [], _ => Piece.nil
  | c :: s, h => by
    have : c :: s = [c] ++ s := rfl
    rw [this]
    exact (Piece.plainChar (h c (by simp))).append (Piece.plain (fun d hd => h d (by simp [hd])))

theorem Inner.comma : Inner [','] := by
  intro rest level cur
  simp [splitTop]

/-- `( inner )` is a piece. -/
theorem Piece.paren {s : List Char} (h : Inner s) : Piece ('(' :: s ++ [')']) := by
  intro rest level cur
  have e : ('(' :: s ++ [')']) ++ rest = '(' :: (s ++ (')' :: rest)) := by simp
  rw [e]
  simp only [splitTop, if_true]
  rw [h]
  simp [splitTop]

theorem inner_joinComma : ∀ {ss : List (List Char)}, (∀ s ∈ ss, Inner s) → Inner (joinComma ss)
  | [], _ => fun _ _ _ => rfl
  | [x], h => by simpa [joinComma] using h x (by simp)
  | x :: y :: ys, h => by
    have : joinComma (x :: y :: ys) = x ++ ([','] ++ joinComma (y :: ys)) := by simp [joinComma]
    rw [this]
    exact (h x (by simp)).append (Inner.comma.append (inner_joinComma (fun s hs => h s (by simp [hs]))))

theorem splitTop_joinComma : ∀ (ss : List (List Char)), ss ≠ [] → (∀ s ∈ ss, Piece s) →
    ∀ cur, splitTop (joinComma ss) 0 cur = some ((match ss with | [] => [] | x :: xs => (cur.reverse ++ x) :: xs))
  | [], h, _ => absurd rfl h
  | [x], _, h => by
    intro cur
    have := h x (by simp) [] 0 cur
    simp only [List.append_nil] at this
    simp [joinComma, this, splitTop]
  | x :: y :: ys, _, h => by
    intro cur
    have e : joinComma (x :: y :: ys) = x ++ (',' :: joinComma (y :: ys)) := by simp [joinComma]
    rw [e, h x (by simp)]
    have ih := splitTop_joinComma (y :: ys) (by simp) (fun s hs => h s (by simp [hs])) []
    simp only [splitTop]
    simp [ih]

/-! ### the two bracket scans -/
theorem firstOpen_plain : ∀ (s : List Char) (i : Nat), (∀ c ∈ s, PlainC c) → firstOpen s i = .ok none
  | [], _, _ => rfl
  | c :: s, i, h => by
    have hc := h c (by simp)
    simp [firstOpen, hc.1, hc.2.1, firstOpen_plain s (i + 1) (fun d hd => h d (by simp [hd]))]

theorem lastCloseRev_plain : ∀ (s : List Char) (k : Nat), (∀ c ∈ s, PlainC c) → lastCloseRev s k = .ok none
  | [], _, _ => rfl
  | c :: s, k, h => by
    have hc := h c (by simp)
    simp [lastCloseRev, hc.1, hc.2.1, lastCloseRev_plain s (k + 1) (fun d hd => h d (by simp [hd]))]

theorem lastCloseRev_close : ∀ (u v : List Char) (k : Nat), (∀ c ∈ u, PlainC c) →
    lastCloseRev (u ++ ')' :: v) k = .ok (some (k + u.length))
  | [], _, _, _ => by simp [lastCloseRev]
  | c :: u, v, k, h => by
    have hc := h c (by simp)
    simp only [List.cons_append, lastCloseRev, hc.1, hc.2.1, if_false]
    rw [lastCloseRev_close u v (k + 1) (fun d hd => h d (by simp [hd]))]
    simp; omega

/-! ### `split(":")` -/
theorem splitColon_noColon : ∀ (s : List Char), (∀ c ∈ s, c ≠ ':') → splitColon s = [s]
  | [], _ => rfl
  | c :: s, h => by
    simp [splitColon, splitColon_noColon s (fun d hd => h d (by simp [hd])), h c (by simp)]

theorem splitColon_one : ∀ (l t : List Char), (∀ c ∈ l, c ≠ ':') → (∀ c ∈ t, c ≠ ':') →
    splitColon (l ++ ':' :: t) = [l, t]
  | [], t, _, ht => by simp [splitColon, splitColon_noColon t ht]
  | c :: l, t, hl, ht => by
    simp [splitColon, splitColon_one l t (fun d hd => hl d (by simp [hd])) ht, hl c (by simp)]


/-! ### one step of the reader on a written node / leaf -/

theorem node_step (labels : Option (List (List Char))) (parseD : List Char → Option δ) (zero : δ)
    (fuel : Nat) (s0 body suffix : List Char) (hb : body ≠ []) (hsuf : ∀ c ∈ suffix, PlainC c)
    (hf : s0.filter (fun c => !isWs c) = '(' :: body ++ ')' :: suffix) :
    fromNewickFuel labels parseD zero (fuel + 1) s0 =
      match splitTop body 0 [] with
      | none => .error .invalidFile
      | some pieces =>
        match parsePieces (fromNewickFuel labels parseD zero fuel) pieces with
        | .error e => .error e
        | .ok cs => .ok (.node cs, if suffix.length = 0 then zero else (labelAndDistance parseD zero suffix).2) := by
  have hfirst : firstOpen ('(' :: body ++ ')' :: suffix) 0 = .ok (some 0) := by simp [firstOpen]
  have hlast : lastCloseRev ('(' :: body ++ ')' :: suffix).reverse 0 = .ok (some suffix.length) := by
    have e : ('(' :: body ++ ')' :: suffix).reverse = suffix.reverse ++ ')' :: (body.reverse ++ ['(']) := by simp
    rw [e, lastCloseRev_close _ _ 0 (fun c hc => hsuf c (List.mem_reverse.mp hc))]
    simp
  have hlen : ('(' :: body ++ ')' :: suffix).length - suffix.length = body.length + 2 := by
    simp; omega
  have htake : (('(' :: body ++ ')' :: suffix).take (body.length + 2 - 1)).drop (0 + 1) = body := by
    have e : '(' :: body ++ ')' :: suffix = ('(' :: body) ++ (')' :: suffix) := by simp
    rw [e, List.take_left' (by simp)]
    rfl
  have hdrop : ('(' :: body ++ ')' :: suffix).drop (body.length + 2) = suffix := by
    have e : '(' :: body ++ ')' :: suffix = ('(' :: body ++ [')']) ++ suffix := by simp
    rw [e, List.drop_left' (by simp)]
  have hbe : body.isEmpty = false := by cases body <;> simp_all
  simp only [fromNewickFuel, hf, hfirst, hlast, hlen, htake, hdrop, hbe]
  rfl


theorem leaf_step (labels : Option (List (List Char))) (parseD : List Char → Option δ) (zero : δ)
    (fuel : Nat) (s0 s : List Char) (hp : ∀ c ∈ s, PlainC c)
    (hf : s0.filter (fun c => !isWs c) = s) :
    fromNewickFuel labels parseD zero (fuel + 1) s0 =
      match labelIndex labels (labelAndDistance parseD zero s).1 with
      | .error e => .error e
      | .ok i => .ok (.leaf i, (labelAndDistance parseD zero s).2) := by
  have h1 := firstOpen_plain s 0 hp
  have h2 := lastCloseRev_plain s.reverse 0 (fun c hc => hp c (List.mem_reverse.mp hc))
  simp only [fromNewickFuel, hf, h1, h2]
  rfl

/-! ### codec, labels, results -/

/-- How branch lengths are written and read (Python: `repr(float)` / `float(str)`): reading a
written token gives the value back, and tokens contain none of `, : ; ( )` and no whitespace. -/
structure Codec (δ : Type) where
  showD : δ → List Char
  parseD : List Char → Option δ
  zero : δ
  parse_show : ∀ d, parseD (showD d) = some d
  clean : ∀ d, ∀ c ∈ showD d, c ∉ illegalChars ∧ isWs c = false

mutual
/-- Reading a string written without distances gives every node distance `zero`. -/
def T.erase (z : δ) : T δ → T δ
  | .leaf i => .leaf i
  | .node cs => .node (cs.erase z)
def F.erase (z : δ) : F δ → F δ
  | .nil => .nil
  | .cons _ t r => .cons z (t.erase z) (r.erase z)
end

def CleanLabel (l : List Char) : Prop := l ≠ [] ∧ ∀ c ∈ l, CleanC c

/-- What the round trip needs from the label of leaf `i`. -/
def LeafOk (labels : Option (List (List Char))) (i : Nat) : Prop :=
  ∃ l, leafLabel labels i = .ok l ∧ CleanLabel l ∧ labelIndex labels l = .ok i

def resT (inc : Bool) (z : δ) (t : T δ) (e : δ) : T δ × δ := if inc then (t, e) else (t.erase z, z)
def resF (inc : Bool) (z : δ) (f : F δ) : F δ := if inc then f else f.erase z

theorem length_le_joinComma : ∀ (ss : List (List Char)) (s : List Char), s ∈ ss → s.length ≤ (joinComma ss).length
  | [], _, h => by simp at h
  | [x], s, h => by simp at h; subst h; simp [joinComma]
  | x :: y :: ys, s, h => by
    have e : joinComma (x :: y :: ys) = x ++ (',' :: joinComma (y :: ys)) := by simp [joinComma]
    rw [e]
    rcases List.mem_cons.mp h with h | h
    · subst h; simp
    · have := length_le_joinComma (y :: ys) s h
      simp; omega

theorem noWs_joinComma : ∀ (ss : List (List Char)), (∀ s ∈ ss, NoWs s) → NoWs (joinComma ss)
  | [], _ => by intro c hc; simp [joinComma] at hc
  | [x], h => by simpa [joinComma] using h x (by simp)
  | x :: y :: ys, h => by
    have e : joinComma (x :: y :: ys) = x ++ (',' :: joinComma (y :: ys)) := by simp [joinComma]
    rw [e]
    intro c hc
    rcases List.mem_append.mp hc with hc | hc
    · exact h x (by simp) c hc
    · rcases List.mem_cons.mp hc with hc | hc
      · subst hc; decide
      · exact noWs_joinComma (y :: ys) (fun s hs => h s (by simp [hs])) c hc

theorem joinComma_ne_nil : ∀ (ss : List (List Char)), ss ≠ [] → (∀ s ∈ ss, s ≠ []) → joinComma ss ≠ []
  | [], h, _ => absurd rfl h
  | [x], _, h => by simpa [joinComma] using h x (by simp)
  | x :: y :: ys, _, h => by
    have e : joinComma (x :: y :: ys) = x ++ (',' :: joinComma (y :: ys)) := by simp [joinComma]
    rw [e]; simp


theorem T.WF_node {cs : F δ} (h : (T.node cs).WF = true) : cs.WF = true ∧ cs.length ≠ 0 := by
  cases cs with
  | nil => simp [T.WF] at h
  | cons d t r => exact ⟨by simpa [T.WF] using h, by simp [F.length]⟩

theorem labelAndDistance_tok (C : Codec δ) (l : List Char) (hl : ∀ c ∈ l, c ≠ ':') (e : δ) :
    labelAndDistance C.parseD C.zero (l ++ ':' :: C.showD e) = (l, e) := by
  have ht : ∀ c ∈ C.showD e, c ≠ ':' := fun c hc => CleanC.noColon (C.clean e c hc)
  simp [labelAndDistance, splitColon_one l _ hl ht, C.parse_show]

theorem labelAndDistance_noColon (parseD : List Char → Option δ) (z : δ) (l : List Char)
    (hl : ∀ c ∈ l, c ≠ ':') : labelAndDistance parseD z l = (l, z) := by
  simp [labelAndDistance, splitColon_noColon l hl]

section
variable (C : Codec δ) (labels : Option (List (List Char))) (inc : Bool)

mutual
theorem T.newick_rt : ∀ (t : T δ) (e : δ), t.WF = true → (∀ i ∈ t.leaves, LeafOk labels i) →
    ∃ s, t.toNewick labels inc C.showD e = .ok s ∧ s ≠ [] ∧ NoWs s ∧ Piece s ∧
      ∀ fuel, s.length < fuel → ∀ s0 : List Char, s0.filter (fun c => !isWs c) = s →
        fromNewickFuel labels C.parseD C.zero fuel s0 = .ok (resT inc C.zero t e)
  | .leaf i, e, _, hl => by
    obtain ⟨l, hlab, ⟨hne, hcl⟩, hidx⟩ := hl i (by simp [T.leaves])
    have htok : ∀ c ∈ C.showD e, CleanC c := C.clean e
    have hlc : ∀ c ∈ l, c ≠ ':' := fun c hc => (hcl c hc).noColon
    cases inc with
    | true =>
      have hplain : ∀ c ∈ l ++ ':' :: C.showD e, PlainC c := by
        intro c hc
        rcases List.mem_append.mp hc with hc | hc
        · exact (hcl c hc).plain
        · rcases List.mem_cons.mp hc with hc | hc
          · subst hc; exact ⟨by decide, by decide, by decide⟩
          · exact (htok c hc).plain
      refine ⟨l ++ ':' :: C.showD e, by simp [T.toNewick, hlab, bind, Except.bind, pure, Except.pure],
        by simp, ?_, Piece.plain hplain, ?_⟩
      · intro c hc
        rcases List.mem_append.mp hc with hc | hc
        · exact (hcl c hc).2
        · rcases List.mem_cons.mp hc with hc | hc
          · subst hc; decide
          · exact (htok c hc).2
      · intro fuel hfuel s0 hf
        cases fuel with
        | zero => simp at hfuel
        | succ f =>
          rw [leaf_step labels C.parseD C.zero f s0 _ hplain hf, labelAndDistance_tok C l hlc e]
          simp [hidx, resT]
    | false =>
      have hplain : ∀ c ∈ l, PlainC c := fun c hc => (hcl c hc).plain
      refine ⟨l, by simp [T.toNewick, hlab, bind, Except.bind, pure, Except.pure], hne,
        fun c hc => (hcl c hc).2, Piece.plain hplain, ?_⟩
      intro fuel hfuel s0 hf
      cases fuel with
      | zero => simp at hfuel
      | succ f =>
        rw [leaf_step labels C.parseD C.zero f s0 _ hplain hf, labelAndDistance_noColon _ _ l hlc]
        simp [hidx, resT, T.erase]
  | .node cs, e, hwf, hl => by
    obtain ⟨hcwf, hclen⟩ := T.WF_node hwf
    obtain ⟨ss, hss, hlen, hgood, hparse⟩ := F.newick_rt cs hcwf (by simpa [T.leaves] using hl)
    have hssne : ss ≠ [] := by
      intro h; rw [h] at hlen; simp at hlen; exact hclen hlen.symm
    have htok : ∀ c ∈ C.showD e, CleanC c := C.clean e
    have hbody : joinComma ss ≠ [] := joinComma_ne_nil ss hssne (fun s hs => (hgood s hs).1)
    have hsplit : splitTop (joinComma ss) 0 [] = some ss := by
      have := splitTop_joinComma ss hssne (fun s hs => (hgood s hs).2.2) []
      cases ss with
      | nil => exact absurd rfl hssne
      | cons x xs => simpa using this
    have hsufP : ∀ c ∈ (if inc then ':' :: C.showD e else []), PlainC c := by
      intro c hc
      cases inc with
      | false => simp at hc
      | true =>
        rcases List.mem_cons.mp hc with hc | hc
        · subst hc; exact ⟨by decide, by decide, by decide⟩
        · exact (htok c hc).plain
    have hsufW : NoWs (if inc then ':' :: C.showD e else []) := by
      intro c hc
      cases inc with
      | false => simp at hc
      | true =>
        rcases List.mem_cons.mp hc with hc | hc
        · subst hc; decide
        · exact (htok c hc).2
    refine ⟨'(' :: joinComma ss ++ ')' :: (if inc then ':' :: C.showD e else []), ?_, by simp, ?_, ?_, ?_⟩
    · simp [T.toNewick, hss, bind, Except.bind, pure, Except.pure]
    · intro c hc
      rcases List.mem_cons.mp hc with hc | hc
      · subst hc; decide
      · rcases List.mem_append.mp hc with hc | hc
        · exact noWs_joinComma ss (fun s hs => (hgood s hs).2.1) c hc
        · rcases List.mem_cons.mp hc with hc | hc
          · subst hc; decide
          · exact hsufW c hc
    · have e1 : '(' :: joinComma ss ++ ')' :: (if inc then ':' :: C.showD e else [])
          = ('(' :: joinComma ss ++ [')']) ++ (if inc then ':' :: C.showD e else []) := by simp
      rw [e1]
      exact (Piece.paren (inner_joinComma (fun s hs => ((hgood s hs).2.2).inner))).append (Piece.plain hsufP)
    · intro fuel hfuel s0 hf
      cases fuel with
      | zero => simp at hfuel
      | succ f =>
        rw [node_step labels C.parseD C.zero f s0 (joinComma ss) _ hbody hsufP hf, hsplit]
        have hp := hparse f (by
          intro s hs
          have := length_le_joinComma ss s hs
          simp at hfuel
          omega)
        simp only [hp]
        cases inc with
        | false => simp [resT, resF, T.erase]
        | true =>
          have := labelAndDistance_tok C [] (by simp) e
          simp only [List.nil_append] at this
          simp [resT, resF, this]
theorem F.newick_rt : ∀ (f : F δ), f.WF = true → (∀ i ∈ f.leaves, LeafOk labels i) →
    ∃ ss, f.toNewick labels inc C.showD = .ok ss ∧ ss.length = f.length ∧
      (∀ s ∈ ss, s ≠ [] ∧ NoWs s ∧ Piece s) ∧
      ∀ fuel, (∀ s ∈ ss, s.length < fuel) →
        parsePieces (fromNewickFuel labels C.parseD C.zero fuel) ss = .ok (resF inc C.zero f)
  | .nil, _, _ => ⟨[], rfl, rfl, by simp, by intro fuel _; cases inc <;> rfl⟩
  | .cons d t r, hwf, hl => by
    have hwf' : t.WF = true ∧ r.WF = true := by simpa [F.WF] using hwf
    have hl' : (∀ i ∈ t.leaves, LeafOk labels i) ∧ (∀ i ∈ r.leaves, LeafOk labels i) := by
      constructor
      · intro i hi; exact hl i (by simp [F.leaves, hi])
      · intro i hi; exact hl i (by simp [F.leaves, hi])
    obtain ⟨s, hs, hne, hnw, hp, hparse⟩ := T.newick_rt t d hwf'.1 hl'.1
    obtain ⟨ss, hss, hlen, hgood, hparseF⟩ := F.newick_rt r hwf'.2 hl'.2
    refine ⟨s :: ss, by simp [F.toNewick, hs, hss, bind, Except.bind, pure, Except.pure],
      by simp [F.length, hlen], ?_, ?_⟩
    · intro x hx
      rcases List.mem_cons.mp hx with hx | hx
      · subst hx; exact ⟨hne, hnw, hp⟩
      · exact hgood x hx
    · intro fuel hfuel
      have h1 := hparse fuel (hfuel s (by simp)) s (filter_noWs hnw)
      have h2 := hparseF fuel (fun x hx => hfuel x (by simp [hx]))
      simp only [parsePieces, h1, h2]
      cases inc <;> simp [resT, resF, F.erase]
end

end


/-! ### labels -/

/-- Labels the round trip needs: distinct, one per leaf index, non-empty, none of `, : ; ( )`,
**no whitespace** (forced by the reader, which deletes all whitespace). -/
def LabelsOk (labels : Option (List (List Char))) (t : T δ) : Prop :=
  match labels with
  | none => True
  | some ls => ls.Nodup ∧ (∀ i ∈ t.leaves, i < ls.length) ∧
      ∀ l ∈ ls, l ≠ [] ∧ ∀ c ∈ l, c ∉ illegalChars ∧ isWs c = false

theorem leafOk_some (ls : List (List Char)) (hnd : ls.Nodup)
    (hc : ∀ l ∈ ls, l ≠ [] ∧ ∀ c ∈ l, c ∉ illegalChars ∧ isWs c = false) (i : Nat) (hi : i < ls.length) :
    LeafOk (some ls) i := by
  have hmem : ls[i] ∈ ls := List.getElem_mem hi
  refine ⟨ls[i], ?_, ⟨(hc _ hmem).1, (hc _ hmem).2⟩, ?_⟩
  · have hne : ls.isEmpty = false := by
      cases ls with
      | nil => simp at hi
      | cons a l => rfl
    simp [leafLabel, hne, hi]
    exact fun c hcm => ((hc _ hmem).2 c hcm).1
  · have : ls.findIdx? (fun x => decide (x = ls[i])) = some i := by
      rw [List.findIdx?_eq_some_iff_getElem]
      refine ⟨hi, by simp, ?_⟩
      intro j hji
      have hj : j < ls.length := by omega
      have : ls[j] ≠ ls[i] := (List.pairwise_iff_getElem.mp hnd) j i hj hi hji
      simpa using this
    simp [labelIndex, this]

theorem cleanC_of_isDigit {c : Char} (h : c.isDigit = true) : CleanC c := by
  have hb : 48 ≤ c.toNat ∧ c.toNat ≤ 57 := by
    simp only [Char.isDigit, Bool.and_eq_true, decide_eq_true_eq] at h
    exact ⟨UInt32.le_iff_toNat_le.mp h.1, UInt32.le_iff_toNat_le.mp h.2⟩
  constructor
  · simp only [illegalChars, List.mem_cons, List.not_mem_nil, or_false, not_or]
    refine ⟨?_, ?_, ?_, ?_, ?_⟩ <;> (rintro rfl; simp [Char.toNat] at hb)
  · simp only [isWs]
    have : ¬ (9 ≤ c.toNat ∧ c.toNat ≤ 13) := by omega
    simp
    omega

theorem leafOk_none (i : Nat) : LeafOk none i := by
  have hd : ∀ c ∈ (toString i).toList, c.isDigit = true := by
    intro c hc
    have : (toString i).toList = Nat.toDigits 10 i := Nat.toList_repr
    rw [this] at hc
    exact Nat.isDigit_of_mem_toDigits (by decide) (by decide) hc
  have hne : (toString i).toList ≠ [] := by
    have : (toString i).toList = Nat.toDigits 10 i := Nat.toList_repr
    rw [this]; exact Nat.toDigits_ne_nil
  refine ⟨(toString i).toList, rfl, ⟨hne, fun c hc => cleanC_of_isDigit (hd c hc)⟩, ?_⟩
  have hnat : (String.ofList (toString i).toList).toNat? = some i := by
    rw [String.ofList_toList]
    exact Nat.toNat?_repr i
  simp only [labelIndex]
  split
  · rename_i r heq
    have : '-' ∈ (toString i).toList := by rw [heq]; simp
    exact absurd (hd _ this) (by decide)
  · rename_i r heq
    have : '+' ∈ (toString i).toList := by rw [heq]; simp
    exact absurd (hd _ this) (by decide)
  · have h2 : (String.ofList (Nat.toDigits 10 i)).toNat? = some i := by
      rw [← Nat.repr_eq_ofList_toDigits]; exact Nat.toNat?_repr i
    simp [h2]

theorem leafOk_of_labelsOk {labels : Option (List (List Char))} {t : T δ} (h : LabelsOk labels t) :
    ∀ i ∈ t.leaves, LeafOk labels i := by
  intro i hi
  cases labels with
  | none => exact leafOk_none i
  | some ls => exact leafOk_some ls h.1 h.2.2 i (h.2.1 i hi)

/-! ### TreeNode level -/

/-- Writing a node and reading any whitespace-injected version of the text gives it back. -/
theorem fromNewick_toNewick (C : Codec δ) (labels : Option (List (List Char))) (inc : Bool)
    (t : T δ) (e : δ) (hwf : t.WF = true) (hl : LabelsOk labels t) :
    ∃ s, t.toNewick labels inc C.showD e = .ok s ∧
      ∀ s' : List Char, s'.filter (fun c => !isWs c) = s →
        fromNewick labels C.parseD C.zero s' =
          .ok (if inc then (t, e) else (t.erase C.zero, C.zero)) := by
  obtain ⟨s, hs, _, _, _, hparse⟩ := T.newick_rt C labels inc t e hwf (leafOk_of_labelsOk hl)
  refine ⟨s, hs, ?_⟩
  intro s' hf
  have hlen : s.length < s'.length + 1 := by
    rw [← hf]
    have := List.length_filter_le (fun c => !isWs c) s'
    omega
  have := hparse (s'.length + 1) hlen s' hf
  simpa [fromNewick, resT] using this

/-! ### Tree level: `strip`, the trailing `;`, `Tree()` -/

theorem filter_dropWhile_ws : ∀ l : List Char,
    (l.dropWhile isWs).filter (fun c => !isWs c) = l.filter (fun c => !isWs c)
  | [] => rfl
  | c :: l => by
    cases h : isWs c
    · simp [List.dropWhile, h]
    · simp [List.dropWhile, h, filter_dropWhile_ws l]

theorem dropWhile_head_not : ∀ (l : List Char) (c : Char) (r : List Char),
    l.dropWhile isWs = c :: r → isWs c = false
  | [], _, _, h => by simp at h
  | a :: l, c, r, h => by
    cases ha : isWs a
    · simp [List.dropWhile, ha] at h
      rw [← h.1]; exact ha
    · simp [List.dropWhile, ha] at h
      exact dropWhile_head_not l c r h

theorem filter_strip (s : List Char) :
    (strip s).filter (fun c => !isWs c) = s.filter (fun c => !isWs c) := by
  unfold strip
  rw [List.filter_reverse, filter_dropWhile_ws, List.filter_reverse, filter_dropWhile_ws, List.reverse_reverse]

theorem strip_semicolon (s w : List Char) (h : s.filter (fun c => !isWs c) = w ++ [';']) :
    ∃ u, strip s = u ++ [';'] ∧ u.filter (fun c => !isWs c) = w := by
  have hfs := filter_strip s
  rw [h] at hfs
  unfold strip at hfs ⊢
  generalize hr : ((s.dropWhile isWs).reverse.dropWhile isWs) = r at hfs ⊢
  cases r with
  | nil => simp at hfs
  | cons c r' =>
    have hc := dropWhile_head_not _ c r' hr
    have e : ((c :: r').reverse).filter (fun c => !isWs c)
        = (r'.reverse).filter (fun c => !isWs c) ++ [c] := by
      simp [List.filter_append, hc]
    rw [e] at hfs
    have := List.append_inj' hfs (by simp)
    have hcs : c = ';' := by simpa using this.2
    exact ⟨r'.reverse, by simp [hcs], this.1⟩

mutual
theorem T.leaves_erase (z : δ) : ∀ t : T δ, (t.erase z).leaves = t.leaves
  | .leaf _ => rfl
  | .node cs => by simp [T.erase, T.leaves, F.leaves_erase z cs]
theorem F.leaves_erase (z : δ) : ∀ f : F δ, (f.erase z).leaves = f.leaves
  | .nil => rfl
  | .cons _ t r => by simp [F.erase, F.leaves, T.leaves_erase z t, F.leaves_erase z r]
end

theorem mkTree_erase (z : δ) (t : T δ) (h : mkTree t = .ok t) : mkTree (t.erase z) = .ok (t.erase z) := by
  simp only [mkTree, T.leaves_erase] at h ⊢
  split at h
  · rename_i hc; simp [hc]
  · cases h

/-- **Newick round trip** (`Tree.to_newick` → any whitespace injection → `Tree.from_newick`). -/
theorem newick_roundtrip (C : Codec δ) (labels : Option (List (List Char))) (inc : Bool)
    (t : T δ) (hwf : t.WF = true) (hl : LabelsOk labels t) (ht : mkTree t = .ok t) :
    ∃ s, treeToNewick labels inc C.showD C.zero t = .ok s ∧
      ∀ s' : List Char, s'.filter (fun c => !isWs c) = s →
        treeFromNewick labels C.parseD C.zero s' = .ok (if inc then t else t.erase C.zero) := by
  obtain ⟨w, hw, hrt⟩ := fromNewick_toNewick C labels inc t C.zero hwf hl
  refine ⟨w ++ [';'], by simp [treeToNewick, hw, bind, Except.bind, pure, Except.pure], ?_⟩
  intro s' hf
  obtain ⟨u, hu, hfu⟩ := strip_semicolon s' w hf
  have hrt' := hrt u hfu
  have hne : (u ++ [';']).isEmpty = false := by simp
  have hgl : (u ++ [';']).getLast? = some ';' := by simp
  have hdl : (u ++ [';']).dropLast = u := by simp
  simp only [treeFromNewick, hu, hne, hgl, hdl, if_true, hrt', Bool.false_eq_true, if_false]
  cases inc with
  | true => simpa using ht
  | false => simpa using mkTree_erase C.zero t ht

end BiotiteModel.C19

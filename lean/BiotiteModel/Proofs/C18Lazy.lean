import BiotiteModel.Model.C18Lazy
/-! # C18 — lazy parsing of SD records is unobservable -/
namespace BiotiteModel.C18

theorem lookupK_abs (k : Line) (f : LFile) : lookupK k f.abs = (lookupK k f).map entryAbs := by
  induction f with
  | nil => rfl
  | cons kv f ih =>
    obtain ⟨k', e⟩ := kv
    simp only [LFile.abs, List.map_cons, lookupK] at ih ⊢
    split
    · rfl
    · exact ih

theorem dictSet_abs (k : Line) (e : Entry (List Line) LRec) (f : LFile) :
    LFile.abs (dictSet k e f) = dictSet k (entryAbs e) f.abs := by
  induction f with
  | nil => rfl
  | cons kv f ih =>
    obtain ⟨k', e'⟩ := kv
    simp only [LFile.abs, List.map_cons, dictSet] at ih ⊢
    split
    · rfl
    · simp [ih]

theorem eraseK_abs (k : Line) (f : LFile) : LFile.abs (eraseK k f) = eraseK k f.abs := by
  induction f with
  | nil => rfl
  | cons kv f ih =>
    obtain ⟨k', e'⟩ := kv
    simp only [LFile.abs, List.map_cons, eraseK] at ih ⊢
    split
    · rfl
    · simp [ih]

theorem dictSet_same {α : Type} (k : Line) (v : α) (d : List (Line × α)) (h : lookupK k d = some v) :
    dictSet k v d = d := by
  induction d with
  | nil => simp [lookupK] at h
  | cons kv d ih =>
    obtain ⟨k', v'⟩ := kv
    simp only [lookupK] at h
    simp only [dictSet]
    split
    · rename_i hk
      simp only [hk, if_true, Option.some.injEq] at h
      rw [h]
    · rename_i hk
      simp only [hk, if_false] at h
      rw [ih h]

/-- `file[k]` changes nothing observable and hands out the record the plain view contains. -/
theorem getRec_spec (f : LFile) (k : Line) :
    (lookupK k f = none → getRec f k = none) ∧
    (∀ e, lookupK k f = some e → ∃ f' r, getRec f k = some (f', r) ∧ f'.abs = f.abs ∧ r.abs = entryAbs e) := by
  constructor
  · intro h; simp [getRec, h]
  · intro e he
    cases e with
    | parsed r => exact ⟨f, r, by simp [getRec, he], rfl, rfl⟩
    | raw ls =>
      refine ⟨dictSet k (.parsed (lrecOfLines ls)) f, lrecOfLines ls, by simp [getRec, he], ?_, rfl⟩
      rw [dictSet_abs]
      apply dictSet_same
      rw [lookupK_abs, he]
      rfl

theorem step_refines (f : LFile) (op : EditOp) :
    specStep f.abs op = (LFile.abs (lazyStep f op).1, (lazyStep f op).2) := by
  have hnone := fun k => (getRec_spec f k).1
  have hsome := fun k => (getRec_spec f k).2
  cases op with
  | editHeader k g =>
    simp only [specStep, lazyStep, lookupK_abs]
    cases hl : lookupK k f with
    | none => simp only [hnone k hl, Option.map_none]
    | some e =>
      obtain ⟨f', r, hg, hf', hr⟩ := hsome k e hl
      simp only [hg, Option.map_some, ← hr, LRec.abs]
      cases hh : forceH r.header with
      | none => simp only [hf']
      | some h =>
        simp only []
        rw [dictSet_abs, hf']
        simp only [entryAbs, LRec.abs, forceH]
  | editMd k g =>
    simp only [specStep, lazyStep, lookupK_abs]
    cases hl : lookupK k f with
    | none => simp only [hnone k hl, Option.map_none]
    | some e =>
      obtain ⟨f', r, hg, hf', hr⟩ := hsome k e hl
      simp only [hg, Option.map_some, ← hr, LRec.abs]
      cases hh : forceM r.md with
      | none => simp only [hf']
      | some m =>
        simp only []
        rw [dictSet_abs, hf']
        simp only [entryAbs, LRec.abs, forceM]
  | setCtab k c =>
    simp only [specStep, lazyStep, lookupK_abs]
    cases hl : lookupK k f with
    | none => simp only [hnone k hl, Option.map_none]
    | some e =>
      obtain ⟨f', r, hg, hf', hr⟩ := hsome k e hl
      simp only [hg, Option.map_some, ← hr, LRec.abs]
      rw [dictSet_abs, hf']
      simp only [entryAbs, LRec.abs]
  | rename old new =>
    simp only [specStep, lazyStep, lookupK_abs]
    cases hl : lookupK old f with
    | none => simp only [hnone old hl, Option.map_none]
    | some e =>
      obtain ⟨f', r, hg, hf', hr⟩ := hsome old e hl
      simp only [hg, Option.map_some, ← hr, LRec.abs]
      cases hh : forceH r.header with
      | none => simp only [hf']
      | some h =>
        simp only []
        rw [eraseK_abs, dictSet_abs, hf']
        simp only [entryAbs, LRec.abs, forceH]
  | del k =>
    simp only [specStep, lazyStep, lookupK_abs]
    cases hl : lookupK k f with
    | none => simp only [Option.map_none]
    | some e => simp only [Option.map_some, eraseK_abs]
  | insert k h c md =>
    simp only [specStep, lazyStep, dictSet_abs, entryAbs, LRec.abs, forceH, forceM]
  | adopt k r =>
    simp only [specStep, lazyStep, LRec.abs]
    cases hh : forceH r.header with
    | none => simp only []
    | some h =>
      simp only []
      rw [dictSet_abs]
      simp only [entryAbs, LRec.abs, forceH]

theorem run_refines (ops : List EditOp) (f : LFile) :
    specRun f.abs ops = (LFile.abs (lazyRun f ops).1, (lazyRun f ops).2) := by
  induction ops generalizing f with
  | nil => rfl
  | cons op ops ih =>
    simp only [specRun, lazyRun, step_refines f op]
    rw [ih (lazyStep f op).1]

theorem lookupK_dictSet {α : Type} (k : Line) (v : α) (d : List (Line × α)) : lookupK k (dictSet k v d) = some v := by
  induction d with
  | nil => simp [dictSet, lookupK]
  | cons kv d ih =>
    obtain ⟨k', v'⟩ := kv
    simp only [dictSet]
    split
    · rename_i h; simp [lookupK, h]
    · rename_i h; simp [lookupK, h, ih]

theorem keys_dictSet {α : Type} (k : Line) (v : α) (d : List (Line × α)) :
    (dictSet k v d).map (·.1) = if k ∈ d.map (·.1) then d.map (·.1) else d.map (·.1) ++ [k] := by
  induction d with
  | nil => simp [dictSet]
  | cons kv d ih =>
    obtain ⟨k', v'⟩ := kv
    simp only [dictSet]
    split
    · rename_i h; simp [h]
    · rename_i h
      have hne : ¬ k = k' := fun e => h e.symm
      simp only [List.map_cons, ih, List.mem_cons, hne, false_or]
      split <;> simp

end BiotiteModel.C18

import BiotiteModel.Model.C20
/-! Helper lemmas for C20 (core Lean only). -/
namespace BiotiteModel.C20

/-! ## The guard table, resolved per wrapper (finite facts, by evaluation) -/

theorem guard_start (w : Wrapper) : guardOf w "start" = some (some [.created]) := by
  cases w <;> decide
theorem guard_join (w : Wrapper) : guardOf w "join" = some (some [.running, .finished]) := by
  cases w <;> decide
theorem guard_cancel (w : Wrapper) : guardOf w "cancel" = some (some [.running, .finished]) := by
  cases w <;> decide
theorem guard_state (w : Wrapper) : guardOf w "get_app_state" = some none := by
  cases w <;> decide

theorem passes_created (s : AppState) : passes (some [.created]) s = true ↔ s = .created := by
  cases s <;> decide
theorem passes_rf (s : AppState) : passes (some [.running, .finished]) s = true ↔ (s = .running ∨ s = .finished) := by
  cases s <;> decide


/-! ## Clean-up -/

/-- What the property demands of a terminal state. -/
def Clean (s : St) : Prop := s.cleanups = 1 ∧ s.child ≠ .alive ∧ s.files = 0 ∧ s.cwdChanged = false

theorem getAppState_of_not_running (s : St) (h : s.state ≠ .running) : getAppState s = (s, s.state) := by
  simp [getAppState, h]

/-- `clean_up()` in the CANCELLED state: counter + 1, child killed, no files; nothing else moves. -/
theorem cleanUp_cancelled (s : St) (h : s.state = .cancelled) :
    (cleanUp s).state = .cancelled ∧ (cleanUp s).cleanups = s.cleanups + 1 ∧ (cleanUp s).child ≠ .alive ∧
    (cleanUp s).files = 0 ∧ (cleanUp s).cwdChanged = s.cwdChanged ∧ (cleanUp s).result = s.result ∧
    (cleanUp s).w = s.w ∧ (cleanUp s).tool = s.tool ∧ (cleanUp s).n = s.n := by
  unfold cleanUp
  cases hw : s.w <;> simp [getAppState, h] <;> (try split) <;> simp_all

/-- `clean_up()` in the JOINED state: counter + 1, no files; the child is not touched (it has been waited for). -/
theorem cleanUp_joined (s : St) (h : s.state = .joined) (hc : s.w = .base ∨ s.child ≠ .alive) :
    (cleanUp s).state = .joined ∧ (cleanUp s).cleanups = s.cleanups + 1 ∧ (cleanUp s).child ≠ .alive ∧
    (cleanUp s).files = 0 ∧ (cleanUp s).cwdChanged = s.cwdChanged ∧ (cleanUp s).result = s.result ∧
    (cleanUp s).w = s.w ∧ (cleanUp s).tool = s.tool ∧ (cleanUp s).n = s.n := by
  unfold cleanUp
  cases hw : s.w <;> simp [getAppState, h] <;> (try split) <;> simp_all


/-! ## The invariant carried along every history -/

structure Inv (s : St) : Prop where
  cwd : s.cwdChanged = false
  term : s.state.terminal = true → Clean s
  nonterm : s.state.terminal = false → s.cleanups = 0
  created : s.state = .created → s.child = .none
  res : s.result.isSome = true → s.state = .joined
  resOk : s.state = .joined → s.w.isMsa = true →
    ∃ r, s.result = some r ∧ parseOutput (toolRows s.tool s.n) (badLengths s.tool s.n) s.n = .ok r

theorem inv_init (w : Wrapper) (t : Tool) (n : Nat) (k : String) (b : Bool := false) : Inv (init w t n k b) := by
  constructor <;> simp [init, AppState.terminal]

theorem evaluate_ok_msa (s : St) (r) (h : evaluate s = .ok r) (hm : s.w.isMsa = true) :
    ∃ p, r = some p ∧ parseOutput (toolRows s.tool s.n) (badLengths s.tool s.n) s.n = .ok p := by
  unfold evaluate at h
  cases hw : s.w <;> simp [hw, Wrapper.isMsa] at h hm <;>
  · split at h
    · simp at h
    · split at h
      · simp at h
      · rename_i _ r' hr
        first
          | (split at h
             · simp at h
             · simp at h; exact ⟨r', h.symm, hr⟩)
          | (simp at h; exact ⟨r', h.symm, hr⟩)

/-- Both `join` implementations end in the same try/except/else + clean_up tail. -/
theorem joinTail_inv (s : St) (hcl : s.cleanups = 0) (hcwd : s.cwdChanged = false)
    (hch : s.w = .base ∨ s.child ≠ .alive) (hres : s.result = none) : Inv (joinTail s).1 := by
  unfold joinTail
  cases he : evaluate s with
  | error e =>
    have h := cleanUp_cancelled { s with state := .cancelled } rfl
    obtain ⟨h1, h2, h3, h4, h5, h6, _, _, _⟩ := h
    constructor <;> simp_all [Clean, AppState.terminal]
  | ok r =>
    have h := cleanUp_joined { s with state := .joined, result := r } rfl (by simpa using hch)
    obtain ⟨h1, h2, h3, h4, h5, h6, h7, h8, h9⟩ := h
    constructor
    · simp_all
    · intro _; simp_all [Clean]
    · simp_all [AppState.terminal]
    · simp_all
    · simp_all
    · intro _ hm
      simp only [h6, h7, h8, h9] at hm ⊢
      obtain ⟨p, hp, hpo⟩ := evaluate_ok_msa s r he hm
      exact ⟨p, hp, hpo⟩

theorem cancelBody_inv (s : St) (hcl : s.cleanups = 0) (hcwd : s.cwdChanged = false) (hres : s.result = none) :
    Inv (cancelBody s) := by
  unfold cancelBody
  have h := cleanUp_cancelled { s with state := .cancelled } rfl
  obtain ⟨h1, h2, h3, h4, h5, h6, _, _, _⟩ := h
  constructor <;> simp_all [Clean, AppState.terminal]

theorem waitExit_child (s : St) (hw : s.w ≠ .base) : (waitExit s).child ≠ .alive := by
  unfold waitExit exitEffects
  by_cases h : s.child = .alive <;> simp [h, hw]

theorem waitExit_frame (s : St) :
    (waitExit s).cleanups = s.cleanups ∧ (waitExit s).cwdChanged = s.cwdChanged ∧ (waitExit s).result = s.result ∧
    (waitExit s).state = s.state ∧ (waitExit s).w = s.w ∧ (waitExit s).tool = s.tool ∧ (waitExit s).n = s.n ∧
    (s.child ≠ .alive → waitExit s = s) ∧ ((waitExit s).child = .none ↔ s.child = .none) := by
  unfold waitExit exitEffects
  by_cases h : s.child = .alive <;> by_cases hb : s.w = .base <;> simp [h, hb]


theorem inv_waitExit (s : St) (h : Inv s) : Inv (waitExit s) := by
  obtain ⟨f1, f2, f3, f4, f5, f6, f7, f8, f9⟩ := waitExit_frame s
  constructor
  · rw [f2]; exact h.cwd
  · intro ht
    rw [f4] at ht
    have hc := h.term ht
    rw [f8 hc.2.1]; exact hc
  · intro ht; rw [f4] at ht; rw [f1]; exact h.nonterm ht
  · intro hs; rw [f4] at hs; exact f9.2 (h.created hs)
  · intro hr; rw [f3] at hr; rw [f4]; exact h.res hr
  · intro hs hm
    rw [f4] at hs; rw [f5] at hm
    rw [f3, f6, f7]; exact h.resOk hs hm

theorem inv_released (s : St) (h : Inv s) : Inv { s with released := true } := by
  obtain ⟨h1, h2, h3, h4, h5, h6⟩ := h
  constructor <;> simp_all [Clean]

theorem inv_getAppState (s : St) (h : Inv s) : Inv (getAppState s).1 := by
  unfold getAppState
  split
  · split
    · rename_i hr _
      obtain ⟨h1, h2, h3, h4, h5, h6⟩ := h
      constructor <;> simp_all [Clean, AppState.terminal]
    · exact h
  · exact h

theorem result_none_of_nonterminal (s : St) (h : Inv s) (ht : s.state ≠ .joined) : s.result = none := by
  cases hr : s.result with
  | none => rfl
  | some r => exact absurd (h.res (by simp [hr])) ht

theorem inv_startBody (s : St) (h : Inv s) (hs : s.state = .created) : Inv (startBody s).1 := by
  have hcl : s.cleanups = 0 := h.nonterm (by simp [hs, AppState.terminal])
  have hres : s.result = none := result_none_of_nonterminal s h (by simp [hs])
  have hch : s.child = .none := h.created hs
  unfold startBody
  by_cases hm : launchFails s.tool = true
  · rw [if_pos hm]
    simp only
    have hc := cleanUp_cancelled { s with cwdChanged := false, state := .cancelled } rfl
    obtain ⟨h1, h2, h3, h4, h5, h6, _, _, _⟩ := hc
    constructor <;> simp_all [Clean, AppState.terminal]
  · rw [if_neg hm]
    simp only
    by_cases he : exited { s with cwdChanged := false, child := .alive } = true
    · rw [if_pos he]
      obtain ⟨f1, f2, f3, f4, f5, f6, f7, f8, f9⟩ :=
        waitExit_frame { s with cwdChanged := false, child := .alive }
      constructor <;> simp_all [Clean, AppState.terminal]
    · rw [if_neg he]
      constructor <;> simp_all [Clean, AppState.terminal]

theorem inv_joinLocal (s : St) (t : Bool) (h : Inv s) (hs : s.state = .running ∨ s.state = .finished)
    (hw : s.w ≠ .base) : Inv (joinLocal s t).1 := by
  have hnt : s.state.terminal = false := by rcases hs with hs | hs <;> simp [hs, AppState.terminal]
  have hcl : s.cleanups = 0 := h.nonterm hnt
  have hres : s.result = none :=
    result_none_of_nonterminal s h (by rcases hs with hs | hs <;> simp [hs])
  unfold joinLocal
  split
  · obtain ⟨f1, f2, f3, f4, f5, f6, f7, f8, f9⟩ := waitExit_frame s
    apply joinTail_inv
    · simpa [f1] using hcl
    · simpa [f2] using h.cwd
    · right; simpa using waitExit_child s hw
    · simpa [f3] using hres
  · split
    · exact cancelBody_inv s hcl h.cwd hres
    · split
      · exact h
      · obtain ⟨f1, f2, f3, f4, f5, f6, f7, f8, f9⟩ := waitExit_frame { s with released := true }
        apply joinTail_inv
        · simpa [f1] using hcl
        · simpa [f2] using h.cwd
        · right; simpa using waitExit_child { s with released := true } (by simpa using hw)
        · simpa [f3] using hres

theorem inv_joinLocalT (s : St) (t : Timeout) (h : Inv s) (hs : s.state = .running ∨ s.state = .finished)
    (hw : s.w ≠ .base) : Inv (joinLocalT s t).1 := by
  unfold joinLocalT
  split
  · exact h
  · split
    · have hnt : s.state.terminal = false := by rcases hs with hs | hs <;> simp [hs, AppState.terminal]
      exact cancelBody_inv s (h.nonterm hnt) h.cwd
        (result_none_of_nonterminal s h (by rcases hs with hs | hs <;> simp [hs]))
    · exact inv_joinLocal s _ h hs hw

theorem inv_joinBase (s : St) (t : Bool) (h : Inv s) (hs : s.state = .running ∨ s.state = .finished)
    (hw : s.w = .base) : Inv (joinBase s t).1 := by
  have hnt : s.state.terminal = false := by rcases hs with hs | hs <;> simp [hs, AppState.terminal]
  have hcl : s.cleanups = 0 := h.nonterm hnt
  have hres : s.result = none :=
    result_none_of_nonterminal s h (by rcases hs with hs | hs <;> simp [hs])
  have hg := inv_getAppState s h
  have hfr : (getAppState s).1.cleanups = s.cleanups ∧ (getAppState s).1.cwdChanged = s.cwdChanged ∧
      (getAppState s).1.result = s.result ∧ (getAppState s).1.w = s.w := by
    unfold getAppState; split <;> (try split) <;> simp
  unfold joinBase
  simp only
  split
  · apply joinTail_inv
    · rw [hfr.1]; exact hcl
    · rw [hfr.2.1]; exact h.cwd
    · left; rw [hfr.2.2.2]; exact hw
    · rw [hfr.2.2.1]; exact hres
  · split
    · apply cancelBody_inv
      · rw [hfr.1]; exact hcl
      · rw [hfr.2.1]; exact h.cwd
      · rw [hfr.2.2.1]; exact hres
    · split
      · exact h
      · apply joinTail_inv
        · simpa [hfr.1] using hcl
        · simpa [hfr.2.1] using h.cwd
        · left; simpa [hfr.2.2.2] using hw
        · simpa [hfr.2.2.1] using hres

theorem methodBody_frame (s : St) (m : String) :
    (methodBody s m).1.state = s.state ∧ (methodBody s m).1.child = s.child ∧ (methodBody s m).1.files = s.files ∧
    (methodBody s m).1.cwdChanged = s.cwdChanged ∧ (methodBody s m).1.cleanups = s.cleanups ∧
    (methodBody s m).1.result = s.result ∧ (methodBody s m).1.w = s.w ∧ (methodBody s m).1.tool = s.tool ∧
    (methodBody s m).1.n = s.n ∧ (methodBody s m).1.released = s.released := by
  unfold methodBody setterEffect
  repeat' split
  all_goals (first | simp | (refine ⟨rfl, rfl, rfl, rfl, rfl, rfl, rfl, rfl, rfl, rfl⟩))

theorem inv_methodBody (s : St) (m : String) (h : Inv s) : Inv (methodBody s m).1 := by
  obtain ⟨f1, f2, f3, f4, f5, f6, f7, f8, f9, _⟩ := methodBody_frame s m
  obtain ⟨h1, h2, h3, h4, h5, h6⟩ := h
  constructor
  · rw [f4]; exact h1
  · intro ht; rw [f1] at ht; unfold Clean; rw [f5, f2, f3, f4]; exact h2 ht
  · intro ht; rw [f1] at ht; rw [f5]; exact h3 ht
  · intro hs; rw [f1] at hs; rw [f2]; exact h4 hs
  · intro hr; rw [f6] at hr; rw [f1]; exact h5 hr
  · intro hs hm; rw [f1] at hs; rw [f7] at hm; rw [f6, f8, f9]; exact h6 hs hm

theorem setGapBody_frame (s : St) (a : Int) (b : Option Int) :
    (setGapBody s a b).1 = s ∨ ∃ g, (setGapBody s a b).1 = { s with gap := g } := by
  unfold setGapBody
  repeat' split
  all_goals first | (left; rfl) | (right; exact ⟨_, rfl⟩)

theorem inv_setGapBody (s : St) (a : Int) (b : Option Int) (h : Inv s) : Inv (setGapBody s a b).1 := by
  rcases setGapBody_frame s a b with h' | ⟨g, h'⟩
  · rw [h']; exact h
  · rw [h']
    obtain ⟨h1, h2, h3, h4, h5, h6⟩ := h
    exact ⟨h1, h2, h3, h4, h5, h6⟩

theorem setGapBody_res (s : St) (a : Int) (b : Option Int) : (setGapBody s a b).2 ≠ .err .stateError := by
  unfold setGapBody
  repeat' split
  all_goals simp

/-- Every call and every environment event preserves the invariant. -/
theorem step_inv (s : St) (c : Call) (h : Inv s) : Inv (step s c).1 := by
  cases c with
  | tick =>
    simp only [step]
    split
    · exact inv_waitExit _ (inv_released s h)
    · exact inv_released s h
  | getState => simpa [step] using inv_getAppState s h
  | start =>
    simp only [step, guard_start]
    split
    · rename_i hp
      exact inv_startBody s h ((passes_created _).1 hp)
    · exact h
  | join t =>
    simp only [step, guard_join]
    split
    · rename_i hp
      have hs := (passes_rf _).1 hp
      split
      · rename_i hb; exact inv_joinBase s _ h hs hb
      · rename_i hb; exact inv_joinLocalT s t h hs hb
    · exact h
  | cancel =>
    simp only [step, guard_cancel]
    split
    · rename_i hp
      have hs := (passes_rf _).1 hp
      have hnt : s.state.terminal = false := by rcases hs with hs | hs <;> simp [hs, AppState.terminal]
      exact cancelBody_inv s (h.nonterm hnt) h.cwd
        (result_none_of_nonterminal s h (by rcases hs with hs | hs <;> simp [hs]))
    · exact h
  | method m =>
    simp only [step]
    split
    · split
      · exact inv_methodBody s m h
      · exact h
    · exact h
  | methodBad m =>
    simp only [step]
    repeat' split
    all_goals exact h
  | setGap a b =>
    simp only [step]
    split
    · split
      · exact inv_setGapBody s a b h
      · exact h
    · exact h
  | chdir => exact h

theorem run_inv (s : St) (cs : List Call) (h : Inv s) : Inv (run s cs) := by
  induction cs generalizing s with
  | nil => exact h
  | cons c cs ih => exact ih _ (step_inv s c h)


/-! ## Which calls are refused, and that a refusal changes nothing -/

theorem parseOutput_err (out : List (Nat × Nat)) (rg : Bool) (n : Nat) (e : Err)
    (h : parseOutput out rg n = .error e) : e = errEval := by
  unfold parseOutput at h
  simp only at h
  repeat' split at h
  all_goals simp_all

theorem evaluate_err (s : St) (e : Err) (h : evaluate s = .error e) : e = errSubprocess ∨ e = errEval := by
  unfold evaluate at h
  split at h
  · repeat' split at h
    all_goals simp_all
  · repeat' split at h
    all_goals simp_all
  · repeat' split at h
    all_goals simp_all
  · split at h
    · simp_all
    · split at h
      · rename_i e' he
        have := parseOutput_err _ _ _ _ he
        simp_all
      · split at h <;> simp_all

theorem joinTail_res (s : St) : (joinTail s).2 ≠ .err .stateError := by
  unfold joinTail
  cases he : evaluate s with
  | error e =>
    rcases evaluate_err s e he with h | h <;> simp [h, errSubprocess, errEval]
  | ok r => simp

theorem errLaunch_ne (t : Tool) : errLaunch t ≠ .stateError := by
  cases t <;> simp [errLaunch]

theorem startBody_res (s : St) : (startBody s).2 ≠ .err .stateError := by
  unfold startBody; split
  · simpa using errLaunch_ne s.tool
  · simp

theorem joinLocal_res (s : St) (t : Bool) : (joinLocal s t).2 ≠ .err .stateError := by
  unfold joinLocal
  repeat' split
  all_goals first | exact joinTail_res _ | simp [errTimeout]

theorem joinLocalT_res (s : St) (t : Timeout) : (joinLocalT s t).2 ≠ .err .stateError := by
  unfold joinLocalT
  split
  · simp [errOverflow]
  · split
    · simp [errTimeout]
    · exact joinLocal_res s _

theorem joinBase_res (s : St) (t : Bool) : (joinBase s t).2 ≠ .err .stateError := by
  unfold joinBase
  simp only
  repeat' split
  all_goals first | exact joinTail_res _ | simp [errTimeout]

theorem methodBody_res (s : St) (m : String) : (methodBody s m).2 ≠ .err .stateError := by
  unfold methodBody getterValue
  repeat' split
  all_goals simp

/-- The guard a call is checked against, according to the table. -/
def tableAllows (w : Wrapper) (c : Call) (st : AppState) : Bool :=
  match c.methodName with
  | none => true
  | some m =>
    match guardOf w m with
    | some g => passes g st
    | none => true

theorem step_refused_iff (s : St) (c : Call) :
    (step s c).2 = .err .stateError ↔ tableAllows s.w c s.state = false := by
  cases c with
  | tick => simp [step, tableAllows, Call.methodName]
  | getState => simp [step, tableAllows, Call.methodName, guard_state, passes]
  | start =>
    simp only [step, tableAllows, Call.methodName, guard_start]
    split <;> simp_all [startBody_res]
  | join t =>
    simp only [step, tableAllows, Call.methodName, guard_join]
    split
    · split <;> simp_all [joinBase_res, joinLocalT_res]
    · simp_all
  | cancel =>
    simp only [step, tableAllows, Call.methodName, guard_cancel]
    split <;> simp_all
  | method m =>
    simp only [step, tableAllows, Call.methodName]
    split
    · split <;> simp_all [methodBody_res]
    · simp_all
  | methodBad m =>
    simp only [step, tableAllows, Call.methodName]
    split
    · split <;> simp_all
    · simp_all
  | setGap a b =>
    simp only [step, tableAllows, Call.methodName]
    split
    · split <;> simp_all [setGapBody_res]
    · simp_all
  | chdir => simp [step, tableAllows, Call.methodName]

theorem step_refused_pure (s : St) (c : Call) (h : (step s c).2 = .err .stateError) : (step s c).1 = s := by
  cases c with
  | tick => simp [step] at h
  | getState => simp [step] at h
  | start =>
    simp only [step, guard_start] at h ⊢
    split at h
    · exact absurd h (startBody_res s)
    · rename_i hp; simp [hp]
  | join t =>
    simp only [step, guard_join] at h ⊢
    split at h
    · split at h
      · exact absurd h (joinBase_res s _)
      · exact absurd h (joinLocalT_res s t)
    · rename_i hp; simp [hp]
  | cancel =>
    simp only [step, guard_cancel] at h ⊢
    split at h
    · simp at h
    · rename_i hp; simp [hp]
  | method m =>
    simp only [step] at h ⊢
    split at h
    · split at h
      · exact absurd h (methodBody_res s m)
      · rename_i hp; simp [*]
    · simp at h
  | methodBad m =>
    simp only [step] at h ⊢
    repeat' split at h
    all_goals simp_all
  | setGap a b =>
    simp only [step] at h ⊢
    split at h
    · split at h
      · exact absurd h (setGapBody_res s a b)
      · rename_i hp; simp [*]
    · simp at h
  | chdir => simp [step] at h

/-! ## Every way a run ends leads to a terminal state -/

theorem joinTail_state (s : St) :
    ((joinTail s).2 = .ok "" → (joinTail s).1.state = .joined) ∧
    (∀ e, (joinTail s).2 = .err e → (joinTail s).1.state = .cancelled) := by
  unfold joinTail
  cases he : evaluate s with
  | error e => simpa using (cleanUp_cancelled { s with state := .cancelled } rfl).1
  | ok r =>
    have : (cleanUp { s with state := .joined, result := r }).state = .joined := by
      unfold cleanUp
      cases hw : s.w <;> simp [getAppState]
    simpa using this

theorem cancelBody_state (s : St) : (cancelBody s).state = .cancelled :=
  (cleanUp_cancelled { s with state := .cancelled } rfl).1

/-! ## Order restoration -/

theorem find_of_mem (out : List (Nat × Nat)) (h r : Nat) (hnd : (out.map Prod.fst).Nodup)
    (hm : (h, r) ∈ out) : find h out = some r := by
  induction out with
  | nil => simp at hm
  | cons x rest ih =>
    obtain ⟨k, r'⟩ := x
    simp only [List.map_cons, List.nodup_cons] at hnd
    simp only [find]
    by_cases hk : k = h
    · subst hk
      simp only [if_true]
      rcases List.mem_cons.1 hm with he | he
      · simp at he; simp [he]
      · exact absurd (List.mem_map.2 ⟨(k, r), he, rfl⟩) hnd.1
    · simp only [hk, if_false]
      rcases List.mem_cons.1 hm with he | he
      · simp at he; exact absurd he.1.symm hk
      · exact ih hnd.2 he

theorem findAll_spec (out : List (Nat × Nat)) (is : List Nat)
    (h : ∀ i ∈ is, ∃ r, find i out = some r) :
    ∃ rows, findAll out is = some rows ∧ rows.length = is.length ∧
      ∀ k (hk : k < is.length), rows[k]? = find is[k] out := by
  induction is with
  | nil => exact ⟨[], rfl, rfl, by simp⟩
  | cons i is ih =>
    obtain ⟨r, hr⟩ := h i (by simp)
    obtain ⟨rows, h1, h2, h3⟩ := ih (fun j hj => h j (by simp [hj]))
    refine ⟨r :: rows, by simp [findAll, hr, h1], by simp [h2], ?_⟩
    intro k hk
    cases k with
    | zero => simp [hr]
    | succ k => simpa using h3 k (by simpa using hk)


/-! ## Frame: the wrapper kind and the environment script never change -/

/-- The part of the state no call can change. -/
def env (s : St) : Wrapper × Tool × Nat := (s.w, s.tool, s.n)

theorem env_exitEffects (s : St) : env (exitEffects s) = env s := by
  unfold exitEffects; split <;> simp [env]

theorem env_waitExit (s : St) : env (waitExit s) = env s := by
  unfold waitExit; split
  · exact env_exitEffects s
  · rfl

theorem env_getAppState (s : St) : env (getAppState s).1 = env s := by
  unfold getAppState; repeat' split
  all_goals simp [env]

theorem env_cleanUp (s : St) : env (cleanUp s) = env s := by
  unfold cleanUp getAppState
  cases hw : s.w <;> simp [env] <;> (repeat' split) <;> simp_all

theorem env_joinTail (s : St) : env (joinTail s).1 = env s := by
  unfold joinTail
  cases evaluate s <;> simp only [env_cleanUp] <;> rfl

theorem env_cancelBody (s : St) : env (cancelBody s) = env s := by
  unfold cancelBody; rw [env_cleanUp]; rfl

theorem env_startBody (s : St) : env (startBody s).1 = env s := by
  unfold startBody
  split
  · simp only [env_cleanUp]; rfl
  · simp only
    have h := env_waitExit { s with cwdChanged := false, child := .alive }
    by_cases he : exited { s with cwdChanged := false, child := .alive } = true
    · simp only [he, if_true]
      simpa [env] using h
    · simp only [he]
      rfl

theorem env_joinLocal (s : St) (t : Bool) : env (joinLocal s t).1 = env s := by
  unfold joinLocal
  split
  · rw [env_joinTail]
    have := env_waitExit s
    simpa [env] using this
  · split
    · exact env_cancelBody s
    · split
      · rfl
      · rw [env_joinTail]
        have := env_waitExit { s with released := true }
        simpa [env] using this

theorem env_joinLocalT (s : St) (t : Timeout) : env (joinLocalT s t).1 = env s := by
  unfold joinLocalT
  split
  · rfl
  · split
    · exact env_cancelBody s
    · exact env_joinLocal s _

theorem env_joinBase (s : St) (t : Bool) : env (joinBase s t).1 = env s := by
  unfold joinBase
  simp only
  split
  · rw [env_joinTail, env_getAppState]
  · split
    · rw [env_cancelBody, env_getAppState]
    · split
      · rfl
      · rw [env_joinTail]
        have := env_getAppState s
        simpa [env] using this

theorem env_methodBody (s : St) (m : String) : env (methodBody s m).1 = env s := by
  obtain ⟨_, _, _, _, _, _, f7, f8, f9, _⟩ := methodBody_frame s m
  simp [env, f7, f8, f9]

theorem env_step (s : St) (c : Call) : env (step s c).1 = env s := by
  cases c with
  | tick =>
    simp only [step]
    split
    · rw [env_waitExit]; rfl
    · rfl
  | getState => simpa [step] using env_getAppState s
  | start =>
    simp only [step, guard_start]
    split
    · exact env_startBody s
    · rfl
  | join t =>
    simp only [step, guard_join]
    split
    · split
      · exact env_joinBase s _
      · exact env_joinLocalT s t
    · rfl
  | cancel =>
    simp only [step, guard_cancel]
    split
    · exact env_cancelBody s
    · rfl
  | method m =>
    simp only [step]
    split
    · split
      · exact env_methodBody s m
      · rfl
    · rfl
  | methodBad m =>
    simp only [step]
    repeat' split
    all_goals rfl
  | setGap a b =>
    simp only [step]
    split
    · split
      · rcases setGapBody_frame s a b with h' | ⟨g, h'⟩ <;> rw [h'] <;> rfl
      · rfl
    · rfl
  | chdir => rfl

/-- A call that is *rejected* — by the state guard or by the validation of its arguments (`ValueError`), or that fails for
lack of a result — leaves the wrapper exactly as it was: no option is half-updated. -/
theorem rejected_call_pure (s : St) (c : Call) (e : Err)
    (hc : (∃ m, c = .method m) ∨ (∃ m, c = .methodBad m) ∨ (∃ a b, c = .setGap a b))
    (h : (step s c).2 = .err e) : (step s c).1 = s := by
  rcases hc with ⟨m, rfl⟩ | ⟨m, rfl⟩ | ⟨a, b, rfl⟩
  · simp only [step] at h ⊢
    split at h
    · split at h
      · unfold methodBody at h ⊢
        split at h
        · simp at h
        · rename_i hset; simp [hset]; split <;> rfl
      · simp_all
    · simp at h
  · simp only [step] at h ⊢
    repeat' split
    all_goals rfl
  · simp only [step] at h ⊢
    split at h
    · split at h
      · unfold setGapBody at h ⊢
        repeat' split at h
        all_goals simp_all
      · simp_all
    · simp at h

theorem run_frame (s : St) (cs : List Call) : (run s cs).w = s.w ∧ (run s cs).tool = s.tool ∧ (run s cs).n = s.n := by
  have : env (run s cs) = env s := by
    induction cs generalizing s with
    | nil => rfl
    | cons c cs ih => simp only [run]; rw [ih, env_step]
  simpa [env] using this

/-! ## How runs end -/

theorem start_ends (s : St) :
    ∀ e, (step s .start).2 = .err e → e ≠ .stateError → (step s .start).1.state = .cancelled := by
  intro e he hne
  simp only [step, guard_start] at he ⊢
  split at he
  · rename_i hp
    simp only [hp, if_true]
    unfold startBody at he ⊢
    split at he
    · rename_i hm
      simp only [hm, if_true]
      exact (cleanUp_cancelled _ rfl).1
    · simp at he
  · simp at he; exact absurd he.symm hne

theorem joinLocal_ends (s : St) (t : Bool) :
    ((joinLocal s t).2 = .ok "" → (joinLocal s t).1.state = .joined) ∧
    (∀ e, (joinLocal s t).2 = .err e → (joinLocal s t).1.state = .cancelled) := by
  unfold joinLocal
  repeat' split
  all_goals first
    | exact joinTail_state _
    | (refine ⟨by simp, fun e _ => cancelBody_state _⟩)
    | (refine ⟨by simp, fun e he => by simp at he⟩)

theorem joinLocalT_ends (s : St) (t : Timeout) :
    ((joinLocalT s t).2 = .ok "" → (joinLocalT s t).1.state = .joined) ∧
    (∀ e, (joinLocalT s t).2 = .err e → e ≠ errOverflow → (joinLocalT s t).1.state = .cancelled) := by
  unfold joinLocalT
  split
  · exact ⟨by simp, fun e he hne => by simp at he; exact absurd he.symm hne⟩
  · split
    · exact ⟨by simp, fun e _ _ => cancelBody_state _⟩
    · exact ⟨(joinLocal_ends s _).1, fun e he _ => (joinLocal_ends s _).2 e he⟩

theorem joinBase_ends (s : St) (t : Bool) :
    ((joinBase s t).2 = .ok "" → (joinBase s t).1.state = .joined) ∧
    (∀ e, (joinBase s t).2 = .err e → (joinBase s t).1.state = .cancelled) := by
  unfold joinBase
  simp only
  repeat' split
  all_goals first
    | exact joinTail_state _
    | (refine ⟨by simp, fun e _ => cancelBody_state _⟩)
    | (refine ⟨by simp, fun e he => by simp at he⟩)

theorem join_ends (s : St) (t : Timeout) :
    ((step s (.join t)).2 = .ok "" → (step s (.join t)).1.state = .joined) ∧
    (∀ e, (step s (.join t)).2 = .err e → e ≠ .stateError → e ≠ errOverflow →
      (step s (.join t)).1.state = .cancelled) := by
  simp only [step, guard_join]
  split
  · split
    · exact ⟨(joinBase_ends s _).1, fun e he _ _ => (joinBase_ends s _).2 e he⟩
    · exact ⟨(joinLocalT_ends s t).1, fun e he _ ho => (joinLocalT_ends s t).2 e he ho⟩
  · refine ⟨by simp, fun e he hne _ => ?_⟩
    simp at he; exact absurd he.symm hne

theorem cancel_ends (s : St) : (step s .cancel).2 = .ok "" → (step s .cancel).1.state = .cancelled := by
  simp only [step, guard_cancel]
  split
  · intro _; exact cancelBody_state s
  · simp


/-- Without repeated headers `OrderedDict` keeps every record. -/
theorem uniq_of_nodup (l : List Nat) (h : l.Nodup) : uniq l = l := by
  induction l with
  | nil => rfl
  | cons x xs ih =>
    simp only [List.nodup_cons] at h
    simp only [uniq, ih h.2]
    congr 1
    apply List.filter_eq_self.2
    intro a ha
    have : a ≠ x := fun hax => h.1 (hax ▸ ha)
    simpa using this

end BiotiteModel.C20

import BiotiteModel.Model.C05Ext
import Mathlib.Tactic.Linarith
import Mathlib.Tactic.FieldSimp
import Mathlib.Data.Rat.Floor
import Mathlib.Tactic.Ring
import Mathlib.Tactic.Positivity
/-! Rounding / fixed-point / interval lemmas over ℚ (Mathlib: linarith, field_simp). -/
namespace BiotiteModel.C05

theorem roundHalfEven_err (y : Rat) :
    -(1/2 : Rat) ≤ (roundHalfEven y : Rat) - y ∧ (roundHalfEven y : Rat) - y ≤ 1/2 := by
  have h1 := Rat.floor_le y
  have h2 := Rat.lt_floor_add_one y
  simp only [Int.cast_add, Int.cast_one] at h2
  unfold roundHalfEven
  simp only
  split
  · rename_i h; constructor <;> linarith
  · split
    · rename_i h h'; simp only [Int.cast_add, Int.cast_one]; constructor <;> linarith
    · rename_i h h'
      have heq : y - (y.floor : Rat) = 1/2 := le_antisymm (not_lt.mp h') (not_lt.mp h)
      split
      · constructor <;> linarith
      · simp only [Int.cast_add, Int.cast_one]; constructor <;> linarith

theorem fixed_err (f x : Rat) (hf : 0 < f) :
    -(1/2 : Rat) ≤ (fixedDecode f (fixedRound f x) - x) * f ∧
    (fixedDecode f (fixedRound f x) - x) * f ≤ 1/2 := by
  have h := roundHalfEven_err (x * f)
  have e : (fixedDecode f (fixedRound f x) - x) * f = (roundHalfEven (x * f) : Rat) - x * f := by
    unfold fixedDecode fixedRound
    field_simp
  rw [e]; exact h

/-- If the scaled value stays strictly inside ±(2³¹−1) the rounded integer fits int32. -/
theorem fixedRound_inRange (f x : Rat) (h : fitsFixed f x = true) :
    DType.i32.inRange (fixedRound f x) := by
  simp only [fitsFixed, decide_eq_true_eq] at h
  obtain ⟨hlo, hhi⟩ := h
  have he := roundHalfEven_err (x * f)
  have h1 : ((fixedRound f x : Int) : Rat) < 2147483648 := by
    unfold fixedRound; linarith [he.2]
  have h2 : (-2147483648 : Rat) < ((fixedRound f x : Int) : Rat) := by
    unfold fixedRound; linarith [he.1]
  have h1' : fixedRound f x < 2147483648 := by exact_mod_cast h1
  have h2' : -2147483648 < fixedRound f x := by exact_mod_cast h2
  have e1 : DType.i32.lo = -2147483648 := by decide
  have e2 : DType.i32.hi = 2147483647 := by decide
  unfold DType.inRange
  rw [e1, e2]
  constructor <;> omega

theorem pow10_pos (d : Int) : 0 < pow10 d := by
  unfold pow10
  split
  · exact_mod_cast Nat.pow_pos (by decide : 0 < 10)
  · apply div_pos one_pos
    exact_mod_cast Nat.pow_pos (by decide : 0 < 10)

theorem absQ_nonneg (x : Rat) : 0 ≤ absQ x := by
  unfold absQ; split <;> linarith

theorem absQ_bounds (x : Rat) : -absQ x ≤ x ∧ x ≤ absQ x := by
  unfold absQ; split <;> constructor <;> linarith

theorem le_maxAbs (xs : List Rat) (x : Rat) (h : x ∈ xs) : absQ x ≤ maxAbs xs := by
  induction xs with
  | nil => cases h
  | cons a l ih =>
    simp only [maxAbs]
    rcases List.mem_cons.mp h with rfl | h'
    · split <;> linarith
    · have := ih h'
      split <;> linarith

/-- decode ∘ encode of fixed point with factor `10^d` is `np.round(x, d)`. -/
theorem fixedDecode_round (d : Int) (x : Rat) :
    fixedDecode (pow10 d) (fixedRound (pow10 d) x) = roundDec d x := rfl

theorem decimalsFrom_sound (fuel : Nat) (d0 : Int) (xs : List Rat) (tol : Rat) (d : Int)
    (h : decimalsFrom fuel d0 xs tol = some d) :
    d ≤ 18 ∧ maxAbs xs * pow10 d < 2147483647 ∧ ∀ x ∈ xs, absQ (roundDec d x - x) < tol * absQ x := by
  induction fuel generalizing d0 with
  | zero => simp [decimalsFrom] at h
  | succ fuel ih =>
    simp only [decimalsFrom] at h
    split at h
    · cases h
    · rename_i h18
      split at h
      · cases h
      · rename_i hfit
        split at h
        · rename_i hall
          injection h with h; subst h
          refine ⟨by omega, not_not.mp hfit, ?_⟩
          intro x hx
          have := List.all_eq_true.mp hall x hx
          simpa using this
        · exact ih _ h

theorem interval_err (mn mx x : Rat) (n : Nat) (hn : 2 ≤ n) (hlt : mn < mx) (hx1 : mn ≤ x) (hx2 : x ≤ mx) :
    0 ≤ intervalDecode mn mx n (intervalEncode mn mx n x) - x ∧
    intervalDecode mn mx n (intervalEncode mn mx n x) - x < (mx - mn) / ((n : Rat) - 1) := by
  have hn1 : (0 : Rat) < (n : Rat) - 1 := by
    have : (2 : Rat) ≤ (n : Rat) := by exact_mod_cast hn
    linarith
  have hstep : 0 < (mx - mn) / ((n : Rat) - 1) := div_pos (by linarith) hn1
  generalize hs : (mx - mn) / ((n : Rat) - 1) = step at hstep
  have hsn : step * ((n : Rat) - 1) = mx - mn := by rw [← hs]; field_simp
  have hz0 : 0 ≤ (x - mn) / step := div_nonneg (by linarith) hstep.le
  have hz1 : (x - mn) / step ≤ (((n : Int) - 1 : Int) : Rat) := by
    rw [div_le_iff₀ hstep]
    push_cast
    nlinarith
  have hzs : (x - mn) / step * step = x - mn := by field_simp
  have hc1 : ¬ ((x - mn) / step).ceil < 0 := by
    have : (-1 : Int) < ((x - mn) / step).ceil := by
      rw [Rat.lt_ceil_iff]; push_cast; linarith
    omega
  have hc2 : ¬ ((n : Int) < ((x - mn) / step).ceil) := by
    have : ((x - mn) / step).ceil ≤ (n : Int) - 1 := Rat.ceil_le_iff.mpr hz1
    omega
  have henc : intervalEncode mn mx n x = ((x - mn) / step).ceil := by
    unfold intervalEncode
    simp only [hs, hc1, hc2, if_false]
  have hdec : ∀ i : Int, intervalDecode mn mx n i = (i : Rat) * step + mn := by
    intro i; unfold intervalDecode; rw [← hs]; ring
  rw [henc, hdec]
  have hle := @Rat.le_ceil ((x - mn) / step)
  have hlt' := @Rat.ceil_lt ((x - mn) / step)
  constructor
  · nlinarith
  · nlinarith

end BiotiteModel.C05

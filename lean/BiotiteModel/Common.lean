/-!
Shared, import-free helpers for all models and line-protocol drivers.

* `Err`: the small error enum both sides of the correspondence print.
* parsing/printing of the line protocol (`1,2,3` integer lists, `-` for none, …).
-/
namespace BiotiteModel

/-- Errors the real code raises, canonicalised to the exception class name. -/
inductive Err where
  | indexError | valueError | typeError | alphabetError | keyError | overflowError
  | stateError | invalidFile | badStructure | notImplemented | other (name : String)
  deriving DecidableEq, Repr

def Err.toString : Err → String
  | .indexError => "IndexError"
  | .valueError => "ValueError"
  | .typeError => "TypeError"
  | .alphabetError => "AlphabetError"
  | .keyError => "KeyError"
  | .overflowError => "OverflowError"
  | .stateError => "AppStateError"
  | .invalidFile => "InvalidFileError"
  | .badStructure => "BadStructureError"
  | .notImplemented => "NotImplementedError"
  | .other n => n

instance : ToString Err := ⟨Err.toString⟩

deriving instance DecidableEq for Except

namespace Proto

def joinWith (sep : String) : List String → String
  | [] => ""
  | [x] => x
  | x :: xs => x ++ sep ++ joinWith sep xs

def showInts (xs : List Int) : String := joinWith "," (xs.map toString)
def showNats (xs : List Nat) : String := joinWith "," (xs.map toString)

/-- `"1,-2,3"` → `[1,-2,3]`; `""` and `"-"`... the empty list is written `_`. -/
def parseInts (s : String) : Option (List Int) :=
  if s == "_" || s == "" then some [] else
  (s.splitOn ",").mapM String.toInt?

def parseNats (s : String) : Option (List Nat) :=
  if s == "_" || s == "" then some [] else
  (s.splitOn ",").mapM String.toNat?

def showIntsE (xs : List Int) : String := if xs.isEmpty then "_" else showInts xs
def showNatsE (xs : List Nat) : String := if xs.isEmpty then "_" else showNats xs

def words (line : String) : List String :=
  (line.splitOn " ").filter (· ≠ "")

def showResult (r : Except Err String) : String :=
  match r with
  | .ok s => "ok " ++ s
  | .error e => "ERR:" ++ e.toString

/-- Remove one trailing line terminator (and nothing else: trailing blanks are data). -/
def stripNl (s : String) : String :=
  let cs := s.toList.reverse
  let cs := match cs with | '\n' :: r => r | r => r
  let cs := match cs with | '\r' :: r => r | r => r
  String.ofList cs.reverse

/-- Generic stdin loop: one output line per input line; a line `case` resets the state. -/
partial def loop {σ : Type} (init : σ) (step : σ → String → σ × String) : IO Unit := do
  let stdin ← IO.getStdin
  let stdout ← IO.getStdout
  let rec go (s : σ) : IO Unit := do
    let line ← stdin.getLine
    if line.isEmpty then return ()
    let l := stripNl line
    if l == "case" then
      stdout.putStrLn "case"
      go init
    else
      let (s', out) := step s l
      stdout.putStrLn out
      go s'
  go init

end Proto
end BiotiteModel

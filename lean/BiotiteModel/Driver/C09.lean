import BiotiteModel.Model.C09
import BiotiteModel.Gen.C09
/-!
Line-protocol driver for C09 (one output line per input line).

`<head>` = `<kind b|g|u> <mode s|l> <gap> <a> <b> <k2> <matrix> <band lo:hi|-> <seed i:j|-> <thr|-> <dir b|u|d> <max> <mts|->`
```
run <head>                     → ok <score> | ERR:<Exc>     score of the heuristic from the executable model
so  <head>                     → ok <score> | ERR:<Exc>     the score_only code path (gapped / ungapped)
abf <head>                     → ok <optAffAbutFree> <optAff .semi>   (affine semi-global cases; Python: independent recursion)
chk <head> <score> <traces>    → ok n=<n> sound=<k> abutfree=<c> distinct=<0|1>   `checkResult` on every returned trace; c = traces in class `affAbutFree`
```
gap `L:<g>` or `A:<open>:<ext>`; code lists with `_` = empty; matrix row-major with `k2` columns; a trace is
`i:j;i:j;…` (`_` = empty), traces separated by `/` (`-` = none).
-/
namespace BiotiteModel.Driver.C09
open BiotiteModel BiotiteModel.C08 BiotiteModel.C09 BiotiteModel.Proto

def parseGap (s : String) : Option Gap :=
  match s.splitOn ":" with
  | ["L", g] => g.toInt?.map Gap.lin
  | ["A", o, e] => match o.toInt?, e.toInt? with
    | some o, some e => some (.aff o e)
    | _, _ => none
  | _ => none

def chunk (k : Nat) : Nat → List Int → List (List Int)
  | 0, _ => []
  | fuel + 1, xs => if xs.isEmpty then [] else xs.take k :: chunk k fuel (xs.drop k)

def parsePair (s : String) : Option (Int × Int) :=
  match s.splitOn ":" with
  | [i, j] => match i.toInt?, j.toInt? with
    | some i, some j => some (i, j)
    | _, _ => none
  | _ => none

def parseTrace (s : String) : Option (List (Int × Int)) :=
  if s == "_" then some [] else (s.splitOn ";").mapM parsePair

def parseTraces (s : String) : Option (List (List (Int × Int))) :=
  if s == "-" then some [] else (s.splitOn "/").mapM parseTrace

def parseDir : String → Option XDir
  | "b" => some .both | "u" => some .upstream | "d" => some .downstream | _ => none

structure Head where
  kind : String
  mode : Mode
  gap : Gap
  a : Seq
  b : Seq
  M : Mat
  minScore : Int
  band : Option (Int × Int)
  seed : Option (Int × Int)
  thr : Int
  dir : XDir
  maxNumber : Int
  mts : Option Int

def parseHead : List String → Option Head
  | [kind, mode, gap, a, b, k2, mat, band, seed, thr, dir, mx, mts] => do
    let mode ← (match mode with | "s" => some Mode.semi | "l" => some Mode.local | _ => none)
    let gap ← parseGap gap
    let a ← parseNats a
    let b ← parseNats b
    let k ← k2.toNat?
    let flat ← parseInts mat
    let M := if k = 0 then Mat.ofRows [] else Mat.ofRows (chunk k flat.length flat)
    let minScore := match flat with
      | [] => 0
      | x :: r => r.foldl min x
    let band ← (if band == "-" then some none else (parsePair band).map some)
    let seed ← (if seed == "-" then some none else (parsePair seed).map some)
    let thr ← (if thr == "-" then some 0 else thr.toInt?)
    let dir ← parseDir dir
    let mx ← mx.toInt?
    let mts ← (if mts == "-" then some none else mts.toInt?.map some)
    some ⟨kind, mode, gap, a, b, M, minScore, band, seed, thr, dir, mx, mts⟩
  | _ => none

def showExc (r : Except Err Int) : String :=
  match r with
  | .ok v => s!"ok {v}"
  | .error e => "ERR:" ++ e.toString

def heurScore (scoreOnly : Bool) (h : Head) : String :=
  match h.kind, h.band, h.seed with
  | "b", some band, _ =>
    let r := bandedScore h.a h.b h.M h.minScore h.gap (h.mode == .local) band h.maxNumber
    -- full band + affine + semi-global (no sentinel underflow): the model's value must be `optAffAbutFree`
    -- (clause (a) of the full-band statement, checked on every such case; proved only on witnesses)
    let n : Int := h.a.length
    let m : Int := h.b.length
    let fullAff : Bool := match h.gap, r with
      | .aff go ge, .ok v =>
        h.mode == .semi && decide (0 < n) && decide (0 < m) && !(underflowRisk go ge h.minScore)
          && decide (min band.1 band.2 ≤ 1 - n) && decide (m - 1 ≤ max band.1 band.2)
          && (max 0 v != optAffAbutFreeT h.M go ge h.a h.b)
      | _, _ => false
    if fullAff then showExc r ++ " fullband-differs-from-optAffAbutFree" else showExc r
  | "g", _, some seed =>
    showExc (gappedScore scoreOnly h.a h.b h.M h.gap seed h.thr h.dir h.maxNumber h.mts
      Gen.C09.initSize Gen.C09.initOffset Gen.C09.growFactor)
  | "u", _, some seed => showExc (ungappedScore h.a h.b h.M seed h.thr h.dir)
  | _, _, _ => "bad-op"

def step (_ : Unit) (line : String) : Unit × String :=
  let out : String :=
    match words line with
    | "run" :: rest =>
      match parseHead rest with
      | some h => heurScore false h
      | none => "bad-op"
    | "so" :: rest =>
      match parseHead rest with
      | some h => heurScore true h
      | none => "bad-op"
    | "abf" :: rest =>
      -- the abutting-allowed affine semi-global optimum (specification recursion, read off its table)
      match parseHead rest with
      | some h => (match h.gap with
        | .aff go ge => s!"ok {optAffAbutFreeT h.M go ge h.a h.b} {optT .semi h.gap h.M h.a h.b}"
        | .lin _ => "bad-op")
      | none => "bad-op"
    | "chk" :: rest =>
      match parseHead (rest.take 13), rest.drop 13 with
      | some h, [sc, traces] =>
        match sc.toInt?, parseTraces traces with
        | some sc, some ts =>
          -- an error case never reaches the checker: echo the model's error
          -- (only when no trace is given: the real call raised and the line carries no output)
          let r := if ts.isEmpty then heurScore false h else ""
          if r.startsWith "ERR" then r else
          let seed : Option (Nat × Nat) := h.seed.map fun s => (s.1.toNat, s.2.toNat)
          let sound := ts.filter fun t => checkResult h.a h.b h.M h.gap h.mode h.band seed h.dir t sc
          -- which optimum class applies (affine semi-global results whose completion abuts a free terminal gap)
          let abut := ts.filter fun t => match traceToAln t with
            | some aln => validB .local h.a h.b aln && optClass h.a h.b h.gap h.mode aln == .affAbutFree
            | none => false
          -- seeded results: the returned alignments are pairwise distinct (banded results may repeat a trace: known finding)
          let distinct : Bool := h.kind == "b" || distinctNonEmpty ts
          s!"ok n={ts.length} sound={sound.length} abutfree={abut.length} distinct={if distinct then 1 else 0}"
        | _, _ => "bad-op"
      | _, _ => "bad-op"
    | _ => "bad-op"
  ((), out)

def main : IO Unit := loop () step

end BiotiteModel.Driver.C09

import BiotiteModel.Model.C03
import BiotiteModel.Model.C03Kmer
import BiotiteModel.Model.C03Codon
import BiotiteModel.Gen.C03
/-!
Line-protocol driver for C03.  Symbols travel as tokens: a letter is its decimal byte value,
a generic symbol an opaque token.  Alphabet spec: `L:65,67` (LetterAlphabet) / `G:a,b` (Alphabet).

```
enc A syms | enc1 A sym | dec A dtype codes | dec1 A code | newalph A | map A B codes | extends A B
s_new A syms | s_nuc bytes | s_prot bytes | s_str i | s_code i | s_get i idx | s_set i idx sym
s_slice i a b | s_setslice i a b syms | s_add i j | s_rev i | s_eq i j | s_copy i | s_pickle i | s_deepcopy i | s_compl i
s_setcode i dtype codes | s_setarr i a b dtype codes | s_valid i
k_fuse n k dtype codes | k_split n k code | k_kmers n k spacing dtype codes | k_enc A k syms | k_dec A k code
c_tbl aa starts | c_load id | c_loadname Name~with~blanks | c_default | c_tr complete met dna | c_get codon
c_derive_map TGA=W,AGA=* | c_derive_starts codons | c_show | c_show2 | c_tr2 complete met dna
```
-/
namespace BiotiteModel.Driver.C03
open BiotiteModel BiotiteModel.C03 BiotiteModel.Proto

structure State where
  regs : List (Seq String) := []
  table : Option CodonTable := none
  table2 : Option CodonTable := none      -- the table derived last (`c_derive_*`)

def toks (s : String) : List String := if s == "_" || s == "" then [] else s.splitOn ","
def showToks (xs : List String) : String := if xs.isEmpty then "_" else joinWith "," xs

/-- `(isLetter, symbols)` -/
def parseAlph (s : String) : Option (Bool × List String) :=
  if s.startsWith "L:" then some (true, toks (s.drop 2).toString)
  else if s.startsWith "G:" then some (false, toks (s.drop 2).toString)
  else if s.startsWith "R:" then
    -- `R:count:mod:a:b` — the integer symbols `i((a*j+b) mod mod)` for `j < count` (large generic alphabets)
    match ((s.drop 2).toString.splitOn ":").mapM String.toNat? with
    | some [count, md, a, b] => some (false, (List.range count).map fun j => "i" ++ toString ((a * j + b) % md))
    | _ => none
  else none

/-- `i64@s` (strided), `u8@r` (read-only), `i32@b` (byte-swapped), `i64@t` (tuple) … denote the same values. -/
def dtBase (s : String) : String := ((s.splitOn "@").head?).getD s

/-- An index token is `<int>` (Python int) or `<int>:<numpy dtype>`; all integer types index alike. -/
def parseIdx (s : String) : Option Int := ((s.splitOn ":").head?).bind String.toInt?

def nats? (xs : List String) : Option (List Nat) := xs.mapM String.toNat?
def showE (r : Except Err String) : String := showResult r
def errS (e : Err) : String := "ERR:" ++ e.toString
def optInt (s : String) : Option (Option Int) := if s == "-" then some none else s.toInt?.map some
def bytesToString (bs : List Nat) : String := if bs.isEmpty then "_" else String.ofList (bs.map Char.ofNat)
def stringToBytes (s : String) : List Nat := if s == "_" then [] else s.toList.map Char.toNat

def seqOfNat (s : Seq Nat) : Seq String := ⟨s.kind, s.alph.map toString, s.codes⟩

def nuc := Gen.C03.nucUnamb
def prot := Gen.C03.protAlph

def findTable (id : Nat) : Option Gen.C03.TableRows := Gen.C03.codonTables.find? (·.id == id)
def findTableByName (n : String) : Option Gen.C03.TableRows := Gen.C03.codonTables.find? (·.names.contains n)
def loadRows (r : Gen.C03.TableRows) : Except Err CodonTable :=
  -- the start marker and the rows come from the regenerated tables
  let init := r.init.map fun c => if c = Gen.C03.startMarker then 105 else 45
  codonTableOfRows nuc prot r.aa init r.base1 r.base2 r.base3

def showTable (t : CodonTable) : String :=
  let aa := t.codons.map fun a => match prot[a]? with | some b => Char.ofNat b | none => '?'
  String.ofList aa ++ " " ++ showNatsE t.starts

def showOrfs (os : List Orf) : String :=
  if os.isEmpty then "_" else
  joinWith ";" (os.map fun o =>
    String.ofList (o.prot.map fun a => match prot[a]? with | some b => Char.ofNat b | none => '?')
      ++ "@" ++ toString o.start ++ "-" ++ toString o.stop)

def pushSeq (st : State) (r : Except Err (Seq String)) (shw : Seq String → String) : State × String :=
  match r with
  | .ok s => ({ st with regs := st.regs ++ [s] }, "ok " ++ shw s)
  | .error e => (st, errS e)

def showSyms (s : Seq String) : String :=
  match s.symbols with
  | .ok xs => showToks xs
  | .error e => "!" ++ e.toString

def translateLine (tbl : Option CodonTable) (complete met dna : String) : String :=
  match tbl with
  | none => "ERR:notable"
  | some t =>
    match nucNew Gen.C03.nucUnamb Gen.C03.nucAmb (stringToBytes dna) with
    | .error e => errS e
    | .ok s =>
      if s.alph ≠ Gen.C03.nucUnamb then errS .alphabetError
      else if complete == "1" then
        showE ((translateComplete t s.codes).map fun p => bytesToString (p.filterMap (prot[·]?)))
      else
        match indexOf? prot Gen.C03.stopSymbol, indexOf? prot Gen.C03.metSymbol with
        | some stopC, some metC => showE ((translateOrfs t stopC metC (met == "1") s.codes).map showOrfs)
        | _, _ => errS .alphabetError

def step (st : State) (line : String) : State × String :=
  let pure (o : String) : State × String := (st, o)
  match words line with
  | "enc" :: a :: syms :: _ =>
    match parseAlph a with
    | some (true, al) =>
      match nats? al, nats? (toks syms) with
      | some al, some sy => pure (showE ((encodeChars al sy).map showNatsE))
      | some _, none => pure (errS .alphabetError)      -- an item that is not a single letter (`65.67`) is not a symbol
      | _, _ => pure "bad-op"
    | some (false, al) => pure (showE ((encode al (toks syms)).map showNatsE))
    | none => pure "bad-op"
  | ["enc1", a, sym] =>
    match parseAlph a with
    | some (_, al) => pure (showE ((encode1 al sym).map toString))
    | none => pure "bad-op"
  | ["dec", a, dt, codes] =>
    match parseAlph a, parseInts codes with
    | some (true, al), some cs =>
      match nats? al with
      | some al => pure (showE ((letterDecodeMultiple al (dtBase dt == "u8") cs).map fun xs => showNatsE xs))
      | none => pure "bad-op"
    | some (false, al), some cs => pure (showE ((decode al cs).map showToks))
    | _, _ => pure "bad-op"
  | ["dec1", a, code] =>
    match parseAlph a, parseIdx code with
    | some (_, al), some c => pure (showE (decode1 al c))
    | _, _ => pure "bad-op"
  | ["newalph", a] =>
    match parseAlph a with
    | some (true, al) =>
      match nats? al with
      | some al => pure (showE ((letterAlphabetNew al).map fun x => toString x.length))
      | none => pure "bad-op"
    | some (false, al) => pure (if al.isEmpty then errS .valueError else s!"ok {al.length}")
    | none => pure "bad-op"
  | "map" :: a :: b :: codes :: _ =>
    match parseAlph a, parseAlph b, parseNats codes with
    | some (_, src), some (_, tgt), some cs =>
      pure (showE (match mapperNew src tgt with
        | .error e => .error e
        | .ok m => (mapperApply m cs).map showNatsE))
    | _, _, _ => pure "bad-op"
  | ["extends", a, b] =>
    match parseAlph a, parseAlph b with
    | some (_, x), some (_, y) => pure s!"ok {extends_ x y}"
    | _, _ => pure "bad-op"
  -- sequences
  | "s_new" :: a :: syms :: _ =>
    match parseAlph a with
    | some (_, al) => pushSeq st (Seq.new 0 al (toks syms)) showSyms
    | none => pure "bad-op"
  | ["s_nuc", bs] =>
    match nats? (toks bs) with
    | some b => pushSeq st ((nucNew Gen.C03.nucUnamb Gen.C03.nucAmb b).map seqOfNat)
        (fun s => s!"{s.alph.length} {showSyms s}")
    | none => pure "bad-op"
  | ["s_prot", bs] =>
    match nats? (toks bs) with
    | some b => pushSeq st ((protNew prot b).map seqOfNat) showSyms
    | none => pure "bad-op"
  | "s_str" :: i :: [] =>
    match i.toNat?.bind (st.regs[·]?) with
    | some s => pure (showE (s.symbols.map showToks))
    | none => pure "ERR:noreg"
  | ["s_code", i] =>
    match i.toNat?.bind (st.regs[·]?) with
    | some s => pure ("ok " ++ showNatsE s.codes)
    | none => pure "ERR:noreg"
  | ["s_valid", i] =>
    match i.toNat?.bind (st.regs[·]?) with
    | some s => pure s!"ok {s.isValid}"
    | none => pure "ERR:noreg"
  | ["s_get", i, idx] =>
    match i.toNat?.bind (st.regs[·]?), parseIdx idx with
    | some s, some k => pure (showE (s.getItem k))
    | _, _ => pure "ERR:noreg"
  | ["s_set", i, idx, sym] =>
    match i.toNat?, parseIdx idx with
    | some r, some k =>
      match st.regs[r]? with
      | some s =>
        match s.setItem k sym with
        | .ok s' => ({ st with regs := st.regs.set r s' }, "ok " ++ showSyms s')
        | .error e => pure (errS e)
      | none => pure "ERR:noreg"
    | _, _ => pure "bad-op"
  | ["s_slice", i, a, b] =>
    match i.toNat?.bind (st.regs[·]?), optInt a, optInt b with
    | some s, some a, some b => pushSeq st (.ok (s.slice a b)) showSyms
    | _, _, _ => pure "ERR:noreg"
  | ["s_setslice", i, a, b, syms] =>
    match i.toNat?, optInt a, optInt b with
    | some r, some a, some b =>
      match st.regs[r]? with
      | some s =>
        match s.setSlice a b (toks syms) with
        | .ok s' => ({ st with regs := st.regs.set r s' }, "ok " ++ showSyms s')
        | .error e => pure (errS e)
      | none => pure "ERR:noreg"
    | _, _, _ => pure "bad-op"
  | ["s_add", i, j] =>
    match i.toNat?.bind (st.regs[·]?), j.toNat?.bind (st.regs[·]?) with
    | some a, some b => pushSeq st (a.add b) (fun s => s!"{s.kind} {s.alph.length} {showSyms s}")
    | _, _ => pure "ERR:noreg"
  | ["s_rev", i] =>
    match i.toNat?.bind (st.regs[·]?) with
    | some s => pushSeq st (.ok s.reverse) showSyms
    | none => pure "ERR:noreg"
  | ["s_pickle", i] =>      -- pickle / deepcopy: the identity on values (the alphabet is part of the value)
    match i.toNat?.bind (st.regs[·]?) with
    | some s => pushSeq st (.ok s) showSyms
    | none => pure "ERR:noreg"
  | ["s_deepcopy", i] =>
    match i.toNat?.bind (st.regs[·]?) with
    | some s => pushSeq st (.ok s) showSyms
    | none => pure "ERR:noreg"
  | ["s_copy", i] =>
    match i.toNat?.bind (st.regs[·]?) with
    | some s => pushSeq st (.ok s) showSyms
    | none => pure "ERR:noreg"
  | ["s_eq", i, j] =>
    match i.toNat?.bind (st.regs[·]?), j.toNat?.bind (st.regs[·]?) with
    | some a, some b => pure s!"ok {a.beq b}"
    | _, _ => pure "ERR:noreg"
  | ["s_compl", i] =>
    match i.toNat?.bind (st.regs[·]?) with
    | some s =>
      pushSeq st ((complementCodes Gen.C03.nucAmb Gen.C03.complDict s.codes).map fun cs => { s with codes := cs }) showSyms
    | none => pure "ERR:noreg"
  | ["s_setcode", i, dt, codes] =>
    match i.toNat?, parseInts codes with
    | some r, some cs =>
      match st.regs[r]? with
      | some s =>
        let same := dtBase dt == "u" ++ toString (dtypeBits s.alph.length)
        match s.setCode same cs with
        | .ok s' => ({ st with regs := st.regs.set r s' }, "ok " ++ showSyms s')
        | .error e => pure (errS e)
      | none => pure "ERR:noreg"
    | _, _ => pure "bad-op"
  | ["s_setarr", i, a, b, dt, codes] =>
    match i.toNat?, optInt a, optInt b, parseInts codes with
    | some r, some a, some b, some cs =>
      match st.regs[r]? with
      | some s =>
        let same := dtBase dt == "u" ++ toString (dtypeBits s.alph.length)
        match s.setSliceCodes same a b cs with
        | .ok s' => ({ st with regs := st.regs.set r s' }, "ok " ++ showSyms s')
        | .error e => pure (errS e)
      | none => pure "ERR:noreg"
    | _, _, _, _ => pure "bad-op"
  | "common" :: specs =>
    match specs.mapM parseAlph with
    | some als =>
      pure (match commonAlphabet (als.map (·.2)) none with
        | some (some a) => "ok " ++ showToks a
        | _ => "ok none")
    | none => pure "bad-op"
  | ["ainfo", a, sym] =>
    match parseAlph a with
    | some (isL, al) =>
      let letter := isL || al.all fun t => t.length == 2 && (t.startsWith "s" || t.startsWith "b")
      pure s!"ok {al.length} {al.contains sym} {letter} {showToks al}"
    | none => pure "bad-op"
  | ["s_info", i] =>
    match i.toNat?.bind (st.regs[·]?) with
    | some s =>
      pure (showE (s.symbols.map fun xs => s!"{s.codes.length} {showToks xs} {showNatsE s.frequency}"))
    | none => pure "ERR:noreg"
  | ["s_setsymbols", i, syms] =>
    match i.toNat? with
    | some r =>
      match st.regs[r]? with
      | some s =>
        match s.setSymbols (toks syms) with
        | .ok s' => ({ st with regs := st.regs.set r s' }, "ok " ++ showSyms s')
        | .error e => pure (errS e)
      | none => pure "ERR:noreg"
    | none => pure "bad-op"
  | ["s_nuc2", flag, bs] =>
    match nats? (toks bs) with
    | some b => pushSeq st ((nucNewFlag Gen.C03.nucUnamb Gen.C03.nucAmb (flag == "T") b).map seqOfNat)
        (fun s => s!"{s.alph.length} {showSyms s}")
    | none => pure "bad-op"
  | ["s_revv", i] =>
    match i.toNat?.bind (st.regs[·]?) with
    | some s => pushSeq st (.ok s.reverse) showSyms
    | none => pure "ERR:noreg"
  | ["s_setseq", i, a, b, j] =>      -- seq_i[a:b] = seq_j
    match i.toNat?, optInt a, optInt b, j.toNat? with
    | some ri, some a, some b, some rj =>
      match st.regs[ri]?, st.regs[rj]? with
      | some s, some item =>
        match s.setSliceSeq a b item with
        | .ok s' => ({ st with regs := st.regs.set ri s' }, "ok " ++ showSyms s')
        | .error e => pure (errS e)
      | _, _ => pure "ERR:noreg"
    | _, _, _, _ => pure "bad-op"
  | ["s_astype", i, j] =>
    match i.toNat?, j.toNat? with
    | some ri, some rj =>
      match st.regs[ri]?, st.regs[rj]? with
      | some a, some b =>
        match a.asType b with
        | .ok b' => ({ st with regs := st.regs.set rj b' }, "ok " ++ showSyms b')
        | .error e => pure (errS e)
      | _, _ => pure "ERR:noreg"
    | _, _ => pure "bad-op"
  | ["s_prot3", items] =>
    let d3 : List (List Nat × Nat) :=
      (Gen.C03.dict1to3.map fun e => (e.2.toList.map Char.toNat, e.1)) ++
      (Gen.C03.dict3to1Extra.map fun e => (e.1.toList.map Char.toNat, e.2))
    let parse (t : String) : Option (List Nat) := if t == "." then some [] else (t.splitOn ".").mapM String.toNat?
    match (toks items).mapM parse with
    | some ts => pushSeq st ((protNew3 prot d3 ts).map seqOfNat) showSyms
    | none => pure "bad-op"
  | ["s_rmstops", i] =>
    match i.toNat?.bind (st.regs[·]?), indexOf? prot Gen.C03.stopSymbol with
    | some s, some stopC => pushSeq st (.ok { s with codes := s.codes.filter (· != stopC) }) showSyms
    | _, _ => pure "ERR:noreg"
  | ["s_pos", i] =>
    match i.toNat?.bind (st.regs[·]?) with
    | some s =>
      -- `Alphabet([])` of an empty sequence is refused by the constructor (ValueError)
      pure (if s.codes.isEmpty then errS .valueError
            else showE (s.symbols.map fun xs => s!"{s.codes.length} {showToks xs}"))
    | none => pure "ERR:noreg"
  | ["k_info", n, k, sp, len] =>
    let sp? : Option SpacingArg :=
      if sp == "-" then some .none
      else if sp.startsWith "m" then some (.str (sp.drop 1).toString.toList)
      else (parseInts sp).map .ints
    match n.toNat?, k.toNat?, sp?, len.toInt? with
    | some n, some k, some sp, some len =>
      pure (showE (match kmerNew k sp with
        | .error e => .error e
        | .ok spacing =>
          let arrLen : Int := match spacing with
            | none => len - k + 1
            | some offs => len - ((offs.getLast?.getD 0 : Nat) : Int)
          .ok s!"{n ^ k} {k} {match spacing with | none => "-" | some o => showNatsE o} {arrLen}"))
    | _, _, _, _ => pure "bad-op"
  | ["k_fuse2", n, k, _dt, rows] =>
    match n.toNat?, k.toNat?, (rows.splitOn ";").mapM (fun r => ((r.splitOn ".").mapM String.toInt?)) with
    | some n, some k, some rs =>
      pure (showE (match kmerNew k .none with
        | .error e => .error e
        | .ok _ => (mapE (fuse n k) rs).map showIntsE))
    | _, _, _ => pure "bad-op"
  | ["k_splitv", n, k, codes] =>
    match n.toNat?, k.toNat?, parseInts codes with
    | some n, some k, some cs =>
      pure (showE (match kmerNew k .none with
        | .error e => .error e
        | .ok _ => (mapE (split n k) cs).map fun rows => joinWith ";" (rows.map fun r => joinWith "." (r.map toString))))
    | _, _, _ => pure "bad-op"
  -- k-mers
  | ["k_fuse", n, k, _dt, codes] =>
    match n.toNat?, k.toNat?, parseInts codes with
    | some n, some k, some cs =>
      pure (showE (match kmerNew k .none with
        | .error e => .error e
        | .ok _ => (fuse n k cs).map toString))
    | _, _, _ => pure "bad-op"
  | ["k_split", n, k, code] =>
    match n.toNat?, k.toNat?, parseIdx code with
    | some n, some k, some c =>
      pure (showE (match kmerNew k .none with
        | .error e => .error e
        | .ok _ => (split n k c).map showNatsE))
    | _, _, _ => pure "bad-op"
  | ["k_kmers", n, k, sp, _dt, codes] =>
    let sp? : Option SpacingArg :=
      if sp == "-" then some .none
      else if sp.startsWith "m" then some (.str (sp.drop 1).toString.toList)
      else (parseInts sp).map .ints
    match n.toNat?, k.toNat?, sp?, parseNats codes with
    | some n, some k, some sp, some cs =>
      pure (showE (match kmerNew k sp with
        | .error e => .error e
        | .ok spacing => (createKmers n k spacing cs).map showIntsE))
    | _, _, _, _ => pure "bad-op"
  | ["k_enc", a, k, syms] =>
    match parseAlph a, k.toNat? with
    | some (_, al), some k =>
      pure (showE (match kmerNew k .none with
        | .error e => .error e
        | .ok _ =>
          match encode al (toks syms) with
          | .error e => .error e
          | .ok cs => (fuse al.length k (cs.map Int.ofNat)).map toString))
    | _, _ => pure "bad-op"
  | ["k_dec", a, k, code] =>
    match parseAlph a, k.toNat?, code.toInt? with
    | some (_, al), some k, some c =>
      pure (showE (match kmerNew k .none with
        | .error e => .error e
        | .ok _ =>
          match split al.length k c with
          | .error e => .error e
          | .ok ds => (decode al (ds.map Int.ofNat)).map showToks))
    | _, _, _ => pure "bad-op"
  -- codon tables
  | ["c_tbl", aa, starts] =>
    let aab := stringToBytes aa
    let dict := (List.range aab.length).filterMap fun i =>
      (aab[i]?).map fun a => ((numberToCodon i).filterMap (nuc[·]?), a)
    match codonTableNew nuc prot dict ((toks starts).map stringToBytes) with
    | .ok t => ({ st with table := some t }, "ok " ++ showTable t)
    | .error e => pure (errS e)
  | ["c_load", id] =>
    match id.toNat?.bind findTable with
    | some r =>
      match loadRows r with
      | .ok t => ({ st with table := some t }, "ok " ++ showTable t)
      | .error e => pure (errS e)
    | none => pure (errS .valueError)
  | ["c_loadname", nm] =>      -- `~` stands for a blank
    match findTableByName (nm.replace "~" " ") with
    | some r =>
      match loadRows r with
      | .ok t => ({ st with table := some t }, "ok " ++ showTable t)
      | .error e => pure (errS e)
    | none => pure (errS .valueError)
  | ["c_default"] =>
    match findTableByName Gen.C03.defaultTableName with
    | some r =>
      match (loadRows r).bind (fun t => t.withStarts nuc Gen.C03.defaultStarts) with
      | .ok t => ({ st with table := some t }, "ok " ++ showTable t)
      | .error e => pure (errS e)
    | none => pure (errS .valueError)
  | ["c_tr", complete, met, dna] => pure (translateLine st.table complete met dna)
  | ["c_tr2", complete, met, dna] => pure (translateLine st.table2 complete met dna)
  | ["c_show"] => pure (match st.table with | some t => "ok " ++ showTable t | none => "ERR:notable")
  | ["c_show2"] => pure (match st.table2 with | some t => "ok " ++ showTable t | none => "ERR:notable")
  | ["c_derive_map", items] =>
    match st.table with
    | none => pure "ERR:notable"
    | some t =>
      let dict : List (List Nat × Nat) := (toks items).map fun it =>
        match it.splitOn "=" with
        | [k, v] => (stringToBytes k, match v.toList with | [c] => c.toNat | _ => 0)
        | _ => ([], 0)
      match t.withMappings nuc prot dict with
      | .ok t' => ({ st with table2 := some t' }, "ok " ++ showTable t')
      | .error e => ({ st with table2 := none }, errS e)
  | ["c_derive_starts", starts] =>
    match st.table with
    | none => pure "ERR:notable"
    | some t =>
      match t.withStarts nuc ((toks starts).map stringToBytes) with
      | .ok t' => ({ st with table2 := some t' }, "ok " ++ showTable t')
      | .error e => ({ st with table2 := none }, errS e)
  | ["c_tr0", complete, met, dna] =>      -- `translate()` without a `codon_table` argument: the default table
    let dflt := (findTableByName Gen.C03.defaultTableName).bind fun r =>
      match (loadRows r).bind (fun t => t.withStarts nuc Gen.C03.defaultStarts) with
      | .ok t => some t
      | .error _ => none
    pure (translateLine dflt complete met dna)
  | ["c_trreg", i, complete, met] =>      -- translate the nucleotide sequence in register `i` (it may hold invalid codes)
    match st.table, i.toNat?.bind (st.regs[·]?) with
    | some t, some s =>
      if s.alph ≠ Gen.C03.nucUnamb.map toString then pure (errS .alphabetError)
      else if complete == "1" then
        pure (showE ((translateComplete t s.codes).map fun p => bytesToString (p.filterMap (prot[·]?))))
      else
        match indexOf? prot Gen.C03.stopSymbol, indexOf? prot Gen.C03.metSymbol with
        | some stopC, some metC => pure (showE ((translateOrfs t stopC metC (met == "1") s.codes).map showOrfs))
        | _, _ => pure (errS .alphabetError)
    | none, _ => pure "ERR:notable"
    | _, none => pure "ERR:noreg"
  | ["c_codes", form, rows] =>      -- codon codes given directly (tuple / map_codon_codes / is_start_codon), also negative ones
    match st.table, (rows.splitOn ";").mapM (fun r => (r.splitOn ".").mapM String.toInt?) with
    | some t, some rs =>
      let look (r : List Int) : Except Err Nat :=
        if r.any (· < 0) then .error .alphabetError else lookupCodon t (r.map Int.toNat)
      let start (r : List Int) : Except Err Nat :=
        if r.any (fun d => d < 0 || d ≥ 4) then .error .alphabetError else .ok (if isStart t (r.map Int.toNat) then 1 else 0)
      pure (showE ((mapE (if form == "start" then start else look) rs).map showNatsE))
    | none, _ => pure "ERR:notable"
    | _, none => pure "bad-op"
  | ["c_dict"] => pure (match st.table with | some t => "ok " ++ showTable t | none => "ERR:notable")
  | ["c_eq2"] =>
    pure (match st.table, st.table2 with
      | some t, some t2 => s!"ok {decide (t.codons = t2.codons ∧ t.starts = t2.starts)}"
      | _, _ => "ERR:notable")
  | ["c_names"] =>
    pure ("ok " ++ joinWith ";" ((Gen.C03.codonTables.flatMap (·.names)).map fun n => n.replace " " "~"))
  | ["c_codons", aa] =>
    match st.table with
    | none => pure "ERR:notable"
    | some t =>
      pure (showE (match aa.toList with
        | [ch] =>
          (encode1 prot ch.toNat).map fun a =>
            let ms := (List.range t.codons.length).filter fun m => t.codons[m]? == some a
            showToks (ms.map fun m => String.ofList (((numberToCodon m).filterMap (nuc[·]?)).map Char.ofNat))
        | _ => .error .valueError))
  | ["c_get", codon] =>
    match st.table with
    | none => pure "ERR:notable"
    | some t =>
      pure (showE (match encodeChars nuc (stringToBytes codon) with
        | .error e => .error e
        | .ok cc => (lookupCodon t cc).map fun a => bytesToString ((prot[a]?).toList)))
  | _ => pure "bad-op"

def main : IO Unit := loop ({} : State) step

end BiotiteModel.Driver.C03

import BiotiteModel.Model.C05
/-! Line-protocol driver for C05: one output line per input line. -/
namespace BiotiteModel.Driver.C05
open BiotiteModel BiotiteModel.C05 BiotiteModel.Proto

def showE (r : Except Err (List Int)) : String :=
  match r with
  | .ok xs => "ok " ++ showIntsE xs
  | .error e => "ERR:" ++ e.toString

def optNat (s : String) : Option (Option Nat) :=
  if s == "-" then some none else s.toNat?.map some

def step (_ : Unit) (line : String) : Unit × String :=
  let out : String :=
    match words line with
    | ["rle_enc", t, n, xs] =>
      match DType.ofString? t, optNat n, parseInts xs with
      | some t, some n, some xs => showE (rleEncode t n xs)
      | _, _, _ => "bad-op"
    | ["rle_dec", t, n, xs] =>
      match DType.ofString? t, optNat n, parseInts xs with
      | some t, some n, some xs =>
        match rleDecode t n xs with
        | some r => showE r
        | none => "unmodelled"
      | _, _, _ => "bad-op"
    | ["delta_enc", t, xs] =>
      match DType.ofString? t, parseInts xs with
      | some t, some xs =>
        match deltaEncode t xs with
        | .ok (o, ds) => s!"ok {o} {showIntsE ds}"
        | .error e => "ERR:" ++ e.toString
      | _, _ => "bad-op"
    | ["delta_dec", t, o, xs] =>
      match DType.ofString? t, o.toInt?, parseInts xs with
      | some t, some o, some xs => "ok " ++ showIntsE (deltaDecode t o xs)
      | _, _, _ => "bad-op"
    | ["pack_enc", bc, u, xs] =>
      let u? : Option (Option Bool) := match u with
        | "u" => some (some true) | "s" => some (some false) | "a" => some none | _ => none
      match bc.toNat?, u?, parseInts xs with
      | some bc, some u, some xs =>
        match packEncode bc u xs with
        | some r => showE r
        | none => "unmodelled"
      | _, _, _ => "bad-op"
    | ["pack_dec", pt, n, xs] =>
      match DType.ofString? pt, n.toNat?, parseInts xs with
      | some pt, some n, some xs => showE (packDecode pt n xs)
      | _, _, _ => "bad-op"
    | ["safe_cast", a, b, xs] =>
      match DType.ofString? a, DType.ofString? b, parseInts xs with
      | some a, some b, some xs => showE (safeCast a b xs)
      | _, _, _ => "bad-op"
    | _ => "bad-op"
  ((), out)

def main : IO Unit := loop () step

end BiotiteModel.Driver.C05

import BiotiteModel.Model.C05Ext
import BiotiteModel.Model.C05Ser
import BiotiteModel.Model.C05Cont
/-! Line-protocol driver for C05: one output line per input line. -/
namespace BiotiteModel.Driver.C05
open BiotiteModel BiotiteModel.C05 BiotiteModel.Proto

def showE (r : Except Err (List Int)) : String :=
  match r with
  | .ok xs => "ok " ++ showIntsE xs
  | .error e => "ERR:" ++ e.toString

def optNat (s : String) : Option (Option Nat) :=
  if s == "-" then some none else s.toNat?.map some

def parseRat (s : String) : Option Rat :=
  match s.splitOn "/" with
  | [a] => a.toInt?.map fun n => (n : Rat)
  | [a, b] => match a.toInt?, b.toNat? with
    | some n, some d => if d = 0 then none else some ((n : Rat) / (d : Rat))
    | _, _ => none
  | _ => none

def parseRats (s : String) : Option (List Rat) :=
  if s == "_" then some [] else (s.splitOn ",").mapM parseRat

def showRat (q : Rat) : String := if q.den = 1 then toString q.num else s!"{q.num}/{q.den}"

/-- strings are sent hex-encoded per UTF-8 byte-free scheme: code points joined by `.`, items by `,`; `~` = empty string -/
def parseStr (s : String) : Option String :=
  if s == "~" then some "" else
  ((s.splitOn ".").mapM String.toNat?).map fun cs => String.ofList (cs.map Char.ofNat)

def parseStrs (s : String) : Option (List String) :=
  if s == "_" then some [] else (s.splitOn ",").mapM parseStr

def showStr (s : String) : String :=
  if s.isEmpty then "~" else joinWith "." (s.toList.map fun c => toString c.toNat)

def showStrs (ss : List String) : String := if ss.isEmpty then "_" else joinWith "," (ss.map showStr)

def parseChain (s : String) : Option Chain :=
  match s.toList with
  | [d, r, p] =>
    let pk : Option (Option Nat) := match p with
      | '0' => some none | '1' => some (some 1) | '2' => some (some 2) | _ => none
    pk.map fun pk => ⟨d == 'd', r == 'r', pk⟩
  | _ => none

def step (_ : Unit) (line : String) : Unit × String :=
  let out : String :=
    match words line with
    | ["rle_enc", t, n, xs] =>
      match DType.ofString? t, optNat n, parseInts xs with
      | some t, some n, some xs => showE (rleEncode t n xs)
      | _, _, _ => "bad-op"
    | ["rle_dec", t, n, xs] =>
      match DType.ofString? t, optNat n, parseInts xs with
      | some t, some n, some xs =>
        match rleDecode t n xs with
        | some r => showE r
        | none => "unmodelled"
      | _, _, _ => "bad-op"
    | ["delta_enc", t, xs] =>
      match DType.ofString? t, parseInts xs with
      | some t, some xs =>
        match deltaEncode t xs with
        | .ok (o, ds) => s!"ok {o} {showIntsE ds}"
        | .error e => "ERR:" ++ e.toString
      | _, _ => "bad-op"
    | ["delta_enc_o", t, o, xs] =>
      match DType.ofString? t, o.toInt?, parseInts xs with
      | some t, some o, some xs => "ok " ++ showIntsE (deltaEncodeWith t o xs)
      | _, _, _ => "bad-op"
    | ["delta_dec", t, o, xs] =>
      match DType.ofString? t, o.toInt?, parseInts xs with
      | some t, some o, some xs => "ok " ++ showIntsE (deltaDecode t o xs)
      | _, _, _ => "bad-op"
    | ["pack_enc", bc, u, xs] =>
      let u? : Option (Option Bool) := match u with
        | "u" => some (some true) | "s" => some (some false) | "a" => some none | _ => none
      match bc.toNat?, u?, parseInts xs with
      | some bc, some u, some xs =>
        match packEncode bc u xs with
        | some r => showE r
        | none => "unmodelled"
      | _, _, _ => "bad-op"
    | ["pack_enc_w", bc, u, _t, xs] =>
      match bc.toNat?, parseInts xs with
      | some bc, some xs =>
        let u := if u == "u" then some true else if u == "s" then some false else none
        showE (packEncodeWide bc u xs)
      | _, _ => "bad-op"
    | ["pack_dec", pt, n, xs] =>
      match DType.ofString? pt, n.toNat?, parseInts xs with
      | some pt, some n, some xs => showE (packDecode pt n xs)
      | _, _, _ => "bad-op"
    | ["safe_cast", a, b, xs] =>
      match DType.ofString? a, DType.ofString? b, parseInts xs with
      | some a, some b, some xs => showE (safeCast a b xs)
      | _, _, _ => "bad-op"
    | ["fixed_enc", f, xs] =>
      match parseRat f, parseRats xs with
      | some f, some xs =>
        match xs.mapM (fixedEncode f) with
        | some ks => "ok " ++ showIntsE ks
        | none => "unmodelled"
      | _, _ => "bad-op"
    | ["fixed_dec", f, ks] =>
      match parseRat f, parseInts ks with
      | some f, some ks => "ok " ++ (if ks.isEmpty then "_" else joinWith "," (ks.map fun k => showRat (fixedDecode f k)))
      | _, _ => "bad-op"
    | ["interval_enc", mn, mx, n, xs] =>
      match parseRat mn, parseRat mx, n.toNat?, parseRats xs with
      | some mn, some mx, some n, some xs => "ok " ++ showIntsE (xs.map (intervalEncode mn mx n))
      | _, _, _, _ => "bad-op"
    | ["string_enc", ss] =>
      match parseStrs ss with
      | some ss => let (tbl, idx) := stringEncode ss
                   s!"ok {showStrs tbl} {showNatsE idx} {showNatsE (stringOffsets tbl 0)}"
      | none => "bad-op"
    | ["string_enc_tbl", tbl, ss] =>
      match parseStrs tbl, parseStrs ss with
      | some tbl, some ss =>
        match stringEncodeWith tbl ss with
        | .ok idx => "ok " ++ showNatsE idx
        | .error e => "ERR:" ++ e.toString
      | _, _ => "bad-op"
    | ["camel", n] =>
      match parseStr n with
      | some n => match snakeToCamel n.toList with
        | some r => "ok " ++ showStr (String.ofList r)
        | none => "ERR:IndexError"
      | none => "bad-op"
    | ["snake", n] =>
      match parseStr n with
      | some n => "ok " ++ showStr (String.ofList (camelToSnake n.toList))
      | none => "bad-op"
    | ["string_dec", tbl, idx] =>
      match parseStrs tbl, parseNats idx with
      | some tbl, some idx =>
        match stringDecode tbl idx with
        | .ok ss => "ok " ++ showStrs ss
        | .error e => "ERR:" ++ e.toString
      | _, _ => "bad-op"
    | ["bytes_enc", t, xs] =>
      match DType.ofString? t, parseInts xs with
      | some t, some xs => "ok " ++ showNatsE (bytesEncode t xs)
      | _, _ => "bad-op"
    | ["bytes_dec", t, bs] =>
      match DType.ofString? t, parseNats bs with
      | some t, some bs => showE (bytesDecode t bs)
      | _, _ => "bad-op"
    | ["decimals", d0, tol, xs] =>
      match d0.toInt?, parseRat tol, parseRats xs with
      | some d0, some tol, some xs =>
        match decimalsFrom 400 d0 xs tol with
        | some d => s!"ok {d}"
        | none => "ok None"
      | _, _, _ => "bad-op"
    | ["smallest", xs] =>
      match parseInts xs with
      | some xs => match toSmallest xs with
        | some (n, _, _) => "ok " ++ n
        | none => "ERR:ValueError"
      | none => "bad-op"
    | ["chain", c, t, xs] =>
      match parseChain c, DType.ofString? t, parseInts xs with
      | some c, some t, some xs =>
        match chainEncode c t xs with
        | some e =>
          let dec := match chainDecode c e with
            | some ys => showIntsE ys
            | none => "FAIL"
          s!"ok {showIntsE e.stream} -> {dec}"
        | none => "rejected"
      | _, _, _ => "bad-op"
    | _ => "bad-op"
  ((), out)

/-! ### lazily deserialising containers: elements are integers, a serialised element is `some v` or unreadable (`none`) -/

abbrev CSt := String × Cont (Option Int) Int      -- (level, state)

def intCodec : Codec (Option Int) Int := ⟨some, id⟩

def parseItem (s : String) : Option (String × Option Int) :=
  match s.splitOn ":" with
  | [k, v] => match parseStr k with
    | some k => if v == "bad" then some (k, none) else v.toInt?.map fun v => (k, some v)
    | none => none
  | _ => none

def parseItems (s : String) : Option (List (String × Option Int)) :=
  if s == "_" then some [] else (s.splitOn ",").mapM parseItem

def showItems (xs : List (String × Option Int)) : String :=
  if xs.isEmpty then "_" else joinWith "," (xs.map fun p => showStr p.1 ++ ":" ++ (match p.2 with | some v => toString v | none => "bad"))

def showGetErr : GetErr → String
  | .keyError => "ERR:KeyError"
  | .deserializationError => "ERR:DeserializationError"

/-- key as stored: `BinaryCIFBlock` prefixes `_`; the others store it as given -/
def keyIn (level k : String) : String := if level == "block" then blockKeyIn k else k
def keyOut (level k : String) : String := if level == "block" then removePrefixUnderscore k else k

/-- `BinaryCIFCategory.serialize` walks `self.items()` first (row count): every element is accessed, in order, and the
first unreadable one aborts with `DeserializationError`; blocks and files serialise without touching their elements. -/
def forceAll : List String → Cont (Option Int) Int → Option GetErr × Cont (Option Int) Int
  | [], m => (none, m)
  | k :: r, m => match m.get intCodec k with
    | (.error e, m') => (some e, m')
    | (.ok _, m') => forceAll r m'

def contSerialize (lv : String) (m : Cont (Option Int) Int) : Option String × Cont (Option Int) Int :=
  if lv == "category" then
    if m.isEmpty then (some "ERR:SerializationError", m)      -- "At least one column is required"
    else match forceAll m.keys m with
      | (some e, m') => (some (showGetErr e), m')
      | (none, m') => (none, m')
  else (none, m)

def contStep (st : Option CSt) (ws : List String) : Option CSt × String :=
  match ws, st with
  | ["cont_init", level, items], _ =>
    match parseItems items with
    -- `content` holds the names as they are in the file; for a block these are the `_`-prefixed category names
    | some items => (some (level, if level == "block" then Cont.ofBlockContent items else Cont.ofContent items), "ok")
    | none => (st, "bad-op")
  | ["cont_get", k], some (lv, m) =>
    match parseStr k with
    | some k =>
      let (r, m') := m.get intCodec (keyIn lv k)
      (some (lv, m'), match r with | .ok v => s!"ok {v}" | .error e => showGetErr e)
    | none => (st, "bad-op")
  | ["cont_set", k, v], some (lv, m) =>
    match parseStr k, v.toInt? with
    | some k, some v => (some (lv, m.set (keyIn lv k) v), "ok")
    | _, _ => (st, "bad-op")
  | ["cont_del", k], some (lv, m) =>
    match parseStr k with
    | some k =>
      let (r, m') := m.del (keyIn lv k)
      (some (lv, m'), match r with | .ok _ => "ok" | .error e => showGetErr e)
    | none => (st, "bad-op")
  | ["cont_has", k], some (lv, m) =>
    match parseStr k with
    | some k => (st, s!"ok {(Dict.find m (keyIn lv k)).isSome}")
    | none => (st, "bad-op")
  | ["cont_keys"], some (lv, m) => (st, "ok " ++ showStrs (m.keys.map (keyOut lv)))
  | ["cont_ser"], some (lv, m) =>
    match contSerialize lv m with
    | (some e, m') => (some (lv, m'), e)
    | (none, m') => (some (lv, m'), "ok " ++ showItems (m'.serialize intCodec))
  | ["cont_reread"], some (lv, m) =>
    match contSerialize lv m with
    | (some e, m') => (some (lv, m'), e)
    | (none, m') =>
      let content := m'.serialize intCodec
      (some (lv, if lv == "block" then Cont.ofBlockContent content else Cont.ofContent content), "ok")
  | _, _ => (st, "bad-op")

def stepAll (st : Option CSt) (line : String) : Option CSt × String :=
  match words line with
  | w :: ws => if w.startsWith "cont_" then contStep st (w :: ws) else (st, (step () line).2)
  | [] => (st, "bad-op")

def main : IO Unit := loop none stepAll

end BiotiteModel.Driver.C05

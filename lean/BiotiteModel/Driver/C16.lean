import BiotiteModel.Model.C16
/-! Line-protocol driver for C16: one output line per input line.  Numbers are exact rationals
written `p` or `p/q`; arrays are flat, comma separated, `_` when empty.

* `apply k C m R l T dim mx n X`      → `ok Y`                (`AffineTransformation.apply`)
* `matrix k C m R l T`                → `ok M`  (m·16 numbers) (`AffineTransformation.as_matrix`)
* `rot mf mm n F M np VW`             → `ok cov=… R=…`         (`_get_rotation_matrices`, svd stubbed)
* `sup mask dimF mf dimM mm n F M np VW` → `ok fit=… c=… R=… t=…` (`superimpose`, svd stubbed)
* `woo dimF mf dimM mm n F M minA maxIter qlo qhi thr` → `ok anchors` (`superimpose_without_outliers`,
  inner `superimpose` stubbed by the identity fit)
* `hom dimF mf nF dimM mm nM Fx Mx FI MI A minA maxIter qlo qhi thr` → `ok fi=… mi=…`
* `fma LF LM P1;P2;…`  → `ok i,j,…`   (`_find_matching_anchors`: chain lengths, local anchors per chain)
-/
namespace BiotiteModel.Driver.C16
open BiotiteModel BiotiteModel.C16 BiotiteModel.Proto

def parseRat (s : String) : Option Rat :=
  match s.splitOn "/" with
  | [p] => p.toInt?.map fun i => (i : Rat)
  | [p, q] => match p.toInt?, q.toNat? with
    | some i, some d => if d = 0 then none else some ((i : Rat) / (d : Rat))
    | _, _ => none
  | _ => none

def parseRats (s : String) : Option (List Rat) :=
  if s == "_" || s == "" then some [] else (s.splitOn ",").mapM parseRat

def showRat (r : Rat) : String :=
  if r.den = 1 then toString r.num else toString r.num ++ "/" ++ toString r.den

def showRats (xs : List Rat) : String := if xs.isEmpty then "_" else joinWith "," (xs.map showRat)

def chunk3 : List Rat → Option (List (V3 Rat))
  | [] => some []
  | a :: b :: c :: rest => (chunk3 rest).map (⟨a, b, c⟩ :: ·)
  | _ => none

def chunkN {β : Type} (n : Nat) (xs : List β) : Nat → Option (List (List β))
  | 0 => if xs.isEmpty then some [] else none
  | k + 1 =>
    if xs.length < n then none
    else (chunkN n (xs.drop n) k).map (xs.take n :: ·)

def toM3 : List (V3 Rat) → Option (M3 Rat)
  | [a, b, c] => some ⟨a, b, c⟩
  | _ => none

/-- `m` models of `n` points from a flat list. -/
def parseStack (m n : Nat) (s : String) : Option (Stack Rat) := do
  let xs ← parseRats s
  let pts ← chunk3 xs
  if pts.length ≠ m * n then none
  chunkN n pts m

def parseVecs (k : Nat) (s : String) : Option (List (V3 Rat)) := do
  let pts ← chunk3 (← parseRats s)
  if pts.length ≠ k then none else some pts

def parseMats (m : Nat) (s : String) : Option (List (M3 Rat)) := do
  let rows ← chunk3 (← parseRats s)
  if rows.length ≠ 3 * m then none
  (← chunkN 3 rows m).mapM toM3

def parseCoords (dim : String) (m n : Nat) (s : String) : Option (Coords Rat) := do
  let X ← parseStack m n s
  match dim, X with
  | "2", [pts] => some (.single pts)
  | "3", X => some (.stack X)
  | _, _ => none

def flatV (v : V3 Rat) : List Rat := [v.x, v.y, v.z]
def flatM (A : M3 Rat) : List Rat := flatV A.r0 ++ flatV A.r1 ++ flatV A.r2
def flatV4 (v : V4 Rat) : List Rat := [v.x, v.y, v.z, v.w]
def flatM4 (A : M4 Rat) : List Rat := flatV4 A.r0 ++ flatV4 A.r1 ++ flatV4 A.r2 ++ flatV4 A.r3
def flatStack (X : Stack Rat) : List Rat := (X.map fun pts => (pts.map flatV).flatten).flatten
def flatCoords : Coords Rat → List Rat
  | .single pts => (pts.map flatV).flatten
  | .stack X => flatStack X

def showErr (e : Err) : String :=
  if e == unmodelled then "unmodelled" else "ERR:" ++ e.toString

def showE (r : Except Err String) : String :=
  match r with
  | .ok s => "ok " ++ s
  | .error e => showErr e

def parseTransform (k c m r l t : String) : Option (Transform Rat) := do
  let k ← k.toNat?
  let m ← m.toNat?
  let l ← l.toNat?
  some ⟨← parseVecs k c, ← parseMats m r, ← parseVecs l t⟩

/-- The stubbed `np.linalg.svd`: returns the pair selected by `⌊cov[0,0]⌋ mod np`. -/
def svdStub (pairs : List (M3 Rat × M3 Rat)) (H : M3 Rat) : M3 Rat × M3 Rat :=
  match pairs[(H.r0.x.floor % (pairs.length : Int)).toNat]? with
  | some p => p
  | none => (M3.one, M3.one)

def parsePairs (np vw : String) : Option (List (M3 Rat × M3 Rat)) := do
  let np ← np.toNat?
  let ms ← parseMats (2 * np) vw
  let rec go : List (M3 Rat) → List (M3 Rat × M3 Rat)
    | a :: b :: rest => (a, b) :: go rest
    | _ => []
  if np = 0 then none else some (go ms)

def parseMask (s : String) : Option (Option (List Bool)) :=
  if s == "-" then some none
  else some (some (s.toList.map (· == '1')))

/-- The identity stub for the inner `superimpose` of the outlier loop. -/
def identitySup (_ m : Coords Rat) : Except Err (Coords Rat × Transform Rat) :=
  let k := m.to3d.length
  .ok (m, ⟨List.replicate k V3.zero, List.replicate k M3.one, List.replicate k V3.zero⟩)

def parseCfg (minA maxIter qlo qhi thr : String) : Option WooCfg := do
  -- a negative `min_anchors` can never stop the loop: it behaves like 0
  some ⟨(← minA.toInt?).toNat, (← maxIter.toInt?).toNat, ← parseRat qlo, ← parseRat qhi, ← parseRat thr⟩

def parseMaxIter (s : String) : Option Int := s.toInt?

def parsePairsNat (s : String) : Option (List (Nat × Nat)) := do
  let xs ← parseNats s
  let rec go : List Nat → Option (List (Nat × Nat))
    | [] => some []
    | a :: b :: rest => (go rest).map ((a, b) :: ·)
    | _ => none
  go xs

def step (_ : Unit) (line : String) : Unit × String :=
  let out : String :=
    match words line with
    | ["apply", k, c, m, r, l, t, dim, mx, n, x] =>
      match parseTransform k c m r l t, mx.toNat?, n.toNat? with
      | some T, some mx, some n =>
        match parseCoords dim mx n x with
        | some X => showE ((T.apply X).map fun Y => showRats (flatCoords Y))
        | none => "bad-op"
      | _, _, _ => "bad-op"
    | ["matrix", k, c, m, r, l, t] =>
      match parseTransform k c m r l t with
      | some T => showE (T.asMatrix.map fun Ms => showRats (Ms.map flatM4).flatten)
      | none => "bad-op"
    | ["rot", mf, mm, n, f, mo, np, vw] =>
      -- `n` is the atom count of both structures, or `nf:nm` for different counts
      let ns : Option (Nat × Nat) := match n.splitOn ":" with
        | [a] => a.toNat?.map fun k => (k, k)
        | [a, b] => match a.toNat?, b.toNat? with | some x, some y => some (x, y) | _, _ => none
        | _ => none
      match mf.toNat?, mm.toNat?, ns, parsePairs np vw with
      | some mf, some mm, some (nf, nm), some pairs =>
        match parseStack mf nf f, parseStack mm nm mo with
        | some F, some M =>
          showE (do
            let R ← getRotation (svdStub pairs) F M
            let ps ← bzip F M
            let covs := ps.map fun p => cov1 p.1 p.2
            pure s!"cov={showRats (covs.map flatM).flatten} R={showRats (R.map flatM).flatten}")
        | _, _ => "bad-op"
      | _, _, _, _ => "bad-op"
    | ["sup", mask, dimF, mf, dimM, mm, n, f, mo, np, vw] =>
      match mf.toNat?, mm.toNat?, n.toNat?, parsePairs np vw, parseMask mask with
      | some mf, some mm, some n, some pairs, some mask =>
        match parseCoords dimF mf n f, parseCoords dimM mm n mo with
        | some F, some M =>
          showE (do
            let (fit, T) ← superimpose (svdStub pairs) F M mask
            pure s!"fit={showRats (flatCoords fit)} c={showRats (T.center.map flatV).flatten} R={showRats (T.rotation.map flatM).flatten} t={showRats (T.target.map flatV).flatten}")
        | _, _ => "bad-op"
      | _, _, _, _, _ => "bad-op"
    | ["woo", dimF, mf, dimM, mm, n, f, mo, minA, maxIter, qlo, qhi, thr] =>
      match mf.toNat?, mm.toNat?, n.toNat?, parseMaxIter maxIter with
      | some mf, some mm, some n, some _ =>
        match parseCoords dimF mf n f, parseCoords dimM mm n mo, parseCfg minA maxIter qlo qhi thr with
        | some F, some M, some cfg =>
          showE (do
            let (_, _, anchors) ← superimposeWithoutOutliers identitySup cfg F M
            pure (showNatsE anchors))
        | _, _, _ => "bad-op"
      | _, _, _, _ => "bad-op"
    | ["hom", dimF, mf, nF, dimM, mm, nM, f, mo, fi, mi, a, minA, maxIter, qlo, qhi, thr] =>
      match mf.toNat?, nF.toNat?, mm.toNat?, nM.toNat?, parseNats fi, parseNats mi, parsePairsNat a with
      | some mf, some nF, some mm, some nM, some FI, some MI, some A =>
        match parseCoords dimF mf nF f, parseCoords dimM mm nM mo, parseCfg minA maxIter qlo qhi thr with
        | some F, some M, some cfg =>
          showE (do
            let (_, _, f1, m1) ← superimposeHomologs identitySup cfg F M FI MI A
            pure s!"fi={showNatsE f1} mi={showNatsE m1}")
        | _, _, _ => "bad-op"
      | _, _, _, _, _, _, _ => "bad-op"
    | ["fma", lf, lm, ps] =>
      match parseNats lf, parseNats lm, (ps.splitOn ";").mapM parsePairsNat with
      | some lf, some lm, some ps =>
        if ps.length ≠ min lf.length lm.length then "bad-op" else
        showE ((findMatchingAnchors lf lm ps).map fun r => showNatsE (r.flatMap fun p => [p.1, p.2]))
      | _, _, _ => "bad-op"
    | _ => "bad-op"
  ((), out)

def main : IO Unit := loop () step

end BiotiteModel.Driver.C16

import BiotiteModel.Model.C08
/-!
Line-protocol driver for C08 (one output line per input line).

```
opt     <mode> <gap> <a> <b> <k2> <matrix>                                → ok <score>
chk     <mode> <gap> <a> <b> <k2> <matrix> <maxNumber> <score> <traces>   → ok n=<n> valid=<k> scored=<k> sound=<k> distinct=<0|1> count=<0|1> model=<0|1>
rescore <tp>   <gap> <a> <b> <k2> <matrix> <trace>                        → ok <score> | ERR:IndexError
args    <gap> <max_number>                                                  → ok | ERR:ValueError | ERR:OverflowError
```
mode `g|s|l`; gap `L:<g>` or `A:<open>:<ext>`; `<a>`,`<b>` code lists (`_` = empty); matrix row-major with `k2`
columns; a trace is `i:j;i:j;…` (`_` = empty), traces are separated by `/` (`-` = no trace at all).
-/
namespace BiotiteModel.Driver.C08
open BiotiteModel BiotiteModel.C08 BiotiteModel.Proto

def parseMode : String → Option Mode
  | "g" => some .global | "s" => some .semi | "l" => some .local | _ => none

def parseGap (s : String) : Option Gap :=
  match s.splitOn ":" with
  | ["L", g] => g.toInt?.map Gap.lin
  | ["A", o, e] => match o.toInt?, e.toInt? with
    | some o, some e => some (.aff o e)
    | _, _ => none
  | _ => none

def chunk (k : Nat) : Nat → List Int → List (List Int)
  | 0, _ => []
  | fuel + 1, xs => if xs.isEmpty then [] else xs.take k :: chunk k fuel (xs.drop k)

def parseMat (k2 : String) (flat : String) : Option Mat :=
  match k2.toNat?, parseInts flat with
  | some k, some xs => if k = 0 then some (Mat.ofRows []) else some (Mat.ofRows (chunk k xs.length xs))
  | _, _ => none

def parseTrace (s : String) : Option (List (Int × Int)) :=
  if s == "_" then some [] else
  (s.splitOn ";").mapM fun r => match r.splitOn ":" with
    | [i, j] => match i.toInt?, j.toInt? with
      | some i, some j => some (i, j)
      | _, _ => none
    | _ => none

def parseTraces (s : String) : Option (List (List (Int × Int))) :=
  if s == "-" then some [] else (s.splitOn "/").mapM parseTrace

def count (l : List Bool) : Nat := (l.filter id).length

def step (_ : Unit) (line : String) : Unit × String :=
  let out : String :=
    match words line with
    | ["opt", mode, gap, a, b, k2, mat] =>
      match parseMode mode, parseGap gap, parseNats a, parseNats b, parseMat k2 mat with
      | some mode, some gap, some a, some b, some M =>
        if raisesIndexError mode gap a b then "ERR:IndexError" else s!"ok {optT mode gap M a b}"
      | _, _, _, _, _ => "bad-op"
    | ["chk", mode, gap, a, b, k2, mat, mx, sc, traces] =>
      match parseMode mode, parseGap gap, parseNats a, parseNats b, parseMat k2 mat, mx.toNat?, sc.toInt?,
            parseTraces traces with
      | some mode, some gap, some a, some b, some M, some mx, some sc, some ts =>
        if raisesIndexError mode gap a b then "ERR:IndexError" else
        let alns := ts.map traceToAln
        let valid := alns.map fun o => match o with
          | some aln => validB mode a b aln
          | none => false
        let scored := alns.map fun o => match o with
          | some aln => score mode gap M a b aln == sc
          | none => false
        let sound := ts.map fun t => checkAlignment a b M gap mode t sc
        let n := nTraces mode gap M a b mx
        -- traceback model (linear, one start cell): every real trace must be one the model's `followLin` yields
        -- every real trace must be one the model of align_optimal (`alignOptimalModel`, headline theorems
        -- `C08_align_optimal_lin/_aff`) returns when it is not truncated
        let modelOk : Bool :=
          let np := nPaths mode gap M a b
          if np > 300 then
            -- too many co-optimal paths to enumerate: run the model with the actual max_number; the branch order
            -- and the counter mirror follow_trace, so exactly the same traces must survive the truncation
            let r := alignOptimalModel mode gap M a b mx
            r.2.length == ts.length && alns.all fun o => match o with
              | some aln => r.2.contains aln
              | none => false
          else
          let r := alignOptimalModel mode gap M a b np
          r.1 == optT mode gap M a b && r.2.length == np && alns.all fun o => match o with
            | some aln => r.2.contains aln
            | none => false
        s!"ok n={n} valid={count valid} scored={count scored} sound={count sound} " ++
        s!"distinct={if distinctNonEmpty ts then 1 else 0} count={if ts.length ≤ mx then 1 else 0} " ++
        s!"model={if modelOk then 1 else 0}"
      | _, _, _, _, _, _, _, _ => "bad-op"
    | ["args", gap, mx] =>
      match parseGap gap, mx.toInt? with
      | some gap, some mx =>
        match argCheck gap mx with
        | none => "ok"
        | some e => "ERR:" ++ e.toString
      | _, _ => "bad-op"
    | ["rescore", tp, gap, a, b, k2, mat, trace] =>
      match parseGap gap, parseNats a, parseNats b, parseMat k2 mat, parseTrace trace with
      | some gap, some a, some b, some M, some t =>
        match traceToAln t with
        | some aln =>
          s!"ok {scorePub M gap.go gap.ge (tp == "1") a b aln}"
        | none => "unmodelled"
      | _, _, _, _, _ => "bad-op"
    | _ => "bad-op"
  ((), out)

def main : IO Unit := loop () step

end BiotiteModel.Driver.C08

import BiotiteModel.Model.C01
/-! Line-protocol driver for C01 (see `harness/props/c01.py` for the grammar). -/
namespace BiotiteModel.Driver.C01
open BiotiteModel BiotiteModel.C01 BiotiteModel.Proto

def pReg (s : String) : Option Nat :=
  match s.toList with
  | ['r', c] => if c.isDigit then some (c.toNat - '0'.toNat) else none
  | _ => none

def pRegs (s : String) : Option (List Nat) :=
  if s == "_" then some [] else (s.splitOn ",").mapM pReg

def pToks (s : String) : Option (List Nat) := parseNats s

def pCols (s : String) : Option (List (String × List Nat)) :=
  if s == "-" then some [] else
  (s.splitOn ";").mapM (fun part =>
    match part.splitOn "=" with
    | [k, v] => (pToks v).map (fun ts => (k, ts))
    | _ => none)

def pAtomCols (s : String) : Option (List (String × Nat)) :=
  (pCols s).bind (fun cs => cs.mapM (fun p => match p.2 with | [t] => some (p.1, t) | _ => none))

def pCoord (s : String) : Option (List (List Nat)) :=
  if s == "-" then some [] else (s.splitOn "/").mapM pToks

def pBox (s : String) : Option (Option (List Nat)) :=
  if s == "-" then some none else (pToks s).map some

def pBonds (s : String) : Option (Option (List Bond)) :=
  if s == "-" then some none
  else if s == "_" then some (some [])
  else ((s.splitOn ",").mapM (fun (p : String) =>
    match (p.splitOn ":").mapM String.toNat? with
    | some [i, j, t] => some (i, j, t)
    | _ => none)).map some

def pOptInt (s : String) : Option (Option Int) :=
  if s == "N" then some none else s.toInt?.map some

def pBits (cs : List Char) : Option (List Bool) :=
  cs.mapM (fun c => if c == '1' then some true else if c == '0' then some false else none)

def pIndex (s : String) : Option Index :=
  match s.toList with
  | 'i' :: r => (String.ofList r).toInt?.map .int
  | 's' :: r =>
    match (String.ofList r).splitOn ":" with
    | [a, b, c] =>
      match pOptInt a, pOptInt b, pOptInt c with
      | some a, some b, some c => some (.slice a b c)
      | _, _, _ => none
    | _ => none
  | 'm' :: r => (pBits r).map (fun bs => .mask bs .nd)
  | 'n' :: r => (pBits r).map (fun bs => .mask bs .strided)
  | 'b' :: r => (pBits r).map (fun bs => .mask bs .list)
  | 'r' :: r => (pBits r).map (fun bs => .mask bs .readonly)
  | 'w' :: r => (parseInts (String.ofList r)).map (fun is => .arr is .swapped)
  | 'a' :: r => (parseInts (String.ofList r)).map (fun is => .arr is .nd)
  | 'u' :: r => (parseInts (String.ofList r)).map (fun is => .arr is .nd)
  | 'l' :: r => (parseInts (String.ofList r)).map (fun is => .arr is .list)
  | ['e'] => some .ellipsis
  | _ => none

def parseOp (line : String) : Option Op :=
  match words line with
  | ["new", d, k, n, cols, coord, box, bonds] =>
    match pReg d, n.toNat?, pCols cols, pCoord coord, pBox box, pBonds bonds with
    | some d, some n, some cols, some coord, some box, some bonds =>
      if k == "A" then some (.new d false n cols coord box bonds)
      else if k == "S" then some (.new d true n cols coord box bonds) else none
    | _, _, _, _, _, _ => none
  | ["atom", d, cols, c] =>
    match pReg d, pAtomCols cols, c.toNat? with
    | some d, some cols, some c => some (.atom d cols c)
    | _, _, _ => none
  | ["get", d, s, ix] =>
    match pReg d, pReg s, pIndex ix with
    | some d, some s, some ix => some (.get d s ix)
    | _, _, _ => none
  | ["get2", d, s, i0, i1] =>
    match pReg d, pReg s, pIndex i0, pIndex i1 with
    | some d, some s, some i0, some i1 => some (.get2 d s i0 i1)
    | _, _, _, _ => none
  | ["set", s, ix, v] =>
    match pReg s, pIndex ix, pReg v with
    | some s, some ix, some v => some (.set s ix v)
    | _, _, _ => none
  | ["del", s, ix] =>
    match pReg s, pIndex ix with
    | some s, some ix => some (.del s ix)
    | _, _ => none
  | ["concat", d, ss] => match pReg d, pRegs ss with | some d, some ss => some (.concat d ss) | _, _ => none
  | ["stack", d, ss] => match pReg d, pRegs ss with | some d, some ss => some (.stack d ss) | _, _ => none
  | ["array", d, ss] => match pReg d, pRegs ss with | some d, some ss => some (.array d ss) | _, _ => none
  | ["repeat", d, s, k, ts] =>
    match pReg d, pReg s, k.toNat?, pToks ts with
    | some d, some s, some k, some ts => some (.rep d s k ts)
    | _, _, _, _ => none
  | ["tmpl", d, s, coord, box] =>
    match pReg d, pReg s, pCoord coord, pBox box with
    | some d, some s, some coord, some box => some (.tmpl d s coord box)
    | _, _, _, _ => none
  | ["addann", s, k] => (pReg s).map (fun s => .addann s k)
  | ["setann", s, k, ts] => match pReg s, pToks ts with | some s, some ts => some (.setann s k ts) | _, _ => none
  | ["delann", s, k] => (pReg s).map (fun s => .delann s k)
  | ["setcoord", s, coord] => match pReg s, pCoord coord with | some s, some c => some (.setcoord s c) | _, _ => none
  | ["setbox", s, box] => match pReg s, pBox box with | some s, some b => some (.setbox s b) | _, _ => none
  | ["setbonds", s, b] => match pReg s, pBonds b with | some s, some b => some (.setbonds s b) | _, _ => none
  | ["copy", d, s] => match pReg d, pReg s with | some d, some s => some (.copy d s) | _, _ => none
  | ["eq", s, t] => match pReg s, pReg t with | some s, some t => some (.eq s t) | _, _ => none
  | _ => none

/-! canonical text -/

def sortCols (cols : List (String × α)) : List (String × α) :=
  let rec ins (p : String × α) : List (String × α) → List (String × α)
    | [] => [p]
    | x :: r => if p.1 < x.1 then p :: x :: r else x :: ins p r
  cols.foldr ins []

def showBond (b : Bond) : String := s!"{b.1}:{b.2.1}:{b.2.2}"

def showVal : Val → String
  | .none => "none"
  | .atom a =>
    "T|" ++ joinWith ";" ((sortCols a.annot).map (fun p => s!"{p.1}={p.2}")) ++ "|" ++ toString a.coord ++ "|f4"
  | .arr a =>
    let cols := if a.annot.isEmpty then "-" else joinWith ";" ((sortCols a.annot).map (fun p => p.1 ++ "=" ++ showNatsE p.2))
    let coord := if a.coord.isEmpty then "-" else joinWith "/" (a.coord.map showNatsE)
    let box := match a.box with | none => "-" | some b => showNatsE b
    let bonds := match a.bonds with
      | none => "-"
      | some b => toString b.count ++ ";" ++ (if b.bs.isEmpty then "_" else joinWith "," ((sortBonds b.bs).map showBond))
    -- observed dtypes: the container stores float32 coordinates/boxes; the kind of a column follows its category
    let dt := "f4," ++ (if a.box.isSome then "f4" else "-") ++ ";" ++
      joinWith "," ((sortCols a.annot).map (fun p => p.1 ++ ":" ++ kindOf p.1))
    (if a.stack then "S" else "A") ++ "|" ++ toString a.n ++ "|" ++ cols ++ "|" ++ coord ++ "|" ++ box ++ "|" ++ bonds
      ++ "|" ++ dt

def showAll (st : State) : String :=
  joinWith ";;" ((List.range 4).map (fun i => s!"r{i}=" ++ showVal (reg st i)))

def showErr (e : Err) : String :=
  if e = unmodelled then "unmodelled" else if e = ub then "UB" else "ERR:" ++ e.toString

def stepLine (st : State) (line : String) : State × String :=
  match parseOp line with
  | none => (st, "bad-op")
  | some op =>
    let (st', out) := step st op
    (st', match out with
      | .val v => "ok " ++ showVal v
      | .all => "ok " ++ showAll st'
      | .bool b => if b then "ok true" else "ok false"
      | .err e => showErr e)

def main : IO Unit := loop init stepLine

end BiotiteModel.Driver.C01

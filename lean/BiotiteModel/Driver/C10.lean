import BiotiteModel.Model.C10
/-! Line-protocol driver for C10: one output line per input line (see harness/props/c10.py). -/
namespace BiotiteModel.Driver.C10
open BiotiteModel BiotiteModel.C10 BiotiteModel.Proto

structure St where
  alph : Option KAlph := none
  tables : List Table := []

def leList : List Nat → List Nat → Bool
  | [], _ => true
  | _ :: _, [] => false
  | x :: xs, y :: ys => if x < y then true else if y < x then false else leList xs ys

def showTuples (ts : List (List Nat)) : String :=
  if ts.isEmpty then "_" else
  joinWith "," ((ts.mergeSort leList).map fun t => joinWith ":" (t.map toString))

def showErr (e : Err) : String := if e == ub then "UB" else "ERR:" ++ e.toString

def showRes {α : Type} (f : α → String) : Except Err α → String
  | .ok x => "ok " ++ f x
  | .error e => showErr e

def parseBits (s : String) : Option (List Bool) :=
  if s == "e" then some [] else
  s.toList.mapM fun c => if c == '1' then some true else if c == '0' then some false else none

def showBits (bs : List Bool) : String :=
  if bs.isEmpty then "e" else String.ofList (bs.map fun b => if b then '1' else '0')

def parseLists (s : String) : Option (List (List Nat)) :=
  if s == "-" then some [] else (s.splitOn ";").mapM parseNats

/-- masks: `-` = no masks at all (n × None); otherwise `;`-separated, `n` = None. -/
def parseMasks (s : String) (n : Nat) : Option (List (Option (List Bool))) :=
  if s == "-" then some (List.replicate n none) else
  (s.splitOn ";").mapM fun m => if m == "n" then some none else (parseBits m).map some

def parseRefIds (s : String) (n : Nat) : Option (List Nat) :=
  if s == "-" then some (List.range n) else parseNats s

/-- ref ids may be negative or too large for uint32 (refused by the real code) -/
def parseRefIdsI (s : String) (n : Nat) : Option (List Int) :=
  if s == "-" then some ((List.range n).map Int.ofNat) else parseInts s

/-- compression factor `c` or `num/den` -/
def parseFrac (s : String) : Option (Nat × Nat) :=
  match s.splitOn "/" with
  | [a] => a.toNat?.map fun a => (a, 1)
  | [a, b] => match a.toNat?, b.toNat? with
    | some a, some b => some (a, b)
    | _, _ => none
  | _ => none

def parseNb (s : String) : Option (Option Nat) :=
  if s == "d" then some none else s.toNat?.map some

def parsePerm (s : String) : Option Perm :=
  if s == "-" then some .ident
  else if s == "rand" then some .random
  else match s.splitOn ":" with
    | ["freq", c] => (parseNats c).map .freq
    | ["tab", v] => (parseInts v).map .table
    | _ => none

/-- permutation specs that refer to the driver state: `ft<i>` = `FrequencyPermutation.from_table(table i)`. -/
def resolvePerm (tables : List Table) (s : String) : Option Perm :=
  if s.startsWith "ft" then
    match (s.drop 2).toNat? with
    | some i => match tables[i]? with
      | some t => if t.bucketed then none else some (.freq (countAll t))
      | none => none
    | none => none
  else parsePerm s

def parseQA (qa : String) : Option QAlph :=
  if qa == "f" then some .foreign
  else if qa.startsWith "p" then (qa.drop 1).toNat?.map .pre else none

def parsePair (rp : String) : Option (Nat × Nat) :=
  match rp.splitOn ":" with
  | [r, p] => match r.toNat?, p.toNat? with
    | some r, some p => some (r, p)
    | _, _ => none
  | _ => none

def parseDictItem (item : String) : Option (Nat × List (Nat × Nat)) :=
  match item.splitOn "=" with
  | [k, ps] =>
    match k.toNat?, (if ps == "_" then some [] else (ps.splitOn ",").mapM parsePair) with
    | some k, some ps => some (k, ps)
    | _, _ => none
  | _ => none

/-- `kmer=r:p,r:p;kmer=…` -/
def parseDict (s : String) : Option (List (Nat × List (Nat × Nat))) :=
  if s == "-" then some [] else (s.splitOn ";").mapM parseDictItem

def pairsOut (ps : List (Nat × Nat)) : String := showTuples (ps.map fun (a, b) => [a, b])
def triplesOut (ps : List (Nat × Nat × Nat)) : String := showTuples (ps.map fun (a, b, c) => [a, b, c])

def addTable (st : St) (r : Except Err Table) : St × String :=
  match r with
  | .ok t => ({ st with tables := st.tables ++ [t] }, s!"ok {(contents t).length}")
  | .error e => (st, showErr e)

def zip3 {α β γ : Type} : List α → List β → List γ → List (α × β × γ)
  | a :: as, b :: bs, c :: cs => (a, b, c) :: zip3 as bs cs
  | _, _, _ => []

def step (st : St) (line : String) : St × String :=
  let bad := (st, "bad-op")
  match words line with
  | ["alph", n, k, sp] =>
    match n.toNat?, k.toNat?, (if sp == "-" then some none else (parseNats sp).map some) with
    | some n, some k, some sp =>
      match mkAlph n k sp with
      | .ok a => ({ st with alph := some a }, s!"ok {a.size}")
      | .error e => ({ st with alph := none }, showErr e)
    | _, _, _ => bad
  | ["alpheq", n1, k1, sp1, n2, k2, sp2] =>
    let mk (n k sp : String) : Option (Except Err KAlph) :=
      match n.toNat?, k.toNat?, (if sp == "-" then some none else (parseNats sp).map some) with
      | some n, some k, some sp => some (mkAlph n k sp)
      | _, _, _ => none
    match mk n1 k1 sp1, mk n2 k2 sp2 with
    | some (.ok a), some (.ok b) => (st, s!"ok {kalphEq a b} {kalphEq b a}")
    | some (.error e), _ => (st, showErr e)
    | _, some (.error e) => (st, showErr e)
    | _, _ => bad
  | cmd :: args =>
    match st.alph with
    | none => (st, "no-alph")
    | some a =>
      let tbl (i : String) : Option Table := i.toNat?.bind fun i => st.tables[i]?
      match cmd, args with
      | "kmers", [codes] =>
        match parseNats codes with
        | some cs => (st, showRes showNatsE (createKmers a cs))
        | none => bad
      | "fuse", [codes] =>
        match parseNats codes with
        | some cs => (st, showRes toString (fuseChecked a cs))
        | none => bad
      | "mask", [bits] =>
        match parseBits bits with
        | some m => (st, showRes showBits (prepareMask a (some m) m.length))
        | none => bad
      | "seqs", [nb, refids, seqs, masks] =>
        match parseNb nb, parseLists seqs with
        | some nb, some seqs =>
          match parseRefIdsI refids seqs.length, parseMasks masks seqs.length with
          | some rsI, some ms =>
            let rs := rsI.map Int.toNat
            if rs.length ≠ seqs.length || ms.length ≠ seqs.length then (st, showErr .indexError)
            else addTable st (guardRefIds rsI (fromSequences a nb (zip3 rs seqs ms)))
          | _, _ => bad
        | _, _ => bad
      | "kms", [nb, refids, kms, masks] =>
        match parseNb nb, parseLists kms with
        | some nb, some kms =>
          match parseRefIdsI refids kms.length, parseMasks masks kms.length with
          | some rsI, some ms =>
            let rs := rsI.map Int.toNat
            if rs.length ≠ kms.length || ms.length ≠ kms.length then (st, showErr .indexError)
            else addTable st (guardRefIds rsI (fromKmers a nb (zip3 rs kms ms)))
          | _, _ => bad
        | _, _ => bad
      | "sel", [nb, refids, poss, kms] =>
        match parseNb nb, parseLists poss, parseLists kms with
        | some nb, some poss, some kms =>
          match parseRefIds refids kms.length with
          | some rs =>
            if ! kms.all (checkBounds a) then (st, showErr .alphabetError)
            else if poss.length ≠ kms.length || rs.length ≠ kms.length then (st, showErr .indexError)
            else addTable st (fromSelection a nb (zip3 rs poss kms))
          | _ => bad
        | _, _, _ => bad
      | "pos", [dict] =>
        match parseDict dict with
        | some d => addTable st (fromPositions a d)
        | none => bad
      | "merge", [ids] =>
        match (parseNats ids).bind fun ids => ids.mapM fun i => st.tables[i]? with
        | some ts => addTable st (fromTables ts)
        | none => (st, "no-table")
      | "pickle", [i] =>
        match tbl i with
        | some t =>
          let t' := pickleRoundTrip t
          ({ st with tables := st.tables ++ [t'] }, s!"ok {tableEq t' t}")
        | none => (st, "no-table")
      | "dump", [i] =>
        match tbl i with
        | some t => (st, "ok " ++ showTuples ((contents t).map fun e => [e.kmer, e.ref, e.pos]))
        | none => (st, "no-table")
      | "match", [i, codes, mask] =>
        match tbl i, parseNats codes, (if mask == "-" then some none else (parseBits mask).map some) with
        | some t, some cs, some m => (st, showRes triplesOut (matchSeq t cs m))
        | none, _, _ => (st, "no-table")
        | _, _, _ => bad
      | "matchq", [i, codes, mask, qa] =>
        let qa? : Option QAlph :=
          if qa == "f" then some .foreign
          else if qa.startsWith "p" then (qa.drop 1).toNat?.map .pre else none
        match tbl i, parseNats codes, (if mask == "-" then some none else (parseBits mask).map some), qa? with
        | some t, some cs, some m, some qa => (st, showRes triplesOut (matchSeqQ t qa cs m))
        | none, _, _, _ => (st, "no-table")
        | _, _, _, _ => bad
      | "matchsim", [i, codes, mask, mat, thr] =>
        match tbl i, parseNats codes, (if mask == "-" then some none else (parseBits mask).map some),
              parseInts mat, thr.toInt? with
        | some t, some cs, some m, some mat, some thr =>
          (st, showRes triplesOut (matchSeqRule t mat thr cs m))
        | none, _, _, _, _ => (st, "no-table")
        | _, _, _, _, _ => bad
      | "matchtabsim", [i, j, mat, thr] =>
        match tbl i, tbl j, parseInts mat, thr.toInt? with
        | some t, some o, some mat, some thr =>
          (st, showRes (fun l => showTuples (l.map fun (a, b, c, d) => [a, b, c, d])) (matchTableRule t o mat thr))
        | none, _, _, _ => (st, "no-table")
        | _, none, _, _ => (st, "no-table")
        | _, _, _, _ => bad
      | "simk", [q, mat, thr] =>
        match q.toNat?, parseInts mat, thr.toInt? with
        | some q, some mat, some thr =>
          (st, showRes (fun l => showNatsE (sortNats l)) (similarKmersChecked a mat thr q))
        | _, _, _ => bad
      | "matchsel", [i, ps, ks] =>
        match tbl i, parseNats ps, parseNats ks with
        | some t, some ps, some ks => (st, showRes triplesOut (matchSelection t ps ks))
        | none, _, _ => (st, "no-table")
        | _, _, _ => bad
      | "matchtab", [i, j] =>
        match tbl i, tbl j with
        | some t, some o =>
          (st, showRes (fun l => showTuples (l.map fun (a, b, c, d) => [a, b, c, d])) (matchTable t o))
        | _, _ => (st, "no-table")
      | "count", [i, ks] =>
        match tbl i with
        | some t =>
          if ks == "all" then (st, "ok " ++ showNatsE (countAll t))
          else match parseNats ks with
            | some ks => (st, showRes showNatsE (countKmers t ks))
            | none => bad
        | none => (st, "no-table")
      | "getkmers", [i] =>
        match tbl i with
        | some t => (st, "ok " ++ showNatsE (getKmers t))
        | none => (st, "no-table")
      | "get", [i, q] =>
        match tbl i, q.toNat? with
        | some t, some q => (st, showRes pairsOut (getItem t q))
        | none, _ => (st, "no-table")
        | _, _ => bad
      | "eq", [i, j] =>
        match tbl i, tbl j with
        | some t, some o => (st, s!"ok {tableEq t o}")
        | _, _ => (st, "no-table")
      | "seqsx", [nb, refids, seqs, masks, ms, mode] =>
        -- sequences over their own (prefix) alphabets of `ms` symbols; `mode` e: explicit alphabet = the current
        -- base alphabet, d: default (the common alphabet of the sequences); nb `a`: default bucket number
        -- (any number >= 1 gives the same observable table: C10_mkTable_exact)
        -- `ms`: per sequence `m` (prefix alphabet of m symbols) or `f<m>` (m other symbols)
        let toks := ms.splitOn ","
        let foreign := toks.map fun t => t.startsWith "f"
        let msN : Option (List Nat) := toks.mapM fun t => (if t.startsWith "f" then t.drop 1 else t).toNat?
        let mixed := if mode == "e" then foreign.any id else (foreign.any id && ! foreign.all id)
        if mixed then
          -- `_compute_alphabet`: no common alphabet / the given alphabet does not extend a sequence alphabet
          (st, showErr .valueError)
        else
        match (if nb == "a" then some (some 7) else parseNb nb), parseLists seqs, msN with
        | some nb, some seqs, some ms =>
          match parseRefIds refids seqs.length, parseMasks masks seqs.length with
          | some rs, some mks =>
            if rs.length ≠ seqs.length || mks.length ≠ seqs.length then (st, showErr .indexError)
            else
              let n' := if mode == "e" then a.n else ms.foldl max 0
              addTable st (fromSequences { a with n := n' } nb (zip3 rs seqs mks))
          | _, _ => bad
        | _, _, _ => bad
      | "minimq", [w, p, codes, qa, chk] =>
        match w.toNat?, resolvePerm st.tables p, parseNats codes, parseQA qa with
        | some w, some p, some cs, some qa => (st, showRes pairsOut (minimizerSelectSeq a w p qa (chk == "1") cs))
        | _, _, _, _ => bad
      | "mincq", [c, p, codes, qa, chk] =>
        match c.toNat?, resolvePerm st.tables p, parseNats codes, parseQA qa with
        | some c, some p, some cs, some qa => (st, showRes pairsOut (mincodeSelectSeq a c p qa (chk == "1") cs))
        | _, _, _, _ => bad
      | "syncq", [s, p, offs, codes, qa, chk, cached] =>
        match s.toNat?, parsePerm p, parseInts offs, parseNats codes, parseQA qa with
        | some s, some p, some offs, some cs, some qa =>
          (st, showRes pairsOut (syncmerSelectSeq a.n a.k s p offs (cached == "1") qa (chk == "1") cs))
        | _, _, _, _, _ => bad
      | "has", [i, q] =>
        match tbl i, q.toNat? with
        | some t, some q => (st, showRes toString (tableHas t q))
        | none, _ => (st, "no-table")
        | _, _ => bad
      | "iter", [i] =>
        match tbl i with
        | some t => (st, if t.bucketed then showErr .typeError else "ok " ++ showNatsE (getKmers t))
        | none => (st, "no-table")
      | "rev", [i] =>
        match tbl i with
        | some t => (st, if t.bucketed then showErr .typeError else "ok " ++ showNatsE (getKmers t).reverse)
        | none => (st, "no-table")
      | "props", [i] =>
        match tbl i with
        | some t =>
          let sp := match t.alph.spacing with | some sp => showNatsE sp | none => "-"
          let nbs := if t.bucketed then toString t.nb else "-"
          (st, s!"ok len={t.alph.size} k={t.alph.k} n={t.alph.n} nb={nbs} sp={sp}")
        | none => (st, "no-table")
      | "str", [i] =>
        match tbl i with
        | some t => (st, "ok " ++ (let x := tableStr t; if x.isEmpty then "_" else x))
        | none => (st, "no-table")
      | "split", [q] =>
        match q.toNat? with
        | some q => (st, showRes showNatsE (splitChecked a q))
        | none => bad
      | "decode", [q] =>
        match q.toNat? with
        | some q => (st, if q ≥ a.size then showErr .alphabetError else "ok " ++ kmerLetters a q)
        | none => bad
      | "encode", [codes] =>
        match parseNats codes with
        | some cs => (st, showRes toString (encodeChecked a cs))
        | none => bad
      | "arrlen", [l] =>
        match l.toNat? with
        | some l => (st, s!"ok {a.arrayLength l}")
        | none => bad
      | "posbad", [kind] =>
        -- from_positions with a position array that is not (n, 2): three columns / one dimension
        (st, if kind == "3col" then showErr .indexError else if kind == "1d" then showErr .valueError else "bad-op")
      | "minim", [w, p, ks] =>
        match w.toNat?, resolvePerm st.tables p, parseNats ks with
        | some w, some p, some ks =>
          if ! p.ctorOk a.size then (st, showErr .indexError)
          else (st, showRes pairsOut (minimizerSelect w p ks))
        | _, _, _ => bad
      | "sync", [s, p, offs, codes] =>
        match s.toNat?, parsePerm p, parseInts offs, parseNats codes with
        | some s, some p, some offs, some cs => (st, showRes pairsOut (syncmerSelect a.n a.k s p offs cs))
        | _, _, _, _ => bad
      | "synck", [s, p, offs, ks] =>
        match s.toNat?, parsePerm p, parseInts offs, parseNats ks with
        | some s, some p, some offs, some ks => (st, showRes pairsOut (syncmerFromKmers a.n a.k s p offs ks))
        | _, _, _, _ => bad
      | "csynck", [s, p, offs, ks] =>
        match s.toNat?, parsePerm p, parseInts offs, parseNats ks with
        | some s, some p, some offs, some ks => (st, showRes pairsOut (cachedSyncmerFromKmers a.n a.k s p offs ks))
        | _, _, _, _ => bad
      | "minc", [c, p, ks] =>
        match parseFrac c, resolvePerm st.tables p, parseNats ks with
        | some (num, den), some p, some ks =>
          if ! p.ctorOk a.size then (st, showErr .indexError)
          else (st, showRes pairsOut (mincodeSelectQ a num den p ks))
        | _, _, _ => bad
      | _, _ => bad
  | _ => bad

def main : IO Unit := loop ({} : St) step

end BiotiteModel.Driver.C10

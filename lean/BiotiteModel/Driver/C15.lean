import BiotiteModel.Model.C15
import BiotiteModel.Gen.C15
/-! Line-protocol driver for C15: one output line per input line; all numbers are exact rationals `p/q`. -/
namespace BiotiteModel.Driver.C15
open BiotiteModel BiotiteModel.C15 BiotiteModel.Proto

def K : Consts := BiotiteModel.Gen.C15.consts

/-! ### parsing -/

def parseRat (s : String) : Option Rat :=
  match s.splitOn "/" with
  | [p] => p.toInt?.map (fun (n : Int) => (n : Rat))
  | [p, q] =>
    match p.toInt?, q.toNat? with
    | some n, some d => if d = 0 then none else some ((n : Rat) / (d : Rat))
    | _, _ => none
  | _ => none

def parseVec (s : String) : Option Vec :=
  match (s.splitOn ",").mapM parseRat with
  | some [x, y, z] => some ⟨x, y, z⟩
  | _ => none

def parseVecs (s : String) : Option (List Vec) :=
  if s == "" then some [] else (s.splitOn ";").mapM parseVec

def parseArr (s : String) : Option Arr :=
  let body := String.ofList (s.toList.drop 2)
  match s.toList.take 2 with
  | ['v', ':'] => (parseVec body).map Arr.v
  | ['l', ':'] => (parseVecs body).map Arr.l
  | ['s', ':'] => ((body.splitOn "|").mapM parseVecs).map Arr.s
  | _ => none

def toBox (rows : List Vec) : Option Box :=
  match rows with
  | [a, b, c] => some ⟨a, b, c⟩
  | _ => none

def parseBox (s : String) : Option BoxArg :=
  if s == "-" then some .none else
  let body := String.ofList (s.toList.drop 2)
  match s.toList.take 2 with
  | ['b', ':'] => ((parseVecs body).bind toBox).map BoxArg.one
  | ['B', ':'] => ((body.splitOn "|").mapM (fun t => (parseVecs t).bind toBox)).map BoxArg.many
  | _ => none

/-- `0:1;2:3` → rows of integers; `_` → no rows. -/
def parseIdx (s : String) : Option (List (List Int)) :=
  if s == "_" then some [] else (s.splitOn ";").mapM (fun p => (p.splitOn ":").mapM String.toInt?)

/-! ### printing -/

def showRat (q : Rat) : String := if q.den = 1 then toString q.num else s!"{q.num}/{q.den}"
def showVec (v : Vec) : String := s!"{showRat v.x},{showRat v.y},{showRat v.z}"
def showVecs (vs : List Vec) : String := joinWith ";" (vs.map showVec)

def showArr : Arr → String
  | .v a => "v:" ++ showVec a
  | .l as => "l:" ++ showVecs as
  | .s ms => "s:" ++ joinWith "|" (ms.map showVecs)

/-- scalar per vector (squared distances) -/
def showScal (f : Vec → Rat) : Arr → String
  | .v a => "v:" ++ showRat (f a)
  | .l as => "l:" ++ joinWith ";" (as.map (fun a => showRat (f a)))
  | .s ms => "s:" ++ joinWith "|" (ms.map (fun as => joinWith ";" (as.map (fun a => showRat (f a)))))

def showRes (sh : Arr → String) : Res Arr → String
  | .ok a => "ok " ++ sh a
  | .err e => "ERR:" ++ e.toString
  | .unmodelled => "unmodelled"

def pairsOf (rows : List (List Int)) : Option (List (Int × Int)) :=
  rows.mapM (fun r => match r with | [a, b] => some (a, b) | _ => none)

/-- `index_xxx`: the width check of `_call_non_index_function` comes first. -/
def indexOp (sh : Arr → String) (a : Arr) (rows : List (List Int)) (periodic : Bool) (box : BoxArg)
    (own : Option BoxArg := none) : String :=
  match rows with
  | r :: _ => if r.length ≠ 2 then "ERR:ValueError" else
    match pairsOf rows with
    | some ps => showRes sh (indexDisplacement K a ps periodic box own)
    | none => "bad-op"
  | [] => showRes sh (indexDisplacement K a [] periodic box own)

/-- `nd`: the atoms are a plain ndarray; otherwise the `box` attribute of the AtomArray / AtomArrayStack (`-` = None) -/
def parseOwn (s : String) : Option (Option BoxArg) :=
  if s == "nd" then some none else (parseBox s).map some

def boolStr (b : Bool) : String := if b then "T" else "F"

/-- `repeat_box(atoms, amount)`: as the code is — `amount` reaches `repeat_box_coord` only if it is passed on. -/
def repeatBoxAmount (amount : Option Int) : Int :=
  match amount with
  | none => 1
  | some a => if BiotiteModel.Gen.C15.repeatBoxPassesAmount then a else 1

def showNatsU (xs : List Nat) : String := if xs.isEmpty then "_" else showNats xs

def parseMols (s : String) : Option (List (List Nat)) :=
  (s.splitOn ";").mapM (fun m => (m.splitOn ",").mapM String.toNat?)

def step (_ : Unit) (line : String) : Unit × String :=
  let out : String :=
    match words line with
    | ["disp", _, a1, a2, b] =>
      match parseArr a1, parseArr a2, parseBox b with
      | some a1, some a2, some b => showRes showArr (displacement K a1 a2 b)
      | _, _, _ => "bad-op"
    | ["dist2", _, a1, a2, b] =>
      match parseArr a1, parseArr a2, parseBox b with
      | some a1, some a2, some b => showRes (showScal V3.normSq) (displacement K a1 a2 b)
      | _, _, _ => "bad-op"
    | ["idisp", _, a, idx, p, b] =>
      match parseArr a, parseIdx idx, parseBox b with
      | some a, some rows, some b => indexOp showArr a rows (p == "T") b
      | _, _, _ => "bad-op"
    | ["idisp", _, a, idx, p, b, own] =>
      match parseArr a, parseIdx idx, parseBox b, parseOwn own with
      | some a, some rows, some b, some own => indexOp showArr a rows (p == "T") b own
      | _, _, _, _ => "bad-op"
    | ["idist2", _, a, idx, p, b, own] =>
      match parseArr a, parseIdx idx, parseBox b, parseOwn own with
      | some a, some rows, some b, some own => indexOp (showScal V3.normSq) a rows (p == "T") b own
      | _, _, _, _ => "bad-op"
    | ["idist2", _, a, idx, p, b] =>
      match parseArr a, parseIdx idx, parseBox b with
      | some a, some rows, some b => indexOp (showScal V3.normSq) a rows (p == "T") b
      | _, _, _ => "bad-op"
    | ["frac", _, a, b] =>
      match parseArr a, parseBox b with
      | some a, some b => showRes showArr (coordToFractionArr a b)
      | _, _ => "bad-op"
    | ["unfrac", _, a, b] =>
      match parseArr a, parseBox b with
      | some a, some b => showRes showArr (fractionToCoordArr a b)
      | _, _ => "bad-op"
    | ["move", _, a, b] =>
      match parseArr a, parseBox b with
      | some a, some b => showRes showArr (moveInside K a b)
      | _, _ => "bad-op"
    | ["rpbc", _, a, b] =>
      match parseArr a, parseBox b with
      | some a, some b => showRes showArr (removePbcArr K a b)
      | _, _ => "bad-op"
    | ["repeat", _, a, b, amount] =>
      match parseArr a, parseBox b, amount.toInt? with
      | some (.l xs), some (.one b), some am =>
        match repeatBoxCoordE K xs b am with
        | .ok (ys, idx) => s!"ok {showArr (.l ys)} {showNatsU idx}"
        | .error e => "ERR:" ++ e.toString
      | _, _, _ => "bad-op"
    | ["rbox", _, a, b, amount] =>
      let am? : Option (Option Int) := if amount == "-" then some none else amount.toInt?.map some
      match parseArr a, parseBox b, am? with
      | some (.l xs), some (.one b), some am =>
        let am := repeatBoxAmount am
        s!"ok {showArr (.l (repeatBoxCoord K xs b am))} {showNatsU (repeatIndices K xs.length am)}"
      | some (.s ms), some (.many bs), some am =>
        -- AtomArrayStack: every model is repeated with its own box
        let am := repeatBoxAmount am
        if ms.length ≠ bs.length then "unmodelled" else
        let n := match ms with | m :: _ => m.length | [] => 0
        s!"ok {showArr (.s ((List.zip ms bs).map (fun (p : List Vec × Box) => repeatBoxCoord K p.1 p.2 am)))} {showNatsU (repeatIndices K n am)}"
      | _, _, _ => "bad-op"
    | ["rpbcmol", _, a, b, mols, sel] =>
      match parseArr a, parseBox b, parseMols mols with
      | some (.l xs), some (.one b), some mols =>
        showRes showArr (liftD ((removePbcSelected K xs mols (sel.toList.map (· == '1')) b).map Arr.l))
      | _, _, _ => "bad-op"
    | ["rpbcmol", _, a, b, mols] =>
      match parseArr a, parseBox b, parseMols mols with
      | some (.l xs), some (.one b), some mols =>
        showRes showArr (liftD ((removePbcMolecules K xs mols b).map Arr.l))
      | _, _, _ => "bad-op"
    | ["orth", b] =>
      match parseBox b with
      | some (.one b) => "ok " ++ boolStr (isOrthogonal K b)
      | some (.many bs) => "ok " ++ joinWith "," (bs.map (fun b => boolStr (isOrthogonal K b)))
      | _ => "bad-op"
    | ["vol", b] =>
      match parseBox b with
      | some (.one b) => "ok v:" ++ showRat (boxVolume b)
      | some (.many bs) => "ok l:" ++ joinWith ";" (bs.map (fun b => showRat (boxVolume b)))
      | _ => "bad-op"
    | ["ucell90", la, lb, lc] =>
      match parseRat la, parseRat lb, parseRat lc with
      | some la, some lb, some lc =>
        let b := vectorsFromCell90 la lb lc
        match unitcellExact b with
        | some (a', b', c', f1, f2, f3) =>
          s!"ok b:{showVecs [b.r0, b.r1, b.r2]} {showRat a'},{showRat b'},{showRat c'} {boolStr f1},{boolStr f2},{boolStr f3}"
        | none => "unmodelled"
      | _, _, _ => "bad-op"
    | ["dihclass", _, a] =>
      match parseArr a with
      | some (.l [p1, p2, p3, p4]) =>
        match dihedralClass p1 p2 p3 p4 with
        | some t => "ok " ++ t
        | none => "unmodelled"
      | _ => "bad-op"
    | ["centroid", _, a] =>
      match parseArr a with
      | some (.l xs) => match centroid xs with
        | some c => "ok v:" ++ showVec c
        | none => "ok v:nan,nan,nan"      -- `np.mean` of an empty axis
      | _ => "bad-op"
    | _ => "bad-op"
  ((), out)

def main : IO Unit := loop () step

end BiotiteModel.Driver.C15

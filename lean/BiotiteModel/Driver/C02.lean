import BiotiteModel.Model.C02
/-! Line-protocol driver for C02 (see harness/props/c02.py for the protocol). -/
namespace BiotiteModel.Driver.C02
open BiotiteModel BiotiteModel.C02 BiotiteModel.Proto

def lexLe3 (a b : Nat × Nat × Nat) : Bool :=
  a.1 < b.1 || (a.1 == b.1 && (a.2.1 < b.2.1 || (a.2.1 == b.2.1 && a.2.2 ≤ b.2.2)))

def lexLe2 (a b : Nat × Nat) : Bool := a.1 < b.1 || (a.1 == b.1 && a.2 ≤ b.2)

def showTriples (bs : List Bond) : String :=
  if bs.isEmpty then "_" else
  joinWith ";" ((bs.mergeSort lexLe3).map fun c => s!"{c.1},{c.2.1},{c.2.2}")

def showPairs (ps : List (Nat × Nat)) : String :=
  if ps.isEmpty then "_" else
  joinWith ";" ((ps.mergeSort lexLe2).map fun c => s!"{c.1},{c.2}")

def showBL (b : BL) : String := s!"ok {b.n} {showTriples b.bonds}"

def showRes {α : Type} (f : α → String) : Res α → String
  | .ok a => f a
  | .err e => "ERR:" ++ e.toString
  | .crash => "CRASH"
  | .ub => "ub"

def parseRows (s : String) (width : Nat) : Option (List (Int × Int × Nat)) :=
  if s == "_" then some [] else
  (s.splitOn ";").mapM fun r =>
    match (r.splitOn ",").mapM String.toInt? with
    | some [a, b] => if width == 2 then some (a, b, 0) else none
    | some [a, b, t] => if width == 3 && t ≥ 0 then some (a, b, t.toNat) else none
    | _ => none

def parseRowsI (s : String) (width : Nat) : Option (List (Int × Int × Int)) :=
  if s == "_" then some [] else
  (s.splitOn ";").mapM fun r =>
    match (r.splitOn ",").mapM String.toInt? with
    | some [a, b] => if width == 2 then some (a, b, 0) else none
    | some [a, b, t] => if width == 3 then some (a, b, t) else none
    | _ => none

/-- constructor ops with signed bond types: (toAux, n, typed, rows) -/
def ctorOp : List String → Option (Bool × Nat × Bool × List (Int × Int × Int))
  | ["new", n, rows] => do let n ← n.toNat?; let r ← parseRowsI rows 3; pure (false, n, true, r)
  | ["aux", n, rows] => do let n ← n.toNat?; let r ← parseRowsI rows 3; pure (true, n, true, r)
  | ["new2", n, rows] => do let n ← n.toNat?; let r ← parseRowsI rows 2; pure (false, n, false, r)
  | _ => none

/-- maximum of the narrow integer dtype named by an `@` token (`none`: 64-bit, cannot refuse an atom count) -/
def dtypeMax (ws : List String) : Option Nat :=
  if ws.contains "@i8" then some 127 else if ws.contains "@i16" then some 32767
  else if ws.contains "@i32" then some 2147483647 else if ws.contains "@u8" then some 255
  else if ws.contains "@u16" then some 65535 else if ws.contains "@u32" then some 4294967295 else none

def parseBits (s : String) : Option (List Bool) :=
  if s == "_" then some [] else
  s.toList.mapM fun c => if c == '1' then some true else if c == '0' then some false else none

def optInt (s : String) : Option (Option Int) :=
  if s == "-" then some none else s.toInt?.map some

def parseIdx : List String → Option Idx
  | ["mask", m] => (parseBits m).map Idx.mask
  | ["smask", m] => (parseBits m).map Idx.smask
  | ["blist", m] => (parseBits m).map Idx.blist
  | ["arr", xs] => (parseInts xs).map Idx.arr
  | ["list", xs] => (parseInts xs).map Idx.arr
  | ["slice", a, b, c] =>
    match optInt a, optInt b, optInt c with
    | some a, some b, some c => some (Idx.slice a b c)
    | _, _, _ => none
  | _ => none

def parseOp : List String → Option Op
  | ["new", n, rows] => do let n ← n.toNat?; let r ← parseRows rows 3; pure (Op.new false n true r)
  | ["aux", n, rows] => do let n ← n.toNat?; let r ← parseRows rows 3; pure (Op.new true n true r)
  | ["new2", n, rows] => do let n ← n.toNat?; let r ← parseRows rows 2; pure (Op.new false n false r)
  | ["swap"] => some .swap
  | ["dup"] => some .dup
  | ["add2", i, j] => do let i ← i.toInt?; let j ← j.toInt?; pure (Op.add i j 0)      -- default bond_type = ANY
  | ["add", i, j, t] => do let i ← i.toInt?; let j ← j.toInt?; let t ← t.toInt?; pure (Op.add i j t)
  | ["remove", i, j] => do let i ← i.toInt?; let j ← j.toInt?; pure (Op.remove i j)
  | ["remove_to", i] => do let i ← i.toInt?; pure (Op.removeTo i)
  | ["remove_bonds"] => some .removeBonds
  | ["merge"] => some .merge
  | ["concat"] => some .concat
  | ["concat3"] => some .concat3
  | ["offset", k] => do let k ← k.toInt?; pure (Op.offset k)
  | ["rm_arom"] => some .rmArom
  | ["rm_order"] => some .rmOrder
  | "getitem" :: rest => (parseIdx rest).map Op.getitem
  | _ => none

def showMatrixRow (r : List (Option Nat)) : String :=
  joinWith "," (r.map fun x => match x with | some t => toString t | none => "-1")

def bar (rows : List String) : String := if rows.isEmpty then "_" else joinWith "|" rows

/-- view operations: the state is not changed -/
def view (st : State) : List String → Option String
  | ["get_bonds", i] => do let i ← i.toInt?; pure (showRes (fun r => "ok " ++ showPairs r) (getBonds st.cur i))
  | ["getitem", "int", i] => do let i ← i.toInt?; pure (showRes (fun r => "ok " ++ showPairs r) (getBonds st.cur i))
  | ["all_bonds"] =>
    some (showRes (fun rows => "ok " ++ bar (rows.map fun r => showPairs (r.filterMap id))) (getAllBonds st.cur))
  | ["adj"] =>
    some (showRes (fun m => "ok " ++ bar (m.map fun r => String.ofList (r.map fun b => if b then '1' else '0'))) (adjacencyMatrix st.cur))
  | ["types"] => some (showRes (fun m => "ok " ++ bar (m.map showMatrixRow)) (bondTypeMatrix st.cur))
  | ["graph"] => some ("ok " ++ showTriples (asGraph st.cur))
  | ["contains", i, j] => do
    let i ← i.toInt?; let j ← j.toInt?
    pure (showRes (fun b => if b then "ok 1" else "ok 0") (containsPair st.cur i j))
  | ["eq"] => some (if beq st.cur st.aux then "ok 1" else "ok 0")
  | ["count"] => some s!"ok {st.cur.bonds.length} {st.cur.n}"
  | _ => none

def step (st : State) (line : String) : State × String :=
  -- a trailing `@dtype` token only says which integer *object* carries the index (NumPy scalar / array dtype): the
  -- model is about the number
  let ws := words line
  let w := ws.filter (fun t => !t.startsWith "@")
  let layout : Layout :=
    if ws.contains "@be" then .byteSwapped else if ws.contains "@ro" then .readOnly else .native
  match view st w with
  | some out => (st, out)
  | none =>
    match ctorOp w with
    | some (toAux, n, typed, rows) =>
      match newBLFull n typed rows (dtypeMax ws) with
      | .ok b => ((if toAux then { st with aux := b } else { st with cur := b }), showBL b)
      | .err e => (st, "ERR:" ++ e.toString)
      | .crash => (st, "CRASH")
      | .ub => (st, "ub")
    | none =>
    match parseOp w with
    | none => (st, "unmodelled")
    | some op =>
      -- the functions with C widths / dtypes / layouts; they coincide with `apply` inside the size bounds
      let r : Res State := match op with
        | .getitem ix => (getitemFull st.cur ix layout (dtypeMax ws)).toState st
        | .concat => (concatenateFull [st.cur, st.aux]).toState st
        | .concat3 => (concatenateFull [st.cur, st.aux, st.cur]).toState st
        | .offset k => (offsetFull st.cur k).toState st
        | .dup => (match copyFull st.cur with | .ok b => .ok { st with aux := b } | .err e => .err e | .crash => .crash | .ub => .ub)
        | op => apply st op
      match r with
      | .ok st' =>
        let shown := match op with
          | .new true _ _ _ => st'.aux
          | .dup => st'.aux
          | _ => st'.cur
        (st', showBL shown)
      | .err e => (st, "ERR:" ++ e.toString)
      | .crash => (st, "CRASH")
      | .ub => (st, "ub")

def main : IO Unit := loop State.init step

end BiotiteModel.Driver.C02
